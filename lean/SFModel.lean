-- This module serves as the root of the `SFModel` library.
-- Import modules here that should be built as part of the library.
import SFModel.Basic
