/-
  Line-protocol driver: one op per line on stdin, one answer per line on stdout.
  Run with `lake env lean --run Driver.lean`.  Unknown or malformed ops answer `bad-op`
  (never a default).
-/
import SFModel.Drv.All

open SF

def handlers : List (List SExp → Option String) := Drv.allHandlers

def dispatch (line : String) : String :=
  match SExp.parseLine line with
  | none => "bad-op"
  | some [] => "bad-op"
  | some toks =>
    match handlers.findSome? (fun h => h toks) with
    | some out => out
    | none => "bad-op"

partial def loop (h : IO.FS.Stream) (out : IO.FS.Stream) : IO Unit := do
  let line ← h.getLine
  if line.isEmpty then return ()
  out.putStrLn (dispatch line)
  loop h out

def main : IO Unit := do
  let out ← IO.getStdout
  loop (← IO.getStdin) out
  out.flush
