/-
  SFModel.BlocksResize — model of `TypeBlocks.resize_blocks(index_ic, columns_ic, fill_value)`
  (static_frame/core/type_blocks.py), the generator behind `Frame.reindex` and therefore behind every
  label alignment of the Frame operators, AT THE BLOCK LEVEL: the per-block branches of the code.

  The layout-free version (column granularity) is `SetOps.resizeCols` (SetOps.lean, property C06);
  this file reuses its `IC` (= `IndexCorrespondence`: `has_common`, `is_subset`, `iloc_src`,
  `iloc_dst`, `size`), `gather` (`a[iloc]`), `scatter` (`a[iloc] = vals`), `dstToSrc`
  (`dict(zip(iloc_dst, iloc_src))`) and mirrors, branch by branch:

    (1) both correspondences `None`      → the blocks as they are
    (2) rows only                        → per block `b[iloc_src]` when `is_subset` (1-D and 2-D alike:
                                           a 2-D block stays ONE 2-D block), else
                                           `full_for_fill(b.dtype, shape, fill)` and, when `has_common`,
                                           `values[iloc_dst] = b[iloc_src]`
    (3) columns only                     → nothing in common: ONE fill block of width `size`;
                                           `self.unified and is_subset`: the single block
                                           column-selected `b[:, iloc_src]` (a 1-D block is yielded as it
                                           is); else the `dst_to_src` loop over `range(size)` with the
                                           `self._index[...]` lookups, one 1-D column (or one fill column)
                                           per destination position
    (4) both                             → nothing in common on BOTH axes: one fill block;
                                           `self.unified` and both subsets:
                                           `b[iloc_src_fancy(), columns_ic.iloc_src]`; else the
                                           per-destination-column loop with the row treatment of (2)
                                           applied to the column

  `iloc_src` of a subset correspondence is a REORDERING in general (the destination order): nothing
  here assumes ascending positions — `gather` reads the positions in the order given.

  Parameters (dtype machinery that is not modelled here, as in BlocksShift.lean):
    * `resolve : DT → DT → DT`   `util.resolve_dtype`; `full_for_fill(dtype, shape, fill)` allocates
                                 with `resolve dtype (dtype_from_element fill)` (`dtype = None`: the
                                 fill's own dtype `fillDT`)
    * `conv : DT → DT → α → α`   NumPy's conversion of a cell stored with dtype `s` when it is
                                 assigned into an array of dtype `d` (`values[iloc_dst] = b[iloc_src]`);
                                 the fill as stored in an array of dtype `d` is `conv fillDT d fill`.

  No Mathlib import: the driver loads this file.
-/
import SFModel.Blocks
import SFModel.SetOps

namespace SF

namespace SetOps

/-- WELL-FORMEDNESS of an `IndexCorrespondence` against a source axis of length `srcLen`: what
    `IndexCorrespondence.from_correspondence` establishes for two duplicate-free label lists
    (`fromCorrespondence_wf`, Props/C03Resize.lean):
    `iloc_src` / `iloc_dst` pair source with destination positions (equally long, in range, no
    position twice — in ANY order); `has_common` says whether there is such a pair; `is_subset` (the
    destination is a reordering / sub-selection of the source) implies `has_common` and
    `iloc_dst = arange(size)`. -/
def IC.WF (ic : IC) (srcLen : Nat) : Prop :=
  ic.ilocSrc.length = ic.ilocDst.length ∧
  (∀ i ∈ ic.ilocSrc, i < srcLen) ∧ (∀ i ∈ ic.ilocDst, i < ic.size) ∧
  ic.ilocSrc.Nodup ∧ ic.ilocDst.Nodup ∧
  (ic.hasCommon = true ↔ ic.ilocSrc ≠ []) ∧
  (ic.isSubset = true → ic.hasCommon = true ∧ ic.ilocDst = List.range ic.size)

instance (ic : IC) (n : Nat) : Decidable (ic.WF n) := by unfold IC.WF; infer_instance

/-- an optional correspondence (`None` = the axis is kept) -/
def OptWF (oic : Option IC) (srcLen : Nat) : Prop :=
  match oic with
  | none => True
  | some ic => ic.WF srcLen

instance (oic : Option IC) (n : Nat) : Decidable (OptWF oic n) := by
  unfold OptWF; cases oic <;> infer_instance

/-- length of the axis after `resize_blocks` -/
def newLen (oic : Option IC) (cur : Nat) : Nat :=
  match oic with
  | none => cur
  | some ic => ic.size

/-- the `for idx in range(columns_ic.size)` loop of `resize_blocks` for columns of any
    representation (`SetOps.colLoop` is the instance `γ := List β`) -/
def colLoopG {γ : Type} (cic : IC) (cols : List γ) (g : γ → Except Err γ) (fillCol : γ) :
    Except Err (List γ) :=
  mapMExcept (fun idx =>
    match dstToSrc cic idx with
    | some j => match cols[j]? with
      | some col => g col
      | none => .error .lookup
    | none => .ok fillCol) (List.range cic.size)

end SetOps

open SetOps (IC gather scatter dstToSrc mapMExcept)

/-- `a[iloc]` with a list of integer positions on one axis (in the order given); a position out of
    range is an IndexError -/
def gatherE {β : Type} (l : List β) (is : List Nat) : Except Err (List β) :=
  match gather l is with
  | some g => .ok g
  | none => .error .lookup

section env
variable {α : Type} (resolve : DT → DT → DT) (conv : DT → DT → α → α)

/-- dtype of `full_for_fill(dtype, shape, fill_value)`:
    `resolve_dtype(dtype, dtype_from_element(fill_value))`, or the fill's own dtype for `None` -/
def fullForFillDT (dt : Option DT) (fillDT : DT) : DT :=
  match dt with
  | some d => resolve d fillDT
  | none => fillDT

/-- one cell of `full_for_fill(dtype, shape, fill_value)` -/
def fullForFillCell (dt : Option DT) (fill : α) (fillDT : DT) : α :=
  conv fillDT (fullForFillDT resolve dt fillDT) fill

/-- `full_for_fill(dtype, n, fill_value)` (1-D) -/
def fullForFill1 (dt : Option DT) (n : Nat) (fill : α) (fillDT : DT) : Block α :=
  .d1 (fullForFillDT resolve dt fillDT) (List.replicate n (fullForFillCell resolve conv dt fill fillDT))

/-- `full_for_fill(dtype, (n, w), fill_value)` (2-D, column-major here) -/
def fullForFill2 (dt : Option DT) (n w : Nat) (fill : α) (fillDT : DT) : Block α :=
  .d2 (fullForFillDT resolve dt fillDT)
    (List.replicate w (List.replicate n (fullForFillCell resolve conv dt fill fillDT)))

/-- `values[iloc_dst] = vals` along axis 0 (one lane): NumPy converts the assigned cells to the
    dtype of `values` (`cv`); unequal lengths / a position out of range raise -/
def assignRows (values : List α) (dst : List Nat) (vals : List α) (cv : α → α) : Except Err (List α) :=
  match scatter values dst (vals.map cv) with
  | some r => .ok r
  | none => .error .lookup

/-- one lane (a 1-D array, or one column of a 2-D array) of
    `values = full_for_fill(b.dtype, shape, fill); if has_common: values[iloc_dst] = b[iloc_src]`;
    `cell` is the stored fill, `cv` the conversion into the dtype of `values` -/
def fillLane (ic : IC) (cell : α) (cv : α → α) (col : List α) : Except Err (List α) :=
  let values := List.replicate ic.size cell
  if ic.hasCommon then
    match gatherE col ic.ilocSrc with
    | .error e => .error e
    | .ok g => assignRows values ic.ilocDst g cv
  else .ok values

/-- dtype of an array of dtype `t` after the row treatment: `b[iloc_src]` keeps it, the fill route
    goes through `full_for_fill(b.dtype, …)` -/
def rowsDT (ic : IC) (t fillDT : DT) : DT :=
  if ic.isSubset then t else fullForFillDT resolve (some t) fillDT

/-- THE ROW TREATMENT of one lane of an array of dtype `t`:
    `if index_ic.is_subset: b[index_ic.iloc_src]  else: full_for_fill + scatter` -/
def rowsLane (ic : IC) (t : DT) (fill : α) (fillDT : DT) (col : List α) : Except Err (List α) :=
  if ic.isSubset then gatherE col ic.ilocSrc
  else
    let t' := fullForFillDT resolve (some t) fillDT
    fillLane ic (fullForFillCell resolve conv (some t) fill fillDT) (conv t t') col

/-- the row treatment of a typed column -/
def rowsCol (ic : IC) (fill : α) (fillDT : DT) (x : DT × List α) : Except Err (DT × List α) :=
  (rowsLane resolve conv ic x.1 fill fillDT x.2).map (rowsDT resolve ic x.1 fillDT, ·)

/-- branch (2), ONE block: `b[index_ic.iloc_src]` ("works for both 1d and 2d arrays"), or the fill
    array of shape `size` / `(size, b.shape[1])` receiving the common rows — a 2-D block stays one
    2-D block, every column of it treated alike -/
def Block.resizeRows (ic : IC) (fill : α) (fillDT : DT) : Block α → Except Err (Block α)
  | .d1 t c => (rowsLane resolve conv ic t fill fillDT c).map (.d1 (rowsDT resolve ic t fillDT))
  | .d2 t cs =>
    (mapMExcept (rowsLane resolve conv ic t fill fillDT) cs).map (.d2 (rowsDT resolve ic t fillDT))

/-- a typed column as the 1-D array the loops yield -/
def toD1 (x : DT × List α) : Block α := .d1 x.1 x.2

namespace TB

/-- `block_idx, block_col = self._index[j]; b = self._blocks[block_idx]`, then the column as the
    loops read it: `b` itself (1-D) or `b[:, block_col]`, with the block's dtype -/
def columnAt (tb : TB α) (j : Nat) : Except Err (DT × List α) :=
  match tb.index[j]? with
  | none => .error .lookup
  | some (bi, bc) =>
    match tb.blocks[bi]? with
    | none => .error .lookup
    | some (.d1 t c) => .ok (t, c)
    | some (.d2 t cs) =>
      match cs[bc]? with
      | some c => .ok (t, c)
      | none => .error .lookup

/-- `TypeBlocks.resize_blocks(index_ic=iic, columns_ic=cic, fill_value=fill)`: the blocks it yields
    (`fillDT = dtype_from_element(fill)`). -/
def resizeBlocks (tb : TB α) (iic cic : Option IC) (fill : α) (fillDT : DT) :
    Except Err (List (Block α)) :=
  match cic, iic with
  | none, none => .ok tb.blocks                                   -- (1)
  | none, some ic =>                                              -- (2) rows only
    mapMExcept (Block.resizeRows resolve conv ic fill fillDT) tb.blocks
  | some cc, none =>                                              -- (3) columns only
    if !cc.hasCommon then
      -- no columns in common: `full_for_fill(None, (self.shape[0], columns_ic.size), fill_value)`
      .ok [fullForFill2 resolve conv none tb.rows cc.size fill fillDT]
    else if decide (tb.blocks.length ≤ 1) && cc.isSubset then     -- `self.unified and columns_ic.is_subset`
      match tb.blocks[0]? with                                    -- `b = self._blocks[0]`
      | none => .error .lookup
      | some (Block.d1 t c) => .ok [.d1 t c]                      -- `if b.ndim == 1: yield b`
      | some (Block.d2 t cs) => (gatherE cs cc.ilocSrc).map fun g => [.d2 t g]   -- `b[:, columns_ic.iloc_src]`
    else
      -- `dst_to_src = dict(zip(iloc_dst, iloc_src)); for idx in range(columns_ic.size)`
      mapMExcept (fun idx =>
        match dstToSrc cc idx with
        | some j => (tb.columnAt j).map toD1
        | none => .ok (fullForFill1 resolve conv none tb.rows fill fillDT)) (List.range cc.size)
  | some cc, some ic =>                                           -- (4) both
    if !cc.hasCommon && !ic.hasCommon then
      -- "return an empty frame": `full_for_fill(None, (index_ic.size, columns_ic.size), fill_value)`
      .ok [fullForFill2 resolve conv none ic.size cc.size fill fillDT]
    else if decide (tb.blocks.length ≤ 1) && ic.isSubset && cc.isSubset then
      match tb.blocks[0]? with
      | none => .error .lookup
      | some (Block.d1 t c) => (gatherE c ic.ilocSrc).map fun g => [.d1 t g]     -- `b[index_ic.iloc_src]`
      | some (Block.d2 t cs) =>
        -- `b[index_ic.iloc_src_fancy(), columns_ic.iloc_src]`: the rows `iloc_src` of the columns `iloc_src`
        match gatherE cs cc.ilocSrc with
        | .error e => .error e
        | .ok sel => (mapMExcept (fun c => gatherE c ic.ilocSrc) sel).map fun g => [.d2 t g]
    else
      -- `columns_dst_to_src = dict(zip(...)) if columns_ic.has_common else {}`
      let colsDstToSrc : Nat → Option Nat := fun idx => if cc.hasCommon then dstToSrc cc idx else none
      mapMExcept (fun idx =>
        match colsDstToSrc idx with
        | some j =>
          match tb.columnAt j with
          | .error e => .error e
          | .ok x => (rowsCol resolve conv ic fill fillDT x).map toD1
        | none => .ok (fullForFill1 resolve conv none ic.size fill fillDT)) (List.range cc.size)

/-- what `Frame.reindex` does with the generator:
    `TypeBlocks.from_blocks(resize_blocks(…), shape_reference=(len(index), len(columns)))`, then the
    Frame constructor, which checks the shape against the new labels (ErrorInitFrame). -/
def resized (tb : TB α) (iic cic : Option IC) (fill : α) (fillDT : DT) : Except Err (TB α) :=
  match tb.resizeBlocks resolve conv iic cic fill fillDT with
  | .error e => .error e
  | .ok bs =>
    match fromBlocks bs (some (SetOps.newLen iic tb.rows)) with
    | .error e => .error e
    | .ok res =>
      if res.ncols ≠ SetOps.newLen cic tb.ncols ∨ res.rows ≠ SetOps.newLen iic tb.rows then .error .init
      else .ok res

end TB

/-! ### layout-free specification on the list of `(dtype, column)` -/

/-- one typed column through the optional row correspondence, stated with the layout-free row
    treatment of C06 (`SetOps.resizeColBoth`): a subset selection keeps the dtype and the cells; the
    fill route converts the cells to `resolve t fillDT` and fills with the converted fill value -/
def resizeColDT (iic : Option IC) (fill : α) (fillDT : DT) (x : DT × List α) : Except Err (DT × List α) :=
  match iic with
  | none => .ok x
  | some ic =>
    if ic.isSubset then (SetOps.resizeColBoth ic fill x.2).map (x.1, ·)
    else
      let t' := resolve x.1 fillDT
      (SetOps.resizeColBoth ic (conv fillDT t' fill) (x.2.map (conv x.1 t'))).map (t', ·)

/-- a column no source column corresponds to: `full_for_fill(None, n, fill)` -/
def fillColDT (n : Nat) (fill : α) (fillDT : DT) : DT × List α :=
  (fillDT, List.replicate n (conv fillDT fillDT fill))

/-- THE SPECIFICATION (no blocks, no fast paths): `SetOps.resizeCols` with dtypes — every column
    through the row correspondence; with a column correspondence, destination position `idx` holds
    the treated source column `dst_to_src[idx]`, or a fill column. -/
def resizeSpec (rows : Nat) (iic cic : Option IC) (fill : α) (fillDT : DT) (cols : List (DT × List α)) :
    Except Err (List (DT × List α)) :=
  match cic with
  | none => mapMExcept (resizeColDT resolve conv iic fill fillDT) cols
  | some cc =>
    SetOps.colLoopG cc cols (resizeColDT resolve conv iic fill fillDT)
      (fillColDT conv (SetOps.newLen iic rows) fill fillDT)

/-- THE DTYPE RULE, layout-free: a column that only passes through a subset selection (or through
    no row correspondence) keeps its dtype; a column that receives fill cells has
    `resolve t fillDT` (`full_for_fill(b.dtype, …)`); a column without source has the fill's dtype. -/
def rowDT (iic : Option IC) (fillDT : DT) (t : DT) : DT :=
  match iic with
  | none => t
  | some ic => if ic.isSubset then t else resolve t fillDT

def resizeDTypes (iic cic : Option IC) (fillDT : DT) (dts : List DT) : List DT :=
  match cic with
  | none => dts.map (rowDT resolve iic fillDT)
  | some cc => (List.range cc.size).map fun idx =>
      match dstToSrc cc idx with
      | some j => (match dts[j]? with | some t => rowDT resolve iic fillDT t | none => fillDT)
      | none => fillDT

end env

end SF
