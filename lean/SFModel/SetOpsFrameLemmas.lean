/- Helper lemmas for SFModel.SetOps, part 3: Frame.reindex (resize_blocks) and Frame operators. -/
import SFModel.SetOpsLemmas2

namespace SF
namespace SetOps

section
variable {α β : Type} [DecidableEq α]

/-! ### the correspondence in terms of the common labels -/

theorem map_idxOf_self {ls : List α} (h : ls.Nodup) :
    ls.map (ls.idxOf ·) = List.range ls.length := by
  apply List.ext_getElem?
  intro i
  by_cases hi : i < ls.length
  · rw [List.getElem?_map, List.getElem?_eq_getElem hi, List.getElem?_range hi]
    simp [h.idxOf_getElem i hi]
  · have hi' : ls.length ≤ i := by omega
    rw [List.getElem?_eq_none (by simpa using hi'), List.getElem?_eq_none (by simpa using hi')]

/-- Both branches of `from_correspondence` in one shape: positions of the common labels `keys`
    in the source and in the destination. -/
theorem fromCorrespondence_keys {o : PyOrd α} (ho : o.Lawful) (src dst : Idx α)
    (hs : src.labels.Nodup) (hd : dst.labels.Nodup) {ic : IC}
    (h : fromCorrespondence o src dst = some ic) :
    ∃ keys : List α, keys.Nodup ∧ (∀ k, k ∈ keys ↔ k ∈ src.labels ∧ k ∈ dst.labels) ∧
      ic.ilocSrc = keys.map (src.labels.idxOf ·) ∧ ic.ilocDst = keys.map (dst.labels.idxOf ·) ∧
      ic.size = dst.labels.length ∧ (ic.hasCommon = true ↔ keys ≠ []) := by
  obtain ⟨hmem, hnd⟩ := common_spec ho src dst hs hd
  unfold fromCorrespondence at h
  generalize ufuncSet1d o .inter src.kind dst.kind src.labels dst.labels true = common at hmem hnd h
  simp only [] at h
  have hcs : ∀ k ∈ common, k ∈ src.labels := fun k hk => ((hmem k).mp hk).1
  have hcd : ∀ k ∈ common, k ∈ dst.labels := fun k hk => ((hmem k).mp hk).2
  by_cases hc : common.length > 0
  · rw [if_pos (by simpa using hc)] at h
    by_cases hfull : common.length = dst.labels.length
    · rw [if_pos hfull] at h
      have hds : ∀ k ∈ dst.labels, k ∈ src.labels := by
        intro k hk
        exact hcs k (subset_of_nodup_length_ge hnd hcd (by omega) k hk)
      rw [locsOf_of_subset hds] at h
      simp only [Option.some.injEq] at h
      subst h
      refine ⟨dst.labels, hd, ?_, rfl, (map_idxOf_self hd).symm, rfl, ?_⟩
      · intro k; exact ⟨fun hk => ⟨hds k hk, hk⟩, fun hk => hk.2⟩
      · simp only [true_iff]
        intro he
        have : common.length = 0 := by rw [hfull, he]; rfl
        omega
    · rw [if_neg hfull, locsOf_of_subset hcs, locsOf_of_subset hcd] at h
      simp only [Option.some.injEq] at h
      subst h
      refine ⟨common, hnd, hmem, rfl, rfl, rfl, ?_⟩
      simp only [true_iff]
      intro he
      rw [he] at hc
      simp at hc
  · rw [if_neg (by simpa using hc)] at h
    simp only [Option.some.injEq] at h
    subst h
    have hce : common = [] := List.length_eq_zero_iff.mp (by omega)
    refine ⟨common, hnd, hmem, by simp [hce], by simp [hce], rfl, ?_⟩
    simp [hce]

/-! ### dict(zip(iloc_dst, iloc_src)) -/

theorem lookup_zip_map {κ : Type} (ks : List κ) (f g : κ → Nat)
    (hinj : ∀ a ∈ ks, ∀ b ∈ ks, f a = f b → a = b) (k : κ) (hk : k ∈ ks) :
    ((ks.map f).zip (ks.map g)).lookup (f k) = some (g k) := by
  induction ks with
  | nil => simp at hk
  | cons a ks ih =>
    simp only [List.map_cons, List.zip_cons_cons, List.lookup_cons]
    by_cases hfa : f k = f a
    · have : k = a := hinj k hk a (by simp) hfa
      subst this
      simp
    · have hne : (f k == f a) = false := by simpa using hfa
      rw [hne]
      have hk' : k ∈ ks := by
        rcases List.mem_cons.mp hk with h | h
        · exact absurd (h ▸ rfl) hfa
        · exact h
      exact ih (fun x hx y hy => hinj x (by simp [hx]) y (by simp [hy])) hk'

theorem lookup_zip_map_none {κ : Type} (ks : List κ) (f g : κ → Nat) (i : Nat)
    (h : ∀ a ∈ ks, f a ≠ i) : ((ks.map f).zip (ks.map g)).lookup i = none := by
  induction ks with
  | nil => simp
  | cons a ks ih =>
    simp only [List.map_cons, List.zip_cons_cons, List.lookup_cons]
    have hne : (i == f a) = false := by
      have := h a (by simp)
      simpa using fun hh => this hh.symm
    rw [hne]
    exact ih (fun x hx => h x (by simp [hx]))

theorem mapMExcept_ok {γ δ : Type} {f : γ → Except Err δ} {f' : γ → δ} {l : List γ}
    (h : ∀ x ∈ l, f x = .ok (f' x)) : mapMExcept f l = .ok (l.map f') := by
  induction l with
  | nil => rfl
  | cons x xs ih =>
    unfold mapMExcept
    rw [h x (by simp), ih (fun y hy => h y (by simp [hy]))]
    rfl

/-- The column loop of `resize_blocks`: every destination column label holds the (treated) source
    column of the same label, or the fill column. -/
theorem colLoop_spec {o : PyOrd α} (ho : o.Lawful) (src dst : Idx α) (hs : src.labels.Nodup)
    (hd : dst.labels.Nodup) {cic : IC} (hcic : fromCorrespondence o src dst = some cic)
    (cols : List (List β)) (hcl : cols.length = src.labels.length)
    (g : List β → Except Err (List β)) (g' : List β → List β) (hg : ∀ col ∈ cols, g col = .ok (g' col))
    (fc : List β) :
    ∃ outs, colLoop cic cols g fc = .ok outs ∧ outs.length = dst.labels.length ∧
      ∀ c ∈ dst.labels, lookup dst.labels outs c =
        some (match lookup src.labels cols c with
              | some col => g' col
              | none => fc) := by
  obtain ⟨keys, hkn, hkm, hsrc, hdst, hsize, _⟩ := fromCorrespondence_keys ho src dst hs hd hcic
  have hinj : ∀ a ∈ keys, ∀ b ∈ keys, dst.labels.idxOf a = dst.labels.idxOf b → a = b :=
    fun a ha b _ hab => idxOf_inj ((hkm a).mp ha).2 hab
  -- what the loop body returns at the position of label `c`
  have hbody : ∀ c ∈ dst.labels,
      (match dstToSrc cic (dst.labels.idxOf c) with
        | some j => match cols[j]? with
          | some col => g col
          | none => .error .lookup
        | none => .ok fc) =
      .ok (match lookup src.labels cols c with
            | some col => g' col
            | none => fc) := by
    intro c hc
    by_cases hck : c ∈ keys
    · have hcs : c ∈ src.labels := ((hkm c).mp hck).1
      have h1 : dstToSrc cic (dst.labels.idxOf c) = some (src.labels.idxOf c) := by
        unfold dstToSrc
        rw [hsrc, hdst]
        exact lookup_zip_map keys _ _ hinj c hck
      rw [h1, lookup_of_mem hcs]
      have hlt : src.labels.idxOf c < cols.length := hcl ▸ List.idxOf_lt_length_iff.mpr hcs
      simp only [List.getElem?_eq_getElem hlt]
      exact hg _ (List.getElem_mem hlt)
    · have hcs : c ∉ src.labels := fun h => hck ((hkm c).mpr ⟨h, hc⟩)
      have h1 : dstToSrc cic (dst.labels.idxOf c) = none := by
        unfold dstToSrc
        rw [hsrc, hdst]
        apply lookup_zip_map_none
        intro a ha hh
        exact hck (idxOf_inj ((hkm a).mp ha).2 hh ▸ ha)
      rw [h1, lookup_of_not_mem hcs]
  let F : Nat → List β := fun idx =>
    match dst.labels[idx]? with
    | some c => (match lookup src.labels cols c with
                 | some col => g' col
                 | none => fc)
    | none => fc
  have hall : ∀ idx ∈ List.range cic.size,
      (fun idx => match dstToSrc cic idx with
        | some j => match cols[j]? with
          | some col => g col
          | none => .error .lookup
        | none => .ok fc) idx = .ok (F idx) := by
    intro idx hidx
    have hlt : idx < dst.labels.length := by simpa [hsize] using hidx
    have := hbody dst.labels[idx] (List.getElem_mem hlt)
    rw [hd.idxOf_getElem idx hlt] at this
    simp only [F, List.getElem?_eq_getElem hlt]
    exact this
  refine ⟨(List.range cic.size).map F, ?_, by simp [hsize], ?_⟩
  · unfold colLoop
    exact mapMExcept_ok hall
  · intro c hc
    have hlt : dst.labels.idxOf c < dst.labels.length := List.idxOf_lt_length_iff.mpr hc
    rw [lookup_of_mem hc, List.getElem?_map, hsize, List.getElem?_range hlt]
    simp only [Option.map_some, F, List.getElem?_eq_getElem hlt, List.getElem_idxOf hlt]

/-! ### one column through the index correspondence -/

/-- the row treatment of a column when only the index changes -/
def rowG (ic : IC) (fill : β) (col : List β) : Except Err (List β) :=
  match reindexValues ic fill col with
  | some r => .ok r
  | none => .error .lookup

theorem resizeColBoth_eq (ic : IC) (fill : β) (col : List β) :
    resizeColBoth ic fill col = rowG ic fill col := by
  unfold resizeColBoth rowG reindexValues
  by_cases hsub : ic.isSubset = true
  · simp only [hsub, if_true]
    cases gather col ic.ilocSrc <;> rfl
  · by_cases h : ic.hasCommon = true
    · simp only [hsub, h, if_true, Bool.false_eq_true, if_false]
      cases gather col ic.ilocSrc with
      | none => rfl
      | some g => rfl
    · simp only [hsub, h, Bool.false_eq_true, if_false]

theorem rowG_spec {o : PyOrd α} (ho : o.Lawful) (src dst : Idx α) (hs : src.labels.Nodup)
    (hd : dst.labels.Nodup) {ic : IC} (hic : fromCorrespondence o src dst = some ic) (fill : β)
    (col : List β) (hl : col.length = src.labels.length) :
    ∃ out, rowG ic fill col = .ok out ∧ out.length = dst.labels.length ∧
      ∀ r ∈ dst.labels, lookup dst.labels out r = some ((lookup src.labels col r).getD fill) := by
  obtain ⟨ic', out, hic', _, hout, hlen, hval⟩ := reindexValues_spec ho src dst col fill hs hd hl
  rw [hic] at hic'
  cases hic'
  exact ⟨out, by simp [rowG, hout], hlen, hval⟩

/-- `g'` for `rowG`: the successful result -/
def rowG' (ic : IC) (fill : β) (col : List β) : List β :=
  match rowG ic fill col with
  | .ok r => r
  | .error _ => []

theorem rowG_ok {o : PyOrd α} (ho : o.Lawful) (src dst : Idx α) (hs : src.labels.Nodup)
    (hd : dst.labels.Nodup) {ic : IC} (hic : fromCorrespondence o src dst = some ic) (fill : β)
    (col : List β) (hl : col.length = src.labels.length) :
    rowG ic fill col = .ok (rowG' ic fill col) ∧ (rowG' ic fill col).length = dst.labels.length ∧
      ∀ r ∈ dst.labels,
        lookup dst.labels (rowG' ic fill col) r = some ((lookup src.labels col r).getD fill) := by
  obtain ⟨out, hout, hlen, hval⟩ := rowG_spec ho src dst hs hd hic fill col hl
  have : rowG' ic fill col = out := by simp [rowG', hout]
  rw [this]
  exact ⟨hout, hlen, hval⟩

/-! ### Frame cells -/

theorem Frame.get?_eq {f : Frame α β} {r c : α} {col : List β}
    (h : lookup f.columns.labels f.cols c = some col) : f.get? r c = lookup f.index.labels col r := by
  simp [Frame.get?, h]

theorem Frame.col_mem {f : Frame α β} {c : α} {col : List β}
    (h : lookup f.columns.labels f.cols c = some col) : col ∈ f.cols := by
  by_cases hm : c ∈ f.columns.labels
  · rw [lookup_of_mem hm] at h
    exact List.mem_of_getElem? h
  · rw [lookup_of_not_mem hm] at h
    cases h

theorem Frame.get?_isSome {f : Frame α β} (hf : f.WF) {r c : α} (hr : r ∈ f.index.labels)
    (hc : c ∈ f.columns.labels) : ∃ v, f.get? r c = some v := by
  obtain ⟨col, hcol⟩ := lookup_isSome hc hf.2.2.1
  rw [Frame.get?_eq hcol]
  exact lookup_isSome hr (hf.2.2.2 col (Frame.col_mem hcol))

theorem Frame.get?_none_col {f : Frame α β} {r c : α} (hc : c ∉ f.columns.labels) :
    f.get? r c = none := by
  simp [Frame.get?, lookup_of_not_mem hc]

theorem Frame.get?_none_row {f : Frame α β} {r c : α} (hr : r ∉ f.index.labels) :
    f.get? r c = none := by
  unfold Frame.get?
  split
  · exact lookup_of_not_mem hr
  · rfl

theorem lookup_replicate {ls : List α} {l : α} (h : l ∈ ls) (v : β) :
    lookup ls (List.replicate ls.length v) l = some v := by
  rw [lookup_of_mem h]
  simp [List.idxOf_lt_length_iff.mpr h]

/-- hypotheses tying an optional correspondence to the new labels of one axis -/
def AxisOk (o : PyOrd α) (cur ni : Idx α) (oic : Option IC) : Prop :=
  match oic with
  | none => ni.labels = cur.labels
  | some ic => fromCorrespondence o cur ni = some ic

/-- `resize_blocks` is exact in every branch (no axis, one axis, both axes; with or without
    common labels on either axis). -/
theorem resizeCols_spec {o : PyOrd α} (ho : o.Lawful) (f : Frame α β) (hf : f.WF) (ni nc : Idx α)
    (hni : ni.labels.Nodup) (hnc : nc.labels.Nodup) (iic cic : Option IC)
    (hi : AxisOk o f.index ni iic) (hc : AxisOk o f.columns nc cic)
    (fill : β) :
    ∃ cols', resizeCols f.index.labels.length iic cic fill f.cols = .ok cols' ∧
      (⟨ni, nc, cols'⟩ : Frame α β).WF ∧
      ∀ r ∈ ni.labels, ∀ c ∈ nc.labels,
        (⟨ni, nc, cols'⟩ : Frame α β).get? r c = some ((f.get? r c).getD fill) := by
  obtain ⟨hfi, hfc, hfl, hfr⟩ := hf
  cases cic with
  | none =>
    simp only [AxisOk] at hc
    cases iic with
    | none =>
      simp only [AxisOk] at hi
      refine ⟨f.cols, rfl, ⟨hni, hnc, by rw [hc]; exact hfl, by rw [hi]; exact hfr⟩, ?_⟩
      intro r hr c hc'
      have hfr' : r ∈ f.index.labels := hi ▸ hr
      have hfc' : c ∈ f.columns.labels := hc ▸ hc'
      obtain ⟨v, hv⟩ := Frame.get?_isSome ⟨hfi, hfc, hfl, hfr⟩ hfr' hfc'
      rw [hv]
      simp only [Frame.get?, hc, hi] at hv ⊢
      exact hv
    | some iic =>
      simp only [AxisOk] at hi
      have hall : ∀ col ∈ f.cols, rowG iic fill col = .ok (rowG' iic fill col) :=
        fun col hcol => (rowG_ok ho f.index ni hfi hni hi fill col (hfr col hcol)).1
      refine ⟨f.cols.map (rowG' iic fill), ?_, ⟨hni, hnc, by simp [hc, hfl], ?_⟩, ?_⟩
      · unfold resizeCols
        exact mapMExcept_ok hall
      · intro col hcol
        obtain ⟨col0, hcol0, rfl⟩ := List.mem_map.mp hcol
        exact (rowG_ok ho f.index ni hfi hni hi fill col0 (hfr col0 hcol0)).2.1
      · intro r hr c hc'
        have hfc' : c ∈ f.columns.labels := hc ▸ hc'
        obtain ⟨col, hcol⟩ := lookup_isSome hfc' hfl
        have hcm : col ∈ f.cols := Frame.col_mem hcol
        have h1 : lookup nc.labels (f.cols.map (rowG' iic fill)) c = some (rowG' iic fill col) := by
          rw [hc, lookup_of_mem hfc', List.getElem?_map]
          rw [lookup_of_mem hfc'] at hcol
          rw [hcol]; rfl
        rw [Frame.get?_eq hcol]
        simp only [Frame.get?, h1]
        exact (rowG_ok ho f.index ni hfi hni hi fill col (hfr col hcm)).2.2 r hr
  | some cic =>
    simp only [AxisOk] at hc
    obtain ⟨keys, hkn, hkm, _, _, hsize, hcommon⟩ := fromCorrespondence_keys ho f.columns nc hfc hnc hc
    cases iic with
    | none =>
      simp only [AxisOk] at hi
      unfold resizeCols
      simp only []
      by_cases hcc : cic.hasCommon = true
      · rw [if_neg (by simp [hcc])]
        obtain ⟨outs, houts, hlen, hval⟩ := colLoop_spec ho f.columns nc hfc hnc hc f.cols hfl
          .ok id (fun _ _ => rfl) (List.replicate f.index.labels.length fill)
        refine ⟨outs, houts, ⟨hni, hnc, hlen, ?_⟩, ?_⟩
        · intro col hcol
          obtain ⟨j, hj, rfl⟩ := List.mem_iff_getElem.mp hcol
          have hjl : j < nc.labels.length := hlen ▸ hj
          have := hval nc.labels[j] (List.getElem_mem hjl)
          rw [lookup_getElem_of_nodup hnc j hjl, List.getElem?_eq_getElem hj] at this
          simp only [Option.some.injEq] at this
          rw [this]
          split
          · rename_i col0 hcol0
            simp only [id, hi]
            exact hfr col0 (Frame.col_mem hcol0)
          · simp [hi]
        · intro r hr c hc'
          simp only [Frame.get?, hval c hc']
          split
          · rename_i col0 hcol0
            simp only [hcol0, id, hi]
            obtain ⟨v, hv⟩ := lookup_isSome (hi ▸ hr) (hfr col0 (Frame.col_mem hcol0))
            simp [hv]
          · rename_i hnone
            simp only [hnone, Option.getD_none]
            rw [← hi]
            exact lookup_replicate hr fill
      · rw [if_pos (by simpa using hcc)]
        have hke : keys = [] := by
          by_cases hk : keys = []
          · exact hk
          · exact absurd (hcommon.mpr hk) hcc
        refine ⟨_, rfl, ⟨hni, hnc, by simp [hsize], ?_⟩, ?_⟩
        · intro col hcol
          rw [List.eq_of_mem_replicate hcol]
          simp [hi]
        · intro r hr c hc'
          have hcf : c ∉ f.columns.labels := fun h => by
            have := (hkm c).mpr ⟨h, hc'⟩
            simp [hke] at this
          rw [Frame.get?_none_col hcf]
          simp only [Frame.get?, hsize, lookup_replicate hc', Option.getD_none]
          rw [← hi]
          exact lookup_replicate hr fill
    | some iic =>
      simp only [AxisOk] at hi
      obtain ⟨ikeys, _, hikm, _, _, hisize, hicommon⟩ :=
        fromCorrespondence_keys ho f.index ni hfi hni hi
      unfold resizeCols
      simp only []
      by_cases hboth : (!cic.hasCommon && !iic.hasCommon) = true
      · rw [if_pos hboth]
        simp only [Bool.and_eq_true, Bool.not_eq_true'] at hboth
        have hke : keys = [] := by
          by_cases hk : keys = []
          · exact hk
          · have := hcommon.mpr hk
            rw [hboth.1] at this
            cases this
        refine ⟨_, rfl, ⟨hni, hnc, by simp [hsize], ?_⟩, ?_⟩
        · intro col hcol
          rw [List.eq_of_mem_replicate hcol]
          simp [hisize]
        · intro r hr c hc'
          have hcf : c ∉ f.columns.labels := fun h => by
            have := (hkm c).mpr ⟨h, hc'⟩
            simp [hke] at this
          rw [Frame.get?_none_col hcf]
          simp only [Frame.get?, hsize, lookup_replicate hc', Option.getD_none, hisize]
          exact lookup_replicate hr fill
      · rw [if_neg hboth]
        have hgeq : resizeColBoth iic fill = rowG iic fill := by
          funext col; exact resizeColBoth_eq iic fill col
        rw [hgeq]
        have hall : ∀ col ∈ f.cols, rowG iic fill col = .ok (rowG' iic fill col) :=
          fun col hcol => (rowG_ok ho f.index ni hfi hni hi fill col (hfr col hcol)).1
        obtain ⟨outs, houts, hlen, hval⟩ := colLoop_spec ho f.columns nc hfc hnc hc f.cols hfl
          (rowG iic fill) (rowG' iic fill) hall (List.replicate iic.size fill)
        refine ⟨outs, houts, ⟨hni, hnc, hlen, ?_⟩, ?_⟩
        · intro col hcol
          obtain ⟨j, hj, rfl⟩ := List.mem_iff_getElem.mp hcol
          have hjl : j < nc.labels.length := hlen ▸ hj
          have := hval nc.labels[j] (List.getElem_mem hjl)
          rw [lookup_getElem_of_nodup hnc j hjl, List.getElem?_eq_getElem hj] at this
          simp only [Option.some.injEq] at this
          rw [this]
          split
          · rename_i col0 hcol0
            exact (rowG_ok ho f.index ni hfi hni hi fill col0 (hfr col0 (Frame.col_mem hcol0))).2.1
          · simp [hisize]
        · intro r hr c hc'
          simp only [Frame.get?, hval c hc']
          split
          · rename_i col0 hcol0
            simp only [hcol0]
            exact (rowG_ok ho f.index ni hfi hni hi fill col0 (hfr col0 (Frame.col_mem hcol0))).2.2 r hr
          · rename_i hnone
            simp only [hnone, Option.getD_none, hisize]
            exact lookup_replicate hr fill


/-! ### Frame.reindex -/

theorem fromCorrespondence_isSome {o : PyOrd α} (ho : o.Lawful) (src dst : Idx α)
    (hs : src.labels.Nodup) (hd : dst.labels.Nodup) : ∃ ic, fromCorrespondence o src dst = some ic := by
  obtain ⟨ic, _, hic, _⟩ := reindexValues_spec ho src dst (List.replicate src.labels.length ()) ()
    hs hd (by simp)
  exact ⟨ic, hic⟩

theorem axisCorr_spec {o : PyOrd α} (ho : o.Lawful) (cur : Idx α) (hcur : cur.labels.Nodup)
    (new : Option (Idx α)) (hnew : ∀ ni, new = some ni → ni.labels.Nodup) :
    ∃ oic, axisCorr o cur new = .ok (new.getD cur, oic) ∧ AxisOk o cur (new.getD cur) oic ∧
      (new.getD cur).labels.Nodup ∧ (new = none → oic = none) := by
  cases new with
  | none => exact ⟨none, rfl, rfl, hcur, fun _ => rfl⟩
  | some ni =>
    have hni := hnew ni rfl
    unfold axisCorr
    simp only [Option.getD_some]
    split
    · rename_i heq
      exact ⟨none, rfl, (Idx.equals_iff.mp heq).1.symm, hni, fun h => by cases h⟩
    · obtain ⟨ic, hic⟩ := fromCorrespondence_isSome ho cur ni hcur hni
      rw [hic]
      exact ⟨some ic, rfl, hic, hni, fun h => by cases h⟩

/-- `Frame.reindex` never fails on well-formed input and is exact, on one or both axes. -/
theorem Frame.reindex_spec {o : PyOrd α} (ho : o.Lawful) (f : Frame α β) (hf : f.WF)
    (index columns : Option (Idx α)) (hidx : ∀ ni, index = some ni → ni.labels.Nodup)
    (hcol : ∀ nc, columns = some nc → nc.labels.Nodup)
    (fill : β) :
    ∃ r, f.reindex o index columns fill = .ok r ∧ r.WF ∧ r.index = index.getD f.index ∧
      r.columns = columns.getD f.columns ∧
      ∀ x ∈ r.index.labels, ∀ c ∈ r.columns.labels, r.get? x c = some ((f.get? x c).getD fill) := by
  obtain ⟨iic, hiax, hiok, hind, _⟩ := axisCorr_spec ho f.index hf.1 index hidx
  obtain ⟨cic, hcax, hcok, hcnd, _⟩ := axisCorr_spec ho f.columns hf.2.1 columns hcol
  obtain ⟨cols', hres, hwf, hval⟩ := resizeCols_spec ho f hf _ _ hind hcnd iic cic hiok hcok fill
  unfold Frame.reindex
  rw [hiax, hcax]
  simp only [hres]
  exact ⟨_, rfl, hwf, rfl, rfl, hval⟩

/-! ### cell-wise operators -/

theorem lookup_zipWith' {γ δ ε : Type} {ls : List α} {va : List γ} {vb : List δ} {g : γ → δ → ε} {l : α}
    {x : γ} {y : δ} (ha : lookup ls va l = some x) (hb : lookup ls vb l = some y) :
    lookup ls (List.zipWith g va vb) l = some (g x y) := by
  by_cases hm : l ∈ ls
  · rw [lookup_of_mem hm] at ha hb ⊢
    rw [List.getElem?_zipWith, ha, hb]
  · rw [lookup_of_not_mem hm] at ha
    cases ha

theorem lookup_map' {γ δ : Type} {ls : List α} {va : List γ} {g : γ → δ} {l : α} :
    lookup ls (va.map g) l = (lookup ls va l).map g := by
  by_cases hm : l ∈ ls
  · rw [lookup_of_mem hm, lookup_of_mem hm, List.getElem?_map]
  · rw [lookup_of_not_mem hm, lookup_of_not_mem hm]; rfl

theorem zipCols_ok (op : β → β → β) (n : Nat) {ca cb : List (List β)} (hl : ca.length = cb.length)
    (ha : ∀ x ∈ ca, x.length = n) (hb : ∀ y ∈ cb, y.length = n) :
    zipCols op ca cb = .ok (List.zipWith (List.zipWith op) ca cb) := by
  induction ca generalizing cb with
  | nil =>
    cases cb with
    | nil => rfl
    | cons _ _ => simp at hl
  | cons a as ih =>
    cases cb with
    | nil => simp at hl
    | cons b bs =>
      unfold zipCols
      have hab : a.length = b.length := by rw [ha a (by simp), hb b (by simp)]
      rw [zipOp_ok hab, ih (by simpa using hl) (fun x hx => ha x (by simp [hx]))
        (fun y hy => hb y (by simp [hy]))]
      rfl

/-- cells of two frames on the same labels combined cell by cell -/
theorem zipCols_frame_spec (op : β → β → β) (idx cols : Idx α) {ca cb : List (List β)}
    (ha : (⟨idx, cols, ca⟩ : Frame α β).WF) (hb : (⟨idx, cols, cb⟩ : Frame α β).WF) :
    ∃ cs, zipCols op ca cb = .ok cs ∧ (⟨idx, cols, cs⟩ : Frame α β).WF ∧
      ∀ x ∈ idx.labels, ∀ c ∈ cols.labels, ∀ va vb,
        (⟨idx, cols, ca⟩ : Frame α β).get? x c = some va →
        (⟨idx, cols, cb⟩ : Frame α β).get? x c = some vb →
        (⟨idx, cols, cs⟩ : Frame α β).get? x c = some (op va vb) := by
  obtain ⟨hi, hc, hal, har⟩ := ha
  obtain ⟨_, _, hbl, hbr⟩ := hb
  simp only at hal har hbl hbr hi hc
  refine ⟨_, zipCols_ok op idx.labels.length (by rw [hal, hbl]) har hbr, ⟨hi, hc, ?_, ?_⟩, ?_⟩
  · simp [hal, hbl]
  · intro col hcol
    obtain ⟨j, hj, rfl⟩ := List.mem_iff_getElem.mp hcol
    simp only [List.length_zipWith] at hj
    simp only [List.getElem_zipWith, List.length_zipWith]
    rw [har _ (List.getElem_mem (by omega)), hbr _ (List.getElem_mem (by omega))]
    simp
  · intro x hx c hc' va vb hva hvb
    obtain ⟨colA, hcolA⟩ := lookup_isSome hc' hal
    obtain ⟨colB, hcolB⟩ := lookup_isSome hc' hbl
    simp only [Frame.get?, hcolA, hcolB] at hva hvb
    simp only [Frame.get?, lookup_zipWith' (g := List.zipWith op) hcolA hcolB]
    exact lookup_zipWith hva hvb

/-- `Frame × Frame`: labels are the unions on both axes and each cell holds `op` of the two
    aligned cells (fill value for an absent label); operands with rows. -/
theorem Frame.binop_frame_spec {o : PyOrd α} (ho : o.Lawful) (op : β → β → β) (na : β)
    (a b : Frame α β) (ha : a.WF) (hb : b.WF)
    (hcols : a.columns.labels ≠ [] ∨ b.columns.labels ≠ []) :
    ∃ r, a.binop o op na (.frame b) = .ok r ∧ r.WF ∧ r.index = a.index.union o b.index ∧
      r.columns = a.columns.union o b.columns ∧
      ∀ x ∈ r.index.labels, ∀ c ∈ r.columns.labels,
        r.get? x c = some (op ((a.get? x c).getD na) ((b.get? x c).getD na)) := by
  obtain ⟨hium, hiun⟩ := Idx.union_labels_spec ho a.index b.index ha.1 hb.1
  obtain ⟨hcum, hcun⟩ := Idx.union_labels_spec ho a.columns b.columns ha.2.1 hb.2.1
  obtain ⟨ra, hra, hrwa, hria, hrca, hrga⟩ := Frame.reindex_spec ho a ha
    (some (a.index.union o b.index)) (some (a.columns.union o b.columns))
    (fun _ h => by cases h; exact hiun) (fun _ h => by cases h; exact hcun)
    na
  obtain ⟨rb, hrb, hrwb, hrib, hrcb, hrgb⟩ := Frame.reindex_spec ho b hb
    (some (a.index.union o b.index)) (some (a.columns.union o b.columns))
    (fun _ h => by cases h; exact hiun) (fun _ h => by cases h; exact hcun)
    na
  simp only [Option.getD_some] at hria hrca hrib hrcb
  have hwa : (⟨a.index.union o b.index, a.columns.union o b.columns, ra.cols⟩ : Frame α β).WF := by
    rw [← hria, ← hrca]; exact hrwa
  have hwb : (⟨a.index.union o b.index, a.columns.union o b.columns, rb.cols⟩ : Frame α β).WF := by
    rw [← hrib, ← hrcb]; exact hrwb
  obtain ⟨cs, hcs, hwcs, hvcs⟩ := zipCols_frame_spec op _ _ hwa hwb
  have hne : cs.isEmpty = false := by
    have hl : cs.length = (a.columns.union o b.columns).labels.length := hwcs.2.2.1
    have hpos : (a.columns.union o b.columns).labels ≠ [] := by
      rcases hcols with h | h
      · cases hh : a.columns.labels with
        | nil => exact absurd hh h
        | cons c cs' => exact List.ne_nil_of_mem ((hcum c).mpr (Or.inl (by simp [hh])))
      · cases hh : b.columns.labels with
        | nil => exact absurd hh h
        | cons c cs' => exact List.ne_nil_of_mem ((hcum c).mpr (Or.inr (by simp [hh])))
    cases cs with
    | nil => simp at hl; exact absurd (List.length_eq_zero_iff.mp hl.symm) hpos
    | cons _ _ => rfl
  unfold Frame.binop
  simp only [hra, hrb, hcs, Frame.ofBlocks, hne]
  refine ⟨_, rfl, hwcs, rfl, rfl, ?_⟩
  intro x hx c hc
  apply hvcs x hx c hc
  · have := hrga x (hria ▸ hx) c (hrca ▸ hc)
    rw [← this]
    simp only [Frame.get?, hria, hrca]
  · have := hrgb x (hrib ▸ hx) c (hrcb ▸ hc)
    rw [← this]
    simp only [Frame.get?, hrib, hrcb]

/-- `Frame × Series` along the columns (axis 0): the Series is aligned with the column labels. -/
theorem Frame.binop_series0_spec {o : PyOrd α} (ho : o.Lawful) (op : β → β → β) (na : β)
    (a : Frame α β) (s : Series α β) (ha : a.WF) (hs : s.WF)
    (hcols : a.columns.labels ≠ [] ∨ s.index.labels ≠ []) :
    ∃ r, a.binop o op na (.series s 0) = .ok r ∧ r.WF ∧ r.index = a.index ∧
      r.columns = a.columns.union o s.index ∧
      ∀ x ∈ r.index.labels, ∀ c ∈ r.columns.labels,
        r.get? x c = some (op ((a.get? x c).getD na) ((s.get? c).getD na)) := by
  obtain ⟨hcum, hcun⟩ := Idx.union_labels_spec ho a.columns s.index ha.2.1 hs.1
  obtain ⟨ra, hra, hrwa, hria, hrca, hrga⟩ := Frame.reindex_spec ho a ha none
    (some (a.columns.union o s.index)) (fun _ h => by cases h) (fun _ h => by cases h; exact hcun) na
  obtain ⟨rb, hrb, hrib, hrwb, hrgb⟩ := Series.reindex_spec ho s hs (a.columns.union o s.index) hcun na true
  simp only [Option.getD_some, Option.getD_none] at hria hrca
  have hlen : ra.cols.length = rb.values.length := by
    rw [hrwa.2.2.1, hrwb.2, hrca, hrib]
  have hne : (List.zipWith (fun col v => List.map (fun x => op x v) col) ra.cols rb.values).isEmpty = false := by
    have hpos : (a.columns.union o s.index).labels ≠ [] := by
      rcases hcols with h | h
      · cases hh : a.columns.labels with
        | nil => exact absurd hh h
        | cons c cs' => exact List.ne_nil_of_mem ((hcum c).mpr (Or.inl (by simp [hh])))
      · cases hh : s.index.labels with
        | nil => exact absurd hh h
        | cons c cs' => exact List.ne_nil_of_mem ((hcum c).mpr (Or.inr (by simp [hh])))
    have hl : rb.values.length = (a.columns.union o s.index).labels.length := by rw [hrwb.2, hrib]
    cases hv : rb.values with
    | nil => rw [hv] at hl; exact absurd (List.length_eq_zero_iff.mp hl.symm) hpos
    | cons v vs =>
      cases hc : ra.cols with
      | nil => rw [hv, hc] at hlen; simp at hlen
      | cons c cs' => rfl
  unfold Frame.binop
  simp only [hra, hrb, if_true, hlen, Frame.ofBlocks, hne]
  refine ⟨_, rfl, ⟨ha.1, hcun, ?_, ?_⟩, rfl, rfl, ?_⟩
  · simp only [List.length_zipWith, hlen, Nat.min_self, hrwb.2, hrib]
  · intro col hcol
    obtain ⟨j, hj, rfl⟩ := List.mem_iff_getElem.mp hcol
    simp only [List.length_zipWith] at hj
    simp only [List.getElem_zipWith, List.length_map]
    rw [hrwa.2.2.2 _ (List.getElem_mem (by omega)), hria]
  · intro x hx c hc
    simp only at hx hc
    obtain ⟨colA, hcolA⟩ := lookup_isSome (hrca ▸ hc) hrwa.2.2.1
    have hsv := hrgb c
    rw [if_pos hc] at hsv
    unfold Series.get? at hsv
    rw [hrib] at hsv
    rw [hrca] at hcolA
    simp only [Frame.get?]
    rw [lookup_zipWith' (g := fun col v => col.map (op · v)) hcolA hsv]
    simp only [lookup_map']
    have hcell := hrga x (hria ▸ hx) c (hrca ▸ hc)
    simp only [Frame.get?, hrca, hcolA, hria] at hcell
    rw [hcell]
    rfl

end

end SetOps
end SF
