/- Helper lemmas for SFModel.Window: loop state in closed form, loop = reference enumeration. -/
import SFModel.Window

namespace SF.Window

/-- the loop variables after `k` passes, in closed form -/
def stateAt (p : WinParams) (k : Nat) : WinSt :=
  ⟨p.startShift + k * p.step, p.size + k * p.sizeIncrement, k⟩

theorem stateAt_zero (p : WinParams) : stateAt p 0 = ⟨p.startShift, p.size, 0⟩ := by
  simp [stateAt]

theorem body_state (p : WinParams) (n : Nat) (valid : Nat → Nat → Bool) (k : Nat) :
    (winBody p n valid (stateAt p k)).2 = stateAt p (k + 1) := by
  simp only [winBody, stateAt]
  have h1 : ((k + 1 : Nat) : Int) * p.step = (k : Int) * p.step + p.step := by
    rw [Int.natCast_add, Int.add_mul]; simp
  have h2 : ((k + 1 : Nat) : Int) * p.sizeIncrement = (k : Int) * p.sizeIncrement + p.sizeIncrement := by
    rw [Int.natCast_add, Int.add_mul]; simp
  rw [h1, h2]
  simp only [WinSt.mk.injEq]
  refine ⟨by omega, by omega, trivial⟩

theorem body_window_gen (p : WinParams) (n : Nat) (valid : Nat → Nat → Bool) (left sz : Int) (c : Nat) :
    (winBody p n valid ⟨left, sz, c⟩).1 = windowOf p n valid left sz := by
  simp only [winBody, windowOf]
  have hlo : (if left > 0 then left else 0).toNat = left.toNat := by split <;> omega
  have hhi : ((if left + sz - 1 > -1 then left + sz - 1 else -1) + 1).toNat = (left + sz - 1 + 1).toNat := by
    split <;> omega
  rw [hlo, hhi]
  by_cases h1 : left + sz - 1 + p.labelShift < 0 ∨ left + sz - 1 + p.labelShift ≥ n
  · rw [if_pos h1]
    have : decide (0 ≤ left + sz - 1 + p.labelShift ∧ left + sz - 1 + p.labelShift < n) = false := by
      simp only [decide_eq_false_iff_not]; omega
    simp [this]
  · rw [if_neg h1]
    have : decide (0 ≤ left + sz - 1 + p.labelShift ∧ left + sz - 1 + p.labelShift < n) = true := by
      simp only [decide_eq_true_eq]; omega
    rw [this]
    cases hw : p.windowSized
    · simp
    · have hs : left + sz - 1 + 1 = left + sz := by omega
      rw [hs]
      by_cases h2 : ((min (left + sz).toNat n - min left.toNat n : Nat) : Int) = sz
      · simp [h2]
      · simp [h2]

theorem body_window (p : WinParams) (n : Nat) (valid : Nat → Nat → Bool) (k : Nat) :
    (winBody p n valid (stateAt p k)).1 = windowAt p n valid k :=
  body_window_gen p n valid _ _ _

theorem exit_state (p : WinParams) (n : Nat) (k : Nat) : winExit p n (stateAt p k) = exitAt p n k := rfl

theorem exitAt_beyond (p : WinParams) (n : Nat) : exitAt p n (countWindowMax p n + 1) = true := by
  simp [exitAt]

/-- The loop started at candidate `k` with just enough fuel to reach `count_window_max`. -/
theorem winLoop_from (p : WinParams) (n : Nat) (valid : Nat → Nat → Bool) :
    ∀ (fuel k : Nat), k + fuel = countWindowMax p n →
      winLoop p n valid (fuel + 1) (stateAt p k)
        = some ((windowAt p n valid k).toList ++
            ((List.range' (k + 1) fuel).takeWhile (fun j => !exitAt p n j)).filterMap (windowAt p n valid)) := by
  intro fuel
  induction fuel with
  | zero =>
    intro k hk
    simp only [winLoop, body_state, body_window, exit_state]
    have : exitAt p n (k + 1) = true := by
      have : k = countWindowMax p n := by omega
      rw [this]; exact exitAt_beyond p n
    simp [this]
  | succ fuel ih =>
    intro k hk
    rw [winLoop]
    simp only [body_state, body_window, exit_state]
    cases he : exitAt p n (k + 1)
    · simp only [Bool.false_eq_true, if_false]
      rw [ih (k + 1) (by omega)]
      simp only [Option.map_some]
      have hr : List.range' (k + 1) (fuel + 1) = (k + 1) :: List.range' (k + 1 + 1) fuel := by
        simp [List.range'_succ]
      rw [hr, List.takeWhile_cons]
      simp only [he, Bool.not_false, if_true, List.filterMap_cons]
      cases windowAt p n valid (k + 1) <;> simp
    · simp only [if_true]
      have hr : List.range' (k + 1) (fuel + 1) = (k + 1) :: List.range' (k + 1 + 1) fuel := by
        simp [List.range'_succ]
      rw [hr, List.takeWhile_cons]
      simp [he]

/-- more fuel never changes a finished loop -/
theorem winLoop_mono (p : WinParams) (n : Nat) (valid : Nat → Nat → Bool) :
    ∀ (fuel : Nat) (s : WinSt) (ws : List Win), winLoop p n valid fuel s = some ws →
      winLoop p n valid (fuel + 1) s = some ws := by
  intro fuel
  induction fuel with
  | zero => intro s ws h; simp [winLoop] at h
  | succ fuel ih =>
    intro s ws h
    rw [winLoop] at h ⊢
    split
    · rename_i he; rw [if_pos he] at h; exact h
    · rename_i he
      rw [if_neg he] at h
      cases hr : winLoop p n valid fuel (winBody p n valid s).2 with
      | none => rw [hr] at h; simp at h
      | some rest =>
        rw [hr] at h
        rw [ih _ _ hr]
        exact h

end SF.Window
