/- The step-1 slicing used by SFModel.BlocksShift (`sliceList`) IS Python slicing as modelled in
   SFModel.Slice (`PySlice.indices` mirrors CPython's `PySlice_AdjustIndices`; `TB.pyListSlice`). -/
import SFModel.BlocksShiftLemmas

namespace SF

theorem pick_range' {β : Type} (l : List β) (A m : Nat) (h : A + m ≤ l.length) :
    pick l (List.range' A m) = (l.drop A).take m := by
  induction m generalizing A with
  | zero => simp [pick]
  | succ m ih =>
    have hA : A < l.length := by omega
    have h2 := ih (A + 1) (by omega)
    unfold pick at h2 ⊢
    rw [List.range'_succ, List.filterMap_cons, List.getElem?_eq_getElem hA]
    simp only
    rw [h2, List.drop_eq_getElem_cons hA, List.take_succ_cons]

theorem rangeList_step1 (A B : Nat) :
    (rangeList (A : Int) (B : Int) 1).map Int.toNat = List.range' A (B - A) := by
  apply List.ext_getElem
  · simp only [List.length_map, rangeList_length, rangeLen, List.length_range']
    rw [if_pos (by omega)]
    split
    · simp only [Int.ediv_one]; omega
    · omega
  · intro i h1 h2
    simp only [List.getElem_map, rangeList_getElem, List.getElem_range']
    omega

/-- lower / upper position of `l[start:stop]` -/
def sliceLo (start : Option Int) (n : Nat) : Nat := match start with | none => 0 | some i => clampBound i n
def sliceHi (stop : Option Int) (n : Nat) : Nat := match stop with | none => n | some i => clampBound i n

theorem sliceList_eq {β : Type} (l : List β) (start stop : Option Int) :
    sliceList l start stop = (l.drop (sliceLo start l.length)).take (sliceHi stop l.length - sliceLo start l.length) := by
  cases start <;> cases stop <;> rfl

theorem sliceHi_le (stop : Option Int) (n : Nat) : sliceHi stop n ≤ n := by
  cases stop with
  | none => exact Nat.le_refl _
  | some v => simp only [sliceHi, clampBound]; split <;> omega

theorem indices_step1 (start stop : Option Int) (n : Nat) :
    (PySlice.mk start stop none).indices n = .ok ((sliceLo start n : Int), (sliceHi stop n : Int), 1) := by
  unfold PySlice.indices sliceLo sliceHi clampBound
  simp only [Option.getD_none]
  rw [if_neg (by omega)]
  congr 2
  · cases start with
    | none => simp
    | some v => simp only; split <;> split <;> omega
  · congr 1
    cases stop with
    | none => simp
    | some v => simp only; split <;> split <;> omega

/-- `sliceList` is Python's `l[start:stop]` -/
theorem pyListSlice_step1 {β : Type} (l : List β) (start stop : Option Int) :
    TB.pyListSlice l ⟨start, stop, none⟩ = .ok (sliceList l start stop) := by
  unfold TB.pyListSlice PySlice.positions
  rw [indices_step1, sliceList_eq]
  simp only
  rw [rangeList_step1]
  have hBn := sliceHi_le stop l.length
  by_cases hAB : sliceLo start l.length ≤ sliceHi stop l.length
  · rw [pick_range' l _ _ (by omega)]
  · rw [show sliceHi stop l.length - sliceLo start l.length = 0 by omega]; simp [pick]

end SF
