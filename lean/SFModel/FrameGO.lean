/-
  SFModel.FrameGO — grow-only containers (C09): IndexGO, FrameGO growth calls in the code's ORDER OF
  EFFECTS, and the ownership of mutable objects between containers.

  A growth call is modelled as a function `State → State × Option Err`: effects are applied one
  after the other and an error may surface after some of them — exactly how a Python method that
  raises half-way leaves `self`.  Atomicity ("a rejected call leaves the container exactly as it
  was") is therefore a theorem, not a consequence of using `Except`.

  Mirrors (static_frame/core): index.py `_IndexGOMixin.append / extend` (as repaired: all values
  are checked before any is appended), frame.py `FrameGO._setitem_block / __setitem__ /
  extend_items / extend`, type_blocks.py `append / extend`.
-/
import SFModel.Blocks

namespace SF

variable {α : Type}

/-! ### IndexGO -/

/-- `IndexGO.append(value)`: KeyError on a duplicate, else the label is added at the end -/
def idxAppend (labels : List String) (k : String) : List String × Option Err :=
  if k ∈ labels then (labels, some .lookup) else (labels ++ [k], none)

/-- `IndexGO.extend(values)` as it was on the pinned tree: append one by one, stop at the first failure -/
def idxExtendOld : List String → List String → List String × Option Err
  | labels, [] => (labels, none)
  | labels, k :: ks =>
    match idxAppend labels k with
    | (l', none) => idxExtendOld l' ks
    | (l', some e) => (l', some e)

/-- duplicate check of the repaired `extend`: a value already held, or repeated among the new ones -/
def hasDup (labels : List String) : List String → Bool
  | [] => false
  | k :: ks => k ∈ labels || k ∈ ks || hasDup labels ks

/-- `IndexGO.extend(values)` as repaired: check everything, then append everything -/
def idxExtend (labels : List String) (ks : List String) : List String × Option Err :=
  if hasDup labels ks then (labels, some .lookup) else idxExtendOld labels ks

/-! ### FrameGO -/

structure GO (α : Type) where
  labels : List String        -- `_columns` (an IndexGO)
  data : TB α                 -- `_blocks`
  nrows : Nat                 -- `len(_index)`; the index never changes
deriving Repr, DecidableEq

/-- a supplied column value after evaluation: `none` = the evaluation itself raises (unsized
    iterable, bad type ...); `some c` is the 1-D array -/
abbrev GVal (α : Type) := Option (List α)

inductive GOp (α : Type) where
  | setitem (k : String) (v : GVal α)
  | extendSeries (name : String) (v : List α)                       -- value already reindexed to the index
  | extendFrame (labels : List String) (blocks : List (Block α))    -- frame already reindexed to the index
  | extendItems (pairs : List (String × GVal α))
deriving Repr

/-- `FrameGO._setitem_block`: key check, value evaluation, size check — no mutation -/
def setitemBlock (s : GO α) (k : String) (v : GVal α) : Except Err (List α) :=
  if k ∈ s.labels then .error .shape      -- RuntimeError: key already defined
  else match v with
    | none => .error .shape
    | some c => if c.length ≠ s.nrows then .error .shape else .ok c

/-- `TypeBlocks.append` on the mutable `_blocks` (state kept on failure) -/
def tbAppend (tb : TB α) (b : Block α) : TB α × Option Err :=
  match tb.append b with
  | .ok r => (r, none)
  | .error e => (tb, some e)

/-- `TypeBlocks.extend(iterable of arrays)`: append one by one -/
def tbExtend : TB α → List (Block α) → TB α × Option Err
  | tb, [] => (tb, none)
  | tb, b :: bs =>
    match tbAppend tb b with
    | (tb', none) => tbExtend tb' bs
    | (tb', some e) => (tb', some e)

/-- evaluate all pairs of `extend_items` before mutating -/
def evalPairs (s : GO α) : List (String × GVal α) → Except Err (List String × List (Block α))
  | [] => .ok ([], [])
  | (k, v) :: rest =>
    match setitemBlock s k v with
    | .error e => .error e
    | .ok c =>
      match evalPairs s rest with
      | .error e => .error e
      | .ok (ks, bs) => .ok (k :: ks, Block.d1 "" c :: bs)

/-- one growth call, effects in the code's order -/
def GO.step (s : GO α) : GOp α → GO α × Option Err
  | .setitem k v =>
    match setitemBlock s k v with
    | .error e => (s, some e)
    | .ok c =>
      match idxAppend s.labels k with
      | (l', some e) => ({ s with labels := l' }, some e)
      | (l', none) =>
        let (d', e) := tbAppend s.data (.d1 "" c)
        ({ s with labels := l', data := d' }, e)
  | .extendSeries name c =>
    match idxAppend s.labels name with
    | (l', some e) => ({ s with labels := l' }, some e)
    | (l', none) =>
      let (d', e) := tbAppend s.data (.d1 "" c)
      ({ s with labels := l', data := d' }, e)
  | .extendFrame ls bs =>
    if ls.isEmpty then (s, none) else
    match idxExtend s.labels ls with
    | (l', some e) => ({ s with labels := l' }, some e)
    | (l', none) =>
      let (d', e) := tbExtend s.data bs
      ({ s with labels := l', data := d' }, e)
  | .extendItems pairs =>
    match evalPairs s pairs with
    | .error e => (s, some e)
    | .ok (ks, bs) =>
      match idxExtend s.labels ks with
      | (l', some e) => ({ s with labels := l' }, some e)
      | (l', none) =>
        let (d', e) := tbExtend s.data bs
        ({ s with labels := l', data := d' }, e)

/-- the same call with the PINNED-tree `IndexGO.extend` (for the recorded counterexample F3) -/
def GO.stepOld (s : GO α) : GOp α → GO α × Option Err
  | .extendFrame ls bs =>
    if ls.isEmpty then (s, none) else
    match idxExtendOld s.labels ls with
    | (l', some e) => ({ s with labels := l' }, some e)
    | (l', none) =>
      let (d', e) := tbExtend s.data bs
      ({ s with labels := l', data := d' }, e)
  | op => s.step op

/-- labels and data in step, labels unique, data well formed with the index's row count -/
def GO.Inv (s : GO α) : Prop :=
  s.labels.length = s.data.ncols ∧ s.labels.Nodup ∧ s.data.WF ∧ s.data.rows = s.nrows

/-- the caller-side well-formedness of a growth call's already-reindexed arguments -/
def GOp.Aligned (s : GO α) : GOp α → Prop
  | .setitem _ _ => True
  | .extendSeries _ c => c.length = s.nrows
  | .extendFrame ls bs => ls.length = (bs.map Block.width).sum ∧ (∀ b ∈ bs, 0 < b.width ∧ b.RowsOk s.nrows)
  | .extendItems _ => True

/-- run a history, ignoring failures (the caller catches the exception and carries on) -/
def GO.run (s : GO α) (ops : List (GOp α)) : GO α := ops.foldl (fun st op => (st.step op).1) s

/-! ### ownership of mutable objects -/

/-- A container references one mutable columns object and one mutable blocks object by identity. -/
structure CRef where
  cols : Nat
  data : Nat
  growable : Bool        -- FrameGO / IndexGO / IndexHierarchyGO
deriving Repr, DecidableEq

/-- no mutable object of a growable container is referenced by any other live container -/
def Unique (cs : List CRef) : Prop :=
  ∀ i j (hi : i < cs.length) (hj : j < cs.length), i ≠ j → (cs[i].growable = true ∨ cs[j].growable = true) →
    cs[i].cols ≠ cs[j].cols ∧ cs[i].data ≠ cs[j].data

def uniqueB (cs : List CRef) : Bool :=
  (List.range cs.length).all fun i => (List.range cs.length).all fun j =>
    i = j || !((cs.getD i ⟨0, 0, false⟩).growable || (cs.getD j ⟨0, 0, false⟩).growable) ||
      ((cs.getD i ⟨0, 0, false⟩).cols != (cs.getD j ⟨0, 0, false⟩).cols &&
       (cs.getD i ⟨0, 0, false⟩).data != (cs.getD j ⟨0, 0, false⟩).data)

/-- world: object stores + containers -/
structure World (α : Type) where
  idx : List (List String)        -- columns objects by id
  tbs : List (TB α)               -- blocks objects by id
  cs : List CRef

def World.snapshot (w : World α) (c : CRef) : List String × List (List α) :=
  (w.idx.getD c.cols [], (w.tbs.getD c.data ⟨0, []⟩).cols)

/-- growing container `i` mutates exactly the two objects it references -/
def World.grow (w : World α) (i : Nat) (op : GOp α) : World α :=
  match w.cs[i]? with
  | none => w
  | some c =>
    if ¬ c.growable then w else
    let s : GO α := ⟨w.idx.getD c.cols [], w.tbs.getD c.data ⟨0, []⟩, (w.tbs.getD c.data ⟨0, []⟩).rows⟩
    let s' := (s.step op).1
    { w with idx := w.idx.set c.cols s'.labels, tbs := w.tbs.set c.data s'.data }

end SF
