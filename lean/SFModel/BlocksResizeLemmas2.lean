/- Helper lemmas for SFModel.BlocksResize, part 2: the column loop in canonical form, the
   destination → source dictionary, shapes and dtypes of the specification. -/
import SFModel.BlocksResizeLemmas

namespace SF
open SetOps (IC gather scatter dstToSrc mapMExcept)

/-! ### `dict(zip(iloc_dst, iloc_src))` -/

theorem lookup_zip_mem {ks vs : List Nat} {i j : Nat} (h : (ks.zip vs).lookup i = some j) : j ∈ vs := by
  induction ks generalizing vs with
  | nil => simp at h
  | cons k ks ih =>
    cases vs with
    | nil => simp at h
    | cons v vs =>
      simp only [List.zip_cons_cons, List.lookup_cons] at h
      split at h
      · simp only [Option.some.injEq] at h; subst h; simp
      · exact List.mem_cons_of_mem _ (ih h)

theorem lookup_zip_range' (l : List Nat) (a k : Nat) :
    ((List.range' a l.length).zip l).lookup (a + k) = l[k]? := by
  induction l generalizing a k with
  | nil => simp
  | cons x xs ih =>
    simp only [List.length_cons, List.range'_succ, List.zip_cons_cons, List.lookup_cons]
    cases k with
    | zero => simp
    | succ k =>
      have hne : (a + (k + 1) == a) = false := by simp
      rw [hne]
      have : a + (k + 1) = (a + 1) + k := by omega
      rw [this, ih (a + 1) k]
      simp

theorem lookup_zip_range (l : List Nat) (k : Nat) :
    ((List.range l.length).zip l).lookup k = l[k]? := by
  have := lookup_zip_range' l 0 k
  simpa [List.range_eq_range'] using this

/-- a mapped destination position names a source position of the correspondence -/
theorem dstToSrc_mem {cc : IC} {idx j : Nat} (h : dstToSrc cc idx = some j) : j ∈ cc.ilocSrc :=
  lookup_zip_mem h

/-- nothing in common: the dictionary is empty -/
theorem dstToSrc_nocommon {cc : IC} {n : Nat} (hcc : cc.WF n) (hc : cc.hasCommon = false) (idx : Nat) :
    dstToSrc cc idx = none := by
  obtain ⟨hlen, _, _, _, _, hcom, _⟩ := hcc
  have hsrc : cc.ilocSrc = [] := by
    by_cases h : cc.ilocSrc = []
    · exact h
    · have := hcom.mpr h
      rw [hc] at this; cases this
  have hdst : cc.ilocDst = [] := by
    apply List.eq_nil_of_length_eq_zero
    rw [← hlen, hsrc]; rfl
  simp [dstToSrc, hsrc, hdst]

/-- a subset correspondence: `iloc_dst = arange(size)`, so position `idx` reads `iloc_src[idx]` -/
theorem dstToSrc_subset {cc : IC} {n : Nat} (hcc : cc.WF n) (hs : cc.isSubset = true) (idx : Nat) :
    dstToSrc cc idx = cc.ilocSrc[idx]? ∧ cc.ilocSrc.length = cc.size := by
  obtain ⟨hlen, _, _, _, _, _, hsub⟩ := hcc
  have hd := (hsub hs).2
  have hl : cc.ilocSrc.length = cc.size := by rw [hlen, hd, List.length_range]
  refine ⟨?_, hl⟩
  unfold dstToSrc
  rw [hd, ← hl]
  exact lookup_zip_range cc.ilocSrc idx

theorem nodup_lt_one {l : List Nat} (hnd : l.Nodup) (hlt : ∀ i ∈ l, i < 1) (hne : l ≠ []) : l = [0] := by
  cases l with
  | nil => exact absurd rfl hne
  | cons x xs =>
    have hx : x = 0 := by have := hlt x (by simp); omega
    subst hx
    cases xs with
    | nil => rfl
    | cons y ys =>
      have hy : y = 0 := by have := hlt y (by simp); omega
      subst hy
      simp at hnd

/-! ### the column loop of the specification in canonical form -/

section loop
variable {γ : Type}

/-- what destination position `idx` holds -/
def slot (cc : IC) (cols : List γ) (G' : γ → γ) (fc : γ) (idx : Nat) : γ :=
  match dstToSrc cc idx with
  | some j => (match cols[j]? with | some x => G' x | none => fc)
  | none => fc

theorem colLoopG_ok {cc : IC} {n : Nat} (hcc : cc.WF n) (cols : List γ) (hn : cols.length = n)
    (G : γ → Except Err γ) (G' : γ → γ) (hG : ∀ x ∈ cols, G x = .ok (G' x)) (fc : γ) :
    SetOps.colLoopG cc cols G fc = .ok ((List.range cc.size).map (slot cc cols G' fc)) := by
  unfold SetOps.colLoopG
  apply SetOps.mapMExcept_ok
  intro idx _
  unfold slot
  cases hd : dstToSrc cc idx with
  | none => rfl
  | some j =>
    have hj : j < cols.length := hn ▸ hcc.2.1 j (dstToSrc_mem hd)
    simp only [List.getElem?_eq_getElem hj]
    exact hG _ (List.getElem_mem hj)

theorem slots_nocommon {cc : IC} {n : Nat} (hcc : cc.WF n) (hc : cc.hasCommon = false) (cols : List γ)
    (G' : γ → γ) (fc : γ) :
    (List.range cc.size).map (slot cc cols G' fc) = List.replicate cc.size fc := by
  have : slot cc cols G' fc = fun _ => fc := by
    funext idx; simp [slot, dstToSrc_nocommon hcc hc idx]
  rw [this, List.map_const', List.length_range]

theorem slots_subset {cc : IC} {n : Nat} (hcc : cc.WF n) (hs : cc.isSubset = true) (cols : List γ)
    (G' : γ → γ) (fc : γ) :
    (List.range cc.size).map (slot cc cols G' fc) =
      cc.ilocSrc.map (fun j => match cols[j]? with | some x => G' x | none => fc) := by
  have hl := (dstToSrc_subset hcc hs 0).2
  apply List.ext_getElem
  · simp [hl]
  · intro k h1 h2
    have hk : k < cc.ilocSrc.length := by simpa using h2
    simp only [List.getElem_map, List.getElem_range, slot, (dstToSrc_subset hcc hs k).1,
      List.getElem?_eq_getElem hk]

end loop

section env
variable {α : Type} (resolve : DT → DT → DT) (conv : DT → DT → α → α)

/-! ### shapes and dtypes of the specification -/

theorem slot_shape {cc : IC} (cols : List (DT × List α)) (G' : DT × List α → DT × List α) (fc : DT × List α)
    (m : Nat) (hG : ∀ x ∈ cols, (G' x).2.length = m) (hfc : fc.2.length = m) (idx : Nat) :
    (slot cc cols G' fc idx).2.length = m := by
  unfold slot
  cases dstToSrc cc idx with
  | none => exact hfc
  | some j =>
    simp only
    cases hj : cols[j]? with
    | none => exact hfc
    | some x => exact hG x (List.mem_of_getElem? hj)

/-- THE SPECIFICATION succeeds on well-formed input; shape and dtypes of its result -/
theorem resizeSpec_ok (rows n : Nat) (iic cic : Option IC) (hi : SetOps.OptWF iic rows) (hc : SetOps.OptWF cic n)
    (fill : α) (fillDT : DT) (cols : List (DT × List α)) (hn : cols.length = n)
    (hr : ∀ x ∈ cols, x.2.length = rows) :
    ∃ L, resizeSpec resolve conv rows iic cic fill fillDT cols = .ok L ∧
      L.length = SetOps.newLen cic n ∧ (∀ y ∈ L, y.2.length = SetOps.newLen iic rows) ∧
      L.map Prod.fst = resizeDTypes resolve iic cic fillDT (cols.map Prod.fst) := by
  have hG : ∀ x ∈ cols, resizeColDT resolve conv iic fill fillDT x = .ok (colT resolve conv iic fill fillDT x) :=
    fun x hx => (resizeColDT_eq_colT resolve conv hi fill fillDT x (hr x hx)).1
  have hG1 : ∀ x ∈ cols, (colT resolve conv iic fill fillDT x).1 = rowDT resolve iic fillDT x.1 :=
    fun x hx => (resizeColDT_eq_colT resolve conv hi fill fillDT x (hr x hx)).2.1
  have hG2 : ∀ x ∈ cols, (colT resolve conv iic fill fillDT x).2.length = SetOps.newLen iic rows :=
    fun x hx => (resizeColDT_eq_colT resolve conv hi fill fillDT x (hr x hx)).2.2
  cases cic with
  | none =>
    refine ⟨cols.map (colT resolve conv iic fill fillDT), ?_, by simp [SetOps.newLen, hn], ?_, ?_⟩
    · unfold resizeSpec
      exact SetOps.mapMExcept_ok hG
    · intro y hy
      obtain ⟨x, hx, rfl⟩ := List.mem_map.mp hy
      exact hG2 x hx
    · simp only [resizeDTypes, List.map_map]
      apply List.map_congr_left
      intro x hx
      exact hG1 x hx
  | some cc =>
    simp only [SetOps.OptWF] at hc
    refine ⟨_, colLoopG_ok hc cols hn _ _ hG _, by simp [SetOps.newLen], ?_, ?_⟩
    · intro y hy
      obtain ⟨idx, _, rfl⟩ := List.mem_map.mp hy
      exact slot_shape cols _ _ _ hG2 (by simp [fillColDT]) idx
    · simp only [resizeDTypes, List.map_map]
      apply List.map_congr_left
      intro idx _
      simp only [Function.comp, slot]
      cases hd : dstToSrc cc idx with
      | none => rfl
      | some j =>
        have hj : j < cols.length := hn ▸ hc.2.1 j (dstToSrc_mem hd)
        simp only [List.getElem?_map, List.getElem?_eq_getElem hj, Option.map_some]
        exact hG1 _ (List.getElem_mem hj)

end env

end SF
