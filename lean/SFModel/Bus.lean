/-
  SFModel.Bus — executable model of `static_frame/core/bus.py` (cache bookkeeping) and of the
  mtime coherence logic of `static_frame/core/store.py`.

  * `StoreSt`  : file mtime / deleted, recorded mtime (`_last_modified`, `none` = NaN);
                 `_mtime_update`, `_mtime_coherent`, the two decorators, external file events.
  * `BusSt`    : `_series` (labels + object array of Frame | FrameDeferred), `_loaded`,
                 `_loaded_all`, `_last_accessed` (ordered dict keys, oldest first), `_max_persist`.
  * `BusSt.init`           = `Bus.__init__`
  * `storeReaderBatches`   = the `read_many` / `read` calls issued by `Bus._store_reader`
  * `BusSt.updateCache`    = `Bus._update_series_cache_iloc`, line by line
  * `BusSt.extractIloc`    = `Bus._extract_iloc` (`_extract_loc` after `_loc_to_iloc`)
  * `BusSt.items/values/get/sortValues/derive…`
  * spec side: `absTouch` (abstract LRU step on a recency list), `Inv`.

  Labels are natural numbers (unique ids of the frames in the store); frames are an arbitrary
  type `φ`.  The store is a function `StoreFn φ := CfgKey → Nat → φ`: the frame that
  `Store.read(label, config=…)` builds when the `StoreConfig` used is the map entry of label
  `l` (`some l`) or the map's default (`none`).  The frame an eager load returns for `l` is
  `store (some l) l`.

  Exceptions leave the Python object partially mutated (`_last_accessed`, `_loaded` are
  changed in place, `_series` is replaced only at the end), so failing operations return
  `Except (Err × BusSt φ) _`: the error together with the state the object is left in.

  No Mathlib import (the driver imports this file).
-/
import SFModel.Slice

namespace SF.Bus
open SF

/-! ## Store: mtime coherence (store.py:399-458) -/

/-- `file = none`: no file at `_fp`; `some t`: `os.path.getmtime`.  `seen = none`: `_last_modified` is NaN. -/
structure StoreSt where
  file : Option Nat
  seen : Option Nat
deriving Repr, DecidableEq, Inhabited

namespace StoreSt

/-- `Store._mtime_update` -/
def mtimeUpdate (s : StoreSt) : StoreSt :=
  match s.file with
  | some t => { s with seen := some t }      -- os.path.exists → getmtime
  | none => { s with seen := none }          -- np.nan

/-- `Store._mtime_coherent`: `getmtime != _last_modified` is also true when `_last_modified` is NaN. -/
def mtimeCoherent (s : StoreSt) : Except Err Unit :=
  match s.file with
  | some t => if s.seen ≠ some t then .error .storeMutation else .ok ()
  | none => if s.seen.isSome then .error .storeMutation else .ok ()

/-- `Store.__init__`: `_last_modified = nan; _mtime_update()` -/
def init (file : Option Nat) : StoreSt := mtimeUpdate { file := file, seen := none }

/-- decorator `store_coherent_non_write` (read / read_many / labels) -/
def coherentNonWrite {β} (s : StoreSt) (f : StoreSt → Except Err β) : Except Err β :=
  match s.mtimeCoherent with
  | .error e => .error e
  | .ok () => f s

/-- decorator `store_coherent_write` (write) -/
def coherentWrite (s : StoreSt) (f : StoreSt → StoreSt) : StoreSt := (f s).mtimeUpdate

/-- the undecorated body of a read: opening a missing file fails (FileNotFoundError) -/
def rawRead {β} (data : β) (s : StoreSt) : Except Err β :=
  match s.file with
  | some _ => .ok data
  | none => .error .other

/-- a decorated read (`read`, `read_many`, `labels`) that would return `data` -/
def read {β} (s : StoreSt) (data : β) : Except Err β := s.coherentNonWrite (rawRead data)

/-- a decorated `write` executed when the clock shows `now` -/
def write (s : StoreSt) (now : Nat) : StoreSt := s.coherentWrite fun s => { s with file := some now }

end StoreSt

/-- what happens to the file behind the Store object's back -/
inductive FileEvent
  | touch (t : Nat)      -- os.utime (only meaningful when the file exists)
  | rewrite (t : Nat)    -- file replaced / recreated with mtime t
  | delete
deriving Repr, DecidableEq

def StoreSt.event (s : StoreSt) : FileEvent → StoreSt
  | .touch t => match s.file with
      | some _ => { s with file := some t }
      | none => s
  | .rewrite t => { s with file := some t }
  | .delete => { s with file := none }

def StoreSt.events (s : StoreSt) (evs : List FileEvent) : StoreSt := evs.foldl StoreSt.event s

/-! ## Bus -/

/-- the key `StoreConfigMap.__getitem__` is called with: `some l` → entry of label `l`,
    `none` → a key that is in no map → the map's default config (only the historical reader did that) -/
abbrev CfgKey := Option Nat
abbrev StoreFn (φ : Type) := CfgKey → Nat → φ

structure BusSt (φ : Type) where
  labels : List Nat
  cache : List (Option φ)        -- `_series.values`; `none` = FrameDeferred
  loaded : List Bool             -- `_loaded`
  loadedAll : Bool               -- `_loaded_all`
  lru : List Nat                 -- keys of `_last_accessed`, oldest first ([] when max_persist is None)
  maxPersist : Option Nat
deriving Repr, DecidableEq, Inhabited

variable {φ : Type}

/-- `max_persist is not None and max_persist < self._loaded.sum()` -/
def tooMany (mp : Option Nat) (loadedCount : Nat) : Bool :=
  match mp with
  | some k => decide (k < loadedCount)
  | none => false

/-- `Bus.__init__` over a Series given as (label, value) pairs (bus.py:297-341). -/
def BusSt.init (series : List (Nat × Option φ)) (mp : Option Nat) : Except Err (BusSt φ) :=
  let lru := if mp.isSome then series.filterMap (fun lv => if lv.2.isSome then some lv.1 else none) else []
  let loaded := series.map (fun lv => lv.2.isSome)
  if tooMany mp (loaded.count true) then .error .init
  else .ok { labels := series.map (·.1), cache := series.map (·.2), loaded := loaded,
             loadedAll := loaded.all id, lru := lru, maxPersist := mp }

/-- a Bus opened on a store: every label deferred -/
def BusSt.fromStore (labels : List Nat) (mp : Option Nat) : Except Err (BusSt φ) :=
  BusSt.init (labels.map fun l => (l, none)) mp

/-- `self._last_accessed[label] = self._last_accessed.pop(label, None)` -/
def touch (lru : List Nat) (l : Nat) : List Nat := lru.erase l ++ [l]

/-! ### `_store_reader` (bus.py:529-555) -/

/-- the `for label in labels` loop of the `max_persist > 1` branch; `coll` is the pending batch -/
def batchLoop (k : Nat) : List Nat → List Nat → List (List Nat)
  | [], coll => if coll.isEmpty then [] else [coll]
  | l :: ls, coll =>
    let coll := coll ++ [l]
    if coll.length = k then coll :: batchLoop k ls [] else batchLoop k ls coll

/-- the label batches handed to `store.read_many` / `store.read`, in order -/
def storeReaderBatches (mp : Option Nat) (labels : List Nat) : List (List Nat) :=
  match mp with
  | none => if labels.isEmpty then [] else [labels]
  | some k => if k > 1 then batchLoop k labels [] else labels.map fun l => [l]

/-- HISTORICAL DEFINITION — pinned-tree behaviour, repaired in /repo (`config[labels]` -> `config[label]`).
    The `max_persist == 1` branch of `_store_reader` used to ask the StoreConfigMap for `config[labels]`
    (the labels *generator*, never a key of the map), i.e. for the default config.  Kept only for the
    counterexample `SF.C17.bus_faithful_pinned_reader_counterexample`. -/
def readerCfgKeyPinned (mp : Option Nat) (l : Nat) : CfgKey :=
  match mp with
  | none => some l
  | some k => if k > 1 then some l else none

/-- config key `_store_reader` uses for label `l`.  The code (bus.py:539-555) looks the label up in every
    branch (`read_many(…, config=config)` resolves `config_map[label]`, the single-label branch calls
    `store.read(label, config=config[label])`): `pinnedReader = false`.  `pinnedReader = true` selects the
    historical reader above. -/
def readerCfgKey (pinnedReader : Bool) (mp : Option Nat) (l : Nat) : CfgKey :=
  if pinnedReader then readerCfgKeyPinned mp l else some l

/-- the frames the generator `_store_reader` yields, in order -/
def storeReaderFrames (store : StoreFn φ) (pinnedReader : Bool) (mp : Option Nat) (labels : List Nat) : List φ :=
  (storeReaderBatches mp labels).flatMap fun b => b.map fun l => store (readerCfgKey pinnedReader mp l) l

/-! ### `_update_series_cache_iloc` (bus.py:558-629) -/

/-- local variables of the load loop -/
structure Loop (φ : Type) where
  array : List (Option φ)      -- `array` (copy of `_series.values`)
  loaded : List Bool           -- `self._loaded` (mutated in place)
  lru : List Nat               -- `self._last_accessed` (mutated in place)
  count : Nat                  -- `loaded_count`
  reader : List φ              -- what `store_reader` still has to yield
deriving Repr

/-- `index._loc_to_iloc(label)` for a single label -/
def locToIloc (labels : List Nat) (l : Nat) : Except Err Nat :=
  match labels.idxOf? l with
  | some i => .ok i
  | none => .error .lookup

/-- `if frame is FrameDeferred: frame = next(store_reader)` -/
def Loop.fetch (st : StoreSt) (ls : Loop φ) (frame : Option φ) : Except (Err × Loop φ) (φ × Loop φ) :=
  match frame with
  | some f => .ok (f, ls)
  | none =>
    match ls.reader with
    | [] => .error (.other, ls)                                  -- StopIteration
    | f :: r =>
      match st.read f with                                      -- decorated store read
      | .error e => .error (e, ls)
      | .ok f => .ok (f, { ls with reader := r })

/-- `if not self._loaded[idx]: array[idx] = frame; self._loaded[idx] = True; loaded_count += 1` -/
def Loop.mark (mp : Option Nat) (ls : Loop φ) (idx : Nat) (frame : φ) (isLoaded : Bool) : Loop φ :=
  if isLoaded then ls else
    { ls with array := ls.array.set idx (some frame), loaded := ls.loaded.set idx true,
              count := if mp.isSome then ls.count + 1 else ls.count }

/-- the eviction block: `label_remove = next(iter(self._last_accessed)); del …; self._loaded[idx_remove] = False;
    array[idx_remove] = FrameDeferred; loaded_count -= 1` -/
def Loop.evict (labels : List Nat) (ls : Loop φ) : Except (Err × Loop φ) (Loop φ) :=
  match ls.lru with
  | [] => .error (.other, ls)                                    -- next(iter({})) : StopIteration
  | labelRemove :: rest =>
    match locToIloc labels labelRemove with
    | .error e => .error (e, { ls with lru := rest })            -- (the `del` precedes the lookup)
    | .ok idxRemove =>
      .ok { ls with lru := rest, loaded := ls.loaded.set idxRemove false,
                    array := ls.array.set idxRemove none, count := ls.count - 1 }

/-- one iteration of `for label, frame in targets_items` -/
def loopBody (st : StoreSt) (labels : List Nat) (mp : Option Nat) (ls : Loop φ) (t : Nat × Option φ) :
    Except (Err × Loop φ) (Loop φ) :=
  match locToIloc labels t.1 with                                   -- idx = index._loc_to_iloc(label)
  | .error e => .error (e, ls)
  | .ok idx =>
    match ls.fetch st t.2 with                                      -- a failing read leaves the LRU untouched
    | .error e => .error e
    | .ok (frame, ls) =>
      let ls := if mp.isSome then { ls with lru := touch ls.lru t.1 } else ls   -- update LRU position (after the read)
      match ls.loaded[idx]? with
      | none => .error (.lookup, ls)
      | some isLoaded =>
        let ls := ls.mark mp idx frame isLoaded
        match mp with
        | none => .ok ls
        | some k => if ls.count > k then ls.evict labels else .ok ls   -- loaded_count > max_persist

/-- the whole `for` loop (an exception aborts it, keeping the in-place mutations) -/
def loopRun (st : StoreSt) (labels : List Nat) (mp : Option Nat) :
    Loop φ → List (Nat × Option φ) → Except (Err × Loop φ) (Loop φ)
  | ls, [] => .ok ls
  | ls, t :: ts =>
    match loopBody st labels mp ls t with
    | .error e => .error e
    | .ok ls' => loopRun st labels mp ls' ts

/-- `(label, self._series.values[p])` for the positions of the key -/
def targetsOf (s : BusSt φ) (ps : List Nat) : Option (List (Nat × Option φ)) :=
  ps.mapM fun p => match s.labels[p]?, s.cache[p]? with
    | some l, some c => some (l, c)
    | _, _ => none

/-- `Bus._update_series_cache_iloc(key)`; `ps` are the positions the iloc key addresses and
    `isElement` tells whether the key is a single integer. -/
def BusSt.updateCache (store : StoreFn φ) (pinnedReader : Bool) (st : StoreSt) (s : BusSt φ)
    (ps : List Nat) (isElement : Bool) : Except (Err × BusSt φ) (BusSt φ) :=
  let mpActive := s.maxPersist.isSome
  -- load = False if self._loaded_all else not self._loaded[key].all()
  let load := if s.loadedAll then false else !(ps.all fun p => s.loaded[p]? == some true)
  if !load && !mpActive then .ok s
  else match targetsOf s ps with
  | none => .error (.lookup, s)
  | some targets =>
    if !load then
      -- must update LRU position
      .ok { s with lru := (targets.map (·.1)).foldl touch s.lru }
    else
      let loadedCount := s.loaded.count true
      let reader : List φ :=
        if isElement then targets.map fun t => store (some t.1) t.1       -- read(label, config=self._config[label])
        else storeReaderFrames store pinnedReader s.maxPersist
               ((targets.filter fun t => t.2.isNone).map (·.1))
      let ls0 : Loop φ := { array := s.cache, loaded := s.loaded, lru := s.lru, count := loadedCount, reader := reader }
      -- try: <loop> finally: array.flags.writeable = False; self._series = Series(array, …); self._loaded_all = self._loaded.all()
      match loopRun st s.labels s.maxPersist ls0 targets with
      | .error (e, ls) =>
        .error (e, { s with cache := ls.array, loaded := ls.loaded, lru := ls.lru, loadedAll := ls.loaded.all id })
      | .ok ls =>
        .ok { s with cache := ls.array, loaded := ls.loaded, lru := ls.lru, loadedAll := ls.loaded.all id }

/-- HISTORICAL DEFINITION — behaviour before /repo 1f9773b (no `try / finally` around the load loop): an exception
    raised inside the loop kept the in-place mutations (`_loaded`, `_last_accessed`) but `_series` and `_loaded_all`
    were never re-bound, so what had been read was dropped.  Kept only for
    `SF.C17Gen.pinned_partial_read_counterexample`. -/
def BusSt.updateCacheNoFinallyPinned (store : StoreFn φ) (pinnedReader : Bool) (st : StoreSt) (s : BusSt φ)
    (ps : List Nat) (isElement : Bool) : Except (Err × BusSt φ) (BusSt φ) :=
  let mpActive := s.maxPersist.isSome
  let load := if s.loadedAll then false else !(ps.all fun p => s.loaded[p]? == some true)
  if !load && !mpActive then .ok s
  else match targetsOf s ps with
  | none => .error (.lookup, s)
  | some targets =>
    if !load then .ok { s with lru := (targets.map (·.1)).foldl touch s.lru }
    else
      let reader : List φ :=
        if isElement then targets.map fun t => store (some t.1) t.1
        else storeReaderFrames store pinnedReader s.maxPersist ((targets.filter fun t => t.2.isNone).map (·.1))
      let ls0 : Loop φ := { array := s.cache, loaded := s.loaded, lru := s.lru, count := s.loaded.count true, reader := reader }
      match loopRun st s.labels s.maxPersist ls0 targets with
      | .error (e, ls) => .error (e, { s with loaded := ls.loaded, lru := ls.lru })
      | .ok ls => .ok { s with cache := ls.array, loaded := ls.loaded, lru := ls.lru, loadedAll := ls.loaded.all id }

/-- `self._derive(series)` where `series` is the selection `ps` of the current `_series` -/
def BusSt.selection (s : BusSt φ) (ps : List Nat) : Option (List (Nat × Option φ)) := targetsOf s ps

def BusSt.derive (s : BusSt φ) (ps : List Nat) : Except Err (BusSt φ) :=
  match s.selection ps with
  | none => .error .lookup
  | some series => BusSt.init series s.maxPersist

/-- result of an extraction: one element (Frame, or the FrameDeferred placeholder) or a derived Bus -/
inductive Extracted (φ : Type)
  | element (v : Option φ)
  | bus (b : BusSt φ)
deriving Repr, DecidableEq

/-- `Bus._extract_iloc(key)` (and `_extract_loc` once the label key is translated) -/
def BusSt.extractIloc (store : StoreFn φ) (pinnedReader : Bool) (st : StoreSt) (s : BusSt φ) (k : Key) :
    Except (Err × BusSt φ) (BusSt φ × Extracted φ) :=
  match k.positions s.labels.length with
  | .error e => .error (e, s)
  | .ok ps =>
    -- a key addressing a position twice cannot build the selection's Index (raised before any mutation)
    if k.isMulti && !decide ps.Nodup then .error (.nonUnique, s)
    else match s.updateCache store pinnedReader st ps (!k.isMulti) with
    | .error e => .error e
    | .ok s' =>
      if k.isMulti then
        match s'.derive ps with
        | .error e => .error (e, s')
        | .ok d => .ok (s', .bus d)
      else
        match ps with
        | [p] => match s'.cache[p]? with
            | some v => .ok (s', .element v)
            | none => .error (.lookup, s')
        | _ => .error (.lookup, s')

/-- `for i, label in enumerate(index): yield label, self._extract_iloc(i)` -/
def BusSt.iterElements (store : StoreFn φ) (pinnedReader : Bool) (st : StoreSt) :
    BusSt φ → List Nat → List (Option φ) → Except (Err × BusSt φ) (BusSt φ × List (Option φ))
  | s, [], acc => .ok (s, acc)
  | s, i :: is, acc =>
    match s.extractIloc store pinnedReader st (.int i) with
    | .error e => .error e
    | .ok (s', .element v) => BusSt.iterElements store pinnedReader st s' is (acc ++ [v])
    | .ok (s', .bus _) => .error (.other, s')

/-- `Bus.items()` / `Bus.values` consumed completely: the values delivered, in index order -/
def BusSt.values (store : StoreFn φ) (pinnedReader : Bool) (st : StoreSt) (s : BusSt φ) :
    Except (Err × BusSt φ) (BusSt φ × List (Option φ)) :=
  match s.maxPersist with
  | none =>
    if !s.loadedAll then
      match s.updateCache store pinnedReader st (List.range s.labels.length) false with   -- key = NULL_SLICE
      | .error e => .error e
      | .ok s' => .ok (s', s'.cache)
    else .ok (s, s.cache)
  | some _ => BusSt.iterElements store pinnedReader st s (List.range s.labels.length) []

/-- `Bus.get(label)` for a label at position `p`: `self._series[label]`, no cache update -/
def BusSt.get (s : BusSt φ) (p : Nat) : Option (Option φ) := s.cache[p]?

/-- insert position `i` into a list of positions ordered by their labels -/
def insertPos (labels : List Nat) (i : Nat) : List Nat → List Nat
  | [] => [i]
  | j :: js => if labels.getD i 0 ≤ labels.getD j 0 then i :: j :: js else j :: insertPos labels i js

/-- positions that sort the (unique) labels: `Series.sort_index` -/
def sortPositions (labels : List Nat) (ascending : Bool) : List Nat :=
  let ixs := (List.range labels.length).foldr (insertPos labels) []
  if ascending then ixs else ixs.reverse

/-- `Bus.sort_values(key=…)` where the key orders the frames like their labels:
    `values` (loads everything, honouring max_persist) then `_derive` of a fully loaded Series. -/
def BusSt.sortValues (store : StoreFn φ) (pinnedReader : Bool) (st : StoreSt) (s : BusSt φ) (ascending : Bool) :
    Except (Err × BusSt φ) (BusSt φ × BusSt φ) :=
  match s.values store pinnedReader st with
  | .error e => .error e
  | .ok (s', vals) =>
    let full : BusSt φ := { s' with cache := vals }
    match (full.selection (sortPositions s.labels ascending)) with
    | none => .error (.lookup, s')
    | some series =>
      match BusSt.init series s.maxPersist with
      | .error e => .error (e, s')
      | .ok d => .ok (s', d)

/-! ## Histories -/

/-- operations of an access history on one Bus -/
inductive BusOp
  | access (k : Key)      -- getitem / loc / iloc with any key (label keys after `_loc_to_iloc`), head, tail
  | values                -- `items()` / `values` consumed completely
  | peek                  -- status, shapes, iteration over labels, keys, len, contains, get: no state change
deriving Repr

def BusSt.step (store : StoreFn φ) (pinnedReader : Bool) (st : StoreSt) (s : BusSt φ) :
    BusOp → Except (Err × BusSt φ) (BusSt φ)
  | .access k =>
    match s.extractIloc store pinnedReader st k with
    | .error e => .error e
    | .ok (s', _) => .ok s'
  | .values =>
    match s.values store pinnedReader st with
    | .error e => .error e
    | .ok (s', _) => .ok s'
  | .peek => .ok s

/-- a history on one Bus with an unchanging store; stops at the first exception -/
def BusSt.run (store : StoreFn φ) (pinnedReader : Bool) (st : StoreSt) :
    BusSt φ → List BusOp → Except (Err × BusSt φ) (BusSt φ)
  | s, [] => .ok s
  | s, op :: ops =>
    match s.step store pinnedReader st op with
    | .error e => .error e
    | .ok s' => BusSt.run store pinnedReader st s' ops

/-- an event of a full history: an operation on the Bus (it may raise), something happening to the file behind
    the Store object's back, or a write through the Store object -/
inductive HistEv
  | op (o : BusOp)
  | file (e : FileEvent)
  | storeWrite (now : Nat)
deriving Repr

/-- the state a (possibly failing) operation leaves the Bus in -/
def BusSt.stepState (store : StoreFn φ) (pinnedReader : Bool) (st : StoreSt) (s : BusSt φ) (o : BusOp) : BusSt φ :=
  match s.step store pinnedReader st o with
  | .ok s' => s'
  | .error (_, s') => s'

/-- a full history: operations continue after exceptions (with the state the object was left in), file events
    and store writes change the store state in between -/
def BusSt.runAll (store : StoreFn φ) (pinnedReader : Bool) : StoreSt → BusSt φ → List HistEv → StoreSt × BusSt φ
  | st, s, [] => (st, s)
  | st, s, .op o :: evs => BusSt.runAll store pinnedReader st (s.stepState store pinnedReader st o) evs
  | st, s, .file e :: evs => BusSt.runAll store pinnedReader (st.event e) s evs
  | st, s, .storeWrite now :: evs => BusSt.runAll store pinnedReader (st.write now) s evs

/-- Every Bus that can come into existence from a store: the Bus opened on the store, a Bus after any
    successful OR FAILED operation (whatever happened to the file before: `st` is arbitrary at every step), the Bus
    returned by a multi-label selection, and any `_derive` of a duplicate-free selection of positions
    (`drop`, `reindex` to existing labels, `sort_index`, `head`, `tail`). -/
inductive Reach (store : StoreFn φ) (pinnedReader : Bool) : BusSt φ → Prop
  | root (labels : List Nat) (mp : Option Nat) (s : BusSt φ) :
      labels.Nodup → BusSt.fromStore labels mp = .ok s → Reach store pinnedReader s
  | step (st : StoreSt) (s s' : BusSt φ) (op : BusOp) :
      Reach store pinnedReader s → s.step store pinnedReader st op = .ok s' → Reach store pinnedReader s'
  | failed (st : StoreSt) (s s' : BusSt φ) (op : BusOp) (e : Err) :
      Reach store pinnedReader s → s.step store pinnedReader st op = .error (e, s') → Reach store pinnedReader s'
  | selected (st : StoreSt) (s s' d : BusSt φ) (k : Key) :
      Reach store pinnedReader s → s.extractIloc store pinnedReader st k = .ok (s', .bus d) → Reach store pinnedReader d
  | derived (s d : BusSt φ) (ps : List Nat) :
      Reach store pinnedReader s → ps.Nodup → (∀ p ∈ ps, p < s.labels.length) → s.derive ps = .ok d →
      Reach store pinnedReader d

/-! ## Historical definitions (pinned-tree behaviour, repaired in /repo f8d3a4f)

The pinned tree recorded the access in `_last_accessed` BEFORE `next(store_reader)`: a read failing with
StoreFileMutation left an unloaded label in the LRU.  Kept only for
`SF.C17.bus_bound_after_failed_read_pinned_counterexample`. -/

/-- HISTORICAL loop body: LRU touch before the store read -/
def loopBodyPinned (st : StoreSt) (labels : List Nat) (mp : Option Nat) (ls : Loop φ) (t : Nat × Option φ) :
    Except (Err × Loop φ) (Loop φ) :=
  match locToIloc labels t.1 with
  | .error e => .error (e, ls)
  | .ok idx =>
    let ls := if mp.isSome then { ls with lru := touch ls.lru t.1 } else ls     -- update LRU position (before the read)
    match ls.fetch st t.2 with
    | .error e => .error e
    | .ok (frame, ls) =>
      match ls.loaded[idx]? with
      | none => .error (.lookup, ls)
      | some isLoaded =>
        let ls := ls.mark mp idx frame isLoaded
        match mp with
        | none => .ok ls
        | some k => if ls.count > k then ls.evict labels else .ok ls

/-- HISTORICAL: the load loop with `loopBodyPinned` -/
def loopRunPinned (st : StoreSt) (labels : List Nat) (mp : Option Nat) :
    Loop φ → List (Nat × Option φ) → Except (Err × Loop φ) (Loop φ)
  | ls, [] => .ok ls
  | ls, t :: ts =>
    match loopBodyPinned st labels mp ls t with
    | .error e => .error e
    | .ok ls' => loopRunPinned st labels mp ls' ts

/-- HISTORICAL: `_update_series_cache_iloc` of the pinned tree (element / multi reader as in `updateCache`) -/
def BusSt.updateCachePinned (store : StoreFn φ) (pinnedReader : Bool) (st : StoreSt) (s : BusSt φ)
    (ps : List Nat) (isElement : Bool) : Except (Err × BusSt φ) (BusSt φ) :=
  let mpActive := s.maxPersist.isSome
  let load := if s.loadedAll then false else !(ps.all fun p => s.loaded[p]? == some true)
  if !load && !mpActive then .ok s
  else match targetsOf s ps with
  | none => .error (.lookup, s)
  | some targets =>
    if !load then .ok { s with lru := (targets.map (·.1)).foldl touch s.lru }
    else
      let reader : List φ :=
        if isElement then targets.map fun t => store (some t.1) t.1
        else storeReaderFrames store pinnedReader s.maxPersist ((targets.filter fun t => t.2.isNone).map (·.1))
      let ls0 : Loop φ := { array := s.cache, loaded := s.loaded, lru := s.lru, count := s.loaded.count true, reader := reader }
      match loopRunPinned st s.labels s.maxPersist ls0 targets with
      | .error (e, ls) => .error (e, { s with loaded := ls.loaded, lru := ls.lru })
      | .ok ls => .ok { s with cache := ls.array, loaded := ls.loaded, lru := ls.lru, loadedAll := ls.loaded.all id }

/-! ## Spec side -/

/-- abstract LRU of capacity `k` on a recency list (least recently used first):
    using `l` moves it to the end; when more than `k` labels are held the first is dropped. -/
def absTouch (k : Nat) (rec : List Nat) (l : Nat) : List Nat :=
  let r := rec.erase l ++ [l]
  if r.length > k then r.tail else r

/-- the frame an eager load returns for label `l` -/
def eager (store : StoreFn φ) (l : Nat) : φ := store (some l) l

/-- Representation invariant of a Bus.  `P l f` says that frame `f` is acceptable under label `l`
    (`fun _ _ => True` for the bookkeeping invariant, `f = eager store l` for faithfulness). -/
structure Inv (P : Nat → φ → Prop) (s : BusSt φ) : Prop where
  labelsNodup : s.labels.Nodup
  lenCache : s.cache.length = s.labels.length
  flags : s.loaded = s.cache.map Option.isSome
  allFlag : s.loadedAll = s.loaded.all id
  content : ∀ (i l : Nat) (f : φ), s.labels[i]? = some l → s.cache[i]? = some (some f) → P l f
  lruNone : s.maxPersist = none → s.lru = []
  lruNodup : s.lru.Nodup
  lruMem : s.maxPersist.isSome = true →
    ∀ (i l : Nat), s.labels[i]? = some l → (s.loaded[i]? = some true ↔ l ∈ s.lru)
  lruSub : ∀ l ∈ s.lru, l ∈ s.labels
  lruLen : s.maxPersist.isSome = true → s.lru.length = s.loaded.count true
  bound : ∀ k, s.maxPersist = some k → s.loaded.count true ≤ k

end SF.Bus
