/- Helper lemmas for SFModel.BlocksResize, part 5: `from_blocks` on the yielded blocks (shape of the
   reindexed TypeBlocks), and the link to the layout-free `SetOps.resizeCols` of C06 when the cell
   conversion is the identity. -/
import SFModel.BlocksResizeLemmas4

namespace SF
open SetOps (IC gather scatter dstToSrc mapMExcept)

variable {α : Type}

namespace TB

/-- the row count `from_blocks` determines from blocks that all have `n` rows is `n` (or none yet) -/
theorem fromBlocks_go_rc (bs : List (Block α)) (n : Nat) (rc : Option Nat) (acc : List (Block α))
    (hrc : rc = none ∨ rc = some n) (h : ∀ b ∈ bs, b.RowsOk n) (rc' : Option Nat) (out : List (Block α))
    (hgo : fromBlocks.go bs rc acc = .ok (rc', out)) : rc' = none ∨ rc' = some n := by
  induction bs generalizing rc acc with
  | nil =>
    simp only [fromBlocks.go, Except.ok.injEq, Prod.mk.injEq] at hgo
    rw [← hgo.1]; exact hrc
  | cons b rest ih =>
    have hrest : ∀ b ∈ rest, b.RowsOk n := fun x hx => h x (List.mem_cons_of_mem _ hx)
    have hb := h b List.mem_cons_self
    match b with
    | .d1 t c =>
      have hc : c.length = n := hb c (by simp [Block.colsOf])
      rcases hrc with rfl | rfl
      · simp only [fromBlocks.go] at hgo
        exact ih _ _ (Or.inr (by rw [hc])) hrest hgo
      · simp only [fromBlocks.go, hc, ne_eq, not_true_eq_false, if_false] at hgo
        exact ih _ _ (Or.inr rfl) hrest hgo
    | .d2 t [] =>
      simp only [fromBlocks.go] at hgo
      exact ih _ _ hrc hrest hgo
    | .d2 t (c :: cs) =>
      have hc : c.length = n := hb c (by simp [Block.colsOf])
      have hcs : ∀ x ∈ cs, x.length = c.length := by
        intro x hx; rw [hc]; exact hb x (by simp [Block.colsOf, hx])
      have hcs' : ¬ ¬ (∀ x ∈ cs, x.length = c.length) := fun hn => hn hcs
      rcases hrc with rfl | rfl
      · simp only [fromBlocks.go] at hgo
        rw [if_neg hcs'] at hgo
        exact ih _ _ (Or.inr (by rw [hc])) hrest hgo
      · simp only [fromBlocks.go] at hgo
        rw [if_neg hcs', if_neg (by simp [hc])] at hgo
        exact ih _ _ (Or.inr rfl) hrest hgo

/-- `from_blocks(blocks, shape_reference=(n, _))` of blocks that all have `n` rows: the non-empty
    blocks, `n` rows -/
theorem fromBlocks_rows (bs : List (Block α)) (n : Nat) (h : ∀ b ∈ bs, b.RowsOk n) :
    fromBlocks bs (some n) = .ok ⟨n, bs.filter (fun b => 0 < b.width)⟩ := by
  obtain ⟨rc', out, hgo⟩ := fromBlocks_go_ok bs n none [] (Or.inl rfl) h
  have hout := (fromBlocks_go_spec _ _ _ _ _ hgo).1
  simp only [List.reverse_nil, List.nil_append] at hout
  have hrc := fromBlocks_go_rc bs n none [] (Or.inl rfl) h rc' out hgo
  unfold fromBlocks
  rw [hgo]
  rcases hrc with rfl | rfl
  · simp [hout]
  · simp [hout]

end TB

theorem colsDT_filter_width (bs : List (Block α)) :
    colsDT (bs.filter (fun b => 0 < b.width)) = colsDT bs := by
  induction bs with
  | nil => rfl
  | cons b bs ih =>
    by_cases hw : 0 < b.width
    · simp [hw, ih]
    · have hw0 : b.width = 0 := by omega
      have hc : b.colsDT = [] := by
        apply List.eq_nil_of_length_eq_zero; simp [Block.colsDT, hw0]
      simp [hw, ih, hc]

theorem rowsOk_of_colsDT {bs : List (Block α)} {n : Nat} (h : ∀ y ∈ colsDT bs, y.2.length = n) :
    ∀ b ∈ bs, b.RowsOk n := by
  intro b hb c hc
  exact h (b.dt, c) (by
    simp only [colsDT, List.mem_flatMap, Block.colsDT, List.mem_map]
    exact ⟨b, hb, c, hc, rfl⟩)

section env
variable (resolve : DT → DT → DT) (conv : DT → DT → α → α)

/-- `Frame.reindex` at the block level: never an error on well-formed input; the result is
    well-formed, has the shape (index size, columns size) and its typed columns are the
    specification. -/
theorem TB.resized_spec (tb : TB α) (hwf : tb.WF) (iic cic : Option IC)
    (hi : SetOps.OptWF iic tb.rows) (hc : SetOps.OptWF cic tb.ncols) (fill : α) (fillDT : DT) :
    ∃ res, tb.resized resolve conv iic cic fill fillDT = .ok res ∧ res.WF ∧
      res.rows = SetOps.newLen iic tb.rows ∧ res.ncols = SetOps.newLen cic tb.ncols ∧
      resizeSpec resolve conv tb.rows iic cic fill fillDT (colsDT tb.blocks) = .ok (colsDT res.blocks) := by
  obtain ⟨bs, hbs, hspec⟩ := TB.resizeBlocks_spec resolve conv tb hwf iic cic hi hc fill fillDT
  obtain ⟨L, hL, hlen, hrows, _⟩ := resizeSpec_ok resolve conv tb.rows tb.ncols iic cic hi hc fill fillDT
    (colsDT tb.blocks) (colsDT_ncols tb) (colsDT_rows tb hwf)
  rw [hspec] at hL
  simp only [Except.ok.injEq] at hL
  subst hL
  have hrok := rowsOk_of_colsDT hrows
  have hfb := TB.fromBlocks_rows bs _ hrok
  have hnc : (⟨SetOps.newLen iic tb.rows, bs.filter (fun b => 0 < b.width)⟩ : TB α).ncols =
      SetOps.newLen cic tb.ncols := by
    rw [← colsDT_ncols]; simp only [colsDT_filter_width]; exact hlen
  refine ⟨⟨SetOps.newLen iic tb.rows, bs.filter (fun b => 0 < b.width)⟩, ?_, ?_, rfl, hnc, ?_⟩
  · unfold TB.resized
    rw [hbs]
    simp only [hfb]
    rw [if_neg (by simp [hnc])]
  · refine ⟨?_, ?_⟩
    · intro b hb; simpa using (List.mem_filter.mp hb).2
    · intro b hb; exact hrok b (List.mem_filter.mp hb).1
  · simp only [colsDT_filter_width]; exact hspec

/-! ### identity conversion: the cells are `SetOps.resizeCols` of the cells -/

theorem colLoop_eq_colLoopG {β : Type} (cic : IC) (cols : List (List β)) (g : List β → Except Err (List β))
    (fc : List β) : SetOps.colLoop cic cols g fc = SetOps.colLoopG cic cols g fc := by
  unfold SetOps.colLoop SetOps.colLoopG
  congr 1
  funext idx
  cases dstToSrc cic idx with
  | none => rfl
  | some j =>
    simp only
    cases cols[j]? <;> rfl

/-- one column: the cells of the typed row treatment are the layout-free row treatment of the cells -/
theorem resizeColBoth_of_colT (hconv : ∀ a b v, conv a b v = v) {ic : IC} {n : Nat} (hic : ic.WF n)
    (fill : α) (fillDT : DT) (x : DT × List α) (hx : x.2.length = n) :
    SetOps.resizeColBoth ic fill x.2 = .ok (colT resolve conv (some ic) fill fillDT x).2 := by
  have h1 := (resizeColDT_eq_colT resolve conv (iic := some ic) hic fill fillDT x hx).1
  have hmap : x.2.map (conv x.1 (resolve x.1 fillDT)) = x.2 := by
    have : conv x.1 (resolve x.1 fillDT) = id := by funext v; exact hconv _ _ v
    rw [this, List.map_id]
  unfold resizeColDT at h1
  simp only [hconv, hmap] at h1
  cases hr : SetOps.resizeColBoth ic fill x.2 with
  | error e => rw [hr] at h1; split at h1 <;> cases h1
  | ok r =>
    rw [hr] at h1
    split at h1 <;>
    · simp only [Except.map, Except.ok.injEq] at h1
      rw [← h1]

theorem slot_snd (hconv : ∀ a b v, conv a b v = v) {ic : Option IC} {cc : IC} (n : Nat) (fill : α) (fillDT : DT)
    (cols : List (DT × List α)) (g' : List α → List α)
    (hg : ∀ x ∈ cols, (colT resolve conv ic fill fillDT x).2 = g' x.2) (idx : Nat) :
    (slot cc cols (colT resolve conv ic fill fillDT) (fillColDT conv n fill fillDT) idx).2 =
      slot cc (cols.map Prod.snd) g' (List.replicate n fill) idx := by
  unfold slot
  cases dstToSrc cc idx with
  | none => simp [fillColDT, hconv]
  | some j =>
    simp only [List.getElem?_map]
    cases hj : cols[j]? with
    | none => simp [fillColDT, hconv]
    | some x => simpa using hg x (List.mem_of_getElem? hj)

/-- With the identity as cell conversion, the cells of the specification are `SetOps.resizeCols`
    (the layout-free model of C06) applied to the cells. -/
theorem resizeSpec_cells_eq_resizeCols (hconv : ∀ a b v, conv a b v = v) (rows n : Nat) (iic cic : Option IC)
    (hi : SetOps.OptWF iic rows) (hc : SetOps.OptWF cic n) (fill : α) (fillDT : DT)
    (cols : List (DT × List α)) (hn : cols.length = n) (hr : ∀ x ∈ cols, x.2.length = rows)
    (L : List (DT × List α)) (hL : resizeSpec resolve conv rows iic cic fill fillDT cols = .ok L) :
    SetOps.resizeCols rows iic cic fill (cols.map Prod.snd) = .ok (L.map Prod.snd) := by
  have hG : ∀ x ∈ cols, resizeColDT resolve conv iic fill fillDT x = .ok (colT resolve conv iic fill fillDT x) :=
    fun x hx => (resizeColDT_eq_colT resolve conv hi fill fillDT x (hr x hx)).1
  cases cic with
  | none =>
    have hL' : resizeSpec resolve conv rows iic none fill fillDT cols =
        .ok (cols.map (colT resolve conv iic fill fillDT)) := by
      unfold resizeSpec; exact SetOps.mapMExcept_ok hG
    rw [hL'] at hL
    simp only [Except.ok.injEq] at hL
    subst hL
    cases iic with
    | none =>
      simp only [SetOps.resizeCols, List.map_map]
      congr 1
    | some ic =>
      simp only [SetOps.OptWF] at hi
      simp only [SetOps.resizeCols]
      have hall : ∀ c ∈ cols.map Prod.snd,
          SetOps.rowG ic fill c = .ok ((fun c => okOr [] (SetOps.rowG ic fill c)) c) := by
        intro c hcm
        obtain ⟨x, hx, rfl⟩ := List.mem_map.mp hcm
        have := resizeColBoth_of_colT resolve conv hconv hi fill fillDT x (hr x hx)
        rw [SetOps.resizeColBoth_eq] at this
        simp only [this, okOr]
      refine Eq.trans (SetOps.mapMExcept_ok (f := SetOps.rowG ic fill) hall) ?_
      simp only [List.map_map]
      refine congrArg Except.ok (List.map_congr_left ?_)
      intro x hx
      have := resizeColBoth_of_colT resolve conv hconv hi fill fillDT x (hr x hx)
      rw [SetOps.resizeColBoth_eq] at this
      simp only [Function.comp, this, okOr]
  | some cc =>
    simp only [SetOps.OptWF] at hc
    have hL' := colLoopG_ok hc cols hn _ _ hG (fillColDT conv (SetOps.newLen iic rows) fill fillDT)
    unfold resizeSpec at hL
    simp only [] at hL
    rw [hL'] at hL
    simp only [Except.ok.injEq] at hL
    subst hL
    have hn' : (cols.map Prod.snd).length = n := by simpa using hn
    cases iic with
    | none =>
      have hg : ∀ x ∈ cols, (colT resolve conv none fill fillDT x).2 = id x.2 := fun _ _ => rfl
      have hloop := colLoopG_ok hc (cols.map Prod.snd) hn' (Except.ok) id (fun _ _ => rfl) (List.replicate rows fill)
      have hslots : (List.range cc.size).map (slot cc (cols.map Prod.snd) id (List.replicate rows fill)) =
          ((List.range cc.size).map (slot cc cols (colT resolve conv none fill fillDT)
            (fillColDT conv rows fill fillDT))).map Prod.snd := by
        rw [List.map_map]
        apply List.map_congr_left
        intro idx _
        exact (slot_snd resolve conv hconv rows fill fillDT cols id hg idx).symm
      simp only [SetOps.resizeCols, SetOps.newLen]
      by_cases hcom : cc.hasCommon = true
      · rw [if_neg (by simp [hcom])]
        rw [colLoop_eq_colLoopG, hloop, hslots]
      · have hcf : cc.hasCommon = false := by simpa using hcom
        rw [if_pos (by simp [hcf]), ← hslots, slots_nocommon hc hcf]
    | some ic =>
      simp only [SetOps.OptWF] at hi
      have hg : ∀ x ∈ cols, (colT resolve conv (some ic) fill fillDT x).2 =
          (fun c => okOr [] (SetOps.resizeColBoth ic fill c)) x.2 := by
        intro x hx
        simp only [resizeColBoth_of_colT resolve conv hconv hi fill fillDT x (hr x hx), okOr]
      have hgok : ∀ c ∈ cols.map Prod.snd, SetOps.resizeColBoth ic fill c =
          .ok ((fun c => okOr [] (SetOps.resizeColBoth ic fill c)) c) := by
        intro c hcm
        obtain ⟨x, hx, rfl⟩ := List.mem_map.mp hcm
        simp only [resizeColBoth_of_colT resolve conv hconv hi fill fillDT x (hr x hx), okOr]
      have hloop := colLoopG_ok hc (cols.map Prod.snd) hn' (SetOps.resizeColBoth ic fill) _ hgok
        (List.replicate ic.size fill)
      have hslots : (List.range cc.size).map (slot cc (cols.map Prod.snd)
            (fun c => okOr [] (SetOps.resizeColBoth ic fill c)) (List.replicate ic.size fill)) =
          ((List.range cc.size).map (slot cc cols (colT resolve conv (some ic) fill fillDT)
            (fillColDT conv ic.size fill fillDT))).map Prod.snd := by
        rw [List.map_map]
        apply List.map_congr_left
        intro idx _
        exact (slot_snd resolve conv hconv ic.size fill fillDT cols _ hg idx).symm
      simp only [SetOps.resizeCols, SetOps.newLen]
      by_cases hnone : (!cc.hasCommon && !ic.hasCommon) = true
      · rw [if_pos hnone]
        simp only [Bool.and_eq_true, Bool.not_eq_true'] at hnone
        rw [← hslots, slots_nocommon hc hnone.1]
      · rw [if_neg hnone]
        rw [colLoop_eq_colLoopG, hloop, hslots]

end env

end SF
