/- Helper lemmas about `rangeList`, `PySlice.indices` and `Key.positions`. -/
import SFModel.Slice

namespace SF

theorem rangeList_length (a b c : Int) : (rangeList a b c).length = rangeLen a b c := by
  simp [rangeList]

theorem rangeList_getElem (a b c : Int) (k : Nat) (h : k < (rangeList a b c).length) :
    (rangeList a b c)[k] = a + (k : Int) * c := by
  simp [rangeList]

theorem mem_rangeList {a b c x : Int} :
    x ∈ rangeList a b c ↔ ∃ k : Nat, k < rangeLen a b c ∧ x = a + (k : Int) * c := by
  simp [rangeList, List.mem_map, List.mem_range, eq_comm]

/-- For a positive step: element `k` stays below `stop`. -/
theorem rangeLen_pos_bound {a b c : Int} (hc : 0 < c) {k : Nat} (hk : k < rangeLen a b c) :
    a + (k : Int) * c < b := by
  unfold rangeLen at hk
  have hc' : c > 0 := hc
  simp only [hc', if_true] at hk
  split at hk
  · rename_i hab
    have h1 : (k : Int) < (b - a - 1) / c + 1 := by omega
    have h2 : (k : Int) ≤ (b - a - 1) / c := by omega
    have h3 : (k : Int) * c ≤ ((b - a - 1) / c) * c := Int.mul_le_mul_of_nonneg_right h2 (by omega)
    have h4 : ((b - a - 1) / c) * c ≤ b - a - 1 := Int.ediv_mul_le _ (by omega)
    omega
  · omega

/-- For a negative step: element `k` stays above `stop`. -/
theorem rangeLen_neg_bound {a b c : Int} (hc : c < 0) {k : Nat} (hk : k < rangeLen a b c) :
    b < a + (k : Int) * c := by
  unfold rangeLen at hk
  have hc' : ¬ c > 0 := by omega
  simp only [hc', if_false, hc, if_true] at hk
  split at hk
  · rename_i hab
    have h2 : (k : Int) ≤ (a - b - 1) / (-c) := by omega
    have h3 : (k : Int) * (-c) ≤ ((a - b - 1) / (-c)) * (-c) := Int.mul_le_mul_of_nonneg_right h2 (by omega)
    have h4 : ((a - b - 1) / (-c)) * (-c) ≤ a - b - 1 := Int.ediv_mul_le _ (by omega)
    have h5 : (k : Int) * (-c) = -((k : Int) * c) := by rw [Int.mul_neg]
    omega
  · omega

/-- Bounds of `slice.indices(n)`. -/
theorem indices_bounds {s : PySlice} {n : Nat} {a b c : Int} (h : s.indices n = .ok (a, b, c)) :
    c ≠ 0 ∧ (0 < c → 0 ≤ a ∧ a ≤ n ∧ 0 ≤ b ∧ b ≤ n) ∧
    (c < 0 → -1 ≤ a ∧ a ≤ (n : Int) - 1 ∧ -1 ≤ b ∧ b ≤ (n : Int) - 1) := by
  obtain ⟨st, sp, se⟩ := s
  unfold PySlice.indices at h
  simp only at h
  split at h
  · cases h
  · rename_i hne
    simp only [Except.ok.injEq, Prod.mk.injEq] at h
    obtain ⟨ha, hb, hc⟩ := h
    subst hc
    refine ⟨hne, ?_, ?_⟩
    · intro hpos
      have hn : ¬ (se.getD 1 < 0) := by omega
      simp only [hn, if_false] at ha hb
      cases st <;> cases sp <;> simp only at ha hb <;> (try split at ha) <;> (try split at hb) <;> omega
    · intro hneg
      simp only [hneg, if_true] at ha hb
      cases st <;> cases sp <;> simp only at ha hb <;> (try split at ha) <;> (try split at hb) <;> omega

end SF
