/- Helper lemmas about `rangeList`, `PySlice.indices` and `Key.positions`. -/
import SFModel.Slice

namespace SF

theorem rangeList_length (a b c : Int) : (rangeList a b c).length = rangeLen a b c := by
  simp [rangeList]

theorem rangeList_getElem (a b c : Int) (k : Nat) (h : k < (rangeList a b c).length) :
    (rangeList a b c)[k] = a + (k : Int) * c := by
  simp [rangeList]

theorem mem_rangeList {a b c x : Int} :
    x ∈ rangeList a b c ↔ ∃ k : Nat, k < rangeLen a b c ∧ x = a + (k : Int) * c := by
  simp [rangeList, List.mem_map, List.mem_range, eq_comm]

/-- For a positive step: element `k` stays below `stop`. -/
theorem rangeLen_pos_bound {a b c : Int} (hc : 0 < c) {k : Nat} (hk : k < rangeLen a b c) :
    a + (k : Int) * c < b := by
  unfold rangeLen at hk
  have hc' : c > 0 := hc
  simp only [hc', if_true] at hk
  split at hk
  · rename_i hab
    have h1 : (k : Int) < (b - a - 1) / c + 1 := by omega
    have h2 : (k : Int) ≤ (b - a - 1) / c := by omega
    have h3 : (k : Int) * c ≤ ((b - a - 1) / c) * c := Int.mul_le_mul_of_nonneg_right h2 (by omega)
    have h4 : ((b - a - 1) / c) * c ≤ b - a - 1 := Int.ediv_mul_le _ (by omega)
    omega
  · omega

/-- For a negative step: element `k` stays above `stop`. -/
theorem rangeLen_neg_bound {a b c : Int} (hc : c < 0) {k : Nat} (hk : k < rangeLen a b c) :
    b < a + (k : Int) * c := by
  unfold rangeLen at hk
  have hc' : ¬ c > 0 := by omega
  simp only [hc', if_false, hc, if_true] at hk
  split at hk
  · rename_i hab
    have h2 : (k : Int) ≤ (a - b - 1) / (-c) := by omega
    have h3 : (k : Int) * (-c) ≤ ((a - b - 1) / (-c)) * (-c) := Int.mul_le_mul_of_nonneg_right h2 (by omega)
    have h4 : ((a - b - 1) / (-c)) * (-c) ≤ a - b - 1 := Int.ediv_mul_le _ (by omega)
    have h5 : (k : Int) * (-c) = -((k : Int) * c) := by rw [Int.mul_neg]
    omega
  · omega

/-- Bounds of `slice.indices(n)`. -/
theorem indices_bounds {s : PySlice} {n : Nat} {a b c : Int} (h : s.indices n = .ok (a, b, c)) :
    c ≠ 0 ∧ (0 < c → 0 ≤ a ∧ a ≤ n ∧ 0 ≤ b ∧ b ≤ n) ∧
    (c < 0 → -1 ≤ a ∧ a ≤ (n : Int) - 1 ∧ -1 ≤ b ∧ b ≤ (n : Int) - 1) := by
  obtain ⟨st, sp, se⟩ := s
  unfold PySlice.indices at h
  simp only at h
  split at h
  · cases h
  · rename_i hne
    simp only [Except.ok.injEq, Prod.mk.injEq] at h
    obtain ⟨ha, hb, hc⟩ := h
    subst hc
    refine ⟨hne, ?_, ?_⟩
    · intro hpos
      have hn : ¬ (se.getD 1 < 0) := by omega
      simp only [hn, if_false] at ha hb
      cases st <;> cases sp <;> simp only at ha hb <;> (try split at ha) <;> (try split at hb) <;> omega
    · intro hneg
      simp only [hneg, if_true] at ha hb
      cases st <;> cases sp <;> simp only at ha hb <;> (try split at ha) <;> (try split at hb) <;> omega

/-! ### `slice_to_ascending_slice` arithmetic -/

theorem rangeList_reverse_of {a b c a' b' : Int}
    (hlen : rangeLen a' b' (-c) = rangeLen a b c)
    (hst : 0 < rangeLen a b c → a' = a + ((rangeLen a b c : Nat) - 1 : Int) * c) :
    rangeList a' b' (-c) = (rangeList a b c).reverse := by
  apply List.ext_getElem
  · simp [rangeList_length, hlen]
  · intro k h1 h2
    rw [List.getElem_reverse, rangeList_getElem, rangeList_getElem]
    simp only [rangeList_length] at h1 h2 ⊢
    have hpos : 0 < rangeLen a b c := by omega
    rw [hst hpos]
    have : ((rangeLen a b c - 1 - k : Nat) : Int) = (rangeLen a b c : Int) - 1 - k := by omega
    rw [this]
    grind

theorem asc_core (n : Nat) (a ks d : Int) (hd : 0 < d) (han : a ≤ n - 1) :
    rangeList (min (a - d * ((a - ks - 1) / d)) n) (a + 1) d
      = (rangeList a (min ks (n-1)) (-d)).reverse := by
  have hq1 : d * ((a - ks - 1) / d) ≤ a - ks - 1 := by
    have := Int.mul_ediv_add_emod (a - ks - 1) d
    have := Int.emod_nonneg (a - ks - 1) (b := d) (by omega)
    omega
  have hq2 : a - ks - 1 < d * ((a - ks - 1) / d) + d := by
    have := Int.mul_ediv_add_emod (a - ks - 1) d
    have := Int.emod_lt_of_pos (a - ks - 1) hd
    omega
  have hdd : - -d = d := by omega
  have key := @rangeList_reverse_of a (min ks (n-1)) (-d) (min (a - d * ((a - ks - 1) / d)) n) (a+1)
  rw [hdd] at key
  generalize hq : (a - ks - 1) / d = q at *
  by_cases hlt : ks < a
  · have hb : min ks ((n : Int) - 1) = ks := by omega
    have hq0 : 0 ≤ q := by rw [← hq]; exact Int.ediv_nonneg (by omega) (by omega)
    have hp0 : 0 ≤ d * q := Int.mul_nonneg (by omega) hq0
    have hlen1 : rangeLen a ks (-d) = (q + 1).toNat := by
      unfold rangeLen
      rw [if_neg (by omega), if_pos (by omega), if_pos hlt, hdd, hq]
    have hx : min (a - d * q) (n : Int) = a - d * q := by omega
    have hlen2 : rangeLen (a - d * q) (a + 1) d = (q + 1).toNat := by
      unfold rangeLen
      rw [if_pos (by omega), if_pos (by omega)]
      have : a + 1 - (a - d * q) - 1 = d * q := by omega
      rw [this, Int.mul_ediv_cancel_left _ (by omega)]
    rw [hb, hx, hlen1, hlen2] at key
    rw [hb, hx]
    refine key rfl fun _ => ?_
    have : (((q + 1).toNat : Nat) : Int) = q + 1 := by omega
    rw [this]
    grind
  · have hlen1 : rangeLen a (min ks ((n : Int) - 1)) (-d) = 0 := by
      unfold rangeLen
      rw [if_neg (by omega), if_pos (by omega), if_neg (by omega)]
    have hq0 : q < 0 := by rw [← hq]; exact Int.ediv_neg_of_neg_of_pos (by omega) hd
    have hp : d * q ≤ d * (-1) := Int.mul_le_mul_of_nonneg_left (by omega) (by omega)
    have hlen2 : rangeLen (min (a - d * q) (n : Int)) (a + 1) d = 0 := by
      unfold rangeLen
      rw [if_pos (by omega), if_neg (by omega)]
    rw [hlen1, hlen2] at key
    exact key rfl fun h => absurd h (by omega)


theorem asc_start_nonneg (a ks d : Int) (hd : 0 < d) (hks : -1 ≤ ks) :
    0 ≤ a - d * ((a - ks - 1) / d) := by
  have := Int.mul_ediv_add_emod (a - ks - 1) d
  have := Int.emod_nonneg (a - ks - 1) (b := d) (by omega)
  omega

theorem normStart_nonneg {st : Option Int} {n : Nat} {v : Int}
    (h : normStart st n = some (some v)) : 0 ≤ v := by
  unfold normStart at h
  split at h
  · cases h
  · split at h
    · split at h <;> simp at h; omega
    · simp at h; omega

theorem normStop_nonneg {sp : Option Int} {n : Nat} {v : Int}
    (h : normStop sp n = some v) : 0 ≤ v := by
  unfold normStop at h
  split at h
  · cases h
  · split at h
    · split at h <;> simp at h; omega
    · simp at h; omega

/-- clamped start of a negative-step slice, from the normalised start -/
def negStart (st : Option Int) (n : Nat) : Int :=
  match normStart st n with
  | none => -1
  | some none => n - 1
  | some (some v) => min v (n - 1)

/-- clamped stop of a negative-step slice, from the normalised stop -/
def negStop (sp : Option Int) (n : Nat) : Int :=
  match normStop sp n with
  | none => -1
  | some ks => min ks (n - 1)

/-- `slice.indices(n)` of a negative-step slice in terms of the normalised endpoints. -/
theorem indices_neg (st sp : Option Int) (c : Int) (hc : c < 0) (n : Nat) :
    PySlice.indices ⟨st, sp, some c⟩ n = .ok (negStart st n, negStop sp n, c) := by
  have hc0 : c ≠ 0 := by omega
  unfold PySlice.indices
  simp only [Option.getD_some, if_neg hc0, if_pos hc]
  congr 2
  · cases st with
    | none => simp [negStart, normStart]
    | some v =>
      by_cases h1 : v < 0
      · by_cases h2 : v + (n : Int) < 0
        · simp only [negStart, normStart, if_pos h1, if_pos h2]; omega
        · simp only [negStart, normStart, if_pos h1, if_neg h2]; omega
      · simp only [negStart, normStart, if_neg h1]
  · congr 1
    cases sp with
    | none => simp [negStop, normStop]
    | some v =>
      by_cases h1 : v < 0
      · by_cases h2 : v + (n : Int) ≥ 0
        · simp only [negStop, normStop, if_pos h1, if_pos h2]; omega
        · simp only [negStop, normStop, if_pos h1, if_neg h2]; omega
      · simp only [negStop, normStop, if_neg h1]

/-- `slice.indices(n)` of a positive-step slice with non-negative endpoints. -/
theorem indices_pos (st sp : Option Int) (d : Int) (hd : 0 < d) (n : Nat)
    (hst : ∀ x, st = some x → 0 ≤ x) (hsp : ∀ x, sp = some x → 0 ≤ x) :
    PySlice.indices ⟨st, sp, some d⟩ n = .ok (min (st.getD 0) n, min (sp.getD n) n, d) := by
  have hc0 : d ≠ 0 := by omega
  have hc : ¬ d < 0 := by omega
  unfold PySlice.indices
  simp only [Option.getD_some, if_neg hc0, if_neg hc]
  cases st with
  | none =>
    cases sp with
    | none => simp; omega
    | some y => have := hsp y rfl; simp; omega
  | some x =>
    have := hst x rfl
    cases sp with
    | none => simp; omega
    | some y => have := hsp y rfl; simp; omega

theorem asc_positions (n : Nat) (st sp : Option Int) (kstart st' : Option Int) (c : Int) (hc : c < 0)
    (hks : normStart st n = some kstart)
    (hx : st'.getD 0 = negStart st n - (-c) * ((negStart st n - (normStop sp n).getD (-1) - 1) / (-c))) :
    PySlice.positions ⟨st', kstart.map (· + 1), some (-c)⟩ n
      = .ok ((rangeList (negStart st n) (negStop sp n) c).map Int.toNat).reverse := by
  have hksv : -1 ≤ (normStop sp n).getD (-1) := by
    cases hs : normStop sp n with
    | none => simp
    | some v => have := normStop_nonneg hs; simp; omega
  have hx0 : ∀ x, st' = some x → 0 ≤ x := by
    intro x hxx
    subst hxx
    simp only [Option.getD_some] at hx
    rw [hx]
    exact asc_start_nonneg _ _ _ (by omega) hksv
  have hsp : ∀ x, kstart.map (· + 1) = some x → 0 ≤ x := by
    intro x hxx
    cases kstart with
    | none => simp at hxx
    | some v =>
      have := normStart_nonneg hks
      simp at hxx; omega
  have han : negStart st n ≤ (n : Int) - 1 := by
    unfold negStart; rw [hks]; cases kstart <;> simp <;> omega
  have hstop : min ((kstart.map (· + 1)).getD (n : Int)) (n : Int) = negStart st n + 1 := by
    unfold negStart; rw [hks]; cases kstart <;> simp <;> omega
  have hb : negStop sp n = min ((normStop sp n).getD (-1)) ((n : Int) - 1) := by
    unfold negStop; cases normStop sp n <;> simp <;> omega
  unfold PySlice.positions
  rw [indices_pos _ _ _ (by omega) n hx0 hsp]
  simp only [hstop, hx, hb]
  rw [asc_core n _ _ (-c) (by omega) han]
  simp [List.map_reverse]

end SF
