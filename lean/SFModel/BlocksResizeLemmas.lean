/- Helper lemmas for SFModel.BlocksResize, part 1: lanes, typed columns, the directory lookup. -/
import SFModel.BlocksResize
import SFModel.BlocksLemmas
import SFModel.SetOpsFrameLemmas

namespace SF
open SetOps (IC gather scatter dstToSrc mapMExcept)

/-! ### `gather` / `gatherE` -/

theorem gather_map {β γ : Type} (f : β → γ) (l : List β) (is : List Nat) :
    gather (l.map f) is = (gather l is).map (List.map f) := by
  induction is with
  | nil => rfl
  | cons i is ih =>
    simp only [gather, ih, List.getElem?_map]
    cases l[i]? with
    | none => rfl
    | some v =>
      cases gather l is with
      | none => rfl
      | some r => rfl

theorem gatherE_ok {β : Type} {l : List β} {is : List Nat} (h : ∀ i ∈ is, i < l.length) :
    ∃ g, gatherE l is = .ok g ∧ gather l is = some g ∧ g.length = is.length ∧
      ∀ k (hk : k < is.length), g[k]? = l[is[k]]? := by
  obtain ⟨g, hg⟩ := SetOps.gather_isSome h
  refine ⟨g, by simp [gatherE, hg], hg, SetOps.gather_eq_some_length hg, ?_⟩
  intro k hk
  exact (SetOps.gather_getElem? hg k hk).1

/-- the result of a computation known to succeed -/
def okOr {δ : Type} (d : δ) : Except Err δ → δ
  | .ok r => r
  | .error _ => d

theorem okOr_eq {δ : Type} {d : δ} {e : Except Err δ} {r : δ} (h : e = .ok r) : okOr d e = r := by
  subst h; rfl

theorem eq_ok_okOr {δ : Type} {d : δ} {e : Except Err δ} (h : ∃ r, e = .ok r) : e = .ok (okOr d e) := by
  obtain ⟨r, rfl⟩ := h; rfl

section env
variable {α : Type} (resolve : DT → DT → DT) (conv : DT → DT → α → α)

/-! ### the row treatment of the block model is the layout-free row treatment of C06 -/

theorem rowsCol_eq (ic : IC) (fill : α) (fillDT : DT) (x : DT × List α) :
    rowsCol resolve conv ic fill fillDT x = resizeColDT resolve conv (some ic) fill fillDT x := by
  unfold rowsCol resizeColDT rowsLane rowsDT
  by_cases hs : ic.isSubset = true
  · simp only [hs, if_true]
    unfold gatherE SetOps.resizeColBoth
    simp only [hs, if_true]
    cases gather x.2 ic.ilocSrc <;> rfl
  · simp only [hs, Bool.false_eq_true, if_false]
    unfold fillLane SetOps.resizeColBoth fullForFillCell fullForFillDT assignRows gatherE
    simp only [hs, Bool.false_eq_true, if_false]
    by_cases hc : ic.hasCommon = true
    · simp only [hc, if_true, gather_map]
      cases gather x.2 ic.ilocSrc with
      | none => rfl
      | some g =>
        simp only [Option.map_some]
        cases scatter (List.replicate ic.size (conv fillDT (resolve x.1 fillDT) fill)) ic.ilocDst
          (List.map (conv x.1 (resolve x.1 fillDT)) g) <;> rfl
    · simp only [hc, Bool.false_eq_true, if_false]

/-- success and shape of one typed column through a well-formed row correspondence -/
theorem resizeColDT_some_ok {ic : IC} {n : Nat} (hic : ic.WF n) (fill : α) (fillDT : DT)
    (x : DT × List α) (hx : x.2.length = n) :
    ∃ y, resizeColDT resolve conv (some ic) fill fillDT x = .ok y ∧
      y.1 = rowDT resolve (some ic) fillDT x.1 ∧ y.2.length = ic.size := by
  obtain ⟨hlen, hsrc, hdst, _, _, _, hsub⟩ := hic
  unfold resizeColDT rowDT
  by_cases hs : ic.isSubset = true
  · simp only [hs, if_true]
    obtain ⟨g, _, hg, hgl, _⟩ := gatherE_ok (l := x.2) (is := ic.ilocSrc) (fun i hi => hx ▸ hsrc i hi)
    refine ⟨(x.1, g), by simp [SetOps.resizeColBoth, hs, hg, Except.map], rfl, ?_⟩
    simp only [hgl, hlen, (hsub hs).2, List.length_range]
  · simp only [hs, Bool.false_eq_true, if_false]
    by_cases hc : ic.hasCommon = true
    · obtain ⟨g, _, hg, hgl, _⟩ := gatherE_ok (l := x.2.map (conv x.1 (resolve x.1 fillDT)))
        (is := ic.ilocSrc) (fun i hi => by simpa [hx] using hsrc i hi)
      obtain ⟨out, hout⟩ := SetOps.scatter_isSome
        (base := List.replicate ic.size (conv fillDT (resolve x.1 fillDT) fill)) (is := ic.ilocDst) (vs := g)
        (by rw [hgl, hlen]) (by simpa using hdst)
      refine ⟨(resolve x.1 fillDT, out), by simp [SetOps.resizeColBoth, hs, hc, hg, hout, Except.map], rfl, ?_⟩
      simpa using SetOps.scatter_length hout
    · refine ⟨(resolve x.1 fillDT, List.replicate ic.size (conv fillDT (resolve x.1 fillDT) fill)),
        by simp [SetOps.resizeColBoth, hs, hc, Except.map], rfl, by simp⟩

/-- … through an optional one -/
theorem resizeColDT_ok {iic : Option IC} {n : Nat} (hic : SetOps.OptWF iic n) (fill : α) (fillDT : DT)
    (x : DT × List α) (hx : x.2.length = n) :
    ∃ y, resizeColDT resolve conv iic fill fillDT x = .ok y ∧
      y.1 = rowDT resolve iic fillDT x.1 ∧ y.2.length = SetOps.newLen iic n := by
  cases iic with
  | none => exact ⟨x, rfl, rfl, hx⟩
  | some ic => exact resizeColDT_some_ok resolve conv hic fill fillDT x hx

/-- the total version of the row treatment (its result whenever it succeeds) -/
def colT (iic : Option IC) (fill : α) (fillDT : DT) (x : DT × List α) : DT × List α :=
  okOr x (resizeColDT resolve conv iic fill fillDT x)

theorem resizeColDT_eq_colT {iic : Option IC} {n : Nat} (hic : SetOps.OptWF iic n) (fill : α) (fillDT : DT)
    (x : DT × List α) (hx : x.2.length = n) :
    resizeColDT resolve conv iic fill fillDT x = .ok (colT resolve conv iic fill fillDT x) ∧
      (colT resolve conv iic fill fillDT x).1 = rowDT resolve iic fillDT x.1 ∧
      (colT resolve conv iic fill fillDT x).2.length = SetOps.newLen iic n := by
  obtain ⟨y, hy, h1, h2⟩ := resizeColDT_ok resolve conv hic fill fillDT x hx
  have : colT resolve conv iic fill fillDT x = y := okOr_eq hy
  rw [this]
  exact ⟨hy, h1, h2⟩

end env

/-! ### the directory lookup of the loops -/

variable {α : Type}

theorem colsDT_getElem?_split (bs : List (Block α)) (j : Nat) (t : DT) (c : List α)
    (h : (colsDT bs)[j]? = some (t, c)) :
    (bs.flatMap Block.colsOf)[j]? = some c ∧
      (bs.flatMap (fun b => List.replicate b.width b.dt))[j]? = some t := by
  constructor
  · rw [← colsDT_snd, List.getElem?_map, h]; rfl
  · rw [← colsDT_fst, List.getElem?_map, h]; rfl

/-- `self._index[j]` + `self._blocks[block_idx]` (+ `[:, block_col]`) reads column `j` with its dtype -/
theorem TB.columnAt_eq (tb : TB α) (j : Nat) (x : DT × List α) (h : (colsDT tb.blocks)[j]? = some x) :
    tb.columnAt j = .ok x := by
  obtain ⟨t, c⟩ := x
  obtain ⟨hc, ht⟩ := colsDT_getElem?_split tb.blocks j t c h
  have hj : j < tb.index.length := by
    rw [TB.index_length, ← TB.cols_length]
    exact (List.getElem?_eq_some_iff.mp hc).1
  obtain ⟨blk, _, hblk, hw, hcol, hdt⟩ :=
    TB.indexFrom_spec 0 tb.blocks j (tb.index[j]).1 (tb.index[j]).2
      (by show tb.index[j]? = _; rw [List.getElem?_eq_getElem hj])
  have hidx : tb.index[j]? = some ((tb.index[j]).1, (tb.index[j]).2) := by
    rw [List.getElem?_eq_getElem hj]
  rw [hc] at hcol
  rw [ht] at hdt
  simp only [Option.some.injEq] at hdt
  simp only [Nat.sub_zero] at hblk
  unfold TB.columnAt
  rw [hidx]
  simp only [hblk]
  cases blk with
  | d1 t' c' =>
    simp only [Block.width] at hw
    have h0 : (tb.index[j]).2 = 0 := by omega
    simp only [Block.colsOf, h0, List.getElem?_cons_zero, Option.some.injEq] at hcol
    simp only [Block.dt] at hdt
    rw [hcol, hdt]
  | d2 t' cs =>
    simp only [Block.colsOf] at hcol
    simp only [Block.dt] at hdt
    simp only [hcol, hdt]

end SF
