/- Lemmas about SFModel.BlocksShift (array_shift / _shift_blocks). -/
import SFModel.BlocksShift
import SFModel.BlocksLemmas

namespace SF

/-! ### Python modulo -/

theorem pyMod_pos (a : Int) (n : Nat) (h : 0 < n) : pyMod a n = .ok (a % (n : Int)) := by
  unfold pyMod
  rw [if_neg (by omega), Int.fmod_eq_emod_of_nonneg a (by omega)]

theorem pyMod_zero (a : Int) : pyMod a ((0 : Nat) : Int) = .error .other := by
  simp [pyMod]

theorem shift_emod_bounds (a : Int) (n : Nat) (h : 0 < n) : 0 ≤ a % (n : Int) ∧ a % (n : Int) < n :=
  ⟨Int.emod_nonneg a (by omega), Int.emod_lt_of_pos a (by omega)⟩

/-- `shift % -size` for a positive size: the negative representative -/
theorem pyMod_neg (a : Int) (n : Nat) (h : 0 < n) :
    pyMod a (-(n : Int)) = .ok (if a % (n : Int) = 0 then 0 else a % (n : Int) - n) := by
  unfold pyMod
  rw [if_neg (by omega), Int.fmod_eq_emod, Int.emod_neg]
  have hd : (-(n : Int) ∣ a) ↔ a % (n : Int) = 0 := by
    rw [Int.neg_dvd, Int.dvd_iff_emod_eq_zero]
  by_cases h0 : a % (n : Int) = 0
  · rw [if_pos (Or.inr (hd.mpr h0)), if_pos h0, h0]; rfl
  · have hno : ¬ (0 ≤ -(n : Int) ∨ -(n : Int) ∣ a) := by
      intro hc
      rcases hc with hc | hc
      · omega
      · exact h0 (hd.mp hc)
    rw [if_neg hno, if_neg h0]
    congr 1

/-- `shift_mod` is a representative of the shift modulo the size -/
theorem shiftMod_spec (s : Int) (n : Nat) (h : 0 < n) :
    ∃ m, shiftMod s n = .ok m ∧ m % (n : Int) = s % (n : Int) ∧ (m = 0 ↔ s % (n : Int) = 0) := by
  obtain ⟨h1, h2⟩ := shift_emod_bounds s n h
  unfold shiftMod
  by_cases hp : s > 0
  · rw [if_pos hp, pyMod_pos s n h]
    exact ⟨_, rfl, Int.emod_emod _ _, Iff.rfl⟩
  · rw [if_neg hp]
    by_cases hn : s < 0
    · rw [if_pos hn, pyMod_neg s n h]
      by_cases h0 : s % (n : Int) = 0
      · rw [if_pos h0]; exact ⟨0, rfl, by simp [h0], by simp [h0]⟩
      · rw [if_neg h0]
        refine ⟨_, rfl, ?_, ?_⟩
        · rw [Int.sub_emod_right, Int.emod_emod]
        · constructor
          · intro hc; omega
          · intro hc; exact absurd hc h0
    · rw [if_neg hn]
      have : s = 0 := by omega
      subst this
      exact ⟨0, rfl, rfl, by simp⟩

theorem shiftMod_zero_size (s : Int) (hs : s ≠ 0) : shiftMod s 0 = .error .other := by
  unfold shiftMod
  by_cases hp : s > 0
  · rw [if_pos hp]; exact pyMod_zero s
  · rw [if_neg hp, if_pos (by omega)]; simp [pyMod]

theorem shiftMod_zero_shift (n : Nat) : shiftMod 0 n = .ok 0 := by simp [shiftMod]

/-! ### step-1 slices -/

section lists
variable {β : Type}

theorem clampBound_nonneg (k n : Nat) : clampBound (k : Int) n = min k n := by
  unfold clampBound; rw [if_neg (by omega)]; omega

theorem clampBound_neg (k n : Nat) (hk : 0 < k) : clampBound (-(k : Int)) n = n - k := by
  unfold clampBound; rw [if_pos (by omega)]; omega

/-- `res[k:] = vals` -/
theorem setSlice_from (res vals : List β) (k : Nat) (h : vals.length = res.length - min k res.length) :
    setSlice res (some (k : Int)) none vals = .ok (res.take k ++ vals) := by
  simp only [setSlice, clampBound_nonneg]
  rw [if_pos h, List.drop_of_length_le (by omega), List.append_nil]
  by_cases hk : k ≤ res.length
  · rw [Nat.min_eq_left hk]
  · rw [Nat.min_eq_right (by omega), List.take_of_length_le (Nat.le_refl _), List.take_of_length_le (by omega)]

/-- `res[:-k] = vals` for `k > 0` -/
theorem setSlice_upto_neg (res vals : List β) (k : Nat) (hk : 0 < k) (h : vals.length = res.length - k) :
    setSlice res none (some (-(k : Int))) vals = .ok (vals ++ res.drop vals.length) := by
  simp only [setSlice, clampBound_neg _ _ hk]
  rw [if_pos (by omega)]
  simp

/-- `l[-k:]` for `0 < k ≤ len` -/
theorem sliceList_neg_start (l : List β) (k : Nat) (hk : 0 < k) (hkn : k ≤ l.length) :
    sliceList l (some (-(k : Int))) none = l.drop (l.length - k) := by
  simp only [sliceList, clampBound]
  rw [if_pos (by omega)]
  have : (-(k : Int) + (l.length : Int)).toNat = l.length - k := by omega
  rw [this, List.take_of_length_le (by simp)]

/-- `l[-k:]` for any `k > 0` -/
theorem sliceList_neg_start' (l : List β) (k : Nat) (hk : 0 < k) :
    sliceList l (some (-(k : Int))) none = l.drop (l.length - k) := by
  simp only [sliceList, clampBound]
  rw [if_pos (by omega)]
  have : (-(k : Int) + (l.length : Int)).toNat = l.length - k := by omega
  rw [this, List.take_of_length_le (by simp)]

/-- `l[0:-k]` and `l[:-k]` for `k > 0` -/
theorem sliceList_neg_stop (l : List β) (k : Nat) (hk : 0 < k) :
    sliceList l (some 0) (some (-(k : Int))) = l.take (l.length - k) ∧
    sliceList l none (some (-(k : Int))) = l.take (l.length - k) := by
  have : (-(k : Int) + (l.length : Int)).toNat = l.length - k := by omega
  constructor <;> simp [sliceList, clampBound, hk, this]

/-- `l[k:]` for `k ≥ 0` -/
theorem sliceList_pos_start (l : List β) (k : Nat) :
    sliceList l (some (k : Int)) none = l.drop k := by
  simp only [sliceList, clampBound]
  rw [if_neg (by omega)]
  by_cases h : k ≤ l.length
  · rw [show min (k : Int).toNat l.length = k by omega, List.take_of_length_le (by simp)]
  · rw [show min (k : Int).toNat l.length = l.length by omega]
    rw [List.drop_of_length_le (Nat.le_refl _), List.drop_of_length_le (by omega : l.length ≤ k)]; simp

/-- `l[:k]` for `k ≥ 0` -/
theorem sliceList_pos_stop (l : List β) (k : Nat) :
    sliceList l none (some (k : Int)) = l.take k := by
  simp only [sliceList, clampBound]
  rw [if_neg (by omega)]
  simp only [List.drop_zero, Nat.sub_zero]
  by_cases h : k ≤ l.length
  · rw [show min (k : Int).toNat l.length = k by omega]
  · rw [show min (k : Int).toNat l.length = l.length by omega]
    rw [List.take_of_length_le (Nat.le_refl _), List.take_of_length_le (by omega)]

/-! ### roll -/

theorem roll1d_spec (a : List β) (m s : Int) (hm : m % (a.length : Int) = s % (a.length : Int)) :
    roll1d a.length a m = rollSpec a s := by
  unfold roll1d rollSpec List.rotateRight
  by_cases h1 : a.length ≤ 1
  · simp [h1]
  · have hpos : 0 < a.length := by omega
    obtain ⟨hb1, hb2⟩ := shift_emod_bounds s a.length hpos
    rw [if_neg h1, if_neg h1, Int.fmod_eq_emod_of_nonneg m (by omega), hm]
    obtain ⟨k, hk⟩ : ∃ k : Nat, s % (a.length : Int) = k := ⟨(s % (a.length : Int)).toNat, by omega⟩
    rw [hk] at hb2 ⊢
    have hlt : k < a.length := by omega
    rw [Int.toNat_natCast, Nat.mod_eq_of_lt hlt]
    by_cases h0 : k = 0
    · subst h0; simp
    · rw [if_neg (by omega)]
      rw [sliceList_neg_start a k (by omega) (by omega), (sliceList_neg_stop a k (by omega)).1]

theorem rollSpec_length (l : List β) (k : Int) : (rollSpec l k).length = l.length := by
  unfold rollSpec List.rotateRight
  by_cases h : l.length ≤ 1
  · simp [h]
  · simp [h]

/-- pointwise meaning of a roll: cell `j` holds the input's cell `(j - k) mod n` -/
theorem rollSpec_getElem? (l : List β) (k : Int) (j : Nat) (hj : j < l.length) :
    (rollSpec l k)[j]? = l[(((j : Int) - k) % (l.length : Int)).toNat]? := by
  have hpos : 0 < l.length := by omega
  obtain ⟨hb1, hb2⟩ := shift_emod_bounds k l.length hpos
  obtain ⟨hc1, hc2⟩ := shift_emod_bounds ((j : Int) - k) l.length hpos
  unfold rollSpec List.rotateRight
  generalize hm : (k % (l.length : Int)).toNat = m
  have hmlt : m < l.length := by omega
  have hmk : (m : Int) = k % (l.length : Int) := by omega
  -- (j - k) % n = (j - m) % n
  have hjk : ((j : Int) - k) % (l.length : Int) = ((j : Int) - m) % (l.length : Int) := by
    rw [hmk, Int.sub_emod, Int.sub_emod (j : Int) (k % (l.length : Int)), Int.emod_emod]
  by_cases h1 : l.length ≤ 1
  · have hl1 : l.length = 1 := by omega
    have hj0 : j = 0 := by omega
    have hm0 : m = 0 := by omega
    subst hj0 hm0
    simp [hl1]
  · simp only [h1, if_false, Nat.mod_eq_of_lt hmlt]
    by_cases hjm : j < m
    · rw [List.getElem?_append_left (by simp; omega), List.getElem?_drop]
      have : ((j : Int) - m) % (l.length : Int) = (j : Int) - m + l.length := by
        rw [← Int.add_emod_right]; exact Int.emod_eq_of_lt (by omega) (by omega)
      rw [hjk, this]
      congr 1; omega
    · rw [List.getElem?_append_right (by simp; omega), List.getElem?_take_of_lt (by simp; omega)]
      have : ((j : Int) - m) % (l.length : Int) = (j : Int) - m :=
        Int.emod_eq_of_lt (by omega) (by omega)
      rw [hjk, this]
      congr 1; simp; omega

theorem rollSpec_of_emod_zero (l : List β) (k : Int) (h : k % (l.length : Int) = 0) : rollSpec l k = l := by
  unfold rollSpec List.rotateRight
  simp [h]

theorem rollSpec_zero (l : List β) : rollSpec l 0 = l := rollSpec_of_emod_zero l 0 (by simp)

/-! ### shift with fill -/

theorem shiftSpec_length (l : List β) (k : Int) (f : β) : (shiftSpec l k f).length = l.length := by
  unfold shiftSpec
  split <;> simp <;> omega

/-- pointwise meaning of a shift: cell `j` holds the input's cell `j - k` if there is one, else the fill -/
theorem shiftSpec_getElem? (l : List β) (k : Int) (f : β) (j : Nat) (hj : j < l.length) :
    (shiftSpec l k f)[j]? =
      if 0 ≤ (j : Int) - k ∧ (j : Int) - k < l.length then l[((j : Int) - k).toNat]? else some f := by
  unfold shiftSpec
  by_cases hk : 0 ≤ k
  · rw [if_pos hk]
    by_cases hjk : (j : Int) < k
    · rw [if_neg (by omega), List.getElem?_append_left (by rw [List.length_replicate]; omega),
        List.getElem?_replicate, if_pos (by omega)]
    · rw [if_pos (by omega), List.getElem?_append_right (by rw [List.length_replicate]; omega),
        List.getElem?_take_of_lt (by rw [List.length_replicate]; omega), List.length_replicate]
      have : j - min k.toNat l.length = ((j : Int) - k).toNat := by omega
      rw [this]
  · rw [if_neg hk]
    by_cases hjk : (j : Int) - k < l.length
    · rw [if_pos (by omega), List.getElem?_append_left (by rw [List.length_drop]; omega), List.getElem?_drop]
      have : k.natAbs + j = ((j : Int) - k).toNat := by omega
      rw [this]
    · rw [if_neg (by omega), List.getElem?_append_right (by rw [List.length_drop]; omega),
        List.getElem?_replicate, if_pos (by rw [List.length_drop]; omega)]

theorem shiftSpec_zero (l : List β) (f : β) : shiftSpec l 0 f = l := by
  simp [shiftSpec]

theorem shiftSpec_map (l : List β) (k : Int) (f : β) (g : β → β) :
    (shiftSpec l k f).map g = shiftSpec (l.map g) k (g f) := by
  unfold shiftSpec
  split <;> simp [List.map_take, List.map_drop]

theorem shiftLane_fill_spec (a : List β) (s m : Int) (f : β) (cv : β → β) (hs : s ≠ 0) :
    shiftLane a.length a s m false f cv = .ok (shiftSpec (a.map cv) s f) := by
  unfold shiftLane shiftSpec
  have h1 : ((!false && s == 0) || (false && m == 0)) = false := by simp [hs]
  rw [h1]
  simp only [Bool.false_eq_true, if_false]
  by_cases hp : s > 0
  · rw [if_pos hp, if_pos (by omega)]
    obtain ⟨k, rfl⟩ : ∃ k : Nat, s = k := ⟨s.toNat, by omega⟩
    rw [(sliceList_neg_stop a k (by omega)).2, setSlice_from _ _ k (by simp; omega)]
    simp [List.take_replicate, List.map_take]
  · have hn : s < 0 := by omega
    rw [if_neg hp, if_pos hn, if_neg (by omega)]
    obtain ⟨k, rfl, hk0⟩ : ∃ k : Nat, s = -(k : Int) ∧ 0 < k := ⟨s.natAbs, by omega, by omega⟩
    rw [Int.neg_neg, sliceList_pos_start, setSlice_upto_neg _ _ k hk0 (by simp)]
    simp only [List.length_map, List.length_drop, List.drop_replicate, Int.natAbs_neg,
      Int.natAbs_natCast, List.map_drop]
    congr 3; omega

theorem shiftLane_roll_spec (a : List β) (s m : Int) (f : β) (cv : β → β)
    (hm : m % (a.length : Int) = s % (a.length : Int)) :
    shiftLane a.length a s m true f cv = .ok (rollSpec a s) := by
  unfold shiftLane
  by_cases h0 : m = 0
  · subst h0
    have : s % (a.length : Int) = 0 := by rw [← hm]; simp
    simp [rollSpec_of_emod_zero a s this]
  · have h1 : ((!true && s == 0) || (true && m == 0)) = false := by simp [h0]
    rw [h1]
    simp only [Bool.false_eq_true, if_false, if_true]
    rw [roll1d_spec a m s hm]

/-- `array_shift` on a non-empty 1-D array -/
theorem arrayShift_spec (a : List β) (s : Int) (wrap : Bool) (f : β) (cv : β → β) (hne : 0 < a.length) :
    arrayShift a s wrap f cv =
      .ok (if wrap then rollSpec a s else if s = 0 then a else shiftSpec (a.map cv) s f) := by
  obtain ⟨m, h1, h2, _⟩ := shiftMod_spec s a.length hne
  unfold arrayShift
  rw [h1]
  cases wrap with
  | true => simp only [if_true]; exact shiftLane_roll_spec a s m f cv h2
  | false =>
    simp only [Bool.false_eq_true, if_false]
    by_cases hs : s = 0
    · subst hs; simp [shiftLane]
    · rw [if_neg hs]; exact shiftLane_fill_spec a s m f cv hs

/-- `array_shift` on an empty array: ZeroDivisionError unless the shift is 0 -/
theorem arrayShift_empty (s : Int) (wrap : Bool) (f : β) (cv : β → β) :
    arrayShift ([] : List β) s wrap f cv = if s = 0 then .ok [] else .error .other := by
  unfold arrayShift
  by_cases hs : s = 0
  · subst hs; simp [shiftMod, shiftLane]
  · simp only [List.length_nil]
    rw [shiftMod_zero_size s hs, if_neg hs]

end lists


/-! ### one block, rows -/

section blocks
variable {α : Type} (resolve : DT → DT → DT) (conv : DT → DT → α → α)

/-- what `array_shift` makes of one lane of a non-empty axis -/
def laneSpec {β : Type} (wrap : Bool) (s : Int) (a : List β) (f : β) (cv : β → β) : List β :=
  if wrap then rollSpec a s else if s = 0 then a else shiftSpec (a.map cv) s f

theorem laneSpec_length {β : Type} (wrap : Bool) (s : Int) (a : List β) (f : β) (cv : β → β) :
    (laneSpec wrap s a f cv).length = a.length := by
  unfold laneSpec
  split
  · exact rollSpec_length _ _
  · split
    · rfl
    · rw [shiftSpec_length, List.length_map]

theorem shiftLane_spec {β : Type} (a : List β) (s m : Int) (wrap : Bool) (f : β) (cv : β → β)
    (hm : m % (a.length : Int) = s % (a.length : Int)) :
    shiftLane a.length a s m wrap f cv = .ok (laneSpec wrap s a f cv) := by
  unfold laneSpec
  cases wrap with
  | true => simp only [if_true]; exact shiftLane_roll_spec a s m f cv hm
  | false =>
    simp only [Bool.false_eq_true, if_false]
    by_cases hs : s = 0
    · subst hs; simp [shiftLane]
    · rw [if_neg hs]; exact shiftLane_fill_spec a s m f cv hs

theorem shift_mapM_ok_of_forall {β γ ε : Type} (l : List β) (f : β → Except ε γ) (g : β → γ)
    (h : ∀ x ∈ l, f x = .ok (g x)) : l.mapM f = .ok (l.map g) := by
  have := mapM_map_except_ok l id f g (by simpa using h)
  simpa using this

/-- the block `array_shift(axis=0)` returns, as a total function (for blocks of a non-empty row axis) -/
def Block.shiftRowsSpec (b : Block α) (r : Int) (wrap : Bool) (fill : α) (fillDT : DT) : Block α :=
  let t' := shiftDT resolve b.dt r wrap fillDT
  match b with
  | .d1 t c => .d1 t' (laneSpec wrap r c (conv fillDT t' fill) (conv t t'))
  | .d2 t cs => .d2 t' (cs.map fun c => laneSpec wrap r c (conv fillDT t' fill) (conv t t'))

theorem shiftColSpec_eq (r : Int) (wrap : Bool) (fill : α) (fillDT : DT) (x : DT × List α) :
    shiftColSpec resolve conv r wrap fill fillDT x =
      (shiftDT resolve x.1 r wrap fillDT,
       laneSpec wrap r x.2 (conv fillDT (shiftDT resolve x.1 r wrap fillDT) fill)
         (conv x.1 (shiftDT resolve x.1 r wrap fillDT))) := by
  unfold shiftColSpec laneSpec shiftDT
  cases wrap with
  | true => simp
  | false =>
    by_cases hr : r = 0
    · simp [hr]
    · simp [hr]

theorem Block.shiftRowsSpec_colsDT (b : Block α) (r : Int) (wrap : Bool) (fill : α) (fillDT : DT) :
    (b.shiftRowsSpec resolve conv r wrap fill fillDT).colsDT =
      b.colsDT.map (shiftColSpec resolve conv r wrap fill fillDT) := by
  cases b with
  | d1 t c => simp [Block.shiftRowsSpec, Block.colsDT, Block.colsOf, Block.dt, shiftColSpec_eq]
  | d2 t cs =>
    simp [Block.shiftRowsSpec, Block.colsDT, Block.colsOf, Block.dt, shiftColSpec_eq, Function.comp_def]

theorem Block.shiftRowsSpec_width (b : Block α) (r : Int) (wrap : Bool) (fill : α) (fillDT : DT) :
    (b.shiftRowsSpec resolve conv r wrap fill fillDT).width = b.width := by
  cases b <;> simp [Block.shiftRowsSpec, Block.width]

theorem Block.shiftRowsSpec_rowsOk (b : Block α) (n : Nat) (h : b.RowsOk n) (r : Int) (wrap : Bool)
    (fill : α) (fillDT : DT) : (b.shiftRowsSpec resolve conv r wrap fill fillDT).RowsOk n := by
  cases b with
  | d1 t c =>
    intro x hx
    simp only [Block.shiftRowsSpec, Block.colsOf, List.mem_singleton] at hx
    subst hx
    rw [laneSpec_length]; exact h c (by simp [Block.colsOf])
  | d2 t cs =>
    intro x hx
    simp only [Block.shiftRowsSpec, Block.colsOf, List.mem_map] at hx
    obtain ⟨c, hc, rfl⟩ := hx
    rw [laneSpec_length]; exact h c (by simpa [Block.colsOf] using hc)

/-- `array_shift(array=b, shift=r, axis=0, …)` on a block of a frame with at least one row -/
theorem Block.arrayShift_rows_spec (b : Block α) (n : Nat) (hn : 0 < n) (h : b.RowsOk n) (r : Int)
    (wrap : Bool) (fill : α) (fillDT : DT) :
    b.arrayShift resolve conv n r 0 wrap fill fillDT = .ok (b.shiftRowsSpec resolve conv r wrap fill fillDT) := by
  obtain ⟨m, h1, h2, _⟩ := shiftMod_spec r n hn
  cases b with
  | d1 t c =>
    have hc : c.length = n := h c (by simp [Block.colsOf])
    simp only [Block.arrayShift, hc, h1, Block.shiftRowsSpec]
    rw [← hc] at h2 ⊢
    rw [shiftLane_spec c r m wrap _ _ h2]
    rfl
  | d2 t cs =>
    simp only [Block.arrayShift, h1, Block.shiftRowsSpec]
    rw [shift_mapM_ok_of_forall cs _ (fun c => laneSpec wrap r c
      (conv fillDT (shiftDT resolve (Block.d2 t cs).dt r wrap fillDT) fill)
      (conv t (shiftDT resolve (Block.d2 t cs).dt r wrap fillDT)))]
    · rfl
    · intro c hc
      have hcl : c.length = n := h c (by simpa [Block.colsOf] using hc)
      rw [← hcl] at h2 ⊢
      exact shiftLane_spec c r m wrap _ _ h2

/-- a block whose rows are rolled by a multiple of the row count / shifted by 0 is unchanged -/
theorem Block.shiftRowsSpec_id (b : Block α) (n : Nat) (h : b.RowsOk n) (r : Int) (wrap : Bool)
    (fill : α) (fillDT : DT) (hid : (wrap = true ∧ r % (n : Int) = 0) ∨ (wrap = false ∧ r = 0)) :
    b.shiftRowsSpec resolve conv r wrap fill fillDT = b := by
  have hl : ∀ (c : List α) f cv, c.length = n → laneSpec wrap r c f cv = c := by
    intro c f cv hc
    unfold laneSpec
    rcases hid with ⟨hw, hr⟩ | ⟨hw, hr⟩
    · subst hw; simp only [if_true]; exact rollSpec_of_emod_zero c r (by rw [hc]; exact hr)
    · subst hw; subst hr; simp
  have ht : shiftDT resolve b.dt r wrap fillDT = b.dt := by
    unfold shiftDT
    rcases hid with ⟨hw, _⟩ | ⟨_, hr⟩
    · simp [hw]
    · simp [hr]
  cases b with
  | d1 t c =>
    simp only [Block.dt] at ht
    simp only [Block.shiftRowsSpec, ht, Block.dt]
    rw [hl c _ _ (h c (by simp [Block.colsOf]))]
  | d2 t cs =>
    simp only [Block.dt] at ht
    simp only [Block.shiftRowsSpec, ht, Block.dt]
    congr 1
    calc cs.map _ = cs.map id := by
          apply List.map_congr_left
          intro c hc
          exact hl c _ _ (h c (by simpa [Block.colsOf] using hc))
      _ = cs := by simp

theorem shift_colsDT_map_blocks (bs : List (Block α)) (g : Block α → Block α) (hh : DT × List α → DT × List α)
    (h : ∀ b, (g b).colsDT = b.colsDT.map hh) : colsDT (bs.map g) = (colsDT bs).map hh := by
  induction bs with
  | nil => rfl
  | cons b rest ih => simp [h, ih]

end blocks

/-! ### the column walk of `_shift_blocks` -/

section walk
variable {α : Type}

theorem shift_take_append3 {β : Type} (A B C : List β) (c : Nat) (hc : c ≤ B.length) :
    (A ++ B ++ C).take (A.length + c) = A ++ B.take c ∧
    (A ++ B ++ C).drop (A.length + c) = B.drop c ++ C := by
  rw [List.append_assoc]
  constructor
  · rw [List.take_length_add_append, List.take_append_of_le_length hc]
  · rw [List.drop_length_add_append, List.drop_append_of_le_length hc]

theorem shift_list_split_at {β : Type} (l : List β) (i : Nat) (x : β) (h : l[i]? = some x) :
    l = l.take i ++ x :: l.drop (i + 1) := by
  obtain ⟨hi, hx⟩ := List.getElem?_eq_some_iff.mp h
  conv => lhs; rw [← List.take_append_drop i l, List.drop_eq_getElem_cons hi, hx]

theorem indexFrom_offset (bi : Nat) (bs : List (Block α)) (p i c : Nat)
    (h : (TB.indexFrom bi bs)[p]? = some (i, c)) :
    ∃ blk, bi ≤ i ∧ bs[i - bi]? = some blk ∧ c < blk.width ∧
      p = (colsDT (bs.take (i - bi))).length + c := by
  induction bs generalizing bi p with
  | nil => simp [TB.indexFrom] at h
  | cons b rest ih =>
    simp only [TB.indexFrom] at h
    by_cases hp : p < b.width
    · rw [List.getElem?_append_left (by simpa using hp)] at h
      simp only [List.getElem?_map, List.getElem?_range hp, Option.map_some, Option.some.injEq,
        Prod.mk.injEq] at h
      obtain ⟨rfl, rfl⟩ := h
      exact ⟨b, Nat.le_refl _, by simp, hp, by simp⟩
    · have hp' : b.width ≤ p := by omega
      rw [List.getElem?_append_right (by simpa using hp')] at h
      simp only [List.length_map, List.length_range] at h
      obtain ⟨blk, h1, h2, h3, h4⟩ := ih _ _ h
      have hi : i - bi = (i - (bi + 1)) + 1 := by omega
      refine ⟨blk, by omega, ?_, h3, ?_⟩
      · rw [hi, List.getElem?_cons_succ]; exact h2
      · rw [hi, List.take_succ_cons, colsDT_cons, List.length_append]
        simp only [Block.colsDT, List.length_map, Block.colsOf_length]
        omega

/-- the directory entry of column `p` splits the column list at `p` -/
theorem TB.index_split (tb : TB α) (p i c : Nat) (h : tb.index[p]? = some (i, c)) :
    ∃ blk, tb.blocks[i]? = some blk ∧ c < blk.width ∧
      (colsDT tb.blocks).take p = colsDT (tb.blocks.take i) ++ blk.colsDT.take c ∧
      (colsDT tb.blocks).drop p = blk.colsDT.drop c ++ colsDT (tb.blocks.drop (i + 1)) := by
  obtain ⟨blk, _, h2, h3, h4⟩ := indexFrom_offset 0 tb.blocks p i c h
  simp only [Nat.sub_zero] at h2 h4
  refine ⟨blk, h2, h3, ?_⟩
  have hcd : colsDT tb.blocks = colsDT (tb.blocks.take i) ++ blk.colsDT ++ colsDT (tb.blocks.drop (i + 1)) := by
    conv => lhs; rw [shift_list_split_at tb.blocks i blk h2]
    rw [colsDT_append, colsDT_cons, List.append_assoc]
  rw [hcd, h4]
  exact shift_take_append3 _ _ _ c (by simp only [Block.colsDT, List.length_map, Block.colsOf_length]; omega)

theorem shift_normPos_neg (m n : Nat) (hm : m < n) :
    normPos (-(m : Int)) n = .ok (if m = 0 then 0 else n - m) := by
  unfold normPos
  by_cases h0 : m = 0
  · subst h0
    rw [if_pos (by omega)]; simp
  · rw [if_neg (by omega), if_pos (by omega), if_neg h0]
    congr 1; omega

/-- head and tail of `_shift_blocks`: the column list cut at the start position -/
theorem TB.shiftHeadTail_spec (tb : TB α) (hwf : tb.WF) (m : Nat) (hm : m < tb.ncols) :
    ∃ head tail, tb.shiftHeadTail (-(m : Int)) = .ok (head, tail) ∧
      colsDT head = (colsDT tb.blocks).drop (if m = 0 then 0 else tb.ncols - m) ∧
      colsDT tail = (colsDT tb.blocks).take (if m = 0 then 0 else tb.ncols - m) ∧
      (∀ b ∈ head ++ tail, 0 < b.width ∧ b.RowsOk tb.rows) := by
  generalize hq : (if m = 0 then 0 else tb.ncols - m) = q
  have hqn : q < tb.index.length := by rw [TB.index_length, ← hq]; split <;> omega
  obtain ⟨⟨i, c⟩, hic⟩ : ∃ x, tb.index[q]? = some x := ⟨_, List.getElem?_eq_getElem hqn⟩
  obtain ⟨blk, hblk, hcw, htake, hdrop⟩ := tb.index_split q i c hic
  have hmem : ∀ b, b ∈ tb.blocks → 0 < b.width ∧ b.RowsOk tb.rows := fun b hb => ⟨hwf.1 b hb, hwf.2 b hb⟩
  have hblkmem : blk ∈ tb.blocks := List.mem_of_getElem? hblk
  have hafter : sliceList tb.blocks (some ((i : Int) + 1)) none = tb.blocks.drop (i + 1) := by
    have := sliceList_pos_start tb.blocks (i + 1)
    simpa using this
  have hbefore : sliceList tb.blocks none (some (i : Int)) = tb.blocks.take i := sliceList_pos_stop tb.blocks i
  unfold TB.shiftHeadTail
  rw [TB.index_length, shift_normPos_neg m tb.ncols hm, hq]
  simp only [hic, hblk, hafter, hbefore]
  by_cases hc0 : c = 0
  · subst hc0
    rw [if_pos rfl]
    refine ⟨_, _, rfl, ?_, ?_, ?_⟩
    · rw [hdrop, colsDT_cons, List.drop_zero]
    · rw [htake, List.take_zero, List.append_nil]
    · intro b hb
      simp only [List.cons_append, List.mem_cons, List.mem_append] at hb
      rcases hb with rfl | hb | hb
      · exact hmem _ hblkmem
      · exact hmem _ (List.mem_of_mem_drop hb)
      · exact hmem _ (List.mem_of_mem_take hb)
  · rw [if_neg hc0]
    cases blk with
    | d1 t col => simp only [Block.width] at hcw; omega
    | d2 t cs =>
      simp only [Block.width] at hcw
      have h1 : sliceList cs (some (c : Int)) none = cs.drop c := sliceList_pos_start cs c
      have h2 : sliceList cs none (some (c : Int)) = cs.take c := sliceList_pos_stop cs c
      simp only [Block.colSlice, h1, h2]
      refine ⟨_, _, rfl, ?_, ?_, ?_⟩
      · rw [hdrop, colsDT_cons]
        simp [Block.colsDT, Block.colsOf, Block.dt, List.map_drop]
      · rw [htake, colsDT_append]
        simp [Block.colsDT, Block.colsOf, Block.dt, List.map_take, colsDT]
      · have hrows := (hmem _ hblkmem).2
        intro b hb
        simp only [List.cons_append, List.mem_cons, List.mem_append, List.not_mem_nil, or_false] at hb
        rcases hb with rfl | hb | hb | rfl
        · refine ⟨by simp [Block.width]; omega, ?_⟩
          intro x hx
          exact hrows x (by simp only [Block.colsOf] at hx ⊢; exact List.mem_of_mem_drop hx)
        · exact hmem _ (List.mem_of_mem_drop hb)
        · exact hmem _ (List.mem_of_mem_take hb)
        · refine ⟨by simp [Block.width]; omega, ?_⟩
          intro x hx
          exact hrows x (by simp only [Block.colsOf] at hx ⊢; exact List.mem_of_mem_take hx)

end walk

end SF
