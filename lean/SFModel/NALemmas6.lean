/-
  SFModel.NALemmas6 — helper lemmas for C14, part 6: induction over the block list (directional),
  and the sided (leading / trailing) algorithms.
-/
import SFModel.NALemmas5

namespace SF.NA

variable {α : Type} {isna : α → Bool}

/-! ### directional: the whole row -/

theorem runDir_spec (fwd : Bool) (limit : Nat)
    (st : Option (Bridge α)) (blocks : List (RBlock α)) (last : Option α) (cnt : Nat)
    (hinv : Inv isna limit st last cnt) :
    ((runDir isna fwd limit st blocks).map (orient fwd)).flatten =
      ffill isna limit ((blocks.map fun b => orient fwd b.cells).flatten) last cnt := by
  induction blocks generalizing st last cnt with
  | nil => simp [runDir, ffill]
  | cons b bs ih =>
    obtain ⟨h1, h2⟩ := stepDir_spec fwd limit st b last cnt hinv
    simp only [runDir, List.map_cons, List.flatten_cons]
    rw [ffill_append, ← h1, ih _ _ _ h2]

theorem inv_init (limit : Nat) : Inv isna limit (none : Option (Bridge α)) none 0 :=
  by
  unfold Inv
  exact ⟨fun v hv => by simp at hv, rfl⟩

theorem flatten_reverse_map_reverse (L : List (List α)) :
    L.reverse.flatten = ((L.map List.reverse).flatten).reverse := by
  rw [List.reverse_flatten, List.map_map]
  congr 1
  have : (List.reverse ∘ List.reverse : List α → List α) = id := by funext l; simp
  rw [this]; simp

theorem rowDir_fwd (limit : Nat) (blocks : List (RBlock α)) :
    (rowDirAxis1 isna true limit blocks).flatten =
      ffillSpec isna limit (blocks.map RBlock.cells).flatten := by
  have := runDir_spec (isna := isna) true limit none blocks none 0 (inv_init limit)
  have e : (orient true : List α → List α) = id := by funext l; simp [orient]
  rw [e] at this
  simpa [rowDirAxis1, ffillSpec] using this

theorem rowDir_bwd (limit : Nat) (blocks : List (RBlock α)) :
    (rowDirAxis1 isna false limit blocks).flatten =
      bfillSpec isna limit (blocks.map RBlock.cells).flatten := by
  have := runDir_spec (isna := isna) false limit none blocks.reverse none 0 (inv_init limit)
  simp only [rowDirAxis1, Bool.false_eq_true, if_false, bfillSpec]
  rw [flatten_reverse_map_reverse]
  have e : (orient false : List α → List α) = List.reverse := by
    funext l; simp [orient]
  rw [e] at this
  rw [this]
  congr 2
  rw [List.reverse_flatten, List.map_map]
  simp [List.map_reverse, Function.comp_def]

/-! ### sided fills -/

theorem assignSlice_cons_zero (x : α) (xs : List α) (k : Nat) (v : α) :
    assignSlice (x :: xs) 0 (k + 1) v = v :: assignSlice xs 0 k v := by
  apply List.ext_getElem?
  intro p
  cases p with
  | zero => rw [assignSlice_get]; simp
  | succ p =>
    simp only [assignSlice_get, List.getElem?_cons_succ, Nat.zero_le, true_and]
    by_cases c : p < k
    · rw [if_pos (by omega), if_pos c]
    · rw [if_neg (by omega), if_neg c]

/-- the leading fill is one slice assignment over the maximal leading run -/
theorem fillLeading_eq_assign (v : α) (l : List α) (k : Nat)
    (hlead : ∀ r, r < k → (l.map isna)[r]? = some true)
    (hend : k = l.length ∨ (l.map isna)[k]? = some false) :
    fillLeading isna v l = assignSlice l 0 k v := by
  induction l generalizing k with
  | nil => simp [fillLeading, assignSlice]
  | cons x xs ih =>
    cases hx : isna x with
    | true =>
      cases k with
      | zero =>
        rcases hend with h | h
        · simp at h
        · simp [hx] at h
      | succ k =>
        rw [assignSlice_cons_zero]
        simp only [fillLeading, hx, if_true]
        rw [ih k (fun r hr => by simpa using hlead (r + 1) (by omega))
          (by rcases hend with h | h
              · left; simpa using h
              · right; simpa using h)]
    | false =>
      have hk : k = 0 := by
        cases k with
        | zero => rfl
        | succ k => have := hlead 0 (by omega); simp [hx] at this
      subst hk
      simp only [fillLeading, hx, Bool.false_eq_true, if_false]
      rw [assignSlice_empty _ _ _ _ (Nat.le_refl 0)]

theorem fillLeading_append (v : α) (xs ys : List α) :
    fillLeading isna v (xs ++ ys) =
      if xs.all isna then fillLeading isna v xs ++ fillLeading isna v ys
      else fillLeading isna v xs ++ ys := by
  induction xs with
  | nil => simp [fillLeading]
  | cons x xs ih =>
    cases hx : isna x with
    | true =>
      simp only [List.cons_append, fillLeading, hx, if_true, List.all_cons, Bool.true_and]
      rw [ih]
      split <;> rfl
    | false =>
      simp [fillLeading, hx]

/-- what one block contributes, in fill direction: the leading fill while everything before was
    missing (`prev`), untouched otherwise -/
def fillLeadingIf (isna : α → Bool) (prev : Bool) (v : α) (l : List α) : List α :=
  if prev then fillLeading isna v l else l

theorem fillLeading_head_notna (v : α) (l : List α) (h : ∀ x, l.head? = some x → isna x = false) :
    fillLeading isna v l = l := by
  cases l with
  | nil => rfl
  | cons x xs => simp [fillLeading, h x (by simp)]

theorem stepSided_spec (leading : Bool) (v : α) (prev : Bool) (b : RBlock α) :
    orient leading (stepSided isna leading v prev b).1 = fillLeadingIf isna prev v (orient leading b.cells) ∧
    (stepSided isna leading v prev b).2 = (prev && (orient leading b.cells).all isna) := by
  have hne : b.cells ≠ [] := by simp [RBlock.cells]
  have hall : (orient leading b.cells).all isna = b.cells.all isna := by
    cases leading <;> simp [orient]
  unfold stepSided
  simp only
  -- the entry flag in terms of the oriented head
  have hentry : isna (edgeCell (!leading) b.cells b.hd) = isna ((orient leading b.cells).headD b.hd) := by
    cases leading with
    | true => simp [edgeCell, orient]
    | false =>
      simp only [edgeCell, orient, Bool.not_false, if_true, Bool.false_eq_true, if_false]
      rw [headD_eq_reverse_getLastD, List.reverse_reverse]
  by_cases h1 : b.oneD = true ∧ b.tl = []
  · -- 1-D block: a single cell
    have hc : b.cells = [b.hd] := by simp [RBlock.cells, h1.2]
    have ho : ∀ l : List α, l.length = 1 → orient leading l = l := by
      intro l hl
      match l, hl with
      | [y], _ => cases leading <;> simp [orient]
    rw [hc] at hentry ⊢
    rw [ho [b.hd] rfl] at hentry ⊢
    simp only [List.headD_cons] at hentry
    simp only [h1, and_self, if_true, List.map_cons, List.map_nil]
    constructor
    · rw [hentry]
      cases hp : prev <;> cases hx : isna b.hd <;> cases ho : b.others <;>
        simp [fillLeadingIf, fillLeading, hx, orient]
      all_goals (try (cases leading <;> simp))
    · rw [hentry]
      cases hp : prev <;> cases hx : isna b.hd <;> simp [hx]
  · -- 2-D block
    simp only [h1, if_false]
    refine ⟨?_, by rw [hall]; simp [List.all_map, Bool.and_comm]⟩
    cases hp : prev with
    | false =>
      simp only [Bool.and_false, Bool.or_false, Bool.false_eq_true, if_false, fillLeadingIf]
      split <;> rfl
    | true =>
      simp only [Bool.and_true, fillLeadingIf, if_true]
      cases he : isna (edgeCell (!leading) b.cells b.hd) with
      | false =>
        simp only [Bool.or_false, Bool.false_eq_true, if_false]
        have : fillLeading isna v (orient leading b.cells) = orient leading b.cells := by
          apply fillLeading_head_notna
          intro x hx
          rw [hentry] at he
          cases hl : orient leading b.cells with
          | nil => rw [hl] at hx; simp at hx
          | cons y ys => rw [hl] at hx he; simp at hx he; subst hx; exact he
        rw [this]
        split <;> rfl
      | true =>
        simp only [Bool.or_true, Bool.not_true, Bool.false_eq_true, if_false, if_true]
        cases leading with
        | true =>
          obtain ⟨k, hk, hkn, hlead, hend⟩ := sidedSlice_leading (b.cells.map isna)
          rw [hk]
          simp only [orient, if_true]
          symm
          apply fillLeading_eq_assign v b.cells k hlead
          rcases hend with h | h
          · left; simpa using h
          · right; exact h
        | false =>
          obtain ⟨s, hs, hsn, htrail, hbeg⟩ := sidedSlice_trailing (b.cells.map isna)
          have hlen : (b.cells.map isna).length = b.cells.length := by simp
          rw [hlen] at hs hsn htrail
          rw [hs]
          simp only [orient, Bool.false_eq_true, if_false]
          rw [assignSlice_reverse _ _ _ _ (Nat.le_refl _)]
          rw [show b.cells.length - b.cells.length = 0 by omega]
          symm
          apply fillLeading_eq_assign v b.cells.reverse (b.cells.length - s)
          · intro r hr
            have hr' : r < b.cells.length := by omega
            have := htrail (b.cells.length - 1 - r) (by omega) (by omega)
            rw [List.getElem?_map] at this
            rw [List.getElem?_map, List.getElem?_reverse hr']
            exact this
          · rcases hbeg with h | ⟨h1, h⟩
            · left; simp; omega
            · right
              rw [List.getElem?_map] at h
              rw [List.getElem?_map, List.getElem?_reverse (by omega), ← h]
              congr 2; omega

theorem runSided_spec (leading : Bool) (v : α) (prev : Bool) (blocks : List (RBlock α)) :
    ((runSided isna leading v prev blocks).map (orient leading)).flatten =
      fillLeadingIf isna prev v ((blocks.map fun b => orient leading b.cells).flatten) := by
  induction blocks generalizing prev with
  | nil => cases prev <;> simp [runSided, fillLeadingIf, fillLeading]
  | cons b bs ih =>
    obtain ⟨h1, h2⟩ := stepSided_spec (isna := isna) leading v prev b
    simp only [runSided, List.map_cons, List.flatten_cons]
    rw [h1, ih, h2]
    cases prev with
    | false => simp [fillLeadingIf]
    | true =>
      simp only [fillLeadingIf, Bool.true_and, if_true]
      rw [fillLeading_append]
      split <;> rfl

theorem rowSided_leading (v : α) (blocks : List (RBlock α)) :
    (rowSidedAxis1 isna true v blocks).flatten = fillLeading isna v (blocks.map RBlock.cells).flatten := by
  have := runSided_spec (isna := isna) true v true blocks
  have e : (orient true : List α → List α) = id := by funext l; simp [orient]
  rw [e] at this
  simpa [rowSidedAxis1, fillLeadingIf] using this

theorem rowSided_trailing (v : α) (blocks : List (RBlock α)) :
    (rowSidedAxis1 isna false v blocks).flatten = fillTrailing isna v (blocks.map RBlock.cells).flatten := by
  have := runSided_spec (isna := isna) false v true blocks.reverse
  simp only [rowSidedAxis1, Bool.false_eq_true, if_false, fillTrailing]
  rw [flatten_reverse_map_reverse]
  have e : (orient false : List α → List α) = List.reverse := by
    funext l; simp [orient]
  rw [e] at this
  rw [this]
  simp only [fillLeadingIf, if_true]
  congr 2
  rw [List.reverse_flatten, List.map_map]
  simp [List.map_reverse, Function.comp_def]

/-! ### axis 0 and Series -/

theorem any_false_no_transition (sel : List Bool) (h : sel.any id = false) : binaryTransition sel = [] := by
  apply List.eq_nil_iff_forall_not_mem.mpr
  intro t ht
  rw [mem_binaryTransition] at ht
  rw [List.any_eq_false] at h
  rcases ht.2 with h1 | ⟨_, h1⟩
  · exact h true (List.mem_of_getElem? h1) rfl
  · exact h true (List.mem_of_getElem? h1) rfl

theorem fillDir1D_noNA (fwd : Bool) (limit : Nat) (a : List α) (h : (a.map isna).any id = false) :
    fillDir1D isna fwd limit a = a := by
  unfold fillDir1D
  simp only
  rw [any_false_no_transition _ h, slicesFromTargets_nil]
  rfl

theorem fillDir1D_spec (fwd : Bool) (limit : Nat) (a : List α) :
    fillDir1D isna fwd limit a = if fwd then ffillSpec isna limit a else bfillSpec isna limit a := by
  cases fwd with
  | true => exact fillDir1D_fwd limit a
  | false => exact fillDir1D_bwd limit a

theorem colDirAxis0_spec (fwd : Bool) (limit : Nat) (others : Bool) (col : List α) :
    colDirAxis0 isna fwd limit others col =
      if fwd then ffillSpec isna limit col else bfillSpec isna limit col := by
  rw [← fillDir1D_spec]
  unfold colDirAxis0
  simp only
  split
  · rename_i h
    simp only [Bool.not_eq_true', Bool.or_eq_false_iff] at h
    exact (fillDir1D_noNA fwd limit col h.2).symm
  · split
    · rename_i h
      unfold fillDir1D
      simp only
      rw [h, slicesFromTargets_nil]; rfl
    · rfl

theorem seriesFillDirectional_spec (fwd : Bool) (limit : Nat) (a : List α) :
    seriesFillDirectional isna fwd limit a =
      if fwd then ffillSpec isna limit a else bfillSpec isna limit a := by
  rw [← fillDir1D_spec]
  unfold seriesFillDirectional
  split
  · rename_i h
    simp only [Bool.not_eq_true'] at h
    exact (fillDir1D_noNA fwd limit a h).symm
  · rfl

/-- sided fill of one line by the sided slice -/
theorem sided_assign_spec (leading : Bool) (v : α) (a : List α) :
    (assignSlice a (sidedSlice leading (a.map isna)).1 (sidedSlice leading (a.map isna)).2 v) =
      if leading then fillLeading isna v a else fillTrailing isna v a := by
  cases leading with
  | true =>
    obtain ⟨k, hk, hkn, hlead, hend⟩ := sidedSlice_leading (a.map isna)
    rw [hk]
    simp only [if_true]
    symm
    apply fillLeading_eq_assign v a k hlead
    rcases hend with h | h
    · left; simpa using h
    · right; exact h
  | false =>
    obtain ⟨s, hs, hsn, htrail, hbeg⟩ := sidedSlice_trailing (a.map isna)
    have hlen : (a.map isna).length = a.length := by simp
    rw [hlen] at hs hsn htrail
    rw [hs]
    simp only [Bool.false_eq_true, if_false, fillTrailing]
    rw [← List.reverse_reverse (assignSlice a s a.length v), assignSlice_reverse _ _ _ _ (Nat.le_refl _)]
    rw [show a.length - a.length = 0 by omega]
    congr 1
    symm
    apply fillLeading_eq_assign v a.reverse (a.length - s)
    · intro r hr
      have hr' : r < a.length := by omega
      have := htrail (a.length - 1 - r) (by omega) (by omega)
      rw [List.getElem?_map] at this
      rw [List.getElem?_map, List.getElem?_reverse hr']
      exact this
    · rcases hbeg with h | ⟨h1, h⟩
      · left; simp; omega
      · right
        rw [List.getElem?_map] at h
        rw [List.getElem?_map, List.getElem?_reverse (by omega), ← h]
        congr 2; omega

/-- a line whose sided edge cell is not missing is its own sided fill -/
theorem sided_noop (leading : Bool) (v : α) (a : List α)
    (h : (if leading then (a.map isna).head? else (a.map isna).getLast?) ≠ some true) :
    (if leading then fillLeading isna v a else fillTrailing isna v a) = a := by
  cases leading with
  | true =>
    simp only [if_true] at h ⊢
    apply fillLeading_head_notna
    intro x hx
    cases a with
    | nil => simp at hx
    | cons y ys => simp at hx h; subst hx; simpa using h
  | false =>
    simp only [Bool.false_eq_true, if_false, fillTrailing] at h ⊢
    rw [fillLeading_head_notna, List.reverse_reverse]
    intro x hx
    rw [List.head?_reverse] at hx
    rw [List.getLast?_map, hx] at h
    simpa using h

theorem seriesFillSided_spec (leading : Bool) (v : α) (a : List α) :
    seriesFillSided isna leading v a =
      if leading then fillLeading isna v a else fillTrailing isna v a := by
  unfold seriesFillSided
  simp only
  by_cases hany : (!(a.map isna).any id) = true
  · rw [if_pos hany]
    simp only [Bool.not_eq_true'] at hany
    symm
    apply sided_noop
    intro hc
    rw [List.any_eq_false] at hany
    cases leading with
    | true => simp only [if_true] at hc; exact hany true (List.mem_of_mem_head? hc) rfl
    | false => simp only [Bool.false_eq_true, if_false] at hc; exact hany true (List.mem_of_getLast? hc) rfl
  · rw [if_neg hany]
    by_cases hs : (if leading = true then (a.map isna).head? else (a.map isna).getLast?) ≠ some true
    · rw [if_pos hs]
      exact (sided_noop leading v a hs).symm
    · rw [if_neg hs]
      exact sided_assign_spec leading v a

theorem colSidedAxis0_spec (leading : Bool) (v : α) (oneD others : Bool) (col : List α) :
    colSidedAxis0 isna leading v oneD others col =
      if leading then fillLeading isna v col else fillTrailing isna v col := by
  unfold colSidedAxis0
  simp only
  cases he : (if leading then (col.map isna).head? else (col.map isna).getLast?) with
  | none =>
    have hnil : col = [] := by
      cases leading with
      | true => simp only [if_true] at he; simpa using he
      | false => simp only [Bool.false_eq_true, if_false] at he; simpa using he
    subst hnil
    cases leading <;> simp [fillLeading, fillTrailing]
  | some edgeNA =>
    simp only
    cases edgeNA with
    | false =>
      have hno := sided_noop (isna := isna) leading v col (by rw [he]; simp)
      cases oneD <;> cases others <;> simp [hno]
    | true =>
      have := sided_assign_spec (isna := isna) leading v col
      cases oneD <;> cases others <;> simp [this]

theorem colSidedAxis0Pinned_spec (leading : Bool) (v : α) (oneD others : Bool) (col : List α) (hne : col ≠ []) :
    colSidedAxis0Pinned isna leading v oneD others col = .ok (colSidedAxis0 isna leading v oneD others col) := by
  unfold colSidedAxis0Pinned
  cases he : (if leading then (col.map isna).head? else (col.map isna).getLast?) with
  | none =>
    exfalso
    cases leading with
    | true => simp only [if_true] at he; simp at he; exact hne he
    | false => simp only [Bool.false_eq_true, if_false] at he; simp at he; exact hne he
  | some e => rfl

end SF.NA
