/-
  SFModel.NALemmas3 — helper lemmas for C14, part 3: code-side facts about the block-wise
  algorithms (sided slices, commuting slice assignments, the slice that determines the count).
-/
import SFModel.NALemmas2

namespace SF.NA

variable {α : Type} {isna : α → Bool}

/-! ### `np.nonzero` and the sided slice -/

theorem mem_nonzero (m : List Bool) (i : Nat) : i ∈ nonzero m ↔ m[i]? = some true := by
  unfold nonzero
  rw [List.mem_filter, List.mem_range]
  constructor
  · intro h; simpa using h.2
  · intro h; exact ⟨(List.getElem?_eq_some_iff.mp h).1, by simpa using h⟩

theorem nonzero_sorted (m : List Bool) : (nonzero m).Pairwise (· < ·) := by
  unfold nonzero
  exact List.Pairwise.filter _ List.pairwise_lt_range

theorem head?_sorted_min (l : List Nat) (h : l.Pairwise (· < ·)) (x : Nat) (hx : l.head? = some x) :
    ∀ y ∈ l, x ≤ y := by
  cases l with
  | nil => simp at hx
  | cons a rest =>
    simp at hx; subst hx
    intro y hy
    simp only [List.mem_cons] at hy
    rcases hy with rfl | hy
    · omega
    · have := List.rel_of_pairwise_cons h hy; omega

theorem getLast?_sorted_max (l : List Nat) (h : l.Pairwise (· < ·)) (x : Nat) (hx : l.getLast? = some x) :
    ∀ y ∈ l, y ≤ x := by
  induction l with
  | nil => simp at hx
  | cons a rest ih =>
    cases rest with
    | nil =>
      simp at hx; subst hx
      intro y hy; simp at hy; omega
    | cons b rest =>
      rw [List.getLast?_cons_cons] at hx
      have ih' := ih (List.pairwise_cons.mp h).2 hx
      intro y hy
      simp only [List.mem_cons] at hy
      rcases hy with rfl | hy
      · have h1 : y < b := List.rel_of_pairwise_cons h (by simp)
        have h2 := ih' b (by simp)
        omega
      · exact ih' y (by simpa using hy)

theorem sel_not_get (sel : List Bool) (i : Nat) : (sel.map not)[i]? = some true ↔ sel[i]? = some false := by
  rw [List.getElem?_map]
  cases sel[i]? with
  | none => simp
  | some b => cases b <;> simp

/-- the leading sided slice is `[0, e)`: the maximal run of missing cells at the start -/
theorem sidedSlice_leading (sel : List Bool) :
    ∃ e, sidedSlice true sel = (0, e) ∧ e ≤ sel.length ∧ (∀ r, r < e → sel[r]? = some true) ∧
      (e = sel.length ∨ sel[e]? = some false) := by
  unfold sidedSlice
  simp only [if_true]
  cases hh : (nonzero (sel.map not)).head? with
  | some t =>
    have hmem : t ∈ nonzero (sel.map not) := List.mem_of_mem_head? hh
    have ht : sel[t]? = some false := (sel_not_get sel t).mp ((mem_nonzero _ t).mp hmem)
    have htn : t < sel.length := (List.getElem?_eq_some_iff.mp ht).1
    refine ⟨t, rfl, by omega, ?_, Or.inr ht⟩
    intro r hr
    have hrn : r < sel.length := by omega
    cases hv : sel[r] with
    | true => rw [List.getElem?_eq_getElem hrn, hv]
    | false =>
      exfalso
      have : r ∈ nonzero (sel.map not) :=
        (mem_nonzero _ r).mpr ((sel_not_get sel r).mpr (by rw [List.getElem?_eq_getElem hrn, hv]))
      have := head?_sorted_min _ (nonzero_sorted _) t hh r this
      omega
  | none =>
    have hnil : nonzero (sel.map not) = [] := List.head?_eq_none_iff.mp hh
    refine ⟨sel.length, rfl, Nat.le_refl _, ?_, Or.inl rfl⟩
    intro r hr
    cases hv : sel[r] with
    | true => rw [List.getElem?_eq_getElem hr, hv]
    | false =>
      exfalso
      have : r ∈ nonzero (sel.map not) :=
        (mem_nonzero _ r).mpr ((sel_not_get sel r).mpr (by rw [List.getElem?_eq_getElem hr, hv]))
      rw [hnil] at this; cases this

/-- the trailing sided slice is `[s, n)`: the maximal run of missing cells at the end -/
theorem sidedSlice_trailing (sel : List Bool) :
    ∃ s, sidedSlice false sel = (s, sel.length) ∧ s ≤ sel.length ∧
      (∀ r, s ≤ r → r < sel.length → sel[r]? = some true) ∧ (s = 0 ∨ (0 < s ∧ sel[s - 1]? = some false)) := by
  unfold sidedSlice
  simp only [Bool.false_eq_true, if_false]
  cases hh : (nonzero (sel.map not)).getLast? with
  | some t =>
    have hmem : t ∈ nonzero (sel.map not) := List.mem_of_getLast? hh
    have ht : sel[t]? = some false := (sel_not_get sel t).mp ((mem_nonzero _ t).mp hmem)
    have htn : t < sel.length := (List.getElem?_eq_some_iff.mp ht).1
    refine ⟨t + 1, rfl, by omega, ?_, Or.inr ⟨by omega, by simpa using ht⟩⟩
    intro r hr hrn
    cases hv : sel[r] with
    | true => rw [List.getElem?_eq_getElem hrn, hv]
    | false =>
      exfalso
      have : r ∈ nonzero (sel.map not) :=
        (mem_nonzero _ r).mpr ((sel_not_get sel r).mpr (by rw [List.getElem?_eq_getElem hrn, hv]))
      have := getLast?_sorted_max _ (nonzero_sorted _) t hh r this
      omega
  | none =>
    have hnil : nonzero (sel.map not) = [] := List.getLast?_eq_none_iff.mp hh
    refine ⟨0, rfl, Nat.zero_le _, ?_, Or.inl rfl⟩
    intro r _ hr
    cases hv : sel[r] with
    | true => rw [List.getElem?_eq_getElem hr, hv]
    | false =>
      exfalso
      have : r ∈ nonzero (sel.map not) :=
        (mem_nonzero _ r).mpr ((sel_not_get sel r).mpr (by rw [List.getElem?_eq_getElem hr, hv]))
      rw [hnil] at this; cases this

/-! ### commuting slice assignments -/

theorem assignSlice_comm (a : List α) (s1 e1 s2 e2 : Nat) (v1 v2 : α) (h : e1 ≤ s2 ∨ e2 ≤ s1) :
    assignSlice (assignSlice a s1 e1 v1) s2 e2 v2 = assignSlice (assignSlice a s2 e2 v2) s1 e1 v1 := by
  apply List.ext_getElem?
  intro p
  simp only [assignSlice_get]
  by_cases c1 : s1 ≤ p ∧ p < e1 <;> by_cases c2 : s2 ≤ p ∧ p < e2 <;> simp [c1, c2]
  omega

theorem applySlices_assign_comm (b : List α) (S : List Sl) (acc : List α) (s e : Nat) (v : α)
    (h : ∀ sl ∈ S, sl.stop ≤ s ∨ e ≤ sl.start) :
    applySlices b S (assignSlice acc s e v) = assignSlice (applySlices b S acc) s e v := by
  induction S generalizing acc with
  | nil => simp [applySlices]
  | cons sl rest ih =>
    rw [applySlices_cons, applySlices_cons]
    have hr : ∀ sl ∈ rest, sl.stop ≤ s ∨ e ≤ sl.start := fun t ht => h t (by simp [ht])
    have e1 : applyOne b (assignSlice acc s e v) sl = assignSlice (applyOne b acc sl) s e v := by
      unfold applyOne
      cases b[sl.target]? with
      | none => rfl
      | some w =>
        simp only
        apply assignSlice_comm
        rcases h sl (by simp) with c | c
        · right; exact c
        · left; exact c
    rw [e1, ih _ hr]

theorem assignSlice_reverse (a : List α) (s e : Nat) (v : α) (he : e ≤ a.length) :
    (assignSlice a s e v).reverse = assignSlice a.reverse (a.length - e) (a.length - s) v := by
  apply List.ext_getElem?
  intro p
  by_cases hp' : a.length ≤ p
  · rw [List.getElem?_eq_none (by simp; omega), List.getElem?_eq_none (by simp; omega)]
  have hp : p < a.length := by omega
  rw [List.getElem?_reverse (by simpa using hp), assignSlice_get, assignSlice_get,
    List.getElem?_reverse hp]
  simp only [assignSlice_length]
  by_cases c : s ≤ a.length - 1 - p ∧ a.length - 1 - p < e
  · rw [if_pos c, if_pos (by omega)]
  · rw [if_neg c, if_neg (by omega)]

theorem assignSlice_append_left (xs ys : List α) (e : Nat) (v : α) (he : e ≤ xs.length) :
    assignSlice (xs ++ ys) 0 e v = assignSlice xs 0 e v ++ ys := by
  apply List.ext_getElem?
  intro p
  rw [assignSlice_get]
  by_cases hp : p < xs.length
  · rw [List.getElem?_append_left hp, List.getElem?_append_left (by simpa using hp), assignSlice_get]
  · rw [List.getElem?_append_right (by omega), List.getElem?_append_right (by simp; omega)]
    rw [if_neg (by omega)]
    simp

theorem assignSlice_empty (a : List α) (s e : Nat) (v : α) (h : e ≤ s) : assignSlice a s e v = a := by
  apply List.ext_getElem?
  intro p
  rw [assignSlice_get, if_neg (by omega)]

/-! ### where yielded slices lie -/

theorem trimSlice_fwd_start (limit : Nat) (s : Sl) : (trimSlice true limit s).start = s.start := by
  unfold trimSlice
  split
  · simp only; split <;> simp
  · rfl

theorem trimSlice_bwd_stop (limit : Nat) (s : Sl) : (trimSlice false limit s).stop = s.stop := by
  unfold trimSlice
  split
  · simp only; split <;> simp
  · rfl

theorem trimSlice_fwd_len (limit : Nat) (s e t : Nat) (h : s ≤ e) :
    (trimSlice true limit ⟨s, e, t⟩).stop - (trimSlice true limit ⟨s, e, t⟩).start =
      if limit ≠ 0 ∧ limit < e - s then limit else e - s := by
  unfold trimSlice
  by_cases hl : limit > 0
  · simp only [hl, if_true]
    by_cases hs : e - s - limit > 0
    · simp only [hs, if_true]; rw [if_pos (by omega)]; omega
    · simp only [hs, if_false]; rw [if_neg (by omega)]
  · simp only [hl, if_false]; rw [if_neg (by omega)]

theorem trimSlice_bwd_len (limit : Nat) (s e t : Nat) (h : s ≤ e) :
    (trimSlice false limit ⟨s, e, t⟩).stop - (trimSlice false limit ⟨s, e, t⟩).start =
      if limit ≠ 0 ∧ limit < e - s then limit else e - s := by
  unfold trimSlice
  by_cases hl : limit > 0
  · simp only [hl, if_true]
    by_cases hs : e - s - limit > 0
    · simp only [hs, if_true, Bool.false_eq_true, if_false]; rw [if_pos (by omega)]; omega
    · simp only [hs, if_false]; rw [if_neg (by omega)]
  · simp only [hl, if_false]; rw [if_neg (by omega)]

/-- forward slices start right after their (non-missing) target -/
theorem fwd_slice_facts (limit : Nat) (sel : List Bool) (s : Sl)
    (hs : s ∈ slicesFromTargets true limit sel sel.length (binaryTransition sel)) :
    s.start = s.target + 1 ∧ sel[s.target]? = some false := by
  obtain ⟨t, t', hm, h1, h2, h3, rfl⟩ := (mem_slicesFwd _ _ _ _ _).mp hs
  have hp := pairsFwd_spec (binaryTransition sel) sel.length (binaryTransition_sorted sel)
    (fun t ht => binaryTransition_lt sel t ht) (t, t') hm
  rw [trimSlice_fwd_start, trimSlice_target]
  exact ⟨rfl, ((mem_binaryTransition sel t).mp hp.1).1⟩

/-- backward slices stop right at their (non-missing) target -/
theorem bwd_slice_facts (limit : Nat) (sel : List Bool) (s : Sl)
    (hs : s ∈ slicesFromTargets false limit sel sel.length (binaryTransition sel)) :
    s.stop = s.target ∧ sel[s.target]? = some false := by
  obtain ⟨s0, t, hm, h1, h3, rfl⟩ := (mem_slicesBwd _ _ _ _ _).mp hs
  have hp := pairsBwd_spec (binaryTransition sel) 0 (binaryTransition_sorted sel) (fun _ _ => Nat.zero_le _)
    (s0, t) hm
  rw [trimSlice_bwd_stop, trimSlice_target]
  exact ⟨rfl, ((mem_binaryTransition sel t).mp hp.1).1⟩

/-! ### the slice that determines `bridging_count` -/

theorem getLast?_of_max (l : List Nat) (hs : l.Pairwise (· < ·)) (j : Nat) (hj : j ∈ l)
    (hmax : ∀ t ∈ l, t ≤ j) : l.getLast? = some j := by
  cases hg : l.getLast? with
  | none => rw [List.getLast?_eq_none_iff] at hg; subst hg; cases hj
  | some g =>
    have h1 := hmax g (List.mem_of_getLast? hg)
    have h2 := getLast?_sorted_max l hs g hg j hj
    congr 1; omega

theorem head?_of_min (l : List Nat) (hs : l.Pairwise (· < ·)) (j : Nat) (hj : j ∈ l)
    (hmin : ∀ t ∈ l, j ≤ t) : l.head? = some j := by
  cases hg : l.head? with
  | none => rw [List.head?_eq_none_iff] at hg; subst hg; cases hj
  | some g =>
    have h1 := hmin g (List.mem_of_mem_head? hg)
    have h2 := head?_sorted_min l hs g hg j hj
    congr 1; omega

theorem zip_tail_getLast? (ts : List Nat) (n j : Nat) (h : ts.getLast? = some j) :
    (ts.zip (ts.tail ++ [n])).getLast? = some (j, n) := by
  induction ts with
  | nil => simp at h
  | cons a rest ih =>
    cases rest with
    | nil => simp at h; subst h; simp
    | cons b rest =>
      rw [List.getLast?_cons_cons] at h
      have ih' := ih h
      simp only [List.tail_cons, List.cons_append, List.zip_cons_cons] at ih' ⊢
      rw [List.getLast?_cons, ih']
      rfl

theorem getLast?_filterMap_last {β γ : Type} (l : List β) (f : β → Option γ) (x : β) (y : γ)
    (h : l.getLast? = some x) (hf : f x = some y) : (l.filterMap f).getLast? = some y := by
  induction l with
  | nil => simp at h
  | cons a rest ih =>
    cases rest with
    | nil => simp at h; subst h; simp [hf]
    | cons b rest =>
      rw [List.getLast?_cons_cons] at h
      have ih' := ih h
      rw [List.filterMap_cons]
      cases f a with
      | none => exact ih'
      | some c => simp only; rw [List.getLast?_cons, ih']; rfl

/-- forward: when the last non-missing cell is at `j < n - 1`, the last yielded slice is the trailing
    run `[j+1, n)` (trimmed) -/
theorem fwd_last_slice (limit : Nat) (sel : List Bool) (j : Nat) (hj : sel[j]? = some false)
    (hafter : ∀ r, j < r → r < sel.length → sel[r]? = some true) (hjn : j + 1 < sel.length) :
    (slicesFromTargets true limit sel sel.length (binaryTransition sel)).getLast? =
      some (trimSlice true limit ⟨j + 1, sel.length, j⟩) := by
  have hmem : j ∈ binaryTransition sel := by
    rw [mem_binaryTransition]; exact ⟨hj, Or.inl (hafter (j + 1) (by omega) hjn)⟩
  have hmax : ∀ t ∈ binaryTransition sel, t ≤ j := by
    intro t ht
    by_cases c : t ≤ j
    · exact c
    · exfalso
      have h1 := ((mem_binaryTransition sel t).mp ht).1
      have h2 := hafter t (by omega) (binaryTransition_lt sel t ht)
      rw [h1] at h2; cases h2
  have hlast := getLast?_of_max _ (binaryTransition_sorted sel) j hmem hmax
  unfold slicesFromTargets rawSlicesFwd
  simp only [if_true]
  apply getLast?_filterMap_last _ _ ⟨j + 1, sel.length, j⟩
  · rw [List.getLast?_map, zip_tail_getLast? _ _ _ hlast]; rfl
  · simp only
    rw [if_neg (by omega), if_neg (by simp; omega), if_pos (hafter (j + 1) (by omega) hjn)]

/-- backward: when the first non-missing cell is at `j > 0`, the first yielded slice is the leading
    run `[0, j)` (trimmed) -/
theorem bwd_first_slice (limit : Nat) (sel : List Bool) (j : Nat) (hj : sel[j]? = some false)
    (hbefore : ∀ r, r < j → sel[r]? = some true) (hj0 : 0 < j) :
    (slicesFromTargets false limit sel sel.length (binaryTransition sel)).head? =
      some (trimSlice false limit ⟨0, j, j⟩) := by
  have hmem : j ∈ binaryTransition sel := by
    rw [mem_binaryTransition]; exact ⟨hj, Or.inr ⟨hj0, hbefore (j - 1) (by omega)⟩⟩
  have hmin : ∀ t ∈ binaryTransition sel, j ≤ t := by
    intro t ht
    by_cases c : j ≤ t
    · exact c
    · exfalso
      have h1 := ((mem_binaryTransition sel t).mp ht).1
      have h2 := hbefore t (by omega)
      rw [h1] at h2; cases h2
  have hhead := head?_of_min _ (binaryTransition_sorted sel) j hmem hmin
  unfold slicesFromTargets rawSlicesBwd
  simp only [Bool.false_eq_true, if_false]
  cases hts : binaryTransition sel with
  | nil => rw [hts] at hhead; simp at hhead
  | cons t rest =>
    rw [hts] at hhead
    simp at hhead; subst hhead
    simp only [List.zip_cons_cons, List.map_cons, List.filterMap_cons]
    rw [if_neg (by omega), if_neg (by simp), if_pos (hbefore 0 hj0)]
    simp

end SF.NA
