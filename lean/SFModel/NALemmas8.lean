/-
  SFModel.NALemmas8 — helper lemmas for C14, part 8: isna / dropna / fillna / count on the model.
-/
import SFModel.NALemmas7

namespace SF.NA

variable {α : Type} {isna : α → Bool}

/-! ### count -/

theorem count_eq (l : List α) : l.length - ((l.map isna).filter id).length = countSpec isna l := by
  unfold countSpec
  induction l with
  | nil => rfl
  | cons x xs ih =>
    have hle : ((xs.map isna).filter id).length ≤ xs.length := by
      have := List.length_filter_le id (xs.map isna); simpa using this
    cases hx : isna x <;> simp [hx] <;> omega

/-! ### fillna -/

theorem fillCell_notna (x : α) (o : Option α) (h : isna x = false) : fillCell isna x o = x := by
  simp [fillCell, h]

theorem map_fillCell_noNA (l : List α) (f : α → Option α) (h : (l.map isna).any id = false) :
    l.map (fun x => fillCell isna x (f x)) = l := by
  rw [List.any_eq_false] at h
  conv => rhs; rw [← List.map_id l]
  apply List.map_congr_left
  intro x hx
  have := h (isna x) (List.mem_map_of_mem hx)
  exact fillCell_notna x _ (by simpa using this)

theorem zip_sel_map (v : α) (a : List α) :
    (a.zip (a.map isna)).map (fun (p : α × Bool) => if p.2 then v else p.1) =
      a.map fun x => fillCell isna x (some v) := by
  induction a with
  | nil => rfl
  | cons x xs ih => simp only [List.map_cons, List.zip_cons_cons]; rw [ih]; simp [fillCell]

theorem seriesFillnaElement_spec (v : α) (a : List α) :
    seriesFillnaElement isna v a = a.map fun x => fillCell isna x (some v) := by
  unfold seriesFillnaElement
  simp only
  split
  · rename_i h
    simp only [Bool.not_eq_true'] at h
    exact (map_fillCell_noNA a (fun _ => some v) h).symm
  · exact zip_sel_map v a

theorem zipWith_fillCell_noNA (l : List α) (o : List (Option α)) (hl : o.length = l.length)
    (h : (l.map isna).any id = false) : List.zipWith (fillCell isna) l o = l := by
  induction l generalizing o with
  | nil => simp
  | cons x xs ih =>
    cases o with
    | nil => simp at hl
    | cons y ys =>
      simp only [List.map_cons, List.any_cons, Bool.or_eq_false_iff, id] at h
      simp only [List.zipWith_cons_cons]
      rw [ih ys (by simpa using hl) h.2, fillCell_notna x y h.1]

/-- no missing cell is covered by the argument: nothing changes -/
theorem zipWith_fillCell_uncovered (a : List α) (other : List (Option α)) (hl : other.length = a.length)
    (h : (((a.map isna).zip other).map fun (p : Bool × Option α) => p.1 && p.2.isSome).any id = false) :
    List.zipWith (fillCell isna) a other = a := by
  induction a generalizing other with
  | nil => simp
  | cons x xs ih =>
    cases other with
    | nil => simp at hl
    | cons y ys =>
      simp only [List.map_cons, List.zip_cons_cons, List.any_cons, Bool.or_eq_false_iff, id] at h
      simp only [List.zipWith_cons_cons]
      rw [ih ys (by simpa using hl) h.2]
      congr 1
      unfold fillCell
      cases hx : isna x with
      | false => simp
      | true =>
        cases y with
        | none => simp
        | some w => simp [hx] at h

theorem zip3_fillCell (a : List α) (other : List (Option α)) (hl : other.length = a.length) :
    ((a.zip (((a.map isna).zip other).map fun (p : Bool × Option α) => p.1 && p.2.isSome)).zip other).map
        (fun (q : (α × Bool) × Option α) =>
          if q.1.2 then (match q.2 with | some v => v | none => q.1.1) else q.1.1) =
      List.zipWith (fillCell isna) a other := by
  induction a generalizing other with
  | nil => simp
  | cons x xs ih =>
    cases other with
    | nil => simp at hl
    | cons y ys =>
      simp only [List.map_cons, List.zip_cons_cons, List.zipWith_cons_cons]
      rw [ih ys (by simpa using hl)]
      congr 1
      unfold fillCell
      cases hx : isna x <;> cases y <;> simp

theorem seriesFillnaSeries_spec (other : List (Option α)) (a : List α) (hl : other.length = a.length) :
    seriesFillnaSeries isna other a = List.zipWith (fillCell isna) a other := by
  unfold seriesFillnaSeries
  simp only
  split
  · rename_i h
    simp only [Bool.not_eq_true'] at h
    exact (zipWith_fillCell_noNA a other hl h).symm
  · split
    · rename_i h
      simp only [Bool.not_eq_true'] at h
      exact (zipWith_fillCell_uncovered a other hl h).symm
    · exact zip3_fillCell a other hl

theorem zipWith_fillSome_noNA (col vals : List α) (hl : vals.length = col.length)
    (h : (col.map isna).any id = false) :
    List.zipWith (fun x w => fillCell isna x (some w)) col vals = col := by
  induction col generalizing vals with
  | nil => simp
  | cons x xs ih =>
    cases vals with
    | nil => simp at hl
    | cons y ys =>
      simp only [List.map_cons, List.any_cons, Bool.or_eq_false_iff, id] at h
      simp only [List.zipWith_cons_cons]
      rw [ih ys (by simpa using hl) h.2, fillCell_notna x _ h.1]

theorem zipWith_fillSome_allNA (col vals : List α) (hl : vals.length = col.length)
    (h : (col.map isna).all id = true) :
    List.zipWith (fun x w => fillCell isna x (some w)) col vals = vals := by
  induction col generalizing vals with
  | nil => cases vals with
    | nil => rfl
    | cons y ys => simp at hl
  | cons x xs ih =>
    cases vals with
    | nil => simp at hl
    | cons y ys =>
      simp only [List.map_cons, List.all_cons, Bool.and_eq_true, id] at h
      simp only [List.zipWith_cons_cons]
      rw [ih ys (by simpa using hl) h.2]
      simp [fillCell, h.1]

theorem zip_fillSome (col vals : List α) :
    (col.zip vals).map (fun (p : α × α) => if isna p.1 then p.2 else p.1) =
      List.zipWith (fun x w => fillCell isna x (some w)) col vals := by
  induction col generalizing vals with
  | nil => simp
  | cons x xs ih =>
    cases vals with
    | nil => simp
    | cons y ys =>
      simp only [List.zip_cons_cons, List.map_cons, List.zipWith_cons_cons]
      rw [ih ys]
      simp [fillCell]

theorem colFillnaByValues_spec (others : Bool) (vals col : List α) (hl : vals.length = col.length) :
    colFillnaByValues isna others vals col =
      List.zipWith (fun x w => fillCell isna x (some w)) col vals := by
  unfold colFillnaByValues
  simp only
  split
  · rename_i h
    simp only [Bool.not_eq_true', Bool.or_eq_false_iff] at h
    exact (zipWith_fillSome_noNA col vals hl h.2).symm
  · split
    · rename_i h
      simp only [Bool.not_eq_true'] at h
      exact (zipWith_fillSome_noNA col vals hl h).symm
    · split
      · rename_i h
        exact (zipWith_fillSome_allNA col vals hl h).symm
      · exact zip_fillSome col vals

/-! ### dropna (Series) -/

theorem mem_seriesDropna (a : List α) (p : Nat) :
    p ∈ seriesDropna isna a ↔ ∃ x, a[p]? = some x ∧ isna x = false := by
  unfold seriesDropna
  simp only
  have hmem : p ∈ nonzero ((a.map isna).map not) ↔ ∃ x, a[p]? = some x ∧ isna x = false := by
    rw [mem_nonzero, sel_not_get, List.getElem?_map]
    cases a[p]? with
    | none => simp
    | some y => simp
  split
  · rename_i h
    simp only [Bool.not_eq_true'] at h
    constructor
    · intro hc; cases hc
    · rintro ⟨x, hx, hn⟩
      exfalso
      rw [List.any_eq_false] at h
      have hm : (!isna x) ∈ (a.map isna).map not :=
        List.mem_map_of_mem (List.mem_map_of_mem (List.mem_of_getElem? hx))
      have := h _ hm
      simp [hn] at this
  · exact hmem

theorem seriesDropna_sorted (a : List α) : (seriesDropna isna a).Pairwise (· < ·) := by
  unfold seriesDropna
  simp only
  split
  · exact List.Pairwise.nil
  · exact nonzero_sorted _

/-! ### fillna on a block -/

theorem rows_fill_noNA (rows : List (List α)) (f : α → Option α)
    (h : (rows.any fun r => r.any isna) = false) :
    rows.map (fun r => r.map fun x => fillCell isna x (f x)) = rows := by
  rw [List.any_eq_false] at h
  conv => rhs; rw [← List.map_id rows]
  apply List.map_congr_left
  intro r hr
  have hr' := h r hr
  simp only [id]
  apply map_fillCell_noNA
  simpa [List.any_map] using hr'

theorem blockFillna_element (v : α) (b : Block α) :
    blockFillna isna v none b = ⟨b.oneD, b.rows.map fun r => r.map fun x => fillCell isna x (some v)⟩ := by
  unfold blockFillna
  simp only
  split
  · rename_i h
    simp only [Bool.not_eq_true'] at h
    rw [rows_fill_noNA b.rows (fun _ => some v) h]
  · rfl

theorem zip_fillCell_row (r : List α) (g : List (Option α)) :
    (r.zip g).map (fun (p : α × Option α) => fillCell isna p.1 p.2) =
      List.zipWith (fillCell isna) r g := by
  induction r generalizing g with
  | nil => simp
  | cons x xs ih =>
    cases g with
    | nil => simp
    | cons y ys =>
      simp only [List.zip_cons_cons, List.map_cons, List.zipWith_cons_cons]
      rw [ih ys]

theorem zipWith_rows_uncovered (rows : List (List α)) (grid : List (List (Option α)))
    (hl : grid.length = rows.length)
    (hw : ∀ p ∈ rows.zip grid, p.2.length = p.1.length)
    (h : ((rows.zip grid).map fun (p : List α × List (Option α)) =>
            (p.1.zip p.2).map fun (q : α × Option α) => isna q.1 && q.2.isSome).any (fun r => r.any id) = false) :
    List.zipWith (List.zipWith (fillCell isna)) rows grid = rows := by
  induction rows generalizing grid with
  | nil => simp
  | cons r rs ih =>
    cases grid with
    | nil => simp at hl
    | cons g gs =>
      simp only [List.zip_cons_cons, List.map_cons, List.any_cons, Bool.or_eq_false_iff] at h
      simp only [List.zipWith_cons_cons]
      rw [ih gs (by simpa using hl) (fun p hp => hw p (by simp [hp])) h.2]
      congr 1
      apply zipWith_fillCell_uncovered r g (hw (r, g) (by simp))
      have := h.1
      rw [← this]
      congr 1
      rw [List.zip_map_left, List.map_map]
      rfl

theorem zip_rows_fill (rows : List (List α)) (grid : List (List (Option α))) :
    (rows.zip grid).map (fun (p : List α × List (Option α)) =>
        (p.1.zip p.2).map fun (q : α × Option α) => fillCell isna q.1 q.2) =
      List.zipWith (List.zipWith (fillCell isna)) rows grid := by
  induction rows generalizing grid with
  | nil => simp
  | cons r rs ih =>
    cases grid with
    | nil => simp
    | cons g gs =>
      simp only [List.zip_cons_cons, List.map_cons, List.zipWith_cons_cons]
      rw [ih gs, zip_fillCell_row]

theorem blockFillna_grid (v : α) (grid : List (List (Option α))) (b : Block α)
    (hl : grid.length = b.rows.length) (hw : ∀ p ∈ b.rows.zip grid, p.2.length = p.1.length) :
    blockFillna isna v (some grid) b = ⟨b.oneD, List.zipWith (List.zipWith (fillCell isna)) b.rows grid⟩ := by
  unfold blockFillna
  simp only
  split
  · rename_i h
    simp only [Bool.not_eq_true'] at h
    rw [zipWith_rows_uncovered b.rows grid hl hw h]
  · rw [zip_rows_fill]

end SF.NA
