/-
  SFModel.BlocksAssignBlocks — model of `TypeBlocks._assign_from_iloc_by_blocks(values, row_key, column_key)`
  (static_frame/core/type_blocks.py) and of `container_util.get_block_match(width, values_source)`,
  wrapped as the code wraps the generator (`extract_iloc_assign_by_blocks`:
  `TypeBlocks.from_blocks(generator)`, no shape reference).  They back `Frame.assign[...](Frame)`,
  `Frame.assign.iloc[...]` / `.loc[...]` with a Frame value (the value Frame is reindexed to the
  addressed labels and handed over as its list of blocks).

  `values_source = list(values); values_source.reverse()` is a stack whose top is the END of the
  Python list.  Here the stack is a `List (Block α)` whose top is the HEAD: the first value block is
  the head, `values_source.pop()` takes the head, `values_source.append(x)` conses `x`.

  `get_block_match(width, values_source)` draws `width` value columns from the stack:
    * `width == 1`: one pop; a 1-D array is yielded as it is, of a 2-D array the first column is
      yielded AS A 1-D ARRAY (`v[:, 0]`) and, `if v.shape[1] > 1`, the rest `v[:, 1:]` is pushed back;
    * otherwise `while width_found < width`: pop; a 1-D array counts 1; a 2-D array that is not
      wider than what is still needed is yielded whole; a wider one is split — `v[:, width_needed:]`
      is pushed back, `v[:, :width_needed]` yielded — and the loop ends.
  A pop from the empty stack is an IndexError.

  The generator walks the blocks with the targets of `_key_to_block_slices(column_key,
  retain_key_order=True)` (Blocks.lean `keyToBlockSlices`).  For a target `(block, slice | int)` of the
  current block it reads `t_start`, `t_stop`, `t_width = t_stop - t_start` (the step of the slice is
  never read), yields `b[:, assigned_stop:t_start]` — `if t_start != 0`, as written — and then
    * with a null row key: the matched value blocks AS THEY ARE;
    * otherwise `column_2d_filter` of the matched blocks, `assigned_dtype = resolve_dtype_iter(chain(
      (a.dtype for a in assigned_blocks), (b.dtype,)))` — ONE dtype per TARGET, over the dtypes of all
      value blocks matched to it, left to right, and the target block's dtype last —, the target
      columns copied into that dtype (`astype`) and `concat_resolved(assigned_blocks, axis=1)` written
      into the selected rows (a 1-D target block: `column_1d_filter(assigned_blocks[0])`).
  After the targets of a block: `b` itself when nothing was assigned, else `b[:, assigned_stop:]`.

  What is a parameter: dtype resolution (`resolve`).  What is not modelled: NumPy's conversion of the
  cell VALUES on `astype` / on storing into an array of another dtype (cells are carried over), and
  the interleaving of the lazy generators with `from_blocks` (an error of `from_blocks` about an
  early block precedes, on the real code, an error the generator would raise later): the
  correspondence cases carry at most one fault.
-/
import SFModel.BlocksAssign

namespace SF

/-- token of `np.dtype(bool)` (the harness's `dtype_tok`) -/
def boolDT : DT := "b1"

namespace TB
variable {α : Type}

/-! ### `get_block_match` -/

/-- the `while width_found < width` loop; state: the stack and `width_found`.
    Returns (arrays yielded, stack afterwards). -/
def blockMatchLoop (width : Int) : List (Block α) → Int → Except Err (List (Block α) × List (Block α))
  | [], found => if found < width then .error .lookup else .ok ([], [])   -- `pop from empty list`
  | v :: rest, found =>
    if found < width then
      match v with
      | .d1 _ _ =>
        -- `yield v; width_found += 1; continue`
        match blockMatchLoop width rest (found + 1) with
        | .error e => .error e
        | .ok (ys, src') => .ok (v :: ys, src')
      | .d2 t cs =>
        let widthNeeded : Int := width - found
        if (cs.length : Int) ≤ widthNeeded then
          -- `yield v; width_found += width_v; continue`
          match blockMatchLoop width rest (found + (cs.length : Int)) with
          | .error e => .error e
          | .ok (ys, src') => .ok (v :: ys, src')
        else
          -- `values_source.append(v[:, width_needed:]); yield v[:, :width_needed]; break`
          .ok ([.d2 t (cs.take widthNeeded.toNat)], .d2 t (cs.drop widthNeeded.toNat) :: rest)
    else .ok ([], v :: rest)

/-- `get_block_match(width, values_source)`: (arrays yielded, stack afterwards) -/
def getBlockMatch (width : Int) (src : List (Block α)) : Except Err (List (Block α) × List (Block α)) :=
  if width = 1 then
    match src with
    | [] => .error .lookup                                  -- `pop from empty list`
    | .d1 t c :: rest => .ok ([.d1 t c], rest)
    | .d2 _ [] :: _ => .error .lookup                       -- `v[:, 0]` of an array without columns
    | .d2 t (c :: cs) :: rest =>
      -- `if v.shape[1] > 1: values_source.append(v[:, 1:])`; `yield v[:, 0]`
      .ok ([.d1 t c], if (c :: cs).length > 1 then .d2 t cs :: rest else rest)
  else blockMatchLoop width src 0

/-! ### one target -/

/-- `t_start`, `t_stop`, `t_width` of a target.  A slice without stop (the descending run down to
    column 0 of an unordered key) is the TypeError of `t_stop - t_start`; negative bounds are never
    yielded by `_key_to_block_slices` (`other`).  The step is not read. -/
def tgtRange : BSel → Except Err (Nat × Nat × Int)
  | .col c => .ok (c, c + 1, 1)
  | .sl ⟨some a, some z, _⟩ => if a < 0 ∨ z < 0 then .error .other else .ok (a.toNat, z.toNat, z - a)
  | .sl ⟨none, some _, _⟩ => .error .value
  | .sl ⟨_, none, _⟩ => .error .value

/-- `if t_start != 0: yield b[NULL_SLICE, assigned_stop: t_start]` — the test is on `t_start`, not on
    `t_start > assigned_stop`: an empty (or, for an unordered key, backwards = empty) range yields an
    array without columns, which `from_blocks` skips.  A 1-D block cannot take two keys: IndexError. -/
def gapBefore (b : Block α) (stop tStart : Nat) : Except Err (List (Block α)) :=
  if tStart ≠ 0 then
    match b with
    | .d1 _ _ => .error .lookup
    | .d2 t cs => .ok [.d2 t (subCols cs stop tStart)]
  else .ok []

/-- `resolve_dtype_iter(chain((a.dtype for a in assigned_blocks), (b.dtype,)))` -/
def targetDtype (resolve : DT → DT → DT) (pieceDts : List DT) (bdt : DT) : DT :=
  match pieceDts ++ [bdt] with
  | d :: ds => Caches.resolveIter resolve d ds
  | [] => bdt

/-- all columns of `concat_resolved(assigned_blocks, axis=1)` have one length (`np.concatenate`
    refuses pieces of different row counts) -/
def sameLen (cols : List (List α)) : Bool :=
  match cols with
  | [] => true
  | c :: cs => cs.all (fun x => x.length == c.length)

/-- `assigned[row_key, NULL_SLICE] = V` for a 2-D target of `w` columns and `n` addressed rows, `V`
    column-major: NumPy broadcasts each axis (equal length, or length 1 repeated) -/
def bcastMat (vcols : List (List α)) (w n : Nat) : Except Err (List (List α)) :=
  match bcastE vcols w with
  | .error e => .error e
  | .ok cs => cs.mapM (bcastE · n)

/-- the non-null-row-key branch for ONE target: the assigned array.
    `tStart`, `tStop` delimit the target inside `b`; `pieces` is what `get_block_match` yielded. -/
def assignedBlock (resolve : DT → DT → DT) (scalarRow : Bool) (rpsE : Except Err (List Nat))
    (b : Block α) (tStart tStop : Nat) (pieces : List (Block α)) : Except Err (Block α) :=
  let adt := targetDtype resolve (pieces.map Block.dt) b.dt
  match b with
  | .d2 _ cs =>
    -- `assigned = b[:, t_start:t_stop].astype(assigned_dtype)`
    let tcols := subCols cs tStart tStop
    -- `concat_resolved(assigned_blocks, axis=1)`: `next(iter(()))` inside the generator is a RuntimeError
    if pieces.isEmpty then .error .shape else
    let vcols := pieces.flatMap Block.colsOf
    if ¬ sameLen vcols then .error .value else
    -- `assigned[row_key, :] = ...`: NumPy resolves the row index first, then broadcasts
    match rpsE with
    | .error e => .error e
    | .ok rps =>
      match bcastMat vcols tcols.length rps.length with
      | .error e => .error e
      | .ok cells => .ok (.d2 adt (List.zipWith (fun c vals => writeCol c rps vals) tcols cells))
  | .d1 _ c =>
    -- `assigned = b.astype(assigned_dtype)`; `assigned[row_key] = column_1d_filter(assigned_blocks[0])`
    match pieces with
    | [] => .error .lookup                                  -- `assigned_blocks[0]`
    | p :: _ =>
      match p.colsOf with
      | [vc] =>
        match rpsE with
        | .error e => .error e
        | .ok rps =>
          -- an integer row key addresses a scalar slot and the value is still a 1-D array: NumPy refuses
          -- ("setting an array element with a sequence"), EXCEPT for dtype object — the ARRAY becomes
          -- the cell, which the cell type here cannot hold (`other`) — and for dtype bool (the truth
          -- value of a one-element array is stored; any other length is a ValueError)
          if scalarRow ∧ adt = objectDT then .error .other
          else if scalarRow ∧ adt ≠ boolDT then .error .value
          else
            match bcastE vc rps.length with
            | .error e => .error e
            | .ok vals => .ok (.d1 adt (writeCol c rps vals))
      | _ => .error .value                                  -- `np.reshape(array, array.shape[0])`

/-- one pass of the `while targets_remain` body for a target of the current block:
    (arrays yielded, new `assigned_stop`, stack afterwards) -/
def assignBlocksStep (resolve : DT → DT → DT) (nullRow scalarRow : Bool) (rpsE : Except Err (List Nat))
    (b : Block α) (sel : BSel) (stop : Nat) (src : List (Block α)) :
    Except Err (List (Block α) × Nat × List (Block α)) :=
  match tgtRange sel with
  | .error e => .error e
  | .ok (tStart, tStop, tWidth) =>
  match gapBefore b stop tStart with
  | .error e => .error e
  | .ok gap =>
  match getBlockMatch tWidth src with
  | .error e => .error e
  | .ok (pieces, src') =>
    if nullRow then
      -- `yield from get_block_match(t_width, values_source)`
      .ok (gap ++ pieces, tStop, src')
    else
      match assignedBlock resolve scalarRow rpsE b tStart tStop pieces with
      | .error e => .error e
      | .ok blk => .ok (gap ++ [blk], tStop, src')

/-- the `while targets_remain` loop for ONE block: consumes the targets that belong to block `bi` -/
def assignBlocksWalk (resolve : DT → DT → DT) (nullRow scalarRow : Bool) (rpsE : Except Err (List Nat))
    (b : Block α) (bi : Nat) :
    List (Nat × BSel) → Nat → List (Block α) → List (Block α) →
      Except Err (List (Block α) × Nat × List (Nat × BSel) × List (Block α))
  | [], stop, parts, src => .ok (parts, stop, [], src)
  | (tbi, sel) :: rest, stop, parts, src =>
    if tbi ≠ bi then .ok (parts, stop, (tbi, sel) :: rest, src) else
    match assignBlocksStep resolve nullRow scalarRow rpsE b sel stop src with
    | .error e => .error e
    | .ok (ys, stop', src') => assignBlocksWalk resolve nullRow scalarRow rpsE b bi rest stop' (parts ++ ys) src'

/-- `for block_idx, b in enumerate(self._blocks)`; what follows the inner loop is `tailPart`
    (BlocksAssign.lean: the same three lines end `_assign_from_iloc_by_unit`) -/
def assignBlocksGo (resolve : DT → DT → DT) (nullRow scalarRow : Bool) (rpsE : Except Err (List Nat)) :
    Nat → List (Block α) → List (Nat × BSel) → List (Block α) → Except Err (List (Block α))
  | _, [], _, _ => .ok []
  | bi, b :: bs, targets, src =>
    match assignBlocksWalk resolve nullRow scalarRow rpsE b bi targets 0 [] src with
    | .error e => .error e
    | .ok (parts, stop, remaining, src') =>
      match assignBlocksGo resolve nullRow scalarRow rpsE (bi + 1) bs remaining src' with
      | .error e => .error e
      | .ok out => .ok (parts ++ tailPart b stop ++ out)

/-- `TypeBlocks.from_blocks(self._assign_from_iloc_by_blocks(values, row_key, column_key))`
    (`extract_iloc_assign_by_blocks`).  Without a block the loop body never runs and `from_blocks`
    cannot derive a row count: ErrorInitTypeBlocks.  Value blocks left on the stack are ignored. -/
def assignBlocks (tb : TB α) (rk ck : Key) (values : List (Block α)) (resolve : DT → DT → DT) :
    Except Err (TB α) :=
  if tb.blocks.isEmpty then .error .init else
  match keyToBlockSlices tb ck true with
  | .error e => .error e
  | .ok targets =>
    match assignBlocksGo resolve (rowIsNull rk) (!rk.isMulti) (rk.positions tb.rows) 0 tb.blocks targets values with
    | .error e => .error e
    | .ok bs => fromBlocks bs none

/-! ### specification on the column list -/

/-- the dtypes of the value blocks that hold the value columns `skip .. skip + len - 1`, one entry per
    block, left to right (what `get_block_match` yields for them: a split block keeps its dtype) -/
def pieceDts : List (Block α) → Nat → Nat → List DT
  | [], _, _ => []
  | v :: vs, skip, len =>
    if len = 0 then []
    else if v.width ≤ skip then pieceDts vs (skip - v.width) len
    else v.dt :: pieceDts vs 0 (len - (v.width - skip))

/-- lengths of the maximal runs of addressed cells `(block, column)` that continue inside one block:
    the targets of an ascending column key (`_indices_to_contiguous_pairs`; the null slice and an
    integer key give the same runs) -/
def runLens : List (Nat × Nat) → List Nat
  | [] => []
  | p :: rest =>
    match rest, runLens rest with
    | q :: _, n :: ns => if q = (p.1, p.2 + 1) then (n + 1) :: ns else 1 :: n :: ns
    | _, _ => [1]

/-- per addressed column (in key order) the run it belongs to: (number of addressed columns before
    the run = first value column of the run, length of the run) -/
def runInfo : Nat → List Nat → List (Nat × Nat)
  | _, [] => []
  | k, n :: ns => List.replicate n (k, n) ++ runInfo (k + n) ns

/-- The specification.  `orig`: the `(dtype, column)` list of the target; `cells`: the
    `(block, column in block)` of the addressed columns in key order; `cps`: their positions.
    The column addressed as the `m`-th gets, in the rows `rps`, the cells of the `m`-th value column
    (value columns = the columns of the value blocks, in order).  Its dtype is the value column's with
    a null row key; otherwise ONE dtype per target: for the run of `n` addressed columns that starts at
    the `k`-th, `resolve_dtype_iter` over the dtypes of the value blocks holding value columns
    `k .. k+n-1` (one entry per block, left to right) and then the dtype of the block addressed. -/
def assignBlocksSpec (resolve : DT → DT → DT) (nullRow : Bool) (rps cps : List Nat) (cells : List (Nat × Nat))
    (values : List (Block α)) (orig : List (DT × List α)) : List (DT × List α) :=
  let vcols : List (DT × List α) := values.flatMap (fun v => v.colsOf.map (fun c => (v.dt, c)))
  let runs := runInfo 0 (runLens cells)
  orig.mapIdx fun j x =>
    if j ∈ cps then
      match vcols[cps.idxOf j]? with
      | some vc =>
        (if nullRow then vc.1 else
           match runs[cps.idxOf j]? with
           | some (k, n) => targetDtype resolve (pieceDts values k n) x.1
           | none => x.1,
         writeCol x.2 rps vc.2)
      | none => x
    else x

end TB

end SF
