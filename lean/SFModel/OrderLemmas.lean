/- Helper lemmas for SFModel.Order: stability of `sortOn`, lexicographic order of `lexsort`,
   uniqueness of the stable arrangement, `pick` along a permutation. -/
import SFModel.Order

namespace SF.Order
open List

variable {α β : Type}

/-! ### small list facts -/

theorem pair_sublist_or {l : List β} {a b : β} (ha : a ∈ l) (hb : b ∈ l) (hne : a ≠ b) :
    [a, b] <+ l ∨ [b, a] <+ l := by
  induction l with
  | nil => cases ha
  | cons x t ih =>
    simp only [List.mem_cons] at ha hb
    rcases ha with rfl | ha
    · rcases hb with rfl | hb
      · exact absurd rfl hne
      · left; exact List.Sublist.cons_cons _ (List.singleton_sublist.mpr hb)
    · rcases hb with rfl | hb
      · right; exact List.Sublist.cons_cons _ (List.singleton_sublist.mpr ha)
      · rcases ih ha hb with h | h
        · left; exact h.cons _
        · right; exact h.cons _

theorem not_pair_sublist_both {l : List β} (hn : l.Nodup) {a b : β}
    (h1 : [a, b] <+ l) (h2 : [b, a] <+ l) : False := by
  induction l with
  | nil => cases h1
  | cons x t ih =>
    have hnt : t.Nodup := (List.nodup_cons.mp hn).2
    have hx : x ∉ t := (List.nodup_cons.mp hn).1
    cases h1 with
    | cons _ h1' =>
      cases h2 with
      | cons _ h2' => exact ih hnt h1' h2'
      | cons_cons _ h2' => exact hx (h1'.subset (by simp))
    | cons_cons _ h1' =>
      cases h2 with
      | cons _ h2' => exact hx (h2'.subset (by simp))
      | cons_cons _ h2' => exact hx (h1'.subset (by simp))

/-! ### one stable pass -/

section pass
variable {le : β → β → Bool} {key : Nat → β}

theorem sortOn_perm (le : β → β → Bool) (key : Nat → β) (order : List Nat) :
    (sortOn le key order).Perm order := List.mergeSort_perm _ _

theorem sortOn_sorted (trans : ∀ a b c : β, le a b → le b c → le a c)
    (total : ∀ a b : β, le a b || le b a) (order : List Nat) :
    (sortOn le key order).Pairwise (fun i j => le (key i) (key j) = true) :=
  List.pairwise_mergeSort (le := fun i j => le (key i) (key j))
    (fun _ _ _ => trans _ _ _) (fun _ _ => total _ _) order

/-- Stability in the form used everywhere: after the pass, any two entries are ordered by the key,
    and entries with tied keys are still in the relation `R` that held before the pass. -/
theorem sortOn_stable (trans : ∀ a b c : β, le a b → le b c → le a c)
    (total : ∀ a b : β, le a b || le b a) {R : Nat → Nat → Prop} {order : List Nat}
    (hn : order.Nodup) (hR : order.Pairwise R) :
    (sortOn le key order).Pairwise
      (fun i j => le (key i) (key j) = true ∧ (le (key j) (key i) = true → R i j)) := by
  have hs := sortOn_sorted (key := key) trans total order
  have hperm := sortOn_perm le key order
  have hn' : (sortOn le key order).Nodup := hperm.symm.nodup hn
  rw [List.pairwise_iff_forall_sublist]
  intro a b hab
  refine ⟨List.pairwise_iff_forall_sublist.mp hs hab, ?_⟩
  intro hba
  have ha : a ∈ order := hperm.subset (hab.subset (by simp))
  have hb : b ∈ order := hperm.subset (hab.subset (by simp))
  have hne : a ≠ b := (List.pairwise_iff_forall_sublist.mp (show (sortOn le key order).Pairwise (· ≠ ·) from hn')) hab
  rcases pair_sublist_or ha hb hne with h | h
  · exact List.pairwise_iff_forall_sublist.mp hR h
  · exfalso
    have h' : [b, a] <+ sortOn le key order :=
      List.pair_sublist_mergeSort (le := fun i j => le (key i) (key j))
        (fun _ _ _ => trans _ _ _) (fun _ _ => total _ _) hba h
    exact not_pair_sublist_both hn' hab h'

end pass

/-! ### lexicographic relation of several keys -/

/-- `lexRel le ks R i j`: `i` comes before `j` by the keys `ks` (first = primary), ties in all keys
    resolved by `R`. -/
def lexRel (le : β → β → Bool) : List (Nat → β) → (Nat → Nat → Prop) → Nat → Nat → Prop
  | [], R => R
  | k :: ks, R => fun i j => le (k i) (k j) = true ∧ (le (k j) (k i) = true → lexRel le ks R i j)

theorem lexRel_append (le : β → β → Bool) (ks₁ ks₂ : List (Nat → β)) (R : Nat → Nat → Prop) :
    lexRel le (ks₁ ++ ks₂) R = lexRel le ks₁ (lexRel le ks₂ R) := by
  induction ks₁ with
  | nil => rfl
  | cons k ks ih => simp only [List.cons_append, lexRel, ih]

/-- The relation is antisymmetric-to-the-point-of-contradiction when the final tie-break is. -/
theorem lexRel_asymm (le : β → β → Bool) (ks : List (Nat → β)) {R : Nat → Nat → Prop}
    (hR : ∀ i j, R i j → R j i → False) : ∀ i j, lexRel le ks R i j → lexRel le ks R j i → False := by
  induction ks with
  | nil => exact hR
  | cons k ks ih =>
    intro i j h1 h2
    exact ih i j (h1.2 h2.1) (h2.2 h1.1)

/-- Successive stable passes (first key first) sort lexicographically with the LAST key primary. -/
theorem foldl_sortOn_lex {le : β → β → Bool} (trans : ∀ a b c : β, le a b → le b c → le a c)
    (total : ∀ a b : β, le a b || le b a) (ks : List (Nat → β)) :
    ∀ (order : List Nat) (R : Nat → Nat → Prop), order.Nodup → order.Pairwise R →
      (ks.foldl (fun o k => sortOn le k o) order).Pairwise (lexRel le ks.reverse R) ∧
      (ks.foldl (fun o k => sortOn le k o) order).Perm order := by
  induction ks with
  | nil => intro order R _ hR; exact ⟨hR, List.Perm.refl _⟩
  | cons k ks ih =>
    intro order R hn hR
    simp only [List.foldl_cons, List.reverse_cons]
    have hp := sortOn_perm le k order
    have hn1 : (sortOn le k order).Nodup := hp.symm.nodup hn
    have h1 := sortOn_stable (key := k) trans total hn hR
    obtain ⟨h2, h3⟩ := ih (sortOn le k order) _ hn1 h1
    refine ⟨?_, h3.trans hp⟩
    rw [lexRel_append]
    exact h2

theorem lexsort_eq (le : α → α → Bool) (ks : List (List α)) (n : Nat) :
    lexsort le ks n
      = List.foldl (fun o k => sortOn (optLe le) k o) (List.range n) (ks.map (fun k i => k[i]?)) := by
  unfold lexsort; rw [List.foldl_map]

/-! ### `optLe` is a total preorder when `le` is -/

theorem optLe_trans {le : α → α → Bool} (trans : ∀ a b c : α, le a b → le b c → le a c) :
    ∀ a b c : Option α, optLe le a b → optLe le b c → optLe le a c := by
  intro a b c
  cases a <;> cases b <;> cases c <;> simp [optLe]
  exact trans _ _ _

theorem optLe_total {le : α → α → Bool} (total : ∀ a b : α, le a b || le b a) :
    ∀ a b : Option α, optLe le a b || optLe le b a := by
  intro a b
  cases a <;> cases b <;> simp [optLe]
  simpa using total _ _

/-! ### `pick` along a permutation of all positions -/

theorem filterMap_getElem?_range' {γ : Type} (pre l : List γ) :
    (List.range' pre.length l.length).filterMap (fun x => (pre ++ l)[x]?) = l := by
  induction l generalizing pre with
  | nil => simp
  | cons a t ih =>
    simp only [List.length_cons, List.range'_succ, List.filterMap_cons]
    have h0 : (pre ++ a :: t)[pre.length]? = some a := by simp
    rw [h0]
    congr 1
    have := ih (pre ++ [a])
    simpa [List.append_assoc] using this

theorem pick_range {γ : Type} (l : List γ) : pick l (List.range l.length) = l := by
  have := filterMap_getElem?_range' [] l
  simpa [pick, List.range_eq_range'] using this

theorem pick_perm {γ : Type} (l : List γ) {order : List Nat}
    (h : order.Perm (List.range l.length)) : (pick l order).Perm l := by
  have := List.Perm.filterMap (fun i => l[i]?) h
  have h2 := pick_range l
  unfold pick at h2 ⊢
  rw [h2] at this
  exact this

theorem pick_reverse {γ : Type} (l : List γ) (order : List Nat) :
    pick l order.reverse = (pick l order).reverse := by
  unfold pick; rw [List.filterMap_reverse]

theorem pick_length {γ : Type} (l : List γ) {order : List Nat} (h : ∀ p ∈ order, p < l.length) :
    (pick l order).length = order.length := by
  rw [pick_eq_map l order h]; simp

theorem pick_zip {γ δ : Type} (l : List γ) (m : List δ) (hl : l.length = m.length) (order : List Nat) :
    pick (l.zip m) order = (pick l order).zip (pick m order) := by
  unfold pick
  induction order with
  | nil => simp
  | cons p ps ih =>
    simp only [List.filterMap_cons]
    by_cases hp : p < l.length
    · have hp' : p < m.length := hl ▸ hp
      have hz : p < (l.zip m).length := by simp [List.length_zip]; omega
      simp [List.getElem?_eq_getElem hp, List.getElem?_eq_getElem hp', List.getElem?_eq_getElem hz, ih]
    · have hp' : ¬ p < m.length := hl ▸ hp
      have hz : ¬ p < (l.zip m).length := by simp [List.length_zip]; omega
      simp [List.getElem?_eq_none (Nat.le_of_not_lt hp), List.getElem?_eq_none (Nat.le_of_not_lt hp'),
        List.getElem?_eq_none (Nat.le_of_not_lt hz), ih]

end SF.Order
