/-
  SFModel.BlocksBinop — the operand splitting of `TypeBlocks._ufunc_binary_operator`
  (static_frame/core/type_blocks.py) and of the helpers it calls:

    type_blocks.py   `_reblock_signature`, `block_compatible(other, axis=None)`, `reblock_compatible`,
                     `_concatenate_blocks`, `consolidate_blocks` / `_reblock` (the generator with its state
                     `group_dtype` / `group`), `_blocks_to_array` / `values`, `_block_shape_slices`,
                     `_ufunc_binary_operator` (the decision tree choosing the operand arrays)
    container_util.py `apply_binary_operator` (which cell meets which), `apply_binary_operator_blocks`
                     (with / without `column_2d_filter`, `zip_longest`), `apply_binary_operator_blocks_columnar`
    util.py          `shape_filter`, `column_2d_filter`

  Parameters (NOT modelled: NumPy's element arithmetic and its dtype table):
    `op    : α → α → α`        the element operation,
    `opDT  : DT → DT → DT`     the dtype NumPy gives the result of one array pair,
    `cast  : DT → DT → α → α`  `cast from to x`: the conversion of a cell when `_blocks_to_array` stores a block
                               into the `np.empty(shape, dtype=row_dtype)` array (only on the `.values` route),
    the row dtypes `_row_dtype` of the two TypeBlocks (cached attributes of the real objects, see
    `Caches.rowDtype` in Blocks.lean) are arguments.

  `operator.__name__ in ('matmul', 'rmatmul')` (refused up front by the real method) is outside the model:
  the operator is an element operation here.

  Errors: `NotImplementedError` is a `RuntimeError`, category `Err.shape` (harness `err_cat`);
  `ErrorInitTypeBlocks` (no block reaches `from_blocks`, which gets no `shape_reference`) is `Err.init`.
-/
import SFModel.Blocks

namespace SF

namespace Binop

/-- a NumPy array as `apply_binary_operator` meets it on the `other` side (2-D: column-major) -/
inductive Arr (α : Type) where
  | a0 (v : α)                   -- 0-d
  | a1 (vs : List α)             -- 1-D
  | a2 (cols : List (List α))    -- 2-D
deriving Repr, DecidableEq, Inhabited

/-- the right-hand operand of `_ufunc_binary_operator`: a TypeBlocks (with its `_row_dtype`) or an
    array of dtype `dt` (`iterable_to_array_nd` has already been applied to anything else) -/
inductive Other (α : Type) where
  | tb (o : TB α) (rowDT : DT)
  | arr0 (dt : DT) (v : α)
  | arr1 (dt : DT) (vs : List α)
  | arr2 (dt : DT) (rows : Nat) (cols : List (List α))     -- shape `(rows, cols.length)`
  | arrN (dt : DT) (ndim : Nat)                             -- `ndim ≥ 3`: only its rejection is modelled
deriving Repr, DecidableEq, Inhabited

/-- a real operand: a well-formed TypeBlocks; an `ndarray` is rectangular (every column of a 2-D
    operand has `rows` cells) -/
def Other.WF {α : Type} : Other α → Prop
  | .tb o _ => o.WF
  | .arr2 _ r cs => ∀ c ∈ cs, c.length = r
  | _ => True

def Other.isArray {α : Type} : Other α → Bool
  | .tb _ _ => false
  | _ => true

/-- which branch of the decision tree chose the operands (diagnostic) -/
inductive Path where
  | compatible    -- other is a TypeBlocks, `block_compatible`: the stored blocks pairwise
  | reblock       -- same shape, `reblock_compatible`: both consolidated per dtype run
  | values        -- same shape otherwise: the two `.values` arrays
  | scalar        -- 0-d or one-element 1-D array: the same array for every block
  | rows          -- 1-D array along axis 0, chopped by `_block_shape_slices`
  | columnar      -- 1-D array along axis 1, applied to every column
  | array2d       -- 2-D array of the same shape, chopped by `_block_shape_slices`
deriving Repr, DecidableEq, Inhabited

def Path.toString : Path → String
  | .compatible => "compatible" | .reblock => "reblock" | .values => "values" | .scalar => "scalar"
  | .rows => "rows" | .columnar => "columnar" | .array2d => "array2d"

/-- `util.column_2d_filter` on the `other` side (`reshape((n,)) → (n, 1)`; a 0-d array is returned as is) -/
def Arr.column2d {α : Type} : Arr α → Arr α
  | .a1 vs => .a2 [vs]
  | a => a

/-- Python / NumPy slicing `l[start:stop]` (clipped, never raising) -/
def chop {β : Type} (l : List β) (s : Nat × Nat) : List β := (l.drop s.1).take (s.2 - s.1)

/-- the two operand lists `_ufunc_binary_operator` hands on -/
inductive Plan (α : Type) where
  /-- `apply_binary_operator_blocks(values, other, operator, apply_column_2d_filter)` -/
  | zip (path : Path) (filter : Bool) (selfOps : List (Block α)) (otherOps : List (DT × Arr α))
  /-- `apply_binary_operator_blocks_columnar(values, other, operator)` -/
  | columnar (selfOps : List (Block α)) (odt : DT) (other : List α)
deriving Repr, DecidableEq, Inhabited

def Plan.path {α : Type} : Plan α → Path
  | .zip p _ _ _ => p
  | .columnar _ _ _ => .columnar

end Binop
open Binop

namespace Block
variable {α : Type}

/-- `util.shape_filter(block)` (the row count of a zero-width 2-D block is not modelled: `none`) -/
def shapeFilter (b : Block α) : Option Nat × Nat := (b.rows?, b.width)

/-- `util.column_2d_filter` -/
def column2d : Block α → Block α
  | .d1 t c => .d2 t [c]
  | .d2 t cs => .d2 t cs

/-- a block standing on the `other` side -/
def toOperand : Block α → DT × Arr α
  | .d1 t c => (t, .a1 c)
  | .d2 t cs => (t, .a2 cs)

end Block

namespace TB
variable {α : Type}

/-- `_shape` -/
def shape (tb : TB α) : Nat × Nat := (tb.rows, tb.ncols)

/-! ### `_reblock_signature`, `block_compatible`, `reblock_compatible` -/

/-- the loop of `_reblock_signature` with its state `(group_dtype, group_cols)`; the yielded pairs keep
    `group_dtype` as the `Optional` it is in the code -/
def reblockSignatureGo : List (Block α) → Option DT → Nat → List (Option DT × Nat)
  | [], gd, gc => if gc > 0 then [(gd, gc)] else []
  | b :: rest, none, gc =>                       -- `if group_dtype is None:` first block; `continue`
      reblockSignatureGo rest (some b.dt) (gc + b.width)
  | b :: rest, some g, gc =>
      if b.dt ≠ g then (some g, gc) :: reblockSignatureGo rest (some b.dt) (0 + b.width)
      else reblockSignatureGo rest (some g) (gc + b.width)

def reblockSignature (tb : TB α) : List (Option DT × Nat) := reblockSignatureGo tb.blocks none 0

/-- the `zip_longest` loop of `block_compatible(other, axis=None)` -/
def blockCompatibleGo : List (Block α) → List (Block α) → Bool
  | [], [] => true
  | a :: as, b :: bs => if a.shapeFilter ≠ b.shapeFilter then false else blockCompatibleGo as bs
  | _, _ => false                                -- `if a is None or b is None: return False`

/-- `block_compatible(other, axis=None)` (the only form `_ufunc_binary_operator` uses) -/
def blockCompatible (a b : TB α) : Bool :=
  if a.shape ≠ b.shape then false else blockCompatibleGo a.blocks b.blocks

/-- `not any(a is None or b is None or a[1] != b[1] for a, b in zip_longest(sigA, sigB))` -/
def signaturesCompatible : List (Option DT × Nat) → List (Option DT × Nat) → Bool
  | [], [] => true
  | x :: xs, y :: ys => if x.2 ≠ y.2 then false else signaturesCompatible xs ys
  | _, _ => false

/-- `reblock_compatible(other)` -/
def reblockCompatible (a b : TB α) : Bool :=
  if a.ncols ≠ b.ncols then false else signaturesCompatible a.reblockSignature b.reblockSignature

/-! ### `consolidate_blocks` / `_reblock` -/

/-- `_concatenate_blocks(group, dtype)`: always 2-D (`np.concatenate` of same-dtype arrays keeps the dtype) -/
def concatenateBlocks (group : List (Block α)) (dt : DT) : Block α := .d2 dt (group.flatMap Block.colsOf)

/-- what the generator yields for a finished group: `group[0]` itself ("reference without copy") when it
    holds one block, else the concatenation -/
def yieldGroup (group : List (Block α)) (gd : DT) : Block α :=
  match group with
  | [b] => b
  | _ => concatenateBlocks group gd

/-- the loop of `consolidate_blocks` with its state: `none` = nothing seen yet (`group_dtype is None`,
    `group == []`), `some (group_dtype, group)` afterwards (the group is then never empty) -/
def consolidateGo : List (Block α) → Option (DT × List (Block α)) → List (Block α)
  | [], none => []
  | [], some (g, group) => if group.isEmpty then [] else [yieldGroup group g]
  | b :: rest, none => consolidateGo rest (some (b.dt, [b]))
  | b :: rest, some (g, group) =>
      if b.dt ≠ g then yieldGroup group g :: consolidateGo rest (some (b.dt, [b]))
      else consolidateGo rest (some (g, group ++ [b]))

/-- `consolidate_blocks(raw_blocks)` -/
def consolidateBlocks (bs : List (Block α)) : List (Block α) := consolidateGo bs none

/-- `_reblock()` -/
def reblock (tb : TB α) : List (Block α) := consolidateBlocks tb.blocks

/-! ### `_blocks_to_array(row_multiple=True)` / `values` -/

/-- One stored block: `column_2d_filter(blocks[0])`, its own dtype, no conversion.  Otherwise
    `np.empty(shape, dtype=row_dtype)` filled left to right (`array[:, pos:end] = block`), every cell
    converted from the block's dtype to the row dtype; the running `pos` is the number of columns
    filled so far, so the fill is the concatenation of the converted columns. -/
def blocksToArray (cast : DT → DT → α → α) (blocks : List (Block α)) (rowDT : DT) : Block α :=
  match blocks with
  | [b] => b.column2d
  | bs => .d2 rowDT (bs.flatMap fun b => b.colsOf.map (·.map (cast b.dt rowDT)))

/-- `values` (always 2-D) -/
def values (cast : DT → DT → α → α) (tb : TB α) (rowDT : DT) : Block α :=
  blocksToArray cast tb.blocks rowDT

/-! ### `_block_shape_slices` -/

/-- `(start, end)` per block, `start` threaded through -/
def blockShapeSlicesGo : List (Block α) → Nat → List (Nat × Nat)
  | [], _ => []
  | b :: rest, start => (start, start + b.width) :: blockShapeSlicesGo rest (start + b.width)

def blockShapeSlices (tb : TB α) : List (Nat × Nat) := blockShapeSlicesGo tb.blocks 0

/-! ### `apply_binary_operator`, `apply_binary_operator_blocks(_columnar)` -/

section apply
variable (op : α → α → α) (opDT : DT → DT → DT)

/-- `apply_binary_operator(values=a, other=o, other_is_array=True, operator)`: `operator(values, other)`
    for the shape pairs `_ufunc_binary_operator` produces (equal shapes, a 0-d / one-element operand,
    a 2-D block against a 1-D array of its width); every other pair is `.error .value` here — NumPy
    might still broadcast some of them, none is reachable from a well-formed TypeBlocks
    (`Props/C03Binop.lean`: the error branches are never taken). -/
def applyOp (a : Block α) (o : DT × Arr α) : Except Err (Block α) :=
  let t := opDT a.dt o.1
  match a, o.2 with
  | .d1 _ c, .a0 v => .ok (.d1 t (c.map (op · v)))
  | .d1 _ c, .a1 vs =>
      match vs with
      | [v] => .ok (.d1 t (c.map (op · v)))                         -- `(r,)` with `(1,)`
      | _ => if vs.length = c.length then .ok (.d1 t (List.zipWith op c vs)) else .error .value
  | .d1 _ _, .a2 _ => .error .value
  | .d2 _ cs, .a0 v => .ok (.d2 t (cs.map (·.map (op · v))))
  | .d2 _ cs, .a1 vs =>
      match vs with
      | [v] => .ok (.d2 t (cs.map (·.map (op · v))))                -- `(r, w)` with `(1,)`
      | _ =>
        if vs.length = cs.length then                               -- `(r, w)` with `(w,)`: element j meets column j
          .ok (.d2 t (List.zipWith (fun col v => col.map (op · v)) cs vs))
        else .error .value
  | .d2 _ cs, .a2 cs' =>
      if cs.length = cs'.length ∧ ∀ p ∈ cs.zip cs', p.1.length = p.2.length then
        .ok (.d2 t (List.zipWith (List.zipWith op) cs cs'))
      else .error .value

/-- the `zip_longest(values, other)` loop: were one side exhausted first the real code would hand
    `None` to `apply_binary_operator` (AttributeError, `.other`) -/
def applyBlocksGo : List (Block α) → List (DT × Arr α) → Except Err (List (Block α))
  | [], [] => .ok []
  | a :: as, o :: os =>
      match applyOp op opDT a o with
      | .error e => .error e
      | .ok r =>
        match applyBlocksGo as os with
        | .error e => .error e
        | .ok rs => .ok (r :: rs)
  | _, _ => .error .other

/-- `apply_binary_operator_blocks(values, other, operator, apply_column_2d_filter)` -/
def applyBlocks (values : List (Block α)) (others : List (DT × Arr α)) (filter : Bool) :
    Except Err (List (Block α)) :=
  if filter then
    applyBlocksGo op opDT (values.map Block.column2d) (others.map fun o => (o.1, o.2.column2d))
  else applyBlocksGo op opDT values others

/-- the 1-D arrays `apply_binary_operator_blocks_columnar` works through: a 1-D block itself,
    `block[NULL_SLICE, i]` for every column of a 2-D block -/
def columnarUnits : List (Block α) → List (Block α)
  | [] => []
  | .d1 t c :: rest => .d1 t c :: columnarUnits rest
  | .d2 t cs :: rest => cs.map (Block.d1 t) ++ columnarUnits rest

def applyEach (other : DT × Arr α) : List (Block α) → Except Err (List (Block α))
  | [] => .ok []
  | u :: us =>
      match applyOp op opDT u other with
      | .error e => .error e
      | .ok r =>
        match applyEach other us with
        | .error e => .error e
        | .ok rs => .ok (r :: rs)

/-- `apply_binary_operator_blocks_columnar(values, other, operator)` -/
def applyColumnar (values : List (Block α)) (odt : DT) (other : List α) : Except Err (List (Block α)) :=
  applyEach op opDT (odt, .a1 other) (columnarUnits values)

/-- the second half of `_ufunc_binary_operator`: `self.from_blocks(apply_…(…))`, no `shape_reference` -/
def runPlan : Plan α → Except Err (TB α)
  | .zip _ filter vs os =>
      match applyBlocks op opDT vs os filter with
      | .error e => .error e
      | .ok bs => TB.fromBlocks bs none
  | .columnar vs odt other =>
      match applyColumnar op opDT vs odt other with
      | .error e => .error e
      | .ok bs => TB.fromBlocks bs none

end apply

/-! ### the decision tree of `_ufunc_binary_operator` -/

/-- the first half of `_ufunc_binary_operator(operator, other, axis)`: which arrays meet -/
def plan (cast : DT → DT → α → α) (self : TB α) (rdSelf : DT) (other : Other α) (axis : Int) :
    Except Err (Plan α) :=
  match other with
  | .tb o rdO =>
      if self.blockCompatible o then
        .ok (.zip .compatible true self.blocks (o.blocks.map Block.toOperand))
      else if self.shape = o.shape then
        if ¬ self.reblockCompatible o then
          .ok (.zip .values true [self.values cast rdSelf] [(o.values cast rdO).toOperand])
        else
          .ok (.zip .reblock true self.reblock (o.reblock.map Block.toOperand))
      else .error .shape                           -- NotImplementedError
  | .arr0 dt v =>
      .ok (.zip .scalar false self.blocks (List.replicate self.blocks.length (dt, .a0 v)))
  | .arr1 dt vs =>
      if vs.length = 1 then                        -- `other.ndim == 1 and len(other) == 1`
        .ok (.zip .scalar false self.blocks (List.replicate self.blocks.length (dt, .a1 vs)))
      else if axis = 0 ∧ vs.length = self.ncols then
        .ok (.zip .rows false self.blocks (self.blockShapeSlices.map fun s => (dt, .a1 (chop vs s))))
      else if axis = 1 ∧ vs.length = self.rows then
        .ok (.columnar self.blocks dt vs)
      else .error .shape                           -- NotImplementedError
  | .arr2 dt r cs =>
      if (r, cs.length) = self.shape then
        .ok (.zip .array2d true self.blocks (self.blockShapeSlices.map fun s => (dt, .a2 (chop cs s))))
      else .error .shape                           -- NotImplementedError
  | .arrN _ _ => .error .shape                     -- NotImplementedError

/-- `TypeBlocks._ufunc_binary_operator(operator, other, axis)` -/
def binop (op : α → α → α) (opDT : DT → DT → DT) (cast : DT → DT → α → α)
    (self : TB α) (rdSelf : DT) (other : Other α) (axis : Int) : Except Err (TB α) :=
  match plan cast self rdSelf other axis with
  | .error e => .error e
  | .ok p => runPlan op opDT p

/-- the branch taken (diagnostic for the correspondence) -/
def binopPath (cast : DT → DT → α → α) (self : TB α) (rdSelf : DT) (other : Other α) (axis : Int) :
    Except Err Path :=
  match plan cast self rdSelf other axis with
  | .error e => .error e
  | .ok p => .ok p.path

/-! ### layout-free specification -/

/-- TypeBlocks operand, cells: the two column lists cell by cell -/
def specTB (op : α → α → α) (ra : Nat) (ca : List (List α)) (rb : Nat) (cb : List (List α)) :
    Except Err (List (List α)) :=
  if (ra, ca.length) ≠ (rb, cb.length) then .error .shape
  else if ca.isEmpty then .error .init
  else .ok (List.zipWith (List.zipWith op) ca cb)

/-- array operand, cells and per-column dtypes, from the columns / dtypes / row count alone -/
def specArr (op : α → α → α) (opDT : DT → DT → DT) (rows : Nat) (cols : List (List α)) (dts : List DT)
    (other : Other α) (axis : Int) : Except Err (List (List α) × List DT) :=
  let fin (cs : List (List α)) (odt : DT) : Except Err (List (List α) × List DT) :=
    if cols.isEmpty then .error .init else .ok (cs, dts.map (opDT · odt))
  match other with
  | .tb _ _ => .error .other                       -- not an array operand
  | .arr0 dt v => fin (cols.map (·.map (op · v))) dt
  | .arr1 dt vs =>
      match vs with
      | [v] => fin (cols.map (·.map (op · v))) dt                                -- the scalar
      | _ =>
        if axis = 0 ∧ vs.length = cols.length then
          fin (List.zipWith (fun col v => col.map (op · v)) cols vs) dt          -- column j with element j
        else if axis = 1 ∧ vs.length = rows then
          fin (cols.map (fun col => List.zipWith op col vs)) dt                  -- every column with the vector
        else .error .shape
  | .arr2 dt r cs =>
      if (r, cs.length) = (rows, cols.length) then
        fin (List.zipWith (List.zipWith op) cols cs) dt                          -- column j with column j
      else .error .shape
  | .arrN _ _ => .error .shape

end TB
end SF
