/- Helper lemmas for SFModel.Concat, part 6: overlay (Series.fillna chain, fillna_by_values chain). -/
import SFModel.ConcatLemmas5

namespace SF
namespace Concat
open SF.SetOps

section
variable {α β : Type} [DecidableEq α]

/-! ### the per-cell reading of an overlay -/

/-- what the `Series` overlay does to one cell: a missing value is replaced by the next container's
    value when that container has the label -/
def overlayCell (isna : β → Bool) : β → List (Option β) → β
  | cur, [] => cur
  | cur, o :: os => overlayCell isna (if isna cur then o.getD cur else cur) os

/-- what the `Frame` overlay does to one cell: a container without the cell contributes `na` -/
def overlayCellF (isna : β → Bool) (na : β) : β → List (Option β) → β
  | cur, [] => cur
  | cur, o :: os => overlayCellF isna na (if isna cur then o.getD na else cur) os

omit [DecidableEq α] in
theorem overlayCell_of_not_na (isna : β → Bool) (cur : β) (os : List (Option β)) (h : isna cur = false) :
    overlayCell isna cur os = cur := by
  induction os with
  | nil => rfl
  | cons o os ih => simp only [overlayCell, h, Bool.false_eq_true, if_false]; exact ih

theorem overlayCellF_of_not_na (isna : β → Bool) (na cur : β) (os : List (Option β)) (h : isna cur = false) :
    overlayCellF isna na cur os = cur := by
  induction os with
  | nil => rfl
  | cons o os ih => simp only [overlayCellF, h, Bool.false_eq_true, if_false]; exact ih

/-- the first non-missing value among the values present, in input order -/
theorem overlayCell_find (isna : β → Bool) (cur : β) (os : List (Option β)) (v : β)
    (h : (cur :: os.filterMap id).find? (fun x => !isna x) = some v) : overlayCell isna cur os = v := by
  induction os generalizing cur with
  | nil =>
    simp only [List.filterMap_nil, List.find?_cons, List.find?_nil] at h
    cases hc : isna cur with
    | true => simp [hc] at h
    | false => simp [hc] at h; exact h.symm ▸ rfl
  | cons o os ih =>
    cases hc : isna cur with
    | false =>
      simp only [List.find?_cons, hc, Bool.not_false] at h
      have hv : cur = v := Option.some.inj h
      rw [← hv]
      exact overlayCell_of_not_na isna cur _ hc
    | true =>
      simp only [List.find?_cons, hc, Bool.not_true] at h
      simp only [overlayCell, hc, if_true]
      cases o with
      | none =>
        simp only [Option.getD_none]
        apply ih
        simp only [List.filterMap_cons, id] at h
        simp only [List.find?_cons, hc, Bool.not_true]
        exact h
      | some w =>
        simp only [Option.getD_some]
        apply ih
        simpa [List.filterMap_cons] using h

/-- when every present value is missing the result is missing -/
theorem overlayCell_all_na (isna : β → Bool) (cur : β) (os : List (Option β))
    (h : ∀ x ∈ cur :: os.filterMap id, isna x = true) : isna (overlayCell isna cur os) = true := by
  induction os generalizing cur with
  | nil => exact h cur (by simp)
  | cons o os ih =>
    have hc : isna cur = true := h cur (by simp)
    simp only [overlayCell, hc, if_true]
    cases o with
    | none =>
      apply ih
      intro x hx
      apply h
      simpa [List.filterMap_cons] using hx
    | some w =>
      apply ih
      intro x hx
      apply h
      simp only [List.filterMap_cons, id, List.mem_cons] at hx ⊢
      rcases hx with rfl | hx
      · exact Or.inr (Or.inl rfl)
      · exact Or.inr (Or.inr hx)

theorem overlayCellF_find (isna : β → Bool) (na : β) (hna : isna na = true) (cur : β) (os : List (Option β))
    (v : β) (h : (cur :: os.filterMap id).find? (fun x => !isna x) = some v) :
    overlayCellF isna na cur os = v := by
  induction os generalizing cur with
  | nil =>
    simp only [List.filterMap_nil, List.find?_cons, List.find?_nil] at h
    cases hc : isna cur with
    | true => simp [hc] at h
    | false => simp [hc] at h; exact h.symm ▸ rfl
  | cons o os ih =>
    cases hc : isna cur with
    | false =>
      simp only [List.find?_cons, hc, Bool.not_false] at h
      have hv : cur = v := Option.some.inj h
      rw [← hv]
      exact overlayCellF_of_not_na isna na cur _ hc
    | true =>
      simp only [List.find?_cons, hc, Bool.not_true] at h
      simp only [overlayCellF, hc, if_true]
      cases o with
      | none =>
        simp only [Option.getD_none]
        apply ih
        simp only [List.filterMap_cons, id] at h
        simp only [List.find?_cons, hna, Bool.not_true]
        exact h
      | some w =>
        simp only [Option.getD_some]
        apply ih
        simpa [List.filterMap_cons] using h

theorem overlayCellF_all_na (isna : β → Bool) (na : β) (hna : isna na = true) (cur : β) (os : List (Option β))
    (h : ∀ x ∈ cur :: os.filterMap id, isna x = true) : isna (overlayCellF isna na cur os) = true := by
  induction os generalizing cur with
  | nil => exact h cur (by simp)
  | cons o os ih =>
    have hc : isna cur = true := h cur (by simp)
    simp only [overlayCellF, hc, if_true]
    cases o with
    | none =>
      apply ih
      intro x hx
      simp only [Option.getD_none, List.mem_cons] at hx
      rcases hx with rfl | hx
      · exact hna
      · apply h
        simp only [List.filterMap_cons, id, List.mem_cons]
        exact Or.inr hx
    | some w =>
      apply ih
      intro x hx
      apply h
      simp only [List.filterMap_cons, id, List.mem_cons, Option.getD_some] at hx ⊢
      rcases hx with rfl | hx
      · exact Or.inr (Or.inl rfl)
      · exact Or.inr (Or.inr hx)

/-! ### Series.fillna(Series) -/

theorem mem_naLabels (isna : β → Bool) (ls : List α) (vs : List β) (hl : vs.length = ls.length) (hn : ls.Nodup)
    (l : α) :
    l ∈ (ls.zip (vs.map isna)).filterMap (fun (p : α × Bool) => if p.2 then some p.1 else none) ↔
      ∃ p, lookup ls vs l = some p ∧ isna p = true := by
  induction ls generalizing vs with
  | nil => simp [lookup_of_not_mem]
  | cons a as ih =>
    cases vs with
    | nil => simp at hl
    | cons v vs =>
      have hn' := List.nodup_cons.mp hn
      simp only [List.map_cons, List.zip_cons_cons, List.filterMap_cons, lookup_cons]
      by_cases hal : a = l
      · subst hal
        simp only [if_true, Option.some.injEq, exists_eq_left']
        cases hv : isna v with
        | true => simp
        | false =>
          simp only [Bool.false_eq_true, if_false, iff_false]
          intro hmem
          have := (ih vs (by simpa using hl) hn'.2).mp hmem
          obtain ⟨p, hp, _⟩ := this
          rw [lookup_of_not_mem hn'.1] at hp
          cases hp
      · simp only [if_neg hal]
        cases hv : isna v with
        | true =>
          simp only [if_true, List.mem_cons]
          rw [ih vs (by simpa using hl) hn'.2]
          constructor
          · rintro (h | h)
            · exact absurd h.symm hal
            · exact h
          · intro h; exact Or.inr h
        | false =>
          simp only [Bool.false_eq_true, if_false]
          exact ih vs (by simpa using hl) hn'.2

theorem nodup_naLabels (isna : β → Bool) (ls : List α) (vs : List β) (hn : ls.Nodup) :
    ((ls.zip (vs.map isna)).filterMap (fun (p : α × Bool) => if p.2 then some p.1 else none)).Nodup := by
  have hsub : ∀ (ls : List α) (bs : List Bool),
      ((ls.zip bs).filterMap (fun (p : α × Bool) => if p.2 then some p.1 else none)).Sublist ls := by
    intro ls
    induction ls with
    | nil => intro bs; simp
    | cons a as ih =>
      intro bs
      cases bs with
      | nil => simp
      | cons b bs =>
        simp only [List.zip_cons_cons, List.filterMap_cons]
        cases b with
        | true => simp only [if_true]; exact (ih bs).cons_cons a
        | false => simp only [Bool.false_eq_true, if_false]; exact (ih bs).cons a
  exact (hsub ls _).nodup hn

theorem lookup_zipWith_labels {γ : Type} (ls : List α) (vs : List β) (F : α → β → γ) (l : α) (hl : l ∈ ls) :
    lookup ls (List.zipWith F ls vs) l = (lookup ls vs l).map (F l) := by
  rw [lookup_of_mem hl, lookup_of_mem hl, List.getElem?_zipWith]
  have hi : ls.idxOf l < ls.length := List.idxOf_lt_length_iff.mpr hl
  rw [List.getElem?_eq_getElem hi, List.getElem_idxOf hi]
  cases vs[ls.idxOf l]? <;> rfl

/-- `Series.fillna(other)`: same labels; a missing cell takes the other Series' value when it has the label. -/
theorem seriesFillna_spec {o : PyOrd α} (ho : o.Lawful) (isna : β → Bool) (post other : Series α β)
    (hp : post.WF) :
    (seriesFillna o isna post other).index = post.index ∧ (seriesFillna o isna post other).WF ∧
      ∀ l ∈ post.index.labels, ∀ p, post.get? l = some p →
        (seriesFillna o isna post other).get? l = some (if isna p then (other.get? l).getD p else p) := by
  unfold seriesFillna
  simp only []
  -- facts about the cells
  have hmemval : ∀ l ∈ post.index.labels, ∀ p, post.get? l = some p → p ∈ post.values := by
    intro l hl p hp'
    unfold Series.get? at hp'
    rw [lookup_of_mem hl] at hp'
    exact List.mem_of_getElem? hp'
  split
  · -- nothing is missing
    rename_i hnone
    refine ⟨rfl, hp, ?_⟩
    intro l hl p hp'
    have : isna p = false := by
      simp only [Bool.not_eq_true', List.any_eq_false, List.mem_map, id] at hnone
      cases h : isna p with
      | false => rfl
      | true => exact absurd h (by simpa using hnone true ⟨p, hmemval l hl p hp', h⟩)
    simp [this, hp']
  · -- membership of the common labels
    have hcm := setCore_spec ho .inter
      (((post.index.kind == .str) != (other.index.kind == .str)) ||
        decide (resolveKind post.index.kind other.index.kind = .obj)) (b := other.index.labels) (au := false)
      (nodup_naLabels isna post.index.labels post.values hp.1) (fun h => by cases h)
    rw [← ufuncSet1d_eq_core] at hcm
    generalize hcdef : ufuncSet1d o .inter post.index.kind other.index.kind
      ((post.index.labels.zip (post.values.map isna)).filterMap
        (fun (p : α × Bool) => if p.2 then some p.1 else none)) other.index.labels false = common at hcm
    have hcommon : ∀ l, l ∈ common ↔ (∃ p, post.get? l = some p ∧ isna p = true) ∧ l ∈ other.index.labels := by
      intro l
      rw [hcm.1 l]
      simp only [SetOp.holds]
      rw [mem_naLabels isna post.index.labels post.values hp.2 hp.1 l]
      rfl
    split
    · -- no missing cell has a label of the other Series
      rename_i hnocommon
      refine ⟨rfl, hp, ?_⟩
      intro l hl p hp'
      rw [hp']
      cases hna : isna p with
      | false => simp
      | true =>
        simp only [if_true]
        have hlo : l ∉ other.index.labels := by
          intro hlo
          have : l ∈ common := (hcommon l).mpr ⟨⟨p, hp', hna⟩, hlo⟩
          simp only [Bool.not_eq_true', List.any_eq_false, decide_eq_true_eq] at hnocommon
          exact hnocommon l hl this
        rw [Series.get?_none hlo]
        rfl
    · refine ⟨rfl, ⟨hp.1, by simp [hp.2]⟩, ?_⟩
      intro l hl p hp'
      unfold Series.get? at hp' ⊢
      simp only []
      rw [lookup_zipWith_labels _ _ _ l hl, hp']
      simp only [Option.map_some, Option.some.injEq]
      by_cases hlc : l ∈ common
      · obtain ⟨⟨p', hp'', hna⟩, _⟩ := (hcommon l).mp hlc
        unfold Series.get? at hp''
        rw [hp'] at hp''
        cases hp''
        simp only [if_pos hlc, hna, if_true]
      · rw [if_neg hlc]
        cases hna : isna p with
        | false => simp
        | true =>
          simp only [if_true]
          have hlo : l ∉ other.index.labels := fun hlo =>
            hlc ((hcommon l).mpr ⟨⟨p, hp', hna⟩, hlo⟩)
          have : lookup other.index.labels other.values l = none := lookup_of_not_mem hlo
          simp [Series.get?, this]

/-- the loop of `Series.from_overlay`, early exit included -/
theorem seriesOverlayLoop_spec {o : PyOrd α} (ho : o.Lawful) (isna : β → Bool) (post : Series α β)
    (rest : List (Series α β)) (hp : post.WF) :
    (seriesOverlayLoop o isna post rest).index = post.index ∧ (seriesOverlayLoop o isna post rest).WF ∧
      ∀ l ∈ post.index.labels, ∀ p, post.get? l = some p →
        (seriesOverlayLoop o isna post rest).get? l = some (overlayCell isna p (rest.map (·.get? l))) := by
  induction rest generalizing post with
  | nil => exact ⟨rfl, hp, fun l _ p hp' => by simpa [seriesOverlayLoop, overlayCell] using hp'⟩
  | cons c cs ih =>
    obtain ⟨hfi, hfw, hfg⟩ := seriesFillna_spec ho isna post c hp
    unfold seriesOverlayLoop
    simp only []
    split
    · -- early exit: nothing is missing any more
      rename_i hdone
      refine ⟨hfi, hfw, ?_⟩
      intro l hl p hp'
      rw [hfg l hl p hp']
      simp only [List.map_cons, overlayCell]
      congr 1
      symm
      apply overlayCell_of_not_na
      have hmem : (if isna p = true then (c.get? l).getD p else p) ∈ (seriesFillna o isna post c).values := by
        have := hfg l hl p hp'
        unfold Series.get? at this
        rw [lookup_of_mem (hfi ▸ hl)] at this
        exact List.mem_of_getElem? this
      simp only [Bool.not_eq_true', List.any_eq_false] at hdone
      cases h : isna (if isna p = true then (c.get? l).getD p else p) with
      | false => rfl
      | true => exact absurd h (by simpa using hdone _ hmem)
    · obtain ⟨hi', hw', hg'⟩ := ih (seriesFillna o isna post c) hfw
      refine ⟨hi'.trans hfi, hw', ?_⟩
      intro l hl p hp'
      rw [hg' l (hfi ▸ hl) _ (hfg l hl p hp')]
      rfl

end

end Concat
end SF
