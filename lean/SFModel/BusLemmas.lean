/- Helper lemmas for SFModel.Bus (property theorems are in Props/C17.lean). -/
import SFModel.Bus
import SFModel.Props.C04

set_option linter.unusedSimpArgs false

namespace SF.Bus
open SF

/-! ### lists -/

theorem count_set_true {l : List Bool} {i : Nat} (h : l[i]? = some false) :
    (l.set i true).count true = l.count true + 1 := by
  obtain ⟨hi, hv⟩ := List.getElem?_eq_some_iff.mp h
  rw [List.count_set hi]
  simp [hv]

theorem count_set_false {l : List Bool} {i : Nat} (h : l[i]? = some true) :
    (l.set i false).count true + 1 = l.count true := by
  obtain ⟨hi, hv⟩ := List.getElem?_eq_some_iff.mp h
  rw [List.count_set hi]
  have hpos : 0 < l.count true := by
    apply List.count_pos_iff.mpr
    rw [← hv]; exact List.getElem_mem hi
  simp [hv]
  omega

theorem locToIloc_ok {labels : List Nat} {l : Nat} (h : l ∈ labels) :
    ∃ i, locToIloc labels l = .ok i ∧ labels[i]? = some l := by
  unfold locToIloc
  cases hi : labels.idxOf? l with
  | none => simp at hi; exact absurd h hi
  | some i =>
    refine ⟨i, rfl, ?_⟩
    obtain ⟨hlt, hv, _⟩ := List.idxOf?_eq_some_iff.mp hi
    simp [List.getElem?_eq_getElem hlt, hv]

theorem locToIloc_eq {labels : List Nat} {l i : Nat} (h : locToIloc labels l = .ok i) :
    labels[i]? = some l := by
  unfold locToIloc at h
  cases hi : labels.idxOf? l with
  | none => simp [hi] at h
  | some j =>
    simp [hi] at h; subst h
    obtain ⟨hlt, hv, _⟩ := List.idxOf?_eq_some_iff.mp hi
    simp [List.getElem?_eq_getElem hlt, hv]

theorem nodup_idx_unique {labels : List Nat} (hn : labels.Nodup) {i j l : Nat}
    (hi : labels[i]? = some l) (hj : labels[j]? = some l) : i = j := by
  obtain ⟨hlt, _⟩ := List.getElem?_eq_some_iff.mp hi
  exact (List.getElem?_inj hlt hn).mp (hi.trans hj.symm)

/-! ### touch -/

theorem mem_touch {lru : List Nat} (hn : lru.Nodup) {l x : Nat} : x ∈ touch lru l ↔ x ∈ lru ∨ x = l := by
  unfold touch
  simp only [List.mem_append, List.mem_singleton]
  by_cases hx : x = l
  · simp [hx]
  · rw [hn.mem_erase_iff]; simp [hx]

theorem nodup_touch {lru : List Nat} (hn : lru.Nodup) (l : Nat) : (touch lru l).Nodup := by
  unfold touch
  rw [List.nodup_append]
  refine ⟨hn.erase l, by simp, ?_⟩
  intro a ha b hb
  simp only [List.mem_singleton] at hb
  subst hb
  intro hab; subst hab
  exact (hn.mem_erase_iff.mp ha).1 rfl

theorem length_touch_mem {lru : List Nat} {l : Nat} (h : l ∈ lru) : (touch lru l).length = lru.length := by
  unfold touch
  have : 0 < lru.length := List.length_pos_of_mem h
  simp [List.length_erase_of_mem h]; omega

theorem length_touch_not_mem {lru : List Nat} {l : Nat} (h : l ∉ lru) : (touch lru l).length = lru.length + 1 := by
  unfold touch
  simp [List.erase_of_not_mem h]

theorem touch_ne_nil (lru : List Nat) (l : Nat) : touch lru l ≠ [] := by
  unfold touch; simp

/-! ### store -/

theorem StoreSt.event_seen (s : StoreSt) (e : FileEvent) : (s.event e).seen = s.seen := by
  cases e <;> simp [StoreSt.event] <;> (try split) <;> rfl

theorem StoreSt.events_seen (s : StoreSt) (evs : List FileEvent) : (s.events evs).seen = s.seen := by
  unfold StoreSt.events
  induction evs generalizing s with
  | nil => rfl
  | cons e es ih => simp only [List.foldl_cons]; rw [ih, StoreSt.event_seen]

theorem StoreSt.coherent_iff (s : StoreSt) : s.mtimeCoherent = .ok () ↔ s.file = s.seen := by
  unfold StoreSt.mtimeCoherent
  cases hf : s.file with
  | none => cases hs : s.seen <;> simp
  | some t =>
    by_cases h : s.seen = some t
    · simp [h]
    · simp [h]; intro h'; exact h h'.symm

theorem StoreSt.incoherent_iff (s : StoreSt) : s.mtimeCoherent = .error .storeMutation ↔ s.file ≠ s.seen := by
  unfold StoreSt.mtimeCoherent
  cases hf : s.file with
  | none => cases hs : s.seen <;> simp
  | some t =>
    by_cases h : s.seen = some t
    · simp [h]
    · simp [h]; intro h'; exact h h'.symm

theorem StoreSt.read_ok {β} (s : StoreSt) (d : β) {t : Nat} (hf : s.file = some t) (hs : s.seen = some t) :
    s.read d = .ok d := by
  unfold StoreSt.read StoreSt.coherentNonWrite
  have : s.mtimeCoherent = .ok () := (StoreSt.coherent_iff s).mpr (by rw [hf, hs])
  simp [this, StoreSt.rawRead, hf]

theorem StoreSt.read_cases {β} (s : StoreSt) (d : β) :
    s.read d = .ok d ∨ s.read d = .error .storeMutation ∨ s.read d = .error .other := by
  unfold StoreSt.read StoreSt.coherentNonWrite StoreSt.rawRead
  by_cases hc : s.file = s.seen
  · have := (StoreSt.coherent_iff s).mpr hc
    rw [this]
    cases hf : s.file <;> simp
  · have := (StoreSt.incoherent_iff s).mpr hc
    rw [this]; simp

theorem StoreSt.read_ok_eq {β} {s : StoreSt} {d d' : β} (h : s.read d = .ok d') : d' = d := by
  rcases StoreSt.read_cases s d with h' | h' | h' <;> rw [h'] at h <;> cases h
  rfl

end SF.Bus

namespace SF.Bus
open SF
variable {φ : Type}

/-! ### loop invariants -/

/-- array side of the loop invariant -/
structure ArrInv (P : Nat → φ → Prop) (labels : List Nat) (ls : Loop φ) : Prop where
  lenA : ls.array.length = labels.length
  flags : ls.loaded = ls.array.map Option.isSome
  content : ∀ (i l : Nat) (f : φ), labels[i]? = some l → ls.array[i]? = some (some f) → P l f

/-- LRU side of the loop invariant (max_persist active) -/
structure LruInv (labels : List Nat) (ls : Loop φ) : Prop where
  nodup : ls.lru.Nodup
  sub : ∀ l ∈ ls.lru, l ∈ labels
  mem : ∀ (i l : Nat), labels[i]? = some l → (ls.loaded[i]? = some true ↔ l ∈ ls.lru)
  cnt : ls.count = ls.loaded.count true
  len : ls.lru.length = ls.count

theorem ArrInv.mark {P : Nat → φ → Prop} {labels : List Nat} {ls : Loop φ} (h : ArrInv P labels ls)
    {idx l : Nat} {frame : φ} {b : Bool} (mp : Option Nat)
    (hl : labels[idx]? = some l) (hP : P l frame) :
    ArrInv P labels (ls.mark mp idx frame b) := by
  unfold Loop.mark
  cases b with
  | true => simpa using h
  | false =>
    simp only [Bool.false_eq_true, if_false]
    refine ⟨by simp [h.lenA], by simp [h.flags, List.map_set], ?_⟩
    intro i l' f hi hf
    simp only [List.getElem?_set] at hf
    split at hf
    · rename_i hidx
      subst hidx
      split at hf
      · simp only [Option.some.injEq] at hf
        subst hf
        rw [hl] at hi; cases hi; exact hP
      · cases hf
    · exact h.content i l' f hi hf

theorem ArrInv.evict {P : Nat → φ → Prop} {labels : List Nat} {ls ls' : Loop φ} (h : ArrInv P labels ls)
    (he : ls.evict labels = .ok ls') : ArrInv P labels ls' := by
  unfold Loop.evict at he
  split at he
  · cases he
  · split at he
    · cases he
    · simp only [Except.ok.injEq] at he
      subst he
      refine ⟨by simp [h.lenA], by simp [h.flags, List.map_set], ?_⟩
      intro i l' f hi hf
      simp only [List.getElem?_set] at hf
      split at hf
      · split at hf <;> cases hf
      · exact h.content i l' f hi hf

theorem fetch_ok {st : StoreSt} {ls ls' : Loop φ} {fr : Option φ} {f : φ}
    (h : ls.fetch st fr = .ok (f, ls')) :
    ls'.array = ls.array ∧ ls'.loaded = ls.loaded ∧ ls'.lru = ls.lru ∧ ls'.count = ls.count ∧
    ((fr = some f ∧ ls'.reader = ls.reader) ∨ (fr = none ∧ ls.reader = f :: ls'.reader)) := by
  unfold Loop.fetch at h
  split at h
  · simp only [Except.ok.injEq, Prod.mk.injEq] at h
    obtain ⟨rfl, rfl⟩ := h
    exact ⟨rfl, rfl, rfl, rfl, .inl ⟨rfl, rfl⟩⟩
  · split at h
    · cases h
    · rename_i f0 r hr
      split at h
      · cases h
      · rename_i f1 hread
        simp only [Except.ok.injEq, Prod.mk.injEq] at h
        obtain ⟨rfl, rfl⟩ := h
        have := StoreSt.read_ok_eq hread
        subst this
        exact ⟨rfl, rfl, rfl, rfl, .inr ⟨rfl, hr⟩⟩

theorem fetch_error {st : StoreSt} {ls ls' : Loop φ} {fr : Option φ} {e : Err}
    (h : ls.fetch st fr = .error (e, ls')) :
    ls' = ls ∧ fr = none ∧ (ls.reader = [] ∨ ∃ f : φ, st.read f = .error e) := by
  unfold Loop.fetch at h
  split at h
  · cases h
  · split at h
    · simp only [Except.error.injEq, Prod.mk.injEq] at h
      exact ⟨h.2.symm, rfl, .inl (by assumption)⟩
    · rename_i f0 r hr
      split at h
      · rename_i e' hread
        simp only [Except.error.injEq, Prod.mk.injEq] at h
        obtain ⟨rfl, rfl⟩ := h
        exact ⟨rfl, rfl, .inr ⟨f0, hread⟩⟩
      · cases h

end SF.Bus

namespace SF.Bus
open SF
variable {φ : Type}

/-- LRU touch followed by the `if not self._loaded[idx]` block (max_persist active) -/
theorem LruInv.touch_mark {labels : List Nat} {ls ls1 : Loop φ} (hn : labels.Nodup) (h : LruInv labels ls)
    {idx l k : Nat} {frame : φ} {b : Bool}
    (e1 : ls1.lru = touch ls.lru l) (e2 : ls1.loaded = ls.loaded) (e3 : ls1.count = ls.count)
    (hl : labels[idx]? = some l) (hb : ls.loaded[idx]? = some b) :
    LruInv labels (ls1.mark (some k) idx frame b) ∧
    (ls1.mark (some k) idx frame b).lru = touch ls.lru l := by
  have hlmem : l ∈ labels := List.mem_of_getElem? hl
  unfold Loop.mark
  cases b with
  | true =>
    simp only [if_true]
    have hin : l ∈ ls.lru := (h.mem idx l hl).mp hb
    refine ⟨⟨?_, ?_, ?_, ?_, ?_⟩, e1⟩
    · rw [e1]; exact nodup_touch h.nodup l
    · intro x hx; rw [e1, mem_touch h.nodup] at hx
      rcases hx with hx | hx
      · exact h.sub x hx
      · subst hx; exact hlmem
    · intro i l' hi
      rw [e1, e2, mem_touch h.nodup, h.mem i l' hi]
      constructor
      · intro hx; exact .inl hx
      · rintro (hx | hx)
        · exact hx
        · subst hx; exact hin
    · rw [e3, e2]; exact h.cnt
    · rw [e1, e3, length_touch_mem hin]; exact h.len
  | false =>
    simp only [Bool.false_eq_true, if_false, Option.isSome_some, if_true]
    have hnot : l ∉ ls.lru := by
      intro hin
      have := (h.mem idx l hl).mpr hin
      rw [hb] at this; cases this
    obtain ⟨hidx, _⟩ := List.getElem?_eq_some_iff.mp hb
    refine ⟨⟨?_, ?_, ?_, ?_, ?_⟩, e1⟩
    · show ls1.lru.Nodup
      rw [e1]; exact nodup_touch h.nodup l
    · intro x hx
      change x ∈ ls1.lru at hx
      rw [e1, mem_touch h.nodup] at hx
      rcases hx with hx | hx
      · exact h.sub x hx
      · subst hx; exact hlmem
    · intro i l' hi
      show (ls1.loaded.set idx true)[i]? = some true ↔ l' ∈ ls1.lru
      rw [e1, e2, mem_touch h.nodup, List.getElem?_set]
      by_cases hii : idx = i
      · subst hii
        rw [hl] at hi; cases hi
        simp [hidx]
      · have hne : l' ≠ l := by
          intro heq; subst heq
          exact hii (nodup_idx_unique hn hl hi)
        simp only [hii, if_false, h.mem i l' hi]
        constructor
        · intro hx; exact .inl hx
        · rintro (hx | hx)
          · exact hx
          · exact absurd hx hne
    · show ls1.count + 1 = (ls1.loaded.set idx true).count true
      rw [e2, e3, count_set_true hb, h.cnt]
    · show ls1.lru.length = ls1.count + 1
      rw [e1, e3, length_touch_not_mem hnot, h.len]

/-- the eviction block under the invariant: removes the head of the recency list -/
theorem LruInv.evict {labels : List Nat} {ls : Loop φ} (hn : labels.Nodup) (h : LruInv labels ls)
    (hpos : 0 < ls.count) :
    ∃ ls', ls.evict labels = .ok ls' ∧ LruInv labels ls' ∧ ls'.lru = ls.lru.tail ∧ ls'.count + 1 = ls.count ∧
      ls'.reader = ls.reader := by
  unfold Loop.evict
  have hlen := h.len
  cases hlru : ls.lru with
  | nil => rw [hlru] at hlen; simp at hlen; omega
  | cons v rest =>
    simp only
    have hv : v ∈ labels := h.sub v (by rw [hlru]; simp)
    obtain ⟨idxr, hloc, hlab⟩ := locToIloc_ok hv
    rw [hloc]
    simp only
    have hnd : (v :: rest).Nodup := by rw [← hlru]; exact h.nodup
    have hvnot : v ∉ rest := (List.nodup_cons.mp hnd).1
    have htrue : ls.loaded[idxr]? = some true := (h.mem idxr v hlab).mpr (by rw [hlru]; simp)
    obtain ⟨hidx, _⟩ := List.getElem?_eq_some_iff.mp htrue
    refine ⟨_, rfl, ⟨?_, ?_, ?_, ?_, ?_⟩, by simp, ?_, rfl⟩
    · exact (List.nodup_cons.mp hnd).2
    · intro x hx; exact h.sub x (by rw [hlru]; exact List.mem_cons_of_mem _ hx)
    · intro i l' hi
      show (ls.loaded.set idxr false)[i]? = some true ↔ l' ∈ rest
      rw [List.getElem?_set]
      by_cases hii : idxr = i
      · subst hii
        rw [hlab] at hi; cases hi
        simp [hidx, hvnot]
      · have hne : l' ≠ v := by
          intro heq; subst heq
          exact hii (nodup_idx_unique hn hlab hi)
        simp only [hii, if_false, h.mem i l' hi, hlru, List.mem_cons, hne, false_or]
    · show ls.count - 1 = (ls.loaded.set idxr false).count true
      have := count_set_false htrue
      rw [h.cnt]; omega
    · show rest.length = ls.count - 1
      rw [hlru] at hlen; simp at hlen; omega
    · show ls.count - 1 + 1 = ls.count
      omega

end SF.Bus

namespace SF.Bus
open SF
variable {φ : Type}

/-- what the store reader still yields matches the deferred targets still to come -/
def Aligned (P : Nat → φ → Prop) : List (Nat × Option φ) → List φ → Prop
  | [], _ => True
  | (_, some _) :: ts, r => Aligned P ts r
  | (l, none) :: ts, r => ∃ f r', r = f :: r' ∧ P l f ∧ Aligned P ts r'

/-- outcome of a loop (body / run): success with the invariants, or a failed store read -/
def StoreFailed (st : StoreSt) (φ : Type) (e : Err) : Prop := ∃ f : φ, st.read f = .error e

/-- one iteration, max_persist = some k -/
theorem loopBody_some {P : Nat → φ → Prop} {labels : List Nat} {st : StoreSt} {k : Nat} {ls : Loop φ}
    {t : Nat × Option φ} {ts : List (Nat × Option φ)}
    (hn : labels.Nodup) (ha : ArrInv P labels ls) (hl : LruInv labels ls) (hb : ls.count ≤ k)
    (ht : t.1 ∈ labels) (hsnap : ∀ f, t.2 = some f → P t.1 f) (hal : Aligned P (t :: ts) ls.reader) :
    (∃ ls', loopBody st labels (some k) ls t = .ok ls' ∧ ArrInv P labels ls' ∧ LruInv labels ls' ∧ ls'.count ≤ k ∧
        ls'.lru = absTouch k ls.lru t.1 ∧ Aligned P ts ls'.reader)
    ∨ (∃ e ls', loopBody st labels (some k) ls t = .error (e, ls') ∧ StoreFailed st φ e) := by
  obtain ⟨idx, hloc, hlab⟩ := locToIloc_ok ht
  unfold loopBody
  rw [hloc]
  simp only [Option.isSome_some, if_true]
  cases hfetch : Loop.fetch st ls t.2 with
  | error el =>
    obtain ⟨e, ls'⟩ := el
    right
    obtain ⟨_, hnone, hr⟩ := fetch_error hfetch
    refine ⟨e, ls', rfl, ?_⟩
    rcases hr with hr | hr
    · -- StopIteration is impossible: the reader is aligned with the targets
      exfalso
      obtain ⟨l, fr⟩ := t
      simp only at hnone; subst hnone
      simp only [Aligned] at hal
      obtain ⟨f, r', hrr, _, _⟩ := hal
      rw [hrr] at hr; cases hr
    · exact hr
  | ok fl =>
    obtain ⟨frame, ls1⟩ := fl
    obtain ⟨e0, e2, e1, e3, hrd⟩ := fetch_ok hfetch
    -- the frame is acceptable, the reader stays aligned
    have hP : P t.1 frame ∧ Aligned P ts ls1.reader := by
      obtain ⟨l, fr⟩ := t
      rcases hrd with ⟨hfr, hrr⟩ | ⟨hfr, hrr⟩
      · simp only at hfr; subst hfr
        simp only [Aligned] at hal
        exact ⟨hsnap frame rfl, by rw [hrr]; exact hal⟩
      · simp only at hfr; subst hfr
        simp only [Aligned] at hal
        obtain ⟨f, r', hr, hp, hrest⟩ := hal
        rw [hrr] at hr
        simp only [List.cons.injEq] at hr
        obtain ⟨rfl, rfl⟩ := hr
        exact ⟨hp, hrest⟩
    simp only
    have hlenL : ls.loaded.length = labels.length := by rw [ha.flags]; simp [ha.lenA]
    have hidx : idx < labels.length := (List.getElem?_eq_some_iff.mp hlab).1
    have hbget : ls.loaded[idx]? = some ls.loaded[idx] := List.getElem?_eq_getElem (by omega)
    have hbget' : ls1.loaded[idx]? = some ls.loaded[idx] := by rw [e2]; exact hbget
    rw [hbget']
    simp only
    have ha1 : ArrInv P labels { ls1 with lru := touch ls1.lru t.1 } :=
      ⟨by show ls1.array.length = _; rw [e0]; exact ha.lenA,
       by show ls1.loaded = ls1.array.map _; rw [e0, e2]; exact ha.flags,
       by intro i l f hi hf; exact ha.content i l f hi (by rw [← e0]; exact hf)⟩
    have ha2 := ha1.mark (b := ls.loaded[idx]) (some k) hlab hP.1
    obtain ⟨hl2, hlru2⟩ := LruInv.touch_mark (ls1 := { ls1 with lru := touch ls1.lru t.1 }) (k := k) (frame := frame)
      hn hl (by show touch ls1.lru t.1 = _; rw [e1]) e2 e3 hlab hbget
    have hreader2 : (({ ls1 with lru := touch ls1.lru t.1 } : Loop φ).mark (some k) idx frame ls.loaded[idx]).reader = ls1.reader := by
      unfold Loop.mark; split <;> rfl
    have hcount2 : (({ ls1 with lru := touch ls1.lru t.1 } : Loop φ).mark (some k) idx frame ls.loaded[idx]).count ≤ ls.count + 1 := by
      unfold Loop.mark; split <;> simp [e3]
    left
    by_cases hgt : (({ ls1 with lru := touch ls1.lru t.1 } : Loop φ).mark (some k) idx frame ls.loaded[idx]).count > k
    · rw [if_pos hgt]
      obtain ⟨ls3, hev, hl3, hlru3, hcnt3, hrd3⟩ := LruInv.evict hn hl2 (by omega)
      refine ⟨ls3, hev, ha2.evict hev, hl3, by omega, ?_, by rw [hrd3, hreader2]; exact hP.2⟩
      rw [hlru3, hlru2]
      unfold absTouch
      have : (touch ls.lru t.1).length > k := by
        have := hl2.len; rw [hlru2] at this; omega
      simp only [touch] at this ⊢
      rw [if_pos this]
    · rw [if_neg hgt]
      refine ⟨_, rfl, ha2, hl2, by omega, ?_, by rw [hreader2]; exact hP.2⟩
      rw [hlru2]
      unfold absTouch
      have : ¬ (touch ls.lru t.1).length > k := by
        have := hl2.len; rw [hlru2] at this; omega
      simp only [touch] at this ⊢
      rw [if_neg this]

/-- one iteration, max_persist = None -/
theorem loopBody_none {P : Nat → φ → Prop} {labels : List Nat} {st : StoreSt} {ls : Loop φ}
    {t : Nat × Option φ} {ts : List (Nat × Option φ)}
    (hn : labels.Nodup) (ha : ArrInv P labels ls)
    (ht : t.1 ∈ labels) (hsnap : ∀ f, t.2 = some f → P t.1 f) (hal : Aligned P (t :: ts) ls.reader) :
    (∃ ls', loopBody st labels none ls t = .ok ls' ∧ ArrInv P labels ls' ∧ ls'.lru = ls.lru ∧ Aligned P ts ls'.reader ∧
        (∀ i : Nat, ls.loaded[i]? = some true → ls'.loaded[i]? = some true) ∧
        (∀ i : Nat, labels[i]? = some t.1 → ls'.loaded[i]? = some true))
    ∨ (∃ e ls', loopBody st labels none ls t = .error (e, ls') ∧ StoreFailed st φ e) := by
  obtain ⟨idx, hloc, hlab⟩ := locToIloc_ok ht
  unfold loopBody
  rw [hloc]
  simp only [Option.isSome_none, Bool.false_eq_true, if_false]
  cases hfetch : Loop.fetch st ls t.2 with
  | error el =>
    obtain ⟨e, ls'⟩ := el
    right
    obtain ⟨_, hnone, hr⟩ := fetch_error hfetch
    refine ⟨e, ls', rfl, ?_⟩
    rcases hr with hr | hr
    · exfalso
      obtain ⟨l, fr⟩ := t
      simp only at hnone; subst hnone
      simp only [Aligned] at hal
      obtain ⟨f, r', hrr, _, _⟩ := hal
      rw [hrr] at hr; cases hr
    · exact hr
  | ok fl =>
    obtain ⟨frame, ls1⟩ := fl
    obtain ⟨e0, e2, e1, e3, hrd⟩ := fetch_ok hfetch
    have hP : P t.1 frame ∧ Aligned P ts ls1.reader := by
      obtain ⟨l, fr⟩ := t
      rcases hrd with ⟨hfr, hrr⟩ | ⟨hfr, hrr⟩
      · simp only at hfr; subst hfr
        simp only [Aligned] at hal
        exact ⟨hsnap frame rfl, by rw [hrr]; exact hal⟩
      · simp only at hfr; subst hfr
        simp only [Aligned] at hal
        obtain ⟨f, r', hr, hp, hrest⟩ := hal
        rw [hrr] at hr
        simp only [List.cons.injEq] at hr
        obtain ⟨rfl, rfl⟩ := hr
        exact ⟨hp, hrest⟩
    simp only
    have hlenL : ls.loaded.length = labels.length := by rw [ha.flags]; simp [ha.lenA]
    have hidx : idx < labels.length := (List.getElem?_eq_some_iff.mp hlab).1
    have hbget : ls.loaded[idx]? = some ls.loaded[idx] := List.getElem?_eq_getElem (by omega)
    rw [e2, hbget]
    simp only
    have ha1 : ArrInv P labels ls1 := ⟨by rw [e0]; exact ha.lenA, by rw [e0, e2]; exact ha.flags, by rw [e0]; exact ha.content⟩
    have ha2 := ha1.mark (b := ls.loaded[idx]) none hlab hP.1
    left
    refine ⟨_, rfl, ha2, ?_, ?_, ?_, ?_⟩
    · unfold Loop.mark; split <;> simp [e1]
    · have : (ls1.mark none idx frame ls.loaded[idx]).reader = ls1.reader := by
        unfold Loop.mark; split <;> rfl
      rw [this]; exact hP.2
    · intro i hi
      unfold Loop.mark
      split
      · rw [e2]; exact hi
      · show (ls1.loaded.set idx true)[i]? = some true
        rw [e2, List.getElem?_set]
        split
        · rename_i hii; subst hii
          simp [(List.getElem?_eq_some_iff.mp hi).1]
        · exact hi
    · intro i hi
      have hii : idx = i := nodup_idx_unique hn hlab hi
      subst hii
      unfold Loop.mark
      split
      · rename_i hb; rw [e2, hbget, hb]
      · show (ls1.loaded.set idx true)[idx]? = some true
        rw [e2, List.getElem?_set_self (by omega)]

end SF.Bus

namespace SF.Bus
open SF
variable {φ : Type}

/-- the whole load loop, max_persist = some k: invariants kept, recency list = abstract LRU run -/
theorem loopRun_some {P : Nat → φ → Prop} {labels : List Nat} {st : StoreSt} {k : Nat} (hn : labels.Nodup) :
    ∀ (ts : List (Nat × Option φ)) (ls : Loop φ),
      ArrInv P labels ls → LruInv labels ls → ls.count ≤ k →
      (∀ t ∈ ts, t.1 ∈ labels) → (∀ t ∈ ts, ∀ f, t.2 = some f → P t.1 f) → Aligned P ts ls.reader →
      (∃ ls', loopRun st labels (some k) ls ts = .ok ls' ∧ ArrInv P labels ls' ∧ LruInv labels ls' ∧ ls'.count ≤ k ∧
          ls'.lru = (ts.map (·.1)).foldl (absTouch k) ls.lru)
      ∨ (∃ e ls', loopRun st labels (some k) ls ts = .error (e, ls') ∧ StoreFailed st φ e) := by
  intro ts
  induction ts with
  | nil => intro ls ha hl hb _ _ _; left; exact ⟨ls, rfl, ha, hl, hb, rfl⟩
  | cons t ts ih =>
    intro ls ha hl hb hmem hsnap hal
    unfold loopRun
    rcases loopBody_some (st := st) hn ha hl hb (hmem t (by simp)) (hsnap t (by simp)) hal with
      ⟨ls1, hbody, ha1, hl1, hb1, hlru1, hal1⟩ | ⟨e, ls1, hbody, hfail⟩
    · rw [hbody]
      simp only
      rcases ih ls1 ha1 hl1 hb1 (fun t' ht' => hmem t' (List.mem_cons_of_mem _ ht'))
          (fun t' ht' => hsnap t' (List.mem_cons_of_mem _ ht')) hal1 with
        ⟨ls2, hrun, ha2, hl2, hb2, hlru2⟩ | ⟨e, ls2, hrun, hfail⟩
      · left; refine ⟨ls2, hrun, ha2, hl2, hb2, ?_⟩
        rw [hlru2, hlru1]; simp
      · right; exact ⟨e, ls2, hrun, hfail⟩
    · rw [hbody]; right; exact ⟨e, ls1, rfl, hfail⟩

theorem loopRun_none {P : Nat → φ → Prop} {labels : List Nat} {st : StoreSt} (hn : labels.Nodup) :
    ∀ (ts : List (Nat × Option φ)) (ls : Loop φ),
      ArrInv P labels ls →
      (∀ t ∈ ts, t.1 ∈ labels) → (∀ t ∈ ts, ∀ f, t.2 = some f → P t.1 f) → Aligned P ts ls.reader →
      (∃ ls', loopRun st labels none ls ts = .ok ls' ∧ ArrInv P labels ls' ∧ ls'.lru = ls.lru ∧
          (∀ i : Nat, ls.loaded[i]? = some true → ls'.loaded[i]? = some true) ∧
          (∀ t ∈ ts, ∀ i : Nat, labels[i]? = some t.1 → ls'.loaded[i]? = some true))
      ∨ (∃ e ls', loopRun st labels none ls ts = .error (e, ls') ∧ StoreFailed st φ e) := by
  intro ts
  induction ts with
  | nil => intro ls ha _ _ _; left; exact ⟨ls, rfl, ha, rfl, fun _ h => h, by simp⟩
  | cons t ts ih =>
    intro ls ha hmem hsnap hal
    unfold loopRun
    rcases loopBody_none (st := st) hn ha (hmem t (by simp)) (hsnap t (by simp)) hal with
      ⟨ls1, hbody, ha1, hlru1, hal1, hmono1, hset1⟩ | ⟨e, ls1, hbody, hfail⟩
    · rw [hbody]
      simp only
      rcases ih ls1 ha1 (fun t' ht' => hmem t' (List.mem_cons_of_mem _ ht'))
          (fun t' ht' => hsnap t' (List.mem_cons_of_mem _ ht')) hal1 with
        ⟨ls2, hrun, ha2, hlru2, hmono2, hset2⟩ | ⟨e, ls2, hrun, hfail⟩
      · left; refine ⟨ls2, hrun, ha2, by rw [hlru2, hlru1], fun i hi => hmono2 i (hmono1 i hi), ?_⟩
        intro t' ht' i hi
        simp only [List.mem_cons] at ht'
        rcases ht' with ht' | ht'
        · subst ht'; exact hmono2 i (hset1 i hi)
        · exact hset2 t' ht' i hi
      · right; exact ⟨e, ls2, hrun, hfail⟩
    · rw [hbody]; right; exact ⟨e, ls1, rfl, hfail⟩

/-! ### `_store_reader` -/

theorem batchLoop_flatten (k : Nat) : ∀ (ls coll : List Nat), (batchLoop k ls coll).flatten = coll ++ ls := by
  intro ls
  induction ls with
  | nil => intro coll; unfold batchLoop; split <;> simp_all
  | cons l ls ih =>
    intro coll
    unfold batchLoop
    simp only
    split
    · simp [ih]
    · rw [ih]; simp

theorem storeReaderBatches_flatten (mp : Option Nat) (labels : List Nat) :
    (storeReaderBatches mp labels).flatten = labels := by
  unfold storeReaderBatches
  cases mp with
  | none => simp only; split <;> simp_all
  | some k =>
    simp only
    split
    · simp [batchLoop_flatten]
    · induction labels with
      | nil => rfl
      | cons l ls ih => simp [ih]

theorem batchLoop_sizes (k : Nat) (hk : 1 < k) : ∀ (ls coll : List Nat), coll.length < k →
    ∀ b ∈ batchLoop k ls coll, 0 < b.length ∧ b.length ≤ k := by
  intro ls
  induction ls with
  | nil =>
    intro coll hc b hb
    unfold batchLoop at hb
    split at hb
    · cases hb
    · simp only [List.mem_singleton] at hb; subst hb
      rename_i hne
      constructor
      · cases b with
        | nil => simp at hne
        | cons => simp
      · omega
  | cons l ls ih =>
    intro coll hc b hb
    unfold batchLoop at hb
    simp only at hb
    split at hb
    · rename_i hlen
      simp only [List.mem_cons] at hb
      rcases hb with hb | hb
      · subst hb; simp at hlen ⊢; omega
      · exact ih [] (by simp; omega) b hb
    · rename_i hlen
      exact ih (coll ++ [l]) (by simp at hlen ⊢; omega) b hb

theorem storeReaderFrames_eq (store : StoreFn φ) (pinnedReader : Bool) (mp : Option Nat) (labels : List Nat) :
    storeReaderFrames store pinnedReader mp labels = labels.map fun l => store (readerCfgKey pinnedReader mp l) l := by
  unfold storeReaderFrames
  rw [List.flatMap_def, ← List.map_flatten, storeReaderBatches_flatten]

theorem aligned_deferred {P : Nat → φ → Prop} (R : Nat → φ) (hR : ∀ l, P l (R l)) :
    ∀ ts : List (Nat × Option φ), Aligned P ts (((ts.filter fun t => t.2.isNone).map (·.1)).map R) := by
  intro ts
  induction ts with
  | nil => trivial
  | cons t ts ih =>
    obtain ⟨l, fr⟩ := t
    cases fr with
    | some f => simpa [Aligned] using ih
    | none => simp only [Aligned, Option.isNone_none, List.filter_cons_of_pos, List.map_cons]; exact ⟨_, _, rfl, hR l, ih⟩

theorem aligned_element {P : Nat → φ → Prop} (R : Nat → φ) (hR : ∀ l, P l (R l)) :
    ∀ ts : List (Nat × Option φ), ts.length ≤ 1 → Aligned P ts (ts.map fun t => R t.1)
  | [], _ => trivial
  | [(l, none)], _ => by simp only [Aligned, List.map_cons, List.map_nil]; exact ⟨_, _, rfl, hR l, trivial⟩
  | [(l, some f)], _ => by simp [Aligned]
  | _ :: _ :: _, h => by simp at h

end SF.Bus

namespace SF.Bus
open SF
variable {φ : Type}

/-! ### targets -/

theorem targetsOf_nil (s : BusSt φ) : targetsOf s [] = some [] := by
  unfold targetsOf; simp

theorem targetsOf_cons (s : BusSt φ) (p : Nat) (ps : List Nat) :
    targetsOf s (p :: ps) =
      match s.labels[p]?, s.cache[p]? with
      | some l, some c => (targetsOf s ps).map ((l, c) :: ·)
      | _, _ => none := by
  unfold targetsOf
  simp only [List.mapM_cons]
  cases s.labels[p]? <;> cases s.cache[p]? <;> simp [Option.map]
  rename_i l c
  cases List.mapM (fun p => match s.labels[p]?, s.cache[p]? with
    | some l, some c => some (l, c)
    | _, _ => none) ps <;> rfl

theorem targetsOf_spec (s : BusSt φ) : ∀ (ps : List Nat) (ts : List (Nat × Option φ)), targetsOf s ps = some ts →
    ts.length = ps.length ∧ ts.map (·.1) = pick s.labels ps ∧
    (∀ t ∈ ts, ∃ p, p ∈ ps ∧ s.labels[p]? = some t.1 ∧ s.cache[p]? = some t.2) ∧
    (∀ p ∈ ps, ∃ t ∈ ts, s.labels[p]? = some t.1) := by
  intro ps
  induction ps with
  | nil =>
    intro ts h
    rw [targetsOf_nil] at h; cases h
    simp [pick]
  | cons p ps ih =>
    intro ts h
    rw [targetsOf_cons] at h
    split at h
    · rename_i l c hl hc
      cases hrest : targetsOf s ps with
      | none => rw [hrest] at h; cases h
      | some ts' =>
        rw [hrest] at h
        simp only [Option.map_some, Option.some.injEq] at h
        subst h
        obtain ⟨h1, h2, h3, h4⟩ := ih ts' hrest
        refine ⟨by simp [h1], ?_, ?_, ?_⟩
        · simp only [List.map_cons, pick, List.filterMap_cons, hl]
          simp only [pick] at h2
          rw [h2]
        · intro t ht
          simp only [List.mem_cons] at ht
          rcases ht with ht | ht
          · subst ht; exact ⟨p, by simp, hl, hc⟩
          · obtain ⟨q, hq, hq1, hq2⟩ := h3 t ht
            exact ⟨q, List.mem_cons_of_mem _ hq, hq1, hq2⟩
        · intro q hq
          simp only [List.mem_cons] at hq
          rcases hq with hq | hq
          · subst hq; exact ⟨(l, c), by simp, hl⟩
          · obtain ⟨t, ht, ht1⟩ := h4 q hq
            exact ⟨t, List.mem_cons_of_mem _ ht, ht1⟩
    · cases h

theorem targetsOf_some (s : BusSt φ) (hlen : s.cache.length = s.labels.length) :
    ∀ ps : List Nat, (∀ p ∈ ps, p < s.labels.length) → ∃ ts, targetsOf s ps = some ts := by
  intro ps
  induction ps with
  | nil => intro _; exact ⟨[], targetsOf_nil s⟩
  | cons p ps ih =>
    intro h
    obtain ⟨ts, hts⟩ := ih (fun q hq => h q (List.mem_cons_of_mem _ hq))
    have hp : p < s.labels.length := h p (by simp)
    rw [targetsOf_cons, List.getElem?_eq_getElem hp, List.getElem?_eq_getElem (by omega : p < s.cache.length), hts]
    exact ⟨_, rfl⟩

/-! ### cache hit: LRU touches only -/

theorem foldl_touch_members (k : Nat) : ∀ (ls lru : List Nat), lru.Nodup → (∀ l ∈ ls, l ∈ lru) → lru.length ≤ k →
    (ls.foldl touch lru).Nodup ∧ (∀ x, x ∈ ls.foldl touch lru ↔ x ∈ lru) ∧
    (ls.foldl touch lru).length = lru.length ∧ ls.foldl touch lru = ls.foldl (absTouch k) lru := by
  intro ls
  induction ls with
  | nil => intro lru hn _ _; exact ⟨hn, fun _ => Iff.rfl, rfl, rfl⟩
  | cons l ls ih =>
    intro lru hn hmem hk
    have hl : l ∈ lru := hmem l (by simp)
    have hn1 := nodup_touch hn l
    have hlen1 := length_touch_mem hl
    have hmem1 : ∀ x, x ∈ touch lru l ↔ x ∈ lru := by
      intro x; rw [mem_touch hn]
      constructor
      · rintro (h | h)
        · exact h
        · subst h; exact hl
      · intro h; exact .inl h
    obtain ⟨h1, h2, h3, h4⟩ := ih (touch lru l) hn1 (fun x hx => (hmem1 x).mpr (hmem x (List.mem_cons_of_mem _ hx))) (by omega)
    simp only [List.foldl_cons]
    refine ⟨h1, fun x => (h2 x).trans (hmem1 x), by omega, ?_⟩
    rw [h4]
    congr 1
    unfold absTouch
    have : ¬ (touch lru l).length > k := by omega
    simp only [touch] at this ⊢
    rw [if_neg this]

end SF.Bus

namespace SF.Bus
open SF
variable {φ : Type}

theorem all_loaded_of_flag {s : BusSt φ} {P : Nat → φ → Prop} (hinv : Inv P s) (hall : s.loadedAll = true)
    {p : Nat} (hp : p < s.labels.length) : s.loaded[p]? = some true := by
  have hlen : s.loaded.length = s.labels.length := by rw [hinv.flags]; simp [hinv.lenCache]
  have h := hinv.allFlag
  rw [hall] at h
  have h' := List.all_eq_true.mp h.symm s.loaded[p] (List.getElem_mem (by omega))
  rw [List.getElem?_eq_getElem (by omega)]
  simpa using h'

/-- common preparation for `updateCache`: the targets and what the invariant says about them -/
theorem updateCache_prep {P : Nat → φ → Prop} {store : StoreFn φ} {pinnedReader : Bool} {s : BusSt φ}
    {ps : List Nat} {isElement : Bool}
    (hinv : Inv P s) (hR1 : ∀ l, P l (store (some l) l))
    (hR2 : ∀ l, P l (store (readerCfgKey pinnedReader s.maxPersist l) l))
    (hps : ∀ p ∈ ps, p < s.labels.length) (hel : isElement = true → ps.length ≤ 1) :
    ∃ targets, targetsOf s ps = some targets ∧ targets.map (·.1) = pick s.labels ps ∧
      (∀ t ∈ targets, ∃ p, p ∈ ps ∧ s.labels[p]? = some t.1 ∧ s.cache[p]? = some t.2) ∧
      (∀ p ∈ ps, ∃ t ∈ targets, s.labels[p]? = some t.1) ∧
      (∀ t ∈ targets, t.1 ∈ s.labels) ∧ (∀ t ∈ targets, ∀ f, t.2 = some f → P t.1 f) ∧
      Aligned P targets
        (if isElement then targets.map fun t => store (some t.1) t.1
         else storeReaderFrames store pinnedReader s.maxPersist ((targets.filter fun t => t.2.isNone).map (·.1))) ∧
      ((if s.loadedAll then false else !(ps.all fun p => s.loaded[p]? == some true)) = false →
        ∀ p ∈ ps, s.loaded[p]? = some true) := by
  obtain ⟨targets, htg⟩ := targetsOf_some s hinv.lenCache ps hps
  obtain ⟨htlen, htlab, htmem, htps⟩ := targetsOf_spec s ps targets htg
  refine ⟨targets, htg, htlab, htmem, htps, ?_, ?_, ?_, ?_⟩
  · intro t ht; obtain ⟨p, _, hpl, _⟩ := htmem t ht; exact List.mem_of_getElem? hpl
  · intro t ht f hf
    obtain ⟨p, _, hpl, hpc⟩ := htmem t ht
    rw [hf] at hpc
    exact hinv.content p t.1 f hpl hpc
  · cases isElement with
    | true =>
      simp only [if_true]
      exact aligned_element (fun l => store (some l) l) hR1 targets (by rw [htlen]; exact hel rfl)
    | false =>
      simp only [Bool.false_eq_true, if_false]
      rw [storeReaderFrames_eq]
      exact aligned_deferred _ hR2 targets
  · intro h p hp
    by_cases hall : s.loadedAll = true
    · exact all_loaded_of_flag hinv hall (hps p hp)
    · simp only [hall, Bool.false_eq_true, if_false, Bool.not_eq_false'] at h
      have := List.all_eq_true.mp h p hp
      simpa using this

theorem need_of_load {P : Nat → φ → Prop} {s : BusSt φ} (hinv : Inv P s) {ps : List Nat}
    (hps : ∀ p ∈ ps, p < s.labels.length)
    (h : (if s.loadedAll then false else !(ps.all fun p => s.loaded[p]? == some true)) = true) :
    ∃ p ∈ ps, s.loaded[p]? = some false := by
  have hlenL : s.loaded.length = s.labels.length := by rw [hinv.flags]; simp [hinv.lenCache]
  by_cases hall : s.loadedAll = true
  · simp [hall] at h
  · simp only [hall, Bool.false_eq_true, if_false, Bool.not_eq_true', List.all_eq_false] at h
    obtain ⟨p, hp, hpf⟩ := h
    refine ⟨p, hp, ?_⟩
    have hlt : p < s.loaded.length := by rw [hlenL]; exact hps p hp
    rw [List.getElem?_eq_getElem hlt] at hpf ⊢
    cases hb : s.loaded[p] with
    | false => rfl
    | true => rw [hb] at hpf; simp at hpf

/-- `_update_series_cache_iloc`, max_persist = None -/
theorem updateCache_none {P : Nat → φ → Prop} {store : StoreFn φ} {pinnedReader : Bool} {st : StoreSt} {s : BusSt φ}
    {ps : List Nat} {isElement : Bool}
    (hinv : Inv P s) (hmp : s.maxPersist = none) (hR1 : ∀ l, P l (store (some l) l))
    (hR2 : ∀ l, P l (store (readerCfgKey pinnedReader none l) l))
    (hps : ∀ p ∈ ps, p < s.labels.length) (hel : isElement = true → ps.length ≤ 1) :
    (∃ s', s.updateCache store pinnedReader st ps isElement = .ok s' ∧ Inv P s' ∧ s'.labels = s.labels ∧
        s'.maxPersist = none ∧
        (∀ i : Nat, s.loaded[i]? = some true → s'.loaded[i]? = some true) ∧
        ∀ p ∈ ps, s'.loaded[p]? = some true)
    ∨ (∃ e s', s.updateCache store pinnedReader st ps isElement = .error (e, s') ∧ StoreFailed st φ e ∧
        ∃ p ∈ ps, s.loaded[p]? = some false) := by
  obtain ⟨targets, htg, htlab, htmem, htps, hmemL, hsnap, hal, hnoload⟩ :=
    updateCache_prep (store := store) (pinnedReader := pinnedReader) (isElement := isElement) hinv hR1 (by rw [hmp]; exact hR2) hps hel
  unfold BusSt.updateCache
  simp only [htg, hmp, Option.isSome_none]
  by_cases hload : (if s.loadedAll then false else !(ps.all fun p => s.loaded[p]? == some true)) = false
  · rw [hload]
    simp only [Bool.not_false, Bool.and_self, if_true]
    left
    exact ⟨s, rfl, hinv, rfl, hmp, fun _ h => h, hnoload hload⟩
  · have hload' : (if s.loadedAll then false else !(ps.all fun p => s.loaded[p]? == some true)) = true := by
      cases h : (if s.loadedAll then false else !(ps.all fun p => s.loaded[p]? == some true)) <;> simp_all
    rw [hload']
    simp only [Bool.not_true, Bool.false_and, Bool.false_eq_true, if_false]
    rw [hmp] at hal
    have ha0 : ArrInv P s.labels
        { array := s.cache, loaded := s.loaded, lru := s.lru, count := s.loaded.count true,
          reader := (if isElement then targets.map fun t => store (some t.1) t.1
            else storeReaderFrames store pinnedReader none ((targets.filter fun t => t.2.isNone).map (·.1))) } :=
      ⟨hinv.lenCache, hinv.flags, hinv.content⟩
    rcases loopRun_none (st := st) hinv.labelsNodup targets _ ha0 hmemL hsnap hal with
      ⟨ls', hrun, ha', hlru', hmono, hset⟩ | ⟨e, ls', hrun, hfail⟩
    · rw [hrun]
      left
      have hlru0 : ls'.lru = [] := by rw [hlru']; exact hinv.lruNone hmp
      refine ⟨_, rfl, ?_, rfl, (by simp [hmp]), hmono, ?_⟩
      · exact { labelsNodup := hinv.labelsNodup, lenCache := ha'.lenA, flags := ha'.flags, allFlag := rfl,
                content := ha'.content,
                lruNone := fun _ => hlru0,
                lruNodup := (by show ls'.lru.Nodup; rw [hlru0]; exact List.nodup_nil),
                lruMem := (by intro h; simp [hmp] at h),
                lruSub := (by intro l hl; change l ∈ ls'.lru at hl; rw [hlru0] at hl; cases hl),
                lruLen := (by intro h; simp [hmp] at h),
                bound := (by intro k hk; simp [hmp] at hk) }
      · intro p hp
        obtain ⟨t, ht, htl⟩ := htps p hp
        exact hset t ht p htl
    · rw [hrun]
      right
      exact ⟨e, _, rfl, hfail, need_of_load hinv hps hload'⟩

/-- `_update_series_cache_iloc`, max_persist = some k: the recency list is the abstract LRU run -/
theorem updateCache_some {P : Nat → φ → Prop} {store : StoreFn φ} {pinnedReader : Bool} {st : StoreSt} {s : BusSt φ}
    {ps : List Nat} {isElement : Bool} {k : Nat}
    (hinv : Inv P s) (hmp : s.maxPersist = some k) (hR1 : ∀ l, P l (store (some l) l))
    (hR2 : ∀ l, P l (store (readerCfgKey pinnedReader (some k) l) l))
    (hps : ∀ p ∈ ps, p < s.labels.length) (hel : isElement = true → ps.length ≤ 1) :
    (∃ s', s.updateCache store pinnedReader st ps isElement = .ok s' ∧ Inv P s' ∧ s'.labels = s.labels ∧
        s'.maxPersist = some k ∧ s'.lru = (pick s.labels ps).foldl (absTouch k) s.lru)
    ∨ (∃ e s', s.updateCache store pinnedReader st ps isElement = .error (e, s') ∧ StoreFailed st φ e ∧
        ∃ p ∈ ps, s.loaded[p]? = some false) := by
  obtain ⟨targets, htg, htlab, htmem, htps, hmemL, hsnap, hal, hnoload⟩ :=
    updateCache_prep (store := store) (pinnedReader := pinnedReader) (isElement := isElement) hinv hR1 (by rw [hmp]; exact hR2) hps hel
  have hmpS : s.maxPersist.isSome = true := by rw [hmp]; rfl
  unfold BusSt.updateCache
  simp only [htg, hmp, Option.isSome_some]
  by_cases hload : (if s.loadedAll then false else !(ps.all fun p => s.loaded[p]? == some true)) = false
  · have hallp := hnoload hload
    rw [hload]
    simp only [Bool.not_false, Bool.not_true, Bool.and_false, Bool.false_eq_true, if_false, if_true]
    left
    have hin : ∀ l ∈ targets.map (·.1), l ∈ s.lru := by
      intro l hl
      simp only [List.mem_map] at hl
      obtain ⟨t, ht, rfl⟩ := hl
      obtain ⟨p, hp, hpl, _⟩ := htmem t ht
      exact (hinv.lruMem hmpS p t.1 hpl).mp (hallp p hp)
    have hk : s.lru.length ≤ k := by rw [hinv.lruLen hmpS]; exact hinv.bound k hmp
    obtain ⟨f1, f2, f3, f4⟩ := foldl_touch_members k (targets.map (·.1)) s.lru hinv.lruNodup hin hk
    refine ⟨_, rfl, ?_, rfl, (by simp [hmp]), ?_⟩
    · exact { labelsNodup := hinv.labelsNodup, lenCache := hinv.lenCache, flags := hinv.flags,
              allFlag := hinv.allFlag, content := hinv.content,
              lruNone := (by intro h; simp [hmp] at h),
              lruNodup := f1,
              lruMem := (by
                intro _ i l hi
                show s.loaded[i]? = some true ↔ l ∈ _
                rw [f2]; exact hinv.lruMem hmpS i l hi),
              lruSub := (by intro l hl; exact hinv.lruSub l ((f2 l).mp hl)),
              lruLen := (by intro _; show List.length _ = _; rw [f3]; exact hinv.lruLen hmpS),
              bound := (by intro k' hk'; simp [hmp] at hk'; subst hk'; exact hinv.bound k hmp) }
    · show List.foldl touch s.lru (targets.map (·.1)) = _
      rw [f4, htlab]
  · have hload' : (if s.loadedAll then false else !(ps.all fun p => s.loaded[p]? == some true)) = true := by
      cases h : (if s.loadedAll then false else !(ps.all fun p => s.loaded[p]? == some true)) <;> simp_all
    rw [hload']
    simp only [Bool.not_true, Bool.false_and, Bool.false_eq_true, if_false]
    rw [hmp] at hal
    have ha0 : ArrInv P s.labels
        { array := s.cache, loaded := s.loaded, lru := s.lru, count := s.loaded.count true,
          reader := (if isElement then targets.map fun t => store (some t.1) t.1
            else storeReaderFrames store pinnedReader (some k) ((targets.filter fun t => t.2.isNone).map (·.1))) } :=
      ⟨hinv.lenCache, hinv.flags, hinv.content⟩
    have hl0 : LruInv s.labels
        { array := s.cache, loaded := s.loaded, lru := s.lru, count := s.loaded.count true,
          reader := (if isElement then targets.map fun t => store (some t.1) t.1
            else storeReaderFrames store pinnedReader (some k) ((targets.filter fun t => t.2.isNone).map (·.1))) } :=
      ⟨hinv.lruNodup, hinv.lruSub, hinv.lruMem hmpS, rfl, hinv.lruLen hmpS⟩
    rcases loopRun_some (st := st) (k := k) hinv.labelsNodup targets _ ha0 hl0 (hinv.bound k hmp) hmemL hsnap hal with
      ⟨ls', hrun, ha', hl', hb', hlru'⟩ | ⟨e, ls', hrun, hfail⟩
    · rw [hrun]
      left
      refine ⟨_, rfl, ?_, rfl, (by simp [hmp]), ?_⟩
      · exact { labelsNodup := hinv.labelsNodup, lenCache := ha'.lenA, flags := ha'.flags, allFlag := rfl,
                content := ha'.content,
                lruNone := (by intro h; simp [hmp] at h),
                lruNodup := hl'.nodup,
                lruMem := fun _ => hl'.mem,
                lruSub := hl'.sub,
                lruLen := (by intro _; show ls'.lru.length = ls'.loaded.count true; rw [hl'.len, hl'.cnt]),
                bound := (by
                  intro k' hk'
                  simp [hmp] at hk'; subst hk'
                  show ls'.loaded.count true ≤ k
                  rw [← hl'.cnt]; exact hb') }
      · show ls'.lru = _
        rw [hlru', htlab]
    · rw [hrun]
      right
      exact ⟨e, _, rfl, hfail, need_of_load hinv hps hload'⟩

end SF.Bus

namespace SF.Bus
open SF
variable {φ : Type}

/-! ### failing store reads: the first needed read raises, nothing is loaded or dropped, the invariant survives -/

theorem StoreSt.read_stale {β} (s : StoreSt) (d : β) (h : s.file ≠ s.seen) : s.read d = .error .storeMutation := by
  unfold StoreSt.read StoreSt.coherentNonWrite
  rw [(StoreSt.incoherent_iff s).mpr h]

/-- whether a decorated read succeeds depends on the store state only, not on the data -/
theorem StoreSt.read_uniform (β : Type) (s : StoreSt) :
    (∀ d : β, s.read d = .ok d) ∨ (∃ e, ∀ d : β, s.read d = .error e) := by
  by_cases hc : s.file = s.seen
  · cases hf : s.file with
    | none =>
      right; refine ⟨.other, fun d => ?_⟩
      unfold StoreSt.read StoreSt.coherentNonWrite StoreSt.rawRead
      rw [(StoreSt.coherent_iff s).mpr hc]; simp [hf]
    | some t =>
      left; intro d
      exact StoreSt.read_ok s d hf (by rw [← hc, hf])
  · right; exact ⟨.storeMutation, fun d => StoreSt.read_stale s d hc⟩

theorem loopBody_snapshot_loaded {st : StoreSt} {labels : List Nat} {mp : Option Nat} {ls : Loop φ}
    {t : Nat × Option φ} {f : φ} {idx : Nat}
    (hloc : locToIloc labels t.1 = .ok idx) (hf : t.2 = some f) (hb : ls.loaded[idx]? = some true)
    (hk : ∀ k, mp = some k → ls.count ≤ k) :
    loopBody st labels mp ls t = .ok { ls with lru := if mp.isSome then touch ls.lru t.1 else ls.lru } := by
  unfold loopBody
  rw [hloc]
  simp only
  unfold Loop.fetch
  rw [hf]
  cases mp with
  | none => simp only [Option.isSome_none, Bool.false_eq_true, if_false, hb, Loop.mark, if_true]
  | some k =>
    simp only [Option.isSome_some, if_true, hb, Loop.mark]
    have := hk k rfl
    rw [if_neg (by simp; omega)]

/-- a failing read aborts the iteration before anything is recorded -/
theorem loopBody_deferred_fail {st : StoreSt} {labels : List Nat} {mp : Option Nat} {ls : Loop φ}
    {t : Nat × Option φ} {idx : Nat} {f : φ} {r : List φ} {e : Err}
    (hloc : locToIloc labels t.1 = .ok idx) (hf : t.2 = none) (hr : ls.reader = f :: r)
    (hfail : st.read f = .error e) :
    loopBody st labels mp ls t = .error (e, ls) := by
  unfold loopBody
  rw [hloc]
  simp only
  unfold Loop.fetch
  rw [hf]
  simp only [hr, hfail]

/-- what an aborted loop may have done to the recency list: labels already in it were moved -/
def LruSame (a b : List Nat) : Prop := b.Nodup ∧ (∀ x, x ∈ b ↔ x ∈ a) ∧ b.length = a.length

theorem LruSame.refl {a : List Nat} (h : a.Nodup) : LruSame a a := ⟨h, fun _ => Iff.rfl, rfl⟩

theorem LruSame.touch {a : List Nat} (h : a.Nodup) {l : Nat} (hl : l ∈ a) : LruSame a (touch a l) := by
  refine ⟨nodup_touch h l, ?_, length_touch_mem hl⟩
  intro x; rw [mem_touch h]
  constructor
  · rintro (hx | hx)
    · exact hx
    · subst hx; exact hl
  · intro hx; exact .inl hx

theorem LruSame.trans {a b c : List Nat} (h1 : LruSame a b) (h2 : LruSame b c) : LruSame a c :=
  ⟨h2.1, fun x => (h2.2.1 x).trans (h1.2.1 x), h2.2.2.trans h1.2.2⟩

theorem loopRun_fail {st : StoreSt} {labels : List Nat} {mp : Option Nat} {e : Err} (hn : labels.Nodup)
    (hfail : ∀ f : φ, st.read f = .error e) (L0 : List Bool) :
    ∀ (ts : List (Nat × Option φ)) (ls : Loop φ),
      ls.loaded = L0 → (∀ k, mp = some k → ls.count ≤ k) →
      (∀ t ∈ ts, ∃ i : Nat, labels[i]? = some t.1 ∧ L0[i]? = some t.2.isSome) →
      Aligned (fun _ _ => True) ts ls.reader → (∃ t ∈ ts, t.2 = none) →
      ls.lru.Nodup →
      (mp.isSome = true → ∀ (i l : Nat), labels[i]? = some l → L0[i]? = some true → l ∈ ls.lru) →
      ∃ ls', loopRun st labels mp ls ts = .error (e, ls') ∧ ls'.loaded = L0 ∧ LruSame ls.lru ls'.lru ∧ ls'.array = ls.array := by
  intro ts
  induction ts with
  | nil => intro ls _ _ _ _ hex; obtain ⟨t, ht, _⟩ := hex; cases ht
  | cons t ts ih =>
    intro ls hL hk hflag hal hex hnd hmem
    obtain ⟨i, hi, hLi⟩ := hflag t (by simp)
    obtain ⟨idx, hloc, hlab⟩ := locToIloc_ok (List.mem_of_getElem? hi)
    have hii : idx = i := nodup_idx_unique hn hlab hi
    subst hii
    unfold loopRun
    cases ht2 : t.2 with
    | none =>
      obtain ⟨l, fr⟩ := t
      simp only at ht2; subst ht2
      simp only [Aligned] at hal
      obtain ⟨f, r, hr, _, _⟩ := hal
      rw [loopBody_deferred_fail (st := st) (mp := mp) (ls := ls) hloc rfl hr (hfail f)]
      exact ⟨ls, rfl, hL, LruSame.refl hnd, rfl⟩
    | some f =>
      have hLtrue : L0[idx]? = some true := by rw [hLi, ht2]; rfl
      have hb : ls.loaded[idx]? = some true := by rw [hL]; exact hLtrue
      rw [loopBody_snapshot_loaded (st := st) hloc ht2 hb hk]
      simp only
      have hal' : Aligned (fun _ _ => True) ts ls.reader := by
        obtain ⟨l, fr⟩ := t
        simp only at ht2; subst ht2
        simpa [Aligned] using hal
      have hex' : ∃ t' ∈ ts, t'.2 = none := by
        obtain ⟨t', ht', hn'⟩ := hex
        simp only [List.mem_cons] at ht'
        rcases ht' with ht' | ht'
        · subst ht'; rw [ht2] at hn'; cases hn'
        · exact ⟨t', ht', hn'⟩
      have hsame : LruSame ls.lru (if mp.isSome then touch ls.lru t.1 else ls.lru) := by
        cases hmp : mp.isSome with
        | false => simp only [Bool.false_eq_true, if_false]; exact LruSame.refl hnd
        | true => simp only [if_true]; exact LruSame.touch hnd (hmem hmp idx t.1 hlab hLtrue)
      obtain ⟨ls', hrun, hl', hs', harr'⟩ := ih { ls with lru := if mp.isSome then touch ls.lru t.1 else ls.lru } hL hk
        (fun t' ht' => hflag t' (List.mem_cons_of_mem _ ht')) hal' hex' hsame.1
        (fun hmp i l hi hl => (hsame.2.1 l).mpr (hmem hmp i l hi hl))
      exact ⟨ls', hrun, hl', hsame.trans hs', harr'⟩

/-- When the store reads fail, an access that needs a load raises that error; flags and cells are untouched, the
    recency list keeps its members (labels served from the cache before the failing read were moved), and the
    representation invariant still holds. -/
theorem updateCache_fail {P : Nat → φ → Prop} {store : StoreFn φ} {pinnedReader : Bool} {st : StoreSt} {s : BusSt φ}
    {ps : List Nat} {isElement : Bool} {e : Err}
    (hinv : Inv P s) (hfail : ∀ f : φ, st.read f = .error e)
    (hps : ∀ p ∈ ps, p < s.labels.length) (hel : isElement = true → ps.length ≤ 1)
    (hneed : ∃ p ∈ ps, s.loaded[p]? = some false) :
    ∃ s', s.updateCache store pinnedReader st ps isElement = .error (e, s') ∧ Inv P s' ∧
      s'.loaded = s.loaded ∧ s'.cache = s.cache ∧ s'.labels = s.labels ∧ s'.maxPersist = s.maxPersist ∧
      LruSame s.lru s'.lru := by
  have hlenL : s.loaded.length = s.labels.length := by rw [hinv.flags]; simp [hinv.lenCache]
  obtain ⟨targets, htg⟩ := targetsOf_some s hinv.lenCache ps hps
  obtain ⟨htlen, htlab, htmem, htps⟩ := targetsOf_spec s ps targets htg
  obtain ⟨p0, hp0, hp0f⟩ := hneed
  have hload : (if s.loadedAll then false else !(ps.all fun p => s.loaded[p]? == some true)) = true := by
    have hnall : s.loadedAll = false := by
      cases h : s.loadedAll with
      | false => rfl
      | true =>
        have := all_loaded_of_flag hinv h (hps p0 hp0)
        rw [hp0f] at this; cases this
    rw [hnall]
    simp only [Bool.false_eq_true, if_false, Bool.not_eq_true', List.all_eq_false]
    exact ⟨p0, hp0, by rw [hp0f]; decide⟩
  unfold BusSt.updateCache
  simp only [htg, hload, Bool.not_true, Bool.false_and, Bool.false_eq_true, if_false]
  have hflag : ∀ t ∈ targets, ∃ i : Nat, s.labels[i]? = some t.1 ∧ s.loaded[i]? = some t.2.isSome := by
    intro t ht
    obtain ⟨p, _, hpl, hpc⟩ := htmem t ht
    exact ⟨p, hpl, by rw [hinv.flags, List.getElem?_map, hpc]; rfl⟩
  have hex : ∃ t ∈ targets, t.2 = none := by
    obtain ⟨t, ht, htl⟩ := htps p0 hp0
    refine ⟨t, ht, ?_⟩
    obtain ⟨i, hil, hif⟩ := hflag t ht
    have : i = p0 := nodup_idx_unique hinv.labelsNodup hil htl
    subst this
    rw [hp0f] at hif
    cases h2 : t.2 with
    | none => rfl
    | some f => rw [h2] at hif; cases hif
  have hal : Aligned (fun _ _ => True) targets
      (if isElement then targets.map fun t => store (some t.1) t.1
       else storeReaderFrames store pinnedReader s.maxPersist ((targets.filter fun t => t.2.isNone).map (·.1))) := by
    cases isElement with
    | true =>
      simp only [if_true]
      exact aligned_element (P := fun _ _ => True) (fun l => store (some l) l) (fun _ => trivial) targets
        (by rw [htlen]; exact hel rfl)
    | false =>
      simp only [Bool.false_eq_true, if_false]
      rw [storeReaderFrames_eq]
      exact aligned_deferred (P := fun _ _ => True) _ (fun _ => trivial) targets
  obtain ⟨ls', hrun, hl', hsame, harr⟩ := loopRun_fail (st := st) (mp := s.maxPersist) hinv.labelsNodup hfail s.loaded targets
    { array := s.cache, loaded := s.loaded, lru := s.lru, count := s.loaded.count true,
      reader := (if isElement then targets.map fun t => store (some t.1) t.1
        else storeReaderFrames store pinnedReader s.maxPersist ((targets.filter fun t => t.2.isNone).map (·.1))) }
    rfl (fun k hk => hinv.bound k hk) hflag hal hex hinv.lruNodup
    (fun hmp i l hi hl => (hinv.lruMem hmp i l hi).mp hl)
  rw [hrun]
  simp only at harr
  refine ⟨_, rfl, ?_, hl', harr, rfl, rfl, hsame⟩
  exact { labelsNodup := hinv.labelsNodup, lenCache := (by show ls'.array.length = _; rw [harr]; exact hinv.lenCache),
          flags := (by show ls'.loaded = ls'.array.map _; rw [hl', harr]; exact hinv.flags),
          allFlag := rfl,
          content := (by intro i l f hi hc; exact hinv.content i l f hi (by rw [← harr]; exact hc)),
          lruNone := (by
            intro hmp
            have h0 := hinv.lruNone hmp
            have hlen := hsame.2.2
            show ls'.lru = []
            rw [h0] at hlen
            exact List.eq_nil_of_length_eq_zero hlen),
          lruNodup := hsame.1,
          lruMem := (by
            intro hmp i l hi
            show ls'.loaded[i]? = some true ↔ l ∈ ls'.lru
            rw [hl', hsame.2.1]; exact hinv.lruMem hmp i l hi),
          lruSub := (by intro l hl; exact hinv.lruSub l ((hsame.2.1 l).mp hl)),
          lruLen := (by
            intro hmp
            show ls'.lru.length = ls'.loaded.count true
            rw [hl', hsame.2.2]; exact hinv.lruLen hmp),
          bound := (by intro k hk; show ls'.loaded.count true ≤ k; rw [hl']; exact hinv.bound k hk) }

end SF.Bus


namespace SF.Bus
open SF
variable {φ : Type}

/-! ### `Bus.__init__` / `_derive` -/

/-- the initial recency list: labels of the loaded entries in index order -/
def lruOf (series : List (Nat × Option φ)) : List Nat :=
  series.filterMap fun lv => if lv.2.isSome then some lv.1 else none

theorem lruOf_mem {series : List (Nat × Option φ)} {l : Nat} :
    l ∈ lruOf series ↔ ∃ t ∈ series, t.1 = l ∧ t.2.isSome = true := by
  unfold lruOf
  simp only [List.mem_filterMap]
  constructor
  · rintro ⟨t, ht, h⟩
    split at h
    · simp only [Option.some.injEq] at h; exact ⟨t, ht, h, by assumption⟩
    · cases h
  · rintro ⟨t, ht, h1, h2⟩
    exact ⟨t, ht, by simp [h2, h1]⟩

theorem lruOf_length : ∀ series : List (Nat × Option φ),
    (lruOf series).length = (series.map fun lv => lv.2.isSome).count true := by
  intro series
  induction series with
  | nil => rfl
  | cons t ts ih =>
    unfold lruOf at ih ⊢
    simp only [List.filterMap_cons, List.map_cons, List.count_cons]
    cases h : t.2.isSome <;> simp [ih]

theorem lruOf_nodup : ∀ series : List (Nat × Option φ), (series.map (·.1)).Nodup → (lruOf series).Nodup := by
  intro series
  induction series with
  | nil => intro _; exact List.nodup_nil
  | cons t ts ih =>
    intro hn
    simp only [List.map_cons, List.nodup_cons] at hn
    have hrest := ih hn.2
    show (lruOf (t :: ts)).Nodup
    unfold lruOf at hrest ⊢
    simp only [List.filterMap_cons]
    cases h : t.2.isSome
    · simpa using hrest
    · simp only [if_true, List.nodup_cons]
      refine ⟨?_, hrest⟩
      intro hin
      obtain ⟨t', ht', h1, _⟩ := lruOf_mem.mp hin
      exact hn.1 (List.mem_map.mpr ⟨t', ht', h1⟩)

theorem init_ok (series : List (Nat × Option φ)) (mp : Option Nat)
    (hb : ∀ k, mp = some k → (series.map fun lv => lv.2.isSome).count true ≤ k) :
    ∃ d, BusSt.init series mp = .ok d := by
  unfold BusSt.init
  cases mp with
  | none => simp [tooMany]
  | some k =>
    have := hb k rfl
    simp only
    rw [if_neg (by simp [tooMany]; omega)]
    exact ⟨_, rfl⟩

theorem init_inv {P : Nat → φ → Prop} {series : List (Nat × Option φ)} {mp : Option Nat} {d : BusSt φ}
    (hn : (series.map (·.1)).Nodup) (hP : ∀ t ∈ series, ∀ f, t.2 = some f → P t.1 f)
    (h : BusSt.init series mp = .ok d) :
    Inv P d ∧ d.labels = series.map (·.1) ∧ d.cache = series.map (·.2) ∧ d.maxPersist = mp := by
  unfold BusSt.init at h
  simp only at h
  by_cases hc : tooMany mp ((series.map fun lv => lv.2.isSome).count true) = true
  · rw [if_pos hc] at h; cases h
  · rw [if_neg hc] at h
    have hnot := hc
    simp only [Except.ok.injEq] at h
    subst h
    refine ⟨?_, rfl, rfl, rfl⟩
    have hser : ∀ (i l : Nat), (series.map (·.1))[i]? = some l → ∃ t, series[i]? = some t ∧ t.1 = l := by
      intro i l hi
      simp only [List.getElem?_map, Option.map_eq_some_iff] at hi
      exact hi
    exact {
      labelsNodup := hn
      lenCache := by simp
      flags := by simp [List.map_map, Function.comp_def]
      allFlag := rfl
      content := by
        intro i l f hi hc
        obtain ⟨t, ht, htl⟩ := hser i l hi
        simp only [List.getElem?_map, ht, Option.map_some, Option.some.injEq] at hc
        subst htl
        exact hP t (List.mem_of_getElem? ht) f hc
      lruNone := by intro hmp; simp only at hmp; subst hmp; rfl
      lruNodup := by
        show (if mp.isSome then _ else _ : List Nat).Nodup
        split
        · exact lruOf_nodup series hn
        · exact List.nodup_nil
      lruMem := by
        intro hmp i l hi
        simp only at hmp
        show (series.map fun lv => lv.2.isSome)[i]? = some true ↔ l ∈ (if mp.isSome then _ else _ : List Nat)
        rw [if_pos hmp]
        obtain ⟨t, ht, htl⟩ := hser i l hi
        simp only [List.getElem?_map, ht, Option.map_some, Option.some.injEq]
        constructor
        · intro hs
          exact lruOf_mem.mpr ⟨t, List.mem_of_getElem? ht, htl, hs⟩
        · intro hin
          obtain ⟨t', ht', h1, h2⟩ := lruOf_mem.mp hin
          obtain ⟨j, hj⟩ := List.mem_iff_getElem?.mp ht'
          have hjl : (series.map (·.1))[j]? = some l := by simp [List.getElem?_map, hj, h1]
          have : i = j := nodup_idx_unique hn hi hjl
          subst this
          rw [ht] at hj; cases hj
          exact h2
      lruSub := by
        intro l hl
        change l ∈ (if mp.isSome then _ else _ : List Nat) at hl
        split at hl
        · obtain ⟨t, ht, h1, _⟩ := lruOf_mem.mp hl
          exact List.mem_map.mpr ⟨t, ht, h1⟩
        · cases hl
      lruLen := by
        intro hmp
        simp only at hmp
        show (if mp.isSome then _ else _ : List Nat).length = _
        rw [if_pos hmp]
        exact lruOf_length series
      bound := by
        intro k hk
        simp only at hk
        subst hk
        simp only [tooMany, decide_eq_true_eq] at hnot
        show (series.map fun lv => lv.2.isSome).count true ≤ k
        omega }

end SF.Bus

namespace SF.Bus
open SF
variable {φ : Type}

theorem mem_pick {l : List Nat} {ps : List Nat} {x : Nat} : x ∈ pick l ps ↔ ∃ p ∈ ps, l[p]? = some x := by
  unfold pick; simp [List.mem_filterMap]

theorem pick_nodup {l : List Nat} (hl : l.Nodup) : ∀ {ps : List Nat}, ps.Nodup → (pick l ps).Nodup := by
  intro ps
  induction ps with
  | nil => intro _; simp [pick]
  | cons p ps ih =>
    intro hn
    rw [List.nodup_cons] at hn
    have ih' := ih hn.2
    unfold pick at ih' ⊢
    simp only [List.filterMap_cons]
    cases hp : l[p]? with
    | none => simpa using ih'
    | some x =>
      simp only [List.nodup_cons]
      refine ⟨?_, ih'⟩
      intro hx
      obtain ⟨q, hq, hqx⟩ := (mem_pick (l := l)).mp (by unfold pick; exact hx)
      have : p = q := nodup_idx_unique hl hp hqx
      subst this
      exact hn.1 hq

/-- `_derive` of a selection of a Bus that satisfies the invariant -/
theorem derive_spec {P : Nat → φ → Prop} {s : BusSt φ} (hinv : Inv P s) {ps : List Nat}
    (hps : ∀ p ∈ ps, p < s.labels.length) (hnd : ps.Nodup) :
    ∃ d, s.derive ps = .ok d ∧ Inv P d ∧ d.labels = pick s.labels ps ∧ d.maxPersist = s.maxPersist := by
  obtain ⟨ts, htg⟩ := targetsOf_some s hinv.lenCache ps hps
  obtain ⟨htlen, htlab, htmem, htps⟩ := targetsOf_spec s ps ts htg
  have hlabn : (ts.map (·.1)).Nodup := by rw [htlab]; exact pick_nodup hinv.labelsNodup hnd
  have hP : ∀ t ∈ ts, ∀ f, t.2 = some f → P t.1 f := by
    intro t ht f hf
    obtain ⟨p, _, hpl, hpc⟩ := htmem t ht
    rw [hf] at hpc
    exact hinv.content p t.1 f hpl hpc
  have hbound : ∀ k, s.maxPersist = some k → (ts.map fun lv => lv.2.isSome).count true ≤ k := by
    intro k hk
    have hmpS : s.maxPersist.isSome = true := by rw [hk]; rfl
    rw [← lruOf_length]
    have hsub : lruOf ts ⊆ s.lru := by
      intro l hl
      obtain ⟨t, ht, h1, h2⟩ := lruOf_mem.mp hl
      obtain ⟨p, _, hpl, hpc⟩ := htmem t ht
      have hload : s.loaded[p]? = some true := by
        rw [hinv.flags, List.getElem?_map, hpc]; simp [h2]
      rw [← h1]
      exact (hinv.lruMem hmpS p t.1 hpl).mp hload
    have := (lruOf_nodup ts hlabn).length_le_of_subset hsub
    have h2 := hinv.lruLen hmpS
    have h3 := hinv.bound k hk
    omega
  obtain ⟨d, hd⟩ := init_ok ts s.maxPersist hbound
  obtain ⟨hdinv, hdl, _, hdm⟩ := init_inv hlabn hP hd
  refine ⟨d, ?_, hdinv, by rw [hdl, htlab], hdm⟩
  unfold BusSt.derive BusSt.selection
  rw [htg]; exact hd

theorem mem_absTouch_self {k : Nat} (hk : 1 ≤ k) (lru : List Nat) (l : Nat) : l ∈ absTouch k lru l := by
  unfold absTouch
  simp only
  split
  · rename_i hgt
    cases he : lru.erase l with
    | nil => rw [he] at hgt; simp at hgt; omega
    | cons a e => simp
  · simp

/-- `_update_series_cache_iloc` under the representation invariant (both max_persist cases): it succeeds with
    the invariant and the abstract-LRU recency list, or a store read failed and the Bus is left with the
    invariant, the same flags and the same cells. -/
theorem updateCache_spec {P : Nat → φ → Prop} {store : StoreFn φ} {pinnedReader : Bool} {st : StoreSt} {s : BusSt φ}
    {ps : List Nat} {isElement : Bool}
    (hinv : Inv P s) (hR1 : ∀ l, P l (store (some l) l))
    (hR2 : ∀ l, P l (store (readerCfgKey pinnedReader s.maxPersist l) l))
    (hps : ∀ p ∈ ps, p < s.labels.length) (hel : isElement = true → ps.length ≤ 1) :
    (∃ s', s.updateCache store pinnedReader st ps isElement = .ok s' ∧ Inv P s' ∧ s'.labels = s.labels ∧
        s'.maxPersist = s.maxPersist ∧
        (∀ k, s.maxPersist = some k → s'.lru = (pick s.labels ps).foldl (absTouch k) s.lru) ∧
        (s.maxPersist = none → (∀ i : Nat, s.loaded[i]? = some true → s'.loaded[i]? = some true) ∧
            ∀ p ∈ ps, s'.loaded[p]? = some true))
    ∨ (∃ e s', s.updateCache store pinnedReader st ps isElement = .error (e, s') ∧ StoreFailed st φ e ∧
        Inv P s' ∧ s'.labels = s.labels ∧ s'.maxPersist = s.maxPersist ∧ s'.loaded = s.loaded ∧
        s'.cache = s.cache) := by
  have hfailcase : ∀ e s', s.updateCache store pinnedReader st ps isElement = .error (e, s') → StoreFailed st φ e →
      (∃ p ∈ ps, s.loaded[p]? = some false) →
      Inv P s' ∧ s'.labels = s.labels ∧ s'.maxPersist = s.maxPersist ∧ s'.loaded = s.loaded ∧ s'.cache = s.cache := by
    intro e s' hupd hsf hneed
    obtain ⟨f, hf⟩ := hsf
    rcases StoreSt.read_uniform φ st with hok | ⟨e', hall⟩
    · rw [hok f] at hf; cases hf
    · have : e' = e := by rw [hall f] at hf; cases hf; rfl
      subst this
      obtain ⟨s2, h1, h2, h3, h4, h5, h6, _⟩ := updateCache_fail (store := store) (pinnedReader := pinnedReader)
        (isElement := isElement) hinv hall hps hel hneed
      rw [h1] at hupd
      simp only [Except.error.injEq, Prod.mk.injEq, true_and] at hupd
      subst hupd
      exact ⟨h2, h5, h6, h3, h4⟩
  rcases Option.eq_none_or_eq_some s.maxPersist with hmp | ⟨k, hmp⟩
  · rcases updateCache_none (st := st) hinv hmp hR1 (by rw [← hmp]; exact hR2) hps hel with
      ⟨s', h1, h2, h3, h4, h5, h6⟩ | ⟨e, s', h1, h2, h3⟩
    · left
      exact ⟨s', h1, h2, h3, by rw [h4, hmp], (by intro k hk; rw [hmp] at hk; cases hk), fun _ => ⟨h5, h6⟩⟩
    · right; exact ⟨e, s', h1, h2, hfailcase e s' h1 h2 h3⟩
  · rcases updateCache_some (st := st) hinv hmp hR1 (by rw [← hmp]; exact hR2) hps hel with
      ⟨s', h1, h2, h3, h4, h5⟩ | ⟨e, s', h1, h2, h3⟩
    · left
      refine ⟨s', h1, h2, h3, by rw [h4, hmp], ?_, (by intro h; rw [hmp] at h; cases h)⟩
      intro k' hk'; rw [hmp] at hk'; cases hk'; exact h5
    · right; exact ⟨e, s', h1, h2, hfailcase e s' h1 h2 h3⟩

/-- outcome of an extraction on a Bus that satisfies the invariant -/
theorem extractIloc_spec {P : Nat → φ → Prop} {store : StoreFn φ} {pinnedReader : Bool} {st : StoreSt} {s : BusSt φ}
    {k : Key}
    (hinv : Inv P s) (hR1 : ∀ l, P l (store (some l) l))
    (hR2 : ∀ l, P l (store (readerCfgKey pinnedReader s.maxPersist l) l)) :
    (∃ s' r ps, s.extractIloc store pinnedReader st k = .ok (s', r) ∧ Inv P s' ∧ s'.labels = s.labels ∧
        s'.maxPersist = s.maxPersist ∧ k.positions s.labels.length = .ok ps ∧
        (∀ kk, s.maxPersist = some kk → s'.lru = (pick s.labels ps).foldl (absTouch kk) s.lru) ∧
        (s.maxPersist = none → (∀ i : Nat, s.loaded[i]? = some true → s'.loaded[i]? = some true) ∧
            ∀ p ∈ ps, s'.loaded[p]? = some true) ∧
        (match r with
         | .element v => k.isMulti = false ∧ ∃ p, ps = [p] ∧ p < s.labels.length ∧ s'.cache[p]? = some v
         | .bus d => k.isMulti = true ∧ Inv P d ∧ d.labels = pick s.labels ps ∧ d.maxPersist = s.maxPersist))
    ∨ (∃ e s', s.extractIloc store pinnedReader st k = .error (e, s') ∧
        Inv P s' ∧ s'.labels = s.labels ∧ s'.maxPersist = s.maxPersist ∧ s'.loaded = s.loaded ∧ s'.cache = s.cache ∧
        (StoreFailed st φ e ∨ (s' = s ∧ (k.positions s.labels.length = .error e ∨ e = .nonUnique)))) := by
  unfold BusSt.extractIloc
  cases hpos : k.positions s.labels.length with
  | error e => right; exact ⟨e, s, rfl, hinv, rfl, rfl, rfl, rfl, .inr ⟨rfl, .inl rfl⟩⟩
  | ok ps =>
    simp only
    have hps := SF.C04.key_positions_in_range hpos
    by_cases hdup : (k.isMulti && !decide ps.Nodup) = true
    · rw [if_pos hdup]; right; exact ⟨_, s, rfl, hinv, rfl, rfl, rfl, rfl, .inr ⟨rfl, .inr rfl⟩⟩
    · rw [if_neg hdup]
      have hel : (!k.isMulti) = true → ps.length ≤ 1 := by
        intro h
        cases k with
        | int i => obtain ⟨p, hp, _⟩ := SF.C04.int_position hpos; rw [hp]; simp
        | _ => simp [Key.isMulti] at h
      rcases updateCache_spec (st := st) (isElement := !k.isMulti) hinv hR1 hR2 hps hel with
        ⟨s', hupd, hinv', hlab', hmp', hlru', hnone'⟩ | ⟨e, s', hupd, hfail, hfi, hfl, hfm, hfld, hfc⟩
      · rw [hupd]
        simp only
        cases hm : k.isMulti with
        | true =>
          simp only [if_true]
          have hnd : ps.Nodup := by
            rw [hm] at hdup
            simpa using hdup
          obtain ⟨d, hd, hdinv, hdl, hdm⟩ := derive_spec hinv' (ps := ps) (by rw [hlab']; exact hps) hnd
          rw [hd]
          left
          exact ⟨s', .bus d, ps, rfl, hinv', hlab', hmp', (by first | rfl | trivial), hlru', hnone', (by first | rfl | trivial), hdinv, by rw [hdl, hlab'], by rw [hdm, hmp']⟩
        | false =>
          simp only [Bool.false_eq_true, if_false]
          cases k with
          | int i =>
            obtain ⟨p, hp, hpn, _⟩ := SF.C04.int_position hpos
            subst hp
            have hpc : p < s'.cache.length := by rw [hinv'.lenCache, hlab']; exact hpn
            simp only [List.getElem?_eq_getElem hpc]
            left
            exact ⟨s', .element s'.cache[p], [p], rfl, hinv', hlab', hmp', (by first | rfl | trivial), hlru', hnone', (by first | rfl | trivial), p, rfl, hpn,
              List.getElem?_eq_getElem hpc⟩
          | _ => simp [Key.isMulti] at hm
      · rw [hupd]
        right
        exact ⟨e, s', rfl, hfi, hfl, hfm, hfld, hfc, .inl hfail⟩

end SF.Bus

namespace SF.Bus
open SF
variable {φ : Type}

theorem extractIloc_inv {P : Nat → φ → Prop} {store : StoreFn φ} {pinnedReader : Bool} {st : StoreSt} {s s' : BusSt φ}
    {k : Key} {r : Extracted φ}
    (hinv : Inv P s) (hR1 : ∀ l, P l (store (some l) l))
    (hR2 : ∀ l, P l (store (readerCfgKey pinnedReader s.maxPersist l) l))
    (h : s.extractIloc store pinnedReader st k = .ok (s', r)) :
    Inv P s' ∧ s'.labels = s.labels ∧ s'.maxPersist = s.maxPersist ∧
    (∀ d, r = .bus d → Inv P d ∧ d.maxPersist = s.maxPersist) := by
  rcases extractIloc_spec (st := st) (k := k) hinv hR1 hR2 with
    ⟨s1, r1, ps, h1, h2, h3, h4, _, _, _, h8⟩ | ⟨e, s1, h1, _⟩
  · rw [h1] at h
    simp only [Except.ok.injEq, Prod.mk.injEq] at h
    obtain ⟨rfl, rfl⟩ := h
    refine ⟨h2, h3, h4, ?_⟩
    intro d hd
    subst hd
    exact ⟨h8.2.1, h8.2.2.2⟩
  · rw [h1] at h; cases h

/-- element access delivers a Frame (never the placeholder) when max_persist is None or ≥ 1 -/
theorem extractIloc_element_some {P : Nat → φ → Prop} {store : StoreFn φ} {pinnedReader : Bool} {st : StoreSt}
    {s s' : BusSt φ} {k : Key} {v : Option φ}
    (hinv : Inv P s) (hR1 : ∀ l, P l (store (some l) l))
    (hR2 : ∀ l, P l (store (readerCfgKey pinnedReader s.maxPersist l) l))
    (hk : ∀ kk, s.maxPersist = some kk → 1 ≤ kk)
    (h : s.extractIloc store pinnedReader st k = .ok (s', .element v)) :
    ∃ p l f, k.positions s.labels.length = .ok [p] ∧ s.labels[p]? = some l ∧ v = some f ∧ P l f := by
  rcases extractIloc_spec (st := st) (k := k) hinv hR1 hR2 with
    ⟨s1, r1, ps, h1, h2, h3, h4, h5, h6, h7, h8⟩ | ⟨e, s1, h1, _⟩
  · rw [h1] at h
    simp only [Except.ok.injEq, Prod.mk.injEq] at h
    obtain ⟨rfl, rfl⟩ := h
    obtain ⟨_, p, hp, hpn, hv⟩ := h8
    subst hp
    have hlab : s.labels[p]? = some s.labels[p] := List.getElem?_eq_getElem hpn
    have hloaded : s1.loaded[p]? = some true := by
      rcases Option.eq_none_or_eq_some s.maxPersist with hmp | ⟨kk, hmp⟩
      · exact (h7 hmp).2 p (by simp)
      · have hlru := h6 kk hmp
        have hmpS : s1.maxPersist.isSome = true := by rw [h4, hmp]; rfl
        have hpick : pick s.labels [p] = [s.labels[p]] := by simp [pick, hlab]
        rw [hpick] at hlru
        simp only [List.foldl_cons, List.foldl_nil] at hlru
        have hmem : s.labels[p] ∈ s1.lru := by rw [hlru]; exact mem_absTouch_self (hk kk hmp) _ _
        exact (h2.lruMem hmpS p s.labels[p] (by rw [h3]; exact hlab)).mpr hmem
    rw [h2.flags, List.getElem?_map, hv] at hloaded
    cases v with
    | none => simp at hloaded
    | some f =>
      exact ⟨p, s.labels[p], f, h5, hlab, rfl, h2.content p _ f (by rw [h3]; exact hlab) hv⟩
  · rw [h1] at h; cases h

theorem iterElements_inv {P : Nat → φ → Prop} {store : StoreFn φ} {pinnedReader : Bool} {st : StoreSt}
    (hR1 : ∀ l, P l (store (some l) l)) :
    ∀ (is : List Nat) (s : BusSt φ) (acc : List (Option φ)) (s' : BusSt φ) (vs : List (Option φ)),
      Inv P s → (∀ l, P l (store (readerCfgKey pinnedReader s.maxPersist l) l)) →
      BusSt.iterElements store pinnedReader st s is acc = .ok (s', vs) →
      Inv P s' ∧ s'.labels = s.labels ∧ s'.maxPersist = s.maxPersist := by
  intro is
  induction is with
  | nil =>
    intro s acc s' vs hinv _ h
    unfold BusSt.iterElements at h
    simp only [Except.ok.injEq, Prod.mk.injEq] at h
    obtain ⟨rfl, _⟩ := h
    exact ⟨hinv, rfl, rfl⟩
  | cons i is ih =>
    intro s acc s' vs hinv hR2 h
    unfold BusSt.iterElements at h
    split at h
    · cases h
    · rename_i s1 v hext
      obtain ⟨h1, h2, h3, _⟩ := extractIloc_inv hinv hR1 hR2 hext
      obtain ⟨h4, h5, h6⟩ := ih s1 _ s' vs h1 (by rw [h3]; exact hR2) h
      exact ⟨h4, by rw [h5, h2], by rw [h6, h3]⟩
    · cases h

theorem values_inv {P : Nat → φ → Prop} {store : StoreFn φ} {pinnedReader : Bool} {st : StoreSt} {s s' : BusSt φ}
    {vs : List (Option φ)}
    (hinv : Inv P s) (hR1 : ∀ l, P l (store (some l) l))
    (hR2 : ∀ l, P l (store (readerCfgKey pinnedReader s.maxPersist l) l))
    (h : s.values store pinnedReader st = .ok (s', vs)) :
    Inv P s' ∧ s'.labels = s.labels ∧ s'.maxPersist = s.maxPersist := by
  unfold BusSt.values at h
  split at h
  · rename_i hmp
    split at h
    · split at h
      · cases h
      · rename_i s1 hupd
        simp only [Except.ok.injEq, Prod.mk.injEq] at h
        obtain ⟨rfl, _⟩ := h
        rcases updateCache_spec (st := st) (ps := List.range s.labels.length) (isElement := false) hinv hR1 hR2
            (by intro p hp; exact List.mem_range.mp hp) (by intro h; cases h) with
          ⟨s2, h1, h2, h3, h4, _, _⟩ | ⟨e, s2, h1, _⟩
        · rw [h1] at hupd; cases hupd; exact ⟨h2, h3, h4⟩
        · rw [h1] at hupd; cases hupd
    · simp only [Except.ok.injEq, Prod.mk.injEq] at h
      obtain ⟨rfl, _⟩ := h
      exact ⟨hinv, rfl, rfl⟩
  · exact iterElements_inv hR1 _ s [] s' vs hinv hR2 h

theorem step_inv {P : Nat → φ → Prop} {store : StoreFn φ} {pinnedReader : Bool} {st : StoreSt} {s s' : BusSt φ}
    {op : BusOp}
    (hinv : Inv P s) (hR1 : ∀ l, P l (store (some l) l))
    (hR2 : ∀ l, P l (store (readerCfgKey pinnedReader s.maxPersist l) l))
    (h : s.step store pinnedReader st op = .ok s') :
    Inv P s' ∧ s'.labels = s.labels ∧ s'.maxPersist = s.maxPersist := by
  cases op with
  | access k =>
    simp only [BusSt.step] at h
    split at h
    · cases h
    · rename_i s1 r hext
      simp only [Except.ok.injEq] at h; subst h
      obtain ⟨h1, h2, h3, _⟩ := extractIloc_inv hinv hR1 hR2 hext
      exact ⟨h1, h2, h3⟩
  | values =>
    simp only [BusSt.step] at h
    split at h
    · cases h
    · rename_i s1 vs hv
      simp only [Except.ok.injEq] at h; subst h
      exact values_inv hinv hR1 hR2 hv
  | peek =>
    simp only [BusSt.step, Except.ok.injEq] at h; subst h
    exact ⟨hinv, rfl, rfl⟩

theorem run_inv {P : Nat → φ → Prop} {store : StoreFn φ} {pinnedReader : Bool} {st : StoreSt}
    (hR1 : ∀ l, P l (store (some l) l)) :
    ∀ (ops : List BusOp) (s s' : BusSt φ), Inv P s →
      (∀ l, P l (store (readerCfgKey pinnedReader s.maxPersist l) l)) →
      BusSt.run store pinnedReader st s ops = .ok s' →
      Inv P s' ∧ s'.labels = s.labels ∧ s'.maxPersist = s.maxPersist := by
  intro ops
  induction ops with
  | nil =>
    intro s s' hinv _ h
    unfold BusSt.run at h
    simp only [Except.ok.injEq] at h; subst h
    exact ⟨hinv, rfl, rfl⟩
  | cons op ops ih =>
    intro s s' hinv hR2 h
    unfold BusSt.run at h
    split at h
    · cases h
    · rename_i s1 hstep
      obtain ⟨h1, h2, h3⟩ := step_inv hinv hR1 hR2 hstep
      obtain ⟨h4, h5, h6⟩ := ih s1 s' h1 (by rw [h3]; exact hR2) h
      exact ⟨h4, by rw [h5, h2], by rw [h6, h3]⟩

theorem fromStore_inv {P : Nat → φ → Prop} {labels : List Nat} {mp : Option Nat} {s : BusSt φ}
    (hn : labels.Nodup) (h : BusSt.fromStore labels mp = .ok s) :
    Inv P s ∧ s.labels = labels ∧ s.maxPersist = mp ∧ s.loaded = labels.map fun _ => false := by
  unfold BusSt.fromStore at h
  have hl : (labels.map fun l => ((l, none) : Nat × Option φ)).map (·.1) = labels := by
    simp [List.map_map, Function.comp_def]
  obtain ⟨h1, h2, h3, h4⟩ := init_inv (P := P) (by rw [hl]; exact hn) (by
    intro t ht f hf
    simp only [List.mem_map] at ht
    obtain ⟨l, _, rfl⟩ := ht
    cases hf) h
  refine ⟨h1, by rw [h2, hl], h4, ?_⟩
  rw [h1.flags, h3]
  simp [List.map_map, Function.comp_def]

end SF.Bus



namespace SF.Bus
open SF
variable {φ : Type}

/-! ### `items()` / `values` deliver every frame -/

theorem iterElements_values {P : Nat → φ → Prop} {store : StoreFn φ} {pinnedReader : Bool} {st : StoreSt}
    (hR1 : ∀ l, P l (store (some l) l)) :
    ∀ (is : List Nat) (s : BusSt φ) (acc : List (Option φ)) (s' : BusSt φ) (vs : List (Option φ)),
      Inv P s → (∀ l, P l (store (readerCfgKey pinnedReader s.maxPersist l) l)) →
      (∀ kk, s.maxPersist = some kk → 1 ≤ kk) → (∀ i ∈ is, i < s.labels.length) →
      BusSt.iterElements store pinnedReader st s is acc = .ok (s', vs) →
      ∃ ws : List (Option φ), vs = acc ++ ws ∧ ws.length = is.length ∧
        ∀ (j i : Nat), is[j]? = some i → ∃ l f, s.labels[i]? = some l ∧ ws[j]? = some (some f) ∧ P l f := by
  intro is
  induction is with
  | nil =>
    intro s acc s' vs _ _ _ _ h
    unfold BusSt.iterElements at h
    simp only [Except.ok.injEq, Prod.mk.injEq] at h
    obtain ⟨_, rfl⟩ := h
    exact ⟨[], by simp, rfl, by intro j i hj; simp at hj⟩
  | cons i is ih =>
    intro s acc s' vs hinv hR2 hk his h
    unfold BusSt.iterElements at h
    split at h
    · cases h
    · rename_i s1 v hext
      obtain ⟨h1, h2, h3, _⟩ := extractIloc_inv hinv hR1 hR2 hext
      obtain ⟨p, l, f, hp1, hp2, hp3, hp4⟩ := extractIloc_element_some hinv hR1 hR2 hk hext
      -- the position addressed by the integer key i is i
      have hi : i < s.labels.length := his i (by simp)
      have hpi : p = i := by
        obtain ⟨q, hq, hqn, hq2⟩ := SF.C04.int_position hp1
        simp only [List.cons.injEq, and_true] at hq
        subst hq
        rcases hq2 with hq2 | hq2 <;> omega
      subst hpi
      obtain ⟨ws, hws1, hws2, hws3⟩ := ih s1 _ s' vs h1 (by rw [h3]; exact hR2) (by rw [h3]; exact hk)
        (by intro i' hi'; rw [h2]; exact his i' (List.mem_cons_of_mem _ hi')) h
      refine ⟨v :: ws, by rw [hws1]; simp, by simp [hws2], ?_⟩
      intro j i' hj
      cases j with
      | zero =>
        simp only [List.getElem?_cons_zero, Option.some.injEq] at hj
        subst hj
        exact ⟨l, f, hp2, by simp [hp3], hp4⟩
      | succ j =>
        simp only [List.getElem?_cons_succ] at hj
        obtain ⟨l', f', hl', hw', hP'⟩ := hws3 j i' hj
        exact ⟨l', f', by rw [← h2]; exact hl', by simpa using hw', hP'⟩
    · cases h

end SF.Bus

namespace SF.Bus
open SF
variable {φ : Type}

/-! ### failed operations keep the invariant: full histories -/

theorem extractIloc_err_inv {P : Nat → φ → Prop} {store : StoreFn φ} {pinnedReader : Bool} {st : StoreSt}
    {s s' : BusSt φ} {k : Key} {e : Err}
    (hinv : Inv P s) (hR1 : ∀ l, P l (store (some l) l))
    (hR2 : ∀ l, P l (store (readerCfgKey pinnedReader s.maxPersist l) l))
    (h : s.extractIloc store pinnedReader st k = .error (e, s')) :
    Inv P s' ∧ s'.labels = s.labels ∧ s'.maxPersist = s.maxPersist ∧ s'.loaded = s.loaded ∧ s'.cache = s.cache := by
  rcases extractIloc_spec (st := st) (k := k) hinv hR1 hR2 with
    ⟨s1, r1, ps, h1, _⟩ | ⟨e1, s1, h1, h2, h3, h4, h5, h6, _⟩
  · rw [h1] at h; cases h
  · rw [h1] at h
    simp only [Except.error.injEq, Prod.mk.injEq] at h
    obtain ⟨rfl, rfl⟩ := h
    exact ⟨h2, h3, h4, h5, h6⟩

theorem iterElements_err_inv {P : Nat → φ → Prop} {store : StoreFn φ} {pinnedReader : Bool} {st : StoreSt}
    (hR1 : ∀ l, P l (store (some l) l)) :
    ∀ (is : List Nat) (s : BusSt φ) (acc : List (Option φ)) (s' : BusSt φ) (e : Err),
      Inv P s → (∀ l, P l (store (readerCfgKey pinnedReader s.maxPersist l) l)) →
      BusSt.iterElements store pinnedReader st s is acc = .error (e, s') →
      Inv P s' ∧ s'.labels = s.labels ∧ s'.maxPersist = s.maxPersist := by
  intro is
  induction is with
  | nil => intro s acc s' e _ _ h; unfold BusSt.iterElements at h; cases h
  | cons i is ih =>
    intro s acc s' e hinv hR2 h
    unfold BusSt.iterElements at h
    split at h
    · rename_i e1 hext
      simp only [Except.error.injEq] at h
      subst h
      obtain ⟨h1, h2, h3, _⟩ := extractIloc_err_inv hinv hR1 hR2 hext
      exact ⟨h1, h2, h3⟩
    · rename_i s1 v hext
      obtain ⟨h1, h2, h3, _⟩ := extractIloc_inv hinv hR1 hR2 hext
      obtain ⟨h4, h5, h6⟩ := ih s1 _ s' e h1 (by rw [h3]; exact hR2) h
      exact ⟨h4, by rw [h5, h2], by rw [h6, h3]⟩
    · rename_i s1 d hext
      simp only [Except.error.injEq, Prod.mk.injEq] at h
      obtain ⟨_, rfl⟩ := h
      obtain ⟨h1, h2, h3, _⟩ := extractIloc_inv hinv hR1 hR2 hext
      exact ⟨h1, h2, h3⟩

theorem values_err_inv {P : Nat → φ → Prop} {store : StoreFn φ} {pinnedReader : Bool} {st : StoreSt}
    {s s' : BusSt φ} {e : Err}
    (hinv : Inv P s) (hR1 : ∀ l, P l (store (some l) l))
    (hR2 : ∀ l, P l (store (readerCfgKey pinnedReader s.maxPersist l) l))
    (h : s.values store pinnedReader st = .error (e, s')) :
    Inv P s' ∧ s'.labels = s.labels ∧ s'.maxPersist = s.maxPersist := by
  unfold BusSt.values at h
  split at h
  · split at h
    · split at h
      · rename_i e1 hupd
        simp only [Except.error.injEq] at h
        subst h
        rcases updateCache_spec (st := st) (ps := List.range s.labels.length) (isElement := false) hinv hR1 hR2
            (by intro p hp; exact List.mem_range.mp hp) (by intro h; cases h) with
          ⟨s2, h1, _⟩ | ⟨e2, s2, h1, _, h3, h4, h5, _⟩
        · rw [h1] at hupd; cases hupd
        · rw [h1] at hupd
          simp only [Except.error.injEq, Prod.mk.injEq] at hupd
          obtain ⟨rfl, rfl⟩ := hupd
          exact ⟨h3, h4, h5⟩
      · cases h
    · cases h
  · exact iterElements_err_inv hR1 _ s [] s' e hinv hR2 h

theorem stepState_inv {P : Nat → φ → Prop} {store : StoreFn φ} {pinnedReader : Bool} {st : StoreSt} {s : BusSt φ}
    {op : BusOp}
    (hinv : Inv P s) (hR1 : ∀ l, P l (store (some l) l))
    (hR2 : ∀ l, P l (store (readerCfgKey pinnedReader s.maxPersist l) l)) :
    Inv P (s.stepState store pinnedReader st op) ∧ (s.stepState store pinnedReader st op).labels = s.labels ∧
    (s.stepState store pinnedReader st op).maxPersist = s.maxPersist := by
  unfold BusSt.stepState
  cases hstep : s.step store pinnedReader st op with
  | ok s' => exact step_inv hinv hR1 hR2 hstep
  | error es =>
    obtain ⟨e, s'⟩ := es
    simp only
    cases op with
    | access k =>
      simp only [BusSt.step] at hstep
      split at hstep
      · rename_i e1 hext
        simp only [Except.error.injEq] at hstep
        subst hstep
        obtain ⟨h1, h2, h3, _⟩ := extractIloc_err_inv hinv hR1 hR2 hext
        exact ⟨h1, h2, h3⟩
      · cases hstep
    | values =>
      simp only [BusSt.step] at hstep
      split at hstep
      · rename_i e1 hv
        simp only [Except.error.injEq] at hstep
        subst hstep
        exact values_err_inv hinv hR1 hR2 hv
      · cases hstep
    | peek => simp only [BusSt.step] at hstep; cases hstep

theorem runAll_inv {P : Nat → φ → Prop} {store : StoreFn φ} {pinnedReader : Bool}
    (hR1 : ∀ l, P l (store (some l) l)) :
    ∀ (evs : List HistEv) (st : StoreSt) (s : BusSt φ), Inv P s →
      (∀ l, P l (store (readerCfgKey pinnedReader s.maxPersist l) l)) →
      Inv P (BusSt.runAll store pinnedReader st s evs).2 ∧
      (BusSt.runAll store pinnedReader st s evs).2.labels = s.labels ∧
      (BusSt.runAll store pinnedReader st s evs).2.maxPersist = s.maxPersist := by
  intro evs
  induction evs with
  | nil => intro st s hinv _; exact ⟨hinv, rfl, rfl⟩
  | cons ev evs ih =>
    intro st s hinv hR2
    cases ev with
    | op o =>
      simp only [BusSt.runAll]
      obtain ⟨h1, h2, h3⟩ := stepState_inv (st := st) (op := o) hinv hR1 hR2
      obtain ⟨h4, h5, h6⟩ := ih st _ h1 (by rw [h3]; exact hR2)
      exact ⟨h4, by rw [h5, h2], by rw [h6, h3]⟩
    | file e => simp only [BusSt.runAll]; exact ih _ s hinv hR2
    | storeWrite now => simp only [BusSt.runAll]; exact ih _ s hinv hR2

end SF.Bus
