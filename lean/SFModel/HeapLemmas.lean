/- Helper lemmas for the heap model. -/
import SFModel.Heap

namespace SF

end SF
