/- Helper lemmas for the heap model. -/
import SFModel.Heap

namespace SF
namespace Heap

/-! ### Prop-level characterisations of the Boolean predicates -/

theorem bufFrozen_iff (h : Heap) (b : Nat) :
    h.bufFrozen b = true ↔ ∀ y ∈ h.arrs, y.buf = b → y.writeable = false := by
  simp only [bufFrozen, List.all_eq_true]
  constructor
  · intro H y hy hb
    have := H y hy
    simp [hb] at this
    exact this
  · intro H y hy
    by_cases hb : y.buf = b
    · simp [H y hy hb]
    · simp [hb]

theorem isolated_iff (h : Heap) (a : Nat) :
    h.isolated a = true ↔
      ∃ x, h.arrs[a]? = some x ∧ x.writeable = false ∧
        ∀ y ∈ h.arrs, y.buf = x.buf → y.writeable = false := by
  unfold isolated
  cases hx : h.arrs[a]? with
  | none => simp
  | some x => simp [bufFrozen_iff]

theorem inv_iff (h : Heap) :
    h.inv = true ↔ ∀ c ∈ h.conts, ∀ a ∈ c, h.isolated a = true := by
  simp [inv, List.all_eq_true]

theorem wf_iff (h : Heap) :
    h.wf = true ↔ ∀ y ∈ h.arrs, y.buf < h.bufs.length := by
  simp [wf, List.all_eq_true]

/-! ### Isolation is preserved by every event (only `wf` is needed) -/

theorem isolated_step (h : Heap) (e : Ev) (hw : h.wf = true) (a : Nat)
    (hiso : h.isolated a = true) : (h.step e).isolated a = true := by
  rw [isolated_iff] at hiso ⊢
  rw [wf_iff] at hw
  obtain ⟨x, hx, hxw, hal⟩ := hiso
  have hlt : a < h.arrs.length := by
    have := (List.getElem?_eq_some_iff.1 hx).1; exact this
  cases e with
  | alloc vals =>
    refine ⟨x, ?_, hxw, ?_⟩
    · simp [step, List.getElem?_append_left hlt, hx]
    · intro y hy hb
      simp [step] at hy
      rcases hy with hy | hy
      · exact hal y hy hb
      · have := hw x (List.mem_of_getElem? hx)
        subst hy; simp at hb; omega
  | view b =>
    simp only [step]
    cases hb : h.arrs[b]? with
    | none => exact ⟨x, hx, hxw, hal⟩
    | some z =>
      refine ⟨x, ?_, hxw, ?_⟩
      · simp [List.getElem?_append_left hlt, hx]
      · intro y hy hyb
        simp at hy
        rcases hy with hy | hy
        · exact hal y hy hyb
        · subst hy; simp at hyb ⊢
          exact hal z (List.mem_of_getElem? hb) hyb
  | copy b =>
    simp only [step]
    cases hb : h.arrs[b]? with
    | none => exact ⟨x, hx, hxw, hal⟩
    | some z =>
      refine ⟨x, ?_, hxw, ?_⟩
      · simp [List.getElem?_append_left hlt, hx]
      · intro y hy hyb
        simp at hy
        rcases hy with hy | hy
        · exact hal y hy hyb
        · have := hw x (List.mem_of_getElem? hx)
          subst hy; simp at hyb; omega
  | freeze b =>
    simp only [step]
    cases hb : h.arrs[b]? with
    | none => exact ⟨x, hx, hxw, hal⟩
    | some z =>
      have hal' : ∀ y ∈ h.arrs.set b ⟨z.buf, false⟩, y.buf = x.buf → y.writeable = false := by
        intro y hy hyb
        rcases List.mem_or_eq_of_mem_set hy with hy | hy
        · exact hal y hy hyb
        · subst hy; rfl
      by_cases hab : b = a
      · subst hab
        rw [hx] at hb; cases hb
        exact ⟨⟨x.buf, false⟩, by simp [hlt], rfl, hal'⟩
      · exact ⟨x, by simp [List.getElem?_set_ne hab, hx], hxw, hal'⟩
  | filter b =>
    simp only [step]
    cases hb : h.arrs[b]? with
    | none => exact ⟨x, hx, hxw, hal⟩
    | some z =>
      simp only
      split
      · refine ⟨x, ?_, hxw, ?_⟩
        · simp [List.getElem?_append_left hlt, hx]
        · intro y hy hyb
          simp at hy
          rcases hy with hy | hy
          · exact hal y hy hyb
          · subst hy; rfl
      · exact ⟨x, hx, hxw, hal⟩
  | construct as => exact ⟨x, hx, hxw, hal⟩
  | write b i v =>
    simp only [step]
    cases hb : h.arrs[b]? with
    | none => exact ⟨x, hx, hxw, hal⟩
    | some z => exact ⟨x, hx, hxw, hal⟩

/-! ### Well-formedness, containers and the invariant along a step -/

theorem wf_step (h : Heap) (e : Ev) (hw : h.wf = true) : (h.step e).wf = true := by
  rw [wf_iff] at hw ⊢
  cases e with
  | alloc vals =>
    intro y hy
    simp [step] at hy ⊢
    rcases hy with hy | hy
    · have := hw y hy; omega
    · subst hy; simp
  | view b =>
    simp only [step]
    cases hb : h.arrs[b]? with
    | none => exact hw
    | some z =>
      intro y hy
      simp at hy ⊢
      rcases hy with hy | hy
      · exact hw y hy
      · subst hy; exact hw z (List.mem_of_getElem? hb)
  | copy b =>
    simp only [step]
    cases hb : h.arrs[b]? with
    | none => exact hw
    | some z =>
      intro y hy
      simp at hy ⊢
      rcases hy with hy | hy
      · have := hw y hy; omega
      · subst hy; simp
  | freeze b =>
    simp only [step]
    cases hb : h.arrs[b]? with
    | none => exact hw
    | some z =>
      intro y hy
      rcases List.mem_or_eq_of_mem_set hy with hy | hy
      · exact hw y hy
      · subst hy; exact hw z (List.mem_of_getElem? hb)
  | filter b =>
    simp only [step]
    cases hb : h.arrs[b]? with
    | none => exact hw
    | some z =>
      simp only
      split
      · intro y hy
        simp at hy ⊢
        rcases hy with hy | hy
        · have := hw y hy; omega
        · subst hy; simp
      · exact hw
  | construct as => exact hw
  | write b i v =>
    simp only [step]
    cases hb : h.arrs[b]? with
    | none => exact hw
    | some z =>
      intro y hy
      simp at hy ⊢
      exact hw y hy

/-- containers are only ever appended -/
theorem conts_step (h : Heap) (e : Ev) :
    (h.step e).conts = h.conts ∨ ∃ as, e = .construct as ∧ (h.step e).conts = h.conts ++ [as] := by
  cases e with
  | construct as => exact Or.inr ⟨as, rfl, rfl⟩
  | alloc vals => exact Or.inl rfl
  | view b => left; simp only [step]; split <;> rfl
  | copy b => left; simp only [step]; split <;> rfl
  | freeze b => left; simp only [step]; split <;> rfl
  | filter b =>
    left; simp only [step]; split
    · split <;> rfl
    · rfl
  | write b i v => left; simp only [step]; split <;> rfl

theorem conts_length_step (h : Heap) (e : Ev) : h.conts.length ≤ (h.step e).conts.length := by
  rcases conts_step h e with H | ⟨as, _, H⟩ <;> simp [H]

theorem conts_getD_step (h : Heap) (e : Ev) (c : Nat) (hc : c < h.conts.length) :
    (h.step e).conts.getD c [] = h.conts.getD c [] := by
  rcases conts_step h e with H | ⟨as, _, H⟩
  · rw [H]
  · rw [H]; simp [List.getD, List.getElem?_append_left hc]

theorem inv_step (h : Heap) (e : Ev) (hw : h.wf = true) (hi : h.inv = true)
    (hl : h.legal e = true) : (h.step e).inv = true := by
  rw [inv_iff] at hi ⊢
  intro c hc a ha
  apply isolated_step h e hw
  rcases conts_step h e with H | ⟨as, he, H⟩
  · rw [H] at hc; exact hi c hc a ha
  · rw [H] at hc
    simp at hc
    rcases hc with hc | hc
    · exact hi c hc a ha
    · subst hc; subst he
      simp [legal] at hl
      exact hl a ha

/-! ### Reads through isolated arrays, snapshots -/

/-- the content read through array `a` -/
def read (h : Heap) (a : Nat) : List Int :=
  match h.arrs[a]? with
  | some x => h.bufs.getD x.buf []
  | none => []

theorem snapshot_eq_map_read (h : Heap) (c : Nat) :
    h.snapshot c = (h.conts.getD c []).map h.read := rfl

/-- what is read through an isolated array is unchanged by every legal event -/
theorem read_step (h : Heap) (e : Ev) (hw : h.wf = true) (hl : h.legal e = true) (a : Nat)
    (hiso : h.isolated a = true) : (h.step e).read a = h.read a := by
  rw [isolated_iff] at hiso
  rw [wf_iff] at hw
  obtain ⟨x, hx, hxw, hal⟩ := hiso
  have hlt : a < h.arrs.length := (List.getElem?_eq_some_iff.1 hx).1
  have hxb : x.buf < h.bufs.length := hw x (List.mem_of_getElem? hx)
  cases e with
  | alloc vals =>
    simp [read, step, List.getElem?_append_left hlt, hx, List.getElem?_append_left hxb]
  | view b =>
    simp only [step]
    cases hb : h.arrs[b]? with
    | none => rfl
    | some z => simp [read, List.getElem?_append_left hlt, hx]
  | copy b =>
    simp only [step]
    cases hb : h.arrs[b]? with
    | none => rfl
    | some z =>
      simp [read, List.getElem?_append_left hlt, hx, List.getElem?_append_left hxb]
  | freeze b =>
    simp only [step]
    cases hb : h.arrs[b]? with
    | none => rfl
    | some z =>
      by_cases hab : b = a
      · subst hab
        rw [hx] at hb; cases hb
        obtain ⟨_, hget⟩ := List.getElem?_eq_some_iff.1 hx
        simp [read, hlt, hget]
      · simp [read, List.getElem?_set_ne hab, hx]
  | filter b =>
    simp only [step]
    cases hb : h.arrs[b]? with
    | none => rfl
    | some z =>
      simp only
      split
      · simp [read, List.getElem?_append_left hlt, hx, List.getElem?_append_left hxb]
      · rfl
  | construct as => rfl
  | write b i v =>
    simp only [step]
    cases hb : h.arrs[b]? with
    | none => rfl
    | some z =>
      have hzw : z.writeable = true := by simpa [legal, hb] using hl
      have hne : z.buf ≠ x.buf := by
        intro heq
        have := hal z (List.mem_of_getElem? hb) heq
        rw [hzw] at this; cases this
      simp [read, hx, List.getElem?_set_ne hne]

theorem snapshot_step (h : Heap) (e : Ev) (hw : h.wf = true) (hi : h.inv = true)
    (hl : h.legal e = true) (c : Nat) (hc : c < h.conts.length) :
    (h.step e).snapshot c = h.snapshot c := by
  rw [snapshot_eq_map_read, snapshot_eq_map_read, conts_getD_step h e c hc]
  apply List.map_congr_left
  intro a ha
  apply read_step h e hw hl
  rw [inv_iff] at hi
  refine hi _ ?_ a ha
  simp [List.getD, List.getElem?_eq_getElem hc]

/-! ### Histories -/

theorem run_nil (h : Heap) : h.run [] = h := rfl

theorem run_cons (h : Heap) (e : Ev) (es : List Ev) :
    h.run (e :: es) = (if h.legal e then h.step e else h).run es := rfl

end Heap
end SF
