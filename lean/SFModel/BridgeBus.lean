/-
  Bridge lemmas for C17 (Bus cache / LRU bookkeeping): the definitions regenerated from the current
  static_frame/core/bus.py by tools/py2lean_bus.py (`SF.Gen.Bus.update_series_cache_iloc*`) equal the
  hand-mirrored definitions of SFModel/Bus.lean (`touch`, `loopBody`, `loopRun`, `BusSt.updateCache`,
  `BusSt.extractIloc`, `BusSt.step`) that the C17 theorems are about.  Re-checked by the kernel on every
  run against what the source says *now*.

  Reading of the translation's vocabulary (SFModel/BusSem.lean) in the model's:
    * `objOf s`  : the attributes `_loaded`, `_loaded_all`, keys of `_last_accessed`, cells of `_series` of the
                   model state `s`; `envOf …` : labels, max_persist, a store that is defined, and the two store
                   reads as the decorated read of the model (`st.read` of the frame the store function builds:
                   `store (some l) l` for `self._store.read(label, config=self._config[label])`,
                   `store (readerCfgKey pinnedReader mp l) l` for what `_store_reader` yields);
    * a generator of frames (`Reader`) is the model's list of frames still to come (`readerFrames`);
    * `loaded_count : Int` is the model's `count : Nat`.
  Hypotheses (`Shape`): the arrays `_loaded` and `_series.values` have the length of the index and the keys of
  `_last_accessed` are a dict's keys (no duplicates) - facts of the representation, not of the algorithm.
-/
import SFModel.BusLemmas
import SFModel.Gen.Bus

set_option linter.unusedSimpArgs false
set_option linter.unusedVariables false

namespace SF.BridgeBus
open SF SF.Bus SF.BusSem

variable {φ : Type}

/-! ### reading the model state as the translation's object -/

/-- the attributes the function writes -/
def objOf (s : BusSt φ) : Obj φ :=
  { loaded := s.loaded, loaded_all := s.loadedAll, last_accessed := s.lru, series := s.cache }

/-- … and back: labels and max_persist are never written -/
def busOf (s : BusSt φ) (o : Obj φ) : BusSt φ :=
  { s with loaded := o.loaded, loadedAll := o.loaded_all, lru := o.last_accessed, cache := o.series }

/-- the frame a generator of kind `via` yields for label `l` -/
def frameOf (store : StoreFn φ) (pinnedReader : Bool) (mp : Option Nat) (via : Bool) (l : Nat) : φ :=
  if via then store (readerCfgKey pinnedReader mp l) l else store (some l) l

/-- what the function only reads: the store reads are the model's decorated read -/
def envOf (store : StoreFn φ) (pinnedReader : Bool) (st : StoreSt) (labels : List Nat) (mp : Option Nat) : Env φ :=
  { index := labels, max_persist := mp, store_defined := true,
    store_read := fun l => st.read (frameOf store pinnedReader mp false l),
    reader_next := fun l => st.read (frameOf store pinnedReader mp true l) }

/-- the model's list of frames a generator still has to yield -/
def readerFrames (store : StoreFn φ) (pinnedReader : Bool) (mp : Option Nat) (r : Reader) : List φ :=
  r.pending.map (frameOf store pinnedReader mp r.viaStoreReader)

/-- facts of the representation: array lengths, dict keys -/
structure Shape (s : BusSt φ) : Prop where
  lenLoaded : s.loaded.length = s.labels.length
  lenCache : s.cache.length = s.labels.length
  lruNodup : s.lru.Nodup

/-! ### primitives -/

theorem locToIloc_eq (labels : List Nat) (l : Nat) : BusSem.locToIloc labels l = Bus.locToIloc labels l := rfl

theorem locToIloc_lt {labels : List Nat} {l i : Nat} (h : Bus.locToIloc labels l = .ok i) : i < labels.length := by
  have := Bus.locToIloc_eq h
  exact (List.getElem?_eq_some_iff.mp this).1

theorem arrGet_eq {α : Type} (a : List α) (i : Nat) :
    arrGet a i = match a[i]? with | some v => .ok v | none => .error .lookup := rfl

theorem arrGet_of_lt {α : Type} {a : List α} {i : Nat} (h : i < a.length) : arrGet a i = .ok a[i] := by
  simp [arrGet, List.getElem?_eq_getElem h]

theorem arrSet_of_lt {α : Type} {a : List α} {i : Nat} (v : α) (h : i < a.length) : arrSet a i v = .ok (a.set i v) := by
  simp [arrSet, h]

/-- `d[k] = d.pop(k, None)` on a dict is the model's `touch` -/
theorem touch_bridge {d : List Nat} (hn : d.Nodup) (l : Nat) : odSet (odPop d l) l = touch d l := by
  unfold odSet odPop touch
  rw [if_neg]
  exact fun h => (List.Nodup.mem_erase_iff hn).mp h |>.1 rfl

/-- `next(iter(d))` then `del d[k]` drops the head -/
theorem evict_bridge (k : Nat) (rest : List Nat) : odFirst (k :: rest) = .ok k ∧ odDel (k :: rest) k = .ok rest := by
  simp [odFirst, odDel]

theorem odFirst_nil : odFirst [] = .error .other := rfl

theorem boolSum_eq (a : List Bool) : boolSum a = ((a.count true : Nat) : Int) := rfl

theorem boolAll_eq (a : List Bool) : boolAll a = a.all id := rfl


/-! ### the load loop -/

/-- loop states in correspondence (`mp` only selects the frames the reader stands for) -/
def LoopRel (store : StoreFn φ) (pinnedReader : Bool) (mp : Option Nat) (labels : List Nat)
    (ls : Loop φ) (o : Obj φ) (a : List (Option φ)) (r : Reader) : Prop :=
  ls.array = a ∧ ls.loaded = o.loaded ∧ ls.lru = o.last_accessed ∧ ls.reader = readerFrames store pinnedReader mp r ∧
  a.length = labels.length ∧ o.loaded.length = labels.length

/-- an exception leaves the same in-place mutations and the same local `array` (the `finally` block stores it);
    `_series` / `_loaded_all` are not written in the loop -/
def ErrRel (o0 : Obj φ) (g : Err × Obj φ × List (Option φ)) (m : Err × Loop φ) : Prop :=
  g.1 = m.1 ∧ m.2.loaded = g.2.1.loaded ∧ m.2.lru = g.2.1.last_accessed ∧ m.2.array = g.2.2 ∧
  g.2.1.series = o0.series ∧ g.2.1.loaded_all = o0.loaded_all

/-- results of a pass / of the loop in correspondence, max_persist None -/
def SimNone (store : StoreFn φ) (pinnedReader : Bool) (labels : List Nat) (o0 : Obj φ)
    (g : Except (Err × Obj φ × List (Option φ) × Reader) (Obj φ × List (Option φ) × Reader)) (m : Except (Err × Loop φ) (Loop φ)) : Prop :=
  match g, m with
  | .ok (o', a', r'), .ok ls' =>
      LoopRel store pinnedReader none labels ls' o' a' r' ∧ o'.series = o0.series ∧ o'.loaded_all = o0.loaded_all
  | .error (e, o', a', _), .error me => ErrRel o0 (e, o', a') me
  | _, _ => False

theorem body_bridge_mpNone (store : StoreFn φ) (pinnedReader : Bool) (st : StoreSt) (labels : List Nat)
    (ls : Loop φ) (o : Obj φ) (a : List (Option φ)) (r : Reader) (label : Nat) (frame : Option φ)
    (h : LoopRel store pinnedReader none labels ls o a r) :
    SimNone store pinnedReader labels o
      (Gen.Bus.update_series_cache_iloc_loop2_body_mpNone (envOf store pinnedReader st labels none) o a r label frame)
      (loopBody st labels none ls (label, frame)) := by
  obtain ⟨ha, hl, hlru, hr, hlenA, hlenL⟩ := h
  obtain ⟨lsa, lsl, lslru, lsc, lsr⟩ := ls
  simp only at ha hl hlru hr
  subst ha hl hlru hr
  unfold Gen.Bus.update_series_cache_iloc_loop2_body_mpNone loopBody
  simp only [envOf, locToIloc_eq]
  cases hidx : Bus.locToIloc labels label with
  | error e => simp [SimNone, ErrRel]
  | ok idx =>
    have hi := locToIloc_lt hidx
    have hiL : idx < o.loaded.length := by omega
    have hiA : idx < lsa.length := by omega
    simp only [arrGet_of_lt hiL, arrSet_of_lt _ hiL, arrSet_of_lt _ hiA, Option.isSome_none, Bool.false_eq_true, if_false,
      List.getElem?_eq_getElem hiL, Loop.mark]
    cases frame with
    | some f =>
      simp only [Loop.fetch, List.getElem?_eq_getElem hiL]
      by_cases hb : o.loaded[idx] = true
      · simp [hb, SimNone, LoopRel, hlenA, hlenL]
      · simp [hb, SimNone, LoopRel, hlenA, hlenL]
    | none =>
      simp only [Loop.fetch, Reader.next, readerFrames]
      cases hp : r.pending with
      | nil => simp [SimNone, ErrRel]
      | cons l rest =>
        simp only [List.map_cons]
        have hread : (if r.viaStoreReader = true then st.read (frameOf store pinnedReader none true l)
            else st.read (frameOf store pinnedReader none false l))
            = st.read (frameOf store pinnedReader none r.viaStoreReader l) := by
          cases r.viaStoreReader <;> simp
        rw [hread]
        cases hrd : st.read (frameOf store pinnedReader none r.viaStoreReader l) with
        | error e => simp [SimNone, ErrRel]
        | ok f =>
          simp only [List.getElem?_eq_getElem hiL]
          by_cases hb : o.loaded[idx] = true
          · simp [hb, SimNone, LoopRel, hlenA, hlenL, readerFrames]
          · simp [hb, SimNone, LoopRel, hlenA, hlenL, readerFrames]


/-- results of a pass / of the loop in correspondence, max_persist = k -/
def SimSome (store : StoreFn φ) (pinnedReader : Bool) (k : Nat) (labels : List Nat) (o0 : Obj φ)
    (g : Except (Err × Obj φ × List (Option φ) × Int × Reader) (Obj φ × List (Option φ) × Int × Reader)) (m : Except (Err × Loop φ) (Loop φ)) : Prop :=
  match g, m with
  | .ok (o', a', c', r'), .ok ls' =>
      LoopRel store pinnedReader (some k) labels ls' o' a' r' ∧ (ls'.count : Int) = c' ∧ o'.last_accessed.Nodup ∧
      o'.series = o0.series ∧ o'.loaded_all = o0.loaded_all
  | .error (e, o', a', _, _), .error me => ErrRel o0 (e, o', a') me
  | _, _ => False

theorem body_bridge_mpSome (store : StoreFn φ) (pinnedReader : Bool) (st : StoreSt) (labels : List Nat) (k : Nat)
    (ls : Loop φ) (o : Obj φ) (a : List (Option φ)) (c : Int) (r : Reader) (label : Nat) (frame : Option φ)
    (h : LoopRel store pinnedReader (some k) labels ls o a r) (hc : (ls.count : Int) = c) (hn : o.last_accessed.Nodup) :
    SimSome store pinnedReader k labels o
      (Gen.Bus.update_series_cache_iloc_loop2_body_mpSome (envOf store pinnedReader st labels (some k)) k o a c r label frame)
      (loopBody st labels (some k) ls (label, frame)) := by
  obtain ⟨ha, hl, hlru, hr, hlenA, hlenL⟩ := h
  obtain ⟨lsa, lsl, lslru, lsc, lsr⟩ := ls
  simp only at ha hl hlru hr hc
  subst ha hl hlru hr hc
  unfold Gen.Bus.update_series_cache_iloc_loop2_body_mpSome loopBody
  simp only [envOf, locToIloc_eq]
  cases hidx : Bus.locToIloc labels label with
  | error e => simp [SimSome, ErrRel]
  | ok idx =>
    have hi := locToIloc_lt hidx
    have hiL : idx < o.loaded.length := by omega
    have hiA : idx < lsa.length := by omega
    have htn := nodup_touch hn label
    simp only [touch_bridge hn, arrGet_of_lt hiL, arrSet_of_lt _ hiL, arrSet_of_lt _ hiA, Option.isSome_some, if_true,
      List.getElem?_eq_getElem hiL, Loop.mark, Loop.evict]
    obtain ⟨x, rest, hx⟩ : ∃ x rest, touch o.last_accessed label = x :: rest := by
      cases ht : touch o.last_accessed label with
      | nil => exact absurd ht (touch_ne_nil _ _)
      | cons x rest => exact ⟨x, rest, rfl⟩
    have hrn : rest.Nodup := by rw [hx] at htn; exact (List.nodup_cons.mp htn).2
    have hxn : x ∉ rest := by rw [hx] at htn; exact (List.nodup_cons.mp htn).1
    simp only [hx, (evict_bridge x rest).1, (evict_bridge x rest).2]
    cases frame with
    | some f =>
      simp only [Loop.fetch]
      simp only [List.getElem?_eq_getElem hiL, hx]
      by_cases hb : o.loaded[idx] = true
      · by_cases hgt : lsc > k
        · have hgi : (lsc : Int) > (k : Int) := by omega
          simp only [hb, hgt, hgi, if_true]
          cases hxi : Bus.locToIloc labels x with
          | error e => simp [SimSome, ErrRel]
          | ok ir =>
            have hir := locToIloc_lt hxi
            simp only [arrSet_of_lt _ (show ir < o.loaded.length by omega), arrSet_of_lt _ (show ir < lsa.length by omega)]
            simp [SimSome, LoopRel, readerFrames, hlenA, hlenL, hrn]
            omega
        · have hgi : ¬ ((lsc : Int) > (k : Int)) := by omega
          simp [hb, hgt, hgi, SimSome, LoopRel, readerFrames, hlenA, hlenL, hx, hxn, hrn]
      · by_cases hgt : lsc + 1 > k
        · have hgi : (lsc : Int) + 1 > (k : Int) := by omega
          simp only [hb, hgt, hgi, if_true, if_false, Bool.false_eq_true]
          cases hxi : Bus.locToIloc labels x with
          | error e => simp [SimSome, ErrRel]
          | ok ir =>
            have hir := locToIloc_lt hxi
            simp only [arrSet_of_lt _ (show ir < (o.loaded.set idx true).length by simp; omega),
              arrSet_of_lt _ (show ir < (lsa.set idx (some f)).length by simp; omega)]
            simp [SimSome, LoopRel, readerFrames, hlenA, hlenL, hrn]
        · have hgi : ¬ ((lsc : Int) + 1 > (k : Int)) := by omega
          simp [hb, hgt, hgi, SimSome, LoopRel, readerFrames, hlenA, hlenL, hx, hxn, hrn]
    | none =>
      simp only [Loop.fetch, Reader.next, readerFrames]
      cases hp : r.pending with
      | nil => simp [SimSome, ErrRel]
      | cons l rest' =>
        simp only [List.map_cons]
        have hread : (if r.viaStoreReader = true then st.read (frameOf store pinnedReader (some k) true l)
            else st.read (frameOf store pinnedReader (some k) false l))
            = st.read (frameOf store pinnedReader (some k) r.viaStoreReader l) := by
          cases r.viaStoreReader <;> simp
        rw [hread]
        cases hrd : st.read (frameOf store pinnedReader (some k) r.viaStoreReader l) with
        | error e => simp [SimSome, ErrRel]
        | ok f =>
          simp only [List.getElem?_eq_getElem hiL, hx]
          by_cases hb : o.loaded[idx] = true
          · by_cases hgt : lsc > k
            · have hgi : (lsc : Int) > (k : Int) := by omega
              simp only [hb, hgt, hgi, if_true]
              cases hxi : Bus.locToIloc labels x with
              | error e => simp [SimSome, ErrRel]
              | ok ir =>
                have hir := locToIloc_lt hxi
                simp only [arrSet_of_lt _ (show ir < o.loaded.length by omega), arrSet_of_lt _ (show ir < lsa.length by omega)]
                simp [SimSome, LoopRel, readerFrames, hlenA, hlenL, hrn]
                omega
            · have hgi : ¬ ((lsc : Int) > (k : Int)) := by omega
              simp [hb, hgt, hgi, SimSome, LoopRel, readerFrames, hlenA, hlenL, hx, hxn, hrn]
          · by_cases hgt : lsc + 1 > k
            · have hgi : (lsc : Int) + 1 > (k : Int) := by omega
              simp only [hb, hgt, hgi, if_true, if_false, Bool.false_eq_true]
              cases hxi : Bus.locToIloc labels x with
              | error e => simp [SimSome, ErrRel]
              | ok ir =>
                have hir := locToIloc_lt hxi
                simp only [arrSet_of_lt _ (show ir < (o.loaded.set idx true).length by simp; omega),
                  arrSet_of_lt _ (show ir < (lsa.set idx (some f)).length by simp; omega)]
                simp [SimSome, LoopRel, readerFrames, hlenA, hlenL, hrn]
            · have hgi : ¬ ((lsc : Int) + 1 > (k : Int)) := by omega
              simp [hb, hgt, hgi, SimSome, LoopRel, readerFrames, hlenA, hlenL, hx, hxn, hrn]


/-! ### the loops -/

theorem SimNone.mono {store : StoreFn φ} {pinnedReader : Bool} {labels : List Nat} {o o' : Obj φ}
    {g : Except (Err × Obj φ × List (Option φ) × Reader) (Obj φ × List (Option φ) × Reader)} {m : Except (Err × Loop φ) (Loop φ)}
    (h : SimNone store pinnedReader labels o' g m) (h1 : o'.series = o.series) (h2 : o'.loaded_all = o.loaded_all) :
    SimNone store pinnedReader labels o g m := by
  unfold SimNone at h ⊢
  split <;> simp_all [ErrRel]

theorem SimSome.mono {store : StoreFn φ} {pinnedReader : Bool} {k : Nat} {labels : List Nat} {o o' : Obj φ}
    {g : Except (Err × Obj φ × List (Option φ) × Int × Reader) (Obj φ × List (Option φ) × Int × Reader)} {m : Except (Err × Loop φ) (Loop φ)}
    (h : SimSome store pinnedReader k labels o' g m) (h1 : o'.series = o.series) (h2 : o'.loaded_all = o.loaded_all) :
    SimSome store pinnedReader k labels o g m := by
  unfold SimSome at h ⊢
  split <;> simp_all [ErrRel]

/-- the load loop, max_persist None: generated loop ~ `loopRun` -/
theorem loop_bridge_mpNone (store : StoreFn φ) (pinnedReader : Bool) (st : StoreSt) (labels : List Nat) :
    ∀ (ts : List (Nat × Option φ)) (ls : Loop φ) (o : Obj φ) (a : List (Option φ)) (r : Reader),
    LoopRel store pinnedReader none labels ls o a r →
    SimNone store pinnedReader labels o
      (Gen.Bus.update_series_cache_iloc_loop2_mpNone (envOf store pinnedReader st labels none) o a r ts)
      (loopRun st labels none ls ts) := by
  intro ts
  induction ts with
  | nil =>
    intro ls o a r h
    simp [Gen.Bus.update_series_cache_iloc_loop2_mpNone, loopRun, SimNone, h]
  | cons t ts ih =>
    intro ls o a r h
    have hb := body_bridge_mpNone store pinnedReader st labels ls o a r t.1 t.2 h
    unfold Gen.Bus.update_series_cache_iloc_loop2_mpNone loopRun
    unfold SimNone at hb
    split at hb
    · rename_i o' a' r' ls' hg hm
      rw [hg, hm]
      exact (ih ls' o' a' r' hb.1).mono hb.2.1 hb.2.2
    · rename_i ge me hg hm
      rw [hg, hm]
      exact hb
    · exact hb.elim

/-- the load loop, max_persist = k: generated loop ~ `loopRun` -/
theorem loop_bridge_mpSome (store : StoreFn φ) (pinnedReader : Bool) (st : StoreSt) (labels : List Nat) (k : Nat) :
    ∀ (ts : List (Nat × Option φ)) (ls : Loop φ) (o : Obj φ) (a : List (Option φ)) (c : Int) (r : Reader),
    LoopRel store pinnedReader (some k) labels ls o a r → (ls.count : Int) = c → o.last_accessed.Nodup →
    SimSome store pinnedReader k labels o
      (Gen.Bus.update_series_cache_iloc_loop2_mpSome (envOf store pinnedReader st labels (some k)) k o a c r ts)
      (loopRun st labels (some k) ls ts) := by
  intro ts
  induction ts with
  | nil =>
    intro ls o a c r h hc hn
    simp [Gen.Bus.update_series_cache_iloc_loop2_mpSome, loopRun, SimSome, h, hc, hn]
  | cons t ts ih =>
    intro ls o a c r h hc hn
    have hb := body_bridge_mpSome store pinnedReader st labels k ls o a c r t.1 t.2 h hc hn
    unfold Gen.Bus.update_series_cache_iloc_loop2_mpSome loopRun
    unfold SimSome at hb
    split at hb
    · rename_i o' a' c' r' ls' hg hm
      rw [hg, hm]
      exact (ih ls' o' a' c' r' hb.1 hb.2.1 hb.2.2.1).mono hb.2.2.2.1 hb.2.2.2.2
    · rename_i ge me hg hm
      rw [hg, hm]
      exact hb
    · exact hb.elim

/-- the cache-hit loop (`for label in labels: d[label] = d.pop(label, None)`) is a fold of `touch` -/
theorem hit_loop_bridge (env : Env φ) (k : Nat) : ∀ (ls : List Nat) (o : Obj φ), o.last_accessed.Nodup →
    Gen.Bus.update_series_cache_iloc_loop1_mpSome env k o ls
      = .ok { o with last_accessed := ls.foldl touch o.last_accessed } := by
  intro ls
  induction ls with
  | nil => intro o _; rfl
  | cons l ls ih =>
    intro o hn
    unfold Gen.Bus.update_series_cache_iloc_loop1_mpSome Gen.Bus.update_series_cache_iloc_loop1_body_mpSome
    simp only [touch_bridge hn]
    rw [ih _ (nodup_touch hn l)]
    rfl


/-! ### selections by key -/

theorem arrTake_eq {α : Type} (a : List α) : ∀ ps : List Nat,
    arrTake a ps = if (∀ p ∈ ps, p < a.length) then .ok (ps.filterMap (a[·]?)) else .error .lookup := by
  intro ps
  induction ps with
  | nil => simp [arrTake]
  | cons p ps ih =>
    unfold arrTake
    by_cases hp : p < a.length
    · rw [arrGet_of_lt hp, ih]
      by_cases hps : ∀ q ∈ ps, q < a.length
      · rw [if_pos hps]; simp [hp]; exact hps
      · rw [if_neg hps, if_neg]
        intro hall; exact hps fun q hq => hall q (List.mem_cons_of_mem _ hq)
    · have : arrGet a p = .error .lookup := by simp [arrGet, List.getElem?_eq_none (by omega : a.length ≤ p)]
      rw [this]
      simp [hp]

theorem all_filterMap_loaded (a : List Bool) : ∀ ps : List Nat, (∀ p ∈ ps, p < a.length) →
    boolAll (ps.filterMap (a[·]?)) = ps.all fun p => a[p]? == some true := by
  intro ps
  induction ps with
  | nil => intro _; rfl
  | cons p ps ih =>
    intro h
    have hp : p < a.length := h p (by simp)
    have := ih (fun q hq => h q (List.mem_cons_of_mem _ hq))
    simp only [boolAll] at this ⊢
    simp [List.getElem?_eq_getElem hp, this]

theorem targetsOf_out (s : BusSt φ) : ∀ ps : List Nat, ¬ (∀ p ∈ ps, p < s.labels.length) → targetsOf s ps = none := by
  intro ps
  induction ps with
  | nil => intro h; simp at h
  | cons p ps ih =>
    intro h
    rw [targetsOf_cons]
    by_cases hp : p < s.labels.length
    · have hps : ¬ (∀ q ∈ ps, q < s.labels.length) := by
        intro hall; apply h; intro q hq
        rcases List.mem_cons.mp hq with rfl | hq
        · exact hp
        · exact hall q hq
      rw [ih hps]
      split <;> simp
    · rw [List.getElem?_eq_none (by omega : s.labels.length ≤ p)]

/-- `self._series.iloc[key]` / `.items()` for an array key is the model's `targetsOf` -/
theorem seriesTake_eq (s : BusSt φ) : ∀ ps : List Nat,
    seriesTake s.labels s.cache ps = match targetsOf s ps with | some ts => .ok ts | none => .error .lookup := by
  intro ps
  induction ps with
  | nil => simp [seriesTake, targetsOf_nil]
  | cons p ps ih =>
    unfold seriesTake
    rw [targetsOf_cons, ih, arrGet_eq, arrGet_eq]
    cases s.labels[p]? <;> cases s.cache[p]? <;> simp
    cases targetsOf s ps <;> simp

/-- `index.iloc[key].values` for an array key: the labels of the model's targets -/
theorem labelsTake_eq (s : BusSt φ) (hlen : s.cache.length = s.labels.length) : ∀ ps : List Nat,
    arrTake s.labels ps = match targetsOf s ps with | some ts => .ok (ts.map (·.1)) | none => .error .lookup := by
  intro ps
  induction ps with
  | nil => simp [arrTake, targetsOf_nil]
  | cons p ps ih =>
    unfold arrTake
    rw [targetsOf_cons, ih, arrGet_eq]
    by_cases hp : p < s.labels.length
    · rw [List.getElem?_eq_getElem hp, List.getElem?_eq_getElem (by omega : p < s.cache.length)]
      cases targetsOf s ps <;> simp
    · rw [List.getElem?_eq_none (by omega : s.labels.length ≤ p)]

theorem targetsOf_single (s : BusSt φ) (p : Nat) :
    targetsOf s [p] = match s.labels[p]?, s.cache[p]? with | some l, some c => some [(l, c)] | _, _ => none := by
  rw [targetsOf_cons, targetsOf_nil]
  cases s.labels[p]? <;> cases s.cache[p]? <;> simp


/-! ### `_update_series_cache_iloc` -/

/-- the result of the model in the vocabulary of the translation -/
def resOf (r : Except (Err × BusSt φ) (BusSt φ)) : Except (Err × Obj φ) (Obj φ) :=
  match r with
  | .ok s' => .ok (objOf s')
  | .error (e, s') => .error (e, objOf s')

theorem loopRel_init (store : StoreFn φ) (pinnedReader : Bool) (s : BusSt φ) (hs : Shape s) (r : Reader) (c : Nat) :
    LoopRel store pinnedReader s.maxPersist s.labels
      { array := s.cache, loaded := s.loaded, lru := s.lru, count := c, reader := readerFrames store pinnedReader s.maxPersist r }
      (objOf s) s.cache r :=
  ⟨rfl, rfl, rfl, rfl, hs.lenCache, hs.lenLoaded⟩

theorem envOf_index (store : StoreFn φ) (pr : Bool) (st : StoreSt) (labels : List Nat) (mp : Option Nat) :
    (envOf store pr st labels mp).index = labels := rfl
theorem envOf_mp (store : StoreFn φ) (pr : Bool) (st : StoreSt) (labels : List Nat) (mp : Option Nat) :
    (envOf store pr st labels mp).max_persist = mp := rfl
theorem envOf_store (store : StoreFn φ) (pr : Bool) (st : StoreSt) (labels : List Nat) (mp : Option Nat) :
    (envOf store pr st labels mp).store_defined = true := rfl
theorem objOf_loaded (s : BusSt φ) : (objOf s).loaded = s.loaded := rfl
theorem objOf_loaded_all (s : BusSt φ) : (objOf s).loaded_all = s.loadedAll := rfl
theorem objOf_lru (s : BusSt φ) : (objOf s).last_accessed = s.lru := rfl
theorem objOf_series (s : BusSt φ) : (objOf s).series = s.cache := rfl

theorem all_loaded_out (a : List Bool) (ps : List Nat) (h : ¬ ∀ p ∈ ps, p < a.length) :
    (ps.all fun p => a[p]? == some true) = false := by
  apply Bool.eq_false_iff.mpr
  intro hall
  apply h
  intro p hp
  have := List.all_eq_true.mp hall p hp
  cases hq : a[p]? with
  | none => rw [hq] at this; simp at this
  | some v => exact (List.getElem?_eq_some_iff.mp hq).1

theorem update_bridge_array_none (store : StoreFn φ) (pinnedReader : Bool) (st : StoreSt) (s : BusSt φ) (ps : List Nat)
    (hs : Shape s) (hmp : s.maxPersist = none) :
    Gen.Bus.update_series_cache_iloc (envOf store pinnedReader st s.labels s.maxPersist) (objOf s) (.array ps)
      = resOf (s.updateCache store pinnedReader st ps false) := by
  unfold Gen.Bus.update_series_cache_iloc BusSt.updateCache
  simp only [envOf_index, envOf_mp, envOf_store, objOf_loaded, objOf_loaded_all, objOf_lru, objOf_series, hmp, IKey.positions,
    arrTake_eq, seriesTake_eq s]
  by_cases hall : s.loadedAll = true
  · simp [hall, resOf]
  · by_cases hin : ∀ p ∈ ps, p < s.loaded.length
    · simp only [hall, if_false, if_pos hin, all_filterMap_loaded _ _ hin]
      cases hb : (ps.all fun p => s.loaded[p]? == some true) with
      | true => simp [resOf]
      | false =>
        obtain ⟨ts, hts⟩ := targetsOf_some s hs.lenCache ps (by rw [← hs.lenLoaded]; exact hin)
        simp only [hts, Bool.not_false, Bool.not_true, if_true, Bool.false_eq_true, if_false, Option.isSome_none, Bool.and_true,
          storeReaderFrames_eq]
        have hsim := loop_bridge_mpNone store pinnedReader st s.labels ts
          { array := s.cache, loaded := s.loaded, lru := s.lru, count := List.count true s.loaded,
            reader := readerFrames store pinnedReader none
              { pending := (ts.filter fun lf_ => lf_.2.isNone).map (fun lf_ => lf_.1), viaStoreReader := true } }
          (objOf s) s.cache _ (by have := loopRel_init store pinnedReader s hs
                                    { pending := (ts.filter fun lf_ => lf_.2.isNone).map (fun lf_ => lf_.1), viaStoreReader := true }
                                    (List.count true s.loaded); rw [hmp] at this; exact this)
        have hrf : ∀ pend : List Nat, readerFrames store pinnedReader none { pending := pend, viaStoreReader := true }
            = pend.map fun l => store (readerCfgKey pinnedReader none l) l := by
          intro pend; simp [readerFrames, frameOf]
        rw [hrf] at hsim
        have hla : s.loadedAll = false := by simpa using hall
        generalize Gen.Bus.update_series_cache_iloc_loop2_mpNone _ _ _ _ _ = g at hsim ⊢
        generalize loopRun _ _ _ _ _ = m at hsim ⊢
        rcases g with ⟨e, o'⟩ | ⟨o', a', r'⟩ <;> rcases m with ⟨e', ls'⟩ | ls' <;>
          simp [SimNone, ErrRel, LoopRel, resOf, objOf, boolAll, hla] at hsim ⊢
        · obtain ⟨h1, h2, h3, h4, h5⟩ := hsim
          cases o'; simp_all
        · obtain ⟨⟨h1, h2, h3, h4, h5, h6⟩, h7, h8⟩ := hsim
          simp_all
    · have hto := targetsOf_out s ps (by rw [← hs.lenLoaded]; exact hin)
      simp [hall, hin, all_loaded_out _ _ hin, hto, resOf]


theorem update_bridge_array_some (store : StoreFn φ) (pinnedReader : Bool) (st : StoreSt) (s : BusSt φ) (ps : List Nat) (k : Nat)
    (hs : Shape s) (hmp : s.maxPersist = some k) :
    Gen.Bus.update_series_cache_iloc (envOf store pinnedReader st s.labels s.maxPersist) (objOf s) (.array ps)
      = resOf (s.updateCache store pinnedReader st ps false) := by
  unfold Gen.Bus.update_series_cache_iloc BusSt.updateCache
  simp only [envOf_index, envOf_mp, envOf_store, objOf_loaded, objOf_loaded_all, objOf_lru, objOf_series, hmp, IKey.positions,
    arrTake_eq s.loaded, seriesTake_eq s, labelsTake_eq s hs.lenCache]
  by_cases hall : s.loadedAll = true
  · simp only [hall, if_true]
    by_cases hin : ∀ p ∈ ps, p < s.labels.length
    · obtain ⟨ts, hts⟩ := targetsOf_some s hs.lenCache ps hin
      simp only [hts, hit_loop_bridge _ _ _ _ (show (objOf s).last_accessed.Nodup from hs.lruNodup)]
      simp [resOf, objOf, hall]
    · simp [targetsOf_out s ps hin, resOf]
  · by_cases hin : ∀ p ∈ ps, p < s.loaded.length
    · simp only [hall, if_false, if_pos hin, all_filterMap_loaded _ _ hin]
      obtain ⟨ts, hts⟩ := targetsOf_some s hs.lenCache ps (by rw [← hs.lenLoaded]; exact hin)
      have hla : s.loadedAll = false := by simpa using hall
      cases hb : (ps.all fun p => s.loaded[p]? == some true) with
      | true =>
        simp only [hts, hit_loop_bridge _ _ _ _ (show (objOf s).last_accessed.Nodup from hs.lruNodup)]
        simp [resOf, objOf, hla]
      | false =>
        simp only [hts, Bool.not_false, Bool.not_true, if_true, Bool.false_eq_true, if_false, Option.isSome_some, Bool.and_false,
          storeReaderFrames_eq]
        have hsim := loop_bridge_mpSome store pinnedReader st s.labels k ts
          { array := s.cache, loaded := s.loaded, lru := s.lru, count := List.count true s.loaded,
            reader := readerFrames store pinnedReader (some k)
              { pending := (ts.filter fun lf_ => lf_.2.isNone).map (fun lf_ => lf_.1), viaStoreReader := true } }
          (objOf s) s.cache (boolSum s.loaded) _
          (by have := loopRel_init store pinnedReader s hs
                { pending := (ts.filter fun lf_ => lf_.2.isNone).map (fun lf_ => lf_.1), viaStoreReader := true }
                (List.count true s.loaded); rw [hmp] at this; exact this)
          rfl hs.lruNodup
        have hrf : ∀ pend : List Nat, readerFrames store pinnedReader (some k) { pending := pend, viaStoreReader := true }
            = pend.map fun l => store (readerCfgKey pinnedReader (some k) l) l := by
          intro pend; simp [readerFrames, frameOf]
        rw [hrf] at hsim
        generalize Gen.Bus.update_series_cache_iloc_loop2_mpSome _ _ _ _ _ _ _ = g at hsim ⊢
        generalize loopRun _ _ _ _ _ = m at hsim ⊢
        rcases g with ⟨e, o'⟩ | ⟨o', a', c', r'⟩ <;> rcases m with ⟨e', ls'⟩ | ls' <;>
          simp [SimSome, ErrRel, LoopRel, resOf, objOf, boolAll, hla] at hsim ⊢
        · obtain ⟨h1, h2, h3, h4, h5⟩ := hsim
          cases o'; simp_all
        · obtain ⟨⟨h1, h2, h3, h4, h5, h6⟩, h7, h8, h9, h10⟩ := hsim
          simp_all
    · have hto := targetsOf_out s ps (by rw [← hs.lenLoaded]; exact hin)
      simp [hall, hin, all_loaded_out _ _ hin, hto, resOf]


theorem update_bridge_element_none (store : StoreFn φ) (pinnedReader : Bool) (st : StoreSt) (s : BusSt φ) (p : Nat)
    (hs : Shape s) (hmp : s.maxPersist = none) :
    Gen.Bus.update_series_cache_iloc (envOf store pinnedReader st s.labels s.maxPersist) (objOf s) (.element p)
      = resOf (s.updateCache store pinnedReader st [p] true) := by
  unfold Gen.Bus.update_series_cache_iloc BusSt.updateCache
  simp only [envOf_index, envOf_mp, envOf_store, objOf_loaded, objOf_loaded_all, objOf_lru, objOf_series, hmp, IKey.positions,
    arrTake_eq s.loaded, targetsOf_single]
  by_cases hall : s.loadedAll = true
  · simp [hall, resOf]
  · have hla : s.loadedAll = false := by simpa using hall
    by_cases hin : p < s.loaded.length
    · have hpl : p < s.labels.length := by rw [← hs.lenLoaded]; exact hin
      have hpc : p < s.cache.length := by rw [hs.lenCache]; exact hpl
      simp only [hall, if_false, List.mem_singleton, forall_eq, if_pos hin, List.filterMap_cons, List.filterMap_nil,
        List.getElem?_eq_getElem hin, List.getElem?_eq_getElem hpl, List.getElem?_eq_getElem hpc, arrGet_of_lt hpl, arrGet_of_lt hpc,
        List.all_cons, List.all_nil, boolAll]
      cases hb : s.loaded[p] with
      | true => simp [resOf]
      | false =>
        simp only [id, Bool.and_true, Bool.not_false, if_true, Bool.false_eq_true, if_false, Option.isSome_none, Bool.and_true,
          beq_iff_eq, Option.some.injEq, Bool.not_true, Bool.false_and, reduceCtorEq, List.map_cons, List.map_nil]
        have hsim := loop_bridge_mpNone store pinnedReader st s.labels [(s.labels[p], s.cache[p])]
          { array := s.cache, loaded := s.loaded, lru := s.lru, count := List.count true s.loaded,
            reader := readerFrames store pinnedReader none { pending := List.replicate 1 s.labels[p], viaStoreReader := false } }
          (objOf s) s.cache _ (by have := loopRel_init store pinnedReader s hs
                                    { pending := List.replicate 1 s.labels[p], viaStoreReader := false }
                                    (List.count true s.loaded); rw [hmp] at this; exact this)
        have hrf : readerFrames store pinnedReader none { pending := List.replicate 1 s.labels[p], viaStoreReader := false }
            = [store (some s.labels[p]) s.labels[p]] := by
          simp [readerFrames, frameOf]
        rw [hrf] at hsim
        generalize Gen.Bus.update_series_cache_iloc_loop2_mpNone _ _ _ _ _ = g at hsim ⊢
        generalize loopRun _ _ _ _ _ = m at hsim ⊢
        rcases g with ⟨e, o'⟩ | ⟨o', a', r'⟩ <;> rcases m with ⟨e', ls'⟩ | ls' <;>
          simp [SimNone, ErrRel, LoopRel, resOf, objOf, boolAll, hla] at hsim ⊢
        · obtain ⟨h1, h2, h3, h4, h5⟩ := hsim
          cases o'; simp_all
        · obtain ⟨⟨h1, h2, h3, h4, h5, h6⟩, h7, h8⟩ := hsim
          simp_all
    · have hpl : ¬ p < s.labels.length := by rw [← hs.lenLoaded]; exact hin
      simp [hall, hin, List.getElem?_eq_none (by omega : s.loaded.length ≤ p), List.getElem?_eq_none (by omega : s.labels.length ≤ p), resOf]


theorem update_bridge_element_some (store : StoreFn φ) (pinnedReader : Bool) (st : StoreSt) (s : BusSt φ) (p k : Nat)
    (hs : Shape s) (hmp : s.maxPersist = some k) :
    Gen.Bus.update_series_cache_iloc (envOf store pinnedReader st s.labels s.maxPersist) (objOf s) (.element p)
      = resOf (s.updateCache store pinnedReader st [p] true) := by
  unfold Gen.Bus.update_series_cache_iloc BusSt.updateCache
  simp only [envOf_index, envOf_mp, envOf_store, objOf_loaded, objOf_loaded_all, objOf_lru, objOf_series, hmp, IKey.positions,
    arrTake_eq s.loaded, targetsOf_single]
  have hnd : (objOf s).last_accessed.Nodup := hs.lruNodup
  by_cases hpl : p < s.labels.length
  · have hin : p < s.loaded.length := by rw [hs.lenLoaded]; exact hpl
    have hpc : p < s.cache.length := by rw [hs.lenCache]; exact hpl
    simp only [List.mem_singleton, forall_eq, if_pos hin, List.filterMap_cons, List.filterMap_nil,
      List.getElem?_eq_getElem hin, List.getElem?_eq_getElem hpl, List.getElem?_eq_getElem hpc, arrGet_of_lt hpl, arrGet_of_lt hpc,
      List.all_cons, List.all_nil, boolAll]
    by_cases hall : s.loadedAll = true
    · simp only [hall, if_true, hit_loop_bridge _ _ _ _ hnd]
      simp [resOf, objOf, hall]
    · have hla : s.loadedAll = false := by simpa using hall
      cases hb : s.loaded[p] with
      | true =>
        simp only [hla, id, Bool.and_true, Bool.not_true, if_true, Bool.false_eq_true, if_false, hit_loop_bridge _ _ _ _ hnd]
        simp [resOf, objOf, hla]
      | false =>
        simp only [hla, id, Bool.and_true, Bool.not_false, if_true, Bool.false_eq_true, if_false, Option.isSome_some, Bool.and_false,
          beq_iff_eq, Option.some.injEq, Bool.not_true, Bool.false_and, reduceCtorEq, List.map_cons, List.map_nil]
        have hsim := loop_bridge_mpSome store pinnedReader st s.labels k [(s.labels[p], s.cache[p])]
          { array := s.cache, loaded := s.loaded, lru := s.lru, count := List.count true s.loaded,
            reader := readerFrames store pinnedReader (some k) { pending := List.replicate 1 s.labels[p], viaStoreReader := false } }
          (objOf s) s.cache (boolSum s.loaded) _
          (by have := loopRel_init store pinnedReader s hs
                { pending := List.replicate 1 s.labels[p], viaStoreReader := false }
                (List.count true s.loaded); rw [hmp] at this; exact this)
          rfl hs.lruNodup
        have hrf : readerFrames store pinnedReader (some k) { pending := List.replicate 1 s.labels[p], viaStoreReader := false }
            = [store (some s.labels[p]) s.labels[p]] := by
          simp [readerFrames, frameOf]
        rw [hrf] at hsim
        generalize Gen.Bus.update_series_cache_iloc_loop2_mpSome _ _ _ _ _ _ _ = g at hsim ⊢
        generalize loopRun _ _ _ _ _ = m at hsim ⊢
        rcases g with ⟨e, o'⟩ | ⟨o', a', c', r'⟩ <;> rcases m with ⟨e', ls'⟩ | ls' <;>
          simp [SimSome, ErrRel, LoopRel, resOf, objOf, boolAll, hla] at hsim ⊢
        · obtain ⟨h1, h2, h3, h4, h5⟩ := hsim
          cases o'; simp_all
        · obtain ⟨⟨h1, h2, h3, h4, h5, h6⟩, h7, h8, h9, h10⟩ := hsim
          simp_all
  · have hin : ¬ p < s.loaded.length := by rw [hs.lenLoaded]; exact hpl
    by_cases hall : s.loadedAll = true
    · simp [hall, hin, arrGet, List.getElem?_eq_none (by omega : s.labels.length ≤ p), resOf]
    · simp [hall, hin, List.getElem?_eq_none (by omega : s.loaded.length ≤ p), List.getElem?_eq_none (by omega : s.labels.length ≤ p), resOf]

/-- **`Bus._update_series_cache_iloc` as translated from the source = the hand-mirrored `BusSt.updateCache`**, for every
    state of the right shape, every key (element or array, any positions, in range or not), every max_persist, every
    store and store state: same resulting attributes, same exception with the same attributes left behind. -/
theorem update_bridge (store : StoreFn φ) (pinnedReader : Bool) (st : StoreSt) (s : BusSt φ) (key : IKey) (hs : Shape s) :
    Gen.Bus.update_series_cache_iloc (envOf store pinnedReader st s.labels s.maxPersist) (objOf s) key
      = resOf (s.updateCache store pinnedReader st key.positions key.isElement) := by
  cases key with
  | element p =>
    cases hmp : s.maxPersist with
    | none => rw [← hmp]; exact update_bridge_element_none store pinnedReader st s p hs hmp
    | some k => rw [← hmp]; exact update_bridge_element_some store pinnedReader st s p k hs hmp
  | array ps =>
    cases hmp : s.maxPersist with
    | none => rw [← hmp]; exact update_bridge_array_none store pinnedReader st s ps hs hmp
    | some k => rw [← hmp]; exact update_bridge_array_some store pinnedReader st s ps k hs hmp


/-! ### the state machine with the translated cache update

`genUpdate` runs the TRANSLATED `_update_series_cache_iloc` on a model state; `genExtractIloc`, `genIterElements`,
`genValues`, `genStep`, `genStepState`, `genRunAll` are the hand-mirrored callers (`_extract_iloc`, `items()` / `values`,
histories) with `BusSt.updateCache` replaced by it.  On every state that satisfies the representation invariant they are
the functions of SFModel/Bus.lean. -/

/-- the key of the translation for the positions a model key addresses: an integer key is an element key -/
def ikey (ps : List Nat) (isElement : Bool) : IKey :=
  if isElement then (match ps with | [p] => .element p | _ => .array ps) else .array ps

/-- `Bus._update_series_cache_iloc` as translated from the source, on a state of the model -/
def genUpdate (store : StoreFn φ) (pinnedReader : Bool) (st : StoreSt) (s : BusSt φ) (ps : List Nat) (isElement : Bool) :
    Except (Err × BusSt φ) (BusSt φ) :=
  match Gen.Bus.update_series_cache_iloc (envOf store pinnedReader st s.labels s.maxPersist) (objOf s) (ikey ps isElement) with
  | .ok o => .ok (busOf s o)
  | .error (e, o) => .error (e, busOf s o)

theorem updateCache_ok_labels {store : StoreFn φ} {pinnedReader : Bool} {st : StoreSt} {s s' : BusSt φ} {ps : List Nat} {isElement : Bool}
    (h : s.updateCache store pinnedReader st ps isElement = .ok s') : s'.labels = s.labels ∧ s'.maxPersist = s.maxPersist := by
  unfold BusSt.updateCache at h
  simp only at h
  repeat' split at h
  all_goals (cases h; first | exact ⟨rfl, rfl⟩ | done)

theorem updateCache_err_labels {store : StoreFn φ} {pinnedReader : Bool} {st : StoreSt} {s s' : BusSt φ} {ps : List Nat} {isElement : Bool}
    {e : Err} (h : s.updateCache store pinnedReader st ps isElement = .error (e, s')) :
    s'.labels = s.labels ∧ s'.maxPersist = s.maxPersist := by
  unfold BusSt.updateCache at h
  simp only at h
  repeat' split at h
  all_goals (cases h; first | exact ⟨rfl, rfl⟩ | done)

theorem busOf_objOf {s s' : BusSt φ} (h1 : s'.labels = s.labels) (h2 : s'.maxPersist = s.maxPersist) : busOf s (objOf s') = s' := by
  cases s; cases s'; simp_all [busOf, objOf]

/-- **translated = hand-mirrored**, as functions on model states -/
theorem genUpdate_eq (store : StoreFn φ) (pinnedReader : Bool) (st : StoreSt) (s : BusSt φ) (ps : List Nat) (isElement : Bool)
    (hs : Shape s) (hel : isElement = true → ∃ p, ps = [p]) :
    genUpdate store pinnedReader st s ps isElement = s.updateCache store pinnedReader st ps isElement := by
  unfold genUpdate
  have hk : (ikey ps isElement).positions = ps ∧ (ikey ps isElement).isElement = isElement := by
    cases isElement with
    | false => exact ⟨rfl, rfl⟩
    | true => obtain ⟨p, rfl⟩ := hel rfl; exact ⟨rfl, rfl⟩
  have hb := update_bridge store pinnedReader st s (ikey ps isElement) hs
  rw [hk.1, hk.2] at hb
  rw [hb]
  cases hu : s.updateCache store pinnedReader st ps isElement with
  | ok s' => have hl := updateCache_ok_labels hu; simp only [resOf]; rw [busOf_objOf hl.1 hl.2]
  | error es => obtain ⟨e, s'⟩ := es; have hl := updateCache_err_labels hu; simp only [resOf]; rw [busOf_objOf hl.1 hl.2]

theorem Shape.of_inv {P : Nat → φ → Prop} {s : BusSt φ} (h : Inv P s) : Shape s :=
  ⟨by rw [h.flags, List.length_map, h.lenCache], h.lenCache, h.lruNodup⟩

/-- non-vacuity: a state of the right shape (also one that violates the algorithm's invariant: flag 1 on, cell empty),
    and both sides of `update_bridge` evaluated on it -/
example : Shape ({ labels := [5, 7, 9], cache := [some 5, none, none], loaded := [true, true, false], loadedAll := false,
                   lru := [7, 5], maxPersist := some 2 } : BusSt Nat) := ⟨rfl, rfl, by decide⟩

example : Gen.Bus.update_series_cache_iloc
      (envOf (fun _ l => l) false (StoreSt.init (some 1)) [5, 7, 9] (some 2))
      (objOf ({ labels := [5, 7, 9], cache := [some 5, none, none], loaded := [true, true, false], loadedAll := false,
                lru := [7, 5], maxPersist := some 2 } : BusSt Nat)) (.array [2, 0])
    = resOf (({ labels := [5, 7, 9], cache := [some 5, none, none], loaded := [true, true, false], loadedAll := false,
                lru := [7, 5], maxPersist := some 2 } : BusSt Nat).updateCache (fun _ l => l) false (StoreSt.init (some 1)) [2, 0] false)
    ∧ Gen.Bus.update_series_cache_iloc
      (envOf (fun _ l => l) false (StoreSt.init (some 1)) [5, 7, 9] (some 2))
      (objOf ({ labels := [5, 7, 9], cache := [some 5, none, none], loaded := [true, true, false], loadedAll := false,
                lru := [7, 5], maxPersist := some 2 } : BusSt Nat)) (.array [2, 0])
    = .ok { loaded := [true, false, true], loaded_all := false, last_accessed := [9, 5], series := [some 5, none, some 9] } := by
  decide

/-- `Bus._extract_iloc` over the translated cache update -/
def genExtractIloc (store : StoreFn φ) (pinnedReader : Bool) (st : StoreSt) (s : BusSt φ) (k : Key) :
    Except (Err × BusSt φ) (BusSt φ × Extracted φ) :=
  match k.positions s.labels.length with
  | .error e => .error (e, s)
  | .ok ps =>
    if k.isMulti && !decide ps.Nodup then .error (.nonUnique, s)
    else match genUpdate store pinnedReader st s ps (!k.isMulti) with
    | .error e => .error e
    | .ok s' =>
      if k.isMulti then
        match s'.derive ps with
        | .error e => .error (e, s')
        | .ok d => .ok (s', .bus d)
      else
        match ps with
        | [p] => match s'.cache[p]? with
            | some v => .ok (s', .element v)
            | none => .error (.lookup, s')
        | _ => .error (.lookup, s')

theorem genExtractIloc_eq (store : StoreFn φ) (pinnedReader : Bool) (st : StoreSt) (s : BusSt φ) (k : Key) (hs : Shape s) :
    genExtractIloc store pinnedReader st s k = s.extractIloc store pinnedReader st k := by
  unfold genExtractIloc BusSt.extractIloc
  cases hpos : k.positions s.labels.length with
  | error e => rfl
  | ok ps =>
    simp only
    have hel : (!k.isMulti) = true → ∃ p, ps = [p] := by
      intro hel
      cases k with
      | int i => obtain ⟨p, hp, _⟩ := SF.C04.int_position hpos; exact ⟨p, hp⟩
      | _ => simp [Key.isMulti] at hel
    rw [genUpdate_eq store pinnedReader st s ps (!k.isMulti) hs hel]
    rfl

/-- `for i, label in enumerate(index): yield label, self._extract_iloc(i)` over the translated cache update -/
def genIterElements (store : StoreFn φ) (pinnedReader : Bool) (st : StoreSt) :
    BusSt φ → List Nat → List (Option φ) → Except (Err × BusSt φ) (BusSt φ × List (Option φ))
  | s, [], acc => .ok (s, acc)
  | s, i :: is, acc =>
    match genExtractIloc store pinnedReader st s (.int i) with
    | .error e => .error e
    | .ok (s', .element v) => genIterElements store pinnedReader st s' is (acc ++ [v])
    | .ok (s', .bus _) => .error (.other, s')

theorem genIterElements_eq (store : StoreFn φ) (pinnedReader : Bool) (st : StoreSt) :
    ∀ (is : List Nat) (s : BusSt φ) (acc : List (Option φ)), Inv (fun _ _ => True) s →
    genIterElements store pinnedReader st s is acc = BusSt.iterElements store pinnedReader st s is acc := by
  intro is
  induction is with
  | nil => intro s acc _; rfl
  | cons i is ih =>
    intro s acc hinv
    unfold genIterElements BusSt.iterElements
    rw [genExtractIloc_eq store pinnedReader st s (.int i) (Shape.of_inv hinv)]
    cases hext : s.extractIloc store pinnedReader st (.int i) with
    | error e => rfl
    | ok r =>
      obtain ⟨s', x⟩ := r
      cases x with
      | element v =>
        simp only
        exact ih s' _ (extractIloc_inv hinv (fun _ => trivial) (fun _ => trivial) hext).1
      | bus d => rfl

/-- `Bus.items()` / `Bus.values` over the translated cache update -/
def genValues (store : StoreFn φ) (pinnedReader : Bool) (st : StoreSt) (s : BusSt φ) :
    Except (Err × BusSt φ) (BusSt φ × List (Option φ)) :=
  match s.maxPersist with
  | none =>
    if !s.loadedAll then
      match genUpdate store pinnedReader st s (List.range s.labels.length) false with
      | .error e => .error e
      | .ok s' => .ok (s', s'.cache)
    else .ok (s, s.cache)
  | some _ => genIterElements store pinnedReader st s (List.range s.labels.length) []

theorem genValues_eq (store : StoreFn φ) (pinnedReader : Bool) (st : StoreSt) (s : BusSt φ) (hinv : Inv (fun _ _ => True) s) :
    genValues store pinnedReader st s = s.values store pinnedReader st := by
  unfold genValues BusSt.values
  rw [genUpdate_eq store pinnedReader st s _ false (Shape.of_inv hinv) (by intro h; cases h),
    genIterElements_eq store pinnedReader st _ s [] hinv]
  rfl

/-- one operation of a history over the translated cache update -/
def genStep (store : StoreFn φ) (pinnedReader : Bool) (st : StoreSt) (s : BusSt φ) : BusOp → Except (Err × BusSt φ) (BusSt φ)
  | .access k =>
    match genExtractIloc store pinnedReader st s k with
    | .error e => .error e
    | .ok (s', _) => .ok s'
  | .values =>
    match genValues store pinnedReader st s with
    | .error e => .error e
    | .ok (s', _) => .ok s'
  | .peek => .ok s

theorem genStep_eq (store : StoreFn φ) (pinnedReader : Bool) (st : StoreSt) (s : BusSt φ) (op : BusOp)
    (hinv : Inv (fun _ _ => True) s) : genStep store pinnedReader st s op = s.step store pinnedReader st op := by
  cases op with
  | access k => simp only [genStep, BusSt.step, genExtractIloc_eq store pinnedReader st s k (Shape.of_inv hinv)]; rfl
  | values => simp only [genStep, BusSt.step, genValues_eq store pinnedReader st s hinv]; rfl
  | peek => rfl

/-- the state a (possibly failing) operation leaves the Bus in -/
def genStepState (store : StoreFn φ) (pinnedReader : Bool) (st : StoreSt) (s : BusSt φ) (o : BusOp) : BusSt φ :=
  match genStep store pinnedReader st s o with
  | .ok s' => s'
  | .error (_, s') => s'

/-- a full history (operations go on after exceptions, file events and store writes in between) over the translated cache update -/
def genRunAll (store : StoreFn φ) (pinnedReader : Bool) : StoreSt → BusSt φ → List HistEv → StoreSt × BusSt φ
  | st, s, [] => (st, s)
  | st, s, .op o :: evs => genRunAll store pinnedReader st (genStepState store pinnedReader st s o) evs
  | st, s, .file e :: evs => genRunAll store pinnedReader (st.event e) s evs
  | st, s, .storeWrite now :: evs => genRunAll store pinnedReader (st.write now) s evs

/-- **every full history: the machine over the translated cache update IS the hand-mirrored machine** -/
theorem genRunAll_eq (store : StoreFn φ) (pinnedReader : Bool) :
    ∀ (evs : List HistEv) (st : StoreSt) (s : BusSt φ), Inv (fun _ _ => True) s →
    genRunAll store pinnedReader st s evs = BusSt.runAll store pinnedReader st s evs := by
  intro evs
  induction evs with
  | nil => intro st s _; rfl
  | cons ev evs ih =>
    intro st s hinv
    cases ev with
    | op o =>
      simp only [genRunAll, BusSt.runAll]
      have hst : genStepState store pinnedReader st s o = s.stepState store pinnedReader st o := by
        unfold genStepState BusSt.stepState
        rw [genStep_eq store pinnedReader st s o hinv]
        rfl
      rw [hst]
      exact ih st _ (stepState_inv (st := st) (op := o) hinv (fun _ => trivial) (fun _ => trivial)).1
    | file e => simp only [genRunAll, BusSt.runAll]; exact ih _ s hinv
    | storeWrite now => simp only [genRunAll, BusSt.runAll]; exact ih _ s hinv

end SF.BridgeBus
