/-
  Helper lemmas for SFModel.Pool (used by Props/C18.lean).
-/
import SFModel.Pool

namespace SF.Pool

variable {α β κ ν ε τ ρ : Type}

/-! ### mapE -/

@[simp] theorem mapE_nil (f : α → Except ε β) : mapE f [] = .ok [] := rfl

theorem mapE_cons_ok {f : α → Except ε β} {x : α} {y : β} (h : f x = .ok y) (xs : List α) :
    mapE f (x :: xs) = match mapE f xs with | .error e => .error e | .ok ys => .ok (y :: ys) := by
  simp only [mapE, h]
  cases mapE f xs <;> rfl

theorem mapE_cons_error {f : α → Except ε β} {x : α} {e : ε} (h : f x = .error e) (xs : List α) :
    mapE f (x :: xs) = .error e := by
  simp [mapE, h]

/-- No element raises: the comprehension is the plain map. -/
theorem mapE_pure (g : α → β) (xs : List α) : mapE (fun x => (.ok (g x) : Except ε β)) xs = .ok (xs.map g) := by
  induction xs with
  | nil => rfl
  | cons x xs ih => simp [mapE, ih]

theorem mapE_ok_of_forall {f : α → Except ε β} {g : α → β} {xs : List α}
    (h : ∀ x ∈ xs, f x = .ok (g x)) : mapE f xs = .ok (xs.map g) := by
  induction xs with
  | nil => rfl
  | cons x xs ih =>
    have hx := h x (by simp)
    have := ih (fun y hy => h y (by simp [hy]))
    simp [mapE, hx, this]

/-- The first raising element decides the outcome. -/
theorem mapE_first_error {f : α → Except ε β} {g : α → β} {pre post : List α} {x : α} {e : ε}
    (hpre : ∀ y ∈ pre, f y = .ok (g y)) (hx : f x = .error e) :
    mapE f (pre ++ x :: post) = .error e := by
  induction pre with
  | nil => simp [mapE, hx]
  | cons p pre ih =>
    have hp := hpre p (by simp)
    have := ih (fun y hy => hpre y (by simp [hy]))
    simp [mapE, hp, this]

theorem mapE_append (f : α → Except ε β) (xs ys : List α) :
    mapE f (xs ++ ys) =
      match mapE f xs with
      | .error e => .error e
      | .ok a => match mapE f ys with
        | .error e => .error e
        | .ok b => .ok (a ++ b) := by
  induction xs with
  | nil => simp [mapE]; cases mapE f ys <;> rfl
  | cons x xs ih =>
    simp only [List.cons_append, mapE]
    cases hx : f x with
    | error e => rfl
    | ok y =>
      simp only [ih]
      cases mapE f xs with
      | error e => rfl
      | ok a =>
        cases mapE f ys with
        | error e => rfl
        | ok b => rfl

/-- An outcome is either every result (same length) or an error: never a shorter list. -/
theorem mapE_ok_length {f : α → Except ε β} {xs : List α} {ys : List β} (h : mapE f xs = .ok ys) :
    ys.length = xs.length := by
  induction xs generalizing ys with
  | nil => simp [mapE] at h; subst h; rfl
  | cons x xs ih =>
    simp only [mapE] at h
    cases hx : f x with
    | error e => simp [hx] at h
    | ok y =>
      simp only [hx] at h
      cases hm : mapE f xs with
      | error e => simp [hm] at h
      | ok zs =>
        simp only [hm, Except.ok.injEq] at h
        subst h
        simp [ih hm]

/-- A delivered list has one entry per input and entry `i` is the result of input `i`. -/
theorem mapE_ok_getElem {f : α → Except ε β} {xs : List α} {ys : List β} (h : mapE f xs = .ok ys) :
    ys.length = xs.length ∧ ∀ i (hi : i < xs.length) (ho : i < ys.length), f xs[i] = .ok ys[i] := by
  induction xs generalizing ys with
  | nil => simp [mapE] at h; subst h; simp
  | cons x xs ih =>
    simp only [mapE] at h
    cases hx : f x with
    | error e => simp [hx] at h
    | ok y =>
      simp only [hx] at h
      cases hm : mapE f xs with
      | error e => simp [hm] at h
      | ok zs =>
        simp only [hm, Except.ok.injEq] at h
        subst h
        obtain ⟨h1, h2⟩ := ih hm
        refine ⟨by simp [h1], ?_⟩
        intro i hi ho
        cases i with
        | zero => simpa using hx
        | succ i => simpa using h2 i (by simpa using hi) (by simpa using ho)

theorem tagKey_ok {k : κ} {r : Except ε β} {p : κ × β} (h : tagKey k r = .ok p) : p.1 = k ∧ r = .ok p.2 := by
  cases r with
  | error e => simp [tagKey] at h
  | ok y => simp [tagKey] at h; subst h; simp

/-- Chunk-wise comprehension then flatten = comprehension over the flattened list. -/
theorem firstError_map_mapE_flatten (f : α → Except ε β) (l : List (List α)) :
    chainResults (firstError (l.map (mapE f))) = mapE f l.flatten := by
  induction l with
  | nil => rfl
  | cons ch l ih =>
    simp only [List.map_cons, List.flatten_cons, mapE_append]
    cases hch : mapE f ch with
    | error e => simp [firstError, chainResults]
    | ok a =>
      simp only [firstError]
      rw [← ih]
      cases firstError (l.map (mapE f)) with
      | error e => rfl
      | ok lists => simp [chainResults]

/-! ### chunks -/

theorem chunksAux_flatten {c : Nat} (hc : 1 ≤ c) :
    ∀ (fuel : Nat) (xs : List α), xs.length < fuel → (chunksAux c fuel xs).flatten = xs := by
  intro fuel
  induction fuel with
  | zero => intro xs h; omega
  | succ fuel ih =>
    intro xs h
    simp only [chunksAux]
    split
    · rename_i he
      have : xs = [] := by
        cases xs with
        | nil => rfl
        | cons x xs =>
          obtain ⟨c', rfl⟩ : ∃ c', c = c' + 1 := ⟨c - 1, by omega⟩
          simp at he
      simp [this]
    · rename_i he
      have hne : xs ≠ [] := by
        intro h0; subst h0; simp at he
      have hlen : 0 < xs.length := List.length_pos_iff.mpr hne
      have : (xs.drop c).length < fuel := by simp [List.length_drop]; omega
      simp [ih _ this, List.take_append_drop]

theorem chunks_flatten' {c : Nat} (hc : 1 ≤ c) (xs : List α) : (chunks c xs).flatten = xs :=
  chunksAux_flatten hc _ _ (by omega)

/-- Every chunk is non-empty and has at most `c` members. -/
theorem chunksAux_sizes {c : Nat} :
    ∀ (fuel : Nat) (xs : List α), ∀ ch ∈ chunksAux c fuel xs, 0 < ch.length ∧ ch.length ≤ c := by
  intro fuel
  induction fuel with
  | zero => intro xs ch h; simp [chunksAux] at h
  | succ fuel ih =>
    intro xs ch h
    simp only [chunksAux] at h
    split at h
    · simp at h
    · rename_i he
      simp only [List.mem_cons] at h
      rcases h with rfl | h
      · constructor
        · apply List.length_pos_iff.mpr
          intro h0; simp [h0] at he
        · simp [List.length_take]; omega
      · exact ih _ _ h

/-- The chunk boundaries: chunk `i` is `xs[i*c : (i+1)*c]`. -/
theorem chunksAux_getElem? {c : Nat} (hc : 1 ≤ c) :
    ∀ (fuel : Nat) (xs : List α) (i : Nat), xs.length < fuel →
      (chunksAux c fuel xs)[i]? = if i * c < xs.length then some ((xs.drop (i * c)).take c) else none := by
  intro fuel
  induction fuel with
  | zero => intro xs i h; omega
  | succ fuel ih =>
    intro xs i h
    simp only [chunksAux]
    split
    · rename_i he
      have : xs = [] := by
        cases xs with
        | nil => rfl
        | cons x xs =>
          obtain ⟨c', rfl⟩ : ∃ c', c = c' + 1 := ⟨c - 1, by omega⟩
          simp at he
      simp [this]
    · rename_i he
      have hne : xs ≠ [] := by
        intro h0; subst h0; simp at he
      have hlen : 0 < xs.length := List.length_pos_iff.mpr hne
      have hd : (xs.drop c).length < fuel := by simp [List.length_drop]; omega
      cases i with
      | zero => simp [hlen]
      | succ i =>
        simp only [List.getElem?_cons_succ, ih _ i hd, List.length_drop, List.drop_drop]
        have e1 : c + i * c = (i + 1) * c := by rw [Nat.add_mul]; omega
        rw [e1]
        by_cases hlt : (i + 1) * c < xs.length
        · have : i * c < xs.length - c := by rw [Nat.add_mul] at hlt; omega
          simp [hlt, this]
        · have : ¬ i * c < xs.length - c := by rw [Nat.add_mul] at hlt; omega
          simp [hlt, this]

/-! ### completion in any order -/

theorem completeStep_length (run : τ → ρ) (tasks : List τ) (futs : List (Option ρ)) (i : Nat) :
    (completeStep run tasks futs i).length = futs.length := by
  unfold completeStep; split <;> simp

theorem foldl_completeStep_length (run : τ → ρ) (tasks : List τ) (sched : List Nat) :
    ∀ futs : List (Option ρ), (sched.foldl (completeStep run tasks) futs).length = futs.length := by
  induction sched with
  | nil => intro futs; rfl
  | cons j rest ih => intro futs; simp [ih, completeStep_length]

/-- After the events of `sched`, future `i` holds the outcome of task `i` iff `i` was scheduled;
    otherwise it is untouched. -/
theorem foldl_completeStep_getElem? (run : τ → ρ) (tasks : List τ) (sched : List Nat) :
    ∀ (futs : List (Option ρ)), futs.length = tasks.length → ∀ (i : Nat) (hi : i < tasks.length),
      (sched.foldl (completeStep run tasks) futs)[i]? =
        if i ∈ sched then some (some (run tasks[i])) else futs[i]? := by
  induction sched with
  | nil => intro futs _ i _; simp
  | cons j rest ih =>
    intro futs hl i hi
    simp only [List.foldl_cons]
    rw [ih _ (by rw [completeStep_length]; exact hl) i hi]
    by_cases hir : i ∈ rest
    · simp [hir]
    · simp only [hir, if_false, List.mem_cons, or_false]
      unfold completeStep
      by_cases hji : i = j
      · subst hji
        simp [hl, hi]
      · simp only [hji, if_false]
        split
        · rw [List.getElem?_set_ne (by omega)]
        · rfl

/-- Every task scheduled at least once, in whatever order: all futures hold their own task's outcome. -/
theorem complete_eq_map (run : τ → ρ) (tasks : List τ) (sched : List Nat)
    (hall : ∀ i, i < tasks.length → i ∈ sched) :
    complete run tasks sched = tasks.map fun t => some (run t) := by
  apply List.ext_getElem?
  intro i
  unfold complete
  by_cases hi : i < tasks.length
  · rw [foldl_completeStep_getElem? run tasks sched _ (by simp) i hi]
    simp [hall i hi, hi]
  · have h1 : (sched.foldl (completeStep run tasks) (tasks.map fun _ => none)).length = tasks.length := by
      rw [foldl_completeStep_length]; simp
    rw [List.getElem?_eq_none (by omega), List.getElem?_eq_none (by simp; omega)]

theorem collect_map_some (l : List ρ) : collect (l.map some) = some l := by
  induction l with
  | nil => rfl
  | cons x l ih => simp [collect, ih]

theorem complete_collect (run : τ → ρ) (tasks : List τ) (sched : List Nat)
    (hall : ∀ i, i < tasks.length → i ∈ sched) :
    collect (complete run tasks sched) = some (tasks.map run) := by
  rw [complete_eq_map run tasks sched hall]
  have : (tasks.map fun t => some (run t)) = (tasks.map run).map some := by simp
  rw [this, collect_map_some]

/-- An unscheduled task leaves its future pending: the delivery blocks (model answer `none`). -/
theorem collect_none_of_pending {l : List (Option ρ)} {i : Nat} (h : l[i]? = some none) : collect l = none := by
  induction l generalizing i with
  | nil => simp at h
  | cons x l ih =>
    cases i with
    | zero => simp at h; subst h; rfl
    | succ i =>
      simp at h
      cases x with
      | none => rfl
      | some r => simp [collect, ih h]

theorem perm_range_mem {sched : List Nat} {m : Nat} (h : sched.Perm (List.range m)) :
    ∀ i, i < m → i ∈ sched := by
  intro i hi
  exact (h.mem_iff).mpr (List.mem_range.mpr hi)

/-! ### key recording -/

theorem argGen_foldl (items : List (κ × α)) (ks : List κ) (as : List α) :
    items.foldl (fun acc kv => (acc.1 ++ [kv.1], acc.2 ++ [kv.2])) (ks, as) =
      (ks ++ items.map Prod.fst, as ++ items.map Prod.snd) := by
  induction items generalizing ks as with
  | nil => simp
  | cons kv items ih => simp [ih]

theorem argGen_eq (items : List (κ × α)) : argGen items = (items.map Prod.fst, items.map Prod.snd) := by
  unfold argGen
  rw [argGen_foldl]; simp

theorem zip_map_fst_map (g : α → β) (items : List (κ × α)) :
    (items.map Prod.fst).zip ((items.map Prod.snd).map g) = items.map fun kv => (kv.1, g kv.2) := by
  induction items with
  | nil => rfl
  | cons kv items ih => simp only [List.map_cons, List.zip_cons_cons, ih]

theorem zip_map_fst_snd (f : α → ρ) (items : List (κ × α)) :
    (items.map Prod.fst).zip ((items.map Prod.snd).map f) = items.map fun kv => (kv.1, f kv.2) :=
  zip_map_fst_map f items

end SF.Pool
