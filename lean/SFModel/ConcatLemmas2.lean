/- Helper lemmas for SFModel.Concat, part 2: index_many_set, stacked lookups, Frame.from_concat. -/
import SFModel.ConcatLemmas

namespace SF
namespace Concat
open SF.SetOps

section
variable {α β : Type} [DecidableEq α]

/-! ### index_many_set -/

theorem setIdx_spec {o : PyOrd α} (ho : o.Lawful) (union : Bool) (a b : Idx α) (ha : a.labels.Nodup)
    (hb : b.labels.Nodup) :
    (setIdx o union a b).labels.Nodup ∧
      ∀ x, x ∈ (setIdx o union a b).labels ↔
        (if union then x ∈ a.labels ∨ x ∈ b.labels else x ∈ a.labels ∧ x ∈ b.labels) := by
  unfold setIdx
  simp only []
  cases union with
  | true =>
    simp only [if_true]
    rw [ufuncSet1d_eq_core]
    have := setCore_spec ho .union
      (((a.kind == .str) != (b.kind == .str)) || decide (resolveKind a.kind b.kind = .obj)) (au := true) ha (fun _ => hb)
    exact ⟨this.2, this.1⟩
  | false =>
    simp only [Bool.false_eq_true, if_false]
    rw [ufuncSet1d_eq_core]
    have := setCore_spec ho .inter
      (((a.kind == .str) != (b.kind == .str)) || decide (resolveKind a.kind b.kind = .obj)) (au := true) ha (fun _ => hb)
    exact ⟨this.2, this.1⟩

theorem setIdx_same (o : PyOrd α) (union : Bool) (a b : Idx α) (h : b.labels = a.labels) :
    (setIdx o union a b).labels = a.labels := by
  unfold setIdx
  simp only []
  rw [h, ufuncSet1d_self]
  cases union <;> simp

theorem ufuncSetIter_spec {o : PyOrd α} (ho : o.Lawful) (union : Bool) (res : Idx α) (rest : List (Idx α))
    (hres : res.labels.Nodup) (hrest : ∀ i ∈ rest, i.labels.Nodup) :
    (ufuncSetIter o union res rest).labels.Nodup ∧
      ∀ x, x ∈ (ufuncSetIter o union res rest).labels ↔
        (if union then x ∈ res.labels ∨ ∃ i ∈ rest, x ∈ i.labels
         else x ∈ res.labels ∧ ∀ i ∈ rest, x ∈ i.labels) := by
  induction rest generalizing res with
  | nil =>
    refine ⟨hres, fun x => ?_⟩
    cases union <;> simp [ufuncSetIter]
  | cons y ys ih =>
    obtain ⟨hn, hm⟩ := setIdx_spec ho union res y hres (hrest y (by simp))
    unfold ufuncSetIter
    simp only []
    split
    · rename_i hshort
      simp only [Bool.and_eq_true, Bool.not_eq_true', decide_eq_true_eq] at hshort
      obtain ⟨hu, hlen⟩ := hshort
      subst hu
      refine ⟨hn, fun x => ?_⟩
      have hempty : (setIdx o false res y).labels = [] := List.length_eq_zero_iff.mp hlen
      simp only [Bool.false_eq_true, if_false] at hm ⊢
      rw [hempty]
      constructor
      · intro h; cases h
      · rintro ⟨h1, h2⟩
        have := (hm x).mpr ⟨h1, h2 y (by simp)⟩
        rw [hempty] at this
        exact this
    · obtain ⟨hn', hm'⟩ := ih (setIdx o union res y) hn (fun i hi => hrest i (by simp [hi]))
      refine ⟨hn', fun x => ?_⟩
      rw [hm' x]
      cases union with
      | true =>
        simp only [if_true] at hm ⊢
        rw [hm x]
        constructor
        · rintro (h | ⟨i, hi, hx⟩)
          · rcases h with h | h
            · exact Or.inl h
            · exact Or.inr ⟨y, by simp, h⟩
          · exact Or.inr ⟨i, by simp [hi], hx⟩
        · rintro (h | ⟨i, hi, hx⟩)
          · exact Or.inl (Or.inl h)
          · rcases List.mem_cons.mp hi with rfl | hi
            · exact Or.inl (Or.inr hx)
            · exact Or.inr ⟨i, hi, hx⟩
      | false =>
        simp only [Bool.false_eq_true, if_false] at hm ⊢
        rw [hm x]
        constructor
        · rintro ⟨⟨h1, h2⟩, h3⟩
          refine ⟨h1, fun i hi => ?_⟩
          rcases List.mem_cons.mp hi with rfl | hi
          · exact h2
          · exact h3 i hi
        · rintro ⟨h1, h2⟩
          exact ⟨⟨h1, h2 y (by simp)⟩, fun i hi => h2 i (by simp [hi])⟩

/-- `index_many_set`: the union (intersection) of all label sets, each label once. -/
theorem indexManySet_spec {o : PyOrd α} (ho : o.Lawful) (union : Bool) (first : Idx α) (rest : List (Idx α))
    (h : ∀ i ∈ first :: rest, i.labels.Nodup) :
    (indexManySet o union (first :: rest)).labels.Nodup ∧
      ∀ x, x ∈ (indexManySet o union (first :: rest)).labels ↔
        (if union then ∃ i ∈ first :: rest, x ∈ i.labels else ∀ i ∈ first :: rest, x ∈ i.labels) := by
  obtain ⟨hn, hm⟩ := ufuncSetIter_spec ho union first rest (h first (by simp))
    (fun i hi => h i (by simp [hi]))
  refine ⟨hn, fun x => ?_⟩
  simp only [indexManySet]
  rw [hm x]
  cases union <;> simp

/-- identical label lists come back unchanged (in their order) -/
theorem ufuncSetIter_same (o : PyOrd α) (union : Bool) (res : Idx α) (rest : List (Idx α))
    (h : ∀ i ∈ rest, i.labels = res.labels) : (ufuncSetIter o union res rest).labels = res.labels := by
  induction rest generalizing res with
  | nil => rfl
  | cons y ys ih =>
    have hy := setIdx_same o union res y (h y (by simp))
    unfold ufuncSetIter
    simp only []
    split
    · exact hy
    · rw [ih (setIdx o union res y) (fun i hi => by rw [hy]; exact h i (by simp [hi])), hy]

/-! ### lookups in appended / stacked data -/

theorem lookup_append {γ : Type} (l1 l2 : List α) (v1 v2 : List γ) (hl : v1.length = l1.length) (x : α) :
    lookup (l1 ++ l2) (v1 ++ v2) x = if x ∈ l1 then lookup l1 v1 x else lookup l2 v2 x := by
  by_cases h1 : x ∈ l1
  · rw [if_pos h1, lookup_of_mem (List.mem_append_left _ h1), lookup_of_mem h1, List.idxOf_append, if_pos h1,
      List.getElem?_append]
    have : l1.idxOf x < v1.length := hl ▸ List.idxOf_lt_length_iff.mpr h1
    rw [if_pos this]
  · rw [if_neg h1]
    by_cases h2 : x ∈ l2
    · rw [lookup_of_mem (List.mem_append_right _ h2), lookup_of_mem h2, List.idxOf_append, if_neg h1,
        List.getElem?_append]
      have : ¬ (l2.idxOf x + l1.length < v1.length) := by omega
      rw [if_neg this, hl]
      congr 1
      omega
    · rw [lookup_of_not_mem h2, lookup_of_not_mem]
      intro h
      rcases List.mem_append.mp h with h | h
      · exact h1 h
      · exact h2 h

/-- columns of members stacked on top of each other -/
def stackAll : List (List (List β)) → List (List β)
  | [] => []
  | [c] => c
  | c :: cs => appendCols c (stackAll cs)

theorem appendCols_assoc (a b c : List (List β)) :
    appendCols (appendCols a b) c = appendCols a (appendCols b c) := by
  induction a generalizing b c with
  | nil => simp [appendCols]
  | cons x xs ih =>
    cases b with
    | nil => simp [appendCols]
    | cons y ys =>
      cases c with
      | nil => simp [appendCols]
      | cons z zs =>
        simp only [appendCols, List.zipWith_cons_cons, List.append_assoc, List.cons.injEq, true_and]
        exact ih ys zs

theorem foldl_appendCols (a : List (List β)) (bs : List (List (List β))) :
    bs.foldl (fun acc x => appendCols acc x) a = stackAll (a :: bs) := by
  induction bs generalizing a with
  | nil => rfl
  | cons b bs ih =>
    rw [List.foldl_cons, ih]
    cases bs with
    | nil => rfl
    | cons c cs =>
      have h1 : stackAll (appendCols a b :: c :: cs) = appendCols (appendCols a b) (stackAll (c :: cs)) := rfl
      have h2 : stackAll (a :: b :: c :: cs) = appendCols a (appendCols b (stackAll (c :: cs))) := rfl
      rw [h1, h2, appendCols_assoc]

/-- members aligned on the same columns, stacked: each member's rows keep their cells -/
theorem stack_get? (cols : Idx α) (kind : Kind) (ms : List (Frame α β)) (hne : ms ≠ [])
    (hwf : ∀ m ∈ ms, m.WF) (hcols : ∀ m ∈ ms, m.columns = cols)
    (hnd : (ms.map (·.index.labels)).flatten.Nodup) :
    let R : Frame α β := ⟨⟨(ms.map (·.index.labels)).flatten, kind⟩, cols, stackAll (ms.map (·.cols))⟩
    R.WF ∧ ∀ m ∈ ms, ∀ x ∈ m.index.labels, ∀ c ∈ cols.labels, R.get? x c = m.get? x c := by
  induction ms with
  | nil => exact absurd rfl hne
  | cons m rest ih =>
    have hm := hwf m (by simp)
    have hmc : m.columns = cols := hcols m (by simp)
    cases rest with
    | nil =>
      simp only [List.map_cons, List.map_nil, List.flatten_cons, List.flatten_nil, List.append_nil, stackAll]
      refine ⟨⟨hm.1, hmc ▸ hm.2.1, hmc ▸ hm.2.2.1, hm.2.2.2⟩, ?_⟩
      intro m' hm' x _ c _
      have : m' = m := by simpa using hm'
      subst this
      simp only [Frame.get?, hmc]
    | cons m2 rest2 =>
      have hnd' : ((m2 :: rest2).map (·.index.labels)).flatten.Nodup := by
        simp only [List.map_cons, List.flatten_cons] at hnd ⊢
        exact (List.nodup_append.mp hnd).2.1
      obtain ⟨hRwf, hRget⟩ := ih (by simp) (fun y hy => hwf y (by simp [hy]))
        (fun y hy => hcols y (by simp [hy])) hnd'
      simp only [List.map_cons, List.flatten_cons] at hnd hRwf hRget ⊢
      have hdisj := (List.nodup_append.mp hnd).2.2
      -- shape of the stacked columns
      have hstack : stackAll (m.cols :: m2.cols :: rest2.map (·.cols)) =
          appendCols m.cols (stackAll (m2.cols :: rest2.map (·.cols))) := rfl
      rw [hstack]
      have hlenR : (stackAll (m2.cols :: rest2.map (·.cols))).length = cols.labels.length := hRwf.2.2.1
      have hlenM : m.cols.length = cols.labels.length := hmc ▸ hm.2.2.1
      constructor
      · refine ⟨hnd, hRwf.2.1, ?_, ?_⟩
        · simp [appendCols, List.length_zipWith, hlenR, hlenM]
        · intro col hcol
          obtain ⟨j, hj, rfl⟩ := List.mem_iff_getElem.mp hcol
          have hj' : j < min m.cols.length (stackAll (m2.cols :: rest2.map (·.cols))).length := by
            simpa [appendCols, List.length_zipWith] using hj
          have hj1 : j < m.cols.length := by omega
          have hj2 : j < (stackAll (m2.cols :: rest2.map (·.cols))).length := by omega
          show ((appendCols m.cols (stackAll (m2.cols :: rest2.map (·.cols))))[j]).length = _
          simp only [appendCols, List.getElem_zipWith, List.length_append]
          rw [hm.2.2.2 _ (List.getElem_mem hj1), hRwf.2.2.2 _ (List.getElem_mem hj2)]
          simp
      · intro m' hm' x hx c hc
        -- the column of label `c` in both parts
        obtain ⟨colM, hcolM⟩ := lookup_isSome hc hlenM
        obtain ⟨colR, hcolR⟩ := lookup_isSome hc hlenR
        have hcolA : lookup cols.labels (appendCols m.cols (stackAll (m2.cols :: rest2.map (·.cols)))) c =
            some (colM ++ colR) := lookup_zipWith' (g := (· ++ ·)) hcolM hcolR
        have hcm : colM.length = m.index.labels.length := by
          rw [lookup_of_mem hc] at hcolM
          exact hm.2.2.2 _ (List.mem_of_getElem? hcolM)
        simp only [Frame.get?, hcolA]
        rw [lookup_append _ _ _ _ hcm]
        rcases List.mem_cons.mp hm' with rfl | hm''
        · rw [if_pos hx]
          simp only [Frame.get?, hmc, hcolM]
        · have hxr : x ∈ (m2.index.labels ++ (rest2.map (·.index.labels)).flatten) := by
            rcases List.mem_cons.mp hm'' with rfl | h3
            · exact List.mem_append_left _ hx
            · exact List.mem_append_right _ (List.mem_flatten.mpr ⟨_, List.mem_map.mpr ⟨m', h3, rfl⟩, hx⟩)
          have hx1 : x ∉ m.index.labels := fun h => hdisj x h x hxr rfl
          rw [if_neg hx1]
          have := hRget m' hm'' x hx c hc
          simp only [Frame.get?, hcolR] at this
          exact this

end

end Concat
end SF
