/-
  SFModel.Heap — arrays, buffers and the writeable flag (C01).

  static-frame's immutability rests on three NumPy facts (trusted, sampled by the harness):
  a write through an array needs `flags.writeable`; a view of a non-writeable array is
  non-writeable; `copy` allocates a fresh buffer.  On top of them the library follows one
  discipline, read off `util.immutable_filter` and the ~160 `flags.writeable = False` sites:
  every array a container references is frozen, and is either library-allocated or went through
  `immutable_filter` (copy if writeable).  The model is the event system of that discipline.
-/
import SFModel.Basic

namespace SF

structure HArr where
  buf : Nat
  writeable : Bool
deriving Repr, DecidableEq, Inhabited

structure Heap where
  bufs : List (List Int)          -- buffer contents by buffer id
  arrs : List HArr                 -- array objects by id
  conts : List (List Nat)         -- containers: the arrays each one references
deriving Repr, DecidableEq, Inhabited

inductive Ev where
  | alloc (vals : List Int)            -- a fresh array on a fresh buffer (writeable), by the library or the caller
  | view (a : Nat)                     -- basic indexing / reshape / transpose: same buffer, flag inherited
  | copy (a : Nat)                     -- fresh buffer with the same content, writeable
  | freeze (a : Nat)                   -- flags.writeable = False
  | filter (a : Nat)                   -- immutable_filter: `a` itself if frozen, else freeze (copy a)
  | construct (as : List Nat)          -- a new container referencing exactly these arrays
  | write (a i : Nat) (v : Int)        -- anyone writes element i through array a
deriving Repr, DecidableEq

namespace Heap

def arr? (h : Heap) (a : Nat) : Option HArr := h.arrs[a]?

/-- no array object aliasing buffer `b` is writeable -/
def bufFrozen (h : Heap) (b : Nat) : Bool := h.arrs.all fun x => x.buf != b || !x.writeable

/-- array `a` is frozen and so is every alias of its buffer -/
def isolated (h : Heap) (a : Nat) : Bool :=
  match h.arrs[a]? with
  | none => false
  | some x => !x.writeable && h.bufFrozen x.buf

/-- the invariant: everything a container references is isolated -/
def inv (h : Heap) : Bool := h.conts.all fun c => c.all fun a => h.isolated a

/-- which events the discipline allows in a state -/
def legal (h : Heap) : Ev → Bool
  | .alloc _ => true
  | .view a => (h.arrs[a]?).isSome
  | .copy a => (h.arrs[a]?).isSome
  | .freeze a => (h.arrs[a]?).isSome
  | .filter a => (h.arrs[a]?).isSome
  | .construct as => as.all fun a => h.isolated a
  | .write a _ _ => match h.arrs[a]? with
      | some x => x.writeable            -- NumPy refuses a write through a read-only array
      | none => false

def step (h : Heap) : Ev → Heap
  | .alloc vals => { h with bufs := h.bufs ++ [vals], arrs := h.arrs ++ [⟨h.bufs.length, true⟩] }
  | .view a => match h.arrs[a]? with
      | some x => { h with arrs := h.arrs ++ [⟨x.buf, x.writeable⟩] }
      | none => h
  | .copy a => match h.arrs[a]? with
      | some x => { h with bufs := h.bufs ++ [h.bufs.getD x.buf []], arrs := h.arrs ++ [⟨h.bufs.length, true⟩] }
      | none => h
  | .freeze a => match h.arrs[a]? with
      | some x => { h with arrs := h.arrs.set a ⟨x.buf, false⟩ }
      | none => h
  | .filter a => match h.arrs[a]? with
      | some x =>
        if x.writeable then
          { h with bufs := h.bufs ++ [h.bufs.getD x.buf []], arrs := h.arrs ++ [⟨h.bufs.length, false⟩] }
        else h
      | none => h
  | .construct as => { h with conts := h.conts ++ [as] }
  | .write a i v => match h.arrs[a]? with
      | some x => { h with bufs := h.bufs.set x.buf ((h.bufs.getD x.buf []).set i v) }
      | none => h

/-- the array `immutable_filter a` hands back -/
def filterResult (h : Heap) (a : Nat) : Nat :=
  match h.arrs[a]? with
  | some x => if x.writeable then h.arrs.length else a
  | none => a

/-- what is observable through container `c`: the contents of the buffers of its arrays -/
def snapshot (h : Heap) (c : Nat) : List (List Int) :=
  (h.conts.getD c []).map fun a => match h.arrs[a]? with
    | some x => h.bufs.getD x.buf []
    | none => []

/-- run a list of events, skipping the ones the discipline (or NumPy) refuses -/
def run (h : Heap) (es : List Ev) : Heap := es.foldl (fun s e => if s.legal e then s.step e else s) h

/-- structural sanity: buffer ids in range -/
def wf (h : Heap) : Bool := h.arrs.all fun x => x.buf < h.bufs.length

end Heap
end SF
