/-
  SFModel.Level — the IndexLevel tree of an IndexHierarchy.

  Mirrors static_frame/core/index_level.py and the tree builder of index_hierarchy.py:
    * `IndexLevel` (index, targets, offset)                         → `Level`
    * `_get_length`, `_get_depth`                                   → `Level.len`, `Level.depth`
    * `IndexHierarchy.from_labels` / `_from_type_blocks` (`observed_last`) → `BTree.insert`, `Level.fromLabels`
    * `IndexLevel.from_level_data` (`from_tree`)                    → `BTree.toLevel`
    * `leaf_loc_to_iloc`, `__contains__`                            → `Level.leafLoc`, `Level.contains`
    * `__iter__` / `values` (deque + `row_previous`)               → `Level.iter`
    * `index_array_at_depth`, `label_widths_at_depth`, `values_at_depth`, `to_type_blocks`
    * `loc_to_iloc` for `HLoc` (deque with running offsets)         → `Level.locToIloc`
    * `IndexLevelGO.append` / `extend`                              → `Level.append`, `Level.extend`
    * `IndexHierarchyGO` `_blocks` / `_recache` / `_update_array_cache` → `HState`

  The per-node `Index` of a level is represented by its label list; its map is the one automap
  builds (`labels.zipIdx`), see `Level.pos?`.  The `while levels: popleft()` loops are `bfs` with
  fuel; `LevelLemmas` proves that fuel = number of nodes suffices.
-/
import SFModel.Index

namespace SF

inductive Level (α : Type)
  | leaf (labels : List α) (offset : Nat)
  | node (labels : List α) (children : List (Level α)) (offset : Nat)
deriving Repr

namespace Level
variable {α : Type}

def offset : Level α → Nat
  | .leaf _ o => o
  | .node _ _ o => o

def labels : Level α → List α
  | .leaf ls _ => ls
  | .node ls _ _ => ls

def children : Level α → List (Level α)
  | .leaf _ _ => []
  | .node _ cs _ => cs

def isLeaf : Level α → Bool
  | .leaf _ _ => true
  | .node _ _ _ => false

def setOffset (o : Nat) : Level α → Level α
  | .leaf ls _ => .leaf ls o
  | .node ls cs _ => .node ls cs o

mutual
/-- `_get_length`: the sum of the lengths of all leaf indices. -/
def len : Level α → Nat
  | .leaf ls _ => ls.length
  | .node _ cs _ => lenList cs
def lenList : List (Level α) → Nat
  | [] => 0
  | c :: cs => c.len + lenList cs
end

mutual
/-- number of IndexLevel objects in the tree (fuel of the breadth-first loops) -/
def nodes : Level α → Nat
  | .leaf _ _ => 1
  | .node _ cs _ => 1 + nodesList cs
def nodesList : List (Level α) → Nat
  | [] => 0
  | c :: cs => c.nodes + nodesList cs
end

/-- `_get_depth`: follow the first target down to a leaf. -/
def depth : Level α → Nat
  | .leaf _ _ => 1
  | .node _ [] _ => 1
  | .node _ (c :: _) _ => 1 + c.depth

mutual
/-- Specification view: the label tuples in index order (depth-first). -/
def tuples : Level α → List (List α)
  | .leaf ls _ => ls.map ([·])
  | .node ls cs _ => tuplesZip ls cs
def tuplesZip : List α → List (Level α) → List (List α)
  | l :: ls, c :: cs => c.tuples.map (l :: ·) ++ tuplesZip ls cs
  | _, _ => []
end

mutual
/-- Well-formed tree of uniform depth `d`: labels distinct per node, one child per label, the
    offset of a child is the number of leaves before it under the same parent. -/
def WF : Nat → Level α → Prop
  | d, .leaf ls _ => d = 1 ∧ ls.Nodup
  | d, .node ls cs _ => 2 ≤ d ∧ ls.Nodup ∧ ls.length = cs.length ∧ WFList (d - 1) 0 cs
def WFList : Nat → Nat → List (Level α) → Prop
  | _, _, [] => True
  | d, acc, c :: cs => c.offset = acc ∧ WF d c ∧ WFList d (acc + c.len) cs
end

/-- Specification: a label sequence is a tree in the given order when all tuples sharing a prefix
    are contiguous (a closed subtree is never revisited). -/
def TreeOrdered (ts : List (List α)) : Prop :=
  ∀ (i j k : Nat) (x y z : List α) (n : Nat), ts[i]? = some x → ts[j]? = some y → ts[k]? = some z →
    i < j → j < k → x.take n = z.take n → y.take n = x.take n

variable [DecidableEq α]

/-- `index._loc_to_iloc(k)` / `index.__contains__(k)` on the Index of one node. -/
def pos? (ls : List α) (k : α) : Option Nat := AMap.get? (ls.zipIdx 0) k

mutual
/-- `leaf_loc_to_iloc(key)`: walk down adding the offsets of the targets entered. -/
def leafLoc : Level α → List α → Nat → Except Err Nat
  | .leaf ls _, [k], pos => match pos? ls k with
    | none => .error .lookup
    | some i => .ok (pos + i)
  | .leaf _ _, _, _ => .error .lookup          -- Invalid key length
  | .node _ _ _, [], _ => .error .lookup
  | .node ls cs _, k :: rest, pos => match pos? ls k with
    | none => .error .lookup
    | some i => leafLocAt cs i rest pos
def leafLocAt : List (Level α) → Nat → List α → Nat → Except Err Nat
  | [], _, _, _ => .error .lookup
  | c :: _, 0, rest, pos => c.leafLoc rest (pos + c.offset)
  | _ :: cs, i + 1, rest, pos => leafLocAt cs i rest pos
end

/-- `leaf_loc_to_iloc` from the root -/
def leafLocToIloc (t : Level α) (key : List α) : Except Err Nat := t.leafLoc key 0

mutual
/-- the descent of `__contains__(key)` (at a leaf the answer is `True` whatever remains of the key;
    the length of the key is checked by `containsKey` before the descent) -/
def contains : Level α → List α → Bool
  | _, [] => false
  | .leaf ls _, k :: _ => (pos? ls k).isSome
  | .node ls cs _, k :: rest => match pos? ls k with
    | none => false
    | some i => containsAt cs i rest
def containsAt : List (Level α) → Nat → List α → Bool
  | [], _, _ => false
  | c :: _, 0, rest => c.contains rest
  | _ :: cs, i + 1, rest => containsAt cs i rest
end

/-- `IndexLevel.__contains__(key)` on a level of depth `depthCount`: since commit 88fd864 a key
    with fewer or more components than the depth is not a leaf loc (before, an over-long key whose
    prefix is held answered `True`: finding F42). -/
def containsKey (t : Level α) (depthCount : Nat) (key : List α) : Bool :=
  if key.length ≠ depthCount then false else t.contains key

end Level

/-! ### the tree builder of `from_labels` / `_from_type_blocks` -/

/-- The nested `dict` / `list` structure built before `from_tree` is called. -/
inductive BTree (α : Type)
  | leaves (ls : List α)
  | dict (items : List (α × BTree α))
deriving Repr

namespace BTree
variable {α : Type} [DecidableEq α]

/-- `current[v]` if `v in current` -/
def find? : List (α × BTree α) → α → Option (BTree α)
  | [], _ => none
  | (k, b) :: items, v => if k = v then some b else find? items v

/-- `current[v] = b` for a key that is present (dict order is kept) -/
def replace : List (α × BTree α) → α → BTree α → List (α × BTree α)
  | [], _, _ => []
  | (k, b) :: items, v, b' => if k = v then (k, b') :: items else (k, b) :: replace items v b'

/-- One label of the `for label in labels` loop: descend from `current = tree`, creating a node
    for a new key, re-entering an existing one only if it is `observed_last[d]`.
    `obs` is `observed_last[d:]` (`none` = the `token`). -/
def insert : BTree α → List α → List (Option α) → Except Err (BTree α × List (Option α))
  | .leaves ls, [v], obs => .ok (.leaves (ls ++ [v]), obs)
  | .dict items, v :: w :: rest, o :: obs =>
    match find? items v with
    | none =>
      match insert (if rest.isEmpty then .leaves [] else .dict []) (w :: rest) obs with
      | .error e => .error e
      | .ok (sub, obs') => .ok (.dict (items ++ [(v, sub)]), some v :: obs')
    | some sub0 =>
      if o ≠ some v then .error .indexInit        -- invalid tree-form
      else match insert sub0 (w :: rest) obs with
        | .error e => .error e
        | .ok (sub, obs') => .ok (.dict (replace items v sub), some v :: obs')
  | _, _, _ => .error .indexInit                   -- inconsistent label depth

/-- the loop over all labels (`len(label) != depth` is an ErrorInitIndex) -/
def insertAll (depth : Nat) (t : BTree α) (obs : List (Option α)) : List (List α) → Except Err (BTree α)
  | [] => .ok t
  | l :: ls =>
    if l.length ≠ depth then .error .indexInit else
    match insert t l obs with
    | .error e => .error e
    | .ok (t', obs') => insertAll depth t' obs' ls

variable [IntLabel α]

mutual
/-- `IndexLevel.from_level_data(level_data, get_index, offset)`: every node gets an `Index`
    (non-unique leaf labels are rejected there), children get running offsets. -/
def toLevel : BTree α → Nat → Except Err (Level α)
  | .leaves ls, off => match Index.mk? ls with
    | .error e => .error e
    | .ok ix => .ok (.leaf ix.labels off)
  | .dict items, off => match toLevels items 0 with
    | .error e => .error e
    | .ok cs => match Index.mk? (items.map (·.1)) with
      | .error e => .error e
      | .ok ix => .ok (.node ix.labels cs off)
def toLevels : List (α × BTree α) → Nat → Except Err (List (Level α))
  | [], _ => .ok []
  | (_, b) :: items, acc => match toLevel b acc with
    | .error e => .error e
    | .ok c => match toLevels items (acc + c.len) with
      | .error e => .error e
      | .ok cs => .ok (c :: cs)
end

end BTree

namespace Level
variable {α : Type} [DecidableEq α] [IntLabel α]

/-- `IndexHierarchy.from_labels(labels)` (no continuation token, no reorder): depth from the first
    label, minimum 2; an empty iterable gives a zero-length level. -/
def fromLabels (ts : List (List α)) : Except Err (Level α) :=
  match ts with
  | [] => .ok (.leaf [] 0)
  | first :: _ =>
    if first.length < 2 then .error .indexInit else
    match BTree.insertAll first.length (.dict []) (List.replicate first.length none) ts with
    | .error e => .error e
    | .ok tree => tree.toLevel 0

end Level

/-! ### breadth-first loops (`levels = deque(...); while levels: ... popleft()`) -/

/-- The common shape of the `while levels:` loops: pop the left-most `(level, state)`, let `visit`
    produce what is yielded and what is appended to the right of the deque.  `none` = out of fuel. -/
def bfs {ν σ β : Type} (visit : ν → σ → List β × List (ν × σ)) : Nat → List (ν × σ) → Option (List β)
  | _, [] => some []
  | 0, _ :: _ => none
  | fuel + 1, (t, s) :: q =>
    match bfs visit fuel (q ++ (visit t s).2) with
    | none => none
    | some r => some ((visit t s).1 ++ r)

/-- per-depth selector of an `HLoc` -/
inductive Sel (α : Type)
  | all                                             -- `:`  (NULL_SLICE)
  | label (a : α)
  | list (as : List α)
  | slice (start stop : Option α) (step : Option Int)
  | mask (bs : List Bool)
deriving Repr

namespace Sel
variable {α : Type}

def toLKey : Sel α → LKey α
  | .all => .slice none none none
  | .label a => .label a
  | .list as => .list as
  | .slice a b st => .slice a b st
  | .mask bs => .mask bs

/-- `isinstance(k, KEY_MULTIPLE_TYPES)` -/
def isMultiple : Sel α → Bool
  | .label _ => false
  | _ => true

end Sel

namespace Level
variable {α : Type} [DecidableEq α] [IntLabel α]

/-- `zip(level.index.values, level.targets)` paired with the carried state -/
def zipChildren {σ : Type} (f : α → σ) : List α → List (Level α) → List (Level α × σ)
  | l :: ls, c :: cs => (c, f l) :: zipChildren f ls cs
  | _, _ => []

/-- `__iter__` (and `values`): one step; the state is `row_previous`. -/
def iterVisit (t : Level α) (row : List α) : List (List α) × List (Level α × List α) :=
  match t with
  | .leaf ls _ => (ls.map (fun v => row ++ [v]), [])
  | .node ls cs _ => ([], zipChildren (fun l => row ++ [l]) ls cs)

/-- `IndexLevel.__iter__`: tuples in deque order -/
def iter (t : Level α) : Option (List (List α)) := bfs iterVisit t.nodes [(t, [])]

/-- `get_widths(index, targets)` of `label_widths_at_depth`: the width of a label is read off the
    offset of the *next* target (`IndexError` when targets are missing). -/
def widthsAux : List α → List (Level α) → Nat → Except Err (List (α × Nat))
  | [], _, _ => .ok []
  | _ :: _, [], _ => .error .lookup
  | l :: ls, [c], _ => match widthsAux ls [] 0 with
    | .error e => .error e
    | .ok r => .ok ((l, c.len) :: r)
  | l :: ls, c :: c' :: cs, transversed =>
    let delta := if c'.offset > 0 then c'.offset - transversed else c.len
    match widthsAux ls (c' :: cs) (transversed + delta) with
    | .error e => .error e
    | .ok r => .ok ((l, delta) :: r)

def getWidths : Level α → Except Err (List (α × Nat))
  | .leaf ls _ => .ok (ls.map (·, 1))
  | .node ls cs _ => widthsAux ls cs 0

/-- the loops of `index_array_at_depth` / `label_widths_at_depth`: the state is the depth. -/
def atDepthVisit {β : Type} (f : Level α → β) (depthLevel : Nat) (t : Level α) (depth : Nat) :
    List β × List (Level α × Nat) :=
  if depth = depthLevel then ([f t], [])
  else ([], t.children.map (·, depth + 1))

def atDepth {β : Type} (f : Level α → β) (t : Level α) (depthLevel : Nat) : Option (List β) :=
  bfs (atDepthVisit f depthLevel) t.nodes [(t, 0)]

def sequence {ε β : Type} : List (Except ε β) → Except ε (List β)
  | [] => .ok []
  | .error e :: _ => .error e
  | .ok b :: rest => match sequence rest with
    | .error e => .error e
    | .ok r => .ok (b :: r)

/-- `values_at_depth(depth_level)` of a level of depth `depthCount`. -/
def valuesAtDepth (t : Level α) (depthCount depthLevel : Nat) : Except Err (List α) :=
  if t.len = 0 then .ok []
  else if depthLevel + 1 = depthCount then
    match atDepth Level.labels t depthLevel with          -- np.concatenate(index_array_at_depth)
    | none => .error .other
    | some arrays => .ok arrays.flatten
  else
    match atDepth getWidths t depthLevel with
    | none => .error .other
    | some ws => match sequence ws with
      | .error e => .error e
      | .ok wss => .ok (wss.flatten.flatMap (fun (lw : α × Nat) => List.replicate lw.2 lw.1))

/-- `to_type_blocks()`: one array per depth. -/
def toTypeBlocks (t : Level α) (depthCount : Nat) : Except Err (List (List α)) :=
  sequence ((List.range depthCount).map (valuesAtDepth t depthCount))

/-! #### HLoc resolution -/

/-- order-preserving de-duplication (`list(dict.fromkeys(x))`) -/
def dedupe : List α → List α
  | [] => []
  | a :: as => a :: (dedupe as).filter (· ≠ a)

/-- Boolean `depth_key`: cut to the leaves under this node; when longer than the node's own index,
    translate to the node labels covering a `True` leaf. -/
def maskAt (t : Level α) (bs : List Bool) (nextOffset : Nat) : Except Err (Sel α) :=
  let cut := (bs.drop nextOffset).take t.len
  if cut.length > t.labels.length then
    match getWidths t with
    | .error e => .error e
    | .ok ws =>
      let expanded := ws.flatMap (fun (lw : α × Nat) => List.replicate lw.2 lw.1)
      if expanded.length ≠ cut.length then .error .lookup else
      let sel := (expanded.zip cut).filterMap (fun (p : α × Bool) => if p.2 then some p.1 else none)
      .ok (.list (if sel.length > 1 then dedupe sel else sel))
  else .ok (.mask cut)

/-- the Index of one node -/
def nodeIndex (ls : List α) : Index α := ⟨ls, some (ls.zipIdx 0)⟩

/-- One step of the HLoc loop.  Yields the iloc part of a leaf (or the exception that is not a
    KeyError), enqueues the selected targets with the running offset. -/
def hlocVisit (key : List (Sel α)) (t : Level α) (st : Nat × Nat) :
    List (Except Err IKey) × List (Level α × (Nat × Nat)) :=
  let depth := st.1
  let nextOffset := st.2 + t.offset
  let depthKey0 := key.getD depth .all
  let depthKey : Except Err (Sel α) := match depthKey0 with
    | .mask bs => maskAt t bs nextOffset
    | k => .ok k
  match depthKey with
  | .error e => ([.error e], [])
  | .ok dk =>
    match t with
    | .leaf ls _ =>
      match dk, (nodeIndex ls).locToIlocP dk.toLKey (some nextOffset) true with
      | .label _, .error _ => ([], [])                     -- KeyError: pass
      | _, r => ([r], [])
    | .node ls cs _ =>
      match dk, (nodeIndex ls).locToIlocP dk.toLKey none true with
      | .label _, .error _ => ([], [])                     -- KeyError: pass
      | _, .error e => ([.error e], [])
      | _, .ok iloc =>
        match iloc.positions cs.length with                -- level.targets[iloc]
        | .error e => ([.error e], [])
        | .ok ps => ([], (ps.filterMap (cs[·]?)).map (·, (depth + 1, nextOffset)))

/-- flatten the collected iloc parts (`range(*part.indices(length))`, int, iterable) -/
def flattenParts (length : Nat) : List IKey → Except Err (List Int)
  | [] => .ok []
  | part :: rest =>
    match (match part with
      | .slice s => (s.positions length).map (fun (l : List Nat) => l.map Int.ofNat)
      | .int i => .ok [i]
      | .list is => .ok is
      | .arr ps => .ok (ps.map Int.ofNat)) with
    | .error e => .error e
    | .ok here => match flattenParts length rest with
      | .error e => .error e
      | .ok r => .ok (here ++ r)

/-- `IndexLevel.loc_to_iloc(HLoc[key])` -/
def locToIloc (t : Level α) (key : List (Sel α)) : Except Err IKey :=
  match bfs (hlocVisit key) t.nodes [(t, (0, 0))] with
  | none => .error .other
  | some items =>
    match sequence items with
    | .error e => .error e
    | .ok ilocs =>
      match ilocs with
      | [] => .error .lookup                               -- no matching keys across all levels
      | [one] => if key.any Sel.isMultiple then (flattenParts t.len [one]).map .list else .ok one
      | _ => (flattenParts t.len ilocs).map .list

/-! #### specification of HLoc resolution (label / all / list selectors) -/

/-- the selectors for which `hloc_exact_partial` is proved -/
def _root_.SF.Sel.simple : Sel α → Bool
  | .all => true
  | .label _ => true
  | .list _ => true
  | _ => false

/-- positions among a node's labels selected by a simple selector, in selector order -/
def _root_.SF.Sel.idxs (ls : List α) : Sel α → List Nat
  | .all => List.range ls.length
  | .label a => (pos? ls a).toList
  | .list as => as.filterMap (pos? ls)
  | _ => []

/-- a tuple component matches a simple selector -/
def _root_.SF.Sel.matches (a : α) : Sel α → Bool
  | .all => true
  | .label b => decide (a = b)
  | .list as => as.contains a
  | _ => false

/-- a tuple (from depth `dep` on) matches every per-depth selector of the key -/
def matchFrom (key : List (Sel α)) : Nat → List α → Bool
  | _, [] => true
  | dep, a :: rest => (key.getD dep .all).matches a && matchFrom key (dep + 1) rest

mutual
/-- Specification: depth-first, every node visits its selected targets in selector order (index
    order for `all`, the order of the list for a list selector); `start` is the global position of
    the first leaf of the level. -/
def specPos (key : List (Sel α)) : Level α → Nat → Nat → List Nat
  | .leaf ls _, dep, start => ((key.getD dep .all).idxs ls).map (start + ·)
  | .node ls cs _, dep, start =>
    ((key.getD dep .all).idxs ls).flatMap (fun i => specPosIdx key cs i (dep + 1) start)
def specPosIdx (key : List (Sel α)) : List (Level α) → Nat → Nat → Nat → List Nat
  | [], _, _, _ => []
  | c :: _, 0, dep, start => specPos key c dep start
  | c :: cs, i + 1, dep, start => specPosIdx key cs i dep (start + c.len)
end

/-! #### grow-only mutation -/

/-- the levels created for the part of an appended key below the first depth not found -/
def chain : List α → Level α
  | [] => .leaf [] 0
  | [k] => .leaf [k] 0
  | k :: k' :: rest => .node [k] [chain (k' :: rest)] 0

mutual
/-- the guard of the repaired append: an existing label is re-entered only when it is the last
    label of its node (`node.index._loc_to_iloc(k) == len(node.index) - 1`), i.e. when the last
    target is the one the key's prefix names -/
def appendOk : Level α → List α → Bool
  | .leaf _ _, _ => true
  | .node _ _ _, [] => true
  | .node ls cs _, k :: rest =>
    if (pos? ls k).isSome then (pos? ls k == some (ls.length - 1)) && appendOkLast cs rest else true
def appendOkLast : List (Level α) → List α → Bool
  | [], _ => true
  | [c], key => appendOk c key
  | _ :: c' :: cs, key => appendOkLast (c' :: cs) key
end

mutual
/-- `IndexLevelGO.append(key)` below the root: the descent follows the LAST target
    (`node = node.targets[-1]`) and, since commit c43fc4c, refuses (RuntimeError) a key component
    that is held by the node's index at another position than the last; the first depth whose
    index does not hold the key component gets the new label. -/
def appendGo : Level α → List α → Except Err (Level α)
  | .leaf ls off, [k] =>
    if (pos? ls k).isSome then .error .shape              -- RuntimeError (not the last label / unable to set depth_not_found)
    else .ok (.leaf (ls ++ [k]) off)
  | .leaf _ _, _ => .error .shape
  | .node _ _ _, [] => .error .shape
  | .node ls cs off, k :: rest =>
    if (pos? ls k).isSome then
      if pos? ls k ≠ some (ls.length - 1) then .error .shape   -- names a closed sub-tree
      else match appendLast cs rest with
        | .error e => .error e
        | .ok cs' => .ok (.node ls cs' off)
    else .ok (.node (ls ++ [k]) (cs ++ [(chain rest).setOffset (lenList cs)]) off)
def appendLast : List (Level α) → List α → Except Err (List (Level α))
  | [], _ => .error .lookup
  | [c], key => match appendGo c key with
    | .error e => .error e
    | .ok c' => .ok [c']
  | c :: c' :: cs, key => match appendLast (c' :: cs) key with
    | .error e => .error e
    | .ok r => .ok (c :: r)
end

/-- `IndexLevelGO.append(key)` on a level of depth `depthCount`. -/
def append (t : Level α) (depthCount : Nat) (key : List α) : Except Err (Level α) :=
  if key.length ≠ depthCount then .error .shape
  else if t.labels.isEmpty then .ok (chain key)
  else appendGo t key

mutual
/-- PINNED-TREE BEHAVIOUR (repaired in commit c43fc4c, finding F11): the descent followed the last
    target without comparing the key's prefix with the path taken.  Kept for the historical
    counterexample and because the repaired append coincides with it whenever `appendOk` holds. -/
def appendPinnedGo : Level α → List α → Except Err (Level α)
  | .leaf ls off, [k] =>
    if (pos? ls k).isSome then .error .shape
    else .ok (.leaf (ls ++ [k]) off)
  | .leaf _ _, _ => .error .shape
  | .node _ _ _, [] => .error .shape
  | .node ls cs off, k :: rest =>
    if (pos? ls k).isSome then
      match appendPinnedLast cs rest with
      | .error e => .error e
      | .ok cs' => .ok (.node ls cs' off)
    else .ok (.node (ls ++ [k]) (cs ++ [(chain rest).setOffset (lenList cs)]) off)
def appendPinnedLast : List (Level α) → List α → Except Err (List (Level α))
  | [], _ => .error .lookup
  | [c], key => match appendPinnedGo c key with
    | .error e => .error e
    | .ok c' => .ok [c']
  | c :: c' :: cs, key => match appendPinnedLast (c' :: cs) key with
    | .error e => .error e
    | .ok r => .ok (c :: r)
end

def appendPinned (t : Level α) (depthCount : Nat) (key : List α) : Except Err (Level α) :=
  if key.length ≠ depthCount then .error .shape
  else if t.labels.isEmpty then .ok (chain key)
  else appendPinnedGo t key

/-- the duplicate check of `IndexGO.extend` on the Index of a node -/
def extendDup (cur : List α) : List α → List α → Bool
  | [], _ => false
  | a :: as, observed => (pos? cur a).isSome || observed.contains a || extendDup cur as (observed ++ [a])

/-- `self.index.extend(level.index.values)`: all labels are checked first (KeyError, nothing
    appended), then appended in order -/
def extendLabels (cur new : List α) : List α × Option Err :=
  if extendDup cur new [] then (cur, some .lookup) else (cur ++ new, none)

/-- `t.to_index_level(offset_prior, cls=…)` for each target, with running offsets -/
def reoffset : List (Level α) → Nat → List (Level α)
  | [], _ => []
  | c :: cs, off => c.setOffset off :: reoffset cs (off + c.len)

/-- `IndexLevelGO.extend(level)`: new tree and the exception raised, if any (in-place mutation). -/
def extend (t other : Level α) : Level α × Option Err :=
  match other with
  | .leaf _ _ => (t, some .shape)                          -- found IndexLevel with None as targets
  | .node ls2 cs2 _ =>
    if t.depth ≠ other.depth then (t, some .shape) else
    match t with
    | .leaf _ _ => (t, some .shape)                         -- self.targets is None: raised before the index is extended
    | .node ls cs off =>
      let r := extendLabels ls ls2
      match r.2 with
      | some e => (.node r.1 cs off, some e)               -- rejected: nothing was appended
      | none => (.node r.1 (cs ++ reoffset cs2 (lenList cs)) off, none)

/-! #### histories of grow-only calls (specification side) -/

end Level

/-- a grow-only call on the level tree -/
inductive LOp (α : Type)
  | append (key : List α)
  | extend (other : Level α)

namespace Level
variable {α : Type} [DecidableEq α] [IntLabel α]

/-- one call; an exception leaves (append) or partially changes (extend) the object -/
def stepGO (t : Level α) (d : Nat) : LOp α → Level α
  | .append key => match t.append d key with
    | .ok t' => t'
    | .error _ => t
  | .extend other => (t.extend other).1

def runGO (t : Level α) (d : Nat) (ops : List (LOp α)) : Level α := ops.foldl (fun t op => t.stepGO d op) t

/-- the calls the statement covers: EVERY append (any key), extensions by well-formed levels of
    the same depth with new outer labels (an extension sharing an outer label is rejected as a
    whole, see `extend_rejected_unchanged`) -/
def admissible (d : Nat) (t : Level α) : LOp α → Prop
  | .append _ => True
  | .extend other => WF d other ∧ t.depth = other.depth ∧ ∀ a ∈ other.labels, a ∉ t.labels

def Admissible (d : Nat) : Level α → List (LOp α) → Prop
  | _, [] => True
  | t, op :: ops => admissible d t op ∧ Admissible d (t.stepGO d op) ops

/-- specification: an append is accepted iff the key has full depth, is not held, and every
    component that is already a label of the node on the right-most path is the last label there
    (the key continues the tree in the given order) -/
def accepts (t : Level α) (d : Nat) (key : List α) : Bool :=
  decide (key.length = d) && !(t.tuples.contains key) && (t.labels.isEmpty || appendOk t key)

/-- specification: what a call adds to the sequence of tuples -/
def added (t : Level α) (d : Nat) : LOp α → List (List α)
  | .append key => if accepts t d key then [key] else []
  | .extend other => other.tuples

def addedAll (t : Level α) (d : Nat) : List (LOp α) → List (List α)
  | [] => []
  | op :: ops => added t d op ++ addedAll (t.stepGO d op) d ops

end Level

/-! ### IndexHierarchyGO: levels + lazily cached blocks -/

structure HState (α : Type) where
  levels : Level α
  depth : Nat
  blocks : Option (List (List α))        -- `_blocks`: one array per depth
  recache : Bool
deriving Repr

inductive HOp (α : Type)
  | append (key : List α)
  | extend (other : Level α)
  | readIter | readLen | readValues | readValuesAtDepth (d : Nat) | readContains (key : List α)
deriving Repr

/-- what a read returns -/
inductive HObs (α : Type)
  | none
  | raised (e : Err)
  | tuples (ts : List (List α))
  | nat (n : Nat)
  | column (c : List α)
  | bool (b : Bool)
deriving Repr

namespace HState
variable {α : Type} [DecidableEq α] [IntLabel α]

/-- `IndexHierarchyGO(levels)`: `_recache = blocks is None` -/
def ofLevel (t : Level α) (depth : Nat) : HState α := ⟨t, depth, none, true⟩

/-- `_update_array_cache` -/
def updateArrayCache (s : HState α) : Except Err (HState α) :=
  match s.levels.toTypeBlocks s.depth with
  | .error e => .error e
  | .ok b => .ok { s with blocks := some b, recache := false }

/-- rows of the cached blocks (`_blocks.values`) -/
def rowsOf (n : Nat) (cols : List (List α)) : List (List α) :=
  (List.range n).map (fun i => cols.filterMap (·[i]?))

def blocksLen (s : HState α) : Nat :=
  match s.blocks with
  | some (c :: _) => c.length
  | _ => 0

/-- one call on the grow-only hierarchy: new state and what the caller observes -/
def step (s : HState α) : HOp α → HState α × HObs α
  | .append key => match s.levels.append s.depth key with
    | .error e => (s, .raised e)
    | .ok t => ({ s with levels := t, recache := true }, .none)
  | .extend other => match s.levels.extend other with
    | (t, some e) => ({ s with levels := t }, .raised e)       -- `_recache` is not set
    | (t, none) => ({ s with levels := t, recache := true }, .none)
  | .readIter => match s.levels.iter with
    | none => (s, .raised .other)
    | some ts => (s, .tuples ts)
  | .readLen => (s, .nat (if s.recache then s.levels.len else s.blocksLen))
  | .readContains key => (s, .bool (s.levels.containsKey s.depth key))
  | .readValues =>
    match (if s.recache then s.updateArrayCache else .ok s) with
    | .error e => (s, .raised e)
    | .ok s' => (s', .tuples (rowsOf s'.blocksLen (s'.blocks.getD [])))
  | .readValuesAtDepth d =>
    match (if s.recache then s.updateArrayCache else .ok s) with
    | .error e => (s, .raised e)
    | .ok s' => match (s'.blocks.getD [])[d]? with
      | none => (s', .raised .lookup)
      | some c => (s', .column c)

def run (s : HState α) : List (HOp α) → HState α × List (HObs α)
  | [] => (s, [])
  | op :: ops =>
    let r := s.step op
    let rest := run r.1 ops
    (rest.1, r.2 :: rest.2)

/-! #### specification side of the cache state machine -/

/-- the invariant: a well-formed tree, and blocks that are either stale-and-flagged or equal to
    what `to_type_blocks` yields for the current tree -/
def Coherent (s : HState α) : Prop :=
  2 ≤ s.depth ∧ Level.WF s.depth s.levels ∧
  (s.recache = false → ∃ b, s.blocks = some b ∧ s.levels.toTypeBlocks s.depth = .ok b)

/-- what a read has to return when the index holds the tuples `ts` (depth `d`) -/
def agrees (ts : List (List α)) (d : Nat) : HOp α → HObs α → Prop
  | .readIter, .tuples r => r = ts
  | .readLen, .nat n => n = ts.length
  | .readContains key, .bool b => (b = true ↔ key ∈ ts)
  | .readValuesAtDepth dl, .column c => dl < d ∧ c.map some = ts.map (·[dl]?)
  | .readValuesAtDepth dl, .raised _ => d ≤ dl
  | .readValues, .tuples rows => rows = ts
  | .append _, _ => True
  | .extend _, _ => True
  | _, _ => False

/-- calls covered: every append, every read, every extend by a well-formed level of the same depth
    (accepted or rejected) -/
def admissible (s : HState α) : HOp α → Prop
  | .extend other => Level.WF s.depth other ∧ s.levels.depth = other.depth
  | _ => True

def Admissible : HState α → List (HOp α) → Prop
  | _, [] => True
  | s, op :: ops => admissible s op ∧ Admissible (s.step op).1 ops

/-- every observation of a history agrees with the tree held at the time of the call -/
def AllAgree : HState α → List (HOp α) → List (HObs α) → Prop
  | _, [], [] => True
  | s, op :: ops, o :: os => agrees s.levels.tuples s.depth op o ∧ AllAgree (s.step op).1 ops os
  | _, _, _ => False

end HState

end SF
