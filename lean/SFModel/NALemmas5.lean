/-
  SFModel.NALemmas5 — helper lemmas for C14, part 5: `stepDir` (one block of
  `_fillna_directional_axis_1`, one row) refines the spec and maintains the invariant;
  induction over the block list.
-/
import SFModel.NALemmas4

namespace SF.NA

variable {α : Type} {isna : α → Bool}

/-- the cells of a block in fill direction -/
def orient (fwd : Bool) (l : List α) : List α := if fwd then l else l.reverse

theorem stepDir_shortcut (fwd : Bool) (limit : Nat) (st : Option (Bridge α)) (b : RBlock α)
    (h : (b.others || (b.cells.map isna).any id) = false) :
    stepDir isna fwd limit st b =
      (b.cells, some ⟨edgeCell fwd b.cells b.hd, isna (edgeCell fwd b.cells b.hd), 0⟩) := by
  unfold stepDir
  simp only [h, Bool.not_false, if_true]

theorem stepDir_oneD (fwd : Bool) (limit : Nat) (st : Option (Bridge α)) (b : RBlock α)
    (h : (b.others || (b.cells.map isna).any id) = true) (h1 : b.oneD = true ∧ b.tl = []) :
    stepDir isna fwd limit st b = stepOneD isna limit st b.hd := by
  unfold stepDir
  simp only [h, Bool.not_true, Bool.false_eq_true, if_false, h1, and_self, if_true]

theorem stepDir_twoD (fwd : Bool) (limit : Nat) (st : Option (Bridge α)) (b : RBlock α)
    (h : (b.others || (b.cells.map isna).any id) = true) (h1 : ¬ (b.oneD = true ∧ b.tl = [])) :
    stepDir isna fwd limit st b =
      let r1 := bridgeFill isna fwd limit st b.cells b.hd
      let r2 := innerFill isna fwd limit b.cells r1.1 r1.2
      let bv' := edgeCell fwd r2.1 b.hd
      (r2.1, some ⟨bv', isna bv',
        if (!isna (edgeCell fwd b.cells b.hd) || isna bv') = true then 0 else r2.2⟩) := by
  unfold stepDir
  simp only [h, Bool.not_true, Bool.false_eq_true, if_false, h1]

theorem headD_eq_reverse_getLastD (l : List α) (d : α) : l.headD d = l.reverse.getLastD d := by
  cases l with
  | nil => rfl
  | cons x xs => simp [List.getLastD_eq_getLast?]

theorem edge_orient (fwd : Bool) (a : List α) (d : α) : edgeCell fwd a d = (orient fwd a).getLastD d := by
  cases fwd with
  | true => simp [edgeCell, orient]
  | false => simp only [edgeCell, orient, Bool.false_eq_true, if_false]; exact headD_eq_reverse_getLastD a d

theorem orient_mem (fwd : Bool) (a : List α) (x : α) : x ∈ orient fwd a ↔ x ∈ a := by
  cases fwd <;> simp [orient]

theorem orient_ne_nil (fwd : Bool) (a : List α) (h : a ≠ []) : orient fwd a ≠ [] := by
  cases fwd <;> simp [orient, h]

theorem getLastD_of_getLast? (l : List α) (d z : α) (h : l.getLast? = some z) : l.getLastD d = z := by
  rw [List.getLastD_eq_getLast?, h]; rfl

theorem inv_fst (limit : Nat) (st : Option (Bridge α)) (last : Option α) (cnt : Nat)
    (h : Inv isna limit st last cnt) : ∀ v, last = some v → isna v = false := h.1

/-- shortcut branch -/
theorem stepDir_spec_shortcut (fwd : Bool) (limit : Nat) (b : RBlock α)
    (last : Option α) (cnt : Nat)
    (h : (b.others || (b.cells.map isna).any id) = false) :
    orient fwd b.cells = ffill isna limit (orient fwd b.cells) last cnt ∧
    Inv isna limit (some ⟨edgeCell fwd b.cells b.hd, isna (edgeCell fwd b.cells b.hd), 0⟩)
      (ffillState isna (orient fwd b.cells) last cnt).1 (ffillState isna (orient fwd b.cells) last cnt).2 := by
  have hno : ∀ x ∈ b.cells, isna x = false := by
    intro x hx
    simp only [Bool.or_eq_false_iff] at h
    have := h.2
    rw [List.any_eq_false] at this
    have := this (isna x) (List.mem_map_of_mem hx)
    simpa using this
  have hno' : ∀ x ∈ orient fwd b.cells, isna x = false := fun x hx => hno x ((orient_mem fwd _ x).mp hx)
  have hne : orient fwd b.cells ≠ [] := orient_ne_nil fwd _ (by simp [RBlock.cells])
  obtain ⟨z, hz⟩ : ∃ z, (orient fwd b.cells).getLast? = some z := by
    cases hg : (orient fwd b.cells).getLast? with
    | none => rw [List.getLast?_eq_none_iff] at hg; exact absurd hg hne
    | some z => exact ⟨z, rfl⟩
  have hzn : isna z = false := hno' z (List.mem_of_getLast? hz)
  have hedge : edgeCell fwd b.cells b.hd = z := by
    rw [edge_orient]; exact getLastD_of_getLast? _ _ _ hz
  refine ⟨(ffill_noNA limit _ last cnt hno').symm, ?_⟩
  rw [ffillState_noNA _ last cnt z hno' hz, hedge]
  refine ⟨?_, rfl, Or.inr ⟨hzn, rfl, fun _ => rfl⟩⟩
  intro v hv; cases hv; exact hzn

theorem inv_open (limit : Nat) (v : α) (na : Bool) (c c' : Nat) (hv : isna v = false) (hna : na = false)
    (hc : limit ≠ 0 → c' = c) : Inv isna limit (some ⟨v, na, c⟩) (some v) c' := by
  refine ⟨?_, ?_, Or.inr ⟨hna, rfl, hc⟩⟩
  · intro w hw; cases hw; exact hv
  · simp only; rw [hna, hv]

theorem inv_closed (limit : Nat) (v : α) (na : Bool) (c : Nat) (last : Option α) (cnt : Nat)
    (hv : isna v = true) (hna : na = true) (hlast : ∀ w, last = some w → isna w = false)
    (hcl : Closed limit last cnt) : Inv isna limit (some ⟨v, na, c⟩) last cnt := by
  refine ⟨hlast, ?_, Or.inl ⟨hna, hcl⟩⟩
  simp only; rw [hna, hv]

/-- 1-D branch -/
theorem stepDir_spec_oneD (limit : Nat) (st : Option (Bridge α)) (x : α)
    (last : Option α) (cnt : Nat) (hinv : Inv isna limit st last cnt) :
    (stepOneD isna limit st x).1 = ffill isna limit [x] last cnt ∧
    Inv isna limit (stepOneD isna limit st x).2
      (ffillState isna [x] last cnt).1 (ffillState isna [x] last cnt).2 := by
  unfold stepOneD
  obtain ⟨hlastna, hst⟩ := hinv
  by_cases hx : isna x = true
  · have e1 : ffill isna limit [x] last cnt = [fillOne limit last cnt x] := by simp [ffill, hx]
    have e2 : ffillState isna [x] last cnt = (last, cnt + 1) := by simp [ffillState, hx]
    rw [e1, e2]
    cases st with
    | none =>
      simp only at hst
      subst hst
      exact ⟨by first | rfl | trivial, inv_closed limit x _ 0 none _ hx hx hlastna (Or.inl rfl)⟩
    | some s =>
      obtain ⟨bv, bna, bc⟩ := s
      simp only at hst
      obtain ⟨hna, hcase⟩ := hst
      rcases hcase with ⟨hb, hcl⟩ | ⟨hb, hl, hc⟩
      · -- closed
        subst hb
        simp only [Bool.not_true, Bool.and_false, Bool.false_and, Bool.false_eq_true, if_false]
        rw [fillOne_closed _ _ _ _ hcl]
        exact ⟨by first | rfl | trivial, inv_closed limit x _ 0 last _ hx hx hlastna (closed_succ _ _ _ hcl)⟩
      · subst hb
        subst hl
        have hbv : isna bv = false := hlastna bv rfl
        simp only [Bool.not_false, Bool.and_true, hx, Bool.true_and, if_true, fillOne]
        by_cases c0 : limit = 0
        · subst c0
          simp only [ne_eq, not_true_eq_false, decide_false, Bool.false_and, Bool.not_false, if_true, true_or]
          exact ⟨by first | rfl | trivial, inv_open 0 bv _ _ _ hbv hbv (fun h => absurd rfl h)⟩
        · have hcb := hc c0
          subst hcb
          by_cases c1 : cnt < limit
          · have : (!(decide (limit ≠ 0) && decide (cnt ≥ limit))) = true := by simp; omega
            rw [this, if_pos rfl, if_pos (Or.inr c1)]
            exact ⟨by first | rfl | trivial, inv_open limit bv _ _ _ hbv hbv (fun _ => rfl)⟩
          · have : (!(decide (limit ≠ 0) && decide (cnt ≥ limit))) = false := by simp [c0]; omega
            rw [this, if_neg (by simp), if_neg (by omega)]
            exact ⟨by first | rfl | trivial, inv_closed limit x _ _ _ _ hx hx hlastna (Or.inr ⟨c0, by omega⟩)⟩
  · have hx' : isna x = false := by simpa using hx
    have e1 : ffill isna limit [x] last cnt = [x] := by simp [ffill, hx']
    have e2 : ffillState isna [x] last cnt = (some x, 0) := by simp [ffillState, hx']
    rw [e1, e2]
    cases st with
    | none =>
      exact ⟨by first | rfl | trivial, inv_open limit x _ 0 0 hx' (by first | rfl | exact hx') (fun _ => rfl)⟩
    | some s =>
      obtain ⟨bv, bna, bc⟩ := s
      simp only [hx', Bool.false_and, Bool.false_eq_true, if_false]
      exact ⟨by first | rfl | trivial, inv_open limit x _ 0 0 hx' (by first | rfl | exact hx') (fun _ => rfl)⟩

/-- 2-D branch -/
theorem stepDir_spec_twoD (fwd : Bool) (limit : Nat)
    (st : Option (Bridge α)) (b : RBlock α) (last : Option α) (cnt : Nat)
    (hinv : Inv isna limit st last cnt) :
    let r1 := bridgeFill isna fwd limit st b.cells b.hd
    let r2 := innerFill isna fwd limit b.cells r1.1 r1.2
    let bv' := edgeCell fwd r2.1 b.hd
    orient fwd r2.1 = ffill isna limit (orient fwd b.cells) last cnt ∧
    Inv isna limit (some ⟨bv', isna bv',
        if (!isna (edgeCell fwd b.cells b.hd) || isna bv') = true then 0 else r2.2⟩)
      (ffillState isna (orient fwd b.cells) last cnt).1 (ffillState isna (orient fwd b.cells) last cnt).2 := by
  intro r1 r2 bv'
  have hne : b.cells ≠ [] := by simp [RBlock.cells]
  have hcells : orient fwd r2.1 = ffill isna limit (orient fwd b.cells) last cnt := by
    cases fwd with
    | true => exact twoD_cells_fwd limit st b.cells b.hd last cnt hinv
    | false => exact twoD_cells_bwd limit st b.cells b.hd last cnt hinv
  refine ⟨hcells, ?_⟩
  have hyne : orient fwd b.cells ≠ [] := orient_ne_nil fwd _ hne
  have hys := (List.dropLast_concat_getLast hyne).symm
  generalize hl' : (orient fwd b.cells).dropLast = l' at hys
  generalize hzz : (orient fwd b.cells).getLast hyne = z at hys
  have hbv : bv' = (ffill isna limit (l' ++ [z]) last cnt).getLastD b.hd := by
    show edgeCell fwd r2.1 b.hd = _
    rw [edge_orient, hcells, ← hys]
  have hzedge : edgeCell fwd b.cells b.hd = z := by
    rw [edge_orient, hys, List.getLastD_concat]
  have es := edge_state (isna := isna) limit l' z b.hd last cnt hinv.1
  simp only at es
  rw [← hbv] at es
  obtain ⟨es1, es2, es3⟩ := es
  rw [hzedge, hys]
  have hfst := ffillState_fst_notna (isna := isna) (l' ++ [z]) last cnt hinv.1
  cases hz : isna z with
  | false =>
    obtain ⟨e1, e2⟩ := es1 hz
    rw [e2, e1]
    simp only [Bool.not_false, Bool.true_or, if_true]
    exact inv_open limit z _ 0 0 hz hz (fun _ => rfl)
  | true =>
    cases hb : isna bv' with
    | true =>
      simp only [Bool.not_true, Bool.false_or, if_true]
      exact inv_closed limit bv' _ 0 _ _ hb rfl hfst (es2 hz hb)
    | false =>
      obtain ⟨e1, e2, e3⟩ := es3 hz hb
      simp only [Bool.not_true, Bool.false_or, Bool.false_eq_true, if_false]
      have hst1 : (ffillState isna (l' ++ [z]) last cnt) =
          (some bv', (ffillState isna (l' ++ [z]) last cnt).2) := by
        rw [← e1]
      rw [hst1]
      apply inv_open limit bv' _ _ _ hb rfl
      intro h0
      rw [← hys]
      symm
      cases fwd with
      | true =>
        have hz' : isna (b.cells.getLastD b.hd) = true := by
          have : edgeCell true b.cells b.hd = b.cells.getLastD b.hd := by simp [edgeCell]
          rw [← this, hzedge]; exact hz
        have := twoD_count_fwd limit st b.cells b.hd last cnt hne hinv hz' bv'
          (by have := e1; rw [← hys] at this; simpa [orient] using this)
          (by have := e2 h0; rw [← hys] at this; simpa [orient] using this) h0
        simpa [orient] using this
      | false =>
        have hz' : isna (b.cells.headD b.hd) = true := by
          have : edgeCell false b.cells b.hd = b.cells.headD b.hd := by simp [edgeCell]
          rw [← this, hzedge]; exact hz
        have := twoD_count_bwd limit st b.cells b.hd last cnt hne hinv hz' bv'
          (by have := e1; rw [← hys] at this; simpa [orient] using this)
          (by have := e2 h0; rw [← hys] at this; simpa [orient] using this) h0
        simpa [orient] using this

/-- One block of `_fillna_directional_axis_1` (one row), for every layout flag and every state related
    by `Inv`: the output cells are the spec applied with the spec's state, and the invariant is
    maintained, in both directions and for every limit (the repaired count, /repo 5a58a46;
    for `limit = 0`. -/
theorem stepDir_spec (fwd : Bool) (limit : Nat)
    (st : Option (Bridge α)) (b : RBlock α) (last : Option α) (cnt : Nat)
    (hinv : Inv isna limit st last cnt) :
    orient fwd (stepDir isna fwd limit st b).1 = ffill isna limit (orient fwd b.cells) last cnt ∧
    Inv isna limit (stepDir isna fwd limit st b).2
      (ffillState isna (orient fwd b.cells) last cnt).1 (ffillState isna (orient fwd b.cells) last cnt).2 := by
  cases h : (b.others || (b.cells.map isna).any id) with
  | false =>
    rw [stepDir_shortcut fwd limit st b h]
    exact stepDir_spec_shortcut fwd limit b last cnt h
  | true =>
    by_cases h1 : b.oneD = true ∧ b.tl = []
    · rw [stepDir_oneD fwd limit st b h h1]
      have hc : b.cells = [b.hd] := by simp [RBlock.cells, h1.2]
      have ho : orient fwd [b.hd] = [b.hd] := by cases fwd <;> simp [orient]
      have ho' : orient fwd (stepOneD isna limit st b.hd).1 = (stepOneD isna limit st b.hd).1 := by
        have hlen : ∃ y, (stepOneD isna limit st b.hd).1 = [y] := by
          unfold stepOneD
          cases st with
          | none => exact ⟨_, rfl⟩
          | some s => exact ⟨_, rfl⟩
        obtain ⟨y, hy⟩ := hlen
        rw [hy]; cases fwd <;> simp [orient]
      rw [hc, ho, ho']
      exact stepDir_spec_oneD limit st b.hd last cnt hinv
    · rw [stepDir_twoD fwd limit st b h h1]
      exact stepDir_spec_twoD fwd limit st b last cnt hinv

end SF.NA
