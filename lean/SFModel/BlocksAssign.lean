/-
  SFModel.BlocksAssign — model of `TypeBlocks._assign_from_iloc_by_unit(row_key, column_key, value)`
  (static_frame/core/type_blocks.py), the generator behind `Frame.assign[...](value)`,
  `Frame.assign.iloc[...]` / `.loc[...]` with an element or an array value, wrapped as the code wraps it
  (`extract_iloc_assign_by_unit`: `TypeBlocks.from_blocks(generator)`, no shape reference).

  The generator walks the blocks with the `(block, slice | int)` targets of the column key
  (`_key_to_block_slices(column_key, retain_key_order=True)`, Blocks.lean `keyToBlockSlices`).  For a
  block that a target addresses it yields, in this order,
    * the unaddressed columns before the target (`b[:, assigned_stop:start]`),
    * the assigned sub-block: with a null row key a NEW array of the VALUE's dtype
      (`np.empty(t_shape, dtype=value_dtype)`), otherwise a copy of the addressed sub-block in the
      dtype `resolve_dtype(value_dtype, b.dtype)`; the value (or the next piece of it) is written into
      the addressed rows,
    * after the last target of the block the unaddressed columns behind it (`b[:, assigned_stop:]`).
  A sized value (an array) is consumed from the front while slice targets are met: `value_piece` is
  its first `v_width` columns, the rest is kept for the next target.  An integer target takes the
  whole value and consumes nothing.

  What is a parameter: dtype resolution (`resolve`).  What is not modelled: NumPy's conversion of the
  cell VALUES when a sub-block is copied into another dtype (`astype`) or a value is stored into an
  array of another dtype — cells are carried over unchanged (the correspondence compares addressed
  columns up to that conversion, unaddressed columns exactly).

  NumPy's assignment `target[rows(, :)] = piece` is mirrored with its broadcasting (an axis of the
  piece has the length of the target's axis, or length 1).
-/
import SFModel.Blocks

namespace SF

/-- the assigned value: an element, a 1-D array, a 2-D array (column-major; a 2-D array without
    columns is represented without its row count) — each with the dtype `dtype_from_element` reports -/
inductive AVal (α : Type) where
  | elem (v : α) (dt : DT)
  | col (vs : List α) (dt : DT)
  | mat (cols : List (List α)) (dt : DT)
deriving Repr, DecidableEq, Inhabited

namespace AVal
variable {α : Type}

/-- `value_dtype = dtype_from_element(value)` -/
def dt : AVal α → DT
  | elem _ t => t
  | col _ t => t
  | mat _ t => t

/-- `not isinstance(value, (str, bytes)) and hasattr(value, '__len__')` -/
def sized : AVal α → Bool
  | elem _ _ => false
  | _ => true

/-- `value[NULL_SLICE, slice(k, None)]` / `value[slice(k, None)]`: what is kept for the next target -/
def dropCols : AVal α → Nat → AVal α
  | elem v t, _ => elem v t
  | col vs t, k => col (vs.drop k) t
  | mat cs t, k => mat (cs.drop k) t

/-- the value supplies a cell for every addressed cell: an element always does; a 1-D array is
    read ALONG THE ADDRESSED COLUMNS when the column key is not an integer (one value per column,
    repeated down the rows) and along the addressed rows when it is (NumPy aligns a 1-D value with
    the last axis of the target); a 2-D array needs a non-integer column key and, like a per-row 1-D
    array, a non-integer row key.  A value with MORE columns than addressed is accepted by the code
    (the surplus is never read). -/
def Fits (v : AVal α) (rkMulti ckMulti : Bool) (nr nc : Nat) : Prop :=
  match v with
  | .elem _ _ => True
  | .col vs _ => if ckMulti then nc ≤ vs.length else (rkMulti = true ∧ vs.length = nr)
  | .mat cols _ => ckMulti = true ∧ rkMulti = true ∧
      ∀ m, m < nc → cols[m]?.map List.length = some nr

/-- the value cell for the `ri`-th addressed row and the `cj`-th addressed column (key order) -/
def cell (v : AVal α) (ckMulti : Bool) (ri cj : Nat) : Option α :=
  match v with
  | .elem x _ => some x
  | .col vs _ => if ckMulti then vs[cj]? else vs[ri]?
  | .mat cols _ => cols[cj]?.bind (·[ri]?)

end AVal

/-- `value_piece`: what is written into one assigned target -/
inductive Piece (α : Type) where
  | elem (v : α)
  | vec (vs : List α)            -- a 1-D array: aligned with the LAST axis of the target
  | mat (cols : List (List α))   -- a 2-D array, column-major
deriving Repr, DecidableEq, Inhabited

/-- NumPy broadcasting of one axis to length `n`: the axis has length `n`, or length 1 (repeated) -/
def bcast {β : Type} (l : List β) (n : Nat) : Option (List β) :=
  if l.length = n then some l else
  match l with
  | [x] => some (List.replicate n x)
  | _ => none

/-- `column[rows] = vals` (NumPy writes in order: a repeated row keeps the last value) -/
def writeCol {α : Type} (c : List α) (rps : List Nat) (vals : List α) : List α :=
  (rps.zip vals).foldl (fun c p => c.set p.1 p.2) c

/-- broadcasting inside an assignment: a shape NumPy cannot broadcast is a ValueError -/
def bcastE {β : Type} (l : List β) (n : Nat) : Except Err (List β) :=
  match bcast l n with
  | some x => .ok x
  | none => .error .value

namespace Piece
variable {α : Type}

/-- the cells `assigned_target[row_target] = piece` (1-D target) / `assigned_target[row_target, :] = piece`
    (2-D target of `w` columns) stores, column-major, for `n` addressed rows; `scalarRow`: the row key
    is an integer, so `assigned_target[i]` is a scalar slot (NumPy 2: an array is refused there). -/
def cells (is1d scalarRow : Bool) (w n : Nat) : Piece α → Except Err (List (List α))
  | .elem v => .ok (List.replicate w (List.replicate n v))
  | .vec vs =>
    if is1d then
      -- the last axis of `target[rows]` is the addressed rows
      if scalarRow then .error .value else (bcastE vs n).map ([·])
    else
      -- the last axis of `target[rows, :]` is the target's columns
      (bcastE vs w).map (·.map (List.replicate n ·))
  | .mat cols =>
    if is1d then
      if scalarRow then .error .value else
      -- a (1, k) array is accepted where a 1-D array of length k is
      if cols.all (·.length == 1) then (bcastE cols.flatten n).map ([·])
      else .error .value
    else
      match bcastE cols w with
      | .error e => .error e
      | .ok cs => cs.mapM (bcastE · n)

end Piece

namespace TB
variable {α : Type}

/-- `row_key is None or (isinstance(row_key, slice) and row_key == NULL_SLICE)` -/
def rowIsNull : Key → Bool
  | .all => true
  | .slice ⟨none, none, none⟩ => true
  | _ => false

/-- `target_is_slice` -/
def BSel.isSl : BSel → Bool
  | .sl _ => true
  | .col _ => false

/-- what the loop body reads off one target and its block before the value is touched -/
structure TInfo (α : Type) where
  /-- `start = target_key if not target_is_slice else target_key.start` -/
  start : Nat
  /-- the assigned target is 1-D (`t_shape = b.shape[0]`): the block is a column or the target an integer -/
  is1d : Bool
  /-- `assigned_stop = start + t_width` -/
  stop : Nat
  /-- number of columns of `np.empty(t_shape, ...)` (null row key); a negative `t_width` is a ValueError -/
  emptyW : Except Err Nat
  /-- the columns of `assigned_target_pre` (row key not null) -/
  pre : Except Err (List (List α))
  /-- `v_width` (read only for a slice target and a sized value) -/
  vw : Except Err Nat

/-- the shape decisions for a block that is a column (`block_is_column`): the target is the whole
    block as a 1-D array, whatever the target says beyond its start -/
def colInfo (c : List α) : BSel → Except Err (TInfo α)
  | .col k => .ok ⟨k, true, k + 1, .ok 1, .ok [c], .ok 1⟩
  | .sl ⟨some a, _, _⟩ =>
      if a < 0 then .error .other else .ok ⟨a.toNat, true, a.toNat + 1, .ok 1, .ok [c], .ok 1⟩
  | .sl ⟨none, _, _⟩ => .error .value

/-- the shape decisions for a 2-D block of width ≠ 1 -/
def wideInfo (cs : List (List α)) : BSel → Except Err (TInfo α)
  | .col k =>
      .ok ⟨k, true, k + 1, .ok 1,
        (match cs[k]? with | some c => .ok [c] | none => .error .lookup), .ok 1⟩
  | .sl ⟨some a, some z, st⟩ =>
      if a < 0 ∨ z < 0 then .error .other else
      let ps := PySlice.positions ⟨some a, some z, st⟩ cs.length
      .ok ⟨a.toNat, false, z.toNat,
        (if z < a then .error .value else .ok (z - a).toNat),
        ps.map (pick cs ·), ps.map List.length⟩
  | .sl ⟨some _, none, _⟩ => .error .value
  | .sl ⟨none, _, _⟩ => .error .value

/-- the shape decisions of the loop body for block `b` and target `sel`.
    `block_is_column = b.ndim == 1 or b.shape[1] == 1`.  Targets that `_key_to_block_slices` never
    yields (a slice without start, negative bounds) answer `other` / the TypeError of comparing
    `None`; a slice without stop (the descending run down to column 0) is the TypeError of
    `target_key.stop - target_key.start`. -/
def tgtInfo (b : Block α) (sel : BSel) : Except Err (TInfo α) :=
  match b with
  | .d1 _ c => colInfo c sel
  | .d2 _ [c] => colInfo c sel
  | .d2 _ cs => wideInfo cs sel

/-- `if start > assigned_stop: yield b[NULL_SLICE, slice(assigned_stop, start)]`
    (a 1-D block cannot be indexed with two keys: IndexError) -/
def gapPart (b : Block α) (stop start : Nat) : Except Err (List (Block α)) :=
  if start > stop then
    match b with
    | .d1 _ _ => .error .lookup
    | .d2 t cs => .ok [.d2 t (subCols cs stop start)]
  else .ok []

/-- the `value_piece` / remaining `value` decision -/
def takePiece (v : AVal α) (isSlice is1d : Bool) (vw : Except Err Nat) : Except Err (Piece α × AVal α) :=
  if isSlice ∧ v.sized then
    if is1d then
      -- `block_is_column`: `v_width = 1`, `value_piece_column_key = 0`
      match v with
      | .elem x t => .ok (.elem x, .elem x t)     -- unreachable (not sized)
      | .col [] _ => .error .lookup               -- `value[0]` on an empty array
      | .col (x :: vs) t => .ok (.elem x, .col vs t)
      | .mat [] _ => .error .lookup               -- `value[:, 0]` without columns
      | .mat (c :: cs) t => .ok (.vec c, .mat cs t)
    else
      match vw with
      | .error e => .error e
      | .ok w =>
        match v with
        | .elem x t => .ok (.elem x, .elem x t)   -- unreachable (not sized)
        | .col vs t => .ok (.vec (vs.take w), .col (vs.drop w) t)
        | .mat cs t => .ok (.mat (cs.take w), .mat (cs.drop w) t)
  else
    -- "not sliceable; this can be a single column": the whole value, nothing consumed
    match v with
    | .elem x _ => .ok (.elem x, v)
    | .col vs _ => .ok (.vec vs, v)
    | .mat cs _ => .ok (.mat cs, v)

/-- a 1-D target is yielded as a 1-D array, a 2-D target as a 2-D array -/
def mkBlock (is1d : Bool) (t : DT) (cols : List (List α)) : Except Err (Block α) :=
  if is1d then
    match cols with
    | [c] => .ok (.d1 t c)
    | _ => .error .other
  else .ok (.d2 t cols)

/-- one pass of the `while targets_remain` body for a target of the current block:
    (yielded arrays, new `assigned_stop`, remaining value).  `emptyW` is read only with a null row
    key, `pre` only without (the code does not index the block when it allocates an empty target). -/
def assignStep (resolve : DT → DT → DT) (nullRow scalarRow : Bool) (rpsE : Except Err (List Nat))
    (b : Block α) (sel : BSel) (stop : Nat) (v : AVal α) :
    Except Err (List (Block α) × Nat × AVal α) :=
  match tgtInfo b sel with
  | .error e => .error e
  | .ok info =>
  match gapPart b stop info.start with
  | .error e => .error e
  | .ok gap =>
  -- allocation of `assigned_target`: (columns to copy, width)
  match (if nullRow then info.emptyW.map (fun w => ((none : Option (List (List α))), w))
         else info.pre.map (fun p => (some p, p.length))) with
  | .error e => .error e
  | .ok (base, w) =>
  match takePiece v (BSel.isSl sel) info.is1d info.vw with
  | .error e => .error e
  | .ok (piece, v') =>
  -- the write: NumPy resolves the row index first, then broadcasts
  match rpsE with
  | .error e => .error e
  | .ok rps =>
  match piece.cells info.is1d scalarRow w rps.length with
  | .error e => .error e
  | .ok cells =>
  let cols := match base with
    | none => cells
    | some pre => List.zipWith (fun c vals => writeCol c rps vals) pre cells
  match mkBlock info.is1d (if nullRow then v.dt else resolve v.dt b.dt) cols with
  | .error e => .error e
  | .ok blk => .ok (gap ++ [blk], info.stop, v')

/-- the `while targets_remain` loop for ONE block: consumes the targets that belong to block `bi` -/
def assignWalk (resolve : DT → DT → DT) (nullRow scalarRow : Bool) (rpsE : Except Err (List Nat))
    (b : Block α) (bi : Nat) :
    List (Nat × BSel) → Nat → List (Block α) → AVal α →
      Except Err (List (Block α) × Nat × List (Nat × BSel) × AVal α)
  | [], stop, parts, v => .ok (parts, stop, [], v)
  | (tbi, sel) :: rest, stop, parts, v =>
    if tbi ≠ bi then .ok (parts, stop, (tbi, sel) :: rest, v) else
    match assignStep resolve nullRow scalarRow rpsE b sel stop v with
    | .error e => .error e
    | .ok (ys, stop', v') => assignWalk resolve nullRow scalarRow rpsE b bi rest stop' (parts ++ ys) v'

/-- what follows the loop: `if assigned_stop == 0: yield b` / a finished 1-D block yields nothing /
    `elif b.ndim == 2 and assigned_stop < b.shape[1]: yield b[NULL_SLICE, assigned_stop:]` -/
def tailPart (b : Block α) (stop : Nat) : List (Block α) :=
  if stop = 0 then [b] else
  match b with
  | .d1 _ _ => []
  | .d2 t cs => if stop < cs.length then [.d2 t (subCols cs stop cs.length)] else []

/-- `for block_idx, b in enumerate(self._blocks)` -/
def assignGo (resolve : DT → DT → DT) (nullRow scalarRow : Bool) (rpsE : Except Err (List Nat)) :
    Nat → List (Block α) → List (Nat × BSel) → AVal α → Except Err (List (Block α))
  | _, [], _, _ => .ok []
  | bi, b :: bs, targets, v =>
    match assignWalk resolve nullRow scalarRow rpsE b bi targets 0 [] v with
    | .error e => .error e
    | .ok (parts, stop, remaining, v') =>
      match assignGo resolve nullRow scalarRow rpsE (bi + 1) bs remaining v' with
      | .error e => .error e
      | .ok out => .ok (parts ++ tailPart b stop ++ out)

/-- `TypeBlocks.from_blocks(self._assign_from_iloc_by_unit(row_key, column_key, value))`.
    Without a block the loop body never runs (no key is looked at) and `from_blocks` cannot derive a
    row count: ErrorInitTypeBlocks.  The row key is applied by NumPy only when a target is written
    (`rpsE` is read inside the step): an invalid row key goes unnoticed when no column is addressed. -/
def assignUnit (tb : TB α) (rk ck : Key) (v : AVal α) (resolve : DT → DT → DT) : Except Err (TB α) :=
  if tb.blocks.isEmpty then .error .init else
  match keyToBlockSlices tb ck true with
  | .error e => .error e
  | .ok targets =>
    match assignGo resolve (rowIsNull rk) (!rk.isMulti) (rk.positions tb.rows) 0 tb.blocks targets v with
    | .error e => .error e
    | .ok bs => fromBlocks bs none

end TB

end SF
