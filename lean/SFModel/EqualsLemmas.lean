/-
  SFModel.EqualsLemmas — helper lemmas for Props/C10.lean.
-/
import SFModel.Equals
set_option linter.unusedSectionVars false

namespace SF.Equals

/-! ### All2 -/

section All2
variable {α β γ : Type}

@[simp] theorem All2_nil_nil {R : α → β → Prop} : All2 R [] [] = True := rfl
@[simp] theorem All2_cons_cons {R : α → β → Prop} {a b as bs} :
    All2 R (a :: as) (b :: bs) = (R a b ∧ All2 R as bs) := rfl
@[simp] theorem All2_nil_cons {R : α → β → Prop} {b bs} : All2 R [] (b :: bs) = False := rfl
@[simp] theorem All2_cons_nil {R : α → β → Prop} {a as} : All2 R (a :: as) [] = False := rfl

theorem All2.length_eq {R : α → β → Prop} : ∀ {xs ys}, All2 R xs ys → xs.length = ys.length
  | [], [], _ => rfl
  | _ :: _, _ :: _, h => by simp [All2.length_eq h.2]
  | [], _ :: _, h => h.elim
  | _ :: _, [], h => h.elim

theorem All2.imp {R : α → β → Prop} {S : α → β → Prop} (f : ∀ a b, R a b → S a b) :
    ∀ {xs ys}, All2 R xs ys → All2 S xs ys
  | [], [], _ => trivial
  | _ :: _, _ :: _, h => ⟨f _ _ h.1, All2.imp f h.2⟩
  | [], _ :: _, h => h.elim
  | _ :: _, [], h => h.elim

theorem All2.flip {R : α → β → Prop} {S : β → α → Prop} (f : ∀ a b, R a b → S b a) :
    ∀ {xs ys}, All2 R xs ys → All2 S ys xs
  | [], [], _ => trivial
  | _ :: _, _ :: _, h => ⟨f _ _ h.1, All2.flip f h.2⟩
  | [], _ :: _, h => h.elim
  | _ :: _, [], h => h.elim

theorem All2.trans {R : α → β → Prop} {S : β → γ → Prop} {T : α → γ → Prop}
    (f : ∀ a b c, R a b → S b c → T a c) :
    ∀ {xs ys zs}, All2 R xs ys → All2 S ys zs → All2 T xs zs
  | [], [], [], _, _ => trivial
  | _ :: _, _ :: _, _ :: _, h, k => ⟨f _ _ _ h.1 k.1, All2.trans f h.2 k.2⟩
  | [], _ :: _, _, h, _ => h.elim
  | _ :: _, [], _, h, _ => h.elim
  | [], [], _ :: _, _, k => k.elim
  | _ :: _, _ :: _, [], _, k => k.elim

theorem All2.refl {R : α → α → Prop} : ∀ {xs : List α}, (∀ a ∈ xs, R a a) → All2 R xs xs
  | [], _ => trivial
  | a :: as, h => ⟨h a (by simp), All2.refl fun x hx => h x (by simp [hx])⟩

theorem All2_append {R : α → β → Prop} : ∀ {xs ys} {xs' ys'}, xs.length = ys.length →
    (All2 R (xs ++ xs') (ys ++ ys') ↔ All2 R xs ys ∧ All2 R xs' ys')
  | [], [], _, _, _ => by simp
  | a :: as, b :: bs, _, _, h => by
    have h' : as.length = bs.length := by simpa using h
    simp [All2_append h', and_assoc]
  | [], _ :: _, _, _, h => by simp at h
  | _ :: _, [], _, _, h => by simp at h

theorem All2_append_of {R : α → β → Prop} {xs ys xs' ys'} (h : All2 R xs ys) (h' : All2 R xs' ys') :
    All2 R (xs ++ xs') (ys ++ ys') := (All2_append h.length_eq).mpr ⟨h, h'⟩

theorem All2_reverse {R : α → β → Prop} : ∀ {xs ys}, All2 R xs.reverse ys.reverse ↔ All2 R xs ys
  | [], [] => by simp
  | a :: as, b :: bs => by
    by_cases hl : as.length = bs.length
    · simp only [List.reverse_cons]
      rw [All2_append (by simpa using hl), All2_reverse]
      simp [and_comm]
    · constructor
      · intro h
        have := h.length_eq
        simp at this
        exact (hl this).elim
      · intro h
        have := h.2.length_eq
        exact (hl this).elim
  | [], b :: bs => by
    constructor
    · intro h; have := h.length_eq; simp at this
    · intro h; exact h.elim
  | a :: as, [] => by
    constructor
    · intro h; have := h.length_eq; simp at this
    · intro h; exact h.elim

theorem All2_iff_getElem {R : α → β → Prop} : ∀ {xs ys}, All2 R xs ys ↔
    xs.length = ys.length ∧ ∀ i (h : i < xs.length) (h' : i < ys.length), R xs[i] ys[i]
  | [], [] => by simp
  | [], _ :: _ => by simp
  | _ :: _, [] => by simp
  | a :: as, b :: bs => by
    simp only [All2_cons_cons, List.length_cons, Nat.add_right_cancel_iff]
    rw [All2_iff_getElem]
    constructor
    · rintro ⟨h0, hl, hr⟩
      refine ⟨hl, ?_⟩
      intro i h h'
      cases i with
      | zero => simpa using h0
      | succ i => simpa using hr i (by simpa using h) (by simpa using h')
    · rintro ⟨hl, hr⟩
      refine ⟨by simpa using hr 0 (by simp) (by simp), hl, ?_⟩
      intro i h h'
      have := hr (i + 1) (by simpa using h) (by simpa using h')
      simpa only [List.getElem_cons_succ] using this

theorem All2_map_left {R : γ → β → Prop} {f : α → γ} : ∀ {xs ys},
    All2 R (xs.map f) ys ↔ All2 (fun a b => R (f a) b) xs ys
  | [], [] => by simp
  | [], _ :: _ => by simp
  | _ :: _, [] => by simp
  | a :: as, b :: bs => by simp [All2_map_left]

end All2

/-! ### 1-D arrays -/

section Arr
variable {α : Type} (veq : α → α → Bool)

theorem cellOk_iff (s : Bool) (x y : Cell α) :
    cellOk veq s x y ↔ ((if s && (x.isna && y.isna) then true else Cell.rawEq veq x y) = true) := by
  cases x <;> cases y <;> cases s <;> simp [cellOk, Cell.isna, Cell.rawEq]

/-- `==`, both-missing fill and `all` on two arrays of the same length decide the pairwise relation -/
theorem valuesEqual_iff (s : Bool) : ∀ {x y : List (Cell α)}, x.length = y.length →
    (valuesEqual veq x y s = true ↔ All2 (cellOk veq s) x y)
  | [], [], _ => by simp [valuesEqual, arrEq, arrAll, fillTrue, arrAnd, arrIsna]
  | a :: as, b :: bs, h => by
    have h' : as.length = bs.length := by simpa using h
    have ih := valuesEqual_iff s h'
    simp only [All2_cons_cons, ← ih, cellOk_iff]
    cases s <;>
      simp [valuesEqual, arrEq, arrAll, fillTrue, arrAnd, arrIsna, Bool.and_comm, and_comm]
  | [], _ :: _, h => by simp at h
  | _ :: _, [], h => by simp at h

end Arr

/-! ### Index, IndexLevel -/

section Lvl
variable {ν δ κ α : Type} [DecidableEq ν] [DecidableEq δ] [DecidableEq κ] (veq : α → α → Bool)

theorem Idx.equals_iff (a b : Idx ν δ κ α) (o : Opts) :
    a.equals veq b o = true ↔ Idx.Spec veq o a b := by
  unfold Idx.equals Idx.Spec optsOk
  by_cases hl : a.labels.length = b.labels.length
  · rw [← valuesEqual_iff veq o.skipna hl]
    cases o.compareClass <;> cases o.compareName <;> cases o.compareDtype <;>
      simp [hl] <;> grind
  · have : ¬ All2 (cellOk veq o.skipna) a.labels b.labels := fun h => hl h.length_eq
    simp [hl, this]

theorem Level.eqvList_iff (o : Opts) : ∀ (xs ys : List (Level ν δ κ α)),
    Level.EqvList veq o xs ys ↔ All2 (Level.Eqv veq o) xs ys
  | [], [] => by simp [Level.EqvList]
  | [], _ :: _ => by simp [Level.EqvList]
  | _ :: _, [] => by simp [Level.EqvList]
  | x :: xs, y :: ys => by simp [Level.EqvList, Level.eqvList_iff o xs ys]

theorem Level.eqv_iff (o : Opts) (a b : Level ν δ κ α) :
    Level.Eqv veq o a b ↔ Idx.Spec veq o a.index b.index ∧ a.leaf = b.leaf ∧
      (a.leaf = false → All2 (Level.Eqv veq o) a.targets b.targets) := by
  cases a with
  | mk i l ts d c => simp [Level.Eqv, Level.index, Level.leaf, Level.targets, Level.eqvList_iff]

theorem Level.sizeList_append : ∀ (xs ys : List (Level ν δ κ α)),
    Level.sizeList (xs ++ ys) = Level.sizeList xs + Level.sizeList ys
  | [], ys => by simp [Level.sizeList]
  | x :: xs, ys => by simp [Level.sizeList, Level.sizeList_append xs ys, Nat.add_assoc]

theorem Level.sizeList_reverse : ∀ (xs : List (Level ν δ κ α)),
    Level.sizeList xs.reverse = Level.sizeList xs
  | [] => rfl
  | x :: xs => by
    simp [Level.sizeList_append, Level.sizeList, Level.sizeList_reverse xs, Nat.add_comm]

theorem Level.size_eq (a : Level ν δ κ α) : a.size = 1 + Level.sizeList a.targets := by
  cases a; simp [Level.size, Level.targets]

theorem Level.wf_iff (a : Level ν δ κ α) :
    a.WF ↔ (a.leaf = false → a.targets.length = a.index.labels.length ∧ a.targets ≠ []) ∧ Level.WFList a.targets := by
  cases a; simp [Level.WF, Level.leaf, Level.targets, Level.index]

theorem Level.wfList_append : ∀ (xs ys : List (Level ν δ κ α)),
    Level.WFList (xs ++ ys) ↔ Level.WFList xs ∧ Level.WFList ys
  | [], ys => by simp [Level.WFList]
  | x :: xs, ys => by simp [Level.WFList, Level.wfList_append xs ys, and_assoc]

theorem Level.wfList_reverse : ∀ (xs : List (Level ν δ κ α)),
    Level.WFList xs.reverse ↔ Level.WFList xs
  | [] => by simp
  | x :: xs => by
    simp [Level.wfList_append, Level.WFList, Level.wfList_reverse xs, and_comm]

theorem walk_iff (o : Opts) : ∀ (fuel : Nat) (sa sb : List (Level ν δ κ α)),
    Level.WFList sa → Level.WFList sb → Level.sizeList sa < fuel →
    (walk veq o fuel sa sb = true ↔ All2 (Level.Eqv veq o) sa sb)
  | 0, _, _, _, _, h => by omega
  | fuel + 1, [], [], _, _, _ => by simp [walk]
  | fuel + 1, [], _ :: _, _, _, _ => by simp [walk]
  | fuel + 1, _ :: _, [], _, _, _ => by simp [walk]
  | fuel + 1, a :: sa, b :: sb, wa, wb, hf => by
    simp only [Level.WFList] at wa wb
    simp only [Level.sizeList, Level.size_eq] at hf
    rw [All2_cons_cons, Level.eqv_iff]
    unfold walk
    by_cases hi : a.index.equals veq b.index o = true
    · have hs := (Idx.equals_iff veq a.index b.index o).mp hi
      simp only [hi, Bool.not_true, Bool.false_eq_true, if_false]
      cases hla : a.leaf <;> cases hlb : b.leaf
      · -- neither is a terminus: push the targets
        simp only [Bool.and_self, Bool.false_eq_true, if_false, Bool.or_self]
        have wa' := (Level.wf_iff a).mp wa.1
        have wb' := (Level.wf_iff b).mp wb.1
        have hlen : a.targets.length = b.targets.length := by
          rw [(wa'.1 hla).1, (wb'.1 hlb).1]; exact hs.1.length_eq
        rw [walk_iff o fuel _ _
          ((Level.wfList_append _ _).mpr ⟨(Level.wfList_reverse _).mpr wa'.2, wa.2⟩)
          ((Level.wfList_append _ _).mpr ⟨(Level.wfList_reverse _).mpr wb'.2, wb.2⟩)
          (by rw [Level.sizeList_append, Level.sizeList_reverse]; omega)]
        rw [All2_append (by simpa using hlen), All2_reverse]
        simp [hs]
      · simp [hs]
      · simp [hs]
      · simp only [Bool.and_self, if_true]
        rw [walk_iff o fuel sa sb wa.2 wb.2 (by omega)]
        simp [hs]
    · have hs : ¬ Idx.Spec veq o a.index b.index := fun h => hi ((Idx.equals_iff veq _ _ o).mpr h)
      simp [hi, hs]

theorem Level.equals_iff (o : Opts) (a b : Level ν δ κ α) (wa : a.WF) (wb : b.WF) :
    a.equals veq b o = true ↔
      a.len = b.len ∧ a.depth = b.depth ∧ Level.Eqv veq o a b ∧ (o.compareClass = true → a.cls = b.cls) := by
  have wa' := (Level.wf_iff a).mp wa
  have wb' := (Level.wf_iff b).mp wb
  have hwalk := walk_iff veq o (a.size + 1) [a] [b] (by simp [Level.WFList, wa]) (by simp [Level.WFList, wb])
    (by simp [Level.sizeList])
  have hidx := Idx.equals_iff veq a.index b.index o
  have heqv := Level.eqv_iff veq o a b
  have ha : (a.leaf || a.targets.isEmpty) = a.leaf := by
    cases hla : a.leaf
    · have := (wa'.1 hla).2; cases h : a.targets <;> simp_all
    · simp
  have hb : (b.leaf || b.targets.isEmpty) = b.leaf := by
    cases hlb : b.leaf
    · have := (wb'.1 hlb).2; cases h : b.targets <;> simp_all
    · simp
  unfold Level.equals
  rw [ha, hb]
  by_cases hc : (o.compareClass && a.cls != b.cls) = true
  · rw [if_pos hc]
    simp at hc
    constructor
    · intro h; cases h
    · intro h; exact (hc.2 (h.2.2.2 hc.1)).elim
  · rw [if_neg hc]
    have hc' : o.compareClass = true → a.cls = b.cls := by
      intro h; simp [h] at hc; exact hc
    by_cases hl : a.len = b.len
    · by_cases hd : a.depth = b.depth
      · have e1 : (a.len != b.len) = false := by simp [hl]
        have e2 : (a.depth != b.depth) = false := by simp [hd]
        rw [e1, e2]
        simp only [Bool.false_eq_true, if_false]
        cases hla : a.leaf <;> cases hlb : b.leaf
        · simp only [Bool.and_self, Bool.false_eq_true, if_false]
          rw [hwalk]; simp [hl, hd]; exact fun _ => hc'
        · simp only [Bool.false_and, Bool.false_eq_true, if_false]
          rw [hwalk]; simp [hl, hd]; exact fun _ => hc'
        · simp only [Bool.and_false, Bool.false_eq_true, if_false]
          rw [hwalk]; simp [hl, hd]; exact fun _ => hc'
        · simp only [Bool.and_self, if_true]
          rw [hidx, heqv]; simp [hla, hlb, hl, hd]; exact fun _ => hc'
      · have e1 : (a.len != b.len) = false := by simp [hl]
        have e2 : (a.depth != b.depth) = true := by simp [hd]
        rw [e1, e2]; simp [hd]
    · have e1 : (a.len != b.len) = true := by simp [hl]
      rw [e1]; simp [hl]

end Lvl

/-! ### IndexHierarchy, axis, Series -/

section Ser
variable {ν δ κ α : Type} [DecidableEq ν] [DecidableEq δ] [DecidableEq κ] (veq : α → α → Bool)

theorem IH.equals_iff (o : Opts) (a b : IH ν δ κ α) (wa : a.levels.WF) (wb : b.levels.WF) :
    a.equals veq b o = true ↔ IH.Spec veq o a b := by
  have hlv := Level.equals_iff veq o a.levels b.levels wa wb
  unfold IH.equals IH.Spec
  cases hcc : o.compareClass <;> cases hcn : o.compareName <;>
    by_cases hs : a.shape = b.shape <;> simp [hs, hlv, hcc] <;>
    simp [IH.shape] at hs <;> grind

theorem Axis.equals_iff (o : Opts) (a b : Axis ν δ κ α) (wa : a.WF) (wb : b.WF) :
    a.equals veq b o = true ↔ Axis.Spec veq o a b := by
  cases a <;> cases b <;> simp [Axis.equals, Axis.Spec]
  · exact Idx.equals_iff veq _ _ o
  · exact IH.equals_iff veq o _ _ wa wb

theorem Series.equals_iff (o : Opts) (a b : Series ν δ κ α) (wa : a.index.WF) (wb : b.index.WF) :
    a.equals veq b o = true ↔ Series.Spec veq o a b := by
  have hax := Axis.equals_iff veq o a.index b.index wa wb
  unfold Series.equals Series.Spec optsOk
  by_cases hl : a.values.length = b.values.length
  · rw [← valuesEqual_iff veq o.skipna hl, ← hax]
    cases o.compareClass <;> cases o.compareName <;> cases o.compareDtype <;>
      simp [hl] <;> grind
  · have : ¬ All2 (cellOk veq o.skipna) a.values b.values := fun h => hl h.length_eq
    simp [hl, this]
end Ser

/-! ### TypeBlocks -/

section TBL
variable {δ δ' β γ ε : Type}

theorem zipWith_append_left (f : β → γ → ε) : ∀ (xs ys : List β) (zs : List γ),
    List.zipWith f (xs ++ ys) zs =
      List.zipWith f xs (zs.take xs.length) ++ List.zipWith f ys (zs.drop xs.length)
  | [], ys, zs => by simp
  | x :: xs, ys, [] => by simp
  | x :: xs, ys, z :: zs => by simp [zipWith_append_left f xs ys zs]

theorem TB.width_eq (t : TB δ β) : t.width = t.columns.length := by
  simp [TB.width, TB.columns, List.length_flatMap]

theorem applyBlocks_columns (f : β → γ → Bool) : ∀ (xs : List (Block δ β)) (ys : List (Block δ' γ)),
    xs.map (·.cols.length) = ys.map (·.cols.length) →
    (applyBlocks f xs ys).flatMap (·.cols) =
      List.zipWith (List.zipWith f) (xs.flatMap (·.cols)) (ys.flatMap (·.cols))
  | [], [], _ => by simp [applyBlocks]
  | [], _ :: _, h => by simp at h
  | _ :: _, [], h => by simp at h
  | x :: xs, y :: ys, h => by
    simp only [List.map_cons, List.cons.injEq] at h
    have ih := applyBlocks_columns f xs ys h.2
    simp only [applyBlocks] at ih ⊢
    simp only [List.zipWith_cons_cons, List.flatMap_cons, ih]
    rw [List.zipWith_append h.1]

section Cons
variable [DecidableEq δ]

theorem consAux_columns : ∀ (bs : List (Block δ β)) (d : δ) (acc : List (List β)),
    (consAux d acc bs).flatMap (·.cols) = acc ++ bs.flatMap (·.cols)
  | [], d, acc => by simp [consAux]
  | b :: bs, d, acc => by
    unfold consAux
    split
    · simp [consAux_columns bs]
    · simp [consAux_columns bs]

theorem consolidate_columns : ∀ (bs : List (Block δ β)),
    (consolidate bs).flatMap (·.cols) = bs.flatMap (·.cols)
  | [] => rfl
  | b :: bs => by simp [consolidate, consAux_columns]

theorem consAux_widths : ∀ (bs : List (Block δ β)) (d : δ) (acc : List (List β)) (n : Nat),
    acc.length = n → 0 < n → (∀ b ∈ bs, b.cols ≠ []) →
    (consAux d acc bs).map (·.cols.length) = (sigAux d n bs).map (·.2)
  | [], d, acc, n, h, hn, _ => by simp [consAux, sigAux, hn, h]
  | b :: bs, d, acc, n, h, hn, hb => by
    have hb0 : 0 < b.cols.length := by
      have := hb b (by simp); exact List.length_pos_iff.mpr this
    have hbs : ∀ x ∈ bs, x.cols ≠ [] := fun x hx => hb x (by simp [hx])
    unfold consAux sigAux
    split
    · simp [h, consAux_widths bs b.dtype b.cols _ rfl hb0 hbs]
    · simp [consAux_widths bs d (acc ++ b.cols) (n + b.cols.length) (by simp [h]) (by omega) hbs]

theorem consolidate_widths : ∀ (bs : List (Block δ β)), (∀ b ∈ bs, b.cols ≠ []) →
    (consolidate bs).map (·.cols.length) = (reblockSig bs).map (·.2)
  | [], _ => rfl
  | b :: bs, hb => by
    have hb0 : 0 < b.cols.length := List.length_pos_iff.mpr (hb b (by simp))
    simp [consolidate, reblockSig, consAux_widths bs b.dtype b.cols _ rfl hb0 (fun x hx => hb x (by simp [hx]))]

end Cons

theorem binop_none [DecidableEq δ] [DecidableEq δ'] (f : β → γ → Bool) (a : TB δ β) (b : TB δ' γ) (da : δ) (db : δ')
    (ca : β → β) (cb : γ → γ) (hs : a.shape ≠ b.shape) : binop f a b da db ca cb = none := by
  simp [binop, TB.blockCompatible, hs]

theorem binop_some [DecidableEq δ] [DecidableEq δ'] (f : β → γ → Bool) (a : TB δ β) (b : TB δ' γ) (da : δ) (db : δ')
    (ca : β → β) (cb : γ → γ) (hca : ∀ x, ca x = x) (hcb : ∀ x, cb x = x)
    (wa : a.WF) (wb : b.WF) (hs : a.shape = b.shape) :
    ∃ r, binop f a b da db ca cb = some r ∧ r.rows = a.rows ∧
      r.columns = List.zipWith (List.zipWith f) a.columns b.columns := by
  unfold binop
  by_cases h1 : a.blockCompatible b = true
  · rw [if_pos h1]
    refine ⟨_, rfl, rfl, ?_⟩
    simp only [TB.blockCompatible, Bool.and_eq_true, beq_iff_eq] at h1
    exact applyBlocks_columns f _ _ h1.2
  · rw [if_neg h1]
    simp only [hs, beq_self_eq_true, if_true]
    by_cases h2 : reblockCompatible a b = true
    · simp only [h2, Bool.not_true, Bool.false_eq_true, if_false]
      refine ⟨_, rfl, rfl, ?_⟩
      simp only [reblockCompatible, Bool.and_eq_true, beq_iff_eq] at h2
      have := applyBlocks_columns f (consolidate a.blocks) (consolidate b.blocks)
        (by rw [consolidate_widths _ (fun x hx => (wa x hx).1), consolidate_widths _ (fun x hx => (wb x hx).1)]; exact h2.2)
      simp only [TB.columns]
      rw [this, consolidate_columns, consolidate_columns]
    · simp only [h2, Bool.not_false, if_true]
      refine ⟨_, rfl, rfl, ?_⟩
      have ea : ca = id := funext hca
      have eb : cb = id := funext hcb
      have e1 : (fun x : List β => List.map ca x) = id := by funext x; simp [ea]
      have e2 : (fun x : List γ => List.map cb x) = id := by funext x; simp [eb]
      simp [TB.columns, applyBlocks, e1, e2]

theorem TB.isna_columns {α} (t : TB δ (Cell α)) : t.isna.columns = t.columns.map arrIsna := by
  simp [TB.isna, TB.columns, List.flatMap_map, List.map_flatMap]

theorem TB.isna_wf {α} (t : TB δ (Cell α)) (w : t.WF) : t.isna.WF := by
  intro b hb
  simp only [TB.isna, List.mem_map] at hb
  obtain ⟨x, hx, rfl⟩ := hb
  have := w x hx
  refine ⟨by simpa using this.1, ?_⟩
  intro c hc
  simp only [List.mem_map] at hc
  obtain ⟨y, hy, rfl⟩ := hc
  simpa [arrIsna, TB.isna] using this.2 y hy

theorem TB.isna_shape {α} (t : TB δ (Cell α)) : t.isna.shape = t.shape := by
  simp [TB.shape, TB.width, TB.isna, List.map_map, Function.comp_def]

theorem eqLoop_none : ∀ (blks : List (Block Unit Bool)) (start : Nat),
    eqLoop none start blks = (blks.flatMap (·.cols)).all arrAll
  | [], _ => by simp [eqLoop]
  | b :: bs, start => by
    unfold eqLoop
    simp only [List.flatMap_cons, List.all_append]
    cases h : b.cols.all arrAll
    · simp
    · simp [eqLoop_none bs]

theorem eqLoop_some (m : TB Unit Bool) : ∀ (blks : List (Block Unit Bool)) (start : Nat),
    eqLoop (some m) start blks =
      (List.zipWith fillTrue (blks.flatMap (·.cols)) (m.columns.drop start)).all arrAll
  | [], _ => by simp [eqLoop]
  | b :: bs, start => by
    unfold eqLoop
    simp only [List.flatMap_cons, zipWith_append_left, List.all_append, TB.window, List.drop_drop]
    rw [eqLoop_some m bs]
    by_cases hx : (List.zipWith fillTrue b.cols (List.take b.cols.length (List.drop start m.columns))).all arrAll = true
    · simp [hx]
    · simp [hx]

theorem TB.wf_columns (t : TB δ β) (w : t.WF) : ∀ c ∈ t.columns, c.length = t.rows := by
  intro c hc
  simp only [TB.columns, List.mem_flatMap] at hc
  obtain ⟨b, hb, hcb⟩ := hc
  exact (w b hb).2 c hcb

theorem cols_iff_skip {α} (veq : α → α → Bool) (n : Nat) : ∀ (A B : List (List (Cell α))),
    A.length = B.length → (∀ c ∈ A, c.length = n) → (∀ c ∈ B, c.length = n) →
    ((List.zipWith fillTrue (List.zipWith (List.zipWith (Cell.rawEq veq)) A B)
        (List.zipWith (List.zipWith (· && ·)) (A.map arrIsna) (B.map arrIsna))).all arrAll = true ↔
      All2 (All2 (cellOk veq true)) A B)
  | [], [], _, _, _ => by simp
  | [], _ :: _, h, _, _ => by simp at h
  | _ :: _, [], h, _, _ => by simp at h
  | x :: A, y :: B, h, ha, hb => by
    have hxy : x.length = y.length := by rw [ha x (by simp), hb y (by simp)]
    have ih := cols_iff_skip veq n A B (by simpa using h) (fun c hc => ha c (by simp [hc]))
      (fun c hc => hb c (by simp [hc]))
    have hv := valuesEqual_iff veq true hxy
    simp only [valuesEqual, if_true, arrEq, arrAnd] at hv
    simp only [List.map_cons, List.zipWith_cons_cons, List.all_cons, Bool.and_eq_true, All2_cons_cons, ih, hv]

theorem cols_iff_noskip {α} (veq : α → α → Bool) (n : Nat) : ∀ (A B : List (List (Cell α))),
    A.length = B.length → (∀ c ∈ A, c.length = n) → (∀ c ∈ B, c.length = n) →
    ((List.zipWith (List.zipWith (Cell.rawEq veq)) A B).all arrAll = true ↔
      All2 (All2 (cellOk veq false)) A B)
  | [], [], _, _, _ => by simp
  | [], _ :: _, h, _, _ => by simp at h
  | _ :: _, [], h, _, _ => by simp at h
  | x :: A, y :: B, h, ha, hb => by
    have hxy : x.length = y.length := by rw [ha x (by simp), hb y (by simp)]
    have ih := cols_iff_noskip veq n A B (by simpa using h) (fun c hc => ha c (by simp [hc]))
      (fun c hc => hb c (by simp [hc]))
    have hv := valuesEqual_iff veq false hxy
    simp only [valuesEqual, Bool.false_eq_true, if_false, arrEq] at hv
    simp only [List.zipWith_cons_cons, List.all_cons, Bool.and_eq_true, All2_cons_cons, ih, hv]

theorem TB.spec_shape {α} (veq : α → α → Bool) (o : Opts) (a b : TB δ (Cell α))
    (h : TB.Spec veq o a b) : a.shape = b.shape := by
  simp [TB.shape, TB.width_eq, h.1, h.2.1.length_eq]

theorem tbEquals_iff {α} [DecidableEq δ] (veq : α → α → Bool) (o : Opts) (a b : TB δ (Cell α)) (r : δ)
    (co : Cell α → Cell α) (hco : ∀ x, co x = x)
    (wa : a.WF) (wb : b.WF) : tbEquals veq a b o r co = true ↔ TB.Spec veq o a b := by
  by_cases hs : a.shape = b.shape
  · obtain ⟨eq, he, _, hec⟩ := binop_some (Cell.rawEq veq) a b r r co co hco hco wa wb hs
    obtain ⟨both, hb, _, hbc⟩ := binop_some (· && ·) a.isna b.isna () () id id (fun _ => rfl) (fun _ => rfl)
      (TB.isna_wf a wa) (TB.isna_wf b wb)
      (by rw [TB.isna_shape, TB.isna_shape, hs])
    have hrows : a.rows = b.rows := by simp [TB.shape] at hs; exact hs.1
    have hlen : a.columns.length = b.columns.length := by
      simp [TB.shape, TB.width_eq] at hs; exact hs.2
    have hca := TB.wf_columns a wa
    have hcb := TB.wf_columns b wb
    rw [← hrows] at hcb
    unfold tbEquals TB.Spec
    have e0 : (a.shape != b.shape) = false := by simp [hs]
    rw [e0, he]
    simp only [Bool.false_eq_true, if_false, hb]
    by_cases hd : (o.compareDtype && a.dtypes != b.dtypes) = true
    · rw [if_pos hd]
      simp at hd
      simp [hd]
    · rw [if_neg hd]
      have hd' : o.compareDtype = true → a.dtypes = b.dtypes := by
        intro h; simp [h] at hd; exact hd
      by_cases hemp : a.blocks.isEmpty = true
      · -- the zero-column shortcut: no value to compare
        rw [if_pos hemp]
        have ha0 : a.columns = [] := by
          have : a.blocks = [] := List.isEmpty_iff.mp hemp
          simp [TB.columns, this]
        have hb0 : b.columns = [] := by
          have : b.columns.length = 0 := by rw [← hlen, ha0]; rfl
          exact List.length_eq_zero_iff.mp this
        simp [ha0, hb0, hrows]; exact hd'
      rw [if_neg hemp]
      cases hsk : o.skipna
      · simp only [Bool.false_eq_true, if_false]
        rw [eqLoop_none]
        change (eq.columns.all arrAll = true) ↔ _
        rw [hec, cols_iff_noskip veq a.rows _ _ hlen hca hcb]
        simp [hrows]; exact fun _ => hd'
      · simp only [if_true]
        rw [eqLoop_some]
        change ((List.zipWith fillTrue eq.columns (both.columns.drop 0)).all arrAll = true) ↔ _
        rw [hec, hbc, TB.isna_columns, TB.isna_columns, List.drop_zero,
          cols_iff_skip veq a.rows _ _ hlen hca hcb]
        simp [hrows]; exact fun _ => hd'
  · have : ¬ TB.Spec veq o a b := fun h => hs (TB.spec_shape veq o a b h)
    simp [tbEquals, hs, this]

end TBL

/-! ### Frame, Bus -/

section Frm
variable {ν δ κ α : Type} [DecidableEq ν] [DecidableEq δ] [DecidableEq κ] (veq : α → α → Bool)

theorem Frame.equals_iff (o : Opts) (a b : Frame ν δ κ α) (r : δ) (co : Cell α → Cell α) (hco : ∀ x, co x = x)
    (wa : a.WF) (wb : b.WF) :
    a.equals veq b o r co = true ↔ Frame.Spec veq o a b := by
  have htb := tbEquals_iff veq o a.blocks b.blocks r co hco wa.1 wb.1
  have hix := Axis.equals_iff veq o a.index b.index wa.2.1 wb.2.1
  have hcl := Axis.equals_iff veq o a.columns b.columns wa.2.2 wb.2.2
  unfold Frame.equals Frame.Spec
  rw [← htb, ← hix, ← hcl]
  by_cases hs : a.blocks.shape = b.blocks.shape
  · cases o.compareClass <;> cases o.compareName <;> simp [hs] <;> grind
  · have : tbEquals veq a.blocks b.blocks o r co = false := by
      cases h : tbEquals veq a.blocks b.blocks o r co
      · rfl
      · exact (hs (TB.spec_shape veq o _ _ (htb.mp h))).elim
    simp [hs, this]

theorem busLoop_iff (o : Opts) (r : δ) (co : Cell α → Cell α) (hco : ∀ x, co x = x) :
    ∀ (xs ys : List (Frame ν δ κ α)),
    xs.length = ys.length → (∀ x ∈ xs, x.WF) → (∀ y ∈ ys, y.WF) →
    (busLoop veq o r co xs ys = true ↔ All2 (Frame.Spec veq o) xs ys)
  | [], [], _, _, _ => by simp [busLoop]
  | [], _ :: _, h, _, _ => by simp at h
  | _ :: _, [], h, _, _ => by simp at h
  | x :: xs, y :: ys, h, wx, wy => by
    have ih := busLoop_iff o r co hco xs ys (by simpa using h) (fun z hz => wx z (by simp [hz]))
      (fun z hz => wy z (by simp [hz]))
    have hf := Frame.equals_iff veq o x y r co hco (wx x (by simp)) (wy y (by simp))
    unfold busLoop
    rw [All2_cons_cons, ← ih, ← hf]
    cases x.equals veq y o r co <;> simp

theorem Bus.equals_iff (o : Opts) (a b : Bus ν δ κ α) (r : δ) (co : Cell α → Cell α) (hco : ∀ x, co x = x)
    (wa : a.WF) (wb : b.WF) :
    a.equals veq b o r co = true ↔ Bus.Spec veq o a b := by
  have hix := Axis.equals_iff veq o a.index b.index wa.1 wb.1
  unfold Bus.equals Bus.Spec
  by_cases hl : a.frames.length = b.frames.length
  · have hlp := busLoop_iff veq o r co hco a.frames b.frames hl wa.2 wb.2
    rw [← hlp, ← hix]
    cases o.compareClass <;> cases o.compareName <;> simp [hl] <;> grind
  · have : ¬ All2 (Frame.Spec veq o) a.frames b.frames := fun h => hl h.length_eq
    simp [hl, this]
end Frm

/-! ### the spec is an equivalence -/

section Rel
variable {ν δ κ α : Type} (veq : α → α → Bool)

variable {veq}

theorem cellOk_refl (hv : VeqEquiv veq) (x : Cell α) : cellOk veq true x x := by
  cases x <;> simp [cellOk, hv.refl]

theorem cellOk_symm (hv : VeqEquiv veq) (s : Bool) (x y : Cell α) (h : cellOk veq s x y) : cellOk veq s y x := by
  cases x <;> cases y <;> simp_all [cellOk]
  exact hv.symm _ _ h

theorem cellOk_trans (hv : VeqEquiv veq) (s : Bool) (x y z : Cell α) (h : cellOk veq s x y) (k : cellOk veq s y z) :
    cellOk veq s x z := by
  cases x <;> cases y <;> cases z <;> simp_all [cellOk]
  exact hv.trans _ _ _ h k

theorem optsOk_refl (o : Opts) (n : ν) (d : List δ) (c : κ) : optsOk o n n d d c c := by simp [optsOk]
theorem optsOk_symm {o : Opts} {n n' : ν} {d d' : List δ} {c c' : κ} (h : optsOk o n n' d d' c c') :
    optsOk o n' n d' d c' c := by
  simp only [optsOk] at *; exact ⟨fun k => (h.1 k).symm, fun k => (h.2.1 k).symm, fun k => (h.2.2 k).symm⟩
theorem optsOk_trans {o : Opts} {n n' n'' : ν} {d d' d'' : List δ} {c c' c'' : κ}
    (h : optsOk o n n' d d' c c') (k : optsOk o n' n'' d' d'' c' c'') : optsOk o n n'' d d'' c c'' := by
  simp only [optsOk] at *
  exact ⟨fun x => (h.1 x).trans (k.1 x), fun x => (h.2.1 x).trans (k.2.1 x), fun x => (h.2.2 x).trans (k.2.2 x)⟩

theorem Idx.Spec.refl (hv : VeqEquiv veq) {o : Opts} (hs : o.skipna = true) (a : Idx ν δ κ α) : Idx.Spec veq o a a :=
  ⟨All2.refl fun x _ => hs ▸ cellOk_refl hv x, optsOk_refl _ _ _ _⟩
theorem Idx.Spec.symm (hv : VeqEquiv veq) {o : Opts} {a b : Idx ν δ κ α} (h : Idx.Spec veq o a b) : Idx.Spec veq o b a :=
  ⟨h.1.flip (cellOk_symm hv _), optsOk_symm h.2⟩
theorem Idx.Spec.trans (hv : VeqEquiv veq) {o : Opts} {a b c : Idx ν δ κ α} (h : Idx.Spec veq o a b)
    (k : Idx.Spec veq o b c) : Idx.Spec veq o a c :=
  ⟨h.1.trans (cellOk_trans hv _) k.1, optsOk_trans h.2 k.2⟩

mutual
theorem Level.Eqv.refl (hv : VeqEquiv veq) {o : Opts} (hs : o.skipna = true) :
    ∀ (a : Level ν δ κ α), Level.Eqv veq o a a
  | .mk i l ts d c => by
    simp only [Level.Eqv, Level.index, Level.leaf, Level.targets]
    exact ⟨Idx.Spec.refl hv hs i, trivial, fun _ => Level.EqvList.refl hv hs ts⟩
theorem Level.EqvList.refl (hv : VeqEquiv veq) {o : Opts} (hs : o.skipna = true) :
    ∀ (xs : List (Level ν δ κ α)), Level.EqvList veq o xs xs
  | [] => by simp [Level.EqvList]
  | x :: xs => by
    simp only [Level.EqvList]
    exact ⟨Level.Eqv.refl hv hs x, Level.EqvList.refl hv hs xs⟩
end

mutual
theorem Level.Eqv.symm (hv : VeqEquiv veq) {o : Opts} :
    ∀ (a b : Level ν δ κ α), Level.Eqv veq o a b → Level.Eqv veq o b a
  | .mk i l ts d c, .mk i' l' ts' d' c', h => by
    simp only [Level.Eqv, Level.index, Level.leaf, Level.targets] at h ⊢
    exact ⟨Idx.Spec.symm hv h.1, h.2.1.symm, fun hl => Level.EqvList.symm hv ts ts' (h.2.2 (h.2.1 ▸ hl))⟩
theorem Level.EqvList.symm (hv : VeqEquiv veq) {o : Opts} :
    ∀ (xs ys : List (Level ν δ κ α)), Level.EqvList veq o xs ys → Level.EqvList veq o ys xs
  | [], [], _ => by simp [Level.EqvList]
  | [], _ :: _, h => by simp [Level.EqvList] at h
  | _ :: _, [], h => by simp [Level.EqvList] at h
  | x :: xs, y :: ys, h => by
    simp only [Level.EqvList] at h ⊢
    exact ⟨Level.Eqv.symm hv x y h.1, Level.EqvList.symm hv xs ys h.2⟩
end

mutual
theorem Level.Eqv.trans (hv : VeqEquiv veq) {o : Opts} :
    ∀ (a b c : Level ν δ κ α), Level.Eqv veq o a b → Level.Eqv veq o b c → Level.Eqv veq o a c
  | .mk i l ts d c, .mk i' l' ts' d' c', .mk i'' l'' ts'' d'' c'', h, k => by
    simp only [Level.Eqv, Level.index, Level.leaf, Level.targets] at h k ⊢
    exact ⟨Idx.Spec.trans hv h.1 k.1, h.2.1.trans k.2.1,
      fun hl => Level.EqvList.trans hv ts ts' ts'' (h.2.2 hl) (k.2.2 (h.2.1 ▸ hl))⟩
theorem Level.EqvList.trans (hv : VeqEquiv veq) {o : Opts} :
    ∀ (xs ys zs : List (Level ν δ κ α)), Level.EqvList veq o xs ys → Level.EqvList veq o ys zs →
      Level.EqvList veq o xs zs
  | [], [], [], _, _ => by simp [Level.EqvList]
  | [], _ :: _, _, h, _ => by simp [Level.EqvList] at h
  | _ :: _, [], _, h, _ => by simp [Level.EqvList] at h
  | [], [], _ :: _, _, k => by simp [Level.EqvList] at k
  | _ :: _, _ :: _, [], _, k => by simp [Level.EqvList] at k
  | x :: xs, y :: ys, z :: zs, h, k => by
    simp only [Level.EqvList] at h k ⊢
    exact ⟨Level.Eqv.trans hv x y z h.1 k.1, Level.EqvList.trans hv xs ys zs h.2 k.2⟩
end

theorem IH.Spec.refl (hv : VeqEquiv veq) {o : Opts} (hs : o.skipna = true) (a : IH ν δ κ α) : IH.Spec veq o a a :=
  ⟨rfl, Level.Eqv.refl hv hs _, fun _ => rfl, fun _ => ⟨rfl, rfl⟩⟩
theorem IH.Spec.symm (hv : VeqEquiv veq) {o : Opts} {a b : IH ν δ κ α} (h : IH.Spec veq o a b) : IH.Spec veq o b a :=
  ⟨h.1.symm, Level.Eqv.symm hv _ _ h.2.1, fun k => (h.2.2.1 k).symm, fun k => ⟨(h.2.2.2 k).1.symm, (h.2.2.2 k).2.symm⟩⟩
theorem IH.Spec.trans (hv : VeqEquiv veq) {o : Opts} {a b c : IH ν δ κ α} (h : IH.Spec veq o a b)
    (k : IH.Spec veq o b c) : IH.Spec veq o a c :=
  ⟨h.1.trans k.1, Level.Eqv.trans hv _ _ _ h.2.1 k.2.1, fun x => (h.2.2.1 x).trans (k.2.2.1 x),
    fun x => ⟨(h.2.2.2 x).1.trans (k.2.2.2 x).1, (h.2.2.2 x).2.trans (k.2.2.2 x).2⟩⟩

theorem Axis.Spec.refl (hv : VeqEquiv veq) {o : Opts} (hs : o.skipna = true) : ∀ (a : Axis ν δ κ α), Axis.Spec veq o a a
  | .flat i => Idx.Spec.refl hv hs i
  | .hier h => IH.Spec.refl hv hs h
theorem Axis.Spec.symm (hv : VeqEquiv veq) {o : Opts} : ∀ {a b : Axis ν δ κ α}, Axis.Spec veq o a b → Axis.Spec veq o b a
  | .flat _, .flat _, h => Idx.Spec.symm hv h
  | .hier _, .hier _, h => IH.Spec.symm hv h
  | .flat _, .hier _, h => h.elim
  | .hier _, .flat _, h => h.elim
theorem Axis.Spec.trans (hv : VeqEquiv veq) {o : Opts} : ∀ {a b c : Axis ν δ κ α},
    Axis.Spec veq o a b → Axis.Spec veq o b c → Axis.Spec veq o a c
  | .flat _, .flat _, .flat _, h, k => Idx.Spec.trans hv h k
  | .hier _, .hier _, .hier _, h, k => IH.Spec.trans hv h k
  | .flat _, .hier _, _, h, _ => h.elim
  | .hier _, .flat _, _, h, _ => h.elim
  | .flat _, .flat _, .hier _, _, k => k.elim
  | .hier _, .hier _, .flat _, _, k => k.elim

theorem Series.Spec.refl (hv : VeqEquiv veq) {o : Opts} (hs : o.skipna = true) (a : Series ν δ κ α) :
    Series.Spec veq o a a :=
  ⟨All2.refl fun x _ => hs ▸ cellOk_refl hv x, Axis.Spec.refl hv hs _, optsOk_refl _ _ _ _⟩
theorem Series.Spec.symm (hv : VeqEquiv veq) {o : Opts} {a b : Series ν δ κ α} (h : Series.Spec veq o a b) :
    Series.Spec veq o b a :=
  ⟨h.1.flip (cellOk_symm hv _), Axis.Spec.symm hv h.2.1, optsOk_symm h.2.2⟩
theorem Series.Spec.trans (hv : VeqEquiv veq) {o : Opts} {a b c : Series ν δ κ α} (h : Series.Spec veq o a b)
    (k : Series.Spec veq o b c) : Series.Spec veq o a c :=
  ⟨h.1.trans (cellOk_trans hv _) k.1, Axis.Spec.trans hv h.2.1 k.2.1, optsOk_trans h.2.2 k.2.2⟩

theorem TB.Spec.refl (hv : VeqEquiv veq) {o : Opts} (hs : o.skipna = true) (a : TB δ (Cell α)) : TB.Spec veq o a a :=
  ⟨rfl, All2.refl fun _ _ => All2.refl fun x _ => hs ▸ cellOk_refl hv x, fun _ => rfl⟩
theorem TB.Spec.symm (hv : VeqEquiv veq) {o : Opts} {a b : TB δ (Cell α)} (h : TB.Spec veq o a b) : TB.Spec veq o b a :=
  ⟨h.1.symm, h.2.1.flip fun _ _ k => k.flip (cellOk_symm hv _), fun k => (h.2.2 k).symm⟩
theorem TB.Spec.trans (hv : VeqEquiv veq) {o : Opts} {a b c : TB δ (Cell α)} (h : TB.Spec veq o a b)
    (k : TB.Spec veq o b c) : TB.Spec veq o a c :=
  ⟨h.1.trans k.1, h.2.1.trans (fun _ _ _ p q => p.trans (cellOk_trans hv _) q) k.2.1, fun x => (h.2.2 x).trans (k.2.2 x)⟩

theorem Frame.Spec.refl (hv : VeqEquiv veq) {o : Opts} (hs : o.skipna = true) (a : Frame ν δ κ α) :
    Frame.Spec veq o a a :=
  ⟨TB.Spec.refl hv hs _, Axis.Spec.refl hv hs _, Axis.Spec.refl hv hs _, fun _ => rfl, fun _ => rfl⟩
theorem Frame.Spec.symm (hv : VeqEquiv veq) {o : Opts} {a b : Frame ν δ κ α} (h : Frame.Spec veq o a b) :
    Frame.Spec veq o b a :=
  ⟨TB.Spec.symm hv h.1, Axis.Spec.symm hv h.2.1, Axis.Spec.symm hv h.2.2.1, fun k => (h.2.2.2.1 k).symm,
    fun k => (h.2.2.2.2 k).symm⟩
theorem Frame.Spec.trans (hv : VeqEquiv veq) {o : Opts} {a b c : Frame ν δ κ α} (h : Frame.Spec veq o a b)
    (k : Frame.Spec veq o b c) : Frame.Spec veq o a c :=
  ⟨TB.Spec.trans hv h.1 k.1, Axis.Spec.trans hv h.2.1 k.2.1, Axis.Spec.trans hv h.2.2.1 k.2.2.1,
    fun x => (h.2.2.2.1 x).trans (k.2.2.2.1 x), fun x => (h.2.2.2.2 x).trans (k.2.2.2.2 x)⟩

theorem Bus.Spec.refl (hv : VeqEquiv veq) {o : Opts} (hs : o.skipna = true) (a : Bus ν δ κ α) : Bus.Spec veq o a a :=
  ⟨All2.refl fun f _ => Frame.Spec.refl hv hs f, Axis.Spec.refl hv hs _, fun _ => rfl, fun _ => rfl⟩
theorem Bus.Spec.symm (hv : VeqEquiv veq) {o : Opts} {a b : Bus ν δ κ α} (h : Bus.Spec veq o a b) : Bus.Spec veq o b a :=
  ⟨h.1.flip fun _ _ k => Frame.Spec.symm hv k, Axis.Spec.symm hv h.2.1, fun k => (h.2.2.1 k).symm,
    fun k => (h.2.2.2 k).symm⟩
theorem Bus.Spec.trans (hv : VeqEquiv veq) {o : Opts} {a b c : Bus ν δ κ α} (h : Bus.Spec veq o a b)
    (k : Bus.Spec veq o b c) : Bus.Spec veq o a c :=
  ⟨All2.trans (R := Frame.Spec veq o) (S := Frame.Spec veq o) (T := Frame.Spec veq o) (fun _ _ _ p q => Frame.Spec.trans hv p q) h.1 k.1, Axis.Spec.trans hv h.2.1 k.2.1,
    fun x => (h.2.2.1 x).trans (k.2.2.1 x), fun x => (h.2.2.2 x).trans (k.2.2.2 x)⟩

end Rel

/-! ### hash keys -/

section HK
variable {ν δ κ α : Type} {veq : α → α → Bool}

end HK

/-! ### label tuples of a hierarchy -/

section Rows
variable {ν δ κ α : Type} {veq : α → α → Bool}

theorem rowsOf_leaf (i : Idx ν δ κ α) (ts : List (Level ν δ κ α)) (d : Nat) (c : κ) :
    Level.rowsOf (.mk i true ts d c) = i.labels.map ([·]) := by simp [Level.rowsOf]

theorem rowsOf_node (i : Idx ν δ κ α) (ts : List (Level ν δ κ α)) (d : Nat) (c : κ) :
    Level.rowsOf (.mk i false ts d c) = Level.rowsZip i.labels ts := by simp [Level.rowsOf]

theorem rowsZip_cons (x : Cell α) (xs : List (Cell α)) (t : Level ν δ κ α) (ts : List (Level ν δ κ α)) :
    Level.rowsZip (x :: xs) (t :: ts) = (Level.rowsOf t).map (x :: ·) ++ Level.rowsZip xs ts := by
  simp [Level.rowsZip]

theorem rowsZip_nil_left (ts : List (Level ν δ κ α)) : Level.rowsZip ([] : List (Cell α)) ts = [] := by
  cases ts <;> simp [Level.rowsZip]

theorem rowsZip_nil_right (xs : List (Cell α)) : Level.rowsZip xs ([] : List (Level ν δ κ α)) = [] := by
  cases xs <;> simp [Level.rowsZip]

mutual
/-- rows of a canonical level: at least one, none empty -/
theorem Level.rows_ne (s : Bool) : ∀ (a : Level ν δ κ α), Level.Canon veq s a →
    Level.rowsOf a ≠ [] ∧ ∀ r ∈ Level.rowsOf a, r ≠ []
  | .mk i l ts d c, h => by
    simp only [Level.Canon] at h
    cases l with
    | true =>
      rw [rowsOf_leaf]
      refine ⟨by simpa using h.1, ?_⟩
      intro r hr; simp only [List.mem_map] at hr; obtain ⟨x, _, rfl⟩ := hr; simp
    | false =>
      rw [rowsOf_node]
      obtain ⟨hl, hc⟩ := h.2.2 rfl
      exact Level.rowsZip_ne s i.labels ts h.1 hl hc
theorem Level.rowsZip_ne (s : Bool) : ∀ (xs : List (Cell α)) (ts : List (Level ν δ κ α)), xs ≠ [] →
    ts.length = xs.length → Level.CanonList veq s ts →
    Level.rowsZip xs ts ≠ [] ∧ ∀ r ∈ Level.rowsZip xs ts, r ≠ []
  | [], _, h, _, _ => (h rfl).elim
  | x :: xs, [], _, hl, _ => by simp at hl
  | x :: xs, t :: ts, _, hl, hc => by
    simp only [Level.CanonList] at hc
    have ht := Level.rows_ne s t hc.1
    rw [rowsZip_cons]
    refine ⟨?_, ?_⟩
    · intro e
      have := List.append_eq_nil_iff.mp e
      have h1 := this.1
      simp at h1
      exact ht.1 h1
    · intro r hr
      simp only [List.mem_append, List.mem_map] at hr
      rcases hr with ⟨q, _, rfl⟩ | hr
      · simp
      · cases xs with
        | nil => rw [rowsZip_nil_left] at hr; cases hr
        | cons y ys =>
          exact (Level.rowsZip_ne s (y :: ys) ts (by simp) (by simpa using hl) hc.2).2 r hr
end

theorem rowsZip_head : ∀ (xs : List (Cell α)) (ts : List (Level ν δ κ α)), ∀ r ∈ Level.rowsZip xs ts,
    ∃ x ∈ xs, ∃ q, r = x :: q
  | [], ts, r, hr => by rw [rowsZip_nil_left] at hr; cases hr
  | x :: xs, [], r, hr => by rw [rowsZip_nil_right] at hr; cases hr
  | x :: xs, t :: ts, r, hr => by
    rw [rowsZip_cons] at hr
    simp only [List.mem_append, List.mem_map] at hr
    rcases hr with ⟨q, _, rfl⟩ | hr
    · exact ⟨x, by simp, q, rfl⟩
    · obtain ⟨y, hy, q, rfl⟩ := rowsZip_head xs ts r hr
      exact ⟨y, by simp [hy], q, rfl⟩

theorem All2_map_cons (s : Bool) (x x' : Cell α) : ∀ (R R' : List (List (Cell α))),
    All2 (rowRel veq s) (R.map (x :: ·)) (R'.map (x' :: ·)) ↔
      (R ≠ [] → cellOk veq s x x') ∧ All2 (rowRel veq s) R R'
  | [], [] => by simp
  | [], _ :: _ => by simp
  | _ :: _, [] => by simp
  | r :: R, r' :: R' => by
    simp only [List.map_cons, All2_cons_cons, rowRel, All2_map_cons s x x' R R']
    constructor
    · rintro ⟨⟨h1, h2⟩, _, h4⟩; exact ⟨fun _ => h1, h2, h4⟩
    · rintro ⟨h1, h2, h3⟩; exact ⟨⟨h1 (by simp), h2⟩, fun _ => h1 (by simp), h3⟩

/-- two blocks of rows headed by `x` / `x'`, each followed by rows headed by other labels, that
    are related row by row have the same length -/
theorem block_length (hv : VeqEquiv veq) (s : Bool) (x x' : Cell α) (R R' B B' : List (List (Cell α)))
    (hR : R ≠ []) (hR' : R' ≠ [])
    (hB : ∀ r ∈ B, ∃ y q, r = y :: q ∧ ¬ cellOk veq s x y)
    (hB' : ∀ r ∈ B', ∃ y q, r = y :: q ∧ ¬ cellOk veq s x' y)
    (h : All2 (rowRel veq s) (R.map (x :: ·) ++ B) (R'.map (x' :: ·) ++ B')) :
    R.length = R'.length := by
  obtain ⟨hlen, hp⟩ := All2_iff_getElem.mp h
  simp only [List.length_append, List.length_map] at hlen
  have h0 : cellOk veq s x x' := by
    cases R with
    | nil => exact (hR rfl).elim
    | cons r R => cases R' with
      | nil => exact (hR' rfl).elim
      | cons r' R' =>
        have := hp 0 (by simp) (by simp)
        simp only [List.map_cons, List.cons_append, List.getElem_cons_zero, rowRel, All2_cons_cons] at this
        exact this.1
  have sym := cellOk_symm hv s
  have trn := cellOk_trans hv s
  rcases Nat.lt_trichotomy R.length R'.length with hlt | heq | hgt
  · -- the row after block R (headed by some y) faces a row of block R'
    have hn1 : R.length < (R.map (x :: ·) ++ B).length := by simp only [List.length_append, List.length_map]; omega
    have hn2 : R.length < (R'.map (x' :: ·) ++ B').length := by simp only [List.length_append, List.length_map]; omega
    have := hp R.length hn1 hn2
    have e1 : (R.map (x :: ·) ++ B)[R.length]'hn1 = B[0]'(by omega) := by
      rw [List.getElem_append_right (by simp)]; simp
    have e2 : (R'.map (x' :: ·) ++ B')[R.length]'hn2 = x' :: R'[R.length]'hlt := by
      rw [List.getElem_append_left (by simpa using hlt)]; simp
    rw [e1, e2] at this
    obtain ⟨y, q, hy, hne⟩ := hB (B[0]'(by omega)) (List.getElem_mem _)
    rw [hy] at this
    simp only [rowRel, All2_cons_cons] at this
    exact (hne (trn _ _ _ h0 (sym _ _ this.1))).elim
  · exact heq
  · have hn1 : R'.length < (R.map (x :: ·) ++ B).length := by simp only [List.length_append, List.length_map]; omega
    have hn2 : R'.length < (R'.map (x' :: ·) ++ B').length := by simp only [List.length_append, List.length_map]; omega
    have := hp R'.length hn1 hn2
    have e1 : (R.map (x :: ·) ++ B)[R'.length]'hn1 = x :: R[R'.length]'hgt := by
      rw [List.getElem_append_left (by simpa using hgt)]; simp
    have e2 : (R'.map (x' :: ·) ++ B')[R'.length]'hn2 = B'[0]'(by omega) := by
      rw [List.getElem_append_right (by simp)]; simp
    rw [e1, e2] at this
    obtain ⟨y, q, hy, hne⟩ := hB' (B'[0]'(by omega)) (List.getElem_mem _)
    rw [hy] at this
    simp only [rowRel, All2_cons_cons] at this
    exact (hne (trn _ _ _ (sym _ _ h0) this.1)).elim

theorem rowsZip_len2 (s : Bool) : ∀ (xs : List (Cell α)) (ts : List (Level ν δ κ α)), Level.CanonList veq s ts →
    ∀ r ∈ Level.rowsZip xs ts, ∃ x y q, r = x :: y :: q
  | [], ts, _, r, hr => by rw [rowsZip_nil_left] at hr; cases hr
  | x :: xs, [], _, r, hr => by rw [rowsZip_nil_right] at hr; cases hr
  | x :: xs, t :: ts, hc, r, hr => by
    simp only [Level.CanonList] at hc
    rw [rowsZip_cons] at hr
    simp only [List.mem_append, List.mem_map] at hr
    rcases hr with ⟨q, hq, rfl⟩ | hr
    · have := (Level.rows_ne s t hc.1).2 q hq
      cases q with
      | nil => exact (this rfl).elim
      | cons y q' => exact ⟨x, y, q', rfl⟩
    · exact rowsZip_len2 s xs ts hc.2 r hr

theorem All2_map_singleton (s : Bool) : ∀ (xs ys : List (Cell α)),
    All2 (rowRel veq s) (xs.map ([·])) (ys.map ([·])) ↔ All2 (cellOk veq s) xs ys
  | [], [] => by simp
  | [], _ :: _ => by simp
  | _ :: _, [] => by simp
  | x :: xs, y :: ys => by simp [rowRel, All2_map_singleton s xs ys]

theorem optsOk_plain (s : Bool) (n n' : ν) (d d' : List δ) (c c' : κ) : optsOk (plainOpts s) n n' d d' c c' := by
  simp [optsOk, plainOpts]

mutual
/-- canonical trees with pairwise equal label tuples are equal node by node -/
theorem Level.eqv_of_rows (hv : VeqEquiv veq) (s : Bool) : ∀ (a b : Level ν δ κ α),
    Level.Canon veq s a → Level.Canon veq s b →
    All2 (rowRel veq s) (Level.rowsOf a) (Level.rowsOf b) → Level.Eqv veq (plainOpts s) a b
  | .mk i l ts d c, .mk i' l' ts' d' c', ha, hb, h => by
    simp only [Level.Eqv, Level.index, Level.leaf, Level.targets, Idx.Spec]
    simp only [Level.Canon] at ha hb
    cases l <;> cases l'
    · rw [rowsOf_node, rowsOf_node] at h
      obtain ⟨hl, hc⟩ := ha.2.2 rfl
      obtain ⟨hl', hc'⟩ := hb.2.2 rfl
      have := Level.eqvList_of_rows hv s i.labels ts i'.labels ts' hl hl' hc hc' ha.2.1 hb.2.1 h
      exact ⟨⟨this.1, optsOk_plain s _ _ _ _ _ _⟩, rfl, fun _ => this.2⟩
    · -- node against terminus: the rows have different lengths
      rw [rowsOf_node, rowsOf_leaf] at h
      obtain ⟨hl, hc⟩ := ha.2.2 rfl
      have hne := (Level.rowsZip_ne (veq := veq) s i.labels ts ha.1 hl hc).1
      cases hz : Level.rowsZip i.labels ts with
      | nil => exact (hne hz).elim
      | cons r rs =>
        obtain ⟨x, y, q, hr⟩ := rowsZip_len2 (veq := veq) s i.labels ts hc r (by rw [hz]; simp)
        rw [hz] at h
        cases hi : i'.labels with
        | nil => exact (hb.1 hi).elim
        | cons y' ys =>
          rw [hi, hr] at h
          simp [rowRel] at h
    · rw [rowsOf_leaf, rowsOf_node] at h
      obtain ⟨hl', hc'⟩ := hb.2.2 rfl
      have hne := (Level.rowsZip_ne (veq := veq) s i'.labels ts' hb.1 hl' hc').1
      cases hz : Level.rowsZip i'.labels ts' with
      | nil => exact (hne hz).elim
      | cons r rs =>
        obtain ⟨x, y, q, hr⟩ := rowsZip_len2 (veq := veq) s i'.labels ts' hc' r (by rw [hz]; simp)
        rw [hz] at h
        cases hi : i.labels with
        | nil => exact (ha.1 hi).elim
        | cons y' ys =>
          rw [hi, hr] at h
          simp [rowRel] at h
    · rw [rowsOf_leaf, rowsOf_leaf] at h
      exact ⟨⟨(All2_map_singleton s _ _).mp h, optsOk_plain s _ _ _ _ _ _⟩, rfl, fun h' => by cases h'⟩
theorem Level.eqvList_of_rows (hv : VeqEquiv veq) (s : Bool) : ∀ (xs : List (Cell α)) (ts : List (Level ν δ κ α))
    (xs' : List (Cell α)) (ts' : List (Level ν δ κ α)),
    ts.length = xs.length → ts'.length = xs'.length → Level.CanonList veq s ts → Level.CanonList veq s ts' →
    PairwiseNe veq s xs → PairwiseNe veq s xs' →
    All2 (rowRel veq s) (Level.rowsZip xs ts) (Level.rowsZip xs' ts') →
    All2 (cellOk veq s) xs xs' ∧ Level.EqvList veq (plainOpts s) ts ts'
  | [], ts, xs', ts', hl, hl', hc, hc', _, _, h => by
    have : ts = [] := by cases ts <;> simp_all
    subst this
    cases xs' with
    | nil =>
      have : ts' = [] := by cases ts' <;> simp_all
      subst this
      simp [Level.EqvList]
    | cons x' xr' =>
      cases ts' with
      | nil => simp at hl'
      | cons t' tr' =>
        simp only [Level.CanonList] at hc'
        have hne := (Level.rowsZip_ne (veq := veq) s (x' :: xr') (t' :: tr') (by simp) hl' (by simp [Level.CanonList, hc'])).1
        rw [rowsZip_nil_left] at h
        cases hz : Level.rowsZip (x' :: xr') (t' :: tr') with
        | nil => exact (hne hz).elim
        | cons _ _ => rw [hz] at h; simp at h
  | x :: xr, [], _, _, hl, _, _, _, _, _, _ => by simp at hl
  | x :: xr, t :: tr, [], ts', hl, hl', hc, _, _, _, h => by
    have hne := (Level.rowsZip_ne (veq := veq) s (x :: xr) (t :: tr) (by simp) hl hc).1
    rw [rowsZip_nil_left] at h
    cases hz : Level.rowsZip (x :: xr) (t :: tr) with
    | nil => exact (hne hz).elim
    | cons _ _ => rw [hz] at h; simp at h
  | x :: xr, t :: tr, x' :: xr', [], _, hl', _, _, _, _, _ => by simp at hl'
  | x :: xr, t :: tr, x' :: xr', t' :: tr', hl, hl', hc, hc', hp, hp', h => by
    simp only [Level.CanonList] at hc hc'
    simp only [PairwiseNe, List.pairwise_cons] at hp hp'
    rw [rowsZip_cons, rowsZip_cons] at h
    have hR := (Level.rows_ne (veq := veq) s t hc.1).1
    have hR' := (Level.rows_ne (veq := veq) s t' hc'.1).1
    have hB : ∀ r ∈ Level.rowsZip xr tr, ∃ y q, r = y :: q ∧ ¬ cellOk veq s x y := by
      intro r hr
      obtain ⟨y, hy, q, rfl⟩ := rowsZip_head xr tr r hr
      exact ⟨y, q, rfl, hp.1 y hy⟩
    have hB' : ∀ r ∈ Level.rowsZip xr' tr', ∃ y q, r = y :: q ∧ ¬ cellOk veq s x' y := by
      intro r hr
      obtain ⟨y, hy, q, rfl⟩ := rowsZip_head xr' tr' r hr
      exact ⟨y, q, rfl, hp'.1 y hy⟩
    have hlen := block_length hv s x x' _ _ _ _ hR hR' hB hB' h
    rw [All2_append (by simpa using hlen), All2_map_cons] at h
    obtain ⟨⟨hx, hrows⟩, hrest⟩ := h
    have ht := Level.eqv_of_rows hv s t t' hc.1 hc'.1 hrows
    have ih := Level.eqvList_of_rows hv s xr tr xr' tr' (by simpa using hl) (by simpa using hl') hc.2 hc'.2 hp.2 hp'.2 hrest
    simp only [All2_cons_cons, Level.EqvList]
    exact ⟨⟨hx hR, ih.1⟩, ht, ih.2⟩
end

mutual
/-- trees equal node by node have pairwise equal label tuples -/
theorem Level.rows_of_eqv (o : Opts) : ∀ (a b : Level ν δ κ α), Level.Eqv veq o a b →
    All2 (rowRel veq o.skipna) (Level.rowsOf a) (Level.rowsOf b)
  | .mk i l ts d c, .mk i' l' ts' d' c', h => by
    simp only [Level.Eqv, Level.index, Level.leaf, Level.targets, Idx.Spec] at h
    obtain ⟨⟨hlab, _⟩, hl, ht⟩ := h
    subst hl
    cases l with
    | true => rw [rowsOf_leaf, rowsOf_leaf]; exact (All2_map_singleton o.skipna _ _).mpr hlab
    | false =>
      rw [rowsOf_node, rowsOf_node]
      exact Level.rowsZip_of_eqv o i.labels ts i'.labels ts' hlab (ht rfl)
theorem Level.rowsZip_of_eqv (o : Opts) : ∀ (xs : List (Cell α)) (ts : List (Level ν δ κ α))
    (xs' : List (Cell α)) (ts' : List (Level ν δ κ α)),
    All2 (cellOk veq o.skipna) xs xs' → Level.EqvList veq o ts ts' →
    All2 (rowRel veq o.skipna) (Level.rowsZip xs ts) (Level.rowsZip xs' ts')
  | [], ts, [], ts', _, _ => by rw [rowsZip_nil_left, rowsZip_nil_left]; trivial
  | [], _, _ :: _, _, h, _ => by simp at h
  | _ :: _, _, [], _, h, _ => by simp at h
  | x :: xr, [], x' :: xr', [], _, _ => by rw [rowsZip_nil_right, rowsZip_nil_right]; trivial
  | x :: xr, [], x' :: xr', _ :: _, _, h => by simp [Level.EqvList] at h
  | x :: xr, _ :: _, x' :: xr', [], _, h => by simp [Level.EqvList] at h
  | x :: xr, t :: tr, x' :: xr', t' :: tr', hx, ht => by
    simp only [All2_cons_cons] at hx
    simp only [Level.EqvList] at ht
    rw [rowsZip_cons, rowsZip_cons]
    apply All2_append_of
    · rw [All2_map_cons]
      exact ⟨fun _ => hx.1, Level.rows_of_eqv o t t' ht.1⟩
    · exact Level.rowsZip_of_eqv o xr tr xr' tr' hx.2 ht.2
end

end Rows

/-! ### hash of the labels -/

section HK2
variable {ν δ κ α : Type} {veq : α → α → Bool}

theorem map_hash_eq {η : Type} {h : Cell α → η} (hh : HashRespects veq h) : ∀ {l l' : List (Cell α)},
    All2 (cellOk veq true) l l' → l.map h = l'.map h
  | [], [], _ => rfl
  | [], _ :: _, k => k.elim
  | _ :: _, [], k => k.elim
  | p :: ps, q :: qs, k => by
    simp only [List.map_cons, hh p q k.1, map_hash_eq hh k.2]

theorem rows_hash_eq {η : Type} {h : Cell α → η} (hh : HashRespects veq h) (mix : List η → η) :
    ∀ {R R' : List (List (Cell α))}, All2 (All2 (cellOk veq true)) R R' →
    (R.map fun r => mix (r.map h)) = R'.map fun r => mix (r.map h)
  | [], [], _ => rfl
  | [], _ :: _, k => k.elim
  | _ :: _, [], k => k.elim
  | r :: rs, r' :: rs', k => by
    simp only [List.map_cons, map_hash_eq hh k.1, rows_hash_eq hh mix k.2]

/-- the hashed label tuple is a function of the label content: `==`-equal axes hash alike -/
theorem labelHashes_eq {η : Type} {h : Cell α → η} (hh : HashRespects veq h) (mix : List η → η) {o : Opts}
    (hs : o.skipna = true) :
    ∀ {a b : Axis ν δ κ α}, Axis.Spec veq o a b → a.labelHashes h mix = b.labelHashes h mix
  | .flat x, .flat y, s => by
    simp only [Axis.labelHashes]
    exact map_hash_eq hh (hs ▸ s.1)
  | .hier x, .hier y, s => by
    simp only [Axis.labelHashes]
    have := Level.rows_of_eqv o x.levels y.levels s.2.1
    rw [hs] at this
    exact rows_hash_eq hh mix this
  | .flat _, .hier _, s => s.elim
  | .hier _, .flat _, s => s.elim

end HK2

/-! ### the identity cache of the tree walk -/

section Cache
variable {ν δ κ α : Type} [DecidableEq ν] [DecidableEq δ] [DecidableEq κ] (veq : α → α → Bool)

/-- every cached pair of ids stands for index objects that compare equal -/
def CacheOk (o : Opts) (ida idb : Level ν δ κ α → Nat) (cache : List (Nat × Nat)) : Prop :=
  ∀ p ∈ cache, ∀ x y, ida x = p.1 → idb y = p.2 → x.index.equals veq y.index o = true

theorem walkC_eq_walk (o : Opts) (ida idb : Level ν δ κ α → Nat) (ha : IdSound ida) (hb : IdSound idb) :
    ∀ (fuel : Nat) (cache : List (Nat × Nat)) (sa sb : List (Level ν δ κ α)),
    CacheOk veq o ida idb cache → walkC veq o ida idb fuel cache sa sb = walk veq o fuel sa sb
  | 0, _, _, _, _ => by simp [walkC, walk]
  | fuel + 1, cache, [], sb, _ => by cases sb <;> simp [walkC, walk]
  | fuel + 1, cache, _ :: _, [], _ => by simp [walkC, walk]
  | fuel + 1, cache, a :: sa, b :: sb, hc => by
    unfold walkC walk
    dsimp only
    by_cases hf : cache.contains (ida a, idb b) = true
    · -- cached: the index objects were verified before
      have he : a.index.equals veq b.index o = true :=
        hc _ (List.contains_iff_mem.mp hf) a b rfl rfl
      simp only [hf, Bool.not_true, Bool.false_and, Bool.false_eq_true, if_false, if_true, he]
      split
      · exact walkC_eq_walk o ida idb ha hb fuel cache sa sb hc
      · split
        · rfl
        · exact walkC_eq_walk o ida idb ha hb fuel cache _ _ hc
    · have hf' : cache.contains (ida a, idb b) = false := by simpa using hf
      simp only [hf', Bool.not_false, Bool.true_and, Bool.false_eq_true, if_false]
      by_cases he : a.index.equals veq b.index o = true
      · have hc' : CacheOk veq o ida idb ((ida a, idb b) :: cache) := by
          intro p hp x y hx hy
          simp only [List.mem_cons] at hp
          rcases hp with rfl | hp
          · rw [ha x a hx, hb y b hy]; exact he
          · exact hc p hp x y hx hy
        simp only [he, Bool.not_true, Bool.false_eq_true, if_false]
        split
        · exact walkC_eq_walk o ida idb ha hb fuel _ sa sb hc'
        · split
          · rfl
          · exact walkC_eq_walk o ida idb ha hb fuel _ _ _ hc'
      · have he' : a.index.equals veq b.index o = false := by simpa using he
        simp [he']

theorem Level.equalsC_eq (o : Opts) (ida idb : Level ν δ κ α → Nat) (ha : IdSound ida) (hb : IdSound idb)
    (a b : Level ν δ κ α) : Level.equalsC veq ida idb a b o = Level.equals veq a b o := by
  unfold Level.equalsC Level.equals
  rw [walkC_eq_walk veq o ida idb ha hb _ [] _ _ (by intro p hp; cases hp)]
end Cache

end SF.Equals
