/-
  Bridge lemmas for C15 (axis reductions): the definitions regenerated from the current
  static_frame/core/{util,container,interface}.py by tools/py2lean_reduce.py (`SF.Gen.Reduce.*`), run
  through the evaluators of SFModel/ReduceSem.lean, equal the hand-written mirrored definitions of
  SFModel/Reduce.lean (`desc`, `Red.apply`, `logicalSkipna`, `argBest1d`, `argBest2d`) that the C15
  theorems are about.  Re-checked by the kernel on every run against what the source says *now*.

  Layers
    * table:     `desc_bridge`, `pair_bridge`, `via_shape_bridge`, `defaults_bridge`, `interface_pairs_bridge`,
                 `wrappers_bridge`, `arg_pairs_bridge`
    * routes:    `axis_route_bridge` (generated = the hand-written route selection `axisRoute`),
                 `logical_route_other`
    * semantics: `ufunc_axis_skipna_bridge` (numeric / bool / string arrays: = `Red.apply`, for every
                 kernel pair: `ufunc_axis_skipna_dispatch`), `…_datetime_partial` + counterexample (NaT is not
                 skipped), `…_object_partial` + counterexample (a 1-D object vector of None answers NaN: finding F40),
                 `ufunc_logical_skipna_bridge` (= `logicalSkipna`), `argminmax_1d_bridge` (= `argBest1d`),
                 `argminmax_2d_bridge` (= `argBest2d`)
  The oracles of a skeleton (`len(v) == 0`, `isna.any()` …) are computed from the vector by the
  functions `len0A`, `anyMOf` … of ReduceSem.lean, so every statement quantifies over the cells only.
-/
import SFModel.ReduceLemmas
import SFModel.Gen.Reduce

namespace SF.BridgeReduce
open SF SF.Reduce SF.ReduceSem

variable {α : Type}

/-! ### the descriptor table and the function pairs -/

/-- `ContainerOperand`: (composable, size_one_unity, dtypes) of every method = the hand-mirrored `desc` -/
theorem desc_bridge (fn : Fn) : Gen.Reduce.desc fn = desc fn := by
  cases fn <;> rfl

/-- the hand-mirrored pairs (ufunc, ufunc_skipna) -/
def handPair : Fn → UF × UF
  | .all => (.ufunc_all, .ufunc_nanall)
  | .any => (.ufunc_any, .ufunc_nanany)
  | .sum => (.np_sum, .np_nansum)
  | .min => (.np_min, .np_nanmin)
  | .max => (.np_max, .np_nanmax)
  | .mean => (.np_mean, .np_nanmean)
  | .median => (.np_median, .np_nanmedian)
  | .std => (.np_std, .np_nanstd)
  | .var => (.np_var, .np_nanvar)
  | .prod => (.np_prod, .np_nanprod)
  | .cumsum => (.np_cumsum, .np_nancumsum)
  | .cumprod => (.np_cumprod, .np_nancumprod)

theorem pair_bridge (fn : Fn) : Gen.Reduce.ufuncPair fn = handPair fn := by
  cases fn <;> rfl

/-- only the cumulative functions go through `_ufunc_shape_skipna` -/
theorem via_shape_bridge (fn : Fn) : Gen.Reduce.viaShape fn = (fn == .cumsum || fn == .cumprod) := by
  cases fn <;> rfl

/-- every method defaults to `axis=0, skipna=True` -/
theorem defaults_bridge (fn : Fn) : Gen.Reduce.defaults fn = (0, true) := by
  cases fn <;> rfl

/-- the reference table of interface.py names the same pairs as the methods pass -/
theorem interface_pairs_bridge : ∀ p ∈ Gen.Reduce.interface_pairs, Gen.Reduce.ufuncPair p.1 = p.2 := by
  decide

/-- `ufunc_all` / `ufunc_any` / `ufunc_nanall` / `ufunc_nanany` are `_ufunc_logical_skipna` with
    `np.all` / `np.any` and skipna off / on -/
theorem wrappers_bridge :
    Gen.Reduce.ufunc_all = (.np_all, false) ∧ Gen.Reduce.ufunc_any = (.np_any, false) ∧
    Gen.Reduce.ufunc_nanall = (.np_all, true) ∧ Gen.Reduce.ufunc_nanany = (.np_any, true) := by
  decide

theorem arg_pairs_bridge :
    Gen.Reduce.argmin_1d = (.np_argmin, .np_nanargmin) ∧ Gen.Reduce.argmax_1d = (.np_argmax, .np_nanargmax) ∧
    Gen.Reduce.argmin_2d = (.np_argmin, .np_nanargmin) ∧ Gen.Reduce.argmax_2d = (.np_argmax, .np_nanargmax) := by
  decide

/-! ### `util.ufunc_axis_skipna`: the route -/

/-- `ufunc in UFUNC_AXIS_STR_TO_OBJ` -/
def strToObj (u : UF) : Bool := u == .np_min || u == .np_max || u == .np_sum

/-- The hand-written route selection of `ufunc_axis_skipna`, by dtype kind:
    object arrays drop None (1-D, early NaN when nothing is left) or turn it into NaN (2-D) before the
    skipna kernel; datetime / timedelta arrays always take the plain kernel; string arrays are cast to
    object for min / max / sum; everything else is the dispatch on `skipna`. -/
def axisRoute (kind : Kind) (ndim : Nat) (skipna : Bool) (inStrToObj allNone : Bool) : ARoute :=
  match kind with
  | .O =>
    if skipna then
      if ndim = 1 then (if allNone then .retNan else .call .ufuncSkipna (.index .array .notEqNone))
      else .call .ufuncSkipna (.setNan (.copy .array) (.inv .notEqNone))
    else .call .ufunc .array
  | .M | .m => .call .ufunc .array
  | .U | .S =>
    if inStrToObj then .call (if skipna then .ufuncSkipna else .ufunc) (.astypeObj .array)
    else .call (if skipna then .ufuncSkipna else .ufunc) .array
  | _ => .call (if skipna then .ufuncSkipna else .ufunc) .array

theorem strToObj_contains (u : UF) : [UF.np_min, UF.np_max, UF.np_sum].contains u = strToObj u := by
  cases u <;> rfl

/-- **route bridge**: the generated skeleton = the hand-written route selection, for every kind,
    dimension, flag, function object and oracle -/
theorem axis_route_bridge (kind : Kind) (ndim : Nat) (skipna : Bool) (ufunc : UF) (len0 : AExp → Bool) :
    Gen.Reduce.ufunc_axis_skipna kind ndim skipna ufunc len0
      = axisRoute kind ndim skipna (strToObj ufunc) (len0 (.index .array .notEqNone)) := by
  unfold Gen.Reduce.ufunc_axis_skipna axisRoute
  rw [strToObj_contains]
  cases kind <;> cases skipna <;> cases strToObj ufunc <;> by_cases h : ndim = 1 <;> simp [h]

/-! ### what the preparations do to the cells -/

theorem index_notEqNone (xs : List (Cell α)) :
    (AExp.index .array .notEqNone).eval xs = xs.filter Cell.notNone := by
  simp only [AExp.eval, MExp.eval]
  induction xs with
  | nil => rfl
  | cons x xs ih =>
    simp only [List.map_cons, List.zip_cons_cons, List.filterMap_cons, List.filter_cons]
    cases h : x.notNone <;> simp [ih]

/-- replacing None by NaN does not change the cells of Reduce.lean -/
theorem setNan_notEqNone_opt (xs : List (Cell α)) :
    ((AExp.setNan (.copy .array) (.inv .notEqNone)).eval xs).map Cell.opt = xs.map Cell.opt := by
  simp only [AExp.eval, MExp.eval]
  induction xs with
  | nil => rfl
  | cons x xs ih =>
    simp only [List.map_cons, List.zip_cons_cons]
    rw [ih]
    cases x <;> rfl

theorem opt_filter_notNone_osum (op : α → α → α) (hassoc : ∀ a b c, op (op a b) c = op a (op b c))
    (xs : List (Cell α)) :
    osum op ((xs.filter Cell.notNone).map Cell.opt) = osum op (xs.map Cell.opt) := by
  induction xs with
  | nil => rfl
  | cons x xs ih =>
    cases x with
    | val a => simp [List.filter_cons, Cell.notNone, osum_cons op hassoc, ih]
    | nan => simp [List.filter_cons, Cell.notNone, osum_cons op hassoc, ih]
    | pyNone => simp [List.filter_cons, Cell.notNone, Cell.opt, osum_cons op hassoc, ih, olift_none_left]

/-! ### `util.ufunc_axis_skipna`: what the route computes -/

theorem skipna_irrelevant_of_none_missing (r : Red α) (xs : List (Option α))
    (h : xs.any Option.isNone = false) : r.apply true xs = r.apply false xs := by
  simp [Red.apply, h]

/-- **Numeric, Boolean and string arrays, any kernel pair** (sum, prod, min, max, mean, median, std,
    var, the logical pair …): the function is the dispatch on `skipna` - the skipna kernel or the plain
    one on the cells of the array, nothing else. -/
theorem ufunc_axis_skipna_dispatch {β : Type} (u us : Kernel α (Option β)) (kind : Kind)
    (hO : kind ≠ .O) (hM : kind ≠ .M) (hm : kind ≠ .m)
    (ndim : Nat) (skipna : Bool) (ufunc : UF) (xs : List (Cell α)) :
    (Gen.Reduce.ufunc_axis_skipna kind ndim skipna ufunc (len0A xs)).eval u us xs
      = (if skipna then us else u) (xs.map Cell.opt) := by
  rw [axis_route_bridge]
  cases kind <;> first | exact absurd rfl hO | exact absurd rfl hM | exact absurd rfl hm | skip
  all_goals cases skipna <;> cases strToObj ufunc <;> simp [axisRoute, ARoute.eval, AExp.eval]

/-- … hence for the two NumPy functions of a reduction it is the hand-mirrored `Red.apply` -/
theorem ufunc_axis_skipna_bridge (r : Red α) (kind : Kind)
    (hO : kind ≠ .O) (hM : kind ≠ .M) (hm : kind ≠ .m)
    (ndim : Nat) (skipna : Bool) (ufunc : UF) (xs : List (Cell α)) :
    (Gen.Reduce.ufunc_axis_skipna kind ndim skipna ufunc (len0A xs)).eval (redUfunc r) (redUfuncSkipna r) xs
      = r.apply skipna (xs.map Cell.opt) := by
  rw [ufunc_axis_skipna_dispatch _ _ kind hO hM hm, apply_eq_pick]

/-- **datetime64 / timedelta64 arrays** always take the plain kernel ("dates do not support skipna
    functions"): the result is `Red.apply` without skipna whatever the flag says … -/
theorem ufunc_axis_skipna_datetime {β : Type} (u us : Kernel α (Option β)) (kind : Kind) (hk : kind = .M ∨ kind = .m)
    (ndim : Nat) (skipna : Bool) (ufunc : UF) (xs : List (Cell α)) :
    (Gen.Reduce.ufunc_axis_skipna kind ndim skipna ufunc (len0A xs)).eval u us xs = u (xs.map Cell.opt) := by
  rw [axis_route_bridge]
  rcases hk with rfl | rfl <;> simp [axisRoute, ARoute.eval, AExp.eval]

/-- … so it is the hand-mirrored `Red.apply` exactly when skipna is off or no cell is missing
    (**partial**: the full statement is `ufunc_axis_skipna_datetime_counterexample`) -/
theorem ufunc_axis_skipna_bridge_datetime_partial (r : Red α) (kind : Kind) (hk : kind = .M ∨ kind = .m)
    (ndim : Nat) (skipna : Bool) (ufunc : UF) (xs : List (Cell α))
    (h : skipna = false ∨ (xs.map Cell.opt).any Option.isNone = false) :
    (Gen.Reduce.ufunc_axis_skipna kind ndim skipna ufunc (len0A xs)).eval (redUfunc r) (redUfuncSkipna r) xs
      = r.apply skipna (xs.map Cell.opt) := by
  rw [ufunc_axis_skipna_datetime _ _ kind hk]
  rcases h with rfl | h
  · rw [apply_eq_pick]; rfl
  · cases skipna
    · rw [apply_eq_pick]; rfl
    · rw [skipna_irrelevant_of_none_missing r _ h, apply_eq_pick]; rfl

/-- **object arrays**, skipna off: the plain kernel on the array as it is -/
theorem ufunc_axis_skipna_object_noskip {β : Type} (u us : Kernel α (Option β)) (ndim : Nat) (ufunc : UF) (xs : List (Cell α)) :
    (Gen.Reduce.ufunc_axis_skipna .O ndim false ufunc (len0A xs)).eval u us xs = u (xs.map Cell.opt) := by
  rw [axis_route_bridge]
  simp [axisRoute, ARoute.eval, AExp.eval]

/-- object arrays, skipna on, 2-D: None becomes NaN, then the skipna kernel - the cells of Reduce.lean are unchanged -/
theorem ufunc_axis_skipna_object_2d {β : Type} (u us : Kernel α (Option β)) (ndim : Nat) (hnd : ndim ≠ 1) (ufunc : UF)
    (xs : List (Cell α)) :
    (Gen.Reduce.ufunc_axis_skipna .O ndim true ufunc (len0A xs)).eval u us xs = us (xs.map Cell.opt) := by
  rw [axis_route_bridge]
  simp only [axisRoute, if_true, if_neg hnd, ARoute.eval, pick_ufuncSkipna]
  rw [setNan_notEqNone_opt]

/-- object arrays, skipna on, 1-D: None (not NaN) is removed; nothing left = NaN, otherwise the skipna kernel on the rest -/
theorem ufunc_axis_skipna_object_1d {β : Type} (u us : Kernel α (Option β)) (ufunc : UF) (xs : List (Cell α)) :
    (Gen.Reduce.ufunc_axis_skipna .O 1 true ufunc (len0A xs)).eval u us xs
      = if xs.filter Cell.notNone = [] then .ok none else us ((xs.filter Cell.notNone).map Cell.opt) := by
  rw [axis_route_bridge]
  simp only [axisRoute, if_true, len0A, index_notEqNone]
  by_cases h : xs.filter Cell.notNone = []
  · simp [h, ARoute.eval]
  · have : ((xs.filter Cell.notNone).length == 0) = false := by simpa using h
    rw [this, if_neg h]
    simp [ARoute.eval, index_notEqNone]

/-- **partial** - object arrays against the hand-mirrored `Red.apply`: equal when skipna is off, on a 2-D array, when a
    cell other than None is left, or for a reduction without identity on a non-empty vector (both answer NaN).  The full
    statement is false: `ufunc_axis_skipna_object_counterexample` (finding F40). -/
theorem ufunc_axis_skipna_bridge_object_partial (r : Red α) (hl : r.Lawful) (ndim : Nat) (skipna : Bool) (ufunc : UF)
    (xs : List (Cell α))
    (h : skipna = false ∨ ndim ≠ 1 ∨ (∃ c ∈ xs, c.notNone = true) ∨ (r.unit = none ∧ xs ≠ [])) :
    (Gen.Reduce.ufunc_axis_skipna .O ndim skipna ufunc (len0A xs)).eval (redUfunc r) (redUfuncSkipna r) xs
      = r.apply skipna (xs.map Cell.opt) := by
  cases skipna with
  | false => rw [ufunc_axis_skipna_object_noskip, apply_eq_pick]; rfl
  | true =>
    by_cases hnd : ndim = 1
    · subst hnd
      rw [ufunc_axis_skipna_object_1d, apply_eq_pick]
      simp only [if_true, redUfuncSkipna, List.length_map]
      have hsum := opt_filter_notNone_osum r.op hl.assoc xs
      by_cases hF : xs.filter Cell.notNone = []
      · rw [if_pos hF]
        rw [hF] at hsum
        rcases h with h | h | ⟨c, hc, hcn⟩ | ⟨hu, hne⟩
        · cases h
        · exact absurd rfl h
        · have : c ∈ xs.filter Cell.notNone := List.mem_filter.mpr ⟨hc, hcn⟩
          rw [hF] at this; cases this
        · rw [← hsum]
          have hlen : xs.length ≠ 0 := by simpa using hne
          simp [osum, Red.fin, hu, hlen]
      · rw [if_neg hF]
        apply fin_congr
        · have h1 : (xs.filter Cell.notNone).length ≠ 0 := by simpa using hF
          have h2 : xs.length ≠ 0 := by
            intro h0
            have : xs = [] := List.eq_nil_of_length_eq_zero h0
            rw [this] at hF; exact hF rfl
          constructor <;> intro h' <;> contradiction
        · intro _; exact hsum
        · intro e _; rw [hsum]
    · rw [ufunc_axis_skipna_object_2d _ _ ndim hnd, apply_eq_pick]; rfl

/-! ### the two deviations from the hand mirror, as counterexamples -/

def sumIntRed : Red Int := ⟨(· + ·), some 0, false⟩
def minIntRed : Red Int := ⟨min, none, false⟩

theorem sumIntRed_lawful : sumIntRed.Lawful :=
  ⟨fun a b c => Int.add_assoc a b c, fun e he a => by simp [sumIntRed] at he; subst he; simp [sumIntRed],
   fun e he a => by simp [sumIntRed] at he; subst he; simp [sumIntRed]⟩

/-- A 1-D object vector holding only None, skipna on: the code answers NaN (`len(v) == 0: return np.nan`), the
    hand-mirrored reduction the identity of the sum (as the 2-D object path and every other dtype do): finding F40. -/
theorem ufunc_axis_skipna_object_counterexample :
    ¬ (∀ (r : Red Int), r.Lawful → ∀ (xs : List (Cell Int)),
        (Gen.Reduce.ufunc_axis_skipna .O 1 true .np_sum (len0A xs)).eval (redUfunc r) (redUfuncSkipna r) xs
          = r.apply true (xs.map Cell.opt)) := by
  intro h
  have := h sumIntRed sumIntRed_lawful [.pyNone]
  revert this
  decide

/-- datetime64 with a NaT, skipna on: the code propagates the NaT (the plain kernel is used), the hand-mirrored
    reduction ignores it. -/
theorem ufunc_axis_skipna_datetime_counterexample :
    ¬ (∀ (r : Red Int) (skipna : Bool) (xs : List (Cell Int)),
        (Gen.Reduce.ufunc_axis_skipna .M 1 skipna .np_min (len0A xs)).eval (redUfunc r) (redUfuncSkipna r) xs
          = r.apply skipna (xs.map Cell.opt)) := by
  intro h
  have := h minIntRed true [.nan, .val 3]
  revert this
  decide

/-! ### `util._ufunc_logical_skipna`: the route -/

/-- The hand-written route selection of `_ufunc_logical_skipna`, by dtype kind (`empty`: `len(array) == 0`,
    `hasna`: `isna_array(array).any()`): bool / int arrays as they are, strings through `!= ''`, float / complex
    with the missing cells filled by the identity or a TypeError, datetime / timedelta a TypeError or constant True,
    object arrays through `astype(bool)` with the same filling. -/
def logicalRoute (ufunc : UF) (kind : Kind) (skipna : Bool) (ndim : Nat) (axis : Int) (empty hasna : Bool) : LRoute :=
  if (ufunc != UF.np_all) && (ufunc != UF.np_any) then .raise .notImplementedError
  else if empty then .retBool (ufunc == UF.np_all)
  else match kind with
    | .b | .i | .u => .call .array
    | .U | .S => .call (.neStr .array)
    | .f | .c =>
      if hasna && skipna then .call (.setWhere (.copy .array) .isna (if (ufunc == UF.np_any) then Fill.f0 else Fill.f1))
      else if hasna && !skipna then .raise .typeError
      else .call .array
    | .M | .m =>
      if hasna && !skipna then .raise .typeError
      else if ndim = 1 then .retBool true
      else .retFull (if (axis != 0) then 0 else 1) true
    | .O =>
      if hasna && skipna then
        .call (.setWhere (.astypeBool (.copy .array)) .isna (Fill.ofBool (if (ufunc == UF.np_any) then false else true)))
      else if hasna && !skipna then .raise .typeError
      else .call (.astypeBool .array)

/-- **route bridge**: the generated skeleton = the hand-written route selection (`allM` is not consulted) -/
theorem logical_route_bridge (ufunc : UF) (kind : Kind) (skipna : Bool) (ndim : Nat) (axis : Int)
    (len0 : LExp → Bool) (anyM allM : MExp → Bool) :
    Gen.Reduce._ufunc_logical_skipna ufunc kind skipna ndim axis len0 anyM allM
      = logicalRoute ufunc kind skipna ndim axis (len0 .array) (anyM .isna) := by
  unfold Gen.Reduce._ufunc_logical_skipna logicalRoute
  cases kind <;> cases skipna <;> cases len0 .array <;> cases anyM .isna <;> by_cases h : ndim = 1 <;> simp [h]

/-- a function other than `np.all` / `np.any` is rejected before anything else -/
theorem logical_route_other (ufunc : UF) (h1 : ufunc ≠ .np_all) (h2 : ufunc ≠ .np_any) (kind : Kind) (skipna : Bool)
    (ndim : Nat) (axis : Int) (len0 : LExp → Bool) (anyM allM : MExp → Bool) :
    Gen.Reduce._ufunc_logical_skipna ufunc kind skipna ndim axis len0 anyM allM = .raise .notImplementedError := by
  rw [logical_route_bridge]
  simp [logicalRoute, h1, h2]

/-! ### `util._ufunc_logical_skipna`: what the route computes -/

theorem foldl_map_rel {γ δ σ : Type} (f : σ → γ → σ) (g : σ → δ → σ) (h : γ → δ) (l : List γ) (a : σ)
    (hp : ∀ c ∈ l, ∀ s, f s c = g s (h c)) : l.foldl f a = (l.map h).foldl g a := by
  induction l generalizing a with
  | nil => rfl
  | cons c l ih =>
    simp only [List.foldl_cons, List.map_cons]
    rw [hp c (by simp), ih _ (fun c' hc' => hp c' (by simp [hc']))]

theorem isna_any_opt (xs : List (Cell α)) : MExp.isna.any xs = (xs.map Cell.opt).any Option.isNone := by
  simp only [MExp.any, MExp.eval]
  induction xs with
  | nil => rfl
  | cons x xs ih =>
    simp only [List.map_cons, List.any_cons, ih]
    cases x <;> rfl

theorem isna_all_opt (xs : List (Cell α)) : MExp.isna.all xs = (xs.map Cell.opt).all Option.isNone := by
  simp only [MExp.all, MExp.eval]
  induction xs with
  | nil => rfl
  | cons x xs ih =>
    simp only [List.map_cons, List.all_cons, ih]
    cases x <;> rfl

/-- every missing cell replaced by `e` -/
def fillAll (e : Bool) (xs : List (Cell Bool)) : List (Cell Bool) :=
  xs.map (fun c => match c with | .val b => .val b | _ => .val e)

theorem fill_isna_raw (xs : List (Cell Bool)) (b : Bool) :
    List.map (fun p => if p.snd = true then Cell.val b else p.fst) (xs.zip (MExp.isna.eval xs)) = fillAll b xs := by
  simp only [MExp.eval, fillAll]
  induction xs with
  | nil => rfl
  | cons x xs ih =>
    simp only [List.map_cons, List.zip_cons_cons]
    rw [ih]
    cases x <;> rfl

theorem fill_astypeBool_isna_raw (xs : List (Cell Bool)) (b : Bool) :
    List.map (fun p => if p.snd = true then Cell.val b else p.fst)
      ((List.map Cell.asBool xs).zip (MExp.isna.eval xs)) = fillAll b xs := by
  simp only [MExp.eval, fillAll]
  induction xs with
  | nil => rfl
  | cons x xs ih =>
    simp only [List.map_cons, List.zip_cons_cons]
    rw [ih]
    cases x <;> rfl

/-- the float / complex preparation: the copy with the missing cells set to the fill value -/
theorem setWhere_isna_eval (k : Kind) (xs : List (Cell Bool)) (f : Fill) :
    (LExp.setWhere (.copy .array) .isna f).eval k xs = fillAll f.truth xs := by
  simp only [LExp.eval]; exact fill_isna_raw xs f.truth

/-- the object preparation: `astype(bool)`, then the missing cells set to the fill value -/
theorem setWhere_astypeBool_eval (k : Kind) (xs : List (Cell Bool)) (f : Fill) :
    (LExp.setWhere (.astypeBool (.copy .array)) .isna f).eval k xs = fillAll f.truth xs := by
  simp only [LExp.eval]; exact fill_astypeBool_isna_raw xs f.truth

theorem astypeBool_noNA (k : Kind) (xs : List (Cell Bool)) (h : ∀ c ∈ xs, c.isna = false) :
    (LExp.astypeBool .array).eval k xs = xs := by
  simp only [LExp.eval]
  induction xs with
  | nil => rfl
  | cons x xs ih =>
    simp only [List.map_cons]
    rw [ih (fun c hc => h c (by simp [hc]))]
    have := h x (by simp)
    cases x <;> simp_all [Cell.isna, Cell.asBool]

/-- `np.all` / `np.any` after the missing cells were filled with the identity = the fold of Reduce.lean -/
theorem npLogical_fillAll (isAll : Bool) (xs : List (Cell Bool)) :
    npLogical isAll (fillAll isAll xs) = logicalFold isAll (xs.map Cell.opt) := by
  unfold npLogical logicalFold fillAll
  rw [List.foldl_map]
  apply foldl_map_rel
  intro c _ s
  cases isAll <;> cases c <;> simp [Cell.truthy, Cell.opt]

/-- … and on a vector without missing cells -/
theorem npLogical_noNA (isAll : Bool) (xs : List (Cell Bool)) (h : ∀ c ∈ xs, c.isna = false) :
    npLogical isAll xs = logicalFold isAll (xs.map Cell.opt) := by
  unfold npLogical logicalFold
  apply foldl_map_rel
  intro c hc s
  have := h c hc
  cases isAll <;> cases c <;> simp_all [Cell.truthy, Cell.opt, Cell.isna]

theorem noNA_of_any_false (xs : List (Cell α)) (h : (xs.map Cell.opt).any Option.isNone = false) :
    ∀ c ∈ xs, c.isna = false := by
  intro c hc
  induction xs with
  | nil => cases hc
  | cons x xs ih =>
    simp only [List.map_cons, List.any_cons, Bool.or_eq_false_iff] at h
    rcases List.mem_cons.mp hc with rfl | hc'
    · cases c <;> simp_all [Cell.opt, Cell.isna]
    · exact ih h.2 hc'

/-- the function object of the hand mirror's flag -/
def ufOf (isAll : Bool) : UF := if isAll then .np_all else .np_any

/-- `array != ''` on a str array is the truthiness of its elements -/
theorem neStr_U (xs : List (Cell Bool)) : xs.map (Cell.neStr .U) = xs := by
  induction xs with
  | nil => rfl
  | cons x xs ih => rw [List.map_cons, ih]; cases x <;> rfl

/-- … on a bytes array it is True for every element (bytes never equal the str `''`): the same only when all are truthy -/
theorem neStr_S (xs : List (Cell Bool)) (h : ∀ c ∈ xs, c = Cell.val true) : xs.map (Cell.neStr .S) = xs := by
  induction xs with
  | nil => rfl
  | cons x xs ih =>
    rw [List.map_cons, ih (fun c hc => h c (by simp [hc])), h x (by simp)]
    rfl

/-- the general form: every kind, bytes arrays under the hypothesis that no element is the empty bytes string -/
theorem ufunc_logical_skipna_bridge_gen (isAll : Bool) (kind : Kind) (skipna : Bool) (axis : Int) (xs : List (Cell Bool))
    (hwt : WellTyped kind xs) (hbytes : kind = .S → ∀ c ∈ xs, c = Cell.val true) :
    (Gen.Reduce._ufunc_logical_skipna (ufOf isAll) kind skipna 1 axis (len0L kind xs) (anyMOf xs) (allMOf xs)).eval (ufOf isAll) kind xs
      = logicalSkipna isAll (lkindOf kind) skipna (xs.map Cell.opt) := by
  rw [logical_route_bridge]
  unfold logicalRoute logicalSkipna
  by_cases hnil : xs = []
  · subst hnil
    cases isAll <;> simp [LRoute.eval, ufOf, len0L, LExp.eval]
  · have hlen : (xs.length == 0) = false := by simpa using hnil
    have hnil' : ¬ (xs.map Cell.opt = []) := by simpa using hnil
    cases hna : (xs.map Cell.opt).any Option.isNone
    · -- no missing cell
      have hno := noNA_of_any_false xs hna
      have h1 := npLogical_noNA true xs hno
      have h2 := npLogical_noNA false xs hno
      have h3 := astypeBool_noNA kind xs hno
      simp only [LExp.eval] at h3
      have h4 := neStr_U xs
      have h5 : kind = .S → xs.map (Cell.neStr .S) = xs := fun h => neStr_S xs (hbytes h)
      cases isAll <;> cases kind <;> cases skipna <;>
        simp [ufOf, len0L, anyMOf, isna_any_opt, hna, hlen, hnil', lkindOf, LRoute.eval, LExp.eval, h1, h2, h3, h4, h5]
    · -- a missing cell: excluded for bool / int / str arrays
      have hbad : Kind.noNA kind = false := by
        cases hk : Kind.noNA kind
        · rfl
        · have hno := hwt.1 hk
          have : (xs.map Cell.opt).any Option.isNone = false := by
            rw [← isna_any_opt]
            simp only [MExp.any, MExp.eval, List.any_map, List.any_eq_false]
            intro c hc; simp [hno c hc]
          rw [this] at hna; cases hna
      have e1 := fill_isna_raw xs
      have e2 := fill_astypeBool_isna_raw xs
      have f1 := npLogical_fillAll true xs
      have f2 := npLogical_fillAll false xs
      cases kind <;> first | (simp [Kind.noNA] at hbad; done) | skip
      all_goals cases isAll <;> cases skipna <;>
        simp [ufOf, len0L, anyMOf, isna_any_opt, hna, hlen, hnil', lkindOf, LRoute.eval, LExp.eval, e1, e2, f1, f2,
          Fill.truth, Fill.ofBool, Exc.toErr]

/-- **`_ufunc_logical_skipna` = `logicalSkipna`** on every vector an array of the dtype kind can hold (1-D call),
    for `np.all` and `np.any`, skipna on and off - every kind but bytes. -/
theorem ufunc_logical_skipna_bridge (isAll : Bool) (kind : Kind) (hS : kind ≠ .S) (skipna : Bool) (axis : Int)
    (xs : List (Cell Bool)) (hwt : WellTyped kind xs) :
    (Gen.Reduce._ufunc_logical_skipna (ufOf isAll) kind skipna 1 axis (len0L kind xs) (anyMOf xs) (allMOf xs)).eval (ufOf isAll) kind xs
      = logicalSkipna isAll (lkindOf kind) skipna (xs.map Cell.opt) :=
  ufunc_logical_skipna_bridge_gen isAll kind skipna axis xs hwt (fun h => absurd h hS)

/-- **partial** - bytes arrays (`kind == 'S'`): the source tests `array != ''`, and NumPy compares a bytes element with the
    str `''` as unequal whatever it holds, so the empty bytes string counts as truthy; the hand mirror (truthiness of the
    elements) is met exactly when no element is empty.  The full statement is false:
    `ufunc_logical_skipna_bytes_counterexample`. -/
theorem ufunc_logical_skipna_bridge_bytes_partial (isAll : Bool) (skipna : Bool) (axis : Int) (xs : List (Cell Bool))
    (hall : ∀ c ∈ xs, c = Cell.val true) :
    (Gen.Reduce._ufunc_logical_skipna (ufOf isAll) .S skipna 1 axis (len0L .S xs) (anyMOf xs) (allMOf xs)).eval (ufOf isAll) .S xs
      = logicalSkipna isAll (lkindOf .S) skipna (xs.map Cell.opt) := by
  apply ufunc_logical_skipna_bridge_gen isAll .S skipna axis xs _ (fun _ => hall)
  constructor
  · intro _ c hc; rw [hall c hc]; rfl
  · intro _ c hc; rw [hall c hc]; rfl

/-- `any` over the bytes array `[b'']`: the source answers True, the truthiness of the element is False. -/
theorem ufunc_logical_skipna_bytes_counterexample :
    ¬ (∀ (isAll skipna : Bool) (xs : List (Cell Bool)), WellTyped Kind.S xs →
        (Gen.Reduce._ufunc_logical_skipna (ufOf isAll) .S skipna 1 0 (len0L .S xs) (anyMOf xs) (allMOf xs)).eval (ufOf isAll) .S xs
          = logicalSkipna isAll (lkindOf .S) skipna (xs.map Cell.opt)) := by
  intro h
  have hwt : WellTyped Kind.S [Cell.val false] := by
    constructor
    · intro _ c hc; simp at hc; subst hc; rfl
    · intro _ c hc; simp at hc; subst hc; rfl
  have := h false true [Cell.val false] hwt
  revert this
  decide

/-! ### `util._argminmax_1d` / `_argminmax_2d` -/

theorem firstMissing_none (ys : List (Option α)) (h : ys.any Option.isNone = false) : firstMissing ys = none := by
  induction ys with
  | nil => rfl
  | cons y ys ih =>
    simp only [List.any_cons, Bool.or_eq_false_iff] at h
    cases y with
    | none => simp at h
    | some v => simp [firstMissing, ih h.2]

theorem nanArgBestGo_all_some (better : α → α → Bool) (ys : List (Option α)) :
    ∀ (k b : Nat) (bv : α), ys.any Option.isNone = false →
      (nanArgBestGo better k (some (b, bv)) ys).map (·.1) = some (argBestGo better k b bv (ys.filterMap id)) := by
  induction ys with
  | nil => intro k b bv _; rfl
  | cons y ys ih =>
    intro k b bv h
    simp only [List.any_cons, Bool.or_eq_false_iff] at h
    cases y with
    | none => simp at h
    | some v =>
      simp only [nanArgBestGo, List.filterMap_cons, id, argBestGo]
      split
      · exact ih (k + 1) k v h.2
      · exact ih (k + 1) b bv h.2

/-- on a vector without missing cells `np.nanargmin` and `np.argmin` name the same position -/
theorem nanArgBest_eq_argBest (better : α → α → Bool) (ys : List (Option α)) (h : ys.any Option.isNone = false) :
    nanArgBest better ys = argBest better (ys.filterMap id) := by
  cases ys with
  | nil => rfl
  | cons y ys =>
    simp only [List.any_cons, Bool.or_eq_false_iff] at h
    cases y with
    | none => simp at h
    | some v =>
      simp only [nanArgBest, nanArgBestGo, List.filterMap_cons, id, argBest]
      exact nanArgBestGo_all_some better ys 1 0 v h.2

theorem npArgVal_eq (better : α → α → Bool) (ys : List (Option α)) (h : ys.any Option.isNone = false) :
    npArgVal better ys = nanArgBest better ys := by
  unfold npArgVal
  rw [firstMissing_none ys h, nanArgBest_eq_argBest better ys h]

/-- The hand-written decision of `_argminmax_1d`: NaN for an all-missing vector and for a missing cell without skipna,
    the skipna kernel when a cell is missing, the plain one otherwise. -/
def arg1dRoute (skipna allna anyna : Bool) : ARoute :=
  if allna then .retNan
  else if anyna then (if skipna then .call .ufuncSkipna .array else .retNan)
  else .call .ufunc .array

theorem argminmax_1d_route_bridge (skipna : Bool) (anyM allM : MExp → Bool) :
    Gen.Reduce._argminmax_1d skipna anyM allM = arg1dRoute skipna (allM .isna) (anyM .isna) := by
  unfold Gen.Reduce._argminmax_1d arg1dRoute
  cases skipna <;> cases allM .isna <;> cases anyM .isna <;> rfl

/-- **`_argminmax_1d` = `argBest1d`** for every vector, with `np.argmin` / `np.nanargmin` as the kernels -/
theorem argminmax_1d_bridge (better : α → α → Bool) (skipna : Bool) (xs : List (Cell α)) :
    (Gen.Reduce._argminmax_1d skipna (anyMOf xs) (allMOf xs)).eval (npArg better) (npNanArg better) xs
      = argBest1d better skipna (xs.map Cell.opt) := by
  rw [argminmax_1d_route_bridge]
  unfold arg1dRoute argBest1d
  simp only [anyMOf, allMOf, isna_any_opt, isna_all_opt]
  cases hall : (xs.map Cell.opt).all Option.isNone
  · cases hany : (xs.map Cell.opt).any Option.isNone
    · have hne : xs.map Cell.opt ≠ [] := by
        intro h; rw [h] at hall; simp at hall
      simp [ARoute.eval, AExp.eval, npArg, hne, npArgVal_eq better _ hany]
    · cases skipna <;> simp [ARoute.eval, AExp.eval, npNanArg, hall]
  · simp [ARoute.eval]

/-- The hand-written decision of `_argminmax_2d` (`allna` / `anyna`: every / some line holds a missing cell):
    all NaN when every line has one and skipna is off; the skipna kernel when some line has one - masked with NaN on
    those lines when skipna is off; the plain kernel otherwise. -/
def arg2dRoute (skipna allna anyna : Bool) : G2Route :=
  if allna && !skipna then .retFullNan (.anyAxis .isna)
  else if anyna then
    (if !skipna then .ret (.setNan (.astypeFloat (.call .ufuncSkipna .array)) (.anyAxis .isna))
     else .ret (.call .ufuncSkipna .array))
  else .ret (.call .ufunc .array)

theorem argminmax_2d_route_bridge (skipna : Bool) (anyX allX : XExp → Bool) :
    Gen.Reduce._argminmax_2d skipna anyX allX
      = arg2dRoute skipna (allX (.anyAxis .isna)) (anyX (.anyAxis .isna)) := by
  unfold Gen.Reduce._argminmax_2d arg2dRoute
  cases skipna <;> cases allX (.anyAxis .isna) <;> cases anyX (.anyAxis .isna) <;> rfl

theorem mapM_guard {β γ : Type} (c : β → Bool) (g : β → γ) (l : List β) :
    l.mapM (fun b => if c b = true then (Except.error Err.value : Except Err γ) else .ok (g b))
      = if l.any c = true then .error .value else .ok (l.map g) := by
  induction l with
  | nil => rfl
  | cons a l ih =>
    rw [List.mapM_cons, ih]
    cases hc : c a <;> cases hl : l.any c <;> simp [hc, hl] <;> rfl

theorem mapM_map_except {β γ δ : Type} (f : β → γ) (g : γ → Except Err δ) (l : List β) :
    (l.map f).mapM g = l.mapM (fun b => g (f b)) := by
  induction l with
  | nil => rfl
  | cons a l ih => rw [List.map_cons, List.mapM_cons, List.mapM_cons, ih]

theorem zip_mask (f : β → Option Nat) (p : β → Bool) (l : List β) :
    ((l.map f).zip (l.map p)).map (fun q => if q.2 = true then none else q.1)
      = l.map (fun b => if p b = true then none else f b) := by
  induction l with
  | nil => rfl
  | cons a l ih => simp only [List.map_cons, List.zip_cons_cons, ih]

/-- the axis mask `isna.any(axis)` = "the line holds a missing cell" of Reduce.lean -/
theorem anyAxis_eval (lines : List (List (Cell α))) :
    (XExp.anyAxis .isna).eval lines = (lines.map (·.map Cell.opt)).map (fun l => l.any Option.isNone) := by
  simp only [XExp.eval, List.map_map]
  apply List.map_congr_left
  intro l _
  exact isna_any_opt l

theorem any_of_all_ne_nil (l : List Bool) (hne : l ≠ []) (h : l.all id = true) : l.any id = true := by
  cases l with
  | nil => exact absurd rfl hne
  | cons a l => simp only [List.all_cons, Bool.and_eq_true, id] at h; simp [h.1]

/-- `np.nanargmin(array, axis)` over the lines -/
theorem lines_nanarg (better : α → α → Bool) (L : List (List (Option α))) :
    L.mapM (npNanArg better)
      = if L.any (fun l => l.all Option.isNone) = true then .error .value else .ok (L.map (nanArgBest better)) := by
  unfold npNanArg
  exact mapM_guard (fun l : List (Option α) => l.all Option.isNone) (nanArgBest better) L

/-- `np.argmin(array, axis)` over the lines -/
theorem lines_arg (better : α → α → Bool) (L : List (List (Option α))) :
    L.mapM (npArg better)
      = if L.any (fun l => decide (l = [])) = true then .error .value else .ok (L.map (npArgVal better)) := by
  have := mapM_guard (fun l : List (Option α) => decide (l = [])) (npArgVal better) L
  unfold npArg
  simpa using this

/-- **`_argminmax_2d` = `argBest2d`** for all lines (also ragged ones), with `np.argmin` / `np.nanargmin` over the
    lines as the kernels -/
theorem argminmax_2d_bridge (better : α → α → Bool) (skipna : Bool) (lines : List (List (Cell α))) :
    (Gen.Reduce._argminmax_2d skipna (anyXOf lines) (allXOf lines)).eval (npArg better) (npNanArg better) lines
      = argBest2d better skipna (lines.map (·.map Cell.opt)) := by
  rw [argminmax_2d_route_bridge]
  simp only [anyXOf, allXOf, XExp.any, XExp.all]
  have hmask := anyAxis_eval lines
  generalize hL : lines.map (·.map Cell.opt) = L at hmask
  -- the two kernels over the lines
  have hcallS : (PExp.call .ufuncSkipna .array).eval (npArg better) (npNanArg better) lines
      = if L.any (fun l => l.all Option.isNone) = true then .error .value else .ok (L.map (nanArgBest better)) := by
    simp only [PExp.eval, AExp.eval, pick_ufuncSkipna]
    rw [← lines_nanarg, ← hL, mapM_map_except]
  have hcallU : (PExp.call .ufunc .array).eval (npArg better) (npNanArg better) lines
      = if L.any (fun l => decide (l = [])) = true then .error .value else .ok (L.map (npArgVal better)) := by
    simp only [PExp.eval, AExp.eval, pick_ufunc]
    rw [← lines_arg, ← hL, mapM_map_except]
  -- an empty line has no missing cell, and is entirely missing
  have hE_all : L.any (fun l => decide (l = [])) = true → (L.map (fun l => l.any Option.isNone)).all id = false := by
    intro hE
    obtain ⟨l, hl, he⟩ := List.any_eq_true.mp hE
    have he' : l = [] := by simpa using he
    subst he'
    apply Bool.eq_false_iff.mpr
    intro hall
    have := (List.all_eq_true.mp hall) false (List.mem_map.mpr ⟨[], hl, rfl⟩)
    simp at this
  have hE_AM : L.any (fun l => decide (l = [])) = true → L.any (fun l => l.all Option.isNone) = true := by
    intro hE
    obtain ⟨l, hl, he⟩ := List.any_eq_true.mp hE
    have he' : l = [] := by simpa using he
    subst he'
    exact List.any_eq_true.mpr ⟨[], hl, rfl⟩
  -- without a missing cell anywhere the two kernels agree line by line
  have hplain : (L.map (fun l => l.any Option.isNone)).any id = false →
      L.map (npArgVal better) = L.map (nanArgBest better) := by
    intro hAN
    apply List.map_congr_left
    intro l hl
    apply npArgVal_eq
    cases h : l.any Option.isNone
    · rfl
    · have : (L.map (fun l => l.any Option.isNone)).any id = true :=
        List.any_eq_true.mpr ⟨true, List.mem_map.mpr ⟨l, hl, h⟩, rfl⟩
      rw [this] at hAN; cases hAN
  -- what each of the four routes computes
  have hS : (G2Route.ret (.call .ufuncSkipna .array)).eval (npArg better) (npNanArg better) lines
      = if L.any (fun l => l.all Option.isNone) = true then .error .value else .ok (L.map (nanArgBest better)) := hcallS
  have hU : (G2Route.ret (.call .ufunc .array)).eval (npArg better) (npNanArg better) lines
      = if L.any (fun l => decide (l = [])) = true then .error .value else .ok (L.map (npArgVal better)) := hcallU
  have hFull : (G2Route.retFullNan (.anyAxis .isna)).eval (npArg better) (npNanArg better) lines
      = .ok (L.map (fun _ => none)) := by
    simp only [G2Route.eval, hmask, List.map_map]; rfl
  have hMask : (G2Route.ret (.setNan (.astypeFloat (.call .ufuncSkipna .array)) (.anyAxis .isna))).eval
        (npArg better) (npNanArg better) lines
      = if L.any (fun l => l.all Option.isNone) = true then .error .value
        else .ok (L.map (fun l => if l.any Option.isNone = true then none else nanArgBest better l)) := by
    show Except.map _ ((PExp.call .ufuncSkipna .array).eval (npArg better) (npNanArg better) lines) = _
    rw [hcallS, hmask]
    cases L.any (fun l => l.all Option.isNone)
    · simp only [Bool.false_eq_true, if_false, Except.map, zip_mask]
    · rfl
  unfold arg2dRoute argBest2d
  rw [hmask]
  simp only []
  cases hE : L.any (fun l => decide (l = []))
  · -- no empty line
    cases hAL : (L.map (fun l => l.any Option.isNone)).all id
    · cases hAN : (L.map (fun l => l.any Option.isNone)).any id
      · simp only [Bool.false_and, Bool.false_eq_true, if_false, hU, hE, hplain hAN]
        simp
      · cases skipna
        · simp only [Bool.false_and, Bool.false_eq_true, if_false, if_true, Bool.not_false, hMask, not_false_eq_true, and_true]
          simp
        · simp only [Bool.false_and, Bool.false_eq_true, if_false, if_true, Bool.not_true, hS]
          simp
    · by_cases hne : L = []
      · subst hne
        cases skipna
        · simp only [Bool.not_false, Bool.and_true, if_true, hFull]
          simp
        · simp only [Bool.not_true, Bool.and_false, Bool.false_eq_true, if_false, List.map_nil, List.any_nil, hU]
          simp
      · have hAN := any_of_all_ne_nil _ (by simpa using hne) hAL
        cases skipna
        · simp only [Bool.not_false, Bool.and_true, if_true, hFull]
          simp [hne]
        · simp only [Bool.not_true, Bool.and_false, Bool.false_eq_true, if_false, hAN, if_true, hS]
          simp
  · -- an empty line: both sides raise
    have hAL := hE_all hE
    have hAM := hE_AM hE
    cases hAN : (L.map (fun l => l.any Option.isNone)).any id
    · simp only [hAL, Bool.false_and, Bool.false_eq_true, if_false, hU, hE, if_true]
    · cases skipna
      · simp only [hAL, Bool.false_and, Bool.false_eq_true, if_false, if_true, Bool.not_false, hMask, hAM]
      · simp only [hAL, Bool.false_and, Bool.false_eq_true, if_false, if_true, Bool.not_true, hS, hAM]

/-! ### `Frame.all` / `Frame.any`: the pair of `ufunc_axis_skipna` is the logical helper with its flag fixed -/

/-- `ufunc_axis_skipna` with the pair (`ufunc_all`, `ufunc_nanall`) (resp. `ufunc_any`, `ufunc_nanany`) - i.e.
    `_ufunc_logical_skipna` with the skipna flags the generated wrappers fix - is `logicalSkipna` with the caller's
    `skipna`, on bool / int / float / complex / string arrays. -/
theorem logical_pair_dispatch (isAll : Bool) (kind : Kind) (hO : kind ≠ .O) (hM : kind ≠ .M) (hm : kind ≠ .m)
    (ndim : Nat) (skipna : Bool) (ufunc : UF) (xs : List (Cell Bool)) :
    (Gen.Reduce.ufunc_axis_skipna kind ndim skipna ufunc (len0A xs)).eval
        (fun ys => (logicalSkipna isAll (lkindOf kind) (if isAll then Gen.Reduce.ufunc_all.2 else Gen.Reduce.ufunc_any.2) ys).map some)
        (fun ys => (logicalSkipna isAll (lkindOf kind) (if isAll then Gen.Reduce.ufunc_nanall.2 else Gen.Reduce.ufunc_nanany.2) ys).map some)
        xs
      = (logicalSkipna isAll (lkindOf kind) skipna (xs.map Cell.opt)).map some := by
  rw [ufunc_axis_skipna_dispatch _ _ kind hO hM hm]
  cases isAll <;> cases skipna <;> rfl

/-! ### non-vacuity: the generated functions run, the hypotheses are satisfiable -/

example : Gen.Reduce.ufunc_axis_skipna .f 1 true .np_sum (len0A [Cell.val (1 : Int), .nan]) = .call .ufuncSkipna .array := by decide
example : Gen.Reduce.ufunc_axis_skipna .U 1 false .np_max (len0A [Cell.val (1 : Int)]) = .call .ufunc (.astypeObj .array) := by decide
example : Gen.Reduce.ufunc_axis_skipna .U 1 false .np_prod (len0A [Cell.val (1 : Int)]) = .call .ufunc .array := by decide
example : Gen.Reduce.ufunc_axis_skipna .O 1 true .np_sum (len0A [(Cell.pyNone : Cell Int)]) = .retNan := by decide
example : (Gen.Reduce.ufunc_axis_skipna .O 1 true .np_sum (len0A [Cell.val (4 : Int), .pyNone, .nan])).eval
    (redUfunc sumIntRed) (redUfuncSkipna sumIntRed) [Cell.val 4, .pyNone, .nan] = .ok (some 4) := by decide
example : (Gen.Reduce.ufunc_axis_skipna .M 1 true .np_min (len0A [Cell.nan, .val (3 : Int)])).eval
    (redUfunc minIntRed) (redUfuncSkipna minIntRed) [Cell.nan, .val 3] = .ok none := by decide
/-- the hypothesis of `ufunc_axis_skipna_bridge_object_partial` holds e.g. for [None, 2] -/
example : ∃ c ∈ [Cell.pyNone, Cell.val (2 : Int)], c.notNone = true := ⟨.val 2, by simp, rfl⟩
/-- `WellTyped`: a bool array without missing cells; a float array with a NaN; an object array with None -/
example : WellTyped Kind.b [Cell.val true, Cell.val false] := by
  constructor
  · intro _ c hc; simp at hc; rcases hc with rfl | rfl <;> rfl
  · intro _ c hc; simp at hc; rcases hc with rfl | rfl <;> rfl
example : WellTyped Kind.f [Cell.val true, Cell.nan] := by
  constructor
  · intro h; cases h
  · intro _ c hc; simp at hc; rcases hc with rfl | rfl <;> rfl
example : WellTyped Kind.O [Cell.val true, (Cell.pyNone : Cell Bool)] := by
  constructor
  · intro h; cases h
  · intro h; exact absurd rfl h
example : (Gen.Reduce._ufunc_logical_skipna .np_any .f true 1 0 (len0L .f [Cell.val false, .nan]) (anyMOf [Cell.val false, .nan])
    (allMOf [Cell.val false, .nan])).eval .np_any .f [Cell.val false, .nan] = .ok false := by decide
example : (Gen.Reduce._ufunc_logical_skipna .np_all .O false 1 0 (len0L .O [Cell.val true, .pyNone]) (anyMOf [Cell.val true, .pyNone])
    (allMOf [Cell.val true, .pyNone])).eval .np_all .O [Cell.val true, .pyNone] = .error .value := by decide
/-- a str array: `'' != ''` is False; a bytes array: `b'' != ''` is True -/
example : (Gen.Reduce._ufunc_logical_skipna .np_any .U true 1 0 (len0L .U [Cell.val false]) (anyMOf [Cell.val false])
    (allMOf [Cell.val false])).eval .np_any .U [Cell.val false] = .ok false := by decide
example : (Gen.Reduce._ufunc_logical_skipna .np_any .S true 1 0 (len0L .S [Cell.val false]) (anyMOf [Cell.val false])
    (allMOf [Cell.val false])).eval .np_any .S [Cell.val false] = .ok true := by decide
example : Gen.Reduce._ufunc_logical_skipna .np_sum .b true 1 0 (fun _ => false) (fun _ => false) (fun _ => false)
    = .raise .notImplementedError := by decide
example : Gen.Reduce._ufunc_logical_skipna .np_all .M true 2 1 (fun _ => false) (fun _ => true) (fun _ => false)
    = .retFull 0 true := by decide
example : (Gen.Reduce._argminmax_1d true (anyMOf [Cell.val (3 : Int), .nan, .val 1]) (allMOf [Cell.val (3 : Int), .nan, .val 1])).eval
    (npArg (fun a b => decide (a < b))) (npNanArg (fun a b => decide (a < b))) [Cell.val 3, .nan, .val 1] = .ok (some 2) := by decide
example : (Gen.Reduce._argminmax_2d false (anyXOf [[Cell.val (1 : Int), .nan], [.val 2, .val 3]])
    (allXOf [[Cell.val (1 : Int), .nan], [.val 2, .val 3]])).eval
    (npArg (fun a b => decide (a < b))) (npNanArg (fun a b => decide (a < b))) [[Cell.val 1, .nan], [.val 2, .val 3]]
      = .ok [none, some 0] := by decide
/-- an all-missing line next to another one, skipna on: `np.nanargmin` raises (finding F36) -/
example : (Gen.Reduce._argminmax_2d true (anyXOf [[(Cell.nan : Cell Int)], [.val 2]]) (allXOf [[(Cell.nan : Cell Int)], [.val 2]])).eval
    (npArg (fun a b => decide (a < b))) (npNanArg (fun a b => decide (a < b))) [[Cell.nan], [.val 2]] = .error .value := by decide

end SF.BridgeReduce
