/-
  SFModel.Basic — shared vocabulary of the static-frame models.

  * `Err`     : the small error enum every model maps library exceptions to
  * `SExp`    : the wire format of the line protocol (atoms and parenthesised lists)
  * list helpers used by several models

  No Mathlib import: the driver has to start fast.
-/

namespace SF

/-- Error categories.  The harness maps Python exceptions to the same names. -/
inductive Err
  | indexInit      -- ErrorInitIndex
  | nonUnique      -- ErrorInitIndexNonUnique (subclass of ErrorInitIndex)
  | lookup         -- KeyError | LocInvalid | LocEmpty | IndexError
  | init           -- ErrorInitFrame / ErrorInitSeries / ErrorInitTypeBlocks ...
  | storeMutation  -- StoreFileMutation
  | shape          -- shape / length mismatch (RuntimeError, ValueError on sizes)
  | value          -- ValueError / TypeError on argument values
  | other
deriving Repr, DecidableEq, Inhabited

def Err.toString : Err → String
  | .indexInit => "indexInit" | .nonUnique => "nonUnique" | .lookup => "lookup"
  | .init => "init" | .storeMutation => "storeMutation" | .shape => "shape"
  | .value => "value" | .other => "other"

instance : ToString Err := ⟨Err.toString⟩

deriving instance DecidableEq for Except

/-! ### S-expressions -/

inductive SExp
  | atom (s : String)
  | list (xs : List SExp)
deriving Repr, Inhabited, BEq

namespace SExp

/-- Tokens: `(`, `)`, bare atoms (no whitespace / parens), and double-quoted atoms with
    `\"`, `\\`, `\n`, `\t`, `\r` escapes (the quotes are kept in the atom so that
    `s:"a b"` stays one token: a quote may start in the middle of an atom). -/
private def tokenize (s : String) : List String := Id.run do
  let mut toks : Array String := #[]
  let mut cur : String := ""
  let mut inq := false
  let mut esc := false
  for c in s.toList do
    if inq then
      cur := cur.push c
      if esc then esc := false
      else if c = '\\' then esc := true
      else if c = '"' then inq := false
    else if c = '"' then
      cur := cur.push c; inq := true
    else if c = '(' || c = ')' then
      if cur ≠ "" then toks := toks.push cur; cur := ""
      toks := toks.push (String.singleton c)
    else if c = ' ' || c = '\t' || c = '\n' || c = '\r' then
      if cur ≠ "" then toks := toks.push cur; cur := ""
    else cur := cur.push c
  if cur ≠ "" then toks := toks.push cur
  return toks.toList

/-- Parse a token list into a list of top-level expressions (stack machine, total). -/
private def parseToks (toks : List String) : Option (List SExp) := Id.run do
  -- stack of partially built lists, innermost first
  let mut stack : List (Array SExp) := [#[]]
  for t in toks do
    if t = "(" then stack := #[] :: stack
    else if t = ")" then
      match stack with
      | top :: next :: rest => stack := (next.push (.list top.toList)) :: rest
      | _ => return none
    else
      match stack with
      | top :: rest => stack := (top.push (.atom t)) :: rest
      | [] => return none
  match stack with
  | [top] => return some top.toList
  | _ => return none

def parseLine (s : String) : Option (List SExp) := parseToks (tokenize s)

partial def toStr : SExp → String
  | .atom s => s
  | .list xs => "(" ++ " ".intercalate (xs.map toStr) ++ ")"

instance : ToString SExp := ⟨toStr⟩

def atom? : SExp → Option String | .atom s => some s | _ => none
def list? : SExp → Option (List SExp) | .list xs => some xs | _ => none
def int? : SExp → Option Int | .atom s => s.toInt? | _ => none
def nat? : SExp → Option Nat | .atom s => s.toNat? | _ => none
/-- `N` is None, otherwise an integer. -/
def optInt? : SExp → Option (Option Int)
  | .atom "N" => some none
  | .atom s => s.toInt?.map some
  | _ => none
def bool? : SExp → Option Bool
  | .atom "1" => some true | .atom "0" => some false | _ => none
def atoms? : SExp → Option (List String)
  | .list xs => xs.mapM atom? | _ => none
def ints? : SExp → Option (List Int)
  | .list xs => xs.mapM int? | _ => none
def nats? : SExp → Option (List Nat)
  | .list xs => xs.mapM nat? | _ => none
def bools? : SExp → Option (List Bool)
  | .list xs => xs.mapM bool? | _ => none

def ofInts (l : List Int) : SExp := .list (l.map fun i => .atom (toString i))
def ofNats (l : List Nat) : SExp := .list (l.map fun i => .atom (toString i))
def ofAtoms (l : List String) : SExp := .list (l.map .atom)
def ofBool (b : Bool) : SExp := .atom (if b then "1" else "0")
def ofBools (l : List Bool) : SExp := .list (l.map ofBool)
def ofOptInt : Option Int → SExp | none => .atom "N" | some i => .atom (toString i)

end SExp

/-- Uniform answer of a driver op. -/
def answer (r : Except Err SExp) : String :=
  match r with
  | .ok e => "ok " ++ e.toStr
  | .error e => "err " ++ e.toString

/-! ### list helpers -/

/-- Select the elements of `l` at the given positions (in key order); `none` if one is out of range. -/
def selectAt {α} (l : List α) (ps : List Nat) : Option (List α) := ps.mapM (l[·]?)

/-- Total selection used in specs where positions are proved in range. -/
def pick {α} (l : List α) (ps : List Nat) : List α := ps.filterMap (l[·]?)

theorem pick_length_le {α} (l : List α) (ps : List Nat) : (pick l ps).length ≤ ps.length := by
  unfold pick; exact List.length_filterMap_le _ _

theorem pick_eq_map {α} (l : List α) (ps : List Nat) (h : ∀ p ∈ ps, p < l.length) :
    pick l ps = ps.attach.map (fun ⟨p, hp⟩ => l[p]'(h p hp)) := by
  unfold pick
  induction ps with
  | nil => simp
  | cons p ps ih =>
    have hp : p < l.length := h p (by simp)
    simp only [List.filterMap_cons, List.getElem?_eq_getElem hp, List.attach_cons, List.map_cons]
    congr 1
    rw [ih (fun q hq => h q (by simp [hq]))]
    simp [List.map_map, Function.comp_def]

theorem selectAt_eq_some_pick {α} (l : List α) (ps : List Nat) (h : ∀ p ∈ ps, p < l.length) :
    selectAt l ps = some (pick l ps) := by
  unfold selectAt pick
  induction ps with
  | nil => simp
  | cons p ps ih =>
    have hp : p < l.length := h p (by simp)
    simp [List.mapM_cons, List.getElem?_eq_getElem hp, ih (fun q hq => h q (by simp [hq]))]

end SF
