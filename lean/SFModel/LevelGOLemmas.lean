/-
  Helper lemmas for SFModel.Level, part 2: grow-only append / extend.
-/
import SFModel.LevelLemmas
set_option linter.unusedSectionVars false
set_option linter.unusedVariables false

namespace SF
namespace Level
variable {α : Type} [DecidableEq α] [IntLabel α]

theorem WF_setOffset (t : Level α) (d o : Nat) : WF d (t.setOffset o) ↔ WF d t := by
  cases t <;> simp [setOffset, WF]

@[simp] theorem tuples_setOffset (t : Level α) (o : Nat) : (t.setOffset o).tuples = t.tuples := by
  cases t <;> simp [setOffset, tuples]

@[simp] theorem len_setOffset (t : Level α) (o : Nat) : (t.setOffset o).len = t.len := by
  cases t <;> simp [setOffset, len]

theorem WFList_snoc (d : Nat) : ∀ (cs : List (Level α)) (acc : Nat) (c : Level α),
    WFList d acc (cs ++ [c]) ↔ WFList d acc cs ∧ c.offset = acc + lenList cs ∧ WF d c
  | [], acc, c => by simp [WFList, lenList]
  | c0 :: cs, acc, c => by
    simp only [List.cons_append, WFList, lenList, WFList_snoc d cs (acc + c0.len) c]
    constructor
    · rintro ⟨h1, h2, h3, h4, h5⟩; exact ⟨⟨h1, h2, h3⟩, by omega, h5⟩
    · rintro ⟨⟨h1, h2, h3⟩, h4, h5⟩; exact ⟨h1, h2, h3, by omega, h5⟩

theorem lenList_append : ∀ (a b : List (Level α)), lenList (a ++ b) = lenList a + lenList b
  | [], b => by simp [lenList]
  | c :: a, b => by simp [lenList, lenList_append a b]; omega

theorem tuplesZip_append : ∀ (ls1 : List α) (cs1 : List (Level α)) (ls2 : List α) (cs2 : List (Level α)),
    ls1.length = cs1.length → tuplesZip (ls1 ++ ls2) (cs1 ++ cs2) = tuplesZip ls1 cs1 ++ tuplesZip ls2 cs2
  | [], [], ls2, cs2, _ => by simp [tuplesZip]
  | [], _ :: _, _, _, h => by simp at h
  | _ :: _, [], _, _, h => by simp at h
  | l :: ls1, c :: cs1, ls2, cs2, h => by
    simp only [List.cons_append, tuplesZip, List.append_assoc]
    rw [tuplesZip_append ls1 cs1 ls2 cs2 (by simpa using h)]

theorem chain_offset : ∀ (key : List α), (chain key).offset = 0
  | [] => rfl
  | [k] => rfl
  | k :: k' :: rest => rfl

theorem chain_spec : ∀ (key : List α) (d : Nat), key.length = d → 1 ≤ d →
    WF d (chain key) ∧ (chain key).tuples = [key] ∧ (chain key).len = 1
  | [], d, h, h1 => by simp at h; omega
  | [k], d, h, h1 => by
    simp only [List.length_cons, List.length_nil] at h
    subst h
    simp [chain, WF, tuples, len]
  | k :: k' :: rest, d, h, h1 => by
    obtain ⟨h2, h3, h4⟩ := chain_spec (k' :: rest) (d - 1) (by simp at h ⊢; omega) (by simp at h; omega)
    simp only [chain, WF, tuples, len, tuplesZip, lenList, WFList, List.nodup_cons,
      List.not_mem_nil, not_false_eq_true, List.nodup_nil, List.length_cons, List.length_nil,
      and_true, true_and, h3, h4, chain_offset]
    exact ⟨⟨by simp at h; omega, h2⟩, by simp⟩

/-- last label of a node, the one whose target `node.targets[-1]` is -/
theorem tuplesZip_snoc_last : ∀ (ls : List α) (cs : List (Level α)) (l : α) (c : Level α),
    ls.length = cs.length → tuplesZip (ls ++ [l]) (cs ++ [c]) = tuplesZip ls cs ++ c.tuples.map (l :: ·) := by
  intro ls cs l c h
  rw [tuplesZip_append ls cs [l] [c] h]
  simp [tuplesZip]

theorem last_of_pos {init : List α} {l k : α} (hn : (init ++ [l]).Nodup)
    (h : pos? (init ++ [l]) k = some ((init ++ [l]).length - 1)) : l = k := by
  have := (pos?_eq_some_iff hn).mp h
  simp only [List.length_append, List.length_cons, List.length_nil, Nat.zero_add, Nat.add_sub_cancel] at this
  rw [List.getElem?_append_right (by omega)] at this
  simpa using this

mutual
/-- `append` as coded below the root: the tree stays well formed and exactly one tuple is added at
    the end — the key itself when the guard `appendOk` holds. -/
theorem appendPinnedGo_spec : ∀ (t : Level α) (d : Nat) (key : List α) (t' : Level α),
    WF d t → key.length = d → appendPinnedGo t key = .ok t' →
    WF d t' ∧ t'.offset = t.offset ∧ t'.len = t.len + 1 ∧
      ∃ stored, t'.tuples = t.tuples ++ [stored] ∧ (appendOk t key = true → stored = key)
  | .leaf ls off, d, key, t', hw, hl, h => by
    simp only [WF] at hw
    match key, hl with
    | [], hl => simp at hl; omega
    | k :: k' :: rest, hl => simp at hl; omega
    | [k], _ =>
      simp only [appendPinnedGo] at h
      by_cases hp : (pos? ls k).isSome = true
      · rw [if_pos hp] at h; cases h
      · rw [if_neg hp] at h
        simp only [Except.ok.injEq] at h
        subst h
        have hk : k ∉ ls := fun hm => hp (pos?_isSome_iff.mpr hm)
        refine ⟨⟨hw.1, ?_⟩, rfl, by simp [len], [k], by simp [tuples], fun _ => rfl⟩
        rw [List.nodup_append]
        exact ⟨hw.2, by simp, fun a ha b hb e => by simp at hb; subst hb; subst e; exact hk ha⟩
  | .node ls cs off, d, key, t', hw, hl, h => by
    simp only [WF] at hw
    match key, hl with
    | [], hl => simp at hl; omega
    | k :: rest, hl =>
      simp only [appendPinnedGo] at h
      by_cases hp : (pos? ls k).isSome = true
      · rw [if_pos hp] at h
        cases hc : appendPinnedLast cs rest with
        | error e => rw [hc] at h; cases h
        | ok cs' =>
          rw [hc] at h
          simp only [Except.ok.injEq] at h
          subst h
          obtain ⟨h1, h2, h3, stored, h4, h5⟩ := appendPinnedLast_spec cs (d - 1) 0 rest cs' hw.2.2.2
            (by simp at hl; omega) hc
          have hne : ls ≠ [] := by
            intro e; subst e; simp [pos?, AMap.get?] at hp
          obtain ⟨init, l, rfl⟩ : ∃ init l, ls = init ++ [l] := by
            rcases List.eq_nil_or_concat ls with e | ⟨init, l, e⟩
            · exact absurd e hne
            · exact ⟨init, l, by simpa using e⟩
          refine ⟨⟨hw.1, hw.2.1, by rw [h2]; exact hw.2.2.1, h1⟩, rfl, by simp only [len]; exact h3,
            l :: stored, ?_, ?_⟩
          · simp only [tuples]
            exact h4 init l (by simpa using hw.2.2.1)
          · intro hok
            simp only [appendOk, if_pos hp, Bool.and_eq_true, decide_eq_true_eq] at hok
            have : l = k := last_of_pos hw.2.1 (by simpa using hok.1)
            rw [this, h5 hok.2]
      · rw [if_neg hp] at h
        simp only [Except.ok.injEq] at h
        subst h
        have hk : k ∉ ls := fun hm => hp (pos?_isSome_iff.mpr hm)
        have hrl : rest.length = d - 1 := by simp at hl; omega
        obtain ⟨c1, c2, c3⟩ := chain_spec rest (d - 1) hrl (by omega)
        refine ⟨⟨hw.1, ?_, by simp [hw.2.2.1], ?_⟩, rfl, ?_, k :: rest, ?_, fun _ => rfl⟩
        · rw [List.nodup_append]
          exact ⟨hw.2.1, by simp, fun a ha b hb e => by simp at hb; subst hb; subst e; exact hk ha⟩
        · rw [WFList_snoc]
          exact ⟨hw.2.2.2, by simp, (WF_setOffset _ _ _).mpr c1⟩
        · simp only [len, lenList_append, lenList, len_setOffset, c3]
        · simp only [tuples]
          rw [tuplesZip_snoc_last ls cs k _ hw.2.2.1]
          simp [c2]
theorem appendPinnedLast_spec : ∀ (cs : List (Level α)) (d acc : Nat) (key : List α) (cs' : List (Level α)),
    WFList d acc cs → key.length = d → appendPinnedLast cs key = .ok cs' →
    WFList d acc cs' ∧ cs'.length = cs.length ∧ lenList cs' = lenList cs + 1 ∧
      ∃ stored, (∀ (ls : List α) (l : α), (ls ++ [l]).length = cs.length →
          tuplesZip (ls ++ [l]) cs' = tuplesZip (ls ++ [l]) cs ++ [l :: stored]) ∧
        (appendOkLast cs key = true → stored = key)
  | [], d, acc, key, cs', hw, hl, h => by simp [appendPinnedLast] at h
  | [c], d, acc, key, cs', hw, hl, h => by
    simp only [WFList] at hw
    simp only [appendPinnedLast] at h
    cases hc : appendPinnedGo c key with
    | error e => rw [hc] at h; cases h
    | ok c' =>
      rw [hc] at h
      simp only [Except.ok.injEq] at h
      subst h
      obtain ⟨h1, h2, h3, stored, h4, h5⟩ := appendPinnedGo_spec c d key c' hw.2.1 hl hc
      refine ⟨by simp [WFList, h1, h2, hw.1], rfl, by simp [lenList, h3], stored, ?_, ?_⟩
      · intro ls l hlen
        have : ls = [] := by
          cases ls with
          | nil => rfl
          | cons a as => simp at hlen
        subst this
        simp [tuplesZip, h4]
      · intro hok; simp only [appendOkLast] at hok; exact h5 hok
  | c :: c1 :: cs, d, acc, key, cs', hw, hl, h => by
    simp only [WFList] at hw
    simp only [appendPinnedLast] at h
    cases hc : appendPinnedLast (c1 :: cs) key with
    | error e => rw [hc] at h; cases h
    | ok r =>
      rw [hc] at h
      simp only [Except.ok.injEq] at h
      subst h
      obtain ⟨h1, h2, h3, stored, h4, h5⟩ := appendPinnedLast_spec (c1 :: cs) d (acc + c.len) key r
        (by simp only [WFList]; exact hw.2.2) hl hc
      refine ⟨by simp only [WFList]; exact ⟨hw.1, hw.2.1, h1⟩, by simp [h2], by simp only [lenList] at h3 ⊢; omega,
        stored, ?_, ?_⟩
      · intro ls l hlen
        cases ls with
        | nil => simp at hlen
        | cons a as =>
          simp only [List.cons_append, tuplesZip, List.append_assoc]
          rw [h4 as l (by simpa using hlen)]
      · intro hok; simp only [appendOkLast] at hok; exact h5 hok
end

theorem appendPinned_spec {t : Level α} {d : Nat} {key : List α} {t' : Level α}
    (hw : WF d t) (h : t.appendPinned d key = .ok t') (hne : t.labels ≠ []) :
    key.length = d ∧ WF d t' ∧ t'.offset = t.offset ∧ t'.len = t.len + 1 ∧
      ∃ stored, t'.tuples = t.tuples ++ [stored] ∧ (appendOk t key = true → stored = key) := by
  unfold appendPinned at h
  by_cases hl : key.length = d
  · rw [if_neg (by simpa using hl)] at h
    have : t.labels.isEmpty = false := by simpa using hne
    simp only [this] at h
    exact ⟨hl, appendPinnedGo_spec t d key t' hw hl h⟩
  · rw [if_pos (by simpa using hl)] at h; cases h

/-! #### extend -/

theorem extendDup_false_iff (cur : List α) : ∀ (as obs : List α),
    extendDup cur as obs = false ↔ as.Nodup ∧ (∀ a ∈ as, a ∉ cur) ∧ (∀ a ∈ as, a ∉ obs)
  | [], obs => by simp [extendDup]
  | a :: as, obs => by
    have ih := extendDup_false_iff cur as (obs ++ [a])
    have hc : (pos? cur a).isSome = false ↔ a ∉ cur := by
      rw [← pos?_isSome_iff (ls := cur) (k := a)]; simp
    simp only [extendDup, Bool.or_eq_false_iff, ih, hc, List.contains_eq_mem, decide_eq_false_iff_not,
      List.nodup_cons, List.mem_cons, List.mem_append]
    grind

theorem extendLabels_disjoint (cur new : List α) (hn : new.Nodup) (hd : ∀ a ∈ new, a ∉ cur) :
    extendLabels cur new = (cur ++ new, none) := by
  unfold extendLabels
  have := (extendDup_false_iff cur new []).mpr ⟨hn, hd, by simp⟩
  simp [this]

/-- a rejected `extend` of the node index leaves the labels as they were -/
theorem extendLabels_rejected (cur new : List α) (e : Err) (h : (extendLabels cur new).2 = some e) :
    (extendLabels cur new).1 = cur := by
  unfold extendLabels at h ⊢
  split
  · rfl
  · rename_i hf; simp [hf] at h

theorem reoffset_spec (d : Nat) : ∀ (cs : List (Level α)) (acc0 acc : Nat), WFList d acc0 cs →
    WFList d acc (reoffset cs acc) ∧ (reoffset cs acc).length = cs.length ∧
      lenList (reoffset cs acc) = lenList cs ∧ ∀ ls, tuplesZip ls (reoffset cs acc) = tuplesZip ls cs
  | [], acc0, acc, h => by simp [reoffset, WFList, lenList]
  | c :: cs, acc0, acc, h => by
    simp only [WFList] at h
    obtain ⟨h1, h2, h3, h4⟩ := reoffset_spec d cs (acc0 + c.len) (acc + c.len) h.2.2
    simp only [reoffset, WFList, offset_setOffset, len_setOffset, WF_setOffset, lenList, List.length_cons]
    refine ⟨⟨trivial, h.2.1, h1⟩, by omega, by omega, ?_⟩
    intro ls
    cases ls with
    | nil => simp [tuplesZip]
    | cons l ls => simp [tuplesZip, h4 ls]

/-- `extend` with a well-formed level of the same depth whose outer labels are new: the tuples of
    the other level are appended. -/
theorem extend_spec {t other : Level α} {d : Nat} (hw : WF d t) (ho : WF d other) (hd2 : 2 ≤ d)
    (hdepth : t.depth = other.depth) (hdis : ∀ a ∈ other.labels, a ∉ t.labels) :
    ∃ t', t.extend other = (t', none) ∧ WF d t' ∧ t'.offset = t.offset ∧
      t'.tuples = t.tuples ++ other.tuples ∧ t'.len = t.len + other.len := by
  cases other with
  | leaf ls2 o2 => simp only [WF] at ho; omega
  | node ls2 cs2 o2 =>
    cases t with
    | leaf ls o => simp only [WF] at hw; omega
    | node ls cs o =>
      simp only [WF] at hw ho
      simp only [labels] at hdis
      simp only [extend, if_neg (by simpa using hdepth : ¬ (node ls cs o).depth ≠ (node ls2 cs2 o2).depth)]
      rw [extendLabels_disjoint ls ls2 ho.2.1 hdis]
      simp only
      obtain ⟨h1, h2, h3, h4⟩ := reoffset_spec (d - 1) cs2 0 (lenList cs) ho.2.2.2
      refine ⟨_, rfl, ⟨hw.1, ?_, by simp [hw.2.2.1, ho.2.2.1, h2], ?_⟩, rfl, ?_, ?_⟩
      · rw [List.nodup_append]
        exact ⟨hw.2.1, ho.2.1, fun a ha b hb e => hdis b hb (e ▸ ha)⟩
      · clear h3 h4 h2
        have : ∀ (xs ys : List (Level α)) (acc : Nat), WFList (d - 1) acc xs → WFList (d - 1) (acc + lenList xs) ys →
            WFList (d - 1) acc (xs ++ ys) := by
          intro xs
          induction xs with
          | nil => intro ys acc _ h; simpa [lenList] using h
          | cons x xs ih =>
            intro ys acc hx hy
            simp only [WFList, lenList, List.cons_append] at hx hy ⊢
            exact ⟨hx.1, hx.2.1, ih ys _ hx.2.2 (by rw [Nat.add_assoc]; exact hy)⟩
        exact this cs _ 0 hw.2.2.2 (by simpa using h1)
      · simp only [tuples]
        rw [tuplesZip_append ls cs ls2 _ hw.2.2.1, h4]
      · simp only [len, lenList_append]
        omega

/-- an `extend` that raises leaves the tree (of depth ≥ 2) as it was -/
theorem extend_rejected_unchanged {t : Level α} {d : Nat} (hw : WF d t) (hd2 : 2 ≤ d) (other : Level α)
    (e : Err) (h : (t.extend other).2 = some e) : (t.extend other).1 = t := by
  cases t with
  | leaf ls o => simp only [WF] at hw; omega
  | node ls cs o =>
    unfold extend at h ⊢
    cases other with
    | leaf ls2 o2 => rfl
    | node ls2 cs2 o2 =>
      simp only at h ⊢
      split
      · rfl
      · rename_i hd
        simp only [hd, if_false] at h
        cases hr : (extendLabels ls ls2).2 with
        | some e' =>
          simp only [hr]
          rw [extendLabels_rejected ls ls2 e' hr]
        | none => rw [hr] at h; simp at h

/-- an `extend` that does not raise was given outer labels that are all new -/
theorem extend_none_disjoint {t other : Level α} (h : (t.extend other).2 = none) :
    ∀ a ∈ other.labels, a ∉ t.labels := by
  unfold extend at h
  cases other with
  | leaf ls2 o2 => simp at h
  | node ls2 cs2 o2 =>
    simp only at h
    split at h
    · simp at h
    · cases t with
      | leaf ls o => simp at h
      | node ls cs o =>
        simp only at h
        cases hr : (extendLabels ls ls2).2 with
        | some e' => simp [hr] at h
        | none =>
          unfold extendLabels at hr
          split at hr
          · simp at hr
          · rename_i hf
            have := (extendDup_false_iff ls ls2 []).mp (by simpa using hf)
            simpa [labels] using this.2.1

/-! #### a guarded append fails only for a key that is already held -/

theorem mem_tuplesZip_snoc_last {ls : List α} {cs : List (Level α)} {l : α} {c : Level α} {rest : List α}
    (hlen : ls.length = cs.length) (h : rest ∈ c.tuples) : (l :: rest) ∈ tuplesZip (ls ++ [l]) (cs ++ [c]) := by
  rw [tuplesZip_snoc_last ls cs l c hlen]
  simp [h]

mutual
theorem appendPinnedGo_error_mem : ∀ (t : Level α) (d : Nat) (key : List α) (e : Err),
    WF d t → key.length = d → appendOk t key = true → appendPinnedGo t key = .error e → key ∈ t.tuples
  | .leaf ls off, d, key, e, hw, hl, hok, h => by
    simp only [WF] at hw
    match key, hl with
    | [], hl => simp at hl; omega
    | k :: k' :: rest, hl => simp at hl; omega
    | [k], _ =>
      simp only [appendPinnedGo] at h
      by_cases hp : (pos? ls k).isSome = true
      · simp only [tuples, List.mem_map, List.cons.injEq, and_true, exists_eq_right]
        exact pos?_isSome_iff.mp hp
      · rw [if_neg hp] at h; cases h
  | .node ls cs off, d, key, e, hw, hl, hok, h => by
    simp only [WF] at hw
    match key, hl with
    | [], hl => simp at hl; omega
    | k :: rest, hl =>
      simp only [appendPinnedGo] at h
      by_cases hp : (pos? ls k).isSome = true
      · rw [if_pos hp] at h
        simp only [appendOk, if_pos hp, Bool.and_eq_true, decide_eq_true_eq] at hok
        cases hc : appendPinnedLast cs rest with
        | ok cs' => rw [hc] at h; cases h
        | error e' =>
          have hne : ls ≠ [] := by
            intro e; subst e; simp [pos?, AMap.get?] at hp
          obtain ⟨init, l, rfl⟩ : ∃ init l, ls = init ++ [l] := by
            rcases List.eq_nil_or_concat ls with e | ⟨init, l, e⟩
            · exact absurd e hne
            · exact ⟨init, l, by simpa using e⟩
          have hl' : l = k := last_of_pos hw.2.1 (by simpa using hok.1)
          subst hl'
          have hcs : cs ≠ [] := by
            intro e; subst e; simp at hw
          obtain ⟨cinit, c, rfl⟩ : ∃ cinit c, cs = cinit ++ [c] := by
            rcases List.eq_nil_or_concat cs with e | ⟨cinit, c, e⟩
            · exact absurd e hcs
            · exact ⟨cinit, c, by simpa using e⟩
          have := appendPinnedLast_error_mem (cinit ++ [c]) (d - 1) 0 rest e' hw.2.2.2 (by simp at hl; omega) hok.2 hc
          simp only [tuples]
          apply mem_tuplesZip_snoc_last (by simpa using hw.2.2.1)
          simpa using this
      · rw [if_neg hp] at h; cases h
theorem appendPinnedLast_error_mem : ∀ (cs : List (Level α)) (d acc : Nat) (key : List α) (e : Err),
    WFList d acc cs → key.length = d → appendOkLast cs key = true → appendPinnedLast cs key = .error e →
    ∀ c ∈ cs.getLast?, key ∈ c.tuples
  | [], d, acc, key, e, hw, hl, hok, h => by simp
  | [c], d, acc, key, e, hw, hl, hok, h => by
    simp only [WFList] at hw
    simp only [appendPinnedLast] at h
    simp only [appendOkLast] at hok
    cases hc : appendPinnedGo c key with
    | ok c' => rw [hc] at h; cases h
    | error e' =>
      intro c0 hc0
      simp at hc0; subst hc0
      exact appendPinnedGo_error_mem c d key e' hw.2.1 hl hok hc
  | c :: c1 :: cs, d, acc, key, e, hw, hl, hok, h => by
    simp only [WFList] at hw
    simp only [appendPinnedLast] at h
    simp only [appendOkLast] at hok
    cases hc : appendPinnedLast (c1 :: cs) key with
    | ok r => rw [hc] at h; cases h
    | error e' =>
      have := appendPinnedLast_error_mem (c1 :: cs) d (acc + c.len) key e'
        (by simp only [WFList]; exact hw.2.2) hl hok hc
      intro c0 hc0
      apply this
      simpa [List.getLast?_cons_cons] using hc0
end

/-! #### the repaired append: the pinned descent under its guard -/

mutual
theorem appendGo_pinned : ∀ (t : Level α) (key : List α) (t' : Level α), appendGo t key = .ok t' →
    appendOk t key = true ∧ appendPinnedGo t key = .ok t'
  | .leaf ls off, key, t', h => by
    match key, h with
    | [], h => simp [appendGo] at h
    | [k], h => exact ⟨rfl, by simpa [appendGo, appendPinnedGo] using h⟩
    | _ :: _ :: _, h => simp [appendGo] at h
  | .node ls cs off, [], t', h => by simp [appendGo] at h
  | .node ls cs off, k :: rest, t', h => by
    simp only [appendGo] at h
    simp only [appendOk, appendPinnedGo]
    by_cases hp : (pos? ls k).isSome = true
    · rw [if_pos hp] at h
      rw [if_pos hp, if_pos hp]
      by_cases hlast : pos? ls k = some (ls.length - 1)
      · rw [if_neg (by simpa using hlast)] at h
        cases hc : appendLast cs rest with
        | error e => rw [hc] at h; cases h
        | ok cs' =>
          rw [hc] at h
          obtain ⟨h1, h2⟩ := appendLast_pinned cs rest cs' hc
          simp only [h2]
          exact ⟨by simp [hlast, h1], h⟩
      · rw [if_pos hlast] at h; cases h
    · rw [if_neg hp] at h
      rw [if_neg hp, if_neg hp]
      exact ⟨rfl, h⟩
theorem appendLast_pinned : ∀ (cs : List (Level α)) (key : List α) (cs' : List (Level α)),
    appendLast cs key = .ok cs' → appendOkLast cs key = true ∧ appendPinnedLast cs key = .ok cs'
  | [], key, cs', h => by simp [appendLast] at h
  | [c], key, cs', h => by
    simp only [appendLast] at h
    simp only [appendOkLast, appendPinnedLast]
    cases hc : appendGo c key with
    | error e => rw [hc] at h; cases h
    | ok c' =>
      rw [hc] at h
      obtain ⟨h1, h2⟩ := appendGo_pinned c key c' hc
      simp only [h2]
      exact ⟨h1, h⟩
  | c :: c1 :: cs, key, cs', h => by
    simp only [appendLast] at h
    simp only [appendOkLast, appendPinnedLast]
    cases hc : appendLast (c1 :: cs) key with
    | error e => rw [hc] at h; cases h
    | ok r =>
      rw [hc] at h
      obtain ⟨h1, h2⟩ := appendLast_pinned (c1 :: cs) key r hc
      simp only [h2]
      exact ⟨h1, h⟩
end

mutual
theorem appendGo_of_ok : ∀ (t : Level α) (key : List α), appendOk t key = true →
    appendGo t key = appendPinnedGo t key
  | .leaf ls off, key, h => by
    match key with
    | [] => simp [appendGo, appendPinnedGo]
    | [k] => simp [appendGo, appendPinnedGo]
    | _ :: _ :: _ => simp [appendGo, appendPinnedGo]
  | .node ls cs off, [], h => by simp [appendGo, appendPinnedGo]
  | .node ls cs off, k :: rest, h => by
    simp only [appendGo, appendPinnedGo]
    simp only [appendOk] at h
    by_cases hp : (pos? ls k).isSome = true
    · rw [if_pos hp] at h
      simp only [Bool.and_eq_true, beq_iff_eq] at h
      rw [if_pos hp, if_pos hp, if_neg (by simpa using h.1), appendLast_of_ok cs rest h.2]
    · rw [if_neg hp, if_neg hp]
theorem appendLast_of_ok : ∀ (cs : List (Level α)) (key : List α), appendOkLast cs key = true →
    appendLast cs key = appendPinnedLast cs key
  | [], key, h => by simp [appendLast, appendPinnedLast]
  | [c], key, h => by
    simp only [appendOkLast] at h
    simp only [appendLast, appendPinnedLast, appendGo_of_ok c key h]
  | c :: c1 :: cs, key, h => by
    simp only [appendOkLast] at h
    simp only [appendLast, appendPinnedLast, appendLast_of_ok (c1 :: cs) key h]
end

theorem tuples_of_empty {t : Level α} {d : Nat} (hw : WF d t) (he : t.labels = []) : t.tuples = [] := by
  cases t with
  | leaf ls o => simp only [labels] at he; subst he; simp [tuples]
  | node ls cs o =>
    simp only [labels] at he; subst he
    simp only [WF] at hw
    have : cs = [] := by
      have := hw.2.2.1; simp at this; exact List.eq_nil_of_length_eq_zero this.symm
    subst this; simp [tuples, tuplesZip]

/-- The repaired `append` stores exactly the key it is given, or raises and changes nothing. -/
theorem append_spec {t : Level α} {d : Nat} {key : List α} {t' : Level α} (hd : 1 ≤ d)
    (hw : WF d t) (h : t.append d key = .ok t') :
    key.length = d ∧ WF d t' ∧ t'.tuples = t.tuples ++ [key] ∧ key ∉ t.tuples ∧
      (t.labels ≠ [] → appendOk t key = true) := by
  unfold append at h
  by_cases hl : key.length = d
  · rw [if_neg (by simpa using hl)] at h
    by_cases hne : t.labels = []
    · simp only [hne, List.isEmpty_nil, if_true, Except.ok.injEq] at h
      subst h
      obtain ⟨c1, c2, _⟩ := chain_spec key d hl hd
      rw [tuples_of_empty hw hne]
      exact ⟨hl, c1, by simp [c2], by simp, fun hh => absurd hne hh⟩
    · have : t.labels.isEmpty = false := by simpa using hne
      simp only [this] at h
      obtain ⟨hok, hp⟩ := appendGo_pinned t key t' h
      obtain ⟨h1, _, _, stored, h2, h3⟩ := appendPinnedGo_spec t d key t' hw hl hp
      have hs := h3 hok
      subst hs
      have hnd := tuples_nodup _ d h1
      rw [h2, List.nodup_append] at hnd
      exact ⟨hl, h1, h2, fun hm => hnd.2.2 stored hm stored (by simp) rfl, fun _ => hok⟩
  · rw [if_pos (by simpa using hl)] at h; cases h

theorem append_ok_iff {t : Level α} {d : Nat} (hd : 1 ≤ d) (hw : WF d t) (key : List α) :
    (∃ t', t.append d key = .ok t') ↔ accepts t d key = true := by
  constructor
  · rintro ⟨t', h⟩
    obtain ⟨h1, _, _, h4, h5⟩ := append_spec hd hw h
    simp only [accepts, Bool.and_eq_true, decide_eq_true_eq, Bool.not_eq_true', Bool.or_eq_true,
      List.contains_eq_mem, decide_eq_false_iff_not, List.isEmpty_iff]
    refine ⟨⟨h1, h4⟩, ?_⟩
    by_cases hne : t.labels = []
    · exact Or.inl hne
    · exact Or.inr (h5 hne)
  · intro h
    simp only [accepts, Bool.and_eq_true, decide_eq_true_eq, Bool.not_eq_true', Bool.or_eq_true,
      List.contains_eq_mem, decide_eq_false_iff_not, List.isEmpty_iff] at h
    obtain ⟨⟨h1, h2⟩, h3⟩ := h
    unfold append
    rw [if_neg (by simpa using h1)]
    by_cases hne : t.labels = []
    · simp [hne]
    · have : t.labels.isEmpty = false := by simpa using hne
      simp only [this]
      have hok : appendOk t key = true := by
        rcases h3 with h3 | h3
        · exact absurd h3 hne
        · exact h3
      cases hr : appendGo t key with
      | ok t' => exact ⟨t', rfl⟩
      | error e =>
        rw [appendGo_of_ok t key hok] at hr
        exact absurd (appendPinnedGo_error_mem t d key e hw h1 hok hr) h2

theorem stepGO_spec {t : Level α} {d : Nat} (hd : 2 ≤ d) (hw : WF d t) (op : LOp α)
    (ha : admissible d t op) :
    WF d (t.stepGO d op) ∧ (t.stepGO d op).tuples = t.tuples ++ added t d op := by
  cases op with
  | append key =>
    simp only [stepGO, added]
    cases happ : t.append d key with
    | ok t' =>
      obtain ⟨_, h1, h2, _, _⟩ := append_spec (by omega) hw happ
      have : accepts t d key = true := (append_ok_iff (by omega) hw key).mp ⟨t', happ⟩
      simp only [this, if_true]
      exact ⟨h1, h2⟩
    | error e =>
      have : accepts t d key = false := by
        cases hacc : accepts t d key with
        | false => rfl
        | true =>
          obtain ⟨t', ht⟩ := (append_ok_iff (by omega) hw key).mpr hacc
          rw [happ] at ht; cases ht
      simp [this, hw]
  | extend other =>
    simp only [admissible] at ha
    obtain ⟨t', h1, h2, _, h3, _⟩ := extend_spec hw ha.1 hd ha.2.1 ha.2.2
    simp only [stepGO, added, h1]
    exact ⟨h2, h3⟩

theorem runGO_spec {d : Nat} (hd : 2 ≤ d) : ∀ (ops : List (LOp α)) (t : Level α), WF d t → Admissible d t ops →
    WF d (t.runGO d ops) ∧ (t.runGO d ops).tuples = t.tuples ++ addedAll t d ops
  | [], t, hw, _ => by simp [runGO, addedAll, hw]
  | op :: ops, t, hw, ha => by
    simp only [Admissible] at ha
    obtain ⟨h1, h2⟩ := stepGO_spec hd hw op ha.1
    obtain ⟨h3, h4⟩ := runGO_spec hd ops (t.stepGO d op) h1 ha.2
    have : t.runGO d (op :: ops) = (t.stepGO d op).runGO d ops := by unfold runGO; rfl
    rw [this]
    refine ⟨h3, ?_⟩
    rw [h4, h2]; simp [addedAll]

end Level
end SF
