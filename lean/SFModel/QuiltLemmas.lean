/-
  Helper lemmas for Props/C19: Boolean-mask selection over concatenated segments, the axis map of a
  Bus, `duplicate_filter` / tree-form of block-structured label sequences, Batch loops.
-/
import SFModel.Quilt
import SFModel.Props.C04

namespace SF.Quilt
open SF

variable {L α β : Type}

/-! ### maskSelect -/

@[simp] theorem maskSelect_nil_left (s : List Bool) : maskSelect ([] : List β) s = [] := by
  cases s <;> simp [maskSelect]

@[simp] theorem maskSelect_nil_right (l : List β) : maskSelect l [] = [] := by
  cases l <;> simp [maskSelect]

@[simp] theorem maskSelect_cons_true (x : β) (xs : List β) (bs : List Bool) :
    maskSelect (x :: xs) (true :: bs) = x :: maskSelect xs bs := by simp [maskSelect]

@[simp] theorem maskSelect_cons_false (x : β) (xs : List β) (bs : List Bool) :
    maskSelect (x :: xs) (false :: bs) = maskSelect xs bs := by simp [maskSelect]

theorem maskSelect_append (l1 l2 : List β) (s1 s2 : List Bool) (h : l1.length = s1.length) :
    maskSelect (l1 ++ l2) (s1 ++ s2) = maskSelect l1 s1 ++ maskSelect l2 s2 := by
  induction l1 generalizing s1 with
  | nil =>
    cases s1 with
    | nil => simp
    | cons _ _ => simp at h
  | cons x xs ih =>
    cases s1 with
    | nil => simp at h
    | cons b bs =>
      have h' : xs.length = bs.length := by simpa using h
      cases b <;> simp [ih bs h']

theorem maskSelect_map {γ : Type} (f : β → γ) (l : List β) (s : List Bool) :
    maskSelect (l.map f) s = (maskSelect l s).map f := by
  induction l generalizing s with
  | nil => simp
  | cons x xs ih =>
    cases s with
    | nil => simp
    | cons b bs => cases b <;> simp [ih]

theorem maskSelect_all_false (l : List β) (s : List Bool) (h : ∀ b ∈ s, b = false) : maskSelect l s = [] := by
  induction l generalizing s with
  | nil => simp
  | cons x xs ih =>
    cases s with
    | nil => simp
    | cons b bs =>
      have hb : b = false := h b (by simp)
      subst hb
      simp [ih bs (fun c hc => h c (by simp [hc]))]

theorem maskSelect_sublist (l : List β) (s : List Bool) : (maskSelect l s).Sublist l := by
  induction l generalizing s with
  | nil => simp
  | cons x xs ih =>
    cases s with
    | nil => simp
    | cons b bs =>
      cases b
      · simpa using (ih bs).cons x
      · simpa using (ih bs).cons_cons x

theorem maskSelect_replicate (n : Nat) (b : β) (s : List Bool) (h : s.length = n) :
    maskSelect (List.replicate n b) s = List.replicate (s.count true) b := by
  induction n generalizing s with
  | zero => cases s <;> simp_all
  | succ n ih =>
    cases s with
    | nil => simp at h
    | cons c cs =>
      have h' : cs.length = n := by simpa using h
      cases c <;> simp [List.replicate_succ, ih cs h']

/-! ### maskOf and pick -/

theorem maskOf_succ (n : Nat) (ps : List Nat) :
    maskOf (n + 1) ps = ps.contains 0 :: (List.range n).map (fun i => ps.contains (i + 1)) := by
  simp [maskOf, List.range_succ_eq_map, List.map_map, Function.comp_def]

theorem maskOf_length (n : Nat) (ps : List Nat) : (maskOf n ps).length = n := by simp [maskOf]

theorem contains_succ_of_pos (qs : List Nat) (h : ∀ q ∈ qs, 0 < q) (i : Nat) :
    qs.contains (i + 1) = (qs.map (· - 1)).contains i := by
  induction qs with
  | nil => simp
  | cons q qs ih =>
    have hq : 0 < q := h q (by simp)
    have ih' := ih (fun r hr => h r (by simp [hr]))
    have e : (i + 1 == q) = (i == q - 1) := by
      by_cases hh : i + 1 = q
      · have h2 : i = q - 1 := by omega
        rw [beq_iff_eq.mpr hh, beq_iff_eq.mpr h2]
      · have h2 : ¬ i = q - 1 := by omega
        rw [beq_eq_false_iff_ne.mpr hh, beq_eq_false_iff_ne.mpr h2]
    rw [List.contains_cons, List.map_cons, List.contains_cons, ih', e]

theorem pick_cons_of_pos (x : β) (xs : List β) (qs : List Nat) (h : ∀ q ∈ qs, 0 < q) :
    pick (x :: xs) qs = pick xs (qs.map (· - 1)) := by
  induction qs with
  | nil => simp [pick]
  | cons q qs ih =>
    have hq : 0 < q := h q (by simp)
    have ih' := ih (fun r hr => h r (by simp [hr]))
    unfold pick at ih' ⊢
    obtain ⟨k, rfl⟩ : ∃ k, q = k + 1 := ⟨q - 1, by omega⟩
    simp [List.filterMap_cons, ih']

/-- Selecting strictly ascending positions is selecting by the Boolean mask that holds `true` exactly there. -/
theorem pick_eq_maskSelect (l : List β) (ps : List Nat) (hasc : ps.Pairwise (· < ·)) (hr : ∀ p ∈ ps, p < l.length) :
    pick l ps = maskSelect l (maskOf l.length ps) := by
  induction l generalizing ps with
  | nil =>
    cases ps with
    | nil => simp [pick, maskOf]
    | cons p _ => exact absurd (hr p (by simp)) (by simp)
  | cons x xs ih =>
    rw [List.length_cons, maskOf_succ]
    cases ps with
    | nil =>
      have := ih [] (by simp) (by simp)
      simp only [pick, List.filterMap_nil] at this ⊢
      simp [maskOf] at this ⊢
      exact this
    | cons p ps' =>
      have hp' : ∀ q ∈ ps', p < q := (List.pairwise_cons.mp hasc).1
      have hasc' : ps'.Pairwise (· < ·) := (List.pairwise_cons.mp hasc).2
      by_cases hp : p = 0
      · subst hp
        have hpos : ∀ q ∈ ps', 0 < q := hp'
        have hmap : (List.range xs.length).map (fun i => (0 :: ps').contains (i + 1))
            = maskOf xs.length (ps'.map (· - 1)) := by
          unfold maskOf
          apply List.map_congr_left
          intro i _
          rw [List.contains_cons, contains_succ_of_pos ps' hpos i]
          simp
        have hasc'' : (ps'.map (· - 1)).Pairwise (· < ·) := by
          rw [List.pairwise_map]
          apply hasc'.imp_of_mem
          intro a b ha hb hab
          have := hpos a ha; have := hpos b hb; omega
        have hr'' : ∀ q ∈ ps'.map (· - 1), q < xs.length := by
          intro q hq
          obtain ⟨r, hr1, rfl⟩ := List.mem_map.mp hq
          have h1 := hr r (by simp [hr1]); have h2 := hpos r hr1
          simp only [List.length_cons] at h1; omega
        have e1 : pick (x :: xs) (0 :: ps') = x :: pick (x :: xs) ps' := by simp [pick]
        rw [e1, pick_cons_of_pos x xs ps' hpos, ih _ hasc'' hr'', hmap]
        simp
      · have hpos : ∀ q ∈ p :: ps', 0 < q := by
          intro q hq
          rcases List.mem_cons.mp hq with rfl | hq
          · omega
          · have := hp' q hq; omega
        have hmap : (List.range xs.length).map (fun i => (p :: ps').contains (i + 1))
            = maskOf xs.length ((p :: ps').map (· - 1)) := by
          unfold maskOf
          apply List.map_congr_left
          intro i _
          exact contains_succ_of_pos (p :: ps') hpos i
        have hasc'' : ((p :: ps').map (· - 1)).Pairwise (· < ·) := by
          rw [List.pairwise_map]
          apply hasc.imp_of_mem
          intro a b ha hb hab
          have := hpos a ha; have := hpos b hb; omega
        have hr'' : ∀ q ∈ (p :: ps').map (· - 1), q < xs.length := by
          intro q hq
          obtain ⟨r, hr1, rfl⟩ := List.mem_map.mp hq
          have h1 := hr r hr1; have h2 := hpos r hr1
          simp only [List.length_cons] at h1; omega
        have h0 : (p :: ps').contains 0 = false := by
          rw [List.contains_eq_mem]
          simp only [decide_eq_false_iff_not]
          intro hmem
          exact absurd (hpos 0 hmem) (by omega)
        rw [pick_cons_of_pos x xs (p :: ps') hpos, ih _ hasc'' hr'', hmap, h0]
        simp

/-! ### the axis map of a Bus and its segments -/

def axisMapOf (bus : Bus L α) : List (L × L) := bus.flatMap (fun p => p.2.labels.map (fun l => (p.1, l)))

/-- `sel` cut into one segment per member. -/
def segs : Bus L α → List Bool → List (List Bool)
  | [], _ => []
  | p :: rest, sel => sel.take p.2.labels.length :: segs rest (sel.drop p.2.labels.length)

theorem flatMap_congr_mem {γ δ : Type} (l : List γ) (f g : γ → List δ) (h : ∀ x ∈ l, f x = g x) :
    l.flatMap f = l.flatMap g := by
  induction l with
  | nil => simp
  | cons x xs ih =>
    simp only [List.flatMap_cons]
    rw [h x (by simp), ih (fun y hy => h y (by simp [hy]))]

variable [DecidableEq L]

theorem selComponent_append (am1 am2 : List (L × L)) (s1 s2 : List Bool) (b : L) (h : am1.length = s1.length) :
    selComponent (am1 ++ am2) (s1 ++ s2) b = selComponent am1 s1 b ++ selComponent am2 s2 b := by
  induction am1 generalizing s1 with
  | nil =>
    cases s1 with
    | nil => simp [selComponent]
    | cons _ _ => simp at h
  | cons p ps ih =>
    cases s1 with
    | nil => simp at h
    | cons c cs =>
      have h' : ps.length = cs.length := by simpa using h
      simp only [List.cons_append, selComponent]
      split <;> simp [ih cs h']

theorem selComponent_all (am : List (L × L)) (s : List Bool) (b : L) (h : ∀ p ∈ am, p.1 = b)
    (hl : am.length = s.length) : selComponent am s b = s := by
  induction am generalizing s with
  | nil => cases s <;> simp_all [selComponent]
  | cons p ps ih =>
    cases s with
    | nil => simp at hl
    | cons c cs =>
      have hp : p.1 = b := h p (by simp)
      simp [selComponent, hp, ih cs (fun q hq => h q (by simp [hq])) (by simpa using hl)]

theorem selComponent_none (am : List (L × L)) (s : List Bool) (b : L) (h : ∀ p ∈ am, p.1 ≠ b) :
    selComponent am s b = [] := by
  induction am generalizing s with
  | nil => cases s <;> simp [selComponent]
  | cons p ps ih =>
    cases s with
    | nil => simp [selComponent]
    | cons c cs =>
      have hp : p.1 ≠ b := h p (by simp)
      simp [selComponent, hp, ih cs (fun q hq => h q (by simp [hq]))]

omit [DecidableEq L] in
theorem axisMapOf_cons (p : L × MFrame L L α) (rest : Bus L α) :
    axisMapOf (p :: rest) = p.2.labels.map (fun l => (p.1, l)) ++ axisMapOf rest := by
  simp [axisMapOf]

omit [DecidableEq L] in
theorem mem_axisMapOf {bus : Bus L α} {x : L × L} (h : x ∈ axisMapOf bus) : x.1 ∈ bus.map (·.1) := by
  simp only [axisMapOf, List.mem_flatMap, List.mem_map] at h ⊢
  obtain ⟨p, hp, l, _, rfl⟩ := h
  exact ⟨p, hp, rfl⟩

/-- `sel[axis_map.index._loc_to_iloc(HLoc[b])]` is the segment of `sel` that lies over member `b`. -/
theorem selComponent_eq_segs (bus : Bus L α) (sel : List Bool) (hnd : (bus.map (·.1)).Nodup)
    (hl : sel.length = (axisMapOf bus).length) :
    bus.map (fun p => selComponent (axisMapOf bus) sel p.1) = segs bus sel := by
  induction bus generalizing sel with
  | nil => simp [segs]
  | cons p rest ih =>
    have hnd' : (rest.map (·.1)).Nodup := (List.nodup_cons.mp (by simpa using hnd)).2
    have hnot : p.1 ∉ rest.map (·.1) := (List.nodup_cons.mp (by simpa using hnd)).1
    rw [axisMapOf_cons] at hl ⊢
    have hsplit : sel = sel.take p.2.labels.length ++ sel.drop p.2.labels.length :=
      (List.take_append_drop p.2.labels.length sel).symm
    have hlen1 : (p.2.labels.map (fun l => (p.1, l))).length = (sel.take p.2.labels.length).length := by
      simp only [List.length_map, List.length_take]
      simp only [List.length_append, List.length_map] at hl
      omega
    have hlen2 : (sel.drop p.2.labels.length).length = (axisMapOf rest).length := by
      simp only [List.length_drop]
      simp only [List.length_append, List.length_map] at hl
      omega
    simp only [List.map_cons, segs]
    congr 1
    · rw [hsplit, selComponent_append _ _ _ _ _ hlen1]
      rw [selComponent_all _ _ _ (by intro q hq; obtain ⟨l, _, rfl⟩ := List.mem_map.mp hq; rfl) hlen1]
      rw [selComponent_none (axisMapOf rest) _ p.1 (by
        intro q hq heq
        exact hnot (heq ▸ mem_axisMapOf hq))]
      simp [← hsplit]
    · rw [← ih (sel.drop p.2.labels.length) hnd' hlen2]
      apply List.map_congr_left
      intro q hq
      have hne : p.1 ≠ q.1 := by
        intro heq
        exact hnot (heq ▸ List.mem_map_of_mem (f := (·.1)) hq)
      conv => lhs; rw [hsplit]
      rw [selComponent_append _ _ _ _ _ hlen1]
      rw [selComponent_none _ _ q.1 (by intro r hr; obtain ⟨l, _, rfl⟩ := List.mem_map.mp hr; exact hne)]
      simp

omit [DecidableEq L] in
theorem segs_length (bus : Bus L α) (sel : List Bool) : (segs bus sel).length = bus.length := by
  induction bus generalizing sel with
  | nil => simp [segs]
  | cons p rest ih => simp [segs, ih]

omit [DecidableEq L] in
/-- Core of C19: a mask selection over concatenated parts is the concatenation of the per-part
    selections with the corresponding segments of the mask. -/
theorem maskSelect_flatMap_segs {γ : Type} (bus : Bus L α) (sel : List Bool) (g : L × MFrame L L α → List γ)
    (hg : ∀ p ∈ bus, (g p).length = p.2.labels.length) (hl : sel.length = (axisMapOf bus).length) :
    maskSelect (bus.flatMap g) sel = ((bus.zip (segs bus sel)).flatMap (fun x => maskSelect (g x.1) x.2)) := by
  induction bus generalizing sel with
  | nil => simp [segs]
  | cons p rest ih =>
    rw [axisMapOf_cons] at hl
    have hgp : (g p).length = p.2.labels.length := hg p (by simp)
    have hsplit : sel = sel.take p.2.labels.length ++ sel.drop p.2.labels.length :=
      (List.take_append_drop p.2.labels.length sel).symm
    have hlen1 : (g p).length = (sel.take p.2.labels.length).length := by
      simp only [List.length_take]
      simp only [List.length_append, List.length_map] at hl
      omega
    have hlen2 : (sel.drop p.2.labels.length).length = (axisMapOf rest).length := by
      simp only [List.length_drop]
      simp only [List.length_append, List.length_map] at hl
      omega
    simp only [List.flatMap_cons, segs, List.zip_cons_cons]
    conv => lhs; rw [hsplit]
    rw [maskSelect_append _ _ _ _ hlen1, ih (sel.drop p.2.labels.length) (fun q hq => hg q (by simp [hq])) hlen2]

omit [DecidableEq L] in
theorem segs_lengths (bus : Bus L α) (sel : List Bool) (hl : sel.length = (axisMapOf bus).length) :
    ∀ x ∈ bus.zip (segs bus sel), x.2.length = x.1.2.labels.length := by
  induction bus generalizing sel with
  | nil => simp [segs]
  | cons p rest ih =>
    rw [axisMapOf_cons] at hl
    simp only [List.length_append, List.length_map] at hl
    intro x hx
    simp only [segs, List.zip_cons_cons, List.mem_cons] at hx
    rcases hx with rfl | hx
    · simp only [List.length_take]; omega
    · exact ih (sel.drop p.2.labels.length) (by simp only [List.length_drop]; omega) x hx

omit [DecidableEq L] in
theorem axisMapOf_map_fst (bus : Bus L α) :
    (axisMapOf bus).map (·.1) = bus.flatMap (fun p => List.replicate p.2.labels.length p.1) := by
  induction bus with
  | nil => simp [axisMapOf]
  | cons p rest ih =>
    rw [axisMapOf_cons, List.map_append, ih]
    simp [List.map_map, Function.comp_def, List.map_const']

/-! ### `duplicate_filter` and the tree-form check on block-structured label sequences -/

/-- `k` copies of each label, in order. -/
def blocks (bk : List (L × Nat)) : List L := bk.flatMap (fun x => List.replicate x.2 x.1)

/-- the labels with a non-zero count, in order -/
def active (bk : List (L × Nat)) : List L := (bk.filter (fun x => x.2 ≠ 0)).map (·.1)

theorem dupFilterGo_replicate (b : L) (j : Nat) (r : List L) :
    dupFilterGo b (List.replicate j b ++ r) = dupFilterGo b r := by
  induction j with
  | zero => simp
  | succ j ih => simp [List.replicate_succ, dupFilterGo, ih]

theorem dupFilterGo_blocks (bk : List (L × Nat)) (last : L) (hnd : (bk.map (·.1)).Nodup)
    (hl : last ∉ bk.map (·.1)) : dupFilterGo last (blocks bk) = active bk := by
  induction bk generalizing last with
  | nil => simp [blocks, active, dupFilterGo]
  | cons x rest ih =>
    obtain ⟨b, k⟩ := x
    have hnd' : (rest.map (·.1)).Nodup := (List.nodup_cons.mp (by simpa using hnd)).2
    have hb : b ∉ rest.map (·.1) := (List.nodup_cons.mp (by simpa using hnd)).1
    have hl' : last ∉ rest.map (·.1) := fun h => hl (by simp at h ⊢; exact Or.inr h)
    have hne : b ≠ last := fun h => hl (by simp [h])
    cases k with
    | zero =>
      have := ih last hnd' hl'
      simpa [blocks, active] using this
    | succ k =>
      have := ih b hnd' hb
      simp only [blocks, List.flatMap_cons, List.replicate_succ, List.cons_append, dupFilterGo] at this ⊢
      rw [if_pos hne, dupFilterGo_replicate, this]
      simp [active]

theorem dupFilter_blocks (bk : List (L × Nat)) (hnd : (bk.map (·.1)).Nodup) :
    dupFilter (blocks bk) = active bk := by
  induction bk with
  | nil => simp [blocks, active, dupFilter]
  | cons x rest ih =>
    obtain ⟨b, k⟩ := x
    have hnd' : (rest.map (·.1)).Nodup := (List.nodup_cons.mp (by simpa using hnd)).2
    have hb : b ∉ rest.map (·.1) := (List.nodup_cons.mp (by simpa using hnd)).1
    cases k with
    | zero =>
      have := ih hnd'
      simpa [blocks, active] using this
    | succ k =>
      have := dupFilterGo_blocks rest b hnd' hb
      simp only [blocks, List.flatMap_cons, List.replicate_succ, List.cons_append, dupFilter] at this ⊢
      rw [dupFilterGo_replicate, this]
      simp [active]

theorem treeForm_replicate (b : L) (j : Nat) (r seen : List L) (hb : b ∈ seen) :
    treeForm (List.replicate j b ++ r) seen (some b) = treeForm r seen (some b) := by
  induction j with
  | zero => simp
  | succ j ih => simp [List.replicate_succ, treeForm, hb, ih]

theorem treeForm_blocks (bk : List (L × Nat)) (seen : List L) (last : Option L)
    (hnd : (bk.map (·.1)).Nodup) (hs : ∀ b ∈ bk.map (·.1), b ∉ seen) :
    treeForm (blocks bk) seen last = true := by
  induction bk generalizing seen last with
  | nil => simp [blocks, treeForm]
  | cons x rest ih =>
    obtain ⟨b, k⟩ := x
    have hnd' : (rest.map (·.1)).Nodup := (List.nodup_cons.mp (by simpa using hnd)).2
    have hb : b ∉ rest.map (·.1) := (List.nodup_cons.mp (by simpa using hnd)).1
    have hbs : b ∉ seen := hs b (by simp)
    cases k with
    | zero =>
      have := ih seen last hnd' (fun c hc => hs c (by simp at hc ⊢; exact Or.inr hc))
      simpa [blocks] using this
    | succ k =>
      have hs' : ∀ c ∈ rest.map (·.1), c ∉ b :: seen := by
        intro c hc hmem
        rcases List.mem_cons.mp hmem with rfl | hmem
        · exact hb hc
        · exact hs c (by simp at hc ⊢; exact Or.inr hc) hmem
      have := ih (b :: seen) (some b) hnd' hs'
      simp only [blocks, List.flatMap_cons, List.replicate_succ, List.cons_append, treeForm] at this ⊢
      rw [if_pos hbs, treeForm_replicate b k _ (b :: seen) (by simp)]
      exact this

/-! ### Except.mapM helpers -/

theorem mapM_ok_of_forall {γ δ : Type} (l : List γ) (g : γ → Except Err δ) (h : γ → δ)
    (hg : ∀ x ∈ l, g x = .ok (h x)) : l.mapM g = .ok (l.map h) := by
  induction l with
  | nil => simp [List.mapM_nil, pure, Except.pure]
  | cons x xs ih =>
    simp only [List.mapM_cons, bind, Except.bind, hg x (by simp), ih (fun y hy => hg y (by simp [hy])),
      pure, Except.pure, List.map_cons]

theorem mapM_error_head {γ δ : Type} (x : γ) (xs : List γ) (g : γ → Except Err δ) (e : Err)
    (hg : g x = .error e) : (x :: xs).mapM g = .error e := by
  simp only [List.mapM_cons, bind, Except.bind, hg]

theorem mapM_map_eq {γ δ ε : Type} (l : List γ) (f : γ → δ) (g : δ → Except Err ε) :
    (l.map f).mapM g = l.mapM (fun x => g (f x)) := by
  induction l with
  | nil => simp
  | cons x xs ih => simp only [List.map_cons, List.mapM_cons, ih]

/-! ### looking a member up by its Bus label -/

theorem find_of_nodup (bus : Bus L α) (p : L × MFrame L L α) (hp : p ∈ bus) (hnd : (bus.map (·.1)).Nodup) :
    bus.find? (fun x => x.1 = p.1) = some p := by
  induction bus with
  | nil => simp at hp
  | cons x rest ih =>
    have hnd' : (rest.map (·.1)).Nodup := (List.nodup_cons.mp (by simpa using hnd)).2
    have hx : x.1 ∉ rest.map (·.1) := (List.nodup_cons.mp (by simpa using hnd)).1
    rcases List.mem_cons.mp hp with rfl | hp'
    · simp
    · have hne : x.1 ≠ p.1 := fun h => hx (h ▸ List.mem_map_of_mem (f := (·.1)) hp')
      simp [hne, ih hp' hnd']

theorem map_eq_zip {γ δ : Type} (l : List γ) (m : List δ) (f : γ → δ) (h : l.map f = m) :
    ∀ x ∈ l.zip m, f x.1 = x.2 := by
  subst h
  intro x hx
  induction l with
  | nil => simp at hx
  | cons y ys ih =>
    simp only [List.map_cons, List.zip_cons_cons, List.mem_cons] at hx
    rcases hx with rfl | hx
    · rfl
    · exact ih hx

end SF.Quilt
