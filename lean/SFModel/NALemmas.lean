/-
  SFModel.NALemmas — helper lemmas for C14, part 1: the 1-D algorithm
  (`binary_transition` + `slices_from_targets` + slice assignment) equals the structural spec.
-/
import SFModel.NA

namespace SF.NA

variable {α : Type} {isna : α → Bool}

/-! ### the spec, pointwise -/

@[simp] theorem ffill_length (limit : Nat) (l : List α) (last : Option α) (cnt : Nat) :
    (ffill isna limit l last cnt).length = l.length := by
  induction l generalizing last cnt with
  | nil => simp [ffill]
  | cons x xs ih => by_cases h : isna x <;> simp [ffill, h, ih]

theorem ffill_cons_na (limit : Nat) (x : α) (xs : List α) (last : Option α) (cnt : Nat) (h : isna x = true) :
    ffill isna limit (x :: xs) last cnt =
      fillOne limit last cnt x :: ffill isna limit xs last (cnt + 1) := by
  simp [ffill, h]

theorem ffill_cons_notna (limit : Nat) (x : α) (xs : List α) (last : Option α) (cnt : Nat) (h : isna x = false) :
    ffill isna limit (x :: xs) last cnt = x :: ffill isna limit xs (some x) 0 := by
  simp [ffill, h]

/-- abbreviation: position `r` of `l` holds a missing cell -/
def NaAt (isna : α → Bool) (l : List α) (r : Nat) : Prop := (l[r]?).map isna = some true

theorem naAt_cons_succ (x : α) (xs : List α) (r : Nat) : NaAt isna (x :: xs) (r + 1) ↔ NaAt isna xs r := by
  simp [NaAt]

theorem naAt_cons_zero (x : α) (xs : List α) : NaAt isna (x :: xs) 0 ↔ isna x = true := by
  simp [NaAt]

/-- non-missing cells are kept -/
theorem ffill_get_notna (limit : Nat) (l : List α) (last : Option α) (cnt p : Nat) (x : α)
    (hx : l[p]? = some x) (hn : isna x = false) :
    (ffill isna limit l last cnt)[p]? = some x := by
  induction l generalizing last cnt p with
  | nil => simp at hx
  | cons y ys ih =>
    cases p with
    | zero =>
      simp at hx; subst hx
      simp [ffill, hn]
    | succ p =>
      simp at hx
      by_cases h : isna y <;> simp [ffill, h, ih _ _ _ hx]

/-- inside the leading missing run the incoming state decides -/
theorem ffill_get_lead (limit : Nat) (l : List α) (last : Option α) (cnt p : Nat) (x : α)
    (hx : l[p]? = some x) (hn : isna x = true) (hall : ∀ r, r < p → NaAt isna l r) :
    (ffill isna limit l last cnt)[p]? =
      some (fillOne limit last (cnt + p) x) := by
  induction l generalizing cnt p with
  | nil => simp at hx
  | cons y ys ih =>
    cases p with
    | zero =>
      simp at hx; subst hx
      simp [ffill, hn]
    | succ p =>
      simp at hx
      have hy : isna y = true := (naAt_cons_zero y ys).mp (hall 0 (by omega))
      have hall' : ∀ r, r < p → NaAt isna ys r := fun r hr => (naAt_cons_succ y ys r).mp (hall (r + 1) (by omega))
      rw [ffill_cons_na _ _ _ _ _ hy, List.getElem?_cons_succ, ih (cnt + 1) p hx hall']
      have : cnt + 1 + p = cnt + (p + 1) := by omega
      rw [this]

/-- a missing cell whose nearest non-missing predecessor is at `q` takes that value iff within limit -/
theorem ffill_get_src (limit : Nat) (l : List α) (last : Option α) (cnt p q : Nat) (x y : α)
    (hx : l[p]? = some x) (hn : isna x = true) (hy : l[q]? = some y) (hyn : isna y = false)
    (hqp : q < p) (hbetween : ∀ r, q < r → r < p → NaAt isna l r) :
    (ffill isna limit l last cnt)[p]? = some (if limit = 0 ∨ p - q ≤ limit then y else x) := by
  induction l generalizing last cnt p q with
  | nil => simp at hx
  | cons z zs ih =>
    cases p with
    | zero => omega
    | succ p =>
      simp at hx
      cases q with
      | zero =>
        simp at hy; subst hy
        have hall' : ∀ r, r < p → NaAt isna zs r :=
          fun r hr => (naAt_cons_succ z zs r).mp (hbetween (r + 1) (by omega) (by omega))
        rw [ffill_cons_notna _ _ _ _ _ hyn, List.getElem?_cons_succ,
          ffill_get_lead limit zs (some z) 0 p x hx hn hall']
        have : (0 + p < limit) ↔ (p + 1 - 0 ≤ limit) := by omega
        simp only [fillOne, this]
      | succ q =>
        simp at hy
        have hb' : ∀ r, q < r → r < p → NaAt isna zs r :=
          fun r h1 h2 => (naAt_cons_succ z zs r).mp (hbetween (r + 1) (by omega) (by omega))
        have e : p + 1 - (q + 1) = p - q := by omega
        by_cases h : isna z
        · rw [ffill_cons_na _ _ _ _ _ h, List.getElem?_cons_succ, ih _ _ p q hx hy (by omega) hb', e]
        · have h' : isna z = false := by simpa using h
          rw [ffill_cons_notna _ _ _ _ _ h', List.getElem?_cons_succ, ih _ _ p q hx hy (by omega) hb', e]

/-! ### slice assignment, pointwise -/

@[simp] theorem assignSlice_length (a : List α) (s e : Nat) (v : α) : (assignSlice a s e v).length = a.length := by
  simp [assignSlice]

theorem assignSlice_get (a : List α) (s e : Nat) (v : α) (p : Nat) :
    (assignSlice a s e v)[p]? = if s ≤ p ∧ p < e then (a[p]?).map (fun _ => v) else a[p]? := by
  unfold assignSlice
  rw [List.getElem?_mapIdx]
  cases h : a[p]? with
  | none => simp
  | some x => by_cases c : s ≤ p ∧ p < e <;> simp [c]

def Sl.covers (s : Sl) (p : Nat) : Prop := s.start ≤ p ∧ p < s.stop

instance (s : Sl) (p : Nat) : Decidable (s.covers p) := by unfold Sl.covers; infer_instance

@[simp] theorem applySlices_length (b : List α) (sls : List Sl) (acc : List α) :
    (applySlices b sls acc).length = acc.length := by
  unfold applySlices
  induction sls generalizing acc with
  | nil => simp
  | cons s rest ih =>
    simp only [List.foldl_cons]
    rw [ih]
    unfold applyOne
    cases b[s.target]? <;> simp

theorem applySlices_cons (b : List α) (s : Sl) (rest : List Sl) (acc : List α) :
    applySlices b (s :: rest) acc = applySlices b rest (applyOne b acc s) := by
  simp [applySlices]

/-- Either no slice covers `p` and the cell is untouched, or some covering slice determines it. -/
theorem applySlices_get (b : List α) (sls : List Sl) (acc : List α) (p : Nat) (hp : p < acc.length)
    (hb : ∀ s ∈ sls, s.target < b.length) :
    ((applySlices b sls acc)[p]? = acc[p]? ∧ ∀ s ∈ sls, ¬ s.covers p) ∨
    ∃ s ∈ sls, s.covers p ∧ (applySlices b sls acc)[p]? = b[s.target]? := by
  induction sls generalizing acc with
  | nil => left; simp [applySlices]
  | cons s rest ih =>
    rw [applySlices_cons]
    have hs : s.target < b.length := hb s (by simp)
    have hrest : ∀ s ∈ rest, s.target < b.length := fun t ht => hb t (by simp [ht])
    have e1 : applyOne b acc s = assignSlice acc s.start s.stop b[s.target] := by
      simp [applyOne, List.getElem?_eq_getElem hs]
    rw [e1]
    have hlen : p < (assignSlice acc s.start s.stop b[s.target]).length := by simpa using hp
    rcases ih (assignSlice acc s.start s.stop b[s.target]) hlen hrest with ⟨h1, h2⟩ | ⟨t, ht, hc, hv⟩
    · by_cases c : s.covers p
      · right
        refine ⟨s, by simp, c, ?_⟩
        rw [h1, assignSlice_get]
        have c' : s.start ≤ p ∧ p < s.stop := c
        simp [c', List.getElem?_eq_getElem hp, List.getElem?_eq_getElem hs]
      · left
        refine ⟨?_, ?_⟩
        · rw [h1, assignSlice_get]
          have c' : ¬ (s.start ≤ p ∧ p < s.stop) := c
          simp [c']
        · intro t ht
          simp only [List.mem_cons] at ht
          rcases ht with rfl | ht
          · exact c
          · exact h2 t ht
    · right
      exact ⟨t, by simp [ht], hc, hv⟩

/-! ### transition targets and consecutive pairs -/

theorem isTransition_iff (sel : List Bool) (t : Nat) :
    isTransition sel t = true ↔
      sel[t]? = some false ∧ (sel[t + 1]? = some true ∨ (0 < t ∧ sel[t - 1]? = some true)) := by
  simp [isTransition]

theorem mem_binaryTransition (sel : List Bool) (t : Nat) :
    t ∈ binaryTransition sel ↔
      sel[t]? = some false ∧ (sel[t + 1]? = some true ∨ (0 < t ∧ sel[t - 1]? = some true)) := by
  unfold binaryTransition
  rw [List.mem_filter, isTransition_iff, List.mem_range]
  constructor
  · exact fun h => h.2
  · intro h
    refine ⟨?_, h⟩
    have := h.1
    exact (List.getElem?_eq_some_iff.mp this).1

theorem binaryTransition_sorted (sel : List Bool) : (binaryTransition sel).Pairwise (· < ·) := by
  unfold binaryTransition
  exact List.Pairwise.filter _ List.pairwise_lt_range

theorem binaryTransition_lt (sel : List Bool) (t : Nat) (h : t ∈ binaryTransition sel) : t < sel.length := by
  have := ((mem_binaryTransition sel t).mp h).1
  exact (List.getElem?_eq_some_iff.mp this).1

/-- forward pairs `zip_longest(ts, ts[1:], fillvalue=n)` of a strictly ascending list -/
theorem pairsFwd_spec (ts : List Nat) (n : Nat) (hs : ts.Pairwise (· < ·)) (hn : ∀ t ∈ ts, t < n) :
    ∀ p ∈ ts.zip (ts.tail ++ [n]),
      p.1 ∈ ts ∧ p.1 < p.2 ∧ (p.2 ∈ ts ∨ p.2 = n) ∧ ∀ r ∈ ts, p.1 < r → p.2 ≤ r := by
  induction ts with
  | nil => simp
  | cons a rest ih =>
    cases rest with
    | nil =>
      intro p hp
      simp at hp
      subst hp
      refine ⟨by simp, hn a (by simp), Or.inr rfl, ?_⟩
      intro r hr h
      simp at hr; omega
    | cons b rest =>
      intro p hp
      simp only [List.tail_cons, List.cons_append, List.zip_cons_cons, List.mem_cons] at hp
      have hab : a < b := by
        have := List.rel_of_pairwise_cons hs (a := a) (a' := b) (by simp)
        exact this
      have hs' : (b :: rest).Pairwise (· < ·) := (List.pairwise_cons.mp hs).2
      rcases hp with rfl | hp
      · refine ⟨by simp, hab, Or.inl (by simp), ?_⟩
        intro r hr h
        simp only [List.mem_cons] at hr
        rcases hr with rfl | rfl | hr
        · omega
        · omega
        · have : b < r := List.rel_of_pairwise_cons hs' hr
          show b ≤ r
          omega
      · have ih' := ih hs' (fun t ht => hn t (by simp [ht])) p (by simpa using hp)
        obtain ⟨h1, h2, h3, h4⟩ := ih'
        refine ⟨by simp [h1], h2, ?_, ?_⟩
        · rcases h3 with h3 | h3
          · left; simp [h3]
          · right; exact h3
        · intro r hr h
          simp only [List.mem_cons] at hr
          rcases hr with rfl | hr
          · have : r < p.1 := List.rel_of_pairwise_cons hs h1
            omega
          · exact h4 r (by simpa using hr) h

theorem pairsFwd_total (ts : List Nat) (n : Nat) : ∀ t ∈ ts, ∃ t', (t, t') ∈ ts.zip (ts.tail ++ [n]) := by
  induction ts with
  | nil => simp
  | cons a rest ih =>
    cases rest with
    | nil => intro t ht; simp at ht; subst ht; exact ⟨n, by simp⟩
    | cons b rest =>
      intro t ht
      simp only [List.mem_cons] at ht
      rcases ht with rfl | ht
      · exact ⟨b, by simp⟩
      · obtain ⟨t', h⟩ := ih t (by simpa using ht)
        exact ⟨t', by simp only [List.tail_cons, List.cons_append, List.zip_cons_cons, List.mem_cons]; right; simpa using h⟩

/-- backward pairs `zip(chain((None,), ts[:-1]), ts)` with `start+1` / 0, generalised to a first start `s0` -/
theorem pairsBwd_spec (ts : List Nat) (s0 : Nat) (hs : ts.Pairwise (· < ·)) (h0 : ∀ t ∈ ts, s0 ≤ t) :
    ∀ p ∈ (s0 :: ts.dropLast.map (· + 1)).zip ts,
      p.2 ∈ ts ∧ p.1 ≤ p.2 ∧ (p.1 = s0 ∨ ∃ r ∈ ts, p.1 = r + 1) ∧ (∀ r ∈ ts, r < p.2 → r < p.1) := by
  induction ts generalizing s0 with
  | nil => simp
  | cons a rest ih =>
    have hmin : ∀ r ∈ a :: rest, a ≤ r := by
      intro r hr
      simp only [List.mem_cons] at hr
      rcases hr with rfl | hr
      · omega
      · have := List.rel_of_pairwise_cons hs hr; omega
    cases rest with
    | nil =>
      intro p hp
      simp at hp
      subst hp
      refine ⟨by simp, h0 a (by simp), Or.inl rfl, ?_⟩
      intro r hr h
      have := hmin r hr
      simp at h; omega
    | cons b rest =>
      intro p hp
      have hab : a < b := List.rel_of_pairwise_cons hs (by simp)
      have hs' : (b :: rest).Pairwise (· < ·) := (List.pairwise_cons.mp hs).2
      simp only [List.dropLast_cons_cons, List.map_cons, List.zip_cons_cons, List.mem_cons] at hp
      rcases hp with rfl | hp
      · refine ⟨by simp, h0 a (by simp), Or.inl rfl, ?_⟩
        intro r hr h
        have := hmin r hr
        simp at h; omega
      · have h0' : ∀ t ∈ b :: rest, a + 1 ≤ t := by
          intro t ht
          have := List.rel_of_pairwise_cons hs ht; omega
        have ih' := ih (a + 1) hs' h0' p (by simpa using hp)
        obtain ⟨h1, h2, h3, h4⟩ := ih'
        refine ⟨by simp [h1], h2, ?_, ?_⟩
        · right
          rcases h3 with h3 | ⟨r, hr, e⟩
          · exact ⟨a, by simp, h3⟩
          · exact ⟨r, by simp [hr], e⟩
        · intro r hr h
          simp only [List.mem_cons] at hr
          rcases hr with rfl | hr
          · rcases h3 with h3 | ⟨r', hr', e⟩
            · omega
            · have : r < r' := List.rel_of_pairwise_cons hs hr'
              omega
          · exact h4 r (by simpa using hr) h

theorem pairsBwd_total (ts : List Nat) (s0 : Nat) :
    ∀ t ∈ ts, ∃ s, (s, t) ∈ (s0 :: ts.dropLast.map (· + 1)).zip ts := by
  induction ts generalizing s0 with
  | nil => simp
  | cons a rest ih =>
    cases rest with
    | nil => intro t ht; simp at ht; subst ht; exact ⟨s0, by simp⟩
    | cons b rest =>
      intro t ht
      simp only [List.mem_cons] at ht
      rcases ht with rfl | ht
      · exact ⟨s0, by simp⟩
      · obtain ⟨s, h⟩ := ih (a + 1) t (by simpa using ht)
        exact ⟨s, by simp only [List.dropLast_cons_cons, List.map_cons, List.zip_cons_cons, List.mem_cons]; right; simpa using h⟩

/-! ### trimming and the yielded slices -/

theorem trimSlice_target (fwd : Bool) (limit : Nat) (s : Sl) : (trimSlice fwd limit s).target = s.target := by
  unfold trimSlice
  split
  · simp only; split
    · cases fwd <;> simp
    · rfl
  · rfl

theorem trimSlice_fwd_covers (limit : Nat) (s e t p : Nat) (_h : s ≤ e) :
    (trimSlice true limit ⟨s, e, t⟩).covers p ↔ (s ≤ p ∧ p < e ∧ (limit = 0 ∨ p < s + limit)) := by
  unfold trimSlice Sl.covers
  by_cases hl : limit > 0
  · simp only [hl, if_true]
    by_cases hs : e - s - limit > 0
    · simp only [hs, if_true]; omega
    · simp only [hs, if_false]; omega
  · simp only [hl, if_false]; omega

theorem trimSlice_bwd_covers (limit : Nat) (s e t p : Nat) (_h : s ≤ e) :
    (trimSlice false limit ⟨s, e, t⟩).covers p ↔ (s ≤ p ∧ p < e ∧ (limit = 0 ∨ e ≤ p + limit)) := by
  unfold trimSlice Sl.covers
  by_cases hl : limit > 0
  · simp only [hl, if_true]
    by_cases hs : e - s - limit > 0
    · simp only [hs, if_true, Bool.false_eq_true, if_false]; omega
    · simp only [hs, if_false]; omega
  · simp only [hl, if_false]; omega

theorem mem_slicesFwd (limit : Nat) (sel : List Bool) (n : Nat) (ts : List Nat) (s : Sl) :
    s ∈ slicesFromTargets true limit sel n ts ↔
      ∃ t t', (t, t') ∈ ts.zip (ts.tail ++ [n]) ∧ t + 1 ≠ t' ∧ t + 1 < n ∧ sel[t + 1]? = some true ∧
        s = trimSlice true limit ⟨t + 1, t', t⟩ := by
  unfold slicesFromTargets rawSlicesFwd
  simp only [if_true, List.mem_filterMap, List.mem_map, Prod.exists]
  constructor
  · rintro ⟨r, ⟨t, t', hm, rfl⟩, hy⟩
    simp only at hy
    split at hy
    · cases hy
    · split at hy
      · cases hy
      · split at hy
        · rename_i h1 h2 h3
          simp only [Option.some.injEq] at hy
          exact ⟨t, t', hm, h1, by simp at h2; omega, h3, hy.symm⟩
        · cases hy
  · rintro ⟨t, t', hm, h1, h2, h3, rfl⟩
    refine ⟨⟨t + 1, t', t⟩, ⟨t, t', hm, rfl⟩, ?_⟩
    simp only
    rw [if_neg h1, if_neg (by simp; omega), if_pos h3]

theorem mem_slicesBwd (limit : Nat) (sel : List Bool) (n : Nat) (ts : List Nat) (s : Sl) :
    s ∈ slicesFromTargets false limit sel n ts ↔
      ∃ s0 t, (s0, t) ∈ (0 :: ts.dropLast.map (· + 1)).zip ts ∧ s0 ≠ t ∧ sel[s0]? = some true ∧
        s = trimSlice false limit ⟨s0, t, t⟩ := by
  unfold slicesFromTargets rawSlicesBwd
  simp only [Bool.false_eq_true, if_false, List.mem_filterMap, List.mem_map, Prod.exists]
  constructor
  · rintro ⟨r, ⟨s0, t, hm, rfl⟩, hy⟩
    simp only at hy
    split at hy
    · cases hy
    · split at hy
      · rename_i h1 h2; simp at h2
      · split at hy
        · rename_i h1 h2 h3
          simp only [Option.some.injEq] at hy
          exact ⟨s0, t, hm, h1, h3, hy.symm⟩
        · cases hy
  · rintro ⟨s0, t, hm, h1, h3, rfl⟩
    refine ⟨⟨s0, t, t⟩, ⟨s0, t, hm, rfl⟩, ?_⟩
    simp only
    rw [if_neg h1, if_neg (by simp), if_pos h3]

/-! ### uniform runs between consecutive targets -/

/-- going right from a missing cell, cells stay missing until a transition target appears -/
theorem uniform_up (sel : List Bool) (a b : Nat) (ha : sel[a]? = some true) (hb : b ≤ sel.length)
    (hno : ∀ r, a < r → r < b → r ∉ binaryTransition sel) :
    ∀ r, a ≤ r → r < b → sel[r]? = some true := by
  have key : ∀ k, a + k < b → sel[a + k]? = some true := by
    intro k
    induction k with
    | zero => intro _; simpa using ha
    | succ k ih =>
      intro hr
      have hprev := ih (by omega)
      have hlt : a + (k + 1) < sel.length := by omega
      cases hv : sel[a + (k + 1)] with
      | true => rw [List.getElem?_eq_getElem hlt, hv]
      | false =>
        exfalso
        apply hno (a + (k + 1)) (by omega) hr
        rw [mem_binaryTransition]
        refine ⟨by rw [List.getElem?_eq_getElem hlt, hv], Or.inr ⟨by omega, ?_⟩⟩
        simpa using hprev
  intro r har hr
  have := key (r - a) (by omega)
  rwa [show a + (r - a) = r by omega] at this

/-- going left from a missing cell, cells stay missing until a transition target appears -/
theorem uniform_down (sel : List Bool) (a p : Nat) (hp : sel[p]? = some true)
    (hno : ∀ r, a ≤ r → r < p → r ∉ binaryTransition sel) :
    ∀ k, k ≤ p - a → sel[p - k]? = some true := by
  intro k
  induction k with
  | zero => intro _; simpa using hp
  | succ k ih =>
    intro hk
    have hprev := ih (by omega)
    have hlt : p - (k + 1) < sel.length := by
      have := (List.getElem?_eq_some_iff.mp hp).1; omega
    cases hv : sel[p - (k + 1)] with
    | true => rw [List.getElem?_eq_getElem hlt, hv]
    | false =>
      exfalso
      apply hno (p - (k + 1)) (by omega) (by omega)
      rw [mem_binaryTransition]
      refine ⟨by rw [List.getElem?_eq_getElem hlt, hv], Or.inl ?_⟩
      have : p - (k + 1) + 1 = p - k := by omega
      rw [this]; exact hprev

/-- every position either has only missing cells before it or a nearest non-missing predecessor -/
theorem nearest_pred (sel : List Bool) (p : Nat) (hp : p ≤ sel.length) :
    (∀ r, r < p → sel[r]? = some true) ∨
    ∃ q, q < p ∧ sel[q]? = some false ∧ ∀ r, q < r → r < p → sel[r]? = some true := by
  induction p with
  | zero => left; intro r hr; omega
  | succ p ih =>
    have hlt : p < sel.length := by omega
    cases hv : sel[p] with
    | false =>
      right
      exact ⟨p, by omega, by rw [List.getElem?_eq_getElem hlt, hv], fun r h1 h2 => by omega⟩
    | true =>
      rcases ih (by omega) with h | ⟨q, hq, hqf, hb⟩
      · left
        intro r hr
        by_cases e : r = p
        · subst e; rw [List.getElem?_eq_getElem hlt, hv]
        · exact h r (by omega)
      · right
        refine ⟨q, by omega, hqf, ?_⟩
        intro r h1 h2
        by_cases e : r = p
        · subst e; rw [List.getElem?_eq_getElem hlt, hv]
        · exact hb r h1 (by omega)

/-- mirror image: nearest non-missing successor -/
theorem nearest_succ (sel : List Bool) (p : Nat) (hp : p < sel.length) :
    (∀ r, p < r → r < sel.length → sel[r]? = some true) ∨
    ∃ q, p < q ∧ sel[q]? = some false ∧ ∀ r, p < r → r < q → sel[r]? = some true := by
  -- induction on the distance to the end
  have key : ∀ d p, p + d + 1 = sel.length →
      (∀ r, p < r → r < sel.length → sel[r]? = some true) ∨
      ∃ q, p < q ∧ sel[q]? = some false ∧ ∀ r, p < r → r < q → sel[r]? = some true := by
    intro d
    induction d with
    | zero => intro p hd; left; intro r h1 h2; omega
    | succ d ih =>
      intro p hd
      have hlt : p + 1 < sel.length := by omega
      cases hv : sel[p + 1] with
      | false =>
        right
        exact ⟨p + 1, by omega, by rw [List.getElem?_eq_getElem hlt, hv], fun r h1 h2 => by omega⟩
      | true =>
        rcases ih (p + 1) (by omega) with h | ⟨q, hq, hqf, hb⟩
        · left
          intro r h1 h2
          by_cases e : r = p + 1
          · subst e; rw [List.getElem?_eq_getElem hlt, hv]
          · exact h r (by omega) h2
        · right
          refine ⟨q, by omega, hqf, ?_⟩
          intro r h1 h2
          by_cases e : r = p + 1
          · subst e; rw [List.getElem?_eq_getElem hlt, hv]
          · exact hb r (by omega) h2
  exact key (sel.length - p - 1) p (by omega)

/-! ### the 1-D algorithm equals the spec (forward) -/

theorem naAt_iff_sel (a : List α) (r : Nat) : NaAt isna a r ↔ (a.map isna)[r]? = some true := by
  simp [NaAt]

/-- facts about a yielded forward slice covering `p` -/
theorem fwd_cover_facts (limit : Nat) (sel : List Bool) (s : Sl) (p : Nat)
    (hs : s ∈ slicesFromTargets true limit sel sel.length (binaryTransition sel)) (hc : s.covers p) :
    s.target < p ∧ sel[s.target]? = some false ∧ (∀ r, s.target < r → r ≤ p → sel[r]? = some true) ∧
      (limit = 0 ∨ p < s.target + 1 + limit) := by
  obtain ⟨t, t', hm, h1, h2, h3, rfl⟩ := (mem_slicesFwd _ _ _ _ _).mp hs
  have hp := pairsFwd_spec (binaryTransition sel) sel.length (binaryTransition_sorted sel)
    (fun t ht => binaryTransition_lt sel t ht) (t, t') hm
  simp only at hp
  obtain ⟨ht, hlt, ht', hno⟩ := hp
  have hle : t + 1 ≤ t' := by omega
  have hc' := (trimSlice_fwd_covers limit (t + 1) t' t p hle).mp hc
  rw [trimSlice_target]
  simp only
  have ht'n : t' ≤ sel.length := by
    rcases ht' with h | h
    · exact Nat.le_of_lt (binaryTransition_lt sel t' h)
    · omega
  have hun := uniform_up sel (t + 1) t' h3 ht'n (by
    intro r hr1 hr2 hmem
    have := hno r hmem (by omega)
    omega)
  refine ⟨by omega, ((mem_binaryTransition sel t).mp ht).1, ?_, ?_⟩
  · intro r hr1 hr2
    exact hun r (by omega) (by omega)
  · rcases hc'.2.2 with h | h
    · left; exact h
    · right; omega

theorem fwd_target_lt (limit : Nat) (sel : List Bool) (s : Sl)
    (hs : s ∈ slicesFromTargets true limit sel sel.length (binaryTransition sel)) : s.target < sel.length := by
  obtain ⟨t, t', hm, h1, h2, h3, rfl⟩ := (mem_slicesFwd _ _ _ _ _).mp hs
  rw [trimSlice_target]; simp only; omega

/-- a missing cell with a nearest non-missing predecessor `q` within the limit is covered -/
theorem fwd_cover_exists (limit : Nat) (sel : List Bool) (p q : Nat) (hp : p < sel.length)
    (hqp : q < p) (hq : sel[q]? = some false) (hb : ∀ r, q < r → r ≤ p → sel[r]? = some true)
    (hl : limit = 0 ∨ p - q ≤ limit) :
    ∃ s ∈ slicesFromTargets true limit sel sel.length (binaryTransition sel), s.covers p := by
  have hqt : q ∈ binaryTransition sel := by
    rw [mem_binaryTransition]
    exact ⟨hq, Or.inl (hb (q + 1) (by omega) (by omega))⟩
  obtain ⟨t', hm⟩ := pairsFwd_total (binaryTransition sel) sel.length q hqt
  have hpair := pairsFwd_spec (binaryTransition sel) sel.length (binaryTransition_sorted sel)
    (fun t ht => binaryTransition_lt sel t ht) (q, t') hm
  simp only at hpair
  obtain ⟨_, hlt, ht', hno⟩ := hpair
  have hpt' : p < t' := by
    rcases ht' with h | h
    · -- t' is a target, hence non-missing; all cells in (q, p] are missing
      by_cases c : p < t'
      · exact c
      · exfalso
        have h1 := ((mem_binaryTransition sel t').mp h).1
        have h2 := hb t' hlt (by omega)
        rw [h1] at h2; cases h2
    · omega
  refine ⟨trimSlice true limit ⟨q + 1, t', q⟩, ?_, ?_⟩
  · rw [mem_slicesFwd]
    exact ⟨q, t', hm, by omega, by omega, hb (q + 1) (by omega) (by omega), rfl⟩
  · rw [trimSlice_fwd_covers _ _ _ _ _ (by omega)]
    refine ⟨by omega, hpt', ?_⟩
    rcases hl with h | h
    · left; exact h
    · right; omega

theorem fillDir1D_fwd (limit : Nat) (a : List α) :
    fillDir1D isna true limit a = ffill isna limit a none 0 := by
  apply List.ext_getElem?
  intro p
  unfold fillDir1D
  by_cases hp' : a.length ≤ p
  · rw [List.getElem?_eq_none (by simp; omega), List.getElem?_eq_none (by simp; omega)]
  have hp : p < a.length := by omega
  simp only
  have hsl : (a.map isna).length = a.length := by simp
  have hx : a[p]? = some a[p] := List.getElem?_eq_getElem hp
  have hselp : (a.map isna)[p]? = some (isna a[p]) := by simp [hx]
  have htl : ∀ s ∈ slicesFromTargets true limit (a.map isna) a.length (binaryTransition (a.map isna)),
      s.target < a.length := by
    intro s hs
    rw [← hsl] at hs ⊢
    exact fwd_target_lt limit _ s hs
  have hget := applySlices_get a _ a p hp htl
  cases hna : isna a[p] with
  | false =>
    rw [ffill_get_notna limit a none 0 p a[p] hx hna]
    rcases hget with ⟨h1, _⟩ | ⟨s, hs, hc, _⟩
    · rw [h1, hx]
    · exfalso
      rw [← hsl] at hs
      have := (fwd_cover_facts limit _ s p hs hc).2.2.1 p (fwd_cover_facts limit _ s p hs hc).1 (Nat.le_refl p)
      rw [hselp, hna] at this; cases this
  | true =>
    rcases nearest_pred (a.map isna) p (by omega) with hall | ⟨q, hqp, hq, hb⟩
    · rw [ffill_get_lead limit a none 0 p a[p] hx hna (fun r hr => (naAt_iff_sel a r).mpr (hall r hr))]
      simp only [fillOne]
      rcases hget with ⟨h1, _⟩ | ⟨s, hs, hc, _⟩
      · rw [h1, hx]
      · exfalso
        rw [← hsl] at hs
        have f := fwd_cover_facts limit _ s p hs hc
        have := hall s.target f.1
        rw [f.2.1] at this; cases this
    · have hqlt : q < a.length := by omega
      have hy : a[q]? = some a[q] := List.getElem?_eq_getElem hqlt
      have hyn : isna a[q] = false := by
        have : (a.map isna)[q]? = some (isna a[q]) := by simp [hy]
        rw [this] at hq; simpa using hq
      rw [ffill_get_src limit a none 0 p q a[p] a[q] hx hna hy hyn hqp
        (fun r h1 h2 => (naAt_iff_sel a r).mpr (hb r h1 h2))]
      -- every covering slice has target q
      have htq : ∀ s ∈ slicesFromTargets true limit (a.map isna) a.length (binaryTransition (a.map isna)),
          s.covers p → s.target = q ∧ (limit = 0 ∨ p - q ≤ limit) := by
        intro s hs hc
        rw [← hsl] at hs
        obtain ⟨f1, f2, f3, f4⟩ := fwd_cover_facts limit _ s p hs hc
        have e : s.target = q := by
          rcases Nat.lt_trichotomy s.target q with h | h | h
          · have := f3 q h (by omega); rw [hq] at this; cases this
          · exact h
          · have := hb s.target h f1; rw [f2] at this; cases this
        refine ⟨e, ?_⟩
        rcases f4 with h | h
        · left; exact h
        · right; omega
      by_cases hl : limit = 0 ∨ p - q ≤ limit
      · rw [if_pos hl]
        have hb' : ∀ r, q < r → r ≤ p → (a.map isna)[r]? = some true := by
          intro r h1 h2
          by_cases e : r = p
          · subst e; rw [hselp, hna]
          · exact hb r h1 (by omega)
        obtain ⟨s0, hs0, hc0⟩ := fwd_cover_exists limit (a.map isna) p q (by omega) hqp hq hb' hl
        rw [hsl] at hs0
        rcases hget with ⟨_, h2⟩ | ⟨s, hs, hc, hv⟩
        · exact absurd hc0 (h2 s0 hs0)
        · rw [hv, (htq s hs hc).1, hy]
      · rw [if_neg hl]
        rcases hget with ⟨h1, _⟩ | ⟨s, hs, hc, _⟩
        · rw [h1, hx]
        · exact absurd (htq s hs hc).2 hl

/-! ### the backward spec, pointwise -/

@[simp] theorem bfillSpec_length (limit : Nat) (a : List α) : (bfillSpec isna limit a).length = a.length := by
  simp [bfillSpec]

theorem bfillSpec_get (limit : Nat) (a : List α) (p : Nat) (hp : p < a.length) :
    (bfillSpec isna limit a)[p]? = (ffill isna limit a.reverse none 0)[a.length - 1 - p]? := by
  unfold bfillSpec
  rw [List.getElem?_reverse (by simpa using hp)]
  simp

theorem reverse_get (a : List α) (i : Nat) (hi : i < a.length) : a.reverse[a.length - 1 - i]? = a[i]? := by
  rw [List.getElem?_reverse (by omega)]
  congr 1; omega

theorem bfill_get_notna (limit : Nat) (a : List α) (p : Nat) (x : α) (hx : a[p]? = some x)
    (hn : isna x = false) : (bfillSpec isna limit a)[p]? = some x := by
  have hp : p < a.length := (List.getElem?_eq_some_iff.mp hx).1
  rw [bfillSpec_get limit a p hp]
  apply ffill_get_notna _ _ _ _ _ _ _ hn
  rw [reverse_get a p hp, hx]

theorem bfill_get_trail (limit : Nat) (a : List α) (p : Nat) (x : α) (hx : a[p]? = some x)
    (hall : ∀ r, p < r → r < a.length → NaAt isna a r) (hn : isna x = true) :
    (bfillSpec isna limit a)[p]? = some x := by
  have hp : p < a.length := (List.getElem?_eq_some_iff.mp hx).1
  rw [bfillSpec_get limit a p hp]
  have := ffill_get_lead (isna := isna) limit a.reverse none 0 (a.length - 1 - p) x
    (by rw [reverse_get a p hp, hx]) hn (by
      intro r hr
      have hr' : a.length - 1 - r < a.length := by omega
      have := hall (a.length - 1 - r) (by omega) hr'
      unfold NaAt at this ⊢
      rw [← reverse_get a _ hr'] at this
      rwa [show a.length - 1 - (a.length - 1 - r) = r by omega] at this)
  rw [this]; simp [fillOne]

theorem bfill_get_src (limit : Nat) (a : List α) (p q : Nat) (x y : α)
    (hx : a[p]? = some x) (hn : isna x = true) (hy : a[q]? = some y) (hyn : isna y = false)
    (hpq : p < q) (hb : ∀ r, p < r → r < q → NaAt isna a r) :
    (bfillSpec isna limit a)[p]? = some (if limit = 0 ∨ q - p ≤ limit then y else x) := by
  have hp : p < a.length := (List.getElem?_eq_some_iff.mp hx).1
  have hq : q < a.length := (List.getElem?_eq_some_iff.mp hy).1
  rw [bfillSpec_get limit a p hp]
  have := ffill_get_src (isna := isna) limit a.reverse none 0 (a.length - 1 - p) (a.length - 1 - q) x y
    (by rw [reverse_get a p hp, hx]) hn (by rw [reverse_get a q hq, hy]) hyn (by omega) (by
      intro r h1 h2
      have hr' : a.length - 1 - r < a.length := by omega
      have := hb (a.length - 1 - r) (by omega) (by omega)
      unfold NaAt at this ⊢
      rw [← reverse_get a _ hr'] at this
      rwa [show a.length - 1 - (a.length - 1 - r) = r by omega] at this)
  rw [this]
  have e : a.length - 1 - p - (a.length - 1 - q) = q - p := by omega
  rw [e]

/-! ### the 1-D algorithm equals the spec (backward) -/

theorem bwd_cover_facts (limit : Nat) (sel : List Bool) (s : Sl) (p : Nat)
    (hs : s ∈ slicesFromTargets false limit sel sel.length (binaryTransition sel)) (hc : s.covers p) :
    p < s.target ∧ sel[s.target]? = some false ∧ (∀ r, p ≤ r → r < s.target → sel[r]? = some true) ∧
      (limit = 0 ∨ s.target ≤ p + limit) := by
  obtain ⟨s0, t, hm, h1, h3, rfl⟩ := (mem_slicesBwd _ _ _ _ _).mp hs
  have hp := pairsBwd_spec (binaryTransition sel) 0 (binaryTransition_sorted sel) (fun _ _ => Nat.zero_le _)
    (s0, t) hm
  simp only at hp
  obtain ⟨ht, hle, _, hno⟩ := hp
  have hc' := (trimSlice_bwd_covers limit s0 t t p hle).mp hc
  rw [trimSlice_target]
  simp only
  have htn : t ≤ sel.length := Nat.le_of_lt (binaryTransition_lt sel t ht)
  have hun := uniform_up sel s0 t h3 htn (by
    intro r hr1 hr2 hmem
    have := hno r hmem hr2
    omega)
  refine ⟨by omega, ((mem_binaryTransition sel t).mp ht).1, ?_, hc'.2.2⟩
  intro r hr1 hr2
  exact hun r (by omega) hr2

theorem bwd_target_lt (limit : Nat) (sel : List Bool) (s : Sl)
    (hs : s ∈ slicesFromTargets false limit sel sel.length (binaryTransition sel)) : s.target < sel.length := by
  obtain ⟨s0, t, hm, h1, h3, rfl⟩ := (mem_slicesBwd _ _ _ _ _).mp hs
  have hp := pairsBwd_spec (binaryTransition sel) 0 (binaryTransition_sorted sel) (fun _ _ => Nat.zero_le _)
    (s0, t) hm
  rw [trimSlice_target]; simp only
  exact binaryTransition_lt sel t hp.1

theorem bwd_cover_exists (limit : Nat) (sel : List Bool) (p q : Nat)
    (hpq : p < q) (hq : sel[q]? = some false) (hb : ∀ r, p ≤ r → r < q → sel[r]? = some true)
    (hl : limit = 0 ∨ q - p ≤ limit) :
    ∃ s ∈ slicesFromTargets false limit sel sel.length (binaryTransition sel), s.covers p := by
  have hqt : q ∈ binaryTransition sel := by
    rw [mem_binaryTransition]
    exact ⟨hq, Or.inr ⟨by omega, hb (q - 1) (by omega) (by omega)⟩⟩
  obtain ⟨s0, hm⟩ := pairsBwd_total (binaryTransition sel) 0 q hqt
  have hpair := pairsBwd_spec (binaryTransition sel) 0 (binaryTransition_sorted sel) (fun _ _ => Nat.zero_le _)
    (s0, q) hm
  simp only at hpair
  obtain ⟨_, hle, hs0, hno⟩ := hpair
  have hs0p : s0 ≤ p := by
    rcases hs0 with h | ⟨r, hr, e⟩
    · omega
    · by_cases c : r < p
      · omega
      · exfalso
        have h1 := ((mem_binaryTransition sel r).mp hr).1
        have h2 := hb r (by omega) (by omega)
        rw [h1] at h2; cases h2
  have hsel0 : sel[s0]? = some true := by
    have := uniform_down sel s0 p (hb p (Nat.le_refl p) hpq) (by
      intro r h1 h2 hmem
      have := hno r hmem (by omega)
      omega) (p - s0) (Nat.le_refl _)
    rwa [show p - (p - s0) = s0 by omega] at this
  refine ⟨trimSlice false limit ⟨s0, q, q⟩, ?_, ?_⟩
  · rw [mem_slicesBwd]
    exact ⟨s0, q, hm, by omega, hsel0, rfl⟩
  · rw [trimSlice_bwd_covers _ _ _ _ _ hle]
    refine ⟨hs0p, hpq, ?_⟩
    rcases hl with h | h
    · left; exact h
    · right; omega

theorem fillDir1D_bwd (limit : Nat) (a : List α) :
    fillDir1D isna false limit a = bfillSpec isna limit a := by
  apply List.ext_getElem?
  intro p
  unfold fillDir1D
  by_cases hp' : a.length ≤ p
  · rw [List.getElem?_eq_none (by simp; omega), List.getElem?_eq_none (by simp; omega)]
  have hp : p < a.length := by omega
  simp only
  have hsl : (a.map isna).length = a.length := by simp
  have hx : a[p]? = some a[p] := List.getElem?_eq_getElem hp
  have hselp : (a.map isna)[p]? = some (isna a[p]) := by simp [hx]
  have htl : ∀ s ∈ slicesFromTargets false limit (a.map isna) a.length (binaryTransition (a.map isna)),
      s.target < a.length := by
    intro s hs
    rw [← hsl] at hs ⊢
    exact bwd_target_lt limit _ s hs
  have hget := applySlices_get a _ a p hp htl
  cases hna : isna a[p] with
  | false =>
    rw [bfill_get_notna limit a p a[p] hx hna]
    rcases hget with ⟨h1, _⟩ | ⟨s, hs, hc, _⟩
    · rw [h1, hx]
    · exfalso
      rw [← hsl] at hs
      have f := bwd_cover_facts limit _ s p hs hc
      have := f.2.2.1 p (Nat.le_refl p) f.1
      rw [hselp, hna] at this; cases this
  | true =>
    rcases nearest_succ (a.map isna) p (by omega) with hall | ⟨q, hpq, hq, hb⟩
    · rw [bfill_get_trail limit a p a[p] hx
        (fun r h1 h2 => (naAt_iff_sel a r).mpr (hall r h1 (by omega))) hna]
      rcases hget with ⟨h1, _⟩ | ⟨s, hs, hc, _⟩
      · rw [h1, hx]
      · exfalso
        rw [← hsl] at hs
        have f := bwd_cover_facts limit _ s p hs hc
        have hlt := bwd_target_lt limit _ s hs
        have := hall s.target f.1 hlt
        rw [f.2.1] at this; cases this
    · have hqlt : q < a.length := by
        have := (List.getElem?_eq_some_iff.mp hq).1; omega
      have hy : a[q]? = some a[q] := List.getElem?_eq_getElem hqlt
      have hyn : isna a[q] = false := by
        have : (a.map isna)[q]? = some (isna a[q]) := by simp [hy]
        rw [this] at hq; simpa using hq
      rw [bfill_get_src limit a p q a[p] a[q] hx hna hy hyn hpq
        (fun r h1 h2 => (naAt_iff_sel a r).mpr (hb r h1 h2))]
      have htq : ∀ s ∈ slicesFromTargets false limit (a.map isna) a.length (binaryTransition (a.map isna)),
          s.covers p → s.target = q ∧ (limit = 0 ∨ q - p ≤ limit) := by
        intro s hs hc
        rw [← hsl] at hs
        obtain ⟨f1, f2, f3, f4⟩ := bwd_cover_facts limit _ s p hs hc
        have e : s.target = q := by
          rcases Nat.lt_trichotomy s.target q with h | h | h
          · have := hb s.target f1 h; rw [f2] at this; cases this
          · exact h
          · have := f3 q (by omega) h; rw [hq] at this; cases this
        refine ⟨e, ?_⟩
        rcases f4 with h | h
        · left; exact h
        · right; omega
      by_cases hl : limit = 0 ∨ q - p ≤ limit
      · rw [if_pos hl]
        have hb' : ∀ r, p ≤ r → r < q → (a.map isna)[r]? = some true := by
          intro r h1 h2
          by_cases e : r = p
          · subst e; rw [hselp, hna]
          · exact hb r (by omega) h2
        obtain ⟨s0, hs0, hc0⟩ := bwd_cover_exists limit (a.map isna) p q hpq hq hb' hl
        rw [hsl] at hs0
        rcases hget with ⟨_, h2⟩ | ⟨s, hs, hc, hv⟩
        · exact absurd hc0 (h2 s0 hs0)
        · rw [hv, (htq s hs hc).1, hy]
      · rw [if_neg hl]
        rcases hget with ⟨h1, _⟩ | ⟨s, hs, hc, _⟩
        · rw [h1, hx]
        · exact absurd (htq s hs hc).2 hl

end SF.NA
