/- Helper lemmas for SFModel.Concat, part 4: given / two-level labels, rejection of clashing labels,
   Frame.from_concat along the columns (axis 1). -/
import SFModel.ConcatLemmas3

namespace SF
namespace Concat
open SF.SetOps

section
variable {α β : Type} [DecidableEq α]

/-! ### clashing labels are rejected -/

theorem indexManyConcat_nonunique (idxs : List (Idx α)) (h : ¬ (idxs.map (·.labels)).flatten.Nodup) :
    indexManyConcat idxs = .error .nonUnique := by
  cases idxs with
  | nil => simp at h
  | cons a rest => simp only [indexManyConcat, mkIndex, if_neg h]

theorem fromConcat0_nonunique (cfg : Cfg α) (f0 : BFrame α β) (rest : List (BFrame α β)) (union : Bool)
    (columns : IndexArg α) (fill : β) (fk : Kind)
    (h : ¬ ((f0 :: rest).map (·.index.labels)).flatten.Nodup) :
    fromConcat0 cfg (f0 :: rest) union .none columns fill fk = .error .init := by
  have : indexManyConcat ((f0 :: rest).map (·.index)) = .error .nonUnique :=
    indexManyConcat_nonunique _ (by simpa [List.map_map, Function.comp_def] using h)
  unfold fromConcat0
  simp only [List.isEmpty_cons, Bool.false_eq_true, if_false, alongIndexArg, this, errNonUniqueToInit]

theorem fromConcat1_nonunique (cfg : Cfg α) (f0 : BFrame α β) (rest : List (BFrame α β)) (union : Bool)
    (index : IndexArg α) (fill : β)
    (h : ¬ ((f0 :: rest).map (·.columns.labels)).flatten.Nodup) :
    fromConcat1 cfg (f0 :: rest) union index .none fill = .error .init := by
  have : indexManyConcat ((f0 :: rest).map (·.columns)) = .error .nonUnique :=
    indexManyConcat_nonunique _ (by simpa [List.map_map, Function.comp_def] using h)
  unfold fromConcat1
  simp only [List.isEmpty_cons, Bool.false_eq_true, if_false, alongIndexArg, this, errNonUniqueToInit]

theorem seriesFromConcat_nonunique (cfg : Cfg α) (s0 : Series α β) (rest : List (Series α β))
    (h : ¬ ((s0 :: rest).map (·.index.labels)).flatten.Nodup) :
    seriesFromConcat cfg (s0 :: rest) .none = .error .nonUnique := by
  have : indexManyConcat ((s0 :: rest).map (·.index)) = .error .nonUnique :=
    indexManyConcat_nonunique _ (by simpa [List.map_map, Function.comp_def] using h)
  unfold seriesFromConcat
  simp only [List.isEmpty_cons, Bool.false_eq_true, if_false, this, Except.map]

/-! ### replaced labels along the axis: same cells, position by position -/

/-- a member with its rows relabelled -/
def relabelRows (m : Frame α β) (ls : List α) : Frame α β := ⟨⟨ls, m.index.kind⟩, m.columns, m.cols⟩

theorem lookup_map_inj {γ : Type} (g : α → α) (ls : List α) (vs : List γ) (x : α)
    (hinj : ∀ a ∈ ls, ∀ b ∈ ls, g a = g b → a = b) (hx : x ∈ ls) :
    lookup (ls.map g) vs (g x) = lookup ls vs x := by
  have hidx : ∀ (l : List α), (∀ a ∈ l, ∀ b ∈ l, g a = g b → a = b) → x ∈ l →
      (l.map g).idxOf (g x) = l.idxOf x := by
    intro l
    induction l with
    | nil => intro _ h; cases h
    | cons a as ih =>
      intro hi hm
      simp only [List.map_cons, List.idxOf_cons]
      by_cases hax : a = x
      · subst hax; simp
      · have hx' : x ∈ as := by
          rcases List.mem_cons.mp hm with h | h
          · exact absurd h.symm hax
          · exact h
        have hg : g a ≠ g x := fun h => hax (hi a (by simp) x (by simp [hx']) h)
        have h1 : (g a == g x) = false := by simpa using hg
        have h2 : (a == x) = false := by simpa using hax
        rw [h1, h2]
        simp only [cond_false]
        rw [ih (fun p hp q hq => hi p (by simp [hp]) q (by simp [hq])) hx']
  rw [lookup_of_mem (List.mem_map.mpr ⟨x, hx, rfl⟩), lookup_of_mem hx, hidx ls hinj hx]

theorem relabelRows_get? (m : Frame α β) (g : α → α)
    (hinj : ∀ a ∈ m.index.labels, ∀ b ∈ m.index.labels, g a = g b → a = b) (x c : α) (hx : x ∈ m.index.labels) :
    (relabelRows m (m.index.labels.map g)).get? (g x) c = m.get? x c := by
  unfold Frame.get? relabelRows
  simp only []
  cases lookup m.columns.labels m.cols c with
  | none => rfl
  | some col => exact lookup_map_inj g _ col x hinj hx

/-! ### two-level labels -/

theorem pairs_nodup (cfg : Cfg α)
    (hpair : ∀ k k' x x', cfg.pair k x = cfg.pair k' x' → k = k' ∧ x = x')
    (items : List (α × Idx α)) (hk : (items.map (·.1)).Nodup) (hi : ∀ it ∈ items, it.2.labels.Nodup) :
    (fromIndexItems cfg items).Nodup := by
  induction items with
  | nil => simp [fromIndexItems]
  | cons it rest ih =>
    obtain ⟨k, i⟩ := it
    simp only [List.map_cons, List.nodup_cons] at hk
    have ih' := ih hk.2 (fun it hit => hi it (by simp [hit]))
    simp only [fromIndexItems, List.map_cons, List.flatten_cons] at ih' ⊢
    rw [List.nodup_append]
    refine ⟨?_, ih', ?_⟩
    · have hin := hi (k, i) (by simp)
      rw [List.nodup_iff_pairwise_ne, List.pairwise_map]
      refine List.Pairwise.imp ?_ (List.nodup_iff_pairwise_ne.mp hin)
      intro a b hab h
      exact hab (hpair k k a b h).2
    · intro a ha b hb heq
      obtain ⟨x, _, rfl⟩ := List.mem_map.mp ha
      obtain ⟨l, hl, hbl⟩ := List.mem_flatten.mp hb
      obtain ⟨it', hit', rfl⟩ := List.mem_map.mp hl
      obtain ⟨x', _, rfl⟩ := List.mem_map.mp hbl
      have := (hpair k it'.1 x x' heq).1
      exact hk.1 (this ▸ List.mem_map.mpr ⟨it', hit', rfl⟩)


omit [DecidableEq α] in
theorem fromIndexItems_length (cfg : Cfg α) (items : List (α × Idx α)) :
    (fromIndexItems cfg items).length = (items.map fun it => it.2.labels.length).sum := by
  induction items with
  | nil => rfl
  | cons it rest ih =>
    simp only [fromIndexItems, List.map_cons, List.flatten_cons, List.length_append, List.length_map,
      List.sum_cons] at ih ⊢
    rw [ih]

/-- `Frame.from_concat_items(items, axis=0)`: the row labels are `(key, inner label)` in input order and
    each member row keeps its cells under the label `(key, row)`. -/
theorem fromConcatItems0_spec (cfg : Cfg α) (ho : cfg.o.Lawful)
    (hpair : ∀ k k' x x', cfg.pair k x = cfg.pair k' x' → k = k' ∧ x = x')
    (it0 : α × BFrame α β) (rest : List (α × BFrame α β)) (union : Bool) (fill : β) (fk : Kind)
    (hk : ((it0 :: rest).map (·.1)).Nodup)
    (hwf : ∀ it ∈ it0 :: rest, it.2.toFrame.WF)
    (hnonempty : ∀ it ∈ it0 :: rest, it.2.index.labels ≠ [])
    (hne : (indexManySet cfg.o union ((it0 :: rest).map (·.2.columns))).labels ≠ []) :
    ∃ r, fromConcatItems cfg (it0 :: rest) 0 union fill fk = .ok r ∧ r.WF ∧
      r.index.labels = fromIndexItems cfg ((it0 :: rest).map fun it => (it.1, it.2.index)) ∧
      r.columns = indexManySet cfg.o union ((it0 :: rest).map (·.2.columns)) ∧
      ∀ it ∈ it0 :: rest, ∀ x ∈ it.2.index.labels, ∀ c ∈ r.columns.labels,
        r.get? (cfg.pair it.1 x) c = some ((it.2.toFrame.get? x c).getD fill) := by
  -- the members
  have hframes : (it0 :: rest).map (·.2) = it0.2 :: rest.map (·.2) := rfl
  have hwf' : ∀ f ∈ it0.2 :: rest.map (·.2), f.toFrame.WF := by
    intro f hf
    rw [← hframes] at hf
    obtain ⟨it, hit, rfl⟩ := List.mem_map.mp hf
    exact hwf it hit
  -- result columns
  have hcolsEq : ((it0 :: rest).map (·.2.columns)) = ((it0.2 :: rest.map (·.2)).map (·.columns)) := by
    simp [List.map_map, Function.comp_def]
  have hcolsnd : ∀ i ∈ (it0.2 :: rest.map (·.2)).map (·.columns), i.labels.Nodup := by
    intro i hi
    obtain ⟨f, hf, rfl⟩ := List.mem_map.mp hi
    exact (hwf' f hf).2.1
  obtain ⟨hcn, _⟩ := indexManySet_spec ho union it0.2.columns ((rest.map (·.2)).map (·.columns))
    (by simpa using hcolsnd)
  rw [hcolsEq] at hne ⊢
  generalize hcols : indexManySet cfg.o union ((it0.2 :: rest.map (·.2)).map (·.columns)) = cols at hne
  have hcn' : cols.labels.Nodup := by rw [← hcols]; simpa using hcn
  -- the two-level labels
  have hlabnd : (fromIndexItems cfg ((it0 :: rest).map fun it => (it.1, it.2.index))).Nodup := by
    apply pairs_nodup cfg hpair
    · simpa [List.map_map, Function.comp_def] using hk
    · intro it hit
      obtain ⟨it', hit', rfl⟩ := List.mem_map.mp hit
      exact (hwf it' hit').1
  generalize hlab : fromIndexItems cfg ((it0 :: rest).map fun it => (it.1, it.2.index)) = labels at hlabnd
  have hlablen : labels.length = ((it0.2 :: rest.map (·.2)).map fun (f : BFrame α β) => f.index.labels.length).sum := by
    rw [← hlab, fromIndexItems_length]
    simp [List.map_map, Function.comp_def]
  -- blocks
  obtain ⟨tbs, blocks, htbs, hb, hne', hstack⟩ := concat0_blocks ho it0.2 (rest.map (·.2)) cols hcn' hne fill fk hwf'
  obtain ⟨hmw, hmc, hml, hmi, hmg⟩ := aligned_members ho (it0.2 :: rest.map (·.2)) cols hcn' fill hwf'
  -- relabelled members
  let rel : (α × BFrame α β) → Frame α β := fun it =>
    relabelRows (alignedFrame cfg.o cols fill it.2) (it.2.index.labels.map (cfg.pair it.1))
  have hinj : ∀ (k : α) (l : List α), ∀ a ∈ l, ∀ b ∈ l, cfg.pair k a = cfg.pair k b → a = b :=
    fun k l a _ b _ h => (hpair k k a b h).2
  have hmem2 : ∀ it ∈ it0 :: rest, it.2 ∈ it0.2 :: rest.map (·.2) := by
    intro it hit
    rw [← hframes]
    exact List.mem_map.mpr ⟨it, hit, rfl⟩
  have hrelwf : ∀ m ∈ (it0 :: rest).map rel, m.WF := by
    intro m hm
    obtain ⟨it, hit, rfl⟩ := List.mem_map.mp hm
    have hw := hmw _ (List.mem_map.mpr ⟨it.2, hmem2 it hit, rfl⟩)
    have hix := hmi it.2 (hmem2 it hit)
    refine ⟨?_, hw.2.1, hw.2.2.1, ?_⟩
    · show (it.2.index.labels.map (cfg.pair it.1)).Nodup
      rw [List.nodup_iff_pairwise_ne, List.pairwise_map]
      refine List.Pairwise.imp ?_ (List.nodup_iff_pairwise_ne.mp (hwf it hit).1)
      intro a b hab h
      exact hab (hpair _ _ a b h).2
    · intro c hc
      have := hw.2.2.2 c hc
      rw [hix] at this
      show c.length = (it.2.index.labels.map (cfg.pair it.1)).length
      rw [List.length_map]; exact this
  have hrelc : ∀ m ∈ (it0 :: rest).map rel, m.columns = cols := by
    intro m hm
    obtain ⟨it, hit, rfl⟩ := List.mem_map.mp hm
    show (alignedFrame cfg.o cols fill it.2).columns = cols
    exact hmc _ (List.mem_map.mpr ⟨it.2, hmem2 it hit, rfl⟩)
  have hrellab : (((it0 :: rest).map rel).map (·.index.labels)).flatten = labels := by
    rw [← hlab, fromIndexItems, List.map_map, List.map_map]
    rfl
  have hrelcols : ((it0 :: rest).map rel).map (·.cols) =
      ((it0.2 :: rest.map (·.2)).map (alignedFrame cfg.o cols fill)).map (·.cols) := by
    rw [← hframes, List.map_map, List.map_map, List.map_map]
    rfl
  have hS := stack_get? cols .obj ((it0 :: rest).map rel) (by simp) hrelwf hrelc (by rw [hrellab]; exact hlabnd)
  rw [hrellab, hrelcols, ← hstack] at hS
  refine ⟨⟨⟨labels, .obj⟩, cols, blocks.columns.map (·.2)⟩, ?_, hS.1, rfl, rfl, ?_⟩
  · -- the computation
    have hany : (it0 :: rest).any (fun it => if (0 : Nat) = 0 then it.2.index.labels.isEmpty
        else it.2.columns.labels.isEmpty) = false := by
      rw [List.any_eq_false]
      intro it hit
      simp only [if_true, List.isEmpty_iff]
      exact hnonempty it hit
    have hmk : mkIndex labels .obj = .ok ⟨labels, .obj⟩ := by simp [mkIndex, hlabnd]
    unfold fromConcatItems
    have h01 : ¬ ((0 : Nat) ≠ 0 ∧ (0 : Nat) ≠ 1) := by simp
    rw [if_neg h01]
    have hany' : ((it0 :: rest).any fun x => match x with
        | (_, f) => if (0 : Nat) = 0 then f.index.labels.isEmpty else f.columns.labels.isEmpty) = false := hany
    rw [hany']
    simp only [Bool.false_eq_true, if_false, hk, not_true_eq_false, if_true]
    have hlab' : fromIndexItems cfg (List.map (fun x => match x with | (k, f) => (k, f.index)) (it0 :: rest)) = labels := hlab
    rw [hlab', hmk]
    simp only []
    rw [hframes, fromConcat0_unfold cfg it0.2 (rest.map (·.2)) union (.given labels .obj) .none fill fk
      (some ⟨labels, .obj⟩) cols tbs blocks rfl (by simp only [alignedIndexArg, hcols]) htbs hb hne']
    simp only [finalAlongIndex, givenIndex, hmk, hlablen, if_true]
  · intro it hit x hx c hc
    have h1 := hS.2 (rel it) (List.mem_map.mpr ⟨it, hit, rfl⟩) (cfg.pair it.1 x)
      (List.mem_map.mpr ⟨x, hx, rfl⟩) c hc
    rw [h1]
    have hix := hmi it.2 (hmem2 it hit)
    have h2 : (rel it).get? (cfg.pair it.1 x) c = (alignedFrame cfg.o cols fill it.2).get? x c := by
      have := relabelRows_get? (alignedFrame cfg.o cols fill it.2) (cfg.pair it.1)
        (hinj _ _) x c (by rw [hix]; exact hx)
      rw [hix] at this
      exact this
    rw [h2]
    exact hmg it.2 (hmem2 it hit) x hx c hc

end

end Concat
end SF
