/-
  SFModel.FrameSel — selection at the FRAME level: `Frame._extract` (iloc) and `Frame._extract_loc`.

  Mirrors static_frame/core/frame.py
    * `Frame._extract(row_key, column_key)`        → `Fr.iloc`
        - `blocks = self._blocks._extract(...)`       (`TB.extract`, Blocks.lean) comes FIRST
        - `index = self._index` under `None` / `NULL_SLICE`, else `self._index._extract_iloc(row_key)`
        - the same for the columns
        - the decision table element / Series / Frame (`_extract_axis_not_multi` + the shape cases)
    * `Frame._extract_iloc`, `Frame._compound_loc_to_iloc`, `Frame._extract_loc` → `Fr.loc`
  and static_frame/core/index.py
    * `Index._extract_iloc(key)`: `self.__class__(labels=self._labels[key])` (the constructor refuses
      repeated labels) or, for an integer key, the label `self._labels[key]`  → `Index.extractIloc`,
      `Index.labelAt`

  A frame is a row index, a column index (`Index β`, Index.lean) and the blocks (`TB α`, Blocks.lean).
  NumPy selection on ONE label array (`_labels[key]`) is list selection at `Key.positions`
  (the parameter of the C04 model, compared with NumPy by the harness on every run).
-/
import SFModel.Blocks
import SFModel.Index

namespace SF

/-- the positional key `Frame._extract` receives from `_loc_to_iloc`: an integer array
    (`positions[bool_array]`) is an integer list key -/
def IKey.toKey : IKey → Key
  | .int i => .int i
  | .list is => .list is
  | .slice s => .slice s
  | .arr ps => .list (ps.map Int.ofNat)

/-- `key is None or (key.__class__ is slice and key == NULL_SLICE)` -/
def Key.isNull : Key → Bool
  | .all => true
  | .slice ⟨none, none, none⟩ => true
  | _ => false

/-- the integer of a key that is not in `KEY_MULTIPLE_TYPES` -/
def Key.int? : Key → Option Int
  | .int i => some i
  | _ => none

namespace Index
variable {β : Type} [DecidableEq β] [IntLabel β]

/-- `Index._extract_iloc(key)` for a slice / list / Boolean key:
    `self.__class__(labels=self._labels[key], name=self._name)`. -/
def extractIloc (ix : Index β) (k : Key) : Except Err (Index β) :=
  match k.positions ix.labels.length with
  | .error e => .error e
  | .ok ps => Index.mk? (pick ix.labels ps)

/-- `Index._extract_iloc(key)` for an integer key / `self._index.values[key]`: one label. -/
def labelAt (ix : Index β) (i : Int) : Except Err β :=
  match normPos i ix.labels.length with
  | .error e => .error e
  | .ok p => match ix.labels[p]? with
    | some a => .ok a
    | none => .error .lookup

/-- the index of one axis of the result of `Frame._extract`: kept as it is under a null key
    (also its `loc_is_iloc` state), otherwise extracted -/
def axisIndex (ix : Index β) (k : Key) : Except Err (Index β) :=
  if k.isNull then .ok ix else ix.extractIloc k

end Index

/-- a Frame: row index, column index, blocks -/
structure Fr (α β : Type) where
  index : Index β
  columns : Index β
  tb : TB α
deriving Repr

/-- what a selection returns: an element, a Series (values, index, name) or a Frame -/
inductive FSel (α β : Type) where
  | elem (v : α)
  | line (values : List α) (labels : Index β) (name : β)
  | frame (g : Fr α β)
deriving Repr

/-- cell `(i, j)` of a block manager, read through the abstraction `TB.cols` -/
def TB.cell {α : Type} (tb : TB α) (i j : Nat) : Option α := (tb.cols[j]?).bind (·[i]?)

/-- `blocks.values[0]`: row 0 across the columns -/
def row0 {α : Type} (cols : List (List α)) : Except Err (List α) :=
  cols.mapM fun c => match c[0]? with
    | some v => .ok v
    | none => .error .lookup

namespace Fr
variable {α β : Type} [DecidableEq β] [IntLabel β]

def cell (f : Fr α β) (i j : Nat) : Option α := f.tb.cell i j

/-- both indexes well formed, the blocks well formed, and the labels cover the shape -/
def WF (f : Fr α β) : Prop :=
  f.index.WF ∧ f.columns.WF ∧ f.tb.WF ∧
  f.index.labels.length = f.tb.rows ∧ f.columns.labels.length = f.tb.ncols

/-- `Frame.__init__(TypeBlocks, index=…, columns=…)`: the labels must cover the shape (ErrorInitFrame) -/
def mk? (index columns : Index β) (tb : TB α) : Except Err (Fr α β) :=
  if index.labels.length = tb.rows ∧ columns.labels.length = tb.ncols then .ok ⟨index, columns, tb⟩
  else .error .init

/-- `Series.__init__(values, index=…, name=…)`: one label per value (ErrorInitSeries) -/
def mkLine (values : List α) (labels : Index β) (name : β) : Except Err (FSel α β) :=
  if values.length = labels.labels.length then .ok (.line values labels name) else .error .init

/-- `Frame._extract(row_key, column_key)` -/
def iloc (f : Fr α β) (rk ck : Key) : Except Err (FSel α β) := do
  let blocks ← f.tb.extract rk ck
  match rk.int?, ck.int? with
  | some _, some _ =>
    -- `blocks.__class__ is not TypeBlocks`: `TypeBlocks._extract` returned `b[row_key, column]`
    match blocks.cols with
    | [[v]] => .ok (.elem v)
    | _ => .error .other
  | some i, none =>
    let name ← f.index.labelAt i                 -- `self._index._extract_iloc(row_key)` / `values[row_key]`
    let columns ← f.columns.axisIndex ck
    let vals ← row0 blocks.cols                  -- `Series(blocks.values[0], index=columns, name=name_row)`
    mkLine vals columns name
  | none, some j =>
    let index ← f.index.axisIndex rk
    let name ← f.columns.labelAt j
    match blocks.cols with                       -- `Series(column_1d_filter(blocks._blocks[0]), index=index, name=name_column)`
    | [c] => mkLine c index name
    | _ => .error .other
  | none, none =>
    let index ← f.index.axisIndex rk
    let columns ← f.columns.axisIndex ck
    (mk? index columns blocks).map .frame

/-- `Frame._extract_loc(key)`: `self._extract(*self._compound_loc_to_iloc(key))`; the column key is
    translated first, then the row key; an error of either translation is the error of the call. -/
def loc (f : Fr α β) (rk ck : LKey β) : Except Err (FSel α β) := do
  let ick ← f.columns.locToIlocP ck none false
  let irk ← f.index.locToIlocP rk none false
  f.iloc irk.toKey ick.toKey

end Fr

end SF
