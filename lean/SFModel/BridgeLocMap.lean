/-
  Bridge lemmas for C02 / C04 / C05: the definitions regenerated from the current
  static_frame/core/index.py by tools/py2lean_locmap.py (`SF.Gen.LocMap.map_slice_args_*`,
  `map_slice_args`, `loc_to_iloc_slice`) equal the hand-mirrored definitions of SFModel/Index.lean
  (`Index.mapSliceArg`, `Index.mapSliceStop`, `Index.mapSliceArgs`, the slice branch of `Index.locMap`,
  hence of `Index.locToIlocP`, which `Level.locToIloc` calls at every node of a hierarchy) that the
  property theorems are about.  Re-checked by the kernel on every run against what the source says *now*.

  Reading of the parameters of the generated functions:
    * `lookup`  = `label_to_pos` / `label_to_pos.get`: the hand model's map, positions as Python ints
                  (`lookupOf m`);
    * `isDt`    = `isinstance(·, np.datetime64)`: the hand model has no datetime labels, the lemmas hold
                  for every `isDt` that is false on all labels (and every `dtArm`);
    * `offset`  = `None` or a natural number (the offset of a node of a hierarchy is a length);
    * exceptions: `LocInvalid` is the model's `Err.lookup`; `LocEmpty` and `TypeError` do not occur.
-/
import SFModel.Index
import SFModel.Gen.LocMap

namespace SF.BridgeLocMap
open SF SF.Index
open SF.Gen.LocMap (Exc Field)

variable {α : Type} [DecidableEq α]

/-- `label_to_pos.get` of the hand model (an `AMap`) as the translator's `lookup` -/
def lookupOf (m : AMap α) : α → Option Int := fun a => (m.get? a).map Int.ofNat

/-- the model's reading of the exceptions of the translated region -/
def excToErr : Exc → Err
  | .LocInvalid => .lookup
  | .LocEmpty => .lookup
  | .TypeError => .value
  | .KeyError => .lookup

def liftE {β : Type} : Except Exc β → Except Err β
  | .ok b => .ok b
  | .error e => .error (excToErr e)

@[simp] theorem liftE_ok {β : Type} (b : β) : liftE (.ok b : Except Exc β) = .ok b := rfl
@[simp] theorem liftE_error {β : Type} (e : Exc) : liftE (.error e : Except Exc β) = .error (excToErr e) := rfl
theorem liftE_ite {β : Type} (c : Prop) [Decidable c] (a b : Except Exc β) :
    liftE (if c then a else b) = if c then liftE a else liftE b := by
  split <;> rfl

/-- Python's `offset` argument: `None` or an int -/
def pyOffset (offset : Option Nat) : Option Int := offset.map Int.ofNat

@[simp] theorem lookupOf_none {m : AMap α} {a : α} (h : m.get? a = none) : lookupOf m a = none := by
  simp [lookupOf, h]

@[simp] theorem lookupOf_some {m : AMap α} {a : α} {p : Nat} (h : m.get? a = some p) :
    lookupOf m a = some (p : Int) := by
  simp [lookupOf, h]

/-! ### generic layer: every `lookup`, every `isDt` / `dtArm` (the skipped datetime arm), every integer offset

  Hand-written specifications of the translated region as functions of its abstracted parts; they pin what the
  model layer below cannot see (the model has no datetime labels): the order `None → np.datetime64 → else` of an
  iteration, and the `except LocEmpty` handler of the slice branch, which only the datetime arm can reach. -/
section generic
variable {L : Type} (lookup : L → Option Int) (isDt : L → Bool) (dtArm : Field → L → Except Exc (Option Int))

/-- one iteration: `None` is yielded as it is; a `np.datetime64` goes to the skipped arm; else the non-datetime arm -/
def fieldSpec (f : Field) (attr : Option L) (arm : L → Except Exc (Option Int)) : Except Exc (Option Int) :=
  match attr with
  | none => .ok none
  | some a => if isDt a then dtArm f a else arm a

/-- `pos = label_to_pos(attr)`, LocInvalid when the label is absent, `pos += offset` when an offset is applied -/
def posSpec (offset : Option Int) (a : L) : Except Exc Int :=
  match lookup a with
  | none => .error .LocInvalid
  | some p => .ok (match offset with | none => p | some o => p + o)

/-- the stop is inclusive in the direction of the step, read from the VALUE of the step
    (`key.step is not None and key.step < 0`, the repair of finding F90, commit b8dc316) -/
def stopAdjust (step : Option Int) (pos : Int) : Option Int :=
  match step with
  | none => some (pos + 1)
  | some k => if k < 0 then (if pos - 1 < 0 then none else some (pos - 1)) else some (pos + 1)

theorem map_slice_args_start_spec (start stop : Option L) (step : Option Int) (offset : Option Int) :
    Gen.LocMap.map_slice_args_start lookup isDt dtArm start stop step offset
      = fieldSpec isDt dtArm .start start (fun a => (posSpec lookup offset a).map some) := by
  cases offset <;> cases start <;> simp only [Gen.LocMap.map_slice_args_start, fieldSpec, posSpec]
  all_goals
    rename_i a
    cases isDt a <;> cases lookup a <;> rfl

theorem map_slice_args_stop_spec (start stop : Option L) (step : Option Int) (offset : Option Int) :
    Gen.LocMap.map_slice_args_stop lookup isDt dtArm start stop step offset
      = fieldSpec isDt dtArm .stop stop (fun a => (posSpec lookup offset a).map (stopAdjust step)) := by
  cases offset <;> cases stop <;> simp only [Gen.LocMap.map_slice_args_stop, fieldSpec, posSpec]
  all_goals
    rename_i a
    cases isDt a <;> cases lookup a <;> try rfl
  all_goals
    cases step with
    | none => rfl
    | some k =>
      simp only [Bool.false_eq_true, if_false, Except.map, stopAdjust]
      repeat' split
      all_goals rfl

theorem map_slice_args_step_spec (start stop : Option L) (step : Option Int) (offset : Option Int) :
    Gen.LocMap.map_slice_args_step lookup isDt dtArm start stop step offset = .ok step := by
  cases offset <;> cases step <;> rfl

/-- the three values in the order of the loop; the first exception wins -/
def argsSpec (start stop : Option L) (step : Option Int) (offset : Option Int) :
    Except Exc (Option Int × Option Int × Option Int) :=
  match fieldSpec isDt dtArm .start start (fun a => (posSpec lookup offset a).map some) with
  | .error e => .error e
  | .ok a =>
    match fieldSpec isDt dtArm .stop stop (fun a => (posSpec lookup offset a).map (stopAdjust step)) with
    | .error e => .error e
    | .ok b => .ok (a, b, step)

theorem map_slice_args_spec (start stop : Option L) (step : Option Int) (offset : Option Int) :
    Gen.LocMap.map_slice_args lookup isDt dtArm start stop step offset
      = argsSpec lookup isDt dtArm start stop step offset := by
  simp only [Gen.LocMap.map_slice_args, argsSpec, map_slice_args_start_spec, map_slice_args_stop_spec,
    map_slice_args_step_spec]
  generalize fieldSpec isDt dtArm .start start (fun a => (posSpec lookup offset a).map some) = x
  generalize fieldSpec isDt dtArm .stop stop (fun a => (posSpec lookup offset a).map (stopAdjust step)) = y
  cases x <;> cases y <;> rfl

/-- the slice branch of `LocMap.loc_to_iloc` as a function of what `map_slice_args` answers -/
def sliceBranchSpec (n : Nat) (start stop : Option L) (step : Option Int) (offset : Option Int)
    (r : Except Exc (Option Int × Option Int × Option Int)) : Except Exc PySlice :=
  match offset with
  | none =>
    match r with
    | .error .LocEmpty => .ok ⟨some 0, some 0, none⟩          -- EMPTY_SLICE
    | .error e => .error e
    | .ok (a, b, c) => .ok ⟨a, b, c⟩
  | some o =>
    if start.isNone ∧ stop.isNone ∧ step.isNone then .ok ⟨some o, some ((n : Int) + o), none⟩
    else match r with
      | .error .LocEmpty => .ok ⟨some 0, some 0, none⟩
      | .error e => .error e
      | .ok (a, b, c) =>
        if c.isNone ∨ c.getD 1 > 0 then .ok ⟨some (a.getD o), some (b.getD (o + (n : Int))), c⟩
        else .ok ⟨some (a.getD (o + (n : Int) - 1)),
                  (match b with
                   | some b => some b
                   | none => if o > 0 then some (o - 1) else none), c⟩

theorem loc_to_iloc_slice_spec (n : Nat) (start stop : Option L) (step : Option Int) (offset : Option Int) :
    Gen.LocMap.loc_to_iloc_slice lookup isDt dtArm n start stop step offset
      = sliceBranchSpec n start stop step offset (Gen.LocMap.map_slice_args lookup isDt dtArm start stop step offset) := by
  cases offset with
  | none =>
    simp only [Gen.LocMap.loc_to_iloc_slice, sliceBranchSpec]
    cases Gen.LocMap.map_slice_args lookup isDt dtArm start stop step none with
    | error e => cases e <;> rfl
    | ok r => rfl
  | some o =>
    simp only [Gen.LocMap.loc_to_iloc_slice, sliceBranchSpec]
    by_cases hnull : start.isNone = true ∧ stop.isNone = true ∧ step.isNone = true
    · have h' : (start.isNone && stop.isNone && step.isNone) = true := by simp [hnull]
      rw [if_pos h', if_pos hnull]
    · have h' : ¬ (start.isNone && stop.isNone && step.isNone) = true := by simpa [and_assoc] using hnull
      rw [if_neg h', if_neg hnull]
      cases Gen.LocMap.map_slice_args lookup isDt dtArm start stop step (some o) with
      | error e => cases e <;> rfl
      | ok r =>
        obtain ⟨a, b, c⟩ := r
        cases c with
        | none => cases a <;> cases b <;> simp
        | some k =>
          by_cases hk : k > 0
          · cases a <;> cases b <;> simp [hk]
          · have hk' : ¬ (0 < k) := hk
            by_cases ho : o > 0
            · cases a <;> cases b <;> simp [hk', ho]
            · have ho' : ¬ (0 < o) := ho
              cases a <;> cases b <;> simp [hk', ho']

/-- the list branch: `[label_to_pos[k] + offset for k in key]` - KeyError on the first absent label - or, with
    `partial_selection`, `... for k in key if k in label_to_pos` -/
def listSpec (offset : Option Int) (partialSel : Bool) : List L → Except Exc (List Int)
  | [] => .ok []
  | a :: as =>
    match lookup a with
    | none => if partialSel then listSpec offset partialSel as else .error .KeyError
    | some p =>
      match listSpec offset partialSel as with
      | .error e => .error e
      | .ok r => .ok ((match offset with | none => p | some o => p + o) :: r)

theorem loc_to_iloc_list_spec (key : List L) (offset : Option Int) (partialSel : Bool) :
    Gen.LocMap.loc_to_iloc_list lookup key offset partialSel = listSpec lookup offset partialSel key := by
  cases offset <;> cases partialSel <;>
    simp only [Gen.LocMap.loc_to_iloc_list, Bool.false_eq_true, if_false, if_true]
  all_goals
    induction key with
    | nil => simp [listSpec, pure, Except.pure]
    | cons a as ih =>
      cases h : lookup a <;>
        simp [listSpec, h, ih, bind, Except.bind, pure, Except.pure]
      all_goals (try (cases listSpec lookup _ _ as <;> rfl))

/-- the element branch: `label_to_pos[key] + offset`, KeyError when the label is absent -/
theorem loc_to_iloc_element_spec (key : L) (offset : Option Int) (partialSel : Bool) :
    Gen.LocMap.loc_to_iloc_element lookup key offset partialSel
      = match lookup key with
        | none => .error .KeyError
        | some p => .ok (match offset with | none => p | some o => p + o) := by
  cases offset <;> simp only [Gen.LocMap.loc_to_iloc_element] <;> cases lookup key <;> rfl

end generic

/-! ### model layer: the hand-mirrored definitions of SFModel/Index.lean -/

section
variable (m : AMap α) (isDt : α → Bool) (hdt : ∀ a, isDt a = false)
  (dtArm : Field → α → Except Exc (Option Int))
include hdt

/-- iteration `field = 'start'` of `map_slice_args` = `Index.mapSliceArg … false` -/
theorem map_slice_args_start_bridge (start stop : Option α) (step : Option Int) (offset : Option Nat) :
    liftE (Gen.LocMap.map_slice_args_start (lookupOf m) isDt dtArm start stop step (pyOffset offset))
      = mapSliceArg m (offset.getD 0) false start := by
  cases offset <;> cases start <;>
    simp only [Gen.LocMap.map_slice_args_start, mapSliceArg, pyOffset, liftE_ok, hdt, Option.map_none, Option.map_some,
      Option.getD_none, Option.getD_some, Bool.false_eq_true, if_false]
  all_goals
    rename_i a
    cases hg : m.get? a <;> simp [hg, excToErr]

/-- iteration `field = 'stop'` of `map_slice_args` = `Index.mapSliceStop` (inclusive in the direction of the
    step: `+ 1`, for an integer step `< 0` `- 1` and `None` below 0) -/
theorem map_slice_args_stop_bridge (start stop : Option α) (step : Option Int) (offset : Option Nat) :
    liftE (Gen.LocMap.map_slice_args_stop (lookupOf m) isDt dtArm start stop step (pyOffset offset))
      = mapSliceStop m (offset.getD 0) step stop := by
  cases offset <;> cases stop <;>
    simp only [Gen.LocMap.map_slice_args_stop, mapSliceStop, pyOffset, liftE_ok, hdt, Option.map_none, Option.map_some,
      Option.getD_none, Option.getD_some, Bool.false_eq_true, if_false]
  all_goals
    rename_i a
    cases hg : m.get? a
    · simp [hg, excToErr]
    · cases step with
      | none => simp [hg]
      | some k => by_cases hk : k < 0 <;> simp [hg, hk, liftE_ite]

omit hdt in
/-- iteration `field = 'step'` of `map_slice_args`: the step is passed through -/
theorem map_slice_args_step_bridge (start stop : Option α) (step : Option Int) (offset : Option Nat) :
    Gen.LocMap.map_slice_args_step (lookupOf m) isDt dtArm start stop step (pyOffset offset) = .ok step := by
  cases offset <;> cases step <;> rfl

/-- `slice(*LocMap.map_slice_args(label_to_pos.get, key, labels, offset))` = `Index.mapSliceArgs` -/
theorem map_slice_args_bridge (start stop : Option α) (step : Option Int) (offset : Option Nat) :
    (liftE (Gen.LocMap.map_slice_args (lookupOf m) isDt dtArm start stop step (pyOffset offset))).map
        (fun r => PySlice.mk r.1 r.2.1 r.2.2)
      = mapSliceArgs m (offset.getD 0) start stop step := by
  have h1 := map_slice_args_start_bridge m isDt hdt dtArm start stop step offset
  have h2 := map_slice_args_stop_bridge m isDt hdt dtArm start stop step offset
  have h3 := map_slice_args_step_bridge m isDt dtArm start stop step offset
  simp only [Gen.LocMap.map_slice_args, mapSliceArgs, ← h1, ← h2, h3]
  cases Gen.LocMap.map_slice_args_start (lookupOf m) isDt dtArm start stop step (pyOffset offset) <;>
    cases Gen.LocMap.map_slice_args_stop (lookupOf m) isDt dtArm start stop step (pyOffset offset) <;>
    simp [liftE, Except.map]

/-- outside the datetime arm the only exception is LocInvalid (an endpoint that is not held): the
    `except LocEmpty` handler of `loc_to_iloc` is dead for non-datetime labels, and None arithmetic does not occur -/
theorem map_slice_args_start_error (start stop : Option α) (step : Option Int) (offset : Option Nat) (e : Exc)
    (h : Gen.LocMap.map_slice_args_start (lookupOf m) isDt dtArm start stop step (pyOffset offset) = .error e) :
    e = .LocInvalid := by
  cases offset <;> cases start <;>
    simp only [Gen.LocMap.map_slice_args_start, pyOffset, hdt, Option.map_none, Option.map_some,
      Bool.false_eq_true, if_false] at h
  all_goals first
    | cases h
    | (rename_i a; cases hg : lookupOf m a <;> simp [hg] at h; exact h.symm)

theorem map_slice_args_stop_error (start stop : Option α) (step : Option Int) (offset : Option Nat) (e : Exc)
    (h : Gen.LocMap.map_slice_args_stop (lookupOf m) isDt dtArm start stop step (pyOffset offset) = .error e) :
    e = .LocInvalid := by
  cases offset <;> cases stop <;>
    simp only [Gen.LocMap.map_slice_args_stop, pyOffset, hdt, Option.map_none, Option.map_some,
      Bool.false_eq_true, if_false] at h
  all_goals first
    | cases h
    | (rename_i a
       cases hg : lookupOf m a
       · simp [hg] at h; exact h.symm
       · simp only [hg] at h
         cases step with
         | none => simp at h
         | some k => by_cases hk : k < 0 <;> simp only [hk, if_true, if_false] at h <;> (try split at h) <;> cases h)

theorem map_slice_args_error (start stop : Option α) (step : Option Int) (offset : Option Nat) (e : Exc)
    (h : Gen.LocMap.map_slice_args (lookupOf m) isDt dtArm start stop step (pyOffset offset) = .error e) :
    e = .LocInvalid := by
  have h3 := map_slice_args_step_bridge m isDt dtArm start stop step offset
  simp only [Gen.LocMap.map_slice_args, h3] at h
  cases h1 : Gen.LocMap.map_slice_args_start (lookupOf m) isDt dtArm start stop step (pyOffset offset) with
  | error e1 =>
    rw [h1] at h; simp only [Except.error.injEq] at h; subst h
    exact map_slice_args_start_error m isDt hdt dtArm start stop step offset _ h1
  | ok a =>
    rw [h1] at h
    cases h2 : Gen.LocMap.map_slice_args_stop (lookupOf m) isDt dtArm start stop step (pyOffset offset) with
    | error e2 =>
      rw [h2] at h; simp only [Except.error.injEq] at h; subst h
      exact map_slice_args_stop_error m isDt hdt dtArm start stop step offset _ h2
    | ok b => rw [h2] at h; cases h

/-- the slice branch of `LocMap.loc_to_iloc` (NULL_SLICE shortcut under an offset, `map_slice_args`, the
    `if offset_apply:` block that bounds open ends by the direction of the step) = the slice branch of
    `Index.locMap` (`boundSlice`) -/
theorem loc_to_iloc_slice_bridge (n : Nat) (start stop : Option α) (step : Option Int) (offset : Option Nat)
    (partialSel : Bool) :
    (liftE (Gen.LocMap.loc_to_iloc_slice (lookupOf m) isDt dtArm n start stop step (pyOffset offset))).map IKey.slice
      = locMap m n (.slice start stop step) offset partialSel := by
  have hb := map_slice_args_bridge m isDt hdt dtArm start stop step offset
  have he := map_slice_args_error m isDt hdt dtArm start stop step offset
  cases offset with
  | none =>
    simp only [pyOffset, Option.map_none, Option.getD_none] at hb he
    simp only [Gen.LocMap.loc_to_iloc_slice, locMap, pyOffset, Option.map_none, Option.isSome_none, Bool.false_eq_true,
      false_and, if_false, Option.getD_none, ← hb]
    cases hr : Gen.LocMap.map_slice_args (lookupOf m) isDt dtArm start stop step none with
    | error e => have := he e hr; subst this; rfl
    | ok r => obtain ⟨a, b, c⟩ := r; rfl
  | some o =>
    simp only [pyOffset, Option.map_some, Option.getD_some] at hb he
    simp only [Gen.LocMap.loc_to_iloc_slice, locMap, pyOffset, Option.map_some, Option.isSome_some, true_and,
      Option.getD_some, ← hb]
    by_cases hnull : start.isNone = true ∧ stop.isNone = true ∧ step.isNone = true
    · have h' : (start.isNone && stop.isNone && step.isNone) = true := by simp [hnull]
      rw [if_pos h', if_pos hnull]
      simp [Except.map]
    · have h' : ¬ (start.isNone && stop.isNone && step.isNone) = true := by simpa [and_assoc] using hnull
      rw [if_neg h', if_neg hnull]
      cases hr : Gen.LocMap.map_slice_args (lookupOf m) isDt dtArm start stop step (some (Int.ofNat o)) with
      | error e => have := he e hr; subst this; rfl
      | ok r =>
        obtain ⟨a, b, c⟩ := r
        simp only [liftE_ok, Except.map]
        cases c with
        | none => cases a <;> cases b <;> simp [boundSlice]
        | some k =>
          by_cases hk : k > 0
          · cases a <;> cases b <;> simp [boundSlice, hk]
          · have hk' : ¬ (0 < k) := hk
            by_cases ho' : o > 0
            · cases a <;> cases b <;> simp [boundSlice, hk', ho']
            · cases a <;> cases b <;> simp [boundSlice, hk', ho']

/-- the slice branch raises nothing but LocInvalid (an endpoint that is not held) -/
theorem loc_to_iloc_slice_error (n : Nat) (start stop : Option α) (step : Option Int) (offset : Option Nat) (e : Exc)
    (h : Gen.LocMap.loc_to_iloc_slice (lookupOf m) isDt dtArm n start stop step (pyOffset offset) = .error e) :
    e = .LocInvalid := by
  have he := map_slice_args_error m isDt hdt dtArm start stop step offset
  cases offset with
  | none =>
    simp only [pyOffset, Option.map_none] at he
    simp only [Gen.LocMap.loc_to_iloc_slice, pyOffset, Option.map_none] at h
    cases hr : Gen.LocMap.map_slice_args (lookupOf m) isDt dtArm start stop step none with
    | error e' =>
      have := he e' hr; subst this
      rw [hr] at h; simp only [Except.error.injEq] at h; exact h.symm
    | ok r => rw [hr] at h; obtain ⟨a, b, c⟩ := r; cases h
  | some o =>
    simp only [pyOffset, Option.map_some] at he
    simp only [Gen.LocMap.loc_to_iloc_slice, pyOffset, Option.map_some] at h
    split at h
    · cases h
    · cases hr : Gen.LocMap.map_slice_args (lookupOf m) isDt dtArm start stop step (some (Int.ofNat o)) with
      | error e' =>
        have := he e' hr; subst this
        rw [hr] at h; simp only [Except.error.injEq] at h; exact h.symm
      | ok r =>
        rw [hr] at h; obtain ⟨a, b, c⟩ := r
        cases c <;> cases a <;> cases b <;> simp only at h <;> (repeat' split at h) <;> cases h

/-- the same for the route every caller takes: `Index._loc_to_iloc(key, offset, partial_selection)` of an index
    that holds a map (`Index.locToIlocP`; `Level.locToIloc` calls it at every node of a hierarchy with the offset
    of the node) -/
theorem locToIlocP_slice_bridge [IntLabel α] (ix : Index α) (hm : ix.map = some m) (start stop : Option α)
    (step : Option Int) (offset : Option Nat) (partialSel : Bool) :
    (liftE (Gen.LocMap.loc_to_iloc_slice (lookupOf m) isDt dtArm ix.len start stop step (pyOffset offset))).map IKey.slice
      = ix.locToIlocP (.slice start stop step) offset partialSel := by
  rw [loc_to_iloc_slice_bridge m isDt hdt dtArm ix.len start stop step offset partialSel]
  simp only [locToIlocP, hm]

omit hdt in
/-- the list branch of `LocMap.loc_to_iloc` = `Index.mapList` (with and without `partial_selection`) -/
theorem loc_to_iloc_list_bridge (as : List α) (offset : Option Nat) (partialSel : Bool) :
    liftE (Gen.LocMap.loc_to_iloc_list (lookupOf m) as (pyOffset offset) partialSel)
      = mapList m (offset.getD 0) partialSel as := by
  rw [loc_to_iloc_list_spec]
  induction as with
  | nil => rfl
  | cons a as ih =>
    cases hg : m.get? a
    · cases partialSel <;> simp [listSpec, mapList, hg, ih, excToErr]
    · simp only [listSpec, mapList, hg, lookupOf_some hg, ← ih]
      cases listSpec (lookupOf m) (pyOffset offset) partialSel as with
      | error e => rfl
      | ok r => cases offset <;> simp [pyOffset]

omit hdt in
/-- ... as `Index.locMap` answers it -/
theorem loc_to_iloc_list_locMap (n : Nat) (as : List α) (offset : Option Nat) (partialSel : Bool) :
    (liftE (Gen.LocMap.loc_to_iloc_list (lookupOf m) as (pyOffset offset) partialSel)).map IKey.list
      = locMap m n (.list as) offset partialSel := by
  rw [loc_to_iloc_list_bridge]; rfl

omit hdt in
/-- the element branch of `LocMap.loc_to_iloc` = the label branch of `Index.locMap` -/
theorem loc_to_iloc_element_bridge (n : Nat) (a : α) (offset : Option Nat) (partialSel ps' : Bool) :
    (liftE (Gen.LocMap.loc_to_iloc_element (lookupOf m) a (pyOffset offset) ps')).map IKey.int
      = locMap m n (.label a) offset partialSel := by
  rw [loc_to_iloc_element_spec]
  cases hg : m.get? a
  · simp [locMap, hg, Except.map, excToErr]
  · cases offset <;> simp [locMap, hg, Except.map, pyOffset]

/-- transfer of a theorem about the hand-mirrored slice branch to the translated source: a slice answer -/
theorem gen_ok_of_locMap {n : Nat} {start stop : Option α} {step : Option Int} {offset : Option Nat}
    {partialSel : Bool} {s : PySlice}
    (h : locMap m n (.slice start stop step) offset partialSel = .ok (.slice s)) :
    Gen.LocMap.loc_to_iloc_slice (lookupOf m) isDt dtArm n start stop step (pyOffset offset) = .ok s := by
  rw [← loc_to_iloc_slice_bridge m isDt hdt dtArm n start stop step offset partialSel] at h
  cases hr : Gen.LocMap.loc_to_iloc_slice (lookupOf m) isDt dtArm n start stop step (pyOffset offset) with
  | error e => rw [hr] at h; simp [Except.map] at h
  | ok r => rw [hr] at h; simp [Except.map] at h; rw [h]

/-- ... and a refusal: the model's lookup error is the source's LocInvalid -/
theorem gen_error_of_locMap {n : Nat} {start stop : Option α} {step : Option Int} {offset : Option Nat}
    {partialSel : Bool} {e : Err}
    (h : locMap m n (.slice start stop step) offset partialSel = .error e) :
    Gen.LocMap.loc_to_iloc_slice (lookupOf m) isDt dtArm n start stop step (pyOffset offset) = .error .LocInvalid := by
  rw [← loc_to_iloc_slice_bridge m isDt hdt dtArm n start stop step offset partialSel] at h
  cases hr : Gen.LocMap.loc_to_iloc_slice (lookupOf m) isDt dtArm n start stop step (pyOffset offset) with
  | error e' => rw [loc_to_iloc_slice_error m isDt hdt dtArm n start stop step offset e' hr]
  | ok r => rw [hr] at h; simp [Except.map] at h

end

/-! ### non-vacuity: the hypothesis `hdt` is satisfiable, and the lemmas speak about concrete answers -/
def exMap : AMap Nat := [(5, 0), (7, 1), (9, 2)]      -- labels 5, 7, 9 at positions 0, 1, 2

example : ∀ a : Nat, (fun _ => false : Nat → Bool) a = false := fun _ => rfl
/-- descending stop under an offset: label 5 (position 0) at offset 3 → 3 - 1 = 2 -/
example : Gen.LocMap.map_slice_args_stop (lookupOf exMap) (fun _ => false) (fun _ _ => .error .TypeError)
    none (some 5) (some (-1)) (pyOffset (some 3)) = .ok (some 2) := by decide
example : mapSliceStop exMap 3 (some (-1)) (some 5) = .ok (some 2) := by decide
/-- at offset 0 the same stop falls below 0 and is open -/
example : Gen.LocMap.map_slice_args_stop (lookupOf exMap) (fun _ => false) (fun _ _ => .error .TypeError)
    none (some 5) (some (-1)) (pyOffset (some 0)) = .ok none := by decide
/-- the datetime arm is reached before the lookup (generic layer) -/
example : Gen.LocMap.map_slice_args_start (lookupOf exMap) (fun a => a == 7) (fun _ _ => .error .LocEmpty)
    (some 7) none none none = .error .LocEmpty := by decide
/-- ... and LocEmpty becomes EMPTY_SLICE in the slice branch -/
example : Gen.LocMap.loc_to_iloc_slice (lookupOf exMap) (fun a => a == 7) (fun _ _ => .error .LocEmpty)
    3 (some 7) none none none = .ok ⟨some 0, some 0, none⟩ := by decide
/-- an open descending slice inside a node at offset 3 of length 3: from 5 down to 3 (stop 2) -/
example : Gen.LocMap.loc_to_iloc_slice (lookupOf exMap) (fun _ => false) (fun _ _ => .error .TypeError)
    3 none none (some (-1)) (pyOffset (some 3)) = .ok ⟨some 5, some 2, some (-1)⟩ := by decide
example : locMap exMap 3 (.slice none none (some (-1))) (some 3) true = .ok (.slice ⟨some 5, some 2, some (-1)⟩) := by decide
example : Gen.LocMap.loc_to_iloc_list (lookupOf exMap) [9, 6, 5] (pyOffset (some 3)) true = .ok [5, 3] := by decide
example : mapList exMap 3 true [9, 6, 5] = .ok [5, 3] := by decide

end SF.BridgeLocMap
