/- Helper lemmas about the TypeBlocks model. -/
import SFModel.Blocks
import SFModel.SliceLemmas

namespace SF

end SF
