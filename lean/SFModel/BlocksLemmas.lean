/- Helper lemmas about the TypeBlocks model. -/
import SFModel.Blocks
import SFModel.SliceLemmas
import SFModel.Props.C04
import SFModel.Props.C04Asc

set_option linter.unusedSimpArgs false

namespace SF
open TB
variable {α : Type}

namespace Block
@[simp] theorem colsOf_length (b : Block α) : b.colsOf.length = b.width := by cases b <;> rfl
end Block

namespace TB

theorem flatMap_length_eq_sum {β γ} (l : List β) (f : β → List γ) :
    (l.flatMap f).length = (l.map (fun x => (f x).length)).sum := by
  induction l with
  | nil => rfl
  | cons a l ih => simp [List.flatMap_cons, ih]

theorem cols_length (tb : TB α) : tb.cols.length = tb.ncols := by
  simp [cols, ncols, flatMap_length_eq_sum]

theorem dtypes_length (tb : TB α) : tb.dtypes.length = tb.ncols := by
  simp [dtypes, ncols, flatMap_length_eq_sum]

theorem indexFrom_length (bi : Nat) (bs : List (Block α)) :
    (indexFrom bi bs).length = (bs.map Block.width).sum := by
  induction bs generalizing bi with
  | nil => rfl
  | cons b bs ih => simp [indexFrom, ih]

theorem index_length (tb : TB α) : tb.index.length = tb.ncols := indexFrom_length 0 tb.blocks

theorem fromBlocks_go_spec (bs : List (Block α)) (rc : Option Nat) (acc : List (Block α))
    (rc' : Option Nat) (out : List (Block α))
    (h : fromBlocks.go bs rc acc = .ok (rc', out)) :
    out = acc.reverse ++ bs.filter (fun b => 0 < b.width) ∧
    (∀ r, rc = some r → rc' = some r) ∧
    (∀ r, rc' = some r → ∀ b ∈ bs.filter (fun b => 0 < b.width), b.RowsOk r) ∧
    (rc' = none → bs.filter (fun b => 0 < b.width) = []) := by
  induction bs generalizing rc acc with
  | nil =>
    simp only [fromBlocks.go, Except.ok.injEq, Prod.mk.injEq] at h
    obtain ⟨rfl, rfl⟩ := h
    simp
  | cons b rest ih =>
    match b with
    | .d1 t c =>
      have hw : (0 < (Block.d1 t c : Block α).width) = True := by simp [Block.width]
      cases rc with
      | some r =>
        simp only [fromBlocks.go] at h
        split at h
        · cases h
        · rename_i hlen
          have hlen' : c.length = r := by simpa using hlen
          obtain ⟨h1, h2, h3, h4⟩ := ih _ _ h
          have hr := h2 r rfl
          refine ⟨?_, ?_, ?_, ?_⟩
          · simp [h1, List.filter_cons, Block.width]
          · intro r' hr'; cases hr'; exact hr
          · intro r' hr' b hb
            rw [hr] at hr'; cases hr'
            simp only [List.filter_cons, Block.width, Nat.lt_one_iff, Nat.zero_lt_one, decide_true, if_true,
              List.mem_cons] at hb
            rcases hb with rfl | hb
            · intro x hx; simp [Block.colsOf] at hx; subst hx; exact hlen'
            · exact h3 r hr b hb
          · intro hn; rw [hr] at hn; cases hn
      | none =>
        simp only [fromBlocks.go] at h
        obtain ⟨h1, h2, h3, h4⟩ := ih _ _ h
        have hr := h2 c.length rfl
        refine ⟨?_, ?_, ?_, ?_⟩
        · simp [h1, List.filter_cons, Block.width]
        · intro r' hr'; cases hr'
        · intro r' hr' b hb
          rw [hr] at hr'; cases hr'
          simp only [List.filter_cons, Block.width, Nat.zero_lt_one, decide_true, if_true,
            List.mem_cons] at hb
          rcases hb with rfl | hb
          · intro x hx; simp [Block.colsOf] at hx; subst hx; rfl
          · exact h3 _ hr b hb
        · intro hn; rw [hr] at hn; cases hn
    | .d2 t [] =>
      simp only [fromBlocks.go] at h
      obtain ⟨h1, h2, h3, h4⟩ := ih _ _ h
      refine ⟨?_, h2, ?_, ?_⟩
      · simp [h1, List.filter_cons, Block.width]
      · simpa [List.filter_cons, Block.width] using h3
      · simpa [List.filter_cons, Block.width] using h4
    | .d2 t (c :: cs) =>
      simp only [fromBlocks.go] at h
      split at h
      · cases h
      · rename_i hall
        have hall' : ∀ x ∈ cs, x.length = c.length := by simpa using hall
        cases rc with
        | some r =>
          simp only at h
          split at h
          · cases h
          · rename_i hlen
            have hlen' : c.length = r := by simpa using hlen
            obtain ⟨h1, h2, h3, h4⟩ := ih _ _ h
            have hr := h2 r rfl
            refine ⟨?_, ?_, ?_, ?_⟩
            · simp [h1, List.filter_cons, Block.width]
            · intro r' hr'; cases hr'; exact hr
            · intro r' hr' b hb
              rw [hr] at hr'; cases hr'
              simp only [List.filter_cons, Block.width, List.length_cons, Nat.zero_lt_succ, decide_true, if_true,
                List.mem_cons] at hb
              rcases hb with rfl | hb
              · intro x hx
                simp only [Block.colsOf, List.mem_cons] at hx
                rcases hx with rfl | hx
                · exact hlen'
                · rw [hall' x hx]; exact hlen'
              · exact h3 r hr b hb
            · intro hn; rw [hr] at hn; cases hn
        | none =>
          simp only at h
          obtain ⟨h1, h2, h3, h4⟩ := ih _ _ h
          have hr := h2 c.length rfl
          refine ⟨?_, ?_, ?_, ?_⟩
          · simp [h1, List.filter_cons, Block.width]
          · intro r' hr'; cases hr'
          · intro r' hr' b hb
            rw [hr] at hr'; cases hr'
            simp only [List.filter_cons, Block.width, List.length_cons, Nat.zero_lt_succ, decide_true, if_true,
              List.mem_cons] at hb
            rcases hb with rfl | hb
            · intro x hx
              simp only [Block.colsOf, List.mem_cons] at hx
              rcases hx with rfl | hx
              · rfl
              · exact hall' x hx
            · exact h3 _ hr b hb
          · intro hn; rw [hr] at hn; cases hn

theorem indexFrom_spec (bi : Nat) (bs : List (Block α)) (j i c : Nat)
    (h : (indexFrom bi bs)[j]? = some (i, c)) :
    ∃ blk, bi ≤ i ∧ bs[i - bi]? = some blk ∧ c < blk.width ∧
      blk.colsOf[c]? = (bs.flatMap Block.colsOf)[j]? ∧
      (bs.flatMap (fun b => List.replicate b.width b.dt))[j]? = some blk.dt := by
  induction bs generalizing bi j with
  | nil => simp [indexFrom] at h
  | cons b rest ih =>
    simp only [indexFrom] at h
    by_cases hj : j < b.width
    · rw [List.getElem?_append_left (by simpa using hj)] at h
      simp only [List.getElem?_map, List.getElem?_range hj, Option.map_some, Option.some.injEq,
        Prod.mk.injEq] at h
      obtain ⟨rfl, rfl⟩ := h
      refine ⟨b, Nat.le_refl _, by simp, hj, ?_, ?_⟩
      · simp only [List.flatMap_cons]
        rw [List.getElem?_append_left (by simpa using hj)]
      · simp only [List.flatMap_cons]
        rw [List.getElem?_append_left (by simpa using hj)]
        simp [hj]
    · have hj' : b.width ≤ j := by omega
      rw [List.getElem?_append_right (by simpa using hj')] at h
      simp only [List.length_map, List.length_range] at h
      obtain ⟨blk, h1, h2, h3, h4, h5⟩ := ih _ _ h
      refine ⟨blk, by omega, ?_, h3, ?_, ?_⟩
      · have : i - bi = (i - (bi + 1)) + 1 := by omega
        rw [this, List.getElem?_cons_succ]; exact h2
      · simp only [List.flatMap_cons]
        rw [List.getElem?_append_right (by simpa using hj')]
        simpa using h4
      · simp only [List.flatMap_cons]
        rw [List.getElem?_append_right (by simpa using hj')]
        simpa using h5

theorem flatMap_filter_width (bs : List (Block α)) :
    (bs.filter (fun b => 0 < b.width)).flatMap Block.colsOf = bs.flatMap Block.colsOf ∧
    (bs.filter (fun b => 0 < b.width)).flatMap (fun b => List.replicate b.width b.dt)
      = bs.flatMap (fun b => List.replicate b.width b.dt) := by
  induction bs with
  | nil => simp
  | cons b bs ih =>
    by_cases hw : 0 < b.width
    · simp [List.filter_cons, hw, ih.1, ih.2]
    · have hw0 : b.width = 0 := by omega
      have hc : b.colsOf = [] := by
        apply List.eq_nil_of_length_eq_zero; simp [hw0]
      simp [List.filter_cons, hw, ih.1, ih.2, hw0, hc]

end TB
/-! ### `_indices_to_contiguous_pairs` -/

/-- a ±1 run: ascending `a, a+1, …` or descending `…, z+1, z` (non-empty) -/
def MonoRun (run : List Nat) : Prop :=
  (∃ a len, run = List.range' a (len + 1)) ∨ (∃ z len, run = (List.range' z (len + 1)).reverse)

theorem MonoRun.ne_nil {run : List Nat} (h : MonoRun run) : run ≠ [] := by
  rcases h with ⟨a, len, rfl⟩ | ⟨z, len, rfl⟩ <;> simp [List.range'_succ]

theorem MonoRun.singleton (c : Nat) : MonoRun [c] := Or.inl ⟨c, 0, rfl⟩

theorem MonoRun.concat {run : List Nat} {lc c : Nat} (h : MonoRun run)
    (hl : run.getLast? = some lc) (hc : c = lc + 1 ∨ lc = c + 1) (hn : c ∉ run) :
    MonoRun (run ++ [c]) := by
  rcases h with ⟨a, len, rfl⟩ | ⟨z, len, rfl⟩
  · simp only [List.getLast?_range', Nat.add_one_ne_zero, if_false, Option.some.injEq] at hl
    rcases hc with hc | hc
    · left; refine ⟨a, len + 1, ?_⟩
      rw [List.range'_1_concat (n := len + 1)]
      congr 2; omega
    · cases len with
      | zero =>
        right; refine ⟨c, 1, ?_⟩
        have : a = c + 1 := by omega
        subst this
        simp [List.range'_succ]
      | succ len =>
        exfalso; apply hn
        rw [List.mem_range'_1]; omega
  · simp only [List.getLast?_reverse, List.head?_range', Nat.add_one_ne_zero, if_false,
      Option.some.injEq] at hl
    subst hl
    rcases hc with hc | hc
    · cases len with
      | zero =>
        left; refine ⟨z, 1, ?_⟩
        subst hc
        simp [List.range'_succ]
      | succ len =>
        exfalso; apply hn
        rw [List.mem_reverse, List.mem_range'_1]; omega
    · right; refine ⟨c, len + 1, ?_⟩
      rw [List.range'_succ (n := len + 1), List.reverse_cons, hc]

theorem colsToSlice_two (l : List Int) (a z : Int) (ha : l.head? = some a) (hz : l.getLast? = some z)
    (hlen : 2 ≤ l.length) :
    colsToSlice l = some (if z > a then ⟨some a, some (z + 1), none⟩
      else if z = 0 then ⟨some a, none, some (-1)⟩ else ⟨some a, some (z - 1), some (-1)⟩) := by
  match l, hlen with
  | a' :: b :: rest, _ =>
    simp only [List.head?_cons, Option.some.injEq] at ha
    subst ha
    have hl : (a' :: b :: rest).getLast? = some ((b :: rest).getLast (by simp)) := by
      simp [List.getLast?_eq_some_getLast, List.getLast_cons]
    rw [hl] at hz
    simp only [Option.some.injEq] at hz
    simp only [colsToSlice, hz]
    split
    · rfl
    · split <;> rfl

theorem colsToSlice_asc (a len : Nat) :
    colsToSlice ((List.range' a (len + 1)).map Int.ofNat) = some ⟨some a, some ((a : Int) + len + 1), none⟩ := by
  cases len with
  | zero => simp [colsToSlice]
  | succ len =>
    rw [colsToSlice_two _ a ((a + len + 1 : Nat) : Int)]
    · have : ((a + len + 1 : Nat) : Int) > (a : Int) := by omega
      rw [if_pos this]
      simp only [Int.natCast_add, Int.natCast_one, Int.add_assoc]
    · simp [List.head?_map, List.head?_range']
    · simp [List.getLast?_map, List.getLast?_range']
      omega
    · simp

theorem colsToSlice_desc (z len : Nat) :
    colsToSlice ((List.range' z (len + 2)).reverse.map Int.ofNat)
      = some (if z = 0 then ⟨some ((len : Int) + 1), none, some (-1)⟩
              else ⟨some ((z : Int) + len + 1), some ((z : Int) - 1), some (-1)⟩) := by
  rw [colsToSlice_two _ ((z + len + 1 : Nat) : Int) (z : Int)]
  · have : ¬ ((z : Int) > ((z + len + 1 : Nat) : Int)) := by omega
    rw [if_neg this]
    by_cases hz : z = 0
    · subst hz; simp
    · have : ¬ ((z : Int) = 0) := by omega
      rw [if_neg this, if_neg hz]
      simp only [Int.natCast_add, Int.natCast_one]
  · simp [List.head?_map, List.head?_reverse, List.getLast?_range']
    omega
  · simp [List.getLast?_map, List.getLast?_reverse, List.head?_range']
  · simp

theorem positions_asc (a len w : Nat) (h : a + len < w) :
    PySlice.positions ⟨some (a : Int), some ((a : Int) + len + 1), none⟩ w = .ok (List.range' a (len + 1)) := by
  have hi : PySlice.indices ⟨some (a : Int), some ((a : Int) + len + 1), none⟩ w
      = .ok ((a : Int), (a : Int) + len + 1, 1) := by
    simp only [PySlice.indices, Option.getD_none]
    have h1 : ¬ ((a : Int) < 0) := by omega
    have h2 : ¬ ((a : Int) + len + 1 < 0) := by omega
    simp only [Int.one_ne_zero, if_false, show ¬ ((1 : Int) < 0) by omega, h1, h2]
    congr 2
    · omega
    · congr 1; omega
  have hlen : rangeLen (a : Int) ((a : Int) + len + 1) 1 = len + 1 := by
    unfold rangeLen
    rw [if_pos (by omega), if_pos (by omega)]
    simp only [Int.ediv_one]
    omega
  simp only [PySlice.positions, hi, rangeList, hlen]
  congr 1
  apply List.ext_getElem
  · simp
  · intro k h1 h2
    simp only [List.getElem_map, List.getElem_range, List.getElem_range']
    omega

theorem positions_desc (z len w : Nat) (h : z + len + 1 < w) :
    PySlice.positions (if z = 0 then ⟨some ((len : Int) + 1), none, some (-1)⟩
              else ⟨some ((z : Int) + len + 1), some ((z : Int) - 1), some (-1)⟩) w
      = .ok (List.range' z (len + 2)).reverse := by
  have hi : PySlice.indices (if z = 0 then ⟨some ((len : Int) + 1), none, some (-1)⟩
              else ⟨some ((z : Int) + len + 1), some ((z : Int) - 1), some (-1)⟩) w
      = .ok ((z : Int) + len + 1, (z : Int) - 1, -1) := by
    by_cases hz : z = 0
    · subst hz
      simp only [if_true, PySlice.indices, Option.getD_some]
      have h1 : ¬ ((len : Int) + 1 < 0) := by omega
      simp only [show ¬ ((-1 : Int) = 0) by omega, if_false, show ((-1 : Int) < 0) by omega, if_true, h1]
      congr 2
      · omega
    · simp only [if_neg hz, PySlice.indices, Option.getD_some]
      have h1 : ¬ ((z : Int) + len + 1 < 0) := by omega
      have h2 : ¬ ((z : Int) - 1 < 0) := by omega
      simp only [show ¬ ((-1 : Int) = 0) by omega, if_false, show ((-1 : Int) < 0) by omega, if_true, h1, h2]
      congr 2
      · omega
      · congr 1; omega
  have hlen : rangeLen ((z : Int) + len + 1) ((z : Int) - 1) (-1) = len + 2 := by
    unfold rangeLen
    rw [if_neg (by omega), if_pos (by omega), if_pos (by omega)]
    simp only [Int.neg_neg, Int.ediv_one]
    omega
  simp only [PySlice.positions, hi, rangeList, hlen]
  congr 1
  apply List.ext_getElem
  · simp
  · intro k h1 h2
    simp only [List.getElem_map, List.getElem_range, List.getElem_reverse, List.getElem_range',
      List.length_range']
    simp only [List.length_map, List.length_range] at h1
    omega

theorem monoRun_positions {run : List Nat} {w : Nat} {s : PySlice} (h : MonoRun run)
    (hw : ∀ c ∈ run, c < w) (hs : colsToSlice (run.map Int.ofNat) = some s) :
    s.positions w = .ok run := by
  rcases h with ⟨a, len, rfl⟩ | ⟨z, len, rfl⟩
  · rw [colsToSlice_asc] at hs
    simp only [Option.some.injEq] at hs; subst hs
    apply positions_asc
    have := hw (a + len) (by rw [List.mem_range'_1]; omega)
    exact this
  · cases len with
    | zero =>
      have : (List.range' z (0 + 1)).reverse = List.range' z (0 + 1) := by simp [List.range'_succ]
      rw [this] at hs ⊢
      rw [colsToSlice_asc] at hs
      simp only [Option.some.injEq] at hs; subst hs
      apply positions_asc
      exact hw z (by simp [List.range'_succ])
    | succ len =>
      rw [colsToSlice_desc] at hs
      simp only [Option.some.injEq] at hs; subst hs
      apply positions_desc
      have := hw (z + len + 1) (by rw [List.mem_reverse, List.mem_range'_1]; omega)
      exact this

/-- one emitted `(block, slice)` pair together with the run of columns it stands for -/
structure Seg where
  blk : Nat
  run : List Nat
  sl : PySlice

def Seg.pair (s : Seg) : Nat × BSel := (s.blk, .sl s.sl)
def Seg.cells (s : Seg) : List (Nat × Nat) := s.run.map (fun c => (s.blk, c))
def Seg.Good (s : Seg) : Prop := MonoRun s.run ∧ colsToSlice (s.run.map Int.ofNat) = some s.sl

/-- the loop only breaks a run where the next column is not adjacent in the same block -/
def Seg.Breaks (s1 s2 : Seg) : Prop :=
  ¬ (s1.blk = s2.blk ∧ ∃ l f, s1.run.getLast? = some l ∧ s2.run.head? = some f ∧ (f = l + 1 ∨ l = f + 1))

def ChainBreaks : List Seg → Prop
  | [] => True
  | [_] => True
  | a :: b :: rest => a.Breaks b ∧ ChainBreaks (b :: rest)

theorem colsToSlice_isSome {l : List Int} (h : l ≠ []) : ∃ s, colsToSlice l = some s := by
  match l, h with
  | [a], _ => exact ⟨_, rfl⟩
  | a :: b :: rest, _ =>
    simp only [colsToSlice]
    split
    · exact ⟨_, rfl⟩
    · split <;> exact ⟨_, rfl⟩

theorem contiguousPairs_struct_some (rest : List (Nat × Nat)) (lb lc : Nat) (bundle : List Nat)
    (ps : List (Nat × BSel))
    (h : contiguousPairs rest (some (lb, lc)) bundle = some ps)
    (hm : MonoRun bundle) (hl : bundle.getLast? = some lc)
    (hnd : (bundle.map (fun c => (lb, c)) ++ rest).Nodup) :
    ∃ seg segs, ps = (seg :: segs).map Seg.pair ∧ seg.blk = lb ∧ bundle <+: seg.run ∧
      (seg :: segs).flatMap Seg.cells = bundle.map (fun c => (lb, c)) ++ rest ∧
      (∀ s ∈ seg :: segs, s.Good) ∧ ChainBreaks (seg :: segs) := by
  induction rest generalizing lb lc bundle ps with
  | nil =>
    have hne := hm.ne_nil
    have hemp : bundle.isEmpty = false := by cases bundle <;> simp_all
    simp only [contiguousPairs, hemp, Bool.false_eq_true, if_false, Option.map_eq_some_iff] at h
    obtain ⟨s, hs, rfl⟩ := h
    refine ⟨⟨lb, bundle, s⟩, [], rfl, rfl, List.prefix_refl _, by simp [Seg.cells], ?_, trivial⟩
    intro x hx
    simp only [List.mem_singleton] at hx; subst hx
    exact ⟨hm, hs⟩
  | cons p rest ih =>
    obtain ⟨b, c⟩ := p
    simp only [contiguousPairs] at h
    split at h
    · rename_i hcond
      obtain ⟨hb, hc⟩ := hcond
      subst hb
      have hnd' : ((bundle ++ [c]).map (fun c => (lb, c)) ++ rest).Nodup := by
        simpa using hnd
      have hcn : c ∉ bundle := by
        intro hcb
        rw [List.nodup_append] at hnd
        exact hnd.2.2 (lb, c) (List.mem_map.mpr ⟨c, hcb, rfl⟩) (lb, c) (by simp) rfl
      obtain ⟨seg, segs, h1, h2, h3, h4, h5, h6⟩ :=
        ih lb c (bundle ++ [c]) ps h (hm.concat hl hc hcn) (by simp) hnd'
      refine ⟨seg, segs, h1, h2, ?_, ?_, h5, h6⟩
      · exact List.IsPrefix.trans (List.prefix_append _ _) h3
      · rw [h4]; simp
    · rename_i hcond
      obtain ⟨s, hs⟩ := colsToSlice_isSome (l := bundle.map Int.ofNat) (by simpa using hm.ne_nil)
      rw [hs] at h
      cases htl : contiguousPairs rest (some (b, c)) [c] with
      | none => rw [htl] at h; simp at h
      | some tl =>
        rw [htl] at h
        simp only [Option.some.injEq] at h
        subst h
        have hnd' : (([c] : List Nat).map (fun c => (b, c)) ++ rest).Nodup := by
          simp only [List.map_cons, List.map_nil, List.singleton_append]
          exact List.Nodup.sublist (List.sublist_append_right _ _) hnd
        obtain ⟨seg, segs, h1, h2, h3, h4, h5, h6⟩ :=
          ih b c [c] tl htl (MonoRun.singleton c) rfl hnd'
        refine ⟨⟨lb, bundle, s⟩, seg :: segs, ?_, rfl, List.prefix_refl _, ?_, ?_, ?_⟩
        · rw [h1]; rfl
        · rw [List.flatMap_cons, h4]; simp [Seg.cells]
        · intro x hx
          rw [List.mem_cons] at hx
          rcases hx with rfl | hx
          · exact ⟨hm, hs⟩
          · exact h5 x hx
        · refine ⟨?_, h6⟩
          intro ⟨hbb, l, f, hl', hf, hadj⟩
          simp only at hbb hl'
          rw [hl] at hl'; cases hl'
          obtain ⟨t, ht⟩ := h3
          rw [← ht] at hf
          simp only [List.singleton_append, List.head?_cons, Option.some.injEq] at hf
          subst hf
          exact hcond ⟨by rw [hbb, h2], hadj⟩

theorem contiguousPairs_struct (l : List (Nat × Nat)) (bundle : List Nat) (ps : List (Nat × BSel))
    (h : contiguousPairs l none bundle = some ps) (hnd : l.Nodup) :
    ∃ segs, ps = segs.map Seg.pair ∧ segs.flatMap Seg.cells = l ∧
      (∀ s ∈ segs, s.Good) ∧ ChainBreaks segs := by
  cases l with
  | nil =>
    simp only [contiguousPairs, Option.some.injEq] at h
    subst h
    exact ⟨[], rfl, rfl, by simp, trivial⟩
  | cons p rest =>
    obtain ⟨b, c⟩ := p
    simp only [contiguousPairs] at h
    obtain ⟨seg, segs, h1, _, _, h4, h5, h6⟩ :=
      contiguousPairs_struct_some rest b c [c] ps h (MonoRun.singleton c) rfl (by simpa using hnd)
    exact ⟨seg :: segs, h1, by rw [h4]; simp, h5, h6⟩

theorem TB.mem_index {tb : TB α} {p : Nat × Nat} (h : p ∈ tb.index) :
    ∃ blk, tb.blocks[p.1]? = some blk ∧ p.2 < blk.width := by
  obtain ⟨j, hj⟩ := List.mem_iff_getElem?.mp h
  obtain ⟨blk, _, h2, h3, _, _⟩ := indexFrom_spec 0 tb.blocks j p.1 p.2 hj
  exact ⟨blk, h2, h3⟩

theorem contiguousPairs_total_some (rest : List (Nat × Nat)) (lb lc : Nat) (bundle : List Nat)
    (hne : bundle ≠ []) : ∃ ps, contiguousPairs rest (some (lb, lc)) bundle = some ps := by
  induction rest generalizing lb lc bundle with
  | nil =>
    have hemp : bundle.isEmpty = false := by cases bundle <;> simp_all
    obtain ⟨s, hs⟩ := colsToSlice_isSome (l := bundle.map Int.ofNat) (by simpa using hne)
    simp [contiguousPairs, hemp, hs]
  | cons p rest ih =>
    obtain ⟨b, c⟩ := p
    simp only [contiguousPairs]
    split
    · exact ih _ _ _ (by simp)
    · obtain ⟨s, hs⟩ := colsToSlice_isSome (l := bundle.map Int.ofNat) (by simpa using hne)
      obtain ⟨tl, htl⟩ := ih b c [c] (by simp)
      rw [hs, htl]
      exact ⟨_, rfl⟩

theorem mapM_map_except_ok {β γ δ ε} (l : List β) (hf : β → γ) (f : γ → Except ε δ) (g : β → δ)
    (h : ∀ x ∈ l, f (hf x) = .ok (g x)) : (l.map hf).mapM f = .ok (l.map g) := by
  induction l with
  | nil => rfl
  | cons a l ih =>
    simp only [List.map_cons, List.mapM_cons, h a List.mem_cons_self,
      ih (fun x hx => h x (List.mem_cons_of_mem _ hx))]
    rfl

/-! ### `_slice_blocks` / `_extract` -/

theorem pick_eq_map_getD {β} (l : List β) (ps : List Nat) (d : β) (h : ∀ p ∈ ps, p < l.length) :
    pick l ps = ps.map (fun p => l.getD p d) := by
  unfold pick
  induction ps with
  | nil => rfl
  | cons p ps ih =>
    have hp : p < l.length := h p (by simp)
    simp only [List.filterMap_cons, List.getElem?_eq_getElem hp, List.map_cons, List.getD_eq_getElem?_getD,
      Option.getD_some]
    rw [ih (fun q hq => h q (by simp [hq]))]
    simp

theorem pick_length {β} (l : List β) (ps : List Nat) (h : ∀ p ∈ ps, p < l.length) :
    (pick l ps).length = ps.length := by
  cases l with
  | nil =>
    cases ps with
    | nil => rfl
    | cons p ps => have := h p (by simp); simp at this
  | cons d l => rw [pick_eq_map_getD _ _ d h]; simp

theorem pick_range {β} (l : List β) : pick l (List.range l.length) = l := by
  cases l with
  | nil => rfl
  | cons d l' =>
    rw [pick_eq_map_getD _ _ d (by intro p hp; simpa using hp)]
    apply List.ext_getElem
    · simp
    · intro i h1 h2
      simp only [List.getElem_map, List.getElem_range, List.getD_eq_getElem?_getD,
        List.getElem?_eq_getElem h2, Option.getD_some]

/-- row selection of one column (`none` = all rows) -/
def rowSel (rps : Option (List Nat)) (c : List α) : List α :=
  match rps with | none => c | some ps => pick c ps

/-- a per-block selection together with the block columns it addresses -/
structure Tgt where
  blk : Nat
  sel : BSel
  run : List Nat

def Tgt.pair (t : Tgt) : Nat × BSel := (t.blk, t.sel)
def Tgt.cells (t : Tgt) : List (Nat × Nat) := t.run.map (fun c => (t.blk, c))
def Tgt.Ok (tb : TB α) (t : Tgt) : Prop :=
  ∃ b, tb.blocks[t.blk]? = some b ∧ t.sel.positions b.width = .ok t.run ∧ (b.is1d = true → t.run = [0])

def Seg.toTgt (s : Seg) : Tgt := ⟨s.blk, .sl s.sl, s.run⟩

/-- the result of `sliceBlock` when the selection addresses `run` -/
def sliceBlockD (b : Block α) (rps : Option (List Nat)) (sel : BSel) (run : List Nat) : Block α :=
  match b with
  | .d1 t c => .d1 t (rowSel rps c)
  | .d2 t cs =>
    match sel with
    | .col c => .d1 t (rowSel rps (cs.getD c []))
    | .sl _ => .d2 t ((pick cs run).map (rowSel rps))

theorem bsel_positions_lt {sel : BSel} {w : Nat} {run : List Nat} (h : sel.positions w = .ok run) :
    ∀ c ∈ run, c < w := by
  cases sel with
  | col c =>
    simp only [BSel.positions] at h
    by_cases hc : c < w
    · rw [if_pos hc] at h
      simp only [Except.ok.injEq] at h; subst h; simpa
    · rw [if_neg hc] at h; cases h
  | sl s => exact C04.slice_positions_in_range h

theorem sliceBlock_ok (b : Block α) (rps : Option (List Nat)) (sel : BSel) (run : List Nat)
    (h : sel.positions b.width = .ok run) :
    sliceBlock b rps sel = .ok (sliceBlockD b rps sel run) := by
  cases b with
  | d1 t c => rfl
  | d2 t cs =>
    cases sel with
    | col c =>
      replace h : (BSel.col c).positions cs.length = .ok run := h
      simp only [BSel.positions] at h
      by_cases hc : c < cs.length
      · rw [if_pos hc] at h
        simp [sliceBlock, sliceBlockD, List.getElem?_eq_getElem hc, rowSel]
        cases rps <;> rfl
      · rw [if_neg hc] at h; cases h
    | sl s =>
      replace h : s.positions cs.length = .ok run := h
      simp only [sliceBlock, sliceBlockD, h]
      rfl

theorem sliceBlockD_spec (b : Block α) (rps : Option (List Nat)) (sel : BSel) (run : List Nat)
    (h : sel.positions b.width = .ok run) (h1 : b.is1d = true → run = [0]) :
    (sliceBlockD b rps sel run).colsOf = run.map (fun c => rowSel rps (b.colsOf.getD c [])) ∧
    (sliceBlockD b rps sel run).dt = b.dt ∧ (sliceBlockD b rps sel run).width = run.length := by
  have hlt := bsel_positions_lt h
  cases b with
  | d1 t c =>
    have := h1 rfl; subst this
    simp [sliceBlockD, Block.colsOf, Block.dt, Block.width]
  | d2 t cs =>
    cases sel with
    | col c =>
      simp only [BSel.positions] at h
      by_cases hc : c < (Block.d2 t cs).width
      · rw [if_pos hc] at h
        simp only [Except.ok.injEq] at h; subst h
        simp [sliceBlockD, Block.colsOf, Block.dt, Block.width]
      · rw [if_neg hc] at h; cases h
    | sl s =>
      simp only [Block.width] at hlt
      simp [sliceBlockD, Block.colsOf, Block.dt, Block.width, pick_eq_map_getD cs run [] hlt]

/-- the block produced for one target -/
def slicedTgt (tb : TB α) (rps : Option (List Nat)) (t : Tgt) : Block α :=
  match tb.blocks[t.blk]? with
  | some b => sliceBlockD b rps t.sel t.run
  | none => default

theorem sliceBlocks_tgts (tb : TB α) (rps : Option (List Nat)) (tgts : List Tgt)
    (h : ∀ t ∈ tgts, t.Ok tb) :
    sliceBlocks tb rps (tgts.map Tgt.pair) = .ok (tgts.map (slicedTgt tb rps)) := by
  unfold sliceBlocks
  apply mapM_map_except_ok
  intro t ht
  obtain ⟨b, hb, hpos, _⟩ := h t ht
  simp only [Tgt.pair, hb, slicedTgt]
  exact sliceBlock_ok b rps t.sel t.run hpos

/-- the column a directory entry names -/
def TB.colAt (tb : TB α) (p : Nat × Nat) : List α :=
  match tb.blocks[p.1]? with
  | some b => b.colsOf.getD p.2 []
  | none => []

def TB.dtAt (tb : TB α) (i : Nat) : DT :=
  match tb.blocks[i]? with
  | some b => b.dt
  | none => ""

theorem TB.index_colAt (tb : TB α) (j : Nat) (p : Nat × Nat) (h : tb.index[j]? = some p) :
    tb.cols[j]? = some (tb.colAt p) ∧ tb.dtypes[j]? = some (tb.dtAt p.1) := by
  obtain ⟨blk, _, h2, h3, h4, h5⟩ := indexFrom_spec 0 tb.blocks j p.1 p.2 h
  simp only [Nat.sub_zero] at h2
  refine ⟨?_, ?_⟩
  · show (tb.blocks.flatMap Block.colsOf)[j]? = _
    rw [← h4, TB.colAt, h2]
    simp [List.getD_eq_getElem?_getD, List.getElem?_eq_getElem (show p.2 < blk.colsOf.length by simpa using h3)]
  · show (tb.blocks.flatMap _)[j]? = _
    rw [h5, TB.dtAt, h2]

theorem slicedTgt_spec (tb : TB α) (rps : Option (List Nat)) (t : Tgt) (h : t.Ok tb) :
    (slicedTgt tb rps t).colsOf = t.cells.map (fun p => rowSel rps (tb.colAt p)) ∧
    List.replicate (slicedTgt tb rps t).width (slicedTgt tb rps t).dt = t.cells.map (fun p => tb.dtAt p.1) := by
  obtain ⟨b, hb, hpos, h1⟩ := h
  obtain ⟨hc, hd, hw⟩ := sliceBlockD_spec b rps t.sel t.run hpos h1
  simp only [slicedTgt, hb, hc, hd, hw, Tgt.cells, List.map_map, TB.colAt, TB.dtAt]
  refine ⟨?_, ?_⟩
  · apply List.map_congr_left
    intro c _
    simp [hb]
  · apply List.ext_getElem
    · simp
    · intro i h1 h2; simp [hb]

theorem TB.fromBlocks_go_ok (bs : List (Block α)) (n : Nat) (rc : Option Nat) (acc : List (Block α))
    (hrc : rc = none ∨ rc = some n) (h : ∀ b ∈ bs, b.RowsOk n) :
    ∃ rc' out, fromBlocks.go bs rc acc = .ok (rc', out) := by
  induction bs generalizing rc acc with
  | nil => exact ⟨_, _, rfl⟩
  | cons b rest ih =>
    have hrest : ∀ b ∈ rest, b.RowsOk n := fun x hx => h x (List.mem_cons_of_mem _ hx)
    have hb := h b List.mem_cons_self
    match b with
    | .d1 t c =>
      have hc : c.length = n := hb c (by simp [Block.colsOf])
      rcases hrc with rfl | rfl
      · simp only [fromBlocks.go]
        exact ih _ _ (Or.inr (by rw [hc])) hrest
      · simp only [fromBlocks.go, hc, ne_eq, not_true_eq_false, if_false]
        exact ih _ _ (Or.inr rfl) hrest
    | .d2 t [] =>
      simp only [fromBlocks.go]
      exact ih _ _ hrc hrest
    | .d2 t (c :: cs) =>
      have hc : c.length = n := hb c (by simp [Block.colsOf])
      have hcs : ∀ x ∈ cs, x.length = c.length := by
        intro x hx; rw [hc]; exact hb x (by simp [Block.colsOf, hx])
      have hcs' : ¬ ¬ (∀ x ∈ cs, x.length = c.length) := fun hn => hn hcs
      rcases hrc with rfl | rfl
      · simp only [fromBlocks.go]
        rw [if_neg hcs']
        exact ih _ _ (Or.inr (by rw [hc])) hrest
      · simp only [fromBlocks.go]
        rw [if_neg hcs', if_neg (by simp [hc])]
        exact ih _ _ (Or.inr rfl) hrest

theorem TB.fromBlocks_ok (bs : List (Block α)) (n r : Nat) (h : ∀ b ∈ bs, b.RowsOk n) :
    ∃ tb', fromBlocks bs (some r) = .ok tb' := by
  obtain ⟨rc', out, hgo⟩ := fromBlocks_go_ok bs n none [] (Or.inl rfl) h
  unfold fromBlocks
  rw [hgo]
  cases rc' with
  | none => exact ⟨_, rfl⟩
  | some r' => exact ⟨_, rfl⟩

/-- lexicographic order of directory entries -/
def lexLt (p q : Nat × Nat) : Prop := p.1 < q.1 ∨ (p.1 = q.1 ∧ p.2 < q.2)

theorem lexLt_ne {p q : Nat × Nat} (h : lexLt p q) : p ≠ q := by
  intro e; subst e; rcases h with h | ⟨_, h⟩ <;> omega

theorem TB.indexFrom_sorted (bi : Nat) (bs : List (Block α)) :
    (indexFrom bi bs).Pairwise lexLt ∧ ∀ p ∈ indexFrom bi bs, bi ≤ p.1 := by
  induction bs generalizing bi with
  | nil => simp [indexFrom]
  | cons b rest ih =>
    obtain ⟨ih1, ih2⟩ := ih (bi + 1)
    simp only [indexFrom]
    refine ⟨?_, ?_⟩
    · rw [List.pairwise_append]
      refine ⟨?_, ih1, ?_⟩
      · rw [List.pairwise_map]
        exact List.Pairwise.imp (fun h => Or.inr ⟨rfl, h⟩) List.pairwise_lt_range
      · intro p hp q hq
        simp only [List.mem_map, List.mem_range] at hp
        obtain ⟨c, _, rfl⟩ := hp
        have := ih2 q hq
        exact Or.inl (by simp; omega)
    · intro p hp
      simp only [List.mem_append, List.mem_map, List.mem_range] at hp
      rcases hp with ⟨c, _, rfl⟩ | hp
      · simp
      · have := ih2 p hp; omega

theorem TB.index_inj (tb : TB α) {a b : Nat} {p : Nat × Nat}
    (ha : tb.index[a]? = some p) (hb : tb.index[b]? = some p) : a = b := by
  have hs := (indexFrom_sorted 0 tb.blocks).1
  rw [List.pairwise_iff_getElem] at hs
  obtain ⟨ha1, ha2⟩ := List.getElem?_eq_some_iff.mp ha
  obtain ⟨hb1, hb2⟩ := List.getElem?_eq_some_iff.mp hb
  rcases Nat.lt_trichotomy a b with hlt | heq | hgt
  · exact absurd (ha2.trans hb2.symm) (lexLt_ne (hs a b ha1 hb1 hlt))
  · exact heq
  · exact absurd (hb2.trans ha2.symm) (lexLt_ne (hs b a hb1 ha1 hgt))

theorem mem_pick {β} {l : List β} {ps : List Nat} {x : β} (h : x ∈ pick l ps) : x ∈ l := by
  unfold pick at h
  rw [List.mem_filterMap] at h
  obtain ⟨p, _, hp⟩ := h
  exact List.mem_of_getElem? hp

theorem TB.pick_index_nodup (tb : TB α) {cps : List Nat} (h : cps.Nodup) : (pick tb.index cps).Nodup := by
  unfold pick
  apply List.Pairwise.filterMap _ _ h
  intro a a' hne b hb b' hb' e
  subst e
  exact hne (tb.index_inj hb hb')

theorem monoRun_lt_one {run : List Nat} (h : MonoRun run) (hw : ∀ c ∈ run, c < 1) : run = [0] := by
  rcases h with ⟨a, len, rfl⟩ | ⟨z, len, rfl⟩
  · have h1 := hw a (by rw [List.mem_range'_1]; omega)
    have h2 := hw (a + len) (by rw [List.mem_range'_1]; omega)
    have : a = 0 := by omega
    have : len = 0 := by omega
    subst_vars; rfl
  · have h1 := hw z (by rw [List.mem_reverse, List.mem_range'_1]; omega)
    have h2 := hw (z + len) (by rw [List.mem_reverse, List.mem_range'_1]; omega)
    have : z = 0 := by omega
    have : len = 0 := by omega
    subst_vars; rfl

theorem contiguousPairs_total (l : List (Nat × Nat)) (bundle : List Nat) :
    ∃ ps, contiguousPairs l none bundle = some ps := by
  cases l with
  | nil => exact ⟨[], rfl⟩
  | cons p rest =>
    obtain ⟨b, c⟩ := p
    simp only [contiguousPairs]
    exact contiguousPairs_total_some rest b c [c] (by simp)

@[simp] theorem Seg.toTgt_pair (s : Seg) : s.toTgt.pair = s.pair := rfl
@[simp] theorem Seg.toTgt_cells (s : Seg) : s.toTgt.cells = s.cells := rfl

theorem Seg.toTgt_ok (tb : TB α) (s : Seg) (hg : s.Good) (hidx : ∀ c ∈ s.run, (s.blk, c) ∈ tb.index) :
    s.toTgt.Ok tb := by
  obtain ⟨hm, hs⟩ := hg
  obtain ⟨c0, hc0⟩ := List.exists_mem_of_ne_nil _ hm.ne_nil
  obtain ⟨blk, hblk, _⟩ := mem_index (hidx c0 hc0)
  have hw : ∀ c ∈ s.run, c < blk.width := by
    intro c hc
    obtain ⟨blk', hblk', hlt⟩ := mem_index (hidx c hc)
    simp only at hblk' hlt hblk
    rw [hblk] at hblk'; cases hblk'; exact hlt
  refine ⟨blk, hblk, monoRun_positions hm hw hs, ?_⟩
  intro h1
  cases blk with
  | d1 t c => exact monoRun_lt_one hm hw
  | d2 t cs => cases h1

/-- the pairs produced from a duplicate-free selection of directory entries -/
theorem TB.contiguous_tgts (tb : TB α) (l : List (Nat × Nat)) (hl : ∀ p ∈ l, p ∈ tb.index) (hnd : l.Nodup) :
    ∃ tgts : List Tgt, contiguousPairs l none [] = some (tgts.map Tgt.pair) ∧
      (∀ t ∈ tgts, t.Ok tb) ∧ tgts.flatMap Tgt.cells = l := by
  obtain ⟨ps, hps⟩ := contiguousPairs_total l []
  obtain ⟨segs, rfl, hflat, hgood, _⟩ := contiguousPairs_struct l [] ps hps hnd
  refine ⟨segs.map Seg.toTgt, ?_, ?_, ?_⟩
  · rw [hps]; simp [List.map_map, Function.comp_def]
  · intro t ht
    obtain ⟨s, hs, rfl⟩ := List.mem_map.mp ht
    apply Seg.toTgt_ok tb s (hgood s hs)
    intro c hc
    apply hl
    rw [← hflat, List.mem_flatMap]
    exact ⟨s, hs, List.mem_map.mpr ⟨c, hc, rfl⟩⟩
  · rw [← hflat]; simp [List.flatMap_map]

theorem TB.indexFrom_eq_flatMap (bi : Nat) (bs : List (Block α)) :
    indexFrom bi bs = (bs.zipIdx bi).flatMap (fun (x : Block α × Nat) => (List.range x.1.width).map (fun c => (x.2, c))) := by
  induction bs generalizing bi with
  | nil => rfl
  | cons b rest ih => simp [indexFrom, List.zipIdx_cons, ih]

/-- the `_all_block_slices` selection of one block -/
def allSel (b : Block α) : BSel :=
  match b with
  | .d1 _ _ => .sl UNIT_SLICE
  | .d2 _ cs => .sl ⟨some 0, some (cs.length : Int), none⟩

theorem allSel_positions (b : Block α) : (allSel b).positions b.width = .ok (List.range b.width) := by
  cases b with
  | d1 t c =>
    show UNIT_SLICE.positions 1 = .ok (List.range 1)
    decide
  | d2 t cs =>
    simp only [allSel, BSel.positions, Block.width]
    cases hl : cs.length with
    | zero => decide
    | succ n =>
      have := positions_asc 0 n (n + 1) (by omega)
      simp only [Int.natCast_zero, Int.zero_add] at this
      rw [List.range_eq_range', ← this]
      simp only [Int.natCast_add, Int.natCast_one]

theorem mem_zipIdx_getElem? {β} {l : List β} {x : β} {i k : Nat} (h : (x, i) ∈ l.zipIdx k) :
    k ≤ i ∧ l[i - k]? = some x := by
  rw [List.mem_zipIdx_iff_le_and_getElem?_sub] at h
  exact h

theorem TB.all_tgts (tb : TB α) :
    ∃ tgts : List Tgt, allBlockSlices tb = tgts.map Tgt.pair ∧
      (∀ t ∈ tgts, t.Ok tb) ∧ tgts.flatMap Tgt.cells = tb.index := by
  refine ⟨tb.blocks.zipIdx.map (fun x => ⟨x.2, allSel x.1, List.range x.1.width⟩), ?_, ?_, ?_⟩
  · simp only [allBlockSlices, List.map_map]
    apply List.map_congr_left
    intro x _
    obtain ⟨b, i⟩ := x
    cases b <;> rfl
  · intro t ht
    obtain ⟨x, hx, rfl⟩ := List.mem_map.mp ht
    obtain ⟨b, i⟩ := x
    obtain ⟨_, hb⟩ := mem_zipIdx_getElem? hx
    refine ⟨b, by simpa using hb, allSel_positions b, ?_⟩
    intro h1
    cases b with
    | d1 t c => rfl
    | d2 t cs => cases h1
  · rw [index, indexFrom_eq_flatMap, List.flatMap_map]
    rfl


theorem TB.int_tgts (tb : TB α) (i : Int) (cps : List Nat) (retain : Bool)
    (hck : (Key.int i).positions tb.ncols = .ok cps) :
    ∃ tgts : List Tgt, keyToBlockSlices tb (.int i) retain = .ok (tgts.map Tgt.pair) ∧
      (∀ t ∈ tgts, t.Ok tb) ∧ tgts.flatMap Tgt.cells = pick tb.index cps := by
  obtain ⟨p, rfl, hp, _⟩ := C04.int_position hck
  have hnp : normPos i tb.index.length = .ok p := by
    rw [index_length]
    simp only [Key.positions] at hck
    cases hn : normPos i tb.ncols with
    | error e => rw [hn] at hck; cases hck
    | ok q => rw [hn] at hck; simp [Except.map] at hck; rw [hck]
  have hpl : p < tb.index.length := by rw [index_length]; exact hp
  obtain ⟨blk, hblk, hlt⟩ := mem_index (List.getElem_mem hpl)
  refine ⟨[⟨tb.index[p].1, .col tb.index[p].2, [tb.index[p].2]⟩], ?_, ?_, ?_⟩
  · simp only [keyToBlockSlices, hnp, List.getElem?_eq_getElem hpl]
    rfl
  · intro t ht
    simp only [List.mem_singleton] at ht; subst ht
    refine ⟨blk, hblk, ?_, ?_⟩
    · simp [BSel.positions, hlt]
    · intro h1
      cases blk with
      | d1 t c => simp only [Block.width] at hlt; simp; omega
      | d2 t cs => cases h1
  · simp [Tgt.cells, pick, List.getElem?_eq_getElem hpl]

theorem TB.key_tgts_retain (tb : TB α) (ck : Key) (cps : List Nat)
    (hck : ck.positions tb.ncols = .ok cps) (hnd : cps.Nodup) :
    ∃ tgts : List Tgt, keyToBlockSlices tb ck true = .ok (tgts.map Tgt.pair) ∧
      (∀ t ∈ tgts, t.Ok tb) ∧ tgts.flatMap Tgt.cells = pick tb.index cps := by
  have hsel : ∀ ps : List Nat, ps.Nodup →
      ∃ tgts : List Tgt, contiguousPairs (pick tb.index ps) none [] = some (tgts.map Tgt.pair) ∧
        (∀ t ∈ tgts, t.Ok tb) ∧ tgts.flatMap Tgt.cells = pick tb.index ps :=
    fun ps hps => tb.contiguous_tgts _ (fun p hp => mem_pick hp) (tb.pick_index_nodup hps)
  cases ck with
  | all =>
    obtain ⟨tgts, h1, h2, h3⟩ := tb.all_tgts
    simp only [Key.positions, Except.ok.injEq] at hck
    subst hck
    refine ⟨tgts, by simp only [keyToBlockSlices, h1], h2, ?_⟩
    rw [h3, ← index_length, pick_range]
  | int i => exact tb.int_tgts i cps true hck
  | slice s =>
    obtain ⟨tgts, h1, h2, h3⟩ := hsel cps hnd
    refine ⟨tgts, ?_, h2, h3⟩
    simp only [Key.positions] at hck
    simp only [keyToBlockSlices, if_true, pyListSlice, index_length, hck, h1]
  | mask bs =>
    obtain ⟨tgts, h1, h2, h3⟩ := hsel cps hnd
    refine ⟨tgts, ?_, h2, h3⟩
    simp only [Key.positions] at hck
    split at hck
    · rename_i hlen
      simp only [Except.ok.injEq] at hck
      subst hck
      have : ¬ (bs.length > tb.index.length ∧ (bs.drop tb.index.length).any id = true) := by
        rw [index_length]; omega
      simp only [keyToBlockSlices, if_neg this, h1]
    · cases hck
  | list is =>
    obtain ⟨tgts, h1, h2, h3⟩ := hsel cps hnd
    refine ⟨tgts, ?_, h2, h3⟩
    simp only [Key.positions] at hck
    simp only [keyToBlockSlices, index_length, hck, if_true, h1]

theorem TB.fromBlocks_spec (bs : List (Block α)) (ref : Option Nat) (tb : TB α)
    (h : TB.fromBlocks bs ref = .ok tb) :
    tb.WF ∧ tb.cols = bs.flatMap Block.colsOf ∧ tb.dtypes = bs.flatMap (fun b => List.replicate b.width b.dt) := by
  unfold fromBlocks at h
  split at h
  · cases h
  · rename_i r acc hgo
    simp only [Except.ok.injEq] at h
    subst h
    obtain ⟨h1, h2, h3, h4⟩ := fromBlocks_go_spec _ _ _ _ _ hgo
    simp only [List.reverse_nil, List.nil_append] at h1
    subst h1
    refine ⟨⟨?_, ?_⟩, ?_, ?_⟩
    · intro b hb; simpa using (List.mem_filter.mp hb).2
    · exact h3 r rfl
    · exact (flatMap_filter_width bs).1
    · exact (flatMap_filter_width bs).2
  · rename_i acc hgo
    obtain ⟨h1, h2, h3, h4⟩ := fromBlocks_go_spec _ _ _ _ _ hgo
    simp only [List.reverse_nil, List.nil_append] at h1
    have hnil := h4 rfl
    split at h
    · simp only [Except.ok.injEq] at h
      subst h
      subst h1
      refine ⟨⟨?_, ?_⟩, ?_, ?_⟩
      · intro b hb; simpa using (List.mem_filter.mp hb).2
      · intro b hb; rw [hnil] at hb; cases hb
      · exact (flatMap_filter_width bs).1
      · exact (flatMap_filter_width bs).2
    · cases h

theorem pick_map_of {β γ} (l : List β) (ps : List Nat) (F : β → γ) (G : Nat → γ)
    (hlt : ∀ j ∈ ps, j < l.length) (h : ∀ j x, l[j]? = some x → F x = G j) :
    (pick l ps).map F = ps.map G := by
  unfold pick
  induction ps with
  | nil => rfl
  | cons j ps ih =>
    have hj : j < l.length := hlt j (by simp)
    simp only [List.filterMap_cons, List.getElem?_eq_getElem hj, List.map_cons]
    rw [ih (fun q hq => hlt q (by simp [hq])), h j _ (List.getElem?_eq_getElem hj)]

theorem flatMap_congr' {β γ} {l : List β} {f g : β → List γ} (h : ∀ x ∈ l, f x = g x) :
    l.flatMap f = l.flatMap g := by
  induction l with
  | nil => rfl
  | cons a l ih =>
    rw [List.flatMap_cons, List.flatMap_cons, h a List.mem_cons_self,
      ih (fun x hx => h x (List.mem_cons_of_mem _ hx))]

theorem rowSel_length (rpo : Option (List Nat)) (c : List α) (n : Nat)
    (h : match rpo with | none => c.length = n | some ps => ps.length = n ∧ ∀ p ∈ ps, p < c.length) :
    (rowSel rpo c).length = n := by
  cases rpo with
  | none => exact h
  | some ps => simp only [rowSel]; rw [pick_length _ _ h.2]; exact h.1

/-- every cell of the directory holds a column with `rows` cells -/
theorem TB.colAt_length (tb : TB α) (hwf : tb.WF) {p : Nat × Nat} (hp : p ∈ tb.index) :
    (tb.colAt p).length = tb.rows := by
  obtain ⟨j, hj⟩ := List.mem_iff_getElem?.mp hp
  obtain ⟨h1, _⟩ := tb.index_colAt j p hj
  have hmem : tb.colAt p ∈ tb.cols := List.mem_of_getElem? h1
  simp only [cols, List.mem_flatMap] at hmem
  obtain ⟨b, hb, hcb⟩ := hmem
  exact hwf.2 b hb _ hcb

theorem TB.extract_spec (tb : TB α) (h : tb.WF) (rk ck : Key) (rps cps : List Nat)
    (hck : ck.positions tb.ncols = .ok cps) (hnd : cps.Nodup) (hrk : rk.positions tb.rows = .ok rps) :
    ∃ r, tb.extract rk ck = .ok r ∧
      r.cols = cps.map (fun j => pick (tb.cols.getD j []) rps) ∧
      r.dtypes = cps.map (fun j => tb.dtypes.getD j "") ∧ r.rows = rps.length := by
  obtain ⟨tgts, hk, hok, hcells⟩ := tb.key_tgts_retain ck cps hck hnd
  have hcpslt := C04.key_positions_in_range hck
  have hrpslt := C04.key_positions_in_range hrk
  -- the row selection
  obtain ⟨rpo, hrpo, hsel, hlen⟩ : ∃ rpo : Option (List Nat), rowPositions tb rk = .ok rpo ∧
      (∀ c : List α, c.length = tb.rows → rowSel rpo c = pick c rps) ∧
      (match rpo with | none => tb.rows | some ps => ps.length) = rps.length := by
    by_cases hall : rk = .all
    · subst hall
      simp only [Key.positions, Except.ok.injEq] at hrk
      subst hrk
      refine ⟨none, rfl, ?_, by simp⟩
      intro c hc; rw [← hc, pick_range]; rfl
    · refine ⟨some rps, ?_, fun c _ => rfl, rfl⟩
      cases rk with
      | all => exact absurd rfl hall
      | _ => simp only [rowPositions, hrk]; rfl
  have hblocks := sliceBlocks_tgts tb rpo tgts hok
  have hcellmem : ∀ t ∈ tgts, ∀ p ∈ t.cells, p ∈ tb.index := by
    intro t ht p hp
    have : p ∈ tgts.flatMap Tgt.cells := List.mem_flatMap.mpr ⟨t, ht, hp⟩
    rw [hcells] at this
    exact mem_pick this
  have hrows : ∀ b ∈ tgts.map (slicedTgt tb rpo), b.RowsOk rps.length := by
    intro b hb
    obtain ⟨t, ht, rfl⟩ := List.mem_map.mp hb
    intro c hc
    rw [(slicedTgt_spec tb rpo t (hok t ht)).1] at hc
    obtain ⟨p, hp, rfl⟩ := List.mem_map.mp hc
    have hl := tb.colAt_length h (hcellmem t ht p hp)
    rw [hsel _ hl, pick_length]
    intro q hq; rw [hl]; exact hrpslt q hq
  obtain ⟨tb', htb'⟩ := fromBlocks_ok (tgts.map (slicedTgt tb rpo)) rps.length tb.rows hrows
  obtain ⟨_, hcols, hdts⟩ := TB.fromBlocks_spec _ _ _ htb'
  have hflat : ∀ {γ} (f : Block α → List γ) (F : Nat × Nat → γ),
      (∀ t ∈ tgts, f (slicedTgt tb rpo t) = t.cells.map F) →
      (tgts.map (slicedTgt tb rpo)).flatMap f = (pick tb.index cps).map F := by
    intro γ f F hf
    rw [← hcells, List.flatMap_map, List.map_flatMap]
    exact flatMap_congr' hf
  refine ⟨{ tb' with rows := rps.length }, ?_, ?_, ?_, rfl⟩
  · simp only [extract, hrpo, hk, hblocks, bind, Except.bind, htb']
    cases rpo with
    | none => simp only at hlen ⊢; rw [hlen]
    | some ps => simp only at hlen ⊢; rw [hlen]
  · show tb'.cols = _
    rw [hcols, hflat _ _ (fun t ht => (slicedTgt_spec tb rpo t (hok t ht)).1)]
    apply pick_map_of
    · intro j hj; rw [index_length]; exact hcpslt j hj
    · intro j p hj
      have hl := tb.colAt_length h (List.mem_of_getElem? hj)
      rw [hsel _ hl, List.getD_eq_getElem?_getD, (tb.index_colAt j p hj).1]
      rfl
  · show tb'.dtypes = _
    rw [hdts, hflat _ _ (fun t ht => (slicedTgt_spec tb rpo t (hok t ht)).2)]
    apply pick_map_of
    · intro j hj; rw [index_length]; exact hcpslt j hj
    · intro j p hj
      rw [List.getD_eq_getElem?_getD, (tb.index_colAt j p hj).2]
      rfl

/-! ### `_drop_blocks` and the column-wise map generators -/

/-- row deletion on one column (the `del` inside `rowDelete`) -/
def delRows (rdel : Option (List Nat)) (c : List α) : List α :=
  match rdel with
  | none => c
  | some ps => (c.zipIdx.filter (fun (_, i) => ¬ ps.contains i)).map (·.1)

theorem rowDelete_spec (rdel : Option (List Nat)) (b : Block α) :
    (rowDelete rdel b).colsOf = b.colsOf.map (delRows rdel) ∧ (rowDelete rdel b).dt = b.dt ∧
    (rowDelete rdel b).width = b.width := by
  cases b with
  | d1 t c => exact ⟨rfl, rfl, rfl⟩
  | d2 t cs => exact ⟨rfl, rfl, by simp [rowDelete, Block.width]⟩

theorem delRows_length (rdel : Option (List Nat)) (c : List α) :
    (delRows rdel c).length = match rdel with
      | none => c.length
      | some ps => ((List.range c.length).filter (fun i => ¬ ps.contains i)).length := by
  cases rdel with
  | none => rfl
  | some ps =>
    simp only [delRows, List.length_map]
    have : ((c.zipIdx.filter (fun x => ¬ ps.contains x.2)).map (·.2)) =
        (List.range c.length).filter (fun i => ¬ ps.contains i) := by
      have h2 : List.range c.length = c.zipIdx.map (·.2) := by
        simp [List.zipIdx_map_snd, List.range_eq_range']
      rw [h2, List.filter_map]
      rfl
    rw [← this, List.length_map]

theorem TB.dropBlocksGo_nil (rdel : Option (List Nat)) (bi : Nat) (bs : List (Block α)) :
    dropBlocksGo rdel bi bs [] = some (bs.map (rowDelete rdel)) := by
  induction bs generalizing bi with
  | nil => rfl
  | cons b rest ih => simp [dropBlocksGo, ih]

theorem flatMap_colsOf_map (bs : List (Block α)) (f : Block α → Block α) (g : List α → List α)
    (h : ∀ b, (f b).colsOf = b.colsOf.map g) :
    (bs.map f).flatMap Block.colsOf = (bs.flatMap Block.colsOf).map g := by
  rw [List.flatMap_map, List.map_flatMap]
  exact flatMap_congr' (fun b _ => h b)

/-- `(dtype, column)` view of a block / block list -/
def Block.colsDT (b : Block α) : List (DT × List α) := b.colsOf.map (fun c => (b.dt, c))
def colsDT (bs : List (Block α)) : List (DT × List α) := bs.flatMap Block.colsDT

theorem colsDT_snd (bs : List (Block α)) : (colsDT bs).map Prod.snd = bs.flatMap Block.colsOf := by
  simp only [colsDT, List.map_flatMap, Block.colsDT, List.map_map]
  apply flatMap_congr'
  intro b _; simp [Function.comp_def]

theorem colsDT_fst (bs : List (Block α)) :
    (colsDT bs).map Prod.fst = bs.flatMap (fun b => List.replicate b.width b.dt) := by
  simp only [colsDT, List.map_flatMap, Block.colsDT, List.map_map]
  apply flatMap_congr'
  intro b _
  apply List.ext_getElem
  · simp
  · intro i h1 h2; simp

@[simp] theorem colsDT_nil : colsDT ([] : List (Block α)) = [] := rfl
@[simp] theorem colsDT_cons (b : Block α) (bs : List (Block α)) : colsDT (b :: bs) = b.colsDT ++ colsDT bs := rfl
@[simp] theorem colsDT_append (xs ys : List (Block α)) : colsDT (xs ++ ys) = colsDT xs ++ colsDT ys := by
  simp [colsDT]

theorem subCols_eq_map (cs : List (List α)) (a b : Nat) (hb : b ≤ cs.length) :
    subCols cs a b = (List.range' a (b - a)).map (fun c => cs.getD c []) := by
  apply List.ext_getElem
  · simp [subCols]; omega
  · intro i h1 h2
    simp only [subCols, List.getElem_take, List.getElem_drop, List.getElem_map, List.getElem_range',
      List.getD_eq_getElem?_getD]
    simp only [List.length_map, List.length_range'] at h2
    rw [List.getElem?_eq_getElem (by omega)]
    simp

theorem colsDT_d2_subCols (t : DT) (cs : List (List α)) (a b : Nat) (hb : b ≤ cs.length) :
    (Block.d2 t (subCols cs a b)).colsDT = (List.range' a (b - a)).map (fun c => (t, cs.getD c [])) := by
  simp [Block.colsDT, Block.colsOf, Block.dt, subCols_eq_map cs a b hb]

/-- an ascending target: block `blk`, columns `a .. a+len` -/
structure ATgt where
  blk : Nat
  sel : BSel
  a : Nat
  len : Nat

def ATgt.pair (t : ATgt) : Nat × BSel := (t.blk, t.sel)
def ATgt.hi (t : ATgt) : Nat := t.a + t.len + 1
def ATgt.cells (t : ATgt) : List (Nat × Nat) := (List.range' t.a (t.len + 1)).map (fun c => (t.blk, c))
/-- strictly later target, with a gap inside the same block -/
def ALt (t1 t2 : ATgt) : Prop := t1.blk < t2.blk ∨ (t1.blk = t2.blk ∧ t1.hi < t2.a)

/-- `f` acts column-wise: `fd` on the dtype, `fc` on every column -/
structure ColFn (f : Block α → Block α) (fd : DT → DT) (fc : List α → List α) : Prop where
  d1 : ∀ t c, f (.d1 t c) = .d1 (fd t) (fc c)
  d2 : ∀ t cs, f (.d2 t cs) = .d2 (fd t) (cs.map fc)

theorem range'_split3 (ps a hi ps' : Nat) (h1 : ps ≤ a) (h2 : a ≤ hi) (h3 : hi ≤ ps') :
    List.range' ps (ps' - ps) = List.range' ps (a - ps) ++ (List.range' a (hi - a) ++ List.range' hi (ps' - hi)) := by
  have e1 : ps' - ps = (a - ps) + ((hi - a) + (ps' - hi)) := by omega
  rw [e1, ← List.range'_append_1, ← List.range'_append_1]
  congr 2
  · congr 1 <;> omega
  · congr 1; omega

/-- the sub-block `mapWalk` hands to `f` -/
def mapTarget (t : DT) (cs : List (List α)) (sel : BSel) (a hi : Nat) : Block α :=
  match sel with
  | .col c => Block.d1 t (cs.getD c [])
  | .sl _ => Block.d2 t (subCols cs a hi)

theorem mapWalk_target_colsDT {f : Block α → Block α} {fd fc} (hf : ColFn f fd fc) (t : DT)
    (cs : List (List α)) (sel : BSel) (a hi : Nat) (hr : sel.range = some (a, hi)) (hlt : a < hi)
    (hhi : hi ≤ cs.length) :
    (f (mapTarget t cs sel a hi)).colsDT
      = (List.range' a (hi - a)).map (fun c => (fd t, fc (cs.getD c []))) := by
  unfold mapTarget
  cases sel with
  | col c =>
    simp only [BSel.range, Option.some.injEq, Prod.mk.injEq] at hr
    obtain ⟨rfl, rfl⟩ := hr
    simp [hf.d1, Block.colsDT, Block.colsOf, Block.dt, List.range'_succ]
  | sl s =>
    simp only [hf.d2, Block.colsDT, Block.colsOf, Block.dt, subCols_eq_map cs a hi hhi, List.map_map]
    rfl


theorem mapWalk_spec {f : Block α → Block α} {fd fc} (hf : ColFn f fd fc) (t : DT) (cs : List (List α))
    (bi : Nat) (cov : Nat → Bool) (pre post : List ATgt) (ps : Nat) (parts : List (Block α))
    (hpre : ∀ p ∈ pre, p.blk = bi ∧ p.sel.range = some (p.a, p.hi) ∧ p.hi ≤ cs.length)
    (hsorted : pre.Pairwise ALt) (hps : ∀ p ∈ pre, ps ≤ p.a) (hpsl : ps ≤ cs.length)
    (hpost : ∀ q, post.head? = some q → q.blk ≠ bi)
    (hcov : ∀ c, ps ≤ c → (cov c = true ↔ ∃ p ∈ pre, p.a ≤ c ∧ c < p.hi)) :
    ∃ parts' ps', mapWalk f t cs bi ((pre ++ post).map ATgt.pair) ps parts
        = some (parts ++ parts', ps', post.map ATgt.pair) ∧
      ps ≤ ps' ∧ ps' ≤ cs.length ∧ (∀ p ∈ pre, p.hi ≤ ps') ∧
      colsDT parts' = (List.range' ps (ps' - ps)).map
        (fun c => if cov c then (fd t, fc (cs.getD c [])) else (t, cs.getD c [])) := by
  induction pre generalizing ps parts with
  | nil =>
    refine ⟨[], ps, ?_, Nat.le_refl _, hpsl, by simp, by simp⟩
    cases post with
    | nil => simp [mapWalk]
    | cons q post' =>
      have hq := hpost q rfl
      simp only [List.nil_append, List.map_cons, mapWalk, ATgt.pair, ne_eq, hq, not_false_eq_true,
        if_true, List.append_nil]
  | cons p pre' ih =>
    obtain ⟨hblk, hrange, hhi⟩ := hpre p List.mem_cons_self
    have hpa := hps p List.mem_cons_self
    rw [List.pairwise_cons] at hsorted
    obtain ⟨hp_lt, hsorted'⟩ := hsorted
    have hahi : p.a < p.hi := by simp [ATgt.hi]; omega
    have hnext : ∀ p' ∈ pre', p.hi < p'.a := by
      intro p' hp'
      have hb' := (hpre p' (List.mem_cons_of_mem _ hp')).1
      rcases hp_lt p' hp' with h | ⟨_, h⟩
      · omega
      · exact h
    let parts1 := if p.a > ps then parts ++ [Block.d2 t (subCols cs ps p.a)] else parts
    let target : Block α := mapTarget t cs p.sel p.a p.hi
    obtain ⟨parts'', ps', hw, h1, h2, h3, h4⟩ := ih p.hi (parts1 ++ [f target])
      (fun q hq => hpre q (List.mem_cons_of_mem _ hq)) hsorted'
      (fun q hq => Nat.le_of_lt (hnext q hq)) hhi
      (by
        intro c hc
        rw [hcov c (by omega)]
        constructor
        · rintro ⟨q, hq, hq1, hq2⟩
          rw [List.mem_cons] at hq
          rcases hq with rfl | hq
          · omega
          · exact ⟨q, hq, hq1, hq2⟩
        · rintro ⟨q, hq, hq1, hq2⟩
          exact ⟨q, List.mem_cons_of_mem _ hq, hq1, hq2⟩)
    have hgapcov : ∀ c, ps ≤ c → c < p.a → cov c = false := by
      intro c hc1 hc2
      cases hcv : cov c with
      | false => rfl
      | true =>
        obtain ⟨q, hq, hq1, hq2⟩ := (hcov c hc1).mp hcv
        rw [List.mem_cons] at hq
        rcases hq with rfl | hq
        · omega
        · have := hnext q hq; omega
    have htcov : ∀ c, p.a ≤ c → c < p.hi → cov c = true := by
      intro c hc1 hc2
      exact (hcov c (by omega)).mpr ⟨p, List.mem_cons_self, hc1, hc2⟩
    have htarget := mapWalk_target_colsDT hf t cs p.sel p.a p.hi hrange hahi hhi
    refine ⟨(if p.a > ps then [Block.d2 t (subCols cs ps p.a)] else []) ++ ([f target] ++ parts''), ps', ?_,
      by omega, h2, ?_, ?_⟩
    · simp only [List.cons_append, List.map_cons, mapWalk, ATgt.pair, hblk, ne_eq, not_true_eq_false,
        if_false, hrange]
      show mapWalk f t cs bi _ p.hi (parts1 ++ [f target]) = _
      rw [hw]
      congr 2
      simp only [parts1]
      split <;> simp
    · intro q hq
      rw [List.mem_cons] at hq
      rcases hq with rfl | hq
      · exact h1
      · exact h3 q hq
    · rw [colsDT_append, colsDT_append, h4, range'_split3 ps p.a p.hi ps' hpa (Nat.le_of_lt hahi) h1,
        List.map_append, List.map_append]
      congr 1
      · by_cases hgt : p.a > ps
        · rw [if_pos hgt]
          simp only [colsDT_cons, colsDT_nil, List.append_nil, colsDT_d2_subCols t cs ps p.a (by omega)]
          apply List.map_congr_left
          intro c hc
          rw [List.mem_range'_1] at hc
          rw [hgapcov c hc.1 (by omega)]; rfl
        · have : p.a - ps = 0 := by omega
          rw [if_neg hgt, this]; rfl
      · congr 1
        simp only [colsDT_cons, colsDT_nil, List.append_nil]
        rw [htarget]
        apply List.map_congr_left
        intro c hc
        rw [List.mem_range'_1] at hc
        rw [htcov c hc.1 (by omega)]; rfl

theorem ALt.blk_le {t1 t2 : ATgt} (h : ALt t1 t2) : t1.blk ≤ t2.blk := by
  rcases h with h | ⟨h, _⟩ <;> omega

/-- split sorted targets into those of block `bi` and the later ones -/
theorem split_targets (bi : Nat) (tgts : List ATgt) (hge : ∀ t ∈ tgts, bi ≤ t.blk)
    (hsorted : tgts.Pairwise ALt) :
    ∃ pre post, tgts = pre ++ post ∧ (∀ p ∈ pre, p.blk = bi) ∧ (∀ q ∈ post, bi < q.blk) := by
  induction tgts with
  | nil => exact ⟨[], [], rfl, by simp, by simp⟩
  | cons t ts ih =>
    rw [List.pairwise_cons] at hsorted
    by_cases ht : t.blk = bi
    · obtain ⟨pre, post, h1, h2, h3⟩ := ih (fun x hx => hge x (List.mem_cons_of_mem _ hx)) hsorted.2
      refine ⟨t :: pre, post, by rw [h1]; rfl, ?_, h3⟩
      intro p hp
      rw [List.mem_cons] at hp
      rcases hp with rfl | hp
      · exact ht
      · exact h2 p hp
    · refine ⟨[], t :: ts, rfl, by simp, ?_⟩
      have := hge t List.mem_cons_self
      intro q hq
      rw [List.mem_cons] at hq
      rcases hq with rfl | hq
      · omega
      · have := (hsorted.1 q hq).blk_le; omega

theorem Block.colsDT_eq_range (b : Block α) :
    b.colsDT = (List.range b.width).map (fun c => (b.dt, b.colsOf.getD c [])) := by
  apply List.ext_getElem
  · simp [Block.colsDT]
  · intro i h1 h2
    simp only [Block.colsDT, List.length_map, Block.colsOf_length] at h1
    simp [Block.colsDT, List.getD_eq_getElem?_getD, List.getElem?_eq_getElem (show i < b.colsOf.length by simpa using h1)]

/-- the expected `(dtype, column)` list after mapping the covered cells -/
def mapSpec (cov : Nat × Nat → Bool) (hh : DT × List α → DT × List α) : Nat → List (Block α) → List (DT × List α)
  | _, [] => []
  | bi, b :: rest =>
    (List.range b.width).map (fun c =>
      if cov (bi, c) then hh (b.dt, b.colsOf.getD c []) else (b.dt, b.colsOf.getD c [])) ++
    mapSpec cov hh (bi + 1) rest

theorem dropWhile_map_pair (bi : Nat) (pre post : List ATgt) (h1 : ∀ p ∈ pre, p.blk = bi)
    (h2 : ∀ q ∈ post, bi < q.blk) :
    ((pre ++ post).map ATgt.pair).dropWhile (fun x => decide (x.1 = bi)) = post.map ATgt.pair := by
  induction pre with
  | nil =>
    cases post with
    | nil => rfl
    | cons q post' =>
      have := h2 q List.mem_cons_self
      simp only [List.nil_append, List.map_cons, List.dropWhile_cons, ATgt.pair]
      rw [if_neg (by simp; omega)]
  | cons p pre' ih =>
    simp only [List.cons_append, List.map_cons, List.dropWhile_cons, ATgt.pair]
    rw [if_pos (by simp [h1 p List.mem_cons_self])]
    exact ih (fun x hx => h1 x (List.mem_cons_of_mem _ hx))

theorem mapBlocksGo_spec {f : Block α → Block α} {fd fc} (hf : ColFn f fd fc) (skip : Block α → Bool)
    (skipT : DT → Bool) (hskip : ∀ b, skip b = skipT b.dt)
    (cov : Nat × Nat → Bool) (bi : Nat) (bs : List (Block α)) (tgts : List ATgt)
    (hok : ∀ t ∈ tgts, t.sel.range = some (t.a, t.hi) ∧ bi ≤ t.blk ∧
      ∃ b, bs[t.blk - bi]? = some b ∧ t.hi ≤ b.width)
    (hsorted : tgts.Pairwise ALt)
    (hcov : ∀ p : Nat × Nat, bi ≤ p.1 →
      (cov p = true ↔ ∃ t ∈ tgts, t.blk = p.1 ∧ t.a ≤ p.2 ∧ p.2 < t.hi)) :
    ∃ out, mapBlocksGo f skip bi bs (tgts.map ATgt.pair) = some out ∧
      colsDT out = mapSpec cov (fun x => if skipT x.1 then x else (fd x.1, fc x.2)) bi bs := by
  induction bs generalizing bi tgts with
  | nil => exact ⟨[], by simp [mapBlocksGo], rfl⟩
  | cons b rest ih =>
    obtain ⟨pre, post, rfl, hpre, hpost⟩ := split_targets bi tgts (fun t ht => (hok t ht).2.1) hsorted
    rw [List.pairwise_append] at hsorted
    obtain ⟨hspre, hspost, hcross⟩ := hsorted
    -- recursive call on the remaining blocks
    obtain ⟨out', hout', hspec'⟩ := ih (bi + 1) post
      (by
        intro t ht
        obtain ⟨h1, h2, b', h3, h4⟩ := hok t (List.mem_append_right _ ht)
        have := hpost t ht
        refine ⟨h1, by omega, b', ?_, h4⟩
        have e : t.blk - bi = (t.blk - (bi + 1)) + 1 := by omega
        rw [e, List.getElem?_cons_succ] at h3
        exact h3)
      hspost
      (by
        intro p hp
        rw [hcov p (by omega)]
        constructor
        · rintro ⟨t, ht, h1, h2⟩
          rw [List.mem_append] at ht
          rcases ht with ht | ht
          · have := hpre t ht; omega
          · exact ⟨t, ht, h1, h2⟩
        · rintro ⟨t, ht, h1, h2⟩
          exact ⟨t, List.mem_append_right _ ht, h1, h2⟩)
    have hcovb : ∀ c, cov (bi, c) = true ↔ ∃ p ∈ pre, p.a ≤ c ∧ c < p.hi := by
      intro c
      rw [hcov (bi, c) (Nat.le_refl _)]
      constructor
      · rintro ⟨t, ht, h1, h2⟩
        rw [List.mem_append] at ht
        rcases ht with ht | ht
        · exact ⟨t, ht, h2⟩
        · have := hpost t ht; simp only at h1; omega
      · rintro ⟨t, ht, h2⟩
        exact ⟨t, List.mem_append_left _ ht, hpre t ht, h2⟩
    have hwidth : ∀ p ∈ pre, p.hi ≤ b.width := by
      intro p hp
      obtain ⟨_, _, b', h3, h4⟩ := hok p (List.mem_append_left _ hp)
      rw [hpre p hp, Nat.sub_self, List.getElem?_cons_zero] at h3
      cases h3; exact h4
    simp only [mapSpec]
    cases pre with
    | nil =>
      have hnc : ∀ c, cov (bi, c) = false := by
        intro c
        cases h : cov (bi, c) with
        | false => rfl
        | true => obtain ⟨p, hp, _⟩ := (hcovb c).mp h; cases hp
      refine ⟨b :: out', ?_, ?_⟩
      · cases post with
        | nil => simp only [List.append_nil, List.map_nil, mapBlocksGo] at hout' ⊢; rw [hout']; rfl
        | cons q post' =>
          have hq := hpost q List.mem_cons_self
          have hne : q.blk ≠ bi := by omega
          simp only [List.nil_append, List.map_cons, mapBlocksGo, ATgt.pair, ne_eq, hne,
            not_false_eq_true, if_true] at hout' ⊢
          rw [hout']; rfl
      · rw [colsDT_cons, hspec', Block.colsDT_eq_range]
        congr 1
        apply List.map_congr_left
        intro c _
        rw [hnc c]; rfl
    | cons t pre' =>
      have htb : t.blk = bi := hpre t List.mem_cons_self
      by_cases hsk : skip b = true
      · refine ⟨b :: out', ?_, ?_⟩
        · have hdw := dropWhile_map_pair bi (t :: pre') post hpre hpost
          simp only [List.cons_append, List.map_cons] at hdw
          simp only [List.cons_append, List.map_cons, mapBlocksGo, ATgt.pair, htb, ne_eq,
            not_true_eq_false, if_false, hsk, if_true]
          simp only [ATgt.pair, htb] at hdw
          rw [hdw, hout']; rfl
        · rw [colsDT_cons, hspec', Block.colsDT_eq_range]
          congr 1
          apply List.map_congr_left
          intro c _
          have : skipT b.dt = true := by rw [← hskip]; exact hsk
          simp [this]
      · have hskT : skipT b.dt = false := by
          rw [← hskip]; simpa using hsk
        cases b with
        | d1 dt col =>
          simp only [Block.dt] at hskT
          have hpre'nil : pre' = [] := by
            cases pre' with
            | nil => rfl
            | cons p' pre'' =>
              exfalso
              rw [List.pairwise_cons] at hspre
              have h1 := hspre.1 p' List.mem_cons_self
              have h2 := hwidth p' (List.mem_cons_of_mem _ List.mem_cons_self)
              have h3 := hpre p' (List.mem_cons_of_mem _ List.mem_cons_self)
              simp only [Block.width] at h2
              rcases h1 with h1 | ⟨_, h1⟩
              · omega
              · simp only [ATgt.hi] at h1 h2; omega
          subst hpre'nil
          have hthi := hwidth t List.mem_cons_self
          simp only [Block.width, ATgt.hi] at hthi
          refine ⟨f (Block.d1 dt col) :: out', ?_, ?_⟩
          · simp only [List.cons_append, List.nil_append, List.map_cons, mapBlocksGo, ATgt.pair, htb, ne_eq,
              not_true_eq_false, if_false, hsk, List.tail_cons, Bool.false_eq_true]
            rw [hout']; rfl
          · rw [colsDT_cons, hspec']
            congr 1
            have hc0 : cov (bi, 0) = true :=
              (hcovb 0).mpr ⟨t, List.mem_cons_self, by omega, by simp [ATgt.hi]⟩
            simp [hf.d1, Block.colsDT, Block.colsOf, Block.dt, Block.width, hc0, hskT]
        | d2 dt cs =>
          simp only [Block.dt] at hskT
          obtain ⟨parts', ps', hw, _, hps'l, hhi, hparts⟩ :=
            mapWalk_spec hf dt cs bi (fun c => cov (bi, c)) (t :: pre') post 0 []
              (by
                intro p hp
                refine ⟨hpre p hp, (hok p (List.mem_append_left _ hp)).1, ?_⟩
                have := hwidth p hp
                simpa [Block.width] using this)
              hspre (fun _ _ => Nat.zero_le _) (Nat.zero_le _)
              (by
                intro q hq
                have := hpost q (List.mem_of_mem_head? hq)
                omega)
              (fun c _ => hcovb c)
          simp only [List.nil_append] at hw
          have hbeyond : ∀ c, ps' ≤ c → cov (bi, c) = false := by
            intro c hc
            cases h : cov (bi, c) with
            | false => rfl
            | true =>
              obtain ⟨p, hp, _, hp2⟩ := (hcovb c).mp h
              have := hhi p hp; omega
          refine ⟨(if ps' < cs.length then parts' ++ [Block.d2 dt (subCols cs ps' cs.length)] else parts') ++ out',
            ?_, ?_⟩
          · simp only [List.cons_append, List.map_cons, mapBlocksGo, ATgt.pair, htb, ne_eq,
              not_true_eq_false, if_false, hsk, Bool.false_eq_true]
            simp only [List.cons_append, List.map_cons, ATgt.pair, htb] at hw
            rw [hw]
            simp only
            rw [hout']; rfl
          · rw [colsDT_append, hspec']
            congr 1
            simp only [Block.width, Block.dt, Block.colsOf]
            have hsplit : List.range cs.length = List.range' 0 (ps' - 0) ++ List.range' ps' (cs.length - ps') := by
              rw [List.range_eq_range']
              have : cs.length = (ps' - 0) + (cs.length - ps') := by omega
              conv => lhs; rw [this]
              rw [← List.range'_append_1]; simp
            rw [hsplit, List.map_append]
            by_cases hlt : ps' < cs.length
            · rw [if_pos hlt, colsDT_append, hparts]
              congr 1
              · apply List.map_congr_left
                intro c _
                simp [hskT]
              · simp only [colsDT_cons, colsDT_nil, List.append_nil,
                  colsDT_d2_subCols dt cs ps' cs.length (Nat.le_refl _)]
                apply List.map_congr_left
                intro c hc
                rw [List.mem_range'_1] at hc
                rw [hbeyond c hc.1]; rfl
            · have : cs.length - ps' = 0 := by omega
              rw [if_neg hlt, hparts, this]
              simp only [List.range'_zero, List.map_nil, List.append_nil]
              apply List.map_congr_left
              intro c _
              simp [hskT]

theorem TB.pick_index_sorted (tb : TB α) {cps : List Nat} (h : cps.Pairwise (· < ·)) :
    (pick tb.index cps).Pairwise lexLt := by
  unfold pick
  apply List.Pairwise.filterMap _ _ h
  intro a a' hlt b hb b' hb'
  have hs := (indexFrom_sorted 0 tb.blocks).1
  rw [List.pairwise_iff_getElem] at hs
  obtain ⟨ha1, ha2⟩ := List.getElem?_eq_some_iff.mp hb
  obtain ⟨hb1, hb2⟩ := List.getElem?_eq_some_iff.mp hb'
  rw [← ha2, ← hb2]
  exact hs a a' ha1 hb1 hlt

/-- an ascending ±1 run is an interval -/
theorem monoRun_asc {run : List Nat} (h : MonoRun run) (hs : run.Pairwise (· < ·)) :
    ∃ a len, run = List.range' a (len + 1) := by
  rcases h with h | ⟨z, len, rfl⟩
  · exact h
  · cases len with
    | zero => exact ⟨z, 0, by simp [List.range'_succ]⟩
    | succ len =>
      exfalso
      rw [List.range'_succ, List.range'_succ, List.reverse_cons, List.reverse_cons, List.append_assoc,
        List.pairwise_append] at hs
      have := hs.2.1
      simp at this
      omega

/-- weak order of segments -/
def ALe (t1 t2 : ATgt) : Prop := t1.blk < t2.blk ∨ (t1.blk = t2.blk ∧ t1.hi ≤ t2.a)

/-- adjacency break on ascending targets -/
def ABreaks (t1 t2 : ATgt) : Prop := ¬ (t1.blk = t2.blk ∧ t2.a = t1.hi)

def AChain : List ATgt → Prop
  | [] => True
  | [_] => True
  | a :: b :: rest => ABreaks a b ∧ AChain (b :: rest)

theorem pairwise_alt_of_chain (l : List ATgt) (hle : l.Pairwise ALe) (hch : AChain l) : l.Pairwise ALt := by
  induction l with
  | nil => exact List.Pairwise.nil
  | cons s rest ih =>
    rw [List.pairwise_cons] at hle ⊢
    refine ⟨?_, ih hle.2 (by cases rest with | nil => trivial | cons h tl => exact hch.2)⟩
    intro s' hs'
    cases rest with
    | nil => cases hs'
    | cons h tl =>
      have hbr : ABreaks s h := hch.1
      have hsh := hle.1 h List.mem_cons_self
      rw [List.mem_cons] at hs'
      rcases hs' with rfl | hs'
      · rcases hsh with hlt | ⟨heq, hhi⟩
        · exact Or.inl hlt
        · refine Or.inr ⟨heq, ?_⟩
          have : s'.a ≠ s.hi := fun e => hbr ⟨heq, e⟩
          omega
      · have hss' := hle.1 s' (List.mem_cons_of_mem _ hs')
        have hhs' := (List.pairwise_cons.mp hle.2).1 s' hs'
        rcases hss' with hlt | ⟨heq, hhi⟩
        · exact Or.inl hlt
        · refine Or.inr ⟨heq, ?_⟩
          have hha : h.a < h.hi := by simp [ATgt.hi]; omega
          rcases hsh with h1 | ⟨h1, h1'⟩ <;> rcases hhs' with h2 | ⟨h2, h2'⟩ <;> omega

/-- the ascending target a segment stands for -/
def Seg.toATgt (s : Seg) : ATgt := ⟨s.blk, .sl s.sl, s.run.headD 0, s.run.length - 1⟩

theorem Seg.toATgt_of_asc (s : Seg) (hg : s.Good) (a len : Nat) (hr : s.run = List.range' a (len + 1)) :
    s.toATgt = ⟨s.blk, .sl s.sl, a, len⟩ ∧ s.toATgt.sel.range = some (a, a + len + 1) ∧
    s.toATgt.cells = s.cells ∧ s.toATgt.pair = s.pair := by
  have h1 : s.toATgt = ⟨s.blk, .sl s.sl, a, len⟩ := by
    simp [Seg.toATgt, hr, List.range'_succ]
  have hsl := hg.2
  rw [hr, colsToSlice_asc] at hsl
  simp only [Option.some.injEq] at hsl
  refine ⟨h1, ?_, ?_, ?_⟩
  · rw [h1, ← hsl]
    simp only [BSel.range]
    rw [if_pos (by omega)]
    congr 2
  · rw [h1]; simp [ATgt.cells, Seg.cells, hr]
  · rw [h1]; rfl

theorem achain_map (segs : List Seg) (hch : ChainBreaks segs)
    (h : ∀ s1 ∈ segs, ∀ s2 ∈ segs, s1.Breaks s2 → ABreaks s1.toATgt s2.toATgt) :
    AChain (segs.map Seg.toATgt) := by
  induction segs with
  | nil => trivial
  | cons s rest ih =>
    cases rest with
    | nil => trivial
    | cons s2 tl =>
      refine ⟨h s List.mem_cons_self s2 (List.mem_cons_of_mem _ List.mem_cons_self) hch.1, ?_⟩
      exact ih hch.2 (fun a ha b hb => h a (List.mem_cons_of_mem _ ha) b (List.mem_cons_of_mem _ hb))

theorem TB.contiguous_atgts (tb : TB α) (cps : List Nat) (hs : cps.Pairwise (· < ·)) :
    ∃ atgts : List ATgt, contiguousPairs (pick tb.index cps) none [] = some (atgts.map ATgt.pair) ∧
      (∀ t ∈ atgts, t.sel.range = some (t.a, t.hi) ∧ ∃ b, tb.blocks[t.blk]? = some b ∧ t.hi ≤ b.width) ∧
      atgts.Pairwise ALt ∧ atgts.flatMap ATgt.cells = pick tb.index cps := by
  have hsorted := tb.pick_index_sorted hs
  have hnd : (pick tb.index cps).Nodup := hsorted.imp lexLt_ne
  obtain ⟨ps, hps⟩ := contiguousPairs_total (pick tb.index cps) []
  obtain ⟨segs, rfl, hflat, hgood, hchain⟩ := contiguousPairs_struct _ [] ps hps hnd
  rw [← hflat, List.pairwise_flatMap] at hsorted
  obtain ⟨hin, hcross⟩ := hsorted
  -- every run is an interval
  have hasc : ∀ s ∈ segs, ∃ a len, s.run = List.range' a (len + 1) := by
    intro s hs
    apply monoRun_asc (hgood s hs).1
    have := hin s hs
    rw [Seg.cells, List.pairwise_map] at this
    refine this.imp (fun h => ?_)
    rcases h with h | ⟨_, h⟩
    · exact absurd h (Nat.lt_irrefl _)
    · exact h
  refine ⟨segs.map Seg.toATgt, ?_, ?_, ?_, ?_⟩
  · rw [hps, List.map_map]
    rfl
  · intro t ht
    obtain ⟨s, hs, rfl⟩ := List.mem_map.mp ht
    obtain ⟨a, len, hr⟩ := hasc s hs
    obtain ⟨h1, h2, _, _⟩ := s.toATgt_of_asc (hgood s hs) a len hr
    have hmem : (s.blk, a + len) ∈ tb.index := by
      apply mem_pick (ps := cps)
      rw [← hflat, List.mem_flatMap]
      refine ⟨s, hs, ?_⟩
      rw [Seg.cells, hr]
      exact List.mem_map.mpr ⟨a + len, by rw [List.mem_range'_1]; omega, rfl⟩
    obtain ⟨b, hb, hw⟩ := mem_index hmem
    refine ⟨?_, b, ?_, ?_⟩
    · rw [h2, h1]; rfl
    · rw [h1]; exact hb
    · rw [h1]; simp only [ATgt.hi]; simp only at hw; omega
  · apply pairwise_alt_of_chain
    · rw [List.pairwise_map]
      apply List.Pairwise.imp_of_mem _ hcross
      intro s1 s2 hs1 hs2 hx
      obtain ⟨a1, len1, hr1⟩ := hasc s1 hs1
      obtain ⟨a2, len2, hr2⟩ := hasc s2 hs2
      rw [(s1.toATgt_of_asc (hgood s1 hs1) a1 len1 hr1).1, (s2.toATgt_of_asc (hgood s2 hs2) a2 len2 hr2).1]
      have := hx (s1.blk, a1 + len1)
        (by rw [Seg.cells, hr1]; exact List.mem_map.mpr ⟨a1 + len1, by rw [List.mem_range'_1]; omega, rfl⟩)
        (s2.blk, a2)
        (by rw [Seg.cells, hr2]; exact List.mem_map.mpr ⟨a2, by rw [List.mem_range'_1]; omega, rfl⟩)
      rcases this with h | ⟨h, h'⟩
      · exact Or.inl h
      · exact Or.inr ⟨h, by simp only [ATgt.hi]; simp only at h'; omega⟩
    · apply achain_map segs hchain
      intro s1 hs1 s2 hs2 hbr
      obtain ⟨a1, len1, hr1⟩ := hasc s1 hs1
      obtain ⟨a2, len2, hr2⟩ := hasc s2 hs2
      rw [(s1.toATgt_of_asc (hgood s1 hs1) a1 len1 hr1).1, (s2.toATgt_of_asc (hgood s2 hs2) a2 len2 hr2).1]
      intro ⟨hb, ha⟩
      apply hbr
      refine ⟨hb, a1 + len1, a2, ?_, ?_, Or.inl ?_⟩
      · rw [hr1, List.getLast?_range']; simp
      · rw [hr2, List.head?_range']; simp
      · simp only [ATgt.hi] at ha; omega
  · rw [← hflat, List.flatMap_map]
    apply flatMap_congr'
    intro s hs
    obtain ⟨a, len, hr⟩ := hasc s hs
    exact (s.toATgt_of_asc (hgood s hs) a len hr).2.2.1

theorem ATgt.mem_cells (t : ATgt) (p : Nat × Nat) :
    p ∈ t.cells ↔ t.blk = p.1 ∧ t.a ≤ p.2 ∧ p.2 < t.hi := by
  simp only [ATgt.cells, List.mem_map, List.mem_range'_1, ATgt.hi]
  constructor
  · rintro ⟨c, hc, rfl⟩; exact ⟨rfl, hc.1, by simp only; omega⟩
  · rintro ⟨h1, h2, h3⟩
    exact ⟨p.2, ⟨h2, by omega⟩, by rw [h1]⟩

theorem mem_pick_iff {β} {l : List β} {ps : List Nat} {x : β} :
    x ∈ pick l ps ↔ ∃ j ∈ ps, l[j]? = some x := by
  simp [pick, List.mem_filterMap]

/-- coverage of the targets in terms of the selected column positions -/
theorem atgts_cover (tb : TB α) (atgts : List ATgt) (cps cps' : List Nat)
    (hcells : atgts.flatMap ATgt.cells = pick tb.index cps') (hperm : ∀ j, j ∈ cps' ↔ j ∈ cps)
    (p : Nat × Nat) :
    (∃ t ∈ atgts, t.blk = p.1 ∧ t.a ≤ p.2 ∧ p.2 < t.hi) ↔ ∃ j ∈ cps, tb.index[j]? = some p := by
  have h1 : (∃ t ∈ atgts, t.blk = p.1 ∧ t.a ≤ p.2 ∧ p.2 < t.hi) ↔ p ∈ atgts.flatMap ATgt.cells := by
    rw [List.mem_flatMap]
    constructor
    · rintro ⟨t, ht, h⟩; exact ⟨t, ht, (t.mem_cells p).mpr h⟩
    · rintro ⟨t, ht, h⟩; exact ⟨t, ht, (t.mem_cells p).mp h⟩
  rw [h1, hcells, mem_pick_iff]
  constructor
  · rintro ⟨j, hj, h⟩; exact ⟨j, (hperm j).mp hj, h⟩
  · rintro ⟨j, hj, h⟩; exact ⟨j, (hperm j).mpr hj, h⟩

/-- removing duplicates from a sorted list leaves it strictly sorted -/
theorem eraseDups_sorted (n : Nat) (l : List Nat) (hlen : l.length ≤ n)
    (hs : l.Pairwise (· ≤ ·)) : l.eraseDups.Pairwise (· < ·) := by
  induction n generalizing l with
  | zero =>
    have : l = [] := List.eq_nil_of_length_eq_zero (by omega)
    subst this; simp
  | succ n ih =>
    cases l with
    | nil => simp
    | cons a as =>
      rw [List.eraseDups_cons, List.pairwise_cons]
      rw [List.pairwise_cons] at hs
      refine ⟨?_, ?_⟩
      · intro x hx
        rw [List.mem_eraseDups, List.mem_filter] at hx
        have h1 := hs.1 x hx.1
        have h2 : x ≠ a := by simpa using hx.2
        omega
      · apply ih
        · have := List.length_filter_le (fun b => !b == a) as
          simp only [List.length_cons] at hlen
          omega
        · exact hs.2.sublist List.filter_sublist

/-- `sorted(set(...))`: strictly ascending, same members (repeats allowed in the key) -/
theorem sortNat_eraseDups_spec (l : List Nat) :
    ((sortNat l).eraseDups).Pairwise (· < ·) ∧ ∀ j, j ∈ (sortNat l).eraseDups ↔ j ∈ l := by
  have hperm : (sortNat l).Perm l := List.mergeSort_perm l _
  have hs : (sortNat l).Pairwise (fun a b => decide (a ≤ b) = true) :=
    List.pairwise_mergeSort (le := fun a b => decide (a ≤ b))
      (by intro a b c h1 h2; simp at *; omega) (by intro a b; simp; omega) l
  refine ⟨eraseDups_sorted _ _ (Nat.le_refl _) (hs.imp (fun h => by simpa using h)), fun j => ?_⟩
  rw [List.mem_eraseDups]
  exact hperm.mem_iff

/-- what the walkers need to know about the targets of a key -/
structure KeyATgts (tb : TB α) (pairs : List (Nat × BSel)) (cps : List Nat) (atgts : List ATgt) : Prop where
  pairs_eq : pairs = atgts.map ATgt.pair
  ok : ∀ t ∈ atgts, t.sel.range = some (t.a, t.hi) ∧ ∃ b, tb.blocks[t.blk]? = some b ∧ t.hi ≤ b.width
  sorted : atgts.Pairwise ALt
  cover : ∀ p : Nat × Nat,
    (∃ t ∈ atgts, t.blk = p.1 ∧ t.a ≤ p.2 ∧ p.2 < t.hi) ↔ ∃ j ∈ cps, tb.index[j]? = some p

theorem allSel_range (b : Block α) (hw : 0 < b.width) : (allSel b).range = some (0, 0 + (b.width - 1) + 1) := by
  cases b with
  | d1 t c => rfl
  | d2 t cs =>
    simp only [Block.width] at hw
    simp only [allSel, BSel.range, Block.width]
    rw [if_pos (by omega)]
    congr 2
    simp; omega

theorem TB.all_atgts (tb : TB α) (hwf : tb.WF) :
    ∃ atgts, KeyATgts tb (allBlockSlices tb) (List.range tb.ncols) atgts := by
  let conv : Block α × Nat → ATgt := fun x => ⟨x.2, allSel x.1, 0, x.1.width - 1⟩
  have hmem : ∀ x ∈ tb.blocks.zipIdx, tb.blocks[x.2]? = some x.1 ∧ 0 < x.1.width := by
    intro x hx
    obtain ⟨b, i⟩ := x
    have := (mem_zipIdx_getElem? hx).2
    simp only [Nat.sub_zero] at this
    exact ⟨this, hwf.1 b (List.mem_of_getElem? this)⟩
  have hcells : (tb.blocks.zipIdx.map conv).flatMap ATgt.cells = tb.index := by
    rw [index, indexFrom_eq_flatMap, List.flatMap_map]
    apply flatMap_congr'
    intro x hx
    have hw := (hmem x hx).2
    simp only [ATgt.cells, conv, List.range_eq_range']
    congr 2
    omega
  refine ⟨tb.blocks.zipIdx.map conv, ?_, ?_, ?_, ?_⟩
  · simp only [allBlockSlices, List.map_map]
    apply List.map_congr_left
    intro x _
    obtain ⟨b, i⟩ := x
    cases b <;> rfl
  · intro t ht
    obtain ⟨x, hx, rfl⟩ := List.mem_map.mp ht
    obtain ⟨h1, h2⟩ := hmem x hx
    refine ⟨allSel_range x.1 h2, x.1, h1, ?_⟩
    simp only [ATgt.hi, conv]; omega
  · rw [List.pairwise_map, List.pairwise_iff_getElem]
    intro i j hi hj hij
    left
    simp only [conv, List.getElem_zipIdx]
    omega
  · intro p
    apply atgts_cover tb _ _ (List.range tb.ncols) _ (fun _ => Iff.rfl)
    rw [hcells, ← index_length, pick_range]

theorem TB.int_atgts (tb : TB α) (i : Int) (cps : List Nat)
    (hck : (Key.int i).positions tb.ncols = .ok cps) :
    ∃ pairs atgts, keyToBlockSlices tb (.int i) false = .ok pairs ∧ KeyATgts tb pairs cps atgts := by
  obtain ⟨p, rfl, hp, _⟩ := C04.int_position hck
  have hnp : normPos i tb.index.length = .ok p := by
    rw [index_length]
    simp only [Key.positions] at hck
    cases hn : normPos i tb.ncols with
    | error e => rw [hn] at hck; cases hck
    | ok q => rw [hn] at hck; simp [Except.map] at hck; rw [hck]
  have hpl : p < tb.index.length := by rw [index_length]; exact hp
  obtain ⟨blk, hblk, hlt⟩ := mem_index (List.getElem_mem hpl)
  refine ⟨[(tb.index[p].1, BSel.col tb.index[p].2)], [⟨tb.index[p].1, .col tb.index[p].2, tb.index[p].2, 0⟩], ?_, ?_, ?_, ?_, ?_⟩
  · simp only [keyToBlockSlices, hnp, List.getElem?_eq_getElem hpl]
  · rfl
  · intro t ht
    simp only [List.mem_singleton] at ht; subst ht
    exact ⟨rfl, blk, hblk, by simp only [ATgt.hi]; omega⟩
  · simp
  · intro q
    apply atgts_cover tb _ _ [p] _ (fun _ => Iff.rfl)
    simp [ATgt.cells, pick, List.getElem?_eq_getElem hpl, List.range'_succ]


theorem TB.sorted_atgts (tb : TB α) (cps cps' : List Nat) (hs : cps'.Pairwise (· < ·))
    (hperm : ∀ j, j ∈ cps' ↔ j ∈ cps) :
    ∃ pairs atgts, contiguousPairs (pick tb.index cps') none [] = some pairs ∧ KeyATgts tb pairs cps atgts := by
  obtain ⟨atgts, h1, h2, h3, h4⟩ := tb.contiguous_atgts cps' hs
  exact ⟨_, atgts, h1, rfl, h2, h3, fun p => atgts_cover tb atgts cps cps' h4 hperm p⟩

theorem slice_positions_sorted {s : PySlice} {n : Nat} {ps : List Nat} (h : s.positions n = .ok ps)
    (hstep : s.step = none ∨ ∃ st, s.step = some st ∧ 0 < st) : ps.Pairwise (· < ·) := by
  cases hi : s.indices n with
  | error e => simp [PySlice.positions, hi] at h
  | ok v =>
    obtain ⟨a, b, c⟩ := v
    have hc : 0 < c := by
      unfold PySlice.indices at hi
      simp only at hi
      split at hi
      · cases hi
      · simp only [Except.ok.injEq, Prod.mk.injEq] at hi
        rw [← hi.2.2]
        rcases hstep with h0 | ⟨st, h0, h1⟩ <;> simp [h0]
        exact h1
    exact (C04.slice_positions_strict h hi).1 hc

/-- the targets `_key_to_block_slices(key, retain_key_order=False)` yields for an ascending-safe key -/
theorem TB.key_atgts (tb : TB α) (hwf : tb.WF) (ck : Key) (cps : List Nat)
    (hsafe : ∀ s, ck = .slice s → s.step = none ∨ ∃ st, s.step = some st ∧ 0 < st)
    (hck : ck.positions tb.ncols = .ok cps) :
    ∃ pairs atgts, keyToBlockSlices tb ck false = .ok pairs ∧ KeyATgts tb pairs cps atgts := by
  cases ck with
  | all =>
    simp only [Key.positions, Except.ok.injEq] at hck
    subst hck
    obtain ⟨atgts, h⟩ := tb.all_atgts hwf
    exact ⟨_, atgts, rfl, h⟩
  | int i => exact tb.int_atgts i cps hck
  | slice s =>
    have hstep := hsafe s rfl
    have hpos : s.positions tb.ncols = .ok cps := hck
    obtain ⟨pairs, atgts, h1, h2⟩ := tb.sorted_atgts cps cps (slice_positions_sorted hpos hstep) (fun _ => Iff.rfl)
    refine ⟨pairs, atgts, ?_, h2⟩
    have hasc : sliceToAscending s (tb.ncols : Int) = some s := by
      rcases hstep with h0 | ⟨st, h0, hst⟩
      · simp [sliceToAscending, h0]
      · simp [sliceToAscending, h0, hst]
    simp only [keyToBlockSlices, Bool.false_eq_true, if_false, hasc, pyListSlice, index_length, hpos, h1]
  | mask bs =>
    obtain ⟨hlen, _, hsorted⟩ := C04.mask_positions hck
    simp only [Key.positions] at hck
    rw [if_pos hlen] at hck
    simp only [Except.ok.injEq] at hck
    subst hck
    obtain ⟨pairs, atgts, h1, h2⟩ := tb.sorted_atgts _ _ hsorted (fun _ => Iff.rfl)
    refine ⟨pairs, atgts, ?_, h2⟩
    have : ¬ (bs.length > tb.index.length ∧ (bs.drop tb.index.length).any id = true) := by
      rw [index_length]; omega
    simp only [keyToBlockSlices, if_neg this, h1]
  | list is =>
    obtain ⟨hs1, hs2⟩ := sortNat_eraseDups_spec cps
    obtain ⟨pairs, atgts, h1, h2⟩ := tb.sorted_atgts cps (sortNat cps).eraseDups hs1 hs2
    refine ⟨pairs, atgts, ?_, h2⟩
    simp only [Key.positions] at hck
    simp only [keyToBlockSlices, index_length, hck, Bool.false_eq_true, if_false, h1]

/-- a negative-step slice lists its positions strictly descending: reversed they are ascending -/
theorem slice_positions_reverse_sorted {s : PySlice} {n : Nat} {ps : List Nat} {st : Int}
    (h : s.positions n = .ok ps) (hs : s.step = some st) (hst : st < 0) :
    ps.reverse.Pairwise (· < ·) := by
  cases hi : s.indices n with
  | error e => simp [PySlice.positions, hi] at h
  | ok v =>
    obtain ⟨a, b, c⟩ := v
    have hc : c < 0 := by
      unfold PySlice.indices at hi
      simp only at hi
      split at hi
      · cases hi
      · simp only [Except.ok.injEq, Prod.mk.injEq] at hi
        rw [← hi.2.2, hs]
        exact hst
    rw [List.pairwise_reverse]
    exact (C04.slice_positions_strict h hi).2 hc

/-- the targets `_key_to_block_slices(key, retain_key_order=False)` yields for a negative-step slice:
    the code first turns it into the ascending slice (`slice_to_ascending_slice`, as repaired), which
    addresses the same positions reversed (`C04.ascending_same_positions`), so the targets are those of
    the ascending positions and cover exactly the addressed columns. -/
theorem TB.neg_slice_atgts (tb : TB α) (s : PySlice) (st : Int) (cps : List Nat)
    (hs : s.step = some st) (hst : st < 0) (hpos : s.positions tb.ncols = .ok cps) :
    ∃ pairs atgts, keyToBlockSlices tb (.slice s) false = .ok pairs ∧ KeyATgts tb pairs cps atgts := by
  obtain ⟨s', hasc⟩ := C04.ascending_total s tb.ncols cps hpos
  have hpos' := C04.ascending_same_positions s s' tb.ncols cps hasc hpos
  simp only [hs, Option.getD_some, if_pos hst] at hpos'
  obtain ⟨pairs, atgts, h1, h2⟩ := tb.sorted_atgts cps cps.reverse
    (slice_positions_reverse_sorted hpos hs hst) (fun _ => List.mem_reverse)
  refine ⟨pairs, atgts, ?_, h2⟩
  simp only [keyToBlockSlices, Bool.false_eq_true, if_false, hasc, pyListSlice, index_length, hpos', h1]

/-- the targets `_key_to_block_slices(key, retain_key_order=False)` yields, for EVERY key
    (`key_atgts` without the ascending-safe hypothesis) -/
theorem TB.key_atgts_all (tb : TB α) (hwf : tb.WF) (ck : Key) (cps : List Nat)
    (hck : ck.positions tb.ncols = .ok cps) :
    ∃ pairs atgts, keyToBlockSlices tb ck false = .ok pairs ∧ KeyATgts tb pairs cps atgts := by
  by_cases hsafe : ∀ s, ck = .slice s → s.step = none ∨ ∃ st, s.step = some st ∧ 0 < st
  · exact tb.key_atgts hwf ck cps hsafe hck
  · cases ck with
    | slice s =>
      have hpos : s.positions tb.ncols = .ok cps := hck
      cases hstep : s.step with
      | none => exact absurd (fun s' h' => by cases h'; exact Or.inl hstep) hsafe
      | some st =>
        by_cases hp : 0 < st
        · exact absurd (fun s' h' => by cases h'; exact Or.inr ⟨st, hstep, hp⟩) hsafe
        · by_cases h0 : st = 0
          · subst h0
            simp [PySlice.positions, PySlice.indices, hstep] at hpos
          · exact tb.neg_slice_atgts s st cps hstep (by omega) hpos
    | all => exact absurd (fun s h' => by cases h') hsafe
    | int i => exact absurd (fun s h' => by cases h') hsafe
    | list is => exact absurd (fun s h' => by cases h') hsafe
    | mask bs => exact absurd (fun s h' => by cases h') hsafe

theorem colsDT_length (bs : List (Block α)) : (colsDT bs).length = (bs.map Block.width).sum := by
  induction bs with
  | nil => rfl
  | cons b rest ih => simp [Block.colsDT, ih]

theorem mapSpec_eq_zipWith (cov : Nat × Nat → Bool) (hh : DT × List α → DT × List α) (bi : Nat)
    (bs : List (Block α)) :
    mapSpec cov hh bi bs = List.zipWith (fun p x => if cov p then hh x else x) (indexFrom bi bs) (colsDT bs) := by
  induction bs generalizing bi with
  | nil => rfl
  | cons b rest ih =>
    simp only [mapSpec, indexFrom, colsDT_cons]
    rw [List.zipWith_append (by simp [Block.colsDT]), ih, Block.colsDT_eq_range, List.zipWith_map]
    congr 1
    apply List.ext_getElem
    · simp
    · intro i h1 h2; simp

/-- the covered cells of a key, as a Boolean predicate on directory entries -/
def TB.covOf (tb : TB α) (cps : List Nat) (p : Nat × Nat) : Bool :=
  cps.any (fun j => tb.index[j]? == some p)

theorem TB.covOf_iff (tb : TB α) (cps : List Nat) (p : Nat × Nat) :
    tb.covOf cps p = true ↔ ∃ j ∈ cps, tb.index[j]? = some p := by
  simp [TB.covOf, List.any_eq_true]

theorem TB.covOf_index (tb : TB α) (cps : List Nat) (j : Nat) (p : Nat × Nat) (h : tb.index[j]? = some p) :
    tb.covOf cps p = true ↔ j ∈ cps := by
  rw [covOf_iff]
  constructor
  · rintro ⟨j', hj', h'⟩
    rw [tb.index_inj h h']; exact hj'
  · intro hj; exact ⟨j, hj, h⟩

theorem TB.mapSpec_eq_mapIdx (tb : TB α) (cps : List Nat) (hh : DT × List α → DT × List α) :
    mapSpec (tb.covOf cps) hh 0 tb.blocks
      = (colsDT tb.blocks).mapIdx (fun j x => if j ∈ cps then hh x else x) := by
  rw [mapSpec_eq_zipWith]
  apply List.ext_getElem?
  intro j
  rw [List.getElem?_zipWith, List.getElem?_mapIdx]
  have hlen : (indexFrom 0 tb.blocks).length = (colsDT tb.blocks).length := by
    rw [indexFrom_length, colsDT_length]
  by_cases hj : j < (colsDT tb.blocks).length
  · have hj' : j < (indexFrom 0 tb.blocks).length := by omega
    rw [List.getElem?_eq_getElem hj, List.getElem?_eq_getElem hj']
    simp only [Option.map_some]
    have : tb.covOf cps (indexFrom 0 tb.blocks)[j] = true ↔ j ∈ cps :=
      tb.covOf_index cps j _ (List.getElem?_eq_getElem (l := tb.index) hj')
    by_cases hc : j ∈ cps
    · rw [if_pos hc, if_pos (this.mpr hc)]
    · rw [if_neg hc, if_neg (fun h => hc (this.mp h))]
  · rw [List.getElem?_eq_none (by omega), List.getElem?_eq_none (l := colsDT tb.blocks) (by omega)]
    rfl

theorem TB.mapBlocks_refines (tb : TB α) (hwf : tb.WF) (ck : Key) (cps : List Nat)
    (hsafe : ∀ s, ck = .slice s → s.step = none ∨ ∃ st, s.step = some st ∧ 0 < st)
    (hck : ck.positions tb.ncols = .ok cps)
    {f : Block α → Block α} {fd fc} (hf : ColFn f fd fc) (skip : Block α → Bool)
    (skipT : DT → Bool) (hskip : ∀ b, skip b = skipT b.dt) :
    ∃ pairs out, keyToBlockSlices tb ck false = .ok pairs ∧
      mapBlocksGo f skip 0 tb.blocks pairs = some out ∧
      colsDT out = (colsDT tb.blocks).mapIdx
        (fun j x => if j ∈ cps then (if skipT x.1 then x else (fd x.1, fc x.2)) else x) := by
  obtain ⟨pairs, atgts, hk, ⟨rfl, hok, hsorted, hcover⟩⟩ := tb.key_atgts hwf ck cps hsafe hck
  obtain ⟨out, hout, hspec⟩ := mapBlocksGo_spec hf skip skipT hskip (tb.covOf cps) 0 tb.blocks atgts
    (fun t ht => by
      obtain ⟨h1, b, h2, h3⟩ := hok t ht
      exact ⟨h1, Nat.zero_le _, b, by simpa using h2, h3⟩)
    hsorted
    (fun p _ => by rw [tb.covOf_iff, hcover p])
  refine ⟨_, out, hk, hout, ?_⟩
  rw [hspec, tb.mapSpec_eq_mapIdx]

/-- `mapBlocks_refines` for EVERY key (a negative-step slice included) -/
theorem TB.mapBlocks_refines_all (tb : TB α) (hwf : tb.WF) (ck : Key) (cps : List Nat)
    (hck : ck.positions tb.ncols = .ok cps)
    {f : Block α → Block α} {fd fc} (hf : ColFn f fd fc) (skip : Block α → Bool)
    (skipT : DT → Bool) (hskip : ∀ b, skip b = skipT b.dt) :
    ∃ pairs out, keyToBlockSlices tb ck false = .ok pairs ∧
      mapBlocksGo f skip 0 tb.blocks pairs = some out ∧
      colsDT out = (colsDT tb.blocks).mapIdx
        (fun j x => if j ∈ cps then (if skipT x.1 then x else (fd x.1, fc x.2)) else x) := by
  obtain ⟨pairs, atgts, hk, ⟨rfl, hok, hsorted, hcover⟩⟩ := tb.key_atgts_all hwf ck cps hck
  obtain ⟨out, hout, hspec⟩ := mapBlocksGo_spec hf skip skipT hskip (tb.covOf cps) 0 tb.blocks atgts
    (fun t ht => by
      obtain ⟨h1, b, h2, h3⟩ := hok t ht
      exact ⟨h1, Nat.zero_le _, b, by simpa using h2, h3⟩)
    hsorted
    (fun p _ => by rw [tb.covOf_iff, hcover p])
  refine ⟨_, out, hk, hout, ?_⟩
  rw [hspec, tb.mapSpec_eq_mapIdx]

theorem ColFn.unique {f f' : Block α → Block α} {fd fc} (h : ColFn f fd fc) (h' : ColFn f' fd fc) :
    f = f' := by
  funext b
  cases b with
  | d1 t c => rw [h.d1, h'.d1]
  | d2 t cs => rw [h.d2, h'.d2]

/-- the same walk with any other presentation of the same column-wise function -/
theorem mapBlocksGo_congr {f f' : Block α → Block α} {fd fc} (h : ColFn f fd fc) (h' : ColFn f' fd fc)
    {skip : Block α → Bool} {bs : List (Block α)} {pairs : List (Nat × BSel)} {o o' : Option (List (Block α))}
    (h1 : mapBlocksGo f skip 0 bs pairs = o) (h2 : mapBlocksGo f' skip 0 bs pairs = o') : o' = o := by
  rw [← h1, ← h2, h.unique h']

theorem TB.cols_eq_colsDT (tb : TB α) : tb.cols = (colsDT tb.blocks).map Prod.snd := (colsDT_snd _).symm
theorem TB.dtypes_eq_colsDT (tb : TB α) : tb.dtypes = (colsDT tb.blocks).map Prod.fst := (colsDT_fst _).symm

theorem filter_range'_all_false (p : Nat → Bool) (a n : Nat) (h : ∀ c, a ≤ c → c < a + n → p c = false) :
    (List.range' a n).filter p = [] := by
  rw [List.filter_eq_nil_iff]
  intro c hc
  rw [List.mem_range'_1] at hc
  simp [h c hc.1 hc.2]

theorem filter_range'_all_true (p : Nat → Bool) (a n : Nat) (h : ∀ c, a ≤ c → c < a + n → p c = true) :
    (List.range' a n).filter p = List.range' a n := by
  rw [List.filter_eq_self]
  intro c hc
  rw [List.mem_range'_1] at hc
  exact h c hc.1 hc.2

theorem dropWalk_spec (t : DT) (cs : List (List α)) (bi : Nat) (cov : Nat → Bool)
    (pre post : List ATgt) (ps : Nat) (parts : List (Block α)) (dropAll : Bool)
    (hpre : ∀ p ∈ pre, p.blk = bi ∧ p.sel.range = some (p.a, p.hi) ∧ p.hi ≤ cs.length)
    (hsorted : pre.Pairwise ALt) (hps : ∀ p ∈ pre, ps < p.a) (hpsl : ps ≤ cs.length)
    (hpost : ∀ q, post.head? = some q → q.blk ≠ bi)
    (hcov : ∀ c, ps ≤ c → (cov c = true ↔ ∃ p ∈ pre, p.a ≤ c ∧ c < p.hi)) :
    ∃ parts' ps', dropWalk t cs bi ((pre ++ post).map ATgt.pair) ps parts dropAll
        = some (parts ++ parts', dropAll, ps', post.map ATgt.pair) ∧
      ps ≤ ps' ∧ ps' ≤ cs.length ∧ (∀ p ∈ pre, p.hi ≤ ps') ∧
      (pre ≠ [] → parts' ≠ []) ∧ (pre = [] → ps' = ps ∧ parts' = []) ∧
      colsDT parts' = ((List.range' ps (ps' - ps)).filter (fun c => !cov c)).map
        (fun c => (t, cs.getD c [])) := by
  induction pre generalizing ps parts with
  | nil =>
    refine ⟨[], ps, ?_, Nat.le_refl _, hpsl, by simp, by simp, by simp, by simp⟩
    cases post with
    | nil => simp [dropWalk]
    | cons q post' =>
      have hq := hpost q rfl
      simp only [List.nil_append, List.map_cons, dropWalk, ATgt.pair, ne_eq, hq, not_false_eq_true,
        if_true, List.append_nil]
  | cons p pre' ih =>
    obtain ⟨hblk, hrange, hhi⟩ := hpre p List.mem_cons_self
    have hpa := hps p List.mem_cons_self
    rw [List.pairwise_cons] at hsorted
    obtain ⟨hp_lt, hsorted'⟩ := hsorted
    have hahi : p.a < p.hi := by simp [ATgt.hi]; omega
    have hnext : ∀ p' ∈ pre', p.hi < p'.a := by
      intro p' hp'
      have hb' := (hpre p' (List.mem_cons_of_mem _ hp')).1
      rcases hp_lt p' hp' with h | ⟨_, h⟩
      · omega
      · exact h
    obtain ⟨parts'', ps', hw, h1, h2, h3, _, _, h4⟩ := ih p.hi (parts ++ [Block.d2 t (subCols cs ps p.a)])
      (fun q hq => hpre q (List.mem_cons_of_mem _ hq)) hsorted'
      (fun q hq => hnext q hq) hhi
      (by
        intro c hc
        rw [hcov c (by omega)]
        constructor
        · rintro ⟨q, hq, hq1, hq2⟩
          rw [List.mem_cons] at hq
          rcases hq with rfl | hq
          · omega
          · exact ⟨q, hq, hq1, hq2⟩
        · rintro ⟨q, hq, hq1, hq2⟩
          exact ⟨q, List.mem_cons_of_mem _ hq, hq1, hq2⟩)
    have hgapcov : ∀ c, ps ≤ c → c < p.a → cov c = false := by
      intro c hc1 hc2
      cases hcv : cov c with
      | false => rfl
      | true =>
        obtain ⟨q, hq, hq1, hq2⟩ := (hcov c hc1).mp hcv
        rw [List.mem_cons] at hq
        rcases hq with rfl | hq
        · omega
        · have := hnext q hq; omega
    have htcov : ∀ c, p.a ≤ c → c < p.hi → cov c = true := by
      intro c hc1 hc2
      exact (hcov c (by omega)).mpr ⟨p, List.mem_cons_self, hc1, hc2⟩
    refine ⟨[Block.d2 t (subCols cs ps p.a)] ++ parts'', ps', ?_, by omega, h2, ?_, by simp, by simp, ?_⟩
    · have hnot : ¬ (p.a = 0 ∧ p.hi = cs.length) := by omega
      simp only [List.cons_append, List.map_cons, dropWalk, ATgt.pair, hblk, ne_eq, not_true_eq_false,
        if_false, hrange, hnot, gt_iff_lt, hpa, if_true]
      show dropWalk t cs bi ((pre' ++ post).map ATgt.pair) p.hi _ dropAll = _
      rw [hw]
      simp
    · intro q hq
      rw [List.mem_cons] at hq
      rcases hq with rfl | hq
      · exact h1
      · exact h3 q hq
    · rw [colsDT_append, h4, range'_split3 ps p.a p.hi ps' (Nat.le_of_lt hpa) (Nat.le_of_lt hahi) h1,
        List.filter_append, List.filter_append, List.map_append, List.map_append]
      rw [filter_range'_all_true _ ps (p.a - ps) (fun c h1 h2 => by simp [hgapcov c h1 (by omega)]),
        filter_range'_all_false _ p.a (p.hi - p.a) (fun c h1 h2 => by simp [htcov c h1 (by omega)])]
      simp only [List.map_nil, List.nil_append, colsDT_cons, colsDT_nil, List.append_nil,
        colsDT_d2_subCols t cs ps p.a (by omega)]

/-- `dropWalk` from the start of a 2-D block whose first target does not cover the whole block -/
theorem dropWalk_top (t : DT) (cs : List (List α)) (bi : Nat) (cov : Nat → Bool)
    (p : ATgt) (pre' post : List ATgt)
    (hpre : ∀ q ∈ p :: pre', q.blk = bi ∧ q.sel.range = some (q.a, q.hi) ∧ q.hi ≤ cs.length)
    (hsorted : (p :: pre').Pairwise ALt)
    (hpost : ∀ q, post.head? = some q → q.blk ≠ bi)
    (hcov : ∀ c, (cov c = true ↔ ∃ q ∈ p :: pre', q.a ≤ c ∧ c < q.hi))
    (hnot : ¬ (p.a = 0 ∧ p.hi = cs.length)) :
    ∃ parts' ps', dropWalk t cs bi (((p :: pre') ++ post).map ATgt.pair) 0 [] false
        = some (parts', false, ps', post.map ATgt.pair) ∧
      0 < ps' ∧ ps' ≤ cs.length ∧ (∀ q ∈ p :: pre', q.hi ≤ ps') ∧ (parts' = [] → ps' < cs.length) ∧
      colsDT parts' = ((List.range' 0 ps').filter (fun c => !cov c)).map (fun c => (t, cs.getD c [])) := by
  obtain ⟨hblk, hrange, hhi⟩ := hpre p List.mem_cons_self
  have hahi : p.a < p.hi := by simp [ATgt.hi]; omega
  by_cases ha0 : p.a = 0
  · -- the first target starts at column 0 and ends before the end of the block
    have hhilt : p.hi < cs.length := by omega
    have hs := hsorted
    rw [List.pairwise_cons] at hs
    obtain ⟨hp_lt, hsorted'⟩ := hs
    have hnext : ∀ p' ∈ pre', p.hi < p'.a := by
      intro p' hp'
      have hb' := (hpre p' (List.mem_cons_of_mem _ hp')).1
      rcases hp_lt p' hp' with h | ⟨_, h⟩
      · omega
      · exact h
    obtain ⟨parts', ps', hw, h1, h2, h3, h5, h6, h4⟩ := dropWalk_spec t cs bi cov pre' post p.hi [] false
      (fun q hq => hpre q (List.mem_cons_of_mem _ hq)) hsorted' hnext hhi hpost
      (by
        intro c hc
        rw [hcov c]
        constructor
        · rintro ⟨q, hq, hq1, hq2⟩
          rw [List.mem_cons] at hq
          rcases hq with rfl | hq
          · omega
          · exact ⟨q, hq, hq1, hq2⟩
        · rintro ⟨q, hq, hq1, hq2⟩
          exact ⟨q, List.mem_cons_of_mem _ hq, hq1, hq2⟩)
    simp only [List.nil_append] at hw
    refine ⟨parts', ps', ?_, by omega, h2, ?_, ?_, ?_⟩
    · have hgt : ¬ (p.a > 0) := by omega
      simp only [List.cons_append, List.map_cons, dropWalk, ATgt.pair, hblk, ne_eq, not_true_eq_false,
        if_false, hrange, hnot, hgt]
      exact hw
    · intro q hq
      rw [List.mem_cons] at hq
      rcases hq with rfl | hq
      · exact h1
      · exact h3 q hq
    · intro hnil
      by_cases hp : pre' = []
      · rw [(h6 hp).1]; exact hhilt
      · exact absurd hnil (h5 hp)
    · rw [h4]
      have hsplit : List.range' 0 ps' = List.range' 0 p.hi ++ List.range' p.hi (ps' - p.hi) := by
        have : ps' = p.hi + (ps' - p.hi) := by omega
        conv => lhs; rw [this]
        rw [← List.range'_append_1]; simp
      rw [hsplit, List.filter_append,
        filter_range'_all_false _ 0 p.hi (fun c _ h2 => by
          have : cov c = true := (hcov c).mpr ⟨p, List.mem_cons_self, by omega, by omega⟩
          simp [this])]
      rfl
  · have hps : ∀ q ∈ p :: pre', 0 < q.a := by
      intro q hq
      rw [List.mem_cons] at hq
      rcases hq with rfl | hq
      · omega
      · have hb' := (hpre q (List.mem_cons_of_mem _ hq)).1
        rcases (List.pairwise_cons.mp hsorted).1 q hq with h | ⟨_, h⟩
        · omega
        · omega
    obtain ⟨parts', ps', hw, _, h2, h3, h5, _, h4⟩ := dropWalk_spec t cs bi cov (p :: pre') post 0 [] false
      hpre hsorted hps (Nat.zero_le _) hpost (fun c _ => hcov c)
    simp only [List.nil_append] at hw
    have hps' : 0 < ps' := by have := h3 p List.mem_cons_self; omega
    refine ⟨parts', ps', hw, hps', h2, h3, fun hnil => absurd hnil (h5 (by simp)), ?_⟩
    rw [h4, Nat.sub_zero]

/-- the expected `(dtype, column)` list after dropping the covered cells -/
def dropSpec (cov : Nat × Nat → Bool) (del : List α → List α) : Nat → List (Block α) → List (DT × List α)
  | _, [] => []
  | bi, b :: rest =>
    ((List.range b.width).filter (fun c => !cov (bi, c))).map (fun c => (b.dt, del (b.colsOf.getD c []))) ++
    dropSpec cov del (bi + 1) rest

theorem Block.colsDT_rowDelete (rdel : Option (List Nat)) (b : Block α) :
    (rowDelete rdel b).colsDT = b.colsDT.map (fun x => (x.1, delRows rdel x.2)) := by
  obtain ⟨h1, h2, _⟩ := rowDelete_spec rdel b
  simp [Block.colsDT, h1, h2, List.map_map, Function.comp_def]

theorem colsDT_map_rowDelete (rdel : Option (List Nat)) (parts : List (Block α)) :
    colsDT (parts.map (rowDelete rdel)) = (colsDT parts).map (fun x => (x.1, delRows rdel x.2)) := by
  induction parts with
  | nil => rfl
  | cons b rest ih => simp [ih, Block.colsDT_rowDelete]

theorem dropBlocksGo_spec (rdel : Option (List Nat)) (cov : Nat × Nat → Bool) (bi : Nat)
    (bs : List (Block α)) (tgts : List ATgt)
    (hok : ∀ t ∈ tgts, t.sel.range = some (t.a, t.hi) ∧ bi ≤ t.blk ∧
      ∃ b, bs[t.blk - bi]? = some b ∧ t.hi ≤ b.width)
    (hsorted : tgts.Pairwise ALt)
    (hcov : ∀ p : Nat × Nat, bi ≤ p.1 →
      (cov p = true ↔ ∃ t ∈ tgts, t.blk = p.1 ∧ t.a ≤ p.2 ∧ p.2 < t.hi)) :
    ∃ out, dropBlocksGo rdel bi bs (tgts.map ATgt.pair) = some out ∧
      colsDT out = dropSpec cov (delRows rdel) bi bs := by
  induction bs generalizing bi tgts with
  | nil => exact ⟨[], by simp [dropBlocksGo], rfl⟩
  | cons b rest ih =>
    obtain ⟨pre, post, rfl, hpre, hpost⟩ := split_targets bi tgts (fun t ht => (hok t ht).2.1) hsorted
    rw [List.pairwise_append] at hsorted
    obtain ⟨hspre, hspost, hcross⟩ := hsorted
    obtain ⟨out', hout', hspec'⟩ := ih (bi + 1) post
      (by
        intro t ht
        obtain ⟨h1, h2, b', h3, h4⟩ := hok t (List.mem_append_right _ ht)
        have := hpost t ht
        refine ⟨h1, by omega, b', ?_, h4⟩
        have e : t.blk - bi = (t.blk - (bi + 1)) + 1 := by omega
        rw [e, List.getElem?_cons_succ] at h3
        exact h3)
      hspost
      (by
        intro p hp
        rw [hcov p (by omega)]
        constructor
        · rintro ⟨t, ht, h1, h2⟩
          rw [List.mem_append] at ht
          rcases ht with ht | ht
          · have := hpre t ht; omega
          · exact ⟨t, ht, h1, h2⟩
        · rintro ⟨t, ht, h1, h2⟩
          exact ⟨t, List.mem_append_right _ ht, h1, h2⟩)
    have hcovb : ∀ c, cov (bi, c) = true ↔ ∃ p ∈ pre, p.a ≤ c ∧ c < p.hi := by
      intro c
      rw [hcov (bi, c) (Nat.le_refl _)]
      constructor
      · rintro ⟨t, ht, h1, h2⟩
        rw [List.mem_append] at ht
        rcases ht with ht | ht
        · exact ⟨t, ht, h2⟩
        · have := hpost t ht; simp only at h1; omega
      · rintro ⟨t, ht, h2⟩
        exact ⟨t, List.mem_append_left _ ht, hpre t ht, h2⟩
    have hwidth : ∀ p ∈ pre, p.hi ≤ b.width := by
      intro p hp
      obtain ⟨_, _, b', h3, h4⟩ := hok p (List.mem_append_left _ hp)
      rw [hpre p hp, Nat.sub_self, List.getElem?_cons_zero] at h3
      cases h3; exact h4
    have hposthead : ∀ q, post.head? = some q → q.blk ≠ bi := by
      intro q hq
      have := hpost q (List.mem_of_mem_head? hq)
      omega
    simp only [dropSpec]
    cases pre with
    | nil =>
      have hnc : ∀ c, cov (bi, c) = false := by
        intro c
        cases h : cov (bi, c) with
        | false => rfl
        | true => obtain ⟨p, hp, _⟩ := (hcovb c).mp h; cases hp
      refine ⟨rowDelete rdel b :: out', ?_, ?_⟩
      · cases post with
        | nil => simp only [List.append_nil, List.map_nil, dropBlocksGo] at hout' ⊢; rw [hout']; rfl
        | cons q post' =>
          have hq := hpost q List.mem_cons_self
          have hne : q.blk ≠ bi := by omega
          have hne' : ¬ (q.blk = bi ∧ (match b with | .d1 _ _ => true | .d2 _ cs => cs.length == 1) = true) :=
            fun h => hne h.1
          simp only [List.nil_append, List.map_cons, dropBlocksGo, ATgt.pair, ne_eq, hne,
            not_false_eq_true, if_true, hne', if_false, false_and] at hout' ⊢
          rw [hout']; rfl
      · rw [colsDT_cons, hspec', Block.colsDT_rowDelete, Block.colsDT_eq_range, List.map_map,
          List.range_eq_range', filter_range'_all_true]
        · rfl
        · intro c _ _; simp [hnc c]
    | cons t pre' =>
      have htb : t.blk = bi := hpre t List.mem_cons_self
      have hthi := hwidth t List.mem_cons_self
      by_cases hw1 : b.width = 1
      · -- narrow block: dropped entirely
        have hpre'nil : pre' = [] := by
          cases pre' with
          | nil => rfl
          | cons p' pre'' =>
            exfalso
            rw [List.pairwise_cons] at hspre
            have h1 := hspre.1 p' List.mem_cons_self
            have h2 := hwidth p' (List.mem_cons_of_mem _ List.mem_cons_self)
            have h3 := hpre p' (List.mem_cons_of_mem _ List.mem_cons_self)
            rcases h1 with h1 | ⟨_, h1⟩
            · omega
            · simp only [ATgt.hi] at h1 h2; omega
        subst hpre'nil
        refine ⟨out', ?_, ?_⟩
        · cases b with
          | d1 dt col =>
            simp only [List.cons_append, List.nil_append, List.map_cons, dropBlocksGo, ATgt.pair, htb,
              and_self, if_true]
            exact hout'
          | d2 dt cs =>
            simp only [Block.width] at hw1
            simp only [List.cons_append, List.nil_append, List.map_cons, dropBlocksGo, ATgt.pair, htb,
              hw1, BEq.rfl, and_self, if_true]
            exact hout'
        · rw [hspec', hw1]
          have hc0 : cov (bi, 0) = true :=
            (hcovb 0).mpr ⟨t, List.mem_cons_self, by simp only [ATgt.hi] at hthi; omega, by simp [ATgt.hi]⟩
          simp [List.range_succ, hc0]
      · cases b with
        | d1 dt col => exact absurd rfl hw1
        | d2 dt cs =>
          simp only [Block.width] at hw1 hthi hwidth
          have hnarrow : ¬ (t.blk = bi ∧ (cs.length == 1) = true) := by
            intro h; simp at h; exact hw1 h.2
          have hpre2 : ∀ q ∈ t :: pre', q.blk = bi ∧ q.sel.range = some (q.a, q.hi) ∧ q.hi ≤ cs.length :=
            fun q hq => ⟨hpre q hq, (hok q (List.mem_append_left _ hq)).1, hwidth q hq⟩
          by_cases hfull : t.a = 0 ∧ t.hi = cs.length
          · -- the first target covers the whole block
            have hpre'nil : pre' = [] := by
              cases pre' with
              | nil => rfl
              | cons p' pre'' =>
                exfalso
                rw [List.pairwise_cons] at hspre
                have h1 := hspre.1 p' List.mem_cons_self
                have h2 := hwidth p' (List.mem_cons_of_mem _ List.mem_cons_self)
                have h3 := hpre p' (List.mem_cons_of_mem _ List.mem_cons_self)
                rcases h1 with h1 | ⟨_, h1⟩
                · omega
                · simp only [ATgt.hi] at h1 h2 hfull; omega
            subst hpre'nil
            obtain ⟨parts', ps', hw, _, _, _, _, h6, _⟩ := dropWalk_spec dt cs bi (fun c => cov (bi, c)) [] post
              t.hi [] true (by simp) List.Pairwise.nil (by simp) hthi hposthead
              (by
                intro c hc
                constructor
                · intro h
                  obtain ⟨q, hq, hq1, hq2⟩ := (hcovb c).mp h
                  simp only [List.mem_singleton] at hq; subst hq; omega
                · rintro ⟨q, hq, _⟩; cases hq)
            obtain ⟨rfl, rfl⟩ := h6 rfl
            simp only [List.nil_append, List.append_nil] at hw
            rw [hfull.2] at hw
            refine ⟨out', ?_, ?_⟩
            · simp only [List.cons_append, List.nil_append, List.map_cons, dropBlocksGo, ATgt.pair]
              rw [if_neg hnarrow, if_neg (by simp [htb])]
              simp only [dropWalk, ne_eq, htb, not_true_eq_false, if_false, (hpre2 t List.mem_cons_self).2.1,
                hfull, and_self, if_true]
              rw [hw]
              simp only [hfull.2, Nat.lt_irrefl, and_false, if_false, Bool.not_true, Bool.false_eq_true,
                false_and, List.map_nil, List.nil_append]
              rw [hout']; rfl
            · rw [hspec']
              simp only [Block.width]
              rw [List.range_eq_range', filter_range'_all_false]
              · rfl
              · intro c _ hc
                have : cov (bi, c) = true := (hcovb c).mpr ⟨t, List.mem_cons_self, by omega, by omega⟩
                simp [this]
          · obtain ⟨parts', ps', hw, hps0, hpsl, hhi, hne, hparts⟩ := dropWalk_top dt cs bi
              (fun c => cov (bi, c)) t pre' post hpre2 hspre hposthead hcovb hfull
            have hbeyond : ∀ c, ps' ≤ c → cov (bi, c) = false := by
              intro c hc
              cases h : cov (bi, c) with
              | false => rfl
              | true =>
                obtain ⟨p, hp, _, hp2⟩ := (hcovb c).mp h
                have := hhi p hp; omega
            let parts2 := if 0 < ps' ∧ ps' < cs.length then parts' ++ [Block.d2 dt (subCols cs ps' cs.length)] else parts'
            have hparts2 : parts2.isEmpty = false := by
              simp only [parts2]
              split
              · simp
              · rename_i hc
                cases hp : parts' with
                | nil => exact absurd ⟨hps0, hne hp⟩ hc
                | cons x xs => rfl
            refine ⟨parts2.map (rowDelete rdel) ++ out', ?_, ?_⟩
            · simp only [List.cons_append, List.map_cons, dropBlocksGo, ATgt.pair]
              rw [if_neg hnarrow, if_neg (by simp [htb])]
              simp only [List.cons_append, List.map_cons, ATgt.pair] at hw
              simp only [hw]
              show Option.map _ _ = _
              rw [hout']
              simp only [Option.map_some, Option.some.injEq]
              congr 1
              show (if ¬ false = true ∧ parts2.isEmpty = true then _ else _) = _
              rw [hparts2]; simp
              rfl
            · rw [colsDT_append, hspec', colsDT_map_rowDelete]
              congr 1
              simp only [Block.width, Block.dt, Block.colsOf, parts2]
              have hsplit : List.range cs.length = List.range' 0 ps' ++ List.range' ps' (cs.length - ps') := by
                rw [List.range_eq_range']
                have : cs.length = ps' + (cs.length - ps') := by omega
                conv => lhs; rw [this]
                rw [← List.range'_append_1]; simp
              rw [hsplit, List.filter_append, List.map_append]
              by_cases hlt : ps' < cs.length
              · rw [if_pos ⟨hps0, hlt⟩, colsDT_append, List.map_append, hparts, List.map_map]
                congr 1
                simp only [colsDT_cons, colsDT_nil, List.append_nil,
                  colsDT_d2_subCols dt cs ps' cs.length (Nat.le_refl _), List.map_map]
                rw [filter_range'_all_true]
                · rfl
                · intro c h1 _; simp [hbeyond c h1]
              · have : cs.length - ps' = 0 := by omega
                rw [if_neg (fun h => hlt h.2), hparts, this, List.map_map]
                simp only [List.range'_zero, List.filter_nil, List.map_nil, List.append_nil]
                rfl

theorem dropSpec_eq_filter (cov : Nat × Nat → Bool) (del : List α → List α) (bi : Nat) (bs : List (Block α)) :
    dropSpec cov del bi bs = (((indexFrom bi bs).zip (colsDT bs)).filter (fun x => !cov x.1)).map
      (fun x => (x.2.1, del x.2.2)) := by
  induction bs generalizing bi with
  | nil => rfl
  | cons b rest ih =>
    simp only [dropSpec, indexFrom, colsDT_cons]
    rw [List.zip_append (by simp [Block.colsDT]), List.filter_append, List.map_append, ih]
    congr 1
    rw [Block.colsDT_eq_range, List.zip_map', List.filter_map, List.map_map]
    rfl


/-- zipping two lists of equal length = indexing the first by the positions of the second -/
theorem zip_eq_zipIdx_map {β γ} (I : List β) (X : List γ) (d : β) (h : I.length = X.length) :
    I.zip X = X.zipIdx.map (fun xj => (I.getD xj.2 d, xj.1)) := by
  apply List.ext_getElem
  · simp [h]
  · intro i h1 h2
    simp only [List.length_zip, h, Nat.min_self] at h1
    simp [List.getD_eq_getElem?_getD, List.getElem?_eq_getElem (show i < I.length by omega)]

theorem TB.dropSpec_eq_dropCols (tb : TB α) (cps : List Nat) (del : List α → List α) :
    dropSpec (tb.covOf cps) del 0 tb.blocks
      = (((colsDT tb.blocks).zipIdx.filter (fun xj => ¬ cps.contains xj.2)).map (·.1)).map
          (fun x => (x.1, del x.2)) := by
  have hlen : (indexFrom 0 tb.blocks).length = (colsDT tb.blocks).length := by
    rw [indexFrom_length, colsDT_length]
  rw [dropSpec_eq_filter, zip_eq_zipIdx_map _ _ (0, 0) hlen, List.filter_map, List.map_map, List.map_map]
  congr 1
  apply List.filter_congr
  intro xj hxj
  obtain ⟨x, j⟩ := xj
  obtain ⟨_, hj, _⟩ := List.mem_zipIdx hxj
  have hj' : j < tb.index.length := by show j < (indexFrom 0 tb.blocks).length; omega
  have hcov := tb.covOf_index cps j _ (List.getElem?_eq_getElem hj')
  simp only [Function.comp_def, List.getD_eq_getElem?_getD]
  show (!tb.covOf cps (tb.index[j]?.getD (0, 0))) = _
  rw [List.getElem?_eq_getElem hj', Option.getD_some]
  by_cases hc : j ∈ cps
  · rw [hcov.mpr hc]; simp [hc]
  · have : tb.covOf cps tb.index[j] = false := by
      cases h : tb.covOf cps tb.index[j] with
      | false => rfl
      | true => exact absurd (hcov.mp h) hc
    rw [this]; simp [hc]

theorem dropSpec_mem (cov : Nat × Nat → Bool) (del : List α → List α) (bi : Nat) (bs : List (Block α))
    (x : DT × List α) (h : x ∈ dropSpec cov del bi bs) : ∃ c ∈ bs.flatMap Block.colsOf, x.2 = del c := by
  induction bs generalizing bi with
  | nil => simp [dropSpec] at h
  | cons b rest ih =>
    simp only [dropSpec, List.mem_append, List.mem_map, List.mem_filter, List.mem_range] at h
    rcases h with ⟨c, ⟨hc, _⟩, rfl⟩ | h
    · refine ⟨b.colsOf.getD c [], ?_, rfl⟩
      rw [List.flatMap_cons, List.mem_append]
      left
      rw [List.getD_eq_getElem?_getD, List.getElem?_eq_getElem (by simpa using hc)]
      simp
    · obtain ⟨c, hc, hx⟩ := ih _ h
      exact ⟨c, by rw [List.flatMap_cons, List.mem_append]; exact Or.inr hc, hx⟩

end SF
