/- Helper lemmas for SFModel.BlocksResize, part 6: `IndexCorrespondence.from_correspondence` yields a
   well-formed correspondence; the specification cell by cell, in terms of labels. -/
import SFModel.BlocksResizeLemmas5

namespace SF
open SetOps (IC gather scatter dstToSrc mapMExcept)

namespace SetOps

variable {κ : Type} [DecidableEq κ]

/-- `is_subset` is only set together with `has_common`, and then `iloc_dst = arange(size)` -/
theorem fromCorrespondence_subset_shape {o : PyOrd κ} (src dst : Idx κ) {ic : IC}
    (h : fromCorrespondence o src dst = some ic) (hs : ic.isSubset = true) :
    ic.hasCommon = true ∧ ic.ilocDst = List.range ic.size := by
  unfold fromCorrespondence at h
  simp only [] at h
  split at h
  · split at h
    · split at h
      · simp only [Option.some.injEq] at h; subst h; exact ⟨rfl, rfl⟩
      · cases h
    · split at h
      · simp only [Option.some.injEq] at h; subst h; cases hs
      · cases h
  · simp only [Option.some.injEq] at h; subst h; cases hs

/-- `from_correspondence` of two duplicate-free label lists is a well-formed correspondence against
    the source axis, of the size of the destination -/
theorem fromCorrespondence_wf' {o : PyOrd κ} (ho : o.Lawful) (src dst : Idx κ) (hs : src.labels.Nodup)
    (hd : dst.labels.Nodup) {ic : IC} (h : fromCorrespondence o src dst = some ic) :
    ic.WF src.labels.length ∧ ic.size = dst.labels.length := by
  obtain ⟨keys, hkn, hkm, hsrc, hdst, hsize, hcom⟩ := fromCorrespondence_keys ho src dst hs hd h
  have hks : ∀ k ∈ keys, k ∈ src.labels := fun k hk => ((hkm k).mp hk).1
  have hkd : ∀ k ∈ keys, k ∈ dst.labels := fun k hk => ((hkm k).mp hk).2
  refine ⟨⟨?_, ?_, ?_, ?_, ?_, ?_, ?_⟩, hsize⟩
  · rw [hsrc, hdst]; simp
  · intro i hi
    rw [hsrc] at hi
    obtain ⟨k, hk, rfl⟩ := List.mem_map.mp hi
    exact List.idxOf_lt_length_iff.mpr (hks k hk)
  · intro i hi
    rw [hdst] at hi
    obtain ⟨k, hk, rfl⟩ := List.mem_map.mp hi
    rw [hsize]
    exact List.idxOf_lt_length_iff.mpr (hkd k hk)
  · rw [hsrc]; exact nodup_map_idxOf hkn hks
  · rw [hdst]; exact nodup_map_idxOf hkn hkd
  · rw [hcom, hsrc]; simp
  · exact fromCorrespondence_subset_shape src dst h

/-- a subset correspondence: every destination label is a source label -/
theorem fromCorrespondence_subset_mem {o : PyOrd κ} (ho : o.Lawful) (src dst : Idx κ) (hs : src.labels.Nodup)
    (hd : dst.labels.Nodup) {ic : IC} (h : fromCorrespondence o src dst = some ic)
    (hsub : ic.isSubset = true) : ∀ r ∈ dst.labels, r ∈ src.labels := by
  obtain ⟨keys, hkn, hkm, _, hdst, hsize, _⟩ := fromCorrespondence_keys ho src dst hs hd h
  have hkd : ∀ k ∈ keys, k ∈ dst.labels := fun k hk => ((hkm k).mp hk).2
  have hlen : keys.length = dst.labels.length := by
    have h1 := congrArg List.length (fromCorrespondence_subset_shape src dst h hsub).2
    rw [hdst] at h1
    simpa [hsize] using h1
  intro r hr
  exact ((hkm r).mp (subset_of_nodup_length_ge hkn hkd (by omega) r hr)).1

/-- the dictionary `dst_to_src` in terms of labels: the position of a destination label reads the
    position of the same label in the source, if it is there -/
theorem dstToSrc_label {o : PyOrd κ} (ho : o.Lawful) (src dst : Idx κ) (hs : src.labels.Nodup)
    (hd : dst.labels.Nodup) {cc : IC} (h : fromCorrespondence o src dst = some cc) (c : κ)
    (hc : c ∈ dst.labels) :
    dstToSrc cc (dst.labels.idxOf c) = if c ∈ src.labels then some (src.labels.idxOf c) else none := by
  obtain ⟨keys, _, hkm, hsrc, hdst, _, _⟩ := fromCorrespondence_keys ho src dst hs hd h
  have hinj : ∀ a ∈ keys, ∀ b ∈ keys, dst.labels.idxOf a = dst.labels.idxOf b → a = b :=
    fun a ha b _ hab => idxOf_inj ((hkm a).mp ha).2 hab
  by_cases hcs : c ∈ src.labels
  · rw [if_pos hcs]
    unfold dstToSrc
    rw [hsrc, hdst]
    exact lookup_zip_map keys _ _ hinj c ((hkm c).mpr ⟨hcs, hc⟩)
  · rw [if_neg hcs]
    unfold dstToSrc
    rw [hsrc, hdst]
    apply lookup_zip_map_none
    intro a ha hh
    exact hcs (idxOf_inj ((hkm a).mp ha).2 hh ▸ ((hkm a).mp ha).1)

end SetOps

open SetOps (Idx PyOrd lookup fromCorrespondence AxisOk)

section cells
variable {κ α γ : Type} [DecidableEq κ]

/-- the canonical form of the column loop read at a destination LABEL -/
theorem slots_lookup {o : PyOrd κ} (ho : o.Lawful) (src dst : Idx κ) (hs : src.labels.Nodup)
    (hd : dst.labels.Nodup) {cc : IC} (h : fromCorrespondence o src dst = some cc)
    (cols : List γ) (G' : γ → γ) (fc : γ) (c : κ) (hc : c ∈ dst.labels) :
    lookup dst.labels ((List.range cc.size).map (slot cc cols G' fc)) c =
      some (match lookup src.labels cols c with
            | some x => G' x
            | none => fc) := by
  have hsize := (SetOps.fromCorrespondence_wf' ho src dst hs hd h).2
  have hlt : dst.labels.idxOf c < dst.labels.length := List.idxOf_lt_length_iff.mpr hc
  rw [SetOps.lookup_of_mem hc, List.getElem?_map, hsize, List.getElem?_range hlt]
  simp only [Option.map_some, slot, SetOps.dstToSrc_label ho src dst hs hd h c hc]
  by_cases hcs : c ∈ src.labels
  · rw [if_pos hcs, SetOps.lookup_of_mem hcs]
    rfl
  · rw [if_neg hcs, SetOps.lookup_of_not_mem hcs]

variable (resolve : DT → DT → DT) (conv : DT → DT → α → α)

/-- conversion of a source cell on its way into the result column: none when rows are only selected -/
def rowCv (iic : Option IC) (fillDT : DT) (t : DT) (v : α) : α :=
  match iic with
  | none => v
  | some ic => if ic.isSubset then v else conv t (resolve t fillDT) v

/-- ONE COLUMN, cell by cell: the result column holds, under each new row label, the source cell
    under that label (converted exactly when the column goes through `full_for_fill`), else the fill
    value as stored in the result dtype. -/
theorem colT_cells {o : PyOrd κ} (ho : o.Lawful) (index ni : Idx κ) (hidx : index.labels.Nodup)
    (hni : ni.labels.Nodup) (iic : Option IC) (hi : AxisOk o index ni iic) (fill : α) (fillDT : DT)
    (x : DT × List α) (hx : x.2.length = index.labels.length) (r : κ) (hr : r ∈ ni.labels) :
    lookup ni.labels (colT resolve conv iic fill fillDT x).2 r =
      some (match lookup index.labels x.2 r with
            | some v => rowCv resolve conv iic fillDT x.1 v
            | none => conv fillDT (colT resolve conv iic fill fillDT x).1 fill) := by
  cases iic with
  | none =>
    simp only [AxisOk] at hi
    have hr' : r ∈ index.labels := hi ▸ hr
    obtain ⟨v, hv⟩ := SetOps.lookup_isSome hr' hx
    have : colT resolve conv none fill fillDT x = x := rfl
    rw [this, hi, hv]
    rfl
  | some ic =>
    simp only [AxisOk] at hi
    have hwf := (SetOps.fromCorrespondence_wf' ho index ni hidx hni hi).1
    have h1 := (resizeColDT_eq_colT resolve conv (iic := some ic) hwf fill fillDT x hx).1
    unfold resizeColDT at h1
    simp only [] at h1
    by_cases hs : ic.isSubset = true
    · rw [if_pos hs] at h1
      obtain ⟨out, hout, _, hval⟩ := SetOps.rowG_spec ho index ni hidx hni hi fill x.2 hx
      rw [SetOps.resizeColBoth_eq, hout] at h1
      simp only [Except.map, Except.ok.injEq] at h1
      rw [← h1]
      have hr' : r ∈ index.labels := SetOps.fromCorrespondence_subset_mem ho index ni hidx hni hi hs r hr
      obtain ⟨v, hv⟩ := SetOps.lookup_isSome hr' hx
      simp only [hval r hr, hv, Option.getD_some, rowCv, hs, if_true]
    · rw [if_neg hs] at h1
      obtain ⟨out, hout, _, hval⟩ := SetOps.rowG_spec ho index ni hidx hni hi
        (conv fillDT (resolve x.1 fillDT) fill) (x.2.map (conv x.1 (resolve x.1 fillDT))) (by simpa using hx)
      rw [SetOps.resizeColBoth_eq, hout] at h1
      simp only [Except.map, Except.ok.injEq] at h1
      rw [← h1]
      simp only [hval r hr, SetOps.lookup_map', rowCv, hs, Bool.false_eq_true, if_false]
      cases lookup index.labels x.2 r <;> rfl

end cells

end SF
