/-
  SFModel.Equals — `equals` of the static-frame containers and the hashable variants.

  Mirrors (as coded on the pinned tree):
    * static_frame/core/type_blocks.py  `TypeBlocks.equals`            (tbEquals)
        shape check, compare_dtype on the per-column dtype list, `self == other` through
        `_ufunc_binary_operator` (three operand paths: block-compatible, re-blocked, `.values`),
        `isna_self & isna_other` (the both-missing mask, built from BOTH operands, again a binary
        operator on two Boolean TypeBlocks), the loop over the `==` blocks with the running
        `start/end` column window, `block[target] = True`, `block.all()`
        `block_compatible`, `_reblock_signature`, `reblock_compatible`, `consolidate_blocks`
    * static_frame/core/index.py        `Index.equals`                  (Idx.equals)
    * static_frame/core/index_level.py  `IndexLevel.equals`             (Level.equals, stack walk)
    * static_frame/core/index_hierarchy.py `IndexHierarchy.equals`     (IH.equals)
    * static_frame/core/series.py       `Series.equals`, `SeriesHE.__eq__/__ne__/__hash__` (hash of the labels, 7f42cd3)
    * static_frame/core/frame.py        `Frame.equals`,  `FrameHE.__eq__/__ne__/__hash__`
    * static_frame/core/bus.py          `Bus.equals`

  Cells are `α ⊕ missing` (`Cell.na` = NaN / NaT: a value that is not `==` to itself and is
  reported by `isna_array(..., include_none=False)`; `None` is an ordinary value).
  `veq` is NumPy / Python `==` on non-missing values (a parameter).

  Not modelled: the `id(other) == id(self)` shortcut.  The `equal_pairs` id cache of the tree walk
  is `walkC` / `Level.equalsC` (proved equal to the cache-free `walk` / `Level.equals`); `eq is False` (NumPy returning
  a scalar).  The dtype coercion of `.values` in the third operand path is the parameter `coerce`.
-/
import SFModel.Basic

namespace SF.Equals

/-! ### cells and 1-D arrays -/

inductive Cell (α : Type) where
  | val (a : α)
  | na
deriving DecidableEq, Repr, Inhabited

/-- NumPy `==` on two elements: a missing value equals nothing. -/
def Cell.rawEq {α} (veq : α → α → Bool) : Cell α → Cell α → Bool
  | .val a, .val b => veq a b
  | _, _ => false

/-- `isna_array(…, include_none=False)` on one element. -/
def Cell.isna {α} : Cell α → Bool
  | .na => true
  | .val _ => false

structure Opts where
  compareName : Bool := false
  compareDtype : Bool := false
  compareClass : Bool := false
  skipna : Bool := true
deriving DecidableEq, Repr

/-- `a == b` of two 1-D arrays of the same length -/
def arrEq {α} (veq : α → α → Bool) (x y : List (Cell α)) : List Bool :=
  List.zipWith (Cell.rawEq veq) x y

def arrIsna {α} (x : List (Cell α)) : List Bool := x.map Cell.isna

def arrAnd (x y : List Bool) : List Bool := List.zipWith (· && ·) x y

/-- `eq[mask] = True` -/
def fillTrue (eq mask : List Bool) : List Bool :=
  List.zipWith (fun e m => if m then true else e) eq mask

def arrAll (l : List Bool) : Bool := l.all id

/-- the tail shared by `Index.equals` and `Series.equals`: `==`, optional both-missing fill, `all` -/
def valuesEqual {α} (veq : α → α → Bool) (x y : List (Cell α)) (skipna : Bool) : Bool :=
  let eq := arrEq veq x y
  let eq := if skipna then fillTrue eq (arrAnd (arrIsna x) (arrIsna y)) else eq
  arrAll eq

/-! ### Index -/

structure Idx (ν δ κ α : Type) where
  labels : List (Cell α)
  name : ν
  dtype : δ
  cls : κ
deriving Repr

section
variable {ν δ κ α : Type} [DecidableEq ν] [DecidableEq δ] [DecidableEq κ]

/-- `Index.equals` -/
def Idx.equals (veq : α → α → Bool) (a b : Idx ν δ κ α) (o : Opts) : Bool :=
  if o.compareClass && a.cls != b.cls then false
  else if a.labels.length != b.labels.length then false
  else if o.compareName && a.name != b.name then false
  else if o.compareDtype && a.dtype != b.dtype then false
  else valuesEqual veq a.labels b.labels o.skipna

/-! ### IndexLevel (tree) and IndexHierarchy -/

/-- `leaf = true` stands for `targets is None`; `depthRef` is `depth_reference` (used by zero-length
    levels only); `cls` is IndexLevel / IndexLevelGO. -/
inductive Level (ν δ κ α : Type) where
  | mk (index : Idx ν δ κ α) (leaf : Bool) (targets : List (Level ν δ κ α)) (depthRef : Nat) (cls : κ)

namespace Level
variable {ν δ κ α : Type}
def index : Level ν δ κ α → Idx ν δ κ α | mk i _ _ _ _ => i
def leaf : Level ν δ κ α → Bool | mk _ l _ _ _ => l
def targets : Level ν δ κ α → List (Level ν δ κ α) | mk _ _ t _ _ => t
def depthRef : Level ν δ κ α → Nat | mk _ _ _ d _ => d
def cls : Level ν δ κ α → κ | mk _ _ _ _ c => c

/-- `IndexLevel.depth` (`_get_depth`: follow `targets[0]`; zero-length levels answer `depth_reference`) -/
def depth : Level ν δ κ α → Nat
  | mk i l ts d _ =>
    if i.labels.isEmpty then d
    else if l then 1
    else match ts with
      | [] => 1
      | t :: _ => t.depth + 1

mutual
/-- `IndexLevel.__len__`: the sum of the leaf lengths -/
def len : Level ν δ κ α → Nat
  | mk i l ts _ _ => if l || ts.isEmpty then i.labels.length else lenList ts
def lenList : List (Level ν δ κ α) → Nat
  | [] => 0
  | t :: ts => t.len + lenList ts
end

mutual
/-- number of nodes (the fuel of the tree walk) -/
def size : Level ν δ κ α → Nat
  | mk _ _ ts _ _ => 1 + sizeList ts
def sizeList : List (Level ν δ κ α) → Nat
  | [] => 0
  | t :: ts => t.size + sizeList ts
end

end Level

/-- The `while levels_self and levels_other` loop of `IndexLevel.equals`.  The head of a list is the
    top of the Python stack (`pop()` takes the last element, `extend` pushes the targets so that the
    last target is popped first). -/
def walk (veq : α → α → Bool) (o : Opts) :
    Nat → List (Level ν δ κ α) → List (Level ν δ κ α) → Bool
  | 0, _, _ => false
  | fuel + 1, a :: sa, b :: sb =>
    if !(a.index.equals veq b.index o) then false
    else if a.leaf && b.leaf then walk veq o fuel sa sb
    else if a.leaf || b.leaf then false
    else walk veq o fuel (a.targets.reverse ++ sa) (b.targets.reverse ++ sb)
  | _ + 1, sa, sb => sa.isEmpty && sb.isEmpty

/-- The loop as coded, WITH the `equal_pairs` cache: `ida` / `idb` give `id(level.index)` of a node
    of self / other (nodes sharing one Index object — e.g. the sibling leaves built by
    `IndexHierarchy.from_product` — have the same id).  `pair = (id(level_self.index),
    id(level_other.index))`; a pair found in the cache skips `index.equals`; a verified pair is added. -/
def walkC (veq : α → α → Bool) (o : Opts) (ida idb : Level ν δ κ α → Nat) :
    Nat → List (Nat × Nat) → List (Level ν δ κ α) → List (Level ν δ κ α) → Bool
  | 0, _, _, _ => false
  | fuel + 1, cache, a :: sa, b :: sb =>
    let found := cache.contains (ida a, idb b)
    if !found && !(a.index.equals veq b.index o) then false
    else
      let cache' := if found then cache else (ida a, idb b) :: cache
      if a.leaf && b.leaf then walkC veq o ida idb fuel cache' sa sb
      else if a.leaf || b.leaf then false
      else walkC veq o ida idb fuel cache' (a.targets.reverse ++ sa) (b.targets.reverse ++ sb)
  | _ + 1, _, sa, sb => sa.isEmpty && sb.isEmpty

/-- `id()` is sound: nodes with the same id hold the same Index object -/
def IdSound (idf : Level ν δ κ α → Nat) : Prop := ∀ x y, idf x = idf y → x.index = y.index

/-- `IndexLevel.equals` -/
def Level.equals (veq : α → α → Bool) (a b : Level ν δ κ α) (o : Opts) : Bool :=
  if o.compareClass && a.cls != b.cls then false
  else if a.len != b.len then false
  else if a.depth != b.depth then false
  else if (a.leaf || a.targets.isEmpty) && (b.leaf || b.targets.isEmpty) then
    a.index.equals veq b.index o
  else walk veq o (a.size + 1) [a] [b]

/-- `IndexLevel.equals` as coded, with the identity cache (starts empty) -/
def Level.equalsC (veq : α → α → Bool) (ida idb : Level ν δ κ α → Nat) (a b : Level ν δ κ α) (o : Opts) : Bool :=
  if o.compareClass && a.cls != b.cls then false
  else if a.len != b.len then false
  else if a.depth != b.depth then false
  else if (a.leaf || a.targets.isEmpty) && (b.leaf || b.targets.isEmpty) then
    a.index.equals veq b.index o
  else walkC veq o ida idb (a.size + 1) [] [a] [b]

structure IH (ν δ κ α : Type) where
  levels : Level ν δ κ α
  name : ν
  cls : κ

/-- `IndexHierarchy.shape` -/
def IH.shape (a : IH ν δ κ α) : Nat × Nat := (a.levels.len, a.levels.depth)

/-- `IndexHierarchy.equals` -/
def IH.equals (veq : α → α → Bool) (a b : IH ν δ κ α) (o : Opts) : Bool :=
  if o.compareClass && a.cls != b.cls then false
  else if a.shape != b.shape then false
  else if o.compareName && a.name != b.name then false
  else a.levels.equals veq b.levels o

/-- an axis of a Series / Frame / Bus: flat `Index` or `IndexHierarchy` -/
inductive Axis (ν δ κ α : Type) where
  | flat (i : Idx ν δ κ α)
  | hier (h : IH ν δ κ α)

/-- `self._index.equals(other._index, …)`: `isinstance(other, Index)` / `isinstance(other, IndexHierarchy)`
    fail across the two kinds. -/
def Axis.equals (veq : α → α → Bool) (a b : Axis ν δ κ α) (o : Opts) : Bool :=
  match a, b with
  | .flat x, .flat y => x.equals veq y o
  | .hier x, .hier y => x.equals veq y o
  | _, _ => false

/-! ### Series -/

structure Series (ν δ κ α : Type) where
  values : List (Cell α)
  dtype : δ
  name : ν
  index : Axis ν δ κ α
  cls : κ

/-- `Series.equals` -/
def Series.equals (veq : α → α → Bool) (a b : Series ν δ κ α) (o : Opts) : Bool :=
  if o.compareClass && a.cls != b.cls then false
  else if a.values.length != b.values.length then false
  else if o.compareName && a.name != b.name then false
  else if o.compareDtype && a.dtype != b.dtype then false
  else if !(valuesEqual veq a.values b.values o.skipna) then false
  else a.index.equals veq b.index o

end

/-! ### TypeBlocks -/

/-- A block: its dtype and its columns (a 1-D array is a block of one column: `shape_filter`). -/
structure Block (δ β : Type) where
  dtype : δ
  cols : List (List β)
deriving Repr

structure TB (δ β : Type) where
  rows : Nat
  blocks : List (Block δ β)
deriving Repr

namespace TB
variable {δ β : Type}

def width (t : TB δ β) : Nat := (t.blocks.map (·.cols.length)).sum
def shape (t : TB δ β) : Nat × Nat := (t.rows, t.width)
/-- `TypeBlocks._dtypes`: one entry per column -/
def dtypes (t : TB δ β) : List δ := t.blocks.flatMap fun b => b.cols.map fun _ => b.dtype
/-- the column abstraction (C03): the columns in order, whatever the grouping into blocks -/
def columns (t : TB δ β) : List (List β) := t.blocks.flatMap (·.cols)

/-- `block_compatible(other, axis=None)`: same shape and block-wise the same (rows, width) -/
def blockCompatible {δ' γ} (a : TB δ β) (b : TB δ' γ) : Bool :=
  a.shape == b.shape && a.blocks.map (·.cols.length) == b.blocks.map (·.cols.length)

end TB

section
variable {δ β : Type} [DecidableEq δ]

/-- the loop of `_reblock_signature`: `d` = group_dtype, `n` = group_cols -/
def sigAux : δ → Nat → List (Block δ β) → List (δ × Nat)
  | d, n, [] => if n > 0 then [(d, n)] else []
  | d, n, b :: bs =>
    if b.dtype != d then (d, n) :: sigAux b.dtype b.cols.length bs
    else sigAux d (n + b.cols.length) bs

/-- `_reblock_signature` -/
def reblockSig : List (Block δ β) → List (δ × Nat)
  | [] => []
  | b :: bs => sigAux b.dtype b.cols.length bs

/-- the loop of `consolidate_blocks`: `d` = group_dtype, `acc` = the columns of `group` -/
def consAux : δ → List (List β) → List (Block δ β) → List (Block δ β)
  | d, acc, [] => [⟨d, acc⟩]
  | d, acc, b :: bs =>
    if b.dtype != d then ⟨d, acc⟩ :: consAux b.dtype b.cols bs
    else consAux d (acc ++ b.cols) bs

/-- `consolidate_blocks` / `_reblock` -/
def consolidate : List (Block δ β) → List (Block δ β)
  | [] => []
  | b :: bs => consAux b.dtype b.cols bs

end

/-- `reblock_compatible`: same width and the re-block signatures agree on the widths -/
def reblockCompatible {δ δ' β γ} [DecidableEq δ] [DecidableEq δ'] (a : TB δ β) (b : TB δ' γ) : Bool :=
  a.width == b.width &&
    (reblockSig a.blocks).map (·.2) == (reblockSig b.blocks).map (·.2)

/-- `apply_binary_operator_blocks` on aligned operand blocks: element-wise per block pair;
    the result blocks are Boolean (dtype `Unit`). -/
def applyBlocks {δ δ' β γ} (f : β → γ → Bool) (xs : List (Block δ β)) (ys : List (Block δ' γ)) :
    List (Block Unit Bool) :=
  List.zipWith (fun x y => ⟨(), List.zipWith (List.zipWith f) x.cols y.cols⟩) xs ys

/-- `TypeBlocks._ufunc_binary_operator` with a TypeBlocks operand (`none` = NotImplementedError):
    the three ways of aligning the operands. -/
def binop {δ δ' β γ} [DecidableEq δ] [DecidableEq δ'] (f : β → γ → Bool)
    (a : TB δ β) (b : TB δ' γ) (da : δ) (db : δ') (ca : β → β) (cb : γ → γ) : Option (TB Unit Bool) :=
  if a.blockCompatible b then
    some ⟨a.rows, applyBlocks f a.blocks b.blocks⟩
  else if a.shape == b.shape then
    if !(reblockCompatible a b) then
      -- `(self.values,)`, `(other.values,)`: one 2-D array each; NumPy resolves the dtypes `da`, `db`
      -- and converts every cell to it (`ca`, `cb`)
      some ⟨a.rows, applyBlocks f [⟨da, a.columns.map (·.map ca)⟩] [⟨db, b.columns.map (·.map cb)⟩]⟩
    else
      some ⟨a.rows, applyBlocks f (consolidate a.blocks) (consolidate b.blocks)⟩
  else none

/-- `TypeBlocks.isna(include_none=False)`: block structure kept, every block Boolean -/
def TB.isna {δ α} (t : TB δ (Cell α)) : TB Unit Bool :=
  ⟨t.rows, t.blocks.map fun b => ⟨(), b.cols.map arrIsna⟩⟩

/-- `_extract_array(column_key=slice(start, end))` of a TypeBlocks: the columns of the window,
    whatever the block structure (C03). -/
def TB.window {δ β} (t : TB δ β) (start width : Nat) : List (List β) :=
  (t.columns.drop start).take width

/-- The loop over `eq._blocks`: `start/end` window into the both-missing mask, fill, `all`;
    returns at the first block that is not all-True. -/
def eqLoop (mask : Option (TB Unit Bool)) : Nat → List (Block Unit Bool) → Bool
  | _, [] => true
  | start, blk :: rest =>
    let w := blk.cols.length
    let filled := match mask with
      | some m => List.zipWith fillTrue blk.cols (m.window start w)
      | none => blk.cols
    if !(filled.all arrAll) then false
    else eqLoop mask (start + w) rest

/-- `TypeBlocks.equals` (there is only one TypeBlocks class: `compare_class` cannot fail).
    `resolved` is the dtype NumPy resolves for `.values` and `coerce` the conversion of a cell to
    it (the identity on the cell abstraction except that an object result turns NaT into None). -/
def tbEquals {δ α} [DecidableEq δ] (veq : α → α → Bool) (a b : TB δ (Cell α)) (o : Opts)
    (resolved : δ) (coerce : Cell α → Cell α := id) : Bool :=
  if a.shape != b.shape then false
  else if o.compareDtype && a.dtypes != b.dtypes then false
  else if a.blocks.isEmpty then true   -- `if not self._blocks: return True` (equal shapes, no column)
  else match binop (Cell.rawEq veq) a b resolved resolved coerce coerce with
    | none => false
    | some eq =>
      if o.skipna then
        match binop (· && ·) a.isna b.isna () () id id with
        | none => false
        | some both => eqLoop (some both) 0 eq.blocks
      else eqLoop none 0 eq.blocks

/-! ### Frame, Bus -/

structure Frame (ν δ κ α : Type) where
  blocks : TB δ (Cell α)
  name : ν
  index : Axis ν δ κ α
  columns : Axis ν δ κ α
  cls : κ

section
variable {ν δ κ α : Type} [DecidableEq ν] [DecidableEq δ] [DecidableEq κ]

/-- `Frame.equals` -/
def Frame.equals (veq : α → α → Bool) (a b : Frame ν δ κ α) (o : Opts) (resolved : δ)
    (coerce : Cell α → Cell α := id) : Bool :=
  if o.compareClass && a.cls != b.cls then false
  else if a.blocks.shape != b.blocks.shape then false
  else if o.compareName && a.name != b.name then false
  else if !(tbEquals veq a.blocks b.blocks o resolved coerce) then false
  else if !(a.index.equals veq b.index o) then false
  else if !(a.columns.equals veq b.columns o) then false
  else true

structure Bus (ν δ κ α : Type) where
  frames : List (Frame ν δ κ α)
  name : ν
  index : Axis ν δ κ α
  cls : κ

/-- the `for … in zip(self.items(), other.items())` loop of `Bus.equals` -/
def busLoop (veq : α → α → Bool) (o : Opts) (resolved : δ) (coerce : Cell α → Cell α) :
    List (Frame ν δ κ α) → List (Frame ν δ κ α) → Bool
  | x :: xs, y :: ys =>
    if !(x.equals veq y o resolved coerce) then false else busLoop veq o resolved coerce xs ys
  | _, _ => true

/-- `Bus.equals` -/
def Bus.equals (veq : α → α → Bool) (a b : Bus ν δ κ α) (o : Opts) (resolved : δ)
    (coerce : Cell α → Cell α := id) : Bool :=
  if o.compareClass && a.cls != b.cls then false
  else if a.frames.length != b.frames.length then false
  else if o.compareName && a.name != b.name then false
  else if !(a.index.equals veq b.index o) then false
  else busLoop veq o resolved coerce a.frames b.frames

/-! ### hashable variants -/

/-- the options `SeriesHE.__eq__` / `FrameHE.__eq__` pass to `equals` -/
def heOpts : Opts := { compareName := true, compareDtype := false, compareClass := false, skipna := true }

def Series.heEq (veq : α → α → Bool) (a b : Series ν δ κ α) : Bool := a.equals veq b heOpts
def Series.heNe (veq : α → α → Bool) (a b : Series ν δ κ α) : Bool := !(a.heEq veq b)
def Frame.heEq (veq : α → α → Bool) (a b : Frame ν δ κ α) (resolved : δ)
    (coerce : Cell α → Cell α := id) : Bool :=
  a.equals veq b heOpts resolved coerce
def Frame.heNe (veq : α → α → Bool) (a b : Frame ν δ κ α) (resolved : δ)
    (coerce : Cell α → Cell α := id) : Bool :=
  !(a.heEq veq b resolved coerce)

/-- PINNED-TREE BEHAVIOUR (repaired in /repo commit 7f42cd3; kept for the historical counterexample only).
    `tuple(index.values)` handed to `hash`: the per-label hashes of a flat index; for an
    IndexHierarchy `.values` is 2-D, the tuple holds arrays and `hash` raises TypeError. -/
def Axis.hashKeyPinned {η} (h : Cell α → η) : Axis ν δ κ α → Except Err (List η)
  | .flat i => .ok (i.labels.map h)
  | .hier _ => .error .value

/-- pinned tree, before 7f42cd3: `SeriesHE.__hash__`: `hash(tuple(self.index.values))`; `mix` is Python's tuple hash. -/
def Series.heHashPinned {η} (h : Cell α → η) (mix : List η → η) (a : Series ν δ κ α) : Except Err η :=
  match a.index.hashKeyPinned h with
  | .ok k => .ok (mix k)
  | .error e => .error e

/-- pinned tree, before 7f42cd3: `FrameHE.__hash__`: `hash((tuple(self.index.values), tuple(self.columns.values)))` -/
def Frame.heHashPinned {η} (h : Cell α → η) (mix : List η → η) (a : Frame ν δ κ α) : Except Err η :=
  match a.index.hashKeyPinned h with
  | .error e => .error e
  | .ok ki =>
    match a.columns.hashKeyPinned h with
    | .error e => .error e
    | .ok kc => .ok (mix [mix ki, mix kc])

end


/-! ### the simple spec

  Content equality: same shape, labels pairwise equal in order on every axis, cells pairwise
  equal, where two missing cells at the same position count as equal only with `skipna`; each of
  `compare_name / compare_dtype / compare_class` adds exactly the requirement of its name. -/

/-- `==` on the value type is an equivalence -/
structure VeqEquiv {α : Type} (veq : α → α → Bool) : Prop where
  refl : ∀ x, veq x x = true
  symm : ∀ x y, veq x y = true → veq y x = true
  trans : ∀ x y z, veq x y = true → veq y z = true → veq x z = true

/-- pairwise relation of two lists of the same length -/
def All2 {α β} (R : α → β → Prop) : List α → List β → Prop
  | [], [] => True
  | a :: as, b :: bs => R a b ∧ All2 R as bs
  | _, _ => False

/-- two cells count as equal: `==`, or both missing and `skipna` -/
def cellOk {α} (veq : α → α → Bool) (skipna : Bool) : Cell α → Cell α → Prop
  | .val a, .val b => veq a b = true
  | .na, .na => skipna = true
  | _, _ => False

/-- the label hash respects `==` (Python's guarantee for the label types; NaN labels excluded) -/
def HashRespects {α η : Type} (veq : α → α → Bool) (h : Cell α → η) : Prop :=
  ∀ x y, cellOk veq true x y → h x = h y

section
variable {ν δ κ α : Type}

/-- the three optional requirements -/
def optsOk (o : Opts) (n n' : ν) (d d' : List δ) (c c' : κ) : Prop :=
  (o.compareName = true → n = n') ∧ (o.compareDtype = true → d = d') ∧ (o.compareClass = true → c = c')

def Idx.Spec (veq : α → α → Bool) (o : Opts) (a b : Idx ν δ κ α) : Prop :=
  All2 (cellOk veq o.skipna) a.labels b.labels ∧ optsOk o a.name b.name [a.dtype] [b.dtype] a.cls b.cls

mutual
/-- the same tree: node by node the same index content, the same terminus flag -/
def Level.Eqv (veq : α → α → Bool) (o : Opts) : Level ν δ κ α → Level ν δ κ α → Prop
  | .mk i l ts _ _, b =>
    Idx.Spec veq o i b.index ∧ l = b.leaf ∧ (l = false → Level.EqvList veq o ts b.targets)
def Level.EqvList (veq : α → α → Bool) (o : Opts) : List (Level ν δ κ α) → List (Level ν δ κ α) → Prop
  | [], [] => True
  | t :: ts, t' :: ts' => Level.Eqv veq o t t' ∧ Level.EqvList veq o ts ts'
  | _, _ => False
end

mutual
/-- the label tuples of a tree, in order -/
def Level.rowsOf : Level ν δ κ α → List (List (Cell α))
  | .mk i l ts _ _ => if l then i.labels.map ([·]) else Level.rowsZip i.labels ts
def Level.rowsZip : List (Cell α) → List (Level ν δ κ α) → List (List (Cell α))
  | x :: xs, t :: ts => (Level.rowsOf t).map (x :: ·) ++ Level.rowsZip xs ts
  | _, _ => []
end

/-- `tuple(index)` handed to `hash` (since commit 7f42cd3): one hash per label; a label of an
    IndexHierarchy is the tuple of its parts (hashed with Python's tuple hash `mix`). -/
def Axis.labelHashes {η : Type} (h : Cell α → η) (mix : List η → η) : Axis ν δ κ α → List η
  | .flat i => i.labels.map h
  | .hier x => (Level.rowsOf x.levels).map fun r => mix (r.map h)

/-- `SeriesHE.__hash__`: `hash(tuple(self.index))` -/
def Series.heHash {η : Type} (h : Cell α → η) (mix : List η → η) (a : Series ν δ κ α) : η :=
  mix (a.index.labelHashes h mix)

/-- `FrameHE.__hash__`: `hash((tuple(self.index), tuple(self.columns)))` -/
def Frame.heHash {η : Type} (h : Cell α → η) (mix : List η → η) (a : Frame ν δ κ α) : η :=
  mix [mix (a.index.labelHashes h mix), mix (a.columns.labelHashes h mix)]

def IH.Spec (veq : α → α → Bool) (o : Opts) (a b : IH ν δ κ α) : Prop :=
  a.shape = b.shape ∧ Level.Eqv veq o a.levels b.levels ∧
    (o.compareName = true → a.name = b.name) ∧
    (o.compareClass = true → a.cls = b.cls ∧ a.levels.cls = b.levels.cls)

def Axis.Spec (veq : α → α → Bool) (o : Opts) : Axis ν δ κ α → Axis ν δ κ α → Prop
  | .flat x, .flat y => Idx.Spec veq o x y
  | .hier x, .hier y => IH.Spec veq o x y
  | _, _ => False

def Series.Spec (veq : α → α → Bool) (o : Opts) (a b : Series ν δ κ α) : Prop :=
  All2 (cellOk veq o.skipna) a.values b.values ∧ Axis.Spec veq o a.index b.index ∧
    optsOk o a.name b.name [a.dtype] [b.dtype] a.cls b.cls

/-- TypeBlocks content: row count and the column abstraction only (no block structure) -/
def TB.Spec (veq : α → α → Bool) (o : Opts) (a b : TB δ (Cell α)) : Prop :=
  a.rows = b.rows ∧ All2 (All2 (cellOk veq o.skipna)) a.columns b.columns ∧
    (o.compareDtype = true → a.dtypes = b.dtypes)

def Frame.Spec (veq : α → α → Bool) (o : Opts) (a b : Frame ν δ κ α) : Prop :=
  TB.Spec veq o a.blocks b.blocks ∧ Axis.Spec veq o a.index b.index ∧
    Axis.Spec veq o a.columns b.columns ∧
    (o.compareName = true → a.name = b.name) ∧ (o.compareClass = true → a.cls = b.cls)

def Bus.Spec (veq : α → α → Bool) (o : Opts) (a b : Bus ν δ κ α) : Prop :=
  All2 (Frame.Spec veq o) a.frames b.frames ∧ Axis.Spec veq o a.index b.index ∧
    (o.compareName = true → a.name = b.name) ∧ (o.compareClass = true → a.cls = b.cls)

/-- TypeBlocks invariant: every column has `rows` cells, every block has a column -/
def TB.WF {β} (t : TB δ β) : Prop :=
  ∀ b ∈ t.blocks, b.cols ≠ [] ∧ ∀ c ∈ b.cols, c.length = t.rows

mutual
/-- IndexLevel invariant: a non-terminal node has one target per label (and at least one) -/
def Level.WF : Level ν δ κ α → Prop
  | .mk i l ts _ _ => (l = false → ts.length = i.labels.length ∧ ts ≠ []) ∧ Level.WFList ts
def Level.WFList : List (Level ν δ κ α) → Prop
  | [] => True
  | t :: ts => Level.WF t ∧ Level.WFList ts
end

/-- labels of one node are pairwise different (under `==`, NaN never equal to NaN here) -/
def PairwiseNe (veq : α → α → Bool) (s : Bool) (xs : List (Cell α)) : Prop :=
  xs.Pairwise fun a b => ¬ cellOk veq s a b

mutual
/-- canonical tree: every node has labels, pairwise different; a non-terminal node has one target per label -/
def Level.Canon (veq : α → α → Bool) (s : Bool) : Level ν δ κ α → Prop
  | .mk i l ts _ _ => i.labels ≠ [] ∧ PairwiseNe veq s i.labels ∧
      (l = false → ts.length = i.labels.length ∧ Level.CanonList veq s ts)
def Level.CanonList (veq : α → α → Bool) (s : Bool) : List (Level ν δ κ α) → Prop
  | [] => True
  | t :: ts => Level.Canon veq s t ∧ Level.CanonList veq s ts
end

abbrev rowRel (veq : α → α → Bool) (s : Bool) : List (Cell α) → List (Cell α) → Prop := All2 (cellOk veq s)

/-- the options that compare content only -/
def plainOpts (s : Bool) : Opts := ⟨false, false, false, s⟩


def Axis.WF : Axis ν δ κ α → Prop
  | .flat _ => True
  | .hier h => h.levels.WF

def Frame.WF (f : Frame ν δ κ α) : Prop := f.blocks.WF ∧ f.index.WF ∧ f.columns.WF

def Bus.WF (b : Bus ν δ κ α) : Prop := b.index.WF ∧ ∀ f ∈ b.frames, f.WF

end

end SF.Equals
