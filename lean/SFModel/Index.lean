/-
  SFModel.Index — flat indices: label → position map, lookup, grow-only append.

  Mirrors static_frame/core/index.py:
    * `Index.__init__` + automap's `AutoMap(labels)`          → `AMap.build`, `Index.mk?`
    * `loc_is_iloc` indices (no map; labels are 0..n-1)        → `Index.mkAuto`, `map = none`
    * `LocMap.map_slice_args`, `LocMap.loc_to_iloc`            → `mapSliceArgs`, `locMap`
    * `Index._loc_to_iloc` (incl. both loc_is_iloc fast paths) → `Index.locToIlocP`
    * `Index.loc_to_iloc` (public)                             → `Index.locToIloc`
    * `Index.__contains__/__len__/__iter__/__reversed__/values/positions`
    * `_IndexGOMixin.append / extend / _update_array_cache`    → `IndexGO.*`

  Labels are an arbitrary type `α` with decidable equality: an element of `α` stands for one
  ==/hash class of Python labels (1, 1.0 and True are one label).  `IntLabel α` says which labels
  are integers (`isinstance(value, INT_TYPES)` in the code; a parameter of the model).
  automap's hashing is abstracted to "insertion-ordered association list, insertion of a label
  already present raises".
-/
import SFModel.Slice

namespace SF

/-- Which labels are integers (auto-integer indices hold exactly `ofInt 0 … ofInt (n-1)`). -/
class IntLabel (α : Type) where
  ofInt : Int → α
  toInt? : α → Option Int
  toInt_ofInt : ∀ i, toInt? (ofInt i) = some i
  ofInt_toInt : ∀ a i, toInt? a = some i → a = ofInt i

/-- the labels of an auto-integer index of length `n`: `0 … n-1` -/
def autoLabels {α : Type} [IntLabel α] (n : Nat) : List α :=
  (List.range n).map (fun (i : Nat) => IntLabel.ofInt (Int.ofNat i))

/-! ### automap -/

/-- automap.AutoMap / FrozenAutoMap: insertion ordered label → position. -/
abbrev AMap (α : Type) := List (α × Nat)

namespace AMap
variable {α : Type} [DecidableEq α]

/-- `label_to_pos.get(a)` -/
def get? : AMap α → α → Option Nat
  | [], _ => none
  | (k, v) :: m, a => if k = a then some v else get? m a

/-- `AutoMap.add(a)`; `none` = ValueError (NonUniqueError). -/
def add (m : AMap α) (a : α) : Option (AMap α) :=
  if (m.get? a).isSome then none else some (m ++ [(a, m.length)])

/-- `AutoMap(labels)` continued from a partially built map: one `add` per label, in order. -/
def buildFrom (m : AMap α) : List α → Option (AMap α)
  | [] => some m
  | a :: as => match m.add a with
    | none => none
    | some m' => buildFrom m' as

/-- `AutoMap(labels)` / `FrozenAutoMap(labels)`; `none` = non-unique labels. -/
def build (ls : List α) : Option (AMap α) := buildFrom [] ls

end AMap

/-! ### Index -/

/-- `labels` = `_labels`; `map` = `_map` (`none` ⇔ `loc_is_iloc`: labels are `0 … n-1`). -/
structure Index (α : Type) where
  labels : List α
  map : Option (AMap α)
deriving Repr

/-- A label key (`loc`).  `slice` endpoints are labels, the step an integer. -/
inductive LKey (α : Type)
  | label (a : α)
  | list (as : List α)
  | slice (start stop : Option α) (step : Option Int)
  | mask (bs : List Bool)
deriving Repr

/-- A positional key (`iloc`) as produced by `loc_to_iloc`. -/
inductive IKey
  | int (i : Int)
  | list (is : List Int)
  | slice (s : PySlice)
  | arr (ps : List Nat)        -- `positions[bool_array]`
deriving Repr, DecidableEq

namespace IKey

/-- The positions an iloc key addresses in a sequence of length `n` (NumPy semantics, via C04's
    `Key.positions`). -/
def positions (k : IKey) (n : Nat) : Except Err (List Nat) :=
  match k with
  | .int i => (Key.int i).positions n
  | .list is => (Key.list is).positions n
  | .slice s => s.positions n
  | .arr ps => if ps.all (· < n) then .ok ps else .error .lookup

end IKey

namespace Index
variable {α : Type} [DecidableEq α] [IntLabel α]
open IntLabel

/-- `Index(labels)` with `loc_is_iloc=False`: build the map, reject non-unique labels. -/
def mk? (ls : List α) : Except Err (Index α) :=
  match AMap.build ls with
  | none => .error .nonUnique
  | some m => .ok ⟨ls, some m⟩

/-- `IndexAutoFactory.from_optional_constructor(n)`: `Index(PositionsAllocator.get(n), loc_is_iloc=True)`. -/
def mkAuto (n : Nat) : Index α := ⟨autoLabels n, none⟩

def len (ix : Index α) : Nat := ix.labels.length
def iter (ix : Index α) : List α := ix.labels
def reversed (ix : Index α) : List α := ix.labels.reverse
def values (ix : Index α) : List α := ix.labels
def positions (ix : Index α) : List Nat := List.range ix.labels.length

/-- `Index.__contains__` -/
def contains (ix : Index α) (a : α) : Bool :=
  match ix.map with
  | none => match toInt? a with
    | some i => decide (0 ≤ i) && decide (i < (ix.len : Int))
    | none => false
  | some m => (m.get? a).isSome

/-- `index.iloc[i]` for an in-range position. -/
def ilocAt (ix : Index α) (i : Nat) : Option α := ix.labels[i]?

/-- One endpoint of `LocMap.map_slice_args` (non-datetime branch): absent label → LocInvalid;
    `inclusive` adds one for the stop field. -/
def mapSliceArg (m : AMap α) (off : Nat) (inclusive : Bool) : Option α → Except Err (Option Int)
  | none => .ok none
  | some a => match m.get? a with
    | none => .error .lookup
    | some p => .ok (some ((p : Int) + off + (if inclusive then 1 else 0)))

/-- the stop field of `LocMap.map_slice_args`: inclusive in the direction of the step — `pos + 1`, and
    for an integer step < 0 `pos - 1`, `None` when that falls below 0 (repaired in commit 51a0a39:
    it used to be `pos + 1` whatever the sign of the step) -/
def mapSliceStop (m : AMap α) (off : Nat) (step : Option Int) : Option α → Except Err (Option Int)
  | none => .ok none
  | some a => match m.get? a with
    | none => .error .lookup
    | some p =>
      if step.getD 1 < 0 then
        (if (p : Int) + off - 1 < 0 then .ok none else .ok (some ((p : Int) + off - 1)))
      else .ok (some ((p : Int) + off + 1))

/-- `slice(*LocMap.map_slice_args(label_to_pos.get, key, labels, offset))` -/
def mapSliceArgs (m : AMap α) (off : Nat) (start stop : Option α) (step : Option Int) :
    Except Err PySlice :=
  match mapSliceArg m off false start with
  | .error e => .error e
  | .ok a => match mapSliceStop m off step stop with
    | .error e => .error e
    | .ok b => .ok ⟨a, b, step⟩

/-- `[label_to_pos[k] + offset for k in key]` (KeyError on an absent label) or, with
    `partial_selection`, the available matches only. -/
def mapList (m : AMap α) (off : Nat) (partialSel : Bool) : List α → Except Err (List Int)
  | [] => .ok []
  | a :: as => match m.get? a with
    | none => if partialSel then mapList m off partialSel as else .error .lookup
    | some p => match mapList m off partialSel as with
      | .error e => .error e
      | .ok r => .ok (((p : Int) + off) :: r)

/-- with an offset applied an open end of a mapped label slice is bounded by the index it was given
    (`n` = `len(positions)`): repaired in commit 79a552f -/
def boundSlice (s : PySlice) (off n : Nat) : PySlice :=
  if s.step.isNone ∨ s.step.getD 1 > 0 then
    ⟨some (s.start.getD (off : Int)), some (s.stop.getD ((off : Int) + n)), s.step⟩
  else
    ⟨some (s.start.getD ((off : Int) + n - 1)),
     (match s.stop with
      | some b => some b
      | none => if off > 0 then some ((off : Int) - 1) else none), s.step⟩

/-- `LocMap.loc_to_iloc(label_to_pos=m, positions=arange(n), key, offset, partial_selection)`. -/
def locMap (m : AMap α) (n : Nat) (key : LKey α) (offset : Option Nat) (partialSel : Bool) :
    Except Err IKey :=
  let off := offset.getD 0
  match key with
  | .slice start stop step =>
    if offset.isSome ∧ start.isNone ∧ stop.isNone ∧ step.isNone then
      .ok (.slice ⟨some (off : Int), some ((n : Int) + off), none⟩)
    else match mapSliceArgs m off start stop step with
      | .error e => .error e
      | .ok s => match offset with
        | none => .ok (.slice s)
        | some o => .ok (.slice (boundSlice s o n))
  | .mask bs =>
    if bs.length = n then .ok (.arr ((maskPositions bs).map (· + off))) else .error .lookup
  | .list as => (mapList m off partialSel as).map .list
  | .label a => match m.get? a with
    | none => .error .lookup
    | some p => .ok (.int ((p : Int) + off))

/-- integer value of a label used as a position on a `loc_is_iloc` index (a non-integer label
    ends in NumPy's IndexError / TypeError when applied). -/
def asInt (a : α) : Except Err Int :=
  match toInt? a with
  | some i => .ok i
  | none => .error .lookup

def asInts : List α → Except Err (List Int)
  | [] => .ok []
  | a :: as => match asInt a with
    | .error e => .error e
    | .ok i => (asInts as).map (i :: ·)

def asOptInt : Option α → Except Err (Option Int)
  | none => .ok none
  | some a => (asInt a).map some

/-- `slice_to_inclusive_slice(key, offset)` on a slice whose endpoints are integer labels. -/
def autoSlice (start stop : Option α) (step : Option Int) (off : Int) : Except Err PySlice :=
  match asOptInt start with
  | .error e => .error e
  | .ok a => match asOptInt stop with
    | .error e => .error e
    | .ok b => .ok (sliceToInclusive ⟨a, b, step⟩ off)

/-- `Index._loc_to_iloc(key, offset, partial_selection=…)` (key_transform is the identity here). -/
def locToIlocP (ix : Index α) (key : LKey α) (offset : Option Nat) (partialSel : Bool) :
    Except Err IKey :=
  match ix.map, offset with
  | none, none =>                       -- loc_is_iloc, no offset: the key is returned as it is,
    match key with                      --   but a negative integer is not a label (repaired in commit 9eb4b8c)
    | .mask bs => if bs.length = ix.len then .ok (.arr (maskPositions bs)) else .error .lookup
    | .slice a b st => match asOptInt a, asOptInt b with
      | .ok a', .ok b' =>
        if (a'.getD 0 < 0) ∨ (b'.getD 0 < 0) then .error .lookup       -- LocInvalid
        else .ok (.slice (sliceToInclusive ⟨a', b', st⟩ 0))
      | .error e, _ => .error e
      | _, .error e => .error e
    | .list as => match asInts as with
      | .error e => .error e
      | .ok is => if is.any (· < 0) then .error .lookup else .ok (.list is)
    | .label a => match asInt a with
      | .error e => .error e
      | .ok i => if i < 0 then .error .lookup else .ok (.int i)
  | none, some off =>                   -- loc_is_iloc inside a hierarchy
    match key with
    | .slice a b st =>
      if a.isNone ∧ b.isNone ∧ st.isNone then
        .ok (.slice ⟨some (off : Int), some ((ix.len : Int) + off), none⟩)
      else (autoSlice a b st off).map .slice
    | .mask bs =>
      if bs.length = ix.len then .ok (.arr ((maskPositions bs).map (· + off))) else .error .lookup
    | .list as => (asInts as).map (fun l => .list (l.map (· + (off : Int))))
    | .label a => (asInt a).map (fun i => .int (i + off))
  | some m, _ => locMap m ix.len key offset partialSel

/-- `Index.loc_to_iloc(key)` (public).  On a `loc_is_iloc` index the key is validated against
    `_positions` and returned unchanged (a negative integer in range passes: finding F13, C04). -/
def locToIloc (ix : Index α) (key : LKey α) : Except Err IKey :=
  match ix.map with
  | none =>
    match key with
    | .mask bs => if bs.length = ix.len then .ok (.arr (maskPositions bs)) else .error .lookup
    | .label a => match asInt a with
      | .error e => .error e
      | .ok i => match normPos i ix.len with
        | .error e => .error e
        | .ok _ => .ok (.int i)
    | .list as => match asInts as with
      | .error e => .error e
      | .ok is => match is.mapM (normPos · ix.len) with
        | .error e => .error e
        | .ok _ => .ok (.list is)
    | .slice a b st =>
      if a.isNone ∧ b.isNone ∧ st.isNone then .ok (.slice ⟨some 0, some (ix.len : Int), none⟩)
      else match asOptInt a, asOptInt b with
        | .ok a', .ok b' =>
          if st = some 0 then .error .value else       -- `_positions[key]` ValueError
          match b' with
          | none => .error .value                       -- `key.stop >= len(self)` TypeError
          | some bi => if bi ≥ (ix.len : Int) then .error .lookup
                       else .ok (.slice (sliceToInclusive ⟨a', b', st⟩ 0))
        | _, _ => .error .lookup                        -- LocInvalid
  | some _ => ix.locToIlocP key none false

/-- Well-formed index: labels distinct, and the map (if any) is the one automap builds from the
    labels; a map-less index holds `0 … n-1`. -/
def WF (ix : Index α) : Prop :=
  ix.labels.Nodup ∧
  match ix.map with
  | none => ix.labels = autoLabels ix.labels.length
  | some m => AMap.build ix.labels = some m

end Index

/-! ### IndexGO -/

/-- `_labels`/`_positions` are caches of `_labels_mutable`/`_positions_mutable_count`, stale while
    `_recache`. -/
structure IndexGO (α : Type) where
  labels : List α
  positions : Nat
  map : Option (AMap α)
  recache : Bool
  mutLabels : List α
  count : Nat
deriving Repr

namespace IndexGO
variable {α : Type} [DecidableEq α] [IntLabel α]
open IntLabel

/-- `IndexGO(index)` / `IndexGO(labels)`: same map, mutable storage filled from the labels. -/
def ofIndex (ix : Index α) : IndexGO α :=
  ⟨ix.labels, ix.labels.length, ix.map, false, ix.labels, ix.labels.length⟩

def mk? (ls : List α) : Except Err (IndexGO α) := (Index.mk? ls).map ofIndex
def mkAuto (n : Nat) : IndexGO α := ofIndex (Index.mkAuto n)

/-- `_update_array_cache` -/
def updateArrayCache (s : IndexGO α) : IndexGO α :=
  { s with labels := s.mutLabels, positions := s.count, recache := false }

/-- `if self._recache: self._update_array_cache()` -/
def cached (s : IndexGO α) : IndexGO α := if s.recache then s.updateArrayCache else s

/-- the Index seen by every reader (readers recache first) -/
def toIndex (s : IndexGO α) : Index α := ⟨s.cached.labels, s.map⟩

/-- `__contains__` (the loc_is_iloc branch calls `len(self)`, which recaches). -/
def contains (s : IndexGO α) (a : α) : Bool := s.toIndex.contains a

/-- `append(value)`: new state and the exception raised, if any.  The state is returned in both
    cases because the Python object is mutated in place. -/
def append (s : IndexGO α) (a : α) : IndexGO α × Option Err :=
  let s1 := match s.map, toInt? a with
    | none, some _ => s.cached      -- `len(self)` inside `__contains__`
    | _, _ => s
  if s1.contains a then (s1, some .lookup) else          -- KeyError: duplicate key append attempted
  match s1.map with
  | some m =>
    match m.add a with
    | none => (s1, some .value)                           -- automap ValueError (unreachable: see `contains`)
    | some m' =>
      ({ s1 with map := some m', mutLabels := s1.mutLabels ++ [a], count := s1.count + 1, recache := true }, none)
  | none =>
    if toInt? a = some (s1.count : Int) then              -- stays loc_is_iloc
      ({ s1 with mutLabels := s1.mutLabels ++ [a], count := s1.count + 1, recache := true }, none)
    else
      -- `map_initialized = AutoMap(self._labels_mutable); map_initialized.add(value)` before any state
      -- change (repaired in commit 1072ec5: the labels used to grow first)
      match AMap.build s1.mutLabels with
      | none => (s1, some .value)
      | some m0 => match m0.add a with
        | none => (s1, some .value)                       -- NonUniqueError, nothing changed
        | some m => ({ s1 with map := some m, mutLabels := s1.mutLabels ++ [a], count := s1.count + 1, recache := true }, none)

/-- the loop `for value in values: self.append(value)` -/
def extendLoop (s : IndexGO α) : List α → IndexGO α × Option Err
  | [] => (s, none)
  | a :: as => match s.append a with
    | (s', some e) => (s', some e)
    | (s', none) => extendLoop s' as

/-- the check `self.__contains__(value) or value in observed` over all values (true = KeyError) -/
def extendDup (s : IndexGO α) : List α → List α → Bool
  | [], _ => false
  | a :: as, observed => s.contains a || observed.contains a || extendDup s as (observed ++ [a])

/-- `extend(values)`: all values are checked before any is appended; a rejected call leaves the
    index unchanged. -/
def extend (s : IndexGO α) (as : List α) : IndexGO α × Option Err :=
  if extendDup s as [] then (s, some .lookup) else extendLoop s as

inductive Op (α : Type)
  | append (a : α)
  | extend (as : List α)
deriving Repr

/-- One call of a history (exceptions are caught by the caller; the object lives on). -/
def step (s : IndexGO α) : Op α → IndexGO α
  | .append a => (s.append a).1
  | .extend as => (s.extend as).1

def run (s : IndexGO α) (ops : List (Op α)) : IndexGO α := ops.foldl step s

/-- Specification of which labels a history adds: an `append` is accepted iff the label is not held
    yet; an `extend` is accepted as a whole iff no value is held or repeated, otherwise adds nothing. -/
def acceptExtend (cur : List α) (as : List α) : List α :=
  if as.Nodup ∧ ∀ a ∈ as, a ∉ cur then as else []

def accepted (cur : List α) : List (Op α) → List α
  | [] => []
  | .append a :: ops => if a ∈ cur then accepted cur ops else a :: accepted (cur ++ [a]) ops
  | .extend as :: ops =>
    let acc := acceptExtend cur as
    acc ++ accepted (cur ++ acc) ops

/-- Invariant of a grow-only index. -/
def WF (s : IndexGO α) : Prop :=
  s.mutLabels.Nodup ∧ s.count = s.mutLabels.length ∧
  (match s.map with
   | none => s.mutLabels = autoLabels s.count
   | some m => AMap.build s.mutLabels = some m) ∧
  (s.recache = false → s.labels = s.mutLabels ∧ s.positions = s.count)

end IndexGO

end SF
