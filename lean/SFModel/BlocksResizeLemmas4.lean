/- Helper lemmas for SFModel.BlocksResize, part 4: the four branches of `resize_blocks` refine the
   layout-free specification; `from_blocks` on the result. -/
import SFModel.BlocksResizeLemmas3

namespace SF
open SetOps (IC gather scatter dstToSrc mapMExcept)

variable {α : Type}

section env
variable (resolve : DT → DT → DT) (conv : DT → DT → α → α)

/-- what the block model has to establish, for one pair of optional correspondences -/
def Refines (tb : TB α) (iic cic : Option IC) (fill : α) (fillDT : DT) : Prop :=
  ∃ bs, tb.resizeBlocks resolve conv iic cic fill fillDT = .ok bs ∧
    resizeSpec resolve conv tb.rows iic cic fill fillDT (colsDT tb.blocks) = .ok (colsDT bs)

/-- (1) no correspondence at all -/
theorem refines_none_none (tb : TB α) (fill : α) (fillDT : DT) :
    Refines resolve conv tb none none fill fillDT := by
  refine ⟨tb.blocks, rfl, ?_⟩
  unfold resizeSpec
  have := SetOps.mapMExcept_ok (f := resizeColDT resolve conv none fill fillDT) (f' := id)
    (l := colsDT tb.blocks) (fun _ _ => rfl)
  simpa using this

/-- (2) rows only -/
theorem refines_rows (tb : TB α) (hwf : tb.WF) (ic : IC) (hi : ic.WF tb.rows) (fill : α) (fillDT : DT) :
    Refines resolve conv tb (some ic) none fill fillDT := by
  refine ⟨tb.blocks.map (blockT resolve conv ic fill fillDT), ?_, ?_⟩
  · unfold TB.resizeBlocks
    exact SetOps.mapMExcept_ok
      (fun b hb => (Block.resizeRows_ok resolve conv hi fill fillDT b (hwf.2 b hb)).1)
  · rw [colsDT_map_blocks _ _ (colT resolve conv (some ic) fill fillDT)
      (fun b hb => (Block.resizeRows_ok resolve conv hi fill fillDT b (hwf.2 b hb)).2)]
    unfold resizeSpec
    exact SetOps.mapMExcept_ok
      (fun x hx => (resizeColDT_eq_colT resolve conv (iic := some ic) hi fill fillDT x (colsDT_rows tb hwf x hx)).1)

/-- the fill block of the "nothing in common" exits -/
theorem colsDT_fullForFill2 (n w : Nat) (fill : α) (fillDT : DT) :
    colsDT [fullForFill2 resolve conv none n w fill fillDT] = List.replicate w (fillColDT conv n fill fillDT) := by
  simp [colsDT_cons, fullForFill2, fullForFillDT, fullForFillCell, Block.colsDT, Block.colsOf, Block.dt,
    fillColDT]

theorem fullForFill1_eq (n : Nat) (fill : α) (fillDT : DT) :
    fullForFill1 resolve conv none n fill fillDT = toD1 (fillColDT conv n fill fillDT) := rfl

/-- (3) columns only -/
theorem refines_cols (tb : TB α) (cc : IC) (hc : cc.WF tb.ncols) (fill : α) (fillDT : DT) :
    Refines resolve conv tb none (some cc) fill fillDT := by
  have hn := colsDT_ncols tb
  have hG : ∀ x ∈ colsDT tb.blocks, resizeColDT resolve conv none fill fillDT x = .ok (id x) := fun _ _ => rfl
  have hspec := colLoopG_ok hc (colsDT tb.blocks) hn _ id hG (fillColDT conv tb.rows fill fillDT)
  unfold Refines resizeSpec
  simp only [SetOps.newLen]
  rw [hspec]
  unfold TB.resizeBlocks
  simp only []
  by_cases hcom : cc.hasCommon = true
  · rw [if_neg (by simp [hcom])]
    by_cases hu : (decide (tb.blocks.length ≤ 1) && cc.isSubset) = true
    · rw [if_pos hu]
      simp only [Bool.and_eq_true, decide_eq_true_eq] at hu
      obtain ⟨b, hb⟩ := unified_single tb hu.1 (ncols_pos_of_common hc hcom)
      have hnc : tb.ncols = b.width := by simp [TB.ncols, hb]
      rw [hb]
      cases b with
      | d1 t c =>
        have hc1 : cc.WF 1 := by simpa [hnc, Block.width] using hc
        refine ⟨[.d1 t c], rfl, ?_⟩
        have : colsDT [Block.d1 t c] = [(t, c)] := by simp [colsDT_cons, Block.colsDT, Block.colsOf, Block.dt]
        rw [this, unified_d1_slots hc1 hu.2]
        rfl
      | d2 t cs =>
        have hcw : cc.WF cs.length := by simpa [hnc, Block.width] using hc
        have hcd : colsDT [Block.d2 t cs] = cs.map (fun c => (t, c)) := by
          simp [colsDT_cons, Block.colsDT, Block.colsOf, Block.dt]
        obtain ⟨g, hg, _, hL⟩ := unified_d2_slots t cs hcw hu.2 id (fillColDT conv tb.rows fill fillDT)
        refine ⟨[.d2 t g], by simp [hg, Except.map], ?_⟩
        rw [hcd, hL]
        simp [colsDT_cons, Block.colsDT, Block.colsOf, Block.dt]
    · rw [if_neg hu]
      refine ⟨((List.range cc.size).map (slot cc (colsDT tb.blocks) id (fillColDT conv tb.rows fill fillDT))).map toD1,
        ?_, by rw [colsDT_map_toD1]⟩
      rw [List.map_map]
      apply SetOps.mapMExcept_ok
      intro idx _
      simp only [Function.comp, slot]
      cases hd : dstToSrc cc idx with
      | none => rfl
      | some j =>
        have hj : j < (colsDT tb.blocks).length := hn ▸ hc.2.1 j (dstToSrc_mem hd)
        simp only [TB.columnAt_eq tb j _ (List.getElem?_eq_getElem hj), List.getElem?_eq_getElem hj]
        rfl
  · have hcf : cc.hasCommon = false := by simpa using hcom
    rw [if_pos (by simp [hcf])]
    refine ⟨_, rfl, ?_⟩
    rw [colsDT_fullForFill2, slots_nocommon hc hcf]

/-- (4) both axes -/
theorem refines_both (tb : TB α) (hwf : tb.WF) (ic cc : IC) (hi : ic.WF tb.rows) (hc : cc.WF tb.ncols)
    (fill : α) (fillDT : DT) :
    Refines resolve conv tb (some ic) (some cc) fill fillDT := by
  have hn := colsDT_ncols tb
  have hr := colsDT_rows tb hwf
  have hG : ∀ x ∈ colsDT tb.blocks, resizeColDT resolve conv (some ic) fill fillDT x =
      .ok (colT resolve conv (some ic) fill fillDT x) :=
    fun x hx => (resizeColDT_eq_colT resolve conv (iic := some ic) hi fill fillDT x (hr x hx)).1
  have hspec := colLoopG_ok hc (colsDT tb.blocks) hn _ _ hG (fillColDT conv ic.size fill fillDT)
  unfold Refines resizeSpec
  simp only [SetOps.newLen]
  rw [hspec]
  unfold TB.resizeBlocks
  simp only []
  by_cases hnone : (!cc.hasCommon && !ic.hasCommon) = true
  · rw [if_pos hnone]
    simp only [Bool.and_eq_true, Bool.not_eq_true'] at hnone
    refine ⟨_, rfl, ?_⟩
    rw [colsDT_fullForFill2, slots_nocommon hc hnone.1]
  · rw [if_neg hnone]
    by_cases hu : (decide (tb.blocks.length ≤ 1) && ic.isSubset && cc.isSubset) = true
    · rw [if_pos hu]
      simp only [Bool.and_eq_true, decide_eq_true_eq] at hu
      obtain ⟨⟨hu1, hsi⟩, hsc⟩ := hu
      have hcom : cc.hasCommon = true := (hc.2.2.2.2.2.2 hsc).1
      obtain ⟨b, hb⟩ := unified_single tb hu1 (ncols_pos_of_common hc hcom)
      have hnc : tb.ncols = b.width := by simp [TB.ncols, hb]
      have hbr : b.RowsOk tb.rows := hwf.2 b (by simp [hb])
      rw [hb]
      cases b with
      | d1 t c =>
        have hc1 : cc.WF 1 := by simpa [hnc, Block.width] using hc
        have hcl : c.length = tb.rows := hbr c (by simp [Block.colsOf])
        obtain ⟨hg, ht⟩ := colT_subset resolve conv hi hsi fill fillDT t c hcl
        refine ⟨[.d1 t (colT resolve conv (some ic) fill fillDT (t, c)).2], by simp [hg, Except.map], ?_⟩
        have : colsDT [Block.d1 t c] = [(t, c)] := by simp [colsDT_cons, Block.colsDT, Block.colsOf, Block.dt]
        rw [this, unified_d1_slots hc1 hsc]
        simp only [colsDT_cons, colsDT_nil, List.append_nil, Block.colsDT, Block.colsOf, Block.dt,
          List.map_cons, List.map_nil]
        have hpair : colT resolve conv (some ic) fill fillDT (t, c) =
            (t, (colT resolve conv (some ic) fill fillDT (t, c)).2) := Prod.ext ht rfl
        exact congrArg (fun x => Except.ok [x]) hpair
      | d2 t cs =>
        have hcw : cc.WF cs.length := by simpa [hnc, Block.width] using hc
        have hcd : colsDT [Block.d2 t cs] = cs.map (fun c => (t, c)) := by
          simp [colsDT_cons, Block.colsDT, Block.colsOf, Block.dt]
        obtain ⟨g, hg, hgm, hL⟩ := unified_d2_slots t cs hcw hsc
          (colT resolve conv (some ic) fill fillDT) (fillColDT conv ic.size fill fillDT)
        have hgl : ∀ c ∈ g, c.length = tb.rows := fun c hcg => hbr c (by simpa [Block.colsOf] using hgm c hcg)
        have hall : ∀ c ∈ g, gatherE c ic.ilocSrc =
            .ok ((fun c => (colT resolve conv (some ic) fill fillDT (t, c)).2) c) :=
          fun c hcg => (colT_subset resolve conv hi hsi fill fillDT t c (hgl c hcg)).1
        refine ⟨[.d2 t (g.map fun c => (colT resolve conv (some ic) fill fillDT (t, c)).2)],
          by simp [hg, SetOps.mapMExcept_ok hall, Except.map], ?_⟩
        rw [hcd, hL]
        simp only [colsDT_cons, colsDT_nil, List.append_nil, Block.colsDT, Block.colsOf, Block.dt, List.map_map]
        refine congrArg Except.ok (List.map_congr_left ?_)
        intro c hcg
        exact Prod.ext (colT_subset resolve conv hi hsi fill fillDT t c (hgl c hcg)).2 rfl
    · rw [if_neg hu]
      refine ⟨((List.range cc.size).map (slot cc (colsDT tb.blocks) (colT resolve conv (some ic) fill fillDT)
          (fillColDT conv ic.size fill fillDT))).map toD1, ?_, by rw [colsDT_map_toD1]⟩
      rw [List.map_map]
      apply SetOps.mapMExcept_ok
      intro idx _
      have hd2s : (if cc.hasCommon = true then dstToSrc cc idx else none) = dstToSrc cc idx := by
        by_cases hcom : cc.hasCommon = true
        · rw [if_pos hcom]
        · rw [if_neg hcom, dstToSrc_nocommon hc (by simpa using hcom)]
      simp only [Function.comp, slot, hd2s]
      cases hd : dstToSrc cc idx with
      | none => rfl
      | some j =>
        have hj : j < (colsDT tb.blocks).length := hn ▸ hc.2.1 j (dstToSrc_mem hd)
        simp only [TB.columnAt_eq tb j _ (List.getElem?_eq_getElem hj), List.getElem?_eq_getElem hj,
          rowsCol_eq, hG _ (List.getElem_mem hj)]
        rfl

/-- EVERY BRANCH: the blocks `resize_blocks` yields hold, as typed columns, the layout-free
    specification of the typed columns of the source. -/
theorem TB.resizeBlocks_spec (tb : TB α) (hwf : tb.WF) (iic cic : Option IC)
    (hi : SetOps.OptWF iic tb.rows) (hc : SetOps.OptWF cic tb.ncols) (fill : α) (fillDT : DT) :
    Refines resolve conv tb iic cic fill fillDT := by
  cases cic with
  | none =>
    cases iic with
    | none => exact refines_none_none resolve conv tb fill fillDT
    | some ic => exact refines_rows resolve conv tb hwf ic hi fill fillDT
  | some cc =>
    cases iic with
    | none => exact refines_cols resolve conv tb cc hc fill fillDT
    | some ic => exact refines_both resolve conv tb hwf ic cc hi hc fill fillDT

end env

end SF
