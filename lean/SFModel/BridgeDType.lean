/-
  Bridge lemmas for C07: the definitions regenerated from the current static_frame/core/util.py by
  tools/py2lean_dtype.py (`SF.Gen.resolve_dtype`, `SF.Gen.dtype_kind_to_na`,
  `SF.Gen.dtype_to_fill_value`) equal the hand-written mirrored definitions the property theorems
  are about.  Re-checked by the kernel on every run against what the source says *now*.
-/
import SFModel.DType
import SFModel.Gen.DType

namespace SF.BridgeDType
open SF

theorem resolve_dtype_bridge (a b : DType) : Gen.resolve_dtype a b = resolveE a b := by
  cases a <;> cases b <;>
    simp [Gen.resolve_dtype, resolveE, DType.kind, Kind.isStr]
  case td.td u v =>
    split
    · rfl
    · cases resultType (DType.td u) (DType.td v) <;> rfl

theorem dtype_kind_to_na_bridge (k : Kind) : Gen.dtype_kind_to_na k = kindToNa k := by
  cases k <;> rfl

theorem dtype_to_fill_value_bridge (d : DType) : Gen.dtype_to_fill_value d = dtypeToFillValue d := by
  cases d <;> rfl

end SF.BridgeDType
