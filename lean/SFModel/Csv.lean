/-
  SFModel.Csv — model of the delimited-text path of `Frame.to_delimited` / `Frame.from_delimited`.

  Mirrors
  * CPython `_csv.c` writer (`join_append_data`, `csv_writerow`) with the dialect `to_delimited` builds:
    QUOTE_MINIMAL, doublequote, no escapechar, lineterminator "\n", configurable delimiter / quotechar.
    A field is quoted iff it contains the delimiter, the quotechar or a character of the line terminator
    ("\n": a bare "\r" is NOT quoted by CPython 3.12); embedded quotechars are doubled; the record of a
    single empty field is written `""`.
  * CPython `_csv.c` reader (`parse_process_char`, `Reader_iternext`) for one physical line, default
    dialect flags (doublequote, no escapechar, skipinitialspace off, strict off): states START_RECORD,
    START_FIELD, IN_FIELD, IN_QUOTED_FIELD, QUOTE_IN_QUOTED_FIELD, EAT_CRNL.
  * `Frame.from_delimited` (as repaired in 82942dd): for EVERY delimiter, tab included, each `csv.reader`
    row is re-joined with tab; then `np.genfromtxt(delimiter='\t')` splits each line with
    `LineSplitter._delimited_splitter`: `line.strip(" \r\n")`, empty → no fields, else `line.split('\t')`.
    (On the pinned tree the tab delimiter bypassed `csv.reader`: kept as `importTsvOld`.)
  * `StoreFilter.from_type_filter_element` / `to_type_filter_element` (store_filter.py): the encode /
    decode table for NaN, NaT, None, +inf, -inf.
  * `Frame._to_str_records` / the header-and-index split of `from_delimited` on cell *texts*.

  Strings are `List Char`.
-/
import SFModel.Basic

namespace SF.Csv

abbrev Field := List Char

/-! ### writer -/

/-- QUOTE_MINIMAL test of `join_append_data`: some character is the delimiter, the quotechar or in the
    line terminator "\n". -/
def needsQuote (d q : Char) (f : Field) : Bool := f.any fun c => c == d || c == q || c == '\n'

/-- doublequote: every embedded quotechar is written twice. -/
def escapeField (q : Char) : Field → List Char
  | [] => []
  | c :: cs => if c == q then q :: q :: escapeField q cs else c :: escapeField q cs

/-- `join_append_data` for one field (without the separator). -/
def writeField (d q : Char) (f : Field) : List Char :=
  if needsQuote d q f then q :: (escapeField q f ++ [q]) else f

/-- The loop of `csv_writerow`: `join_append` per field; a separator before every field but the first
    (`num_fields > 0`).  State: record buffer and `num_fields`. -/
def joinFields (d q : Char) (fs : List Field) : List Char × Nat :=
  fs.foldl (fun acc f => (acc.1 ++ (if acc.2 > 0 then [d] else []) ++ writeField d q f, acc.2 + 1)) ([], 0)

/-- `csv_writerow`: join, then `if num_fields > 0 and rec_len == 0:` re-join the lone empty field quoted
    (`""`), then the line terminator. -/
def csvWriteRow (d q : Char) (fs : List Field) : List Char :=
  let r := joinFields d q fs
  (if r.2 > 0 && r.1.isEmpty then [q, q] else r.1) ++ ['\n']

/-! ### reader -/

inductive St
  | startRecord | startField | inField | inQuoted | quoteInQuoted | eatCrnl
deriving DecidableEq, Repr

/-- Parser state: automaton state, the field buffer, the fields saved so far. -/
structure PS where
  st : St
  field : Field
  fields : List Field
deriving DecidableEq, Repr

def isNl (c : Char) : Bool := c == '\n' || c == '\r'

/-- `parse_save_field`. -/
def saveField (s : PS) : PS := { s with field := [], fields := s.fields ++ [s.field] }

def addChar (s : PS) (c : Char) : PS := { s with field := s.field ++ [c] }

/-- `case START_FIELD` (also reached by fall-through from START_RECORD); `none` is the end-of-line marker. -/
def stepStartField (d q : Char) (s : PS) : Option Char → Except Err PS
  | none => .ok { saveField s with st := .startRecord }
  | some c =>
    if isNl c then .ok { saveField s with st := .eatCrnl }
    else if c == q then .ok { s with st := .inQuoted }
    else if c == d then .ok { saveField s with st := .startField }
    else .ok { addChar s c with st := .inField }

/-- `parse_process_char`. -/
def step (d q : Char) (s : PS) (c : Option Char) : Except Err PS :=
  match s.st with
  | .startRecord =>
    match c with
    | none => .ok s                                            -- empty line: empty record
    | some ch => if isNl ch then .ok { s with st := .eatCrnl }
                 else stepStartField d q { s with st := .startField } c   -- normal character: fall through
  | .startField => stepStartField d q s c
  | .inField =>
    match c with
    | none => .ok { saveField s with st := .startRecord }
    | some ch =>
      if isNl ch then .ok { saveField s with st := .eatCrnl }
      else if ch == d then .ok { saveField s with st := .startField }
      else .ok (addChar s ch)
  | .inQuoted =>
    match c with
    | none => .ok s                                            -- the field continues on the next line
    | some ch => if ch == q then .ok { s with st := .quoteInQuoted } else .ok (addChar s ch)
  | .quoteInQuoted =>
    match c with
    | none => .ok { saveField s with st := .startRecord }
    | some ch =>
      if ch == q then .ok { addChar s ch with st := .inQuoted }  -- doubled quote
      else if ch == d then .ok { saveField s with st := .startField }
      else if isNl ch then .ok { saveField s with st := .eatCrnl }
      else .ok { addChar s ch with st := .inField }             -- not strict: keep the character
  | .eatCrnl =>
    match c with
    | none => .ok { s with st := .startRecord }
    | some ch => if isNl ch then .ok s else .error .value       -- "new-line character seen in unquoted field"

/-- Feed the characters of a line. -/
def feed (d q : Char) (s : PS) : List Char → Except Err PS
  | [] => .ok s
  | c :: cs =>
    match step d q s (some c) with
    | .error e => .error e
    | .ok s' => feed d q s' cs

def initPS : PS := ⟨.startRecord, [], []⟩

/-- `next(csv.reader([line]))`: feed the line, then the end-of-line marker; when the record is not
    complete (open quoted field) there is no further line: `Reader_iternext` saves the pending field
    (non-strict) and returns what it has. -/
def csvParseLine (d q : Char) (line : List Char) : Except Err (List Field) :=
  match feed d q initPS line with
  | .error e => .error e
  | .ok s =>
    match step d q s none with
    | .error e => .error e
    | .ok s' =>
      if s'.st = .startRecord then .ok s'.fields
      else if s'.field ≠ [] ∨ s'.st = .inQuoted then .ok (saveField s').fields
      else .ok s'.fields

/-! ### `from_delimited`: tab re-join and the splitter of `np.genfromtxt` -/

/-- `'\t'.join(row)` -/
def tabJoin : List Field → List Char
  | [] => []
  | [f] => f
  | f :: g :: rest => f ++ '\t' :: tabJoin (g :: rest)

/-- `str.split(t)`: always at least one field. -/
def splitOnChar (t : Char) : List Char → List Field
  | [] => [[]]
  | c :: cs =>
    if c == t then [] :: splitOnChar t cs
    else
      match splitOnChar t cs with
      | f :: r => (c :: f) :: r
      | [] => [[c]]

def isStrip (c : Char) : Bool := c == ' ' || c == '\r' || c == '\n'

/-- `line.strip(" \r\n")` -/
def strip (l : List Char) : List Char := ((l.dropWhile isStrip).reverse.dropWhile isStrip).reverse

/-- `LineSplitter._delimited_splitter` with delimiter tab, no comments, no autostrip. -/
def genSplit (line : List Char) : List Field :=
  let l := strip line
  if l.isEmpty then [] else splitOnChar '\t' l

/-- One line through `from_delimited` (any delimiter; `from_csv`: `,`, `from_tsv`: tab):
    `csv.reader` row → tab join → genfromtxt split.  For the tab delimiter this means: a cell holding a tab
    is written quoted by `csv.writer`, parsed back whole by `csv.reader`, and then re-joined and split
    again at its own tab. -/
def importLine (d q : Char) (line : List Char) : Except Err (List Field) :=
  match csvParseLine d q line with
  | .error e => .error e
  | .ok row => .ok (genSplit (tabJoin row))

/-- `from_tsv` = `from_delimited(delimiter='\t')`. -/
def importLineTsv (q : Char) (line : List Char) : Except Err (List Field) := importLine '\t' q line

/-- HISTORICAL: pinned-tree behaviour, repaired in 82942dd.  `from_tsv` handed the raw line to genfromtxt
    without `csv.reader`, so the quoting written by `to_tsv` was never undone. -/
def importTsvOld (line : List Char) : List Field := genSplit line

/-! ### record layout (`_to_str_records`) and its inverse (header / index split of `from_delimited`) -/

/-- The texts `_to_str_records` lays out: `columns` = one row of labels per columns depth level (each
    of the frame's width), `index` = per data row its `indexDepth` label texts, `cells` = per data row its
    cell texts, `indexNames` = the `indexDepth` index names (written in the top-left corner of the first
    header row when `include_index_name`). -/
structure Table where
  indexNames : List Field
  columns : List (List Field)
  index : List (List Field)
  cells : List (List Field)
deriving DecidableEq, Repr

/-- `_to_str_records(include_index, include_index_name=True, include_columns, include_columns_name=False)`. -/
def toStrRecords (includeIndex includeColumns : Bool) (t : Table) : List (List Field) :=
  let header :=
    if includeColumns then
      (List.range t.columns.length).zip t.columns |>.map fun (rowIdx, colsRow) =>
        (if includeIndex then t.indexNames.map (fun nm => if rowIdx = 0 then nm else []) else []) ++ colsRow
    else []
  let body := t.index.zip t.cells |>.map fun (ix, row) => (if includeIndex then ix else []) ++ row
  header ++ body

/-- What `from_delimited(index_depth, columns_depth)` splits the rows into: the first `columnsDepth` rows
    are header rows (apex = first `indexDepth` cells, labels = the rest); of every other row the first
    `indexDepth` cells are index labels. -/
structure Split where
  apex : List (List Field)
  columns : List (List Field)
  index : List (List Field)
  cells : List (List Field)
deriving DecidableEq, Repr

def splitRecords (indexDepth columnsDepth : Nat) (rows : List (List Field)) : Split :=
  let hdr := rows.take columnsDepth
  let body := rows.drop columnsDepth
  { apex := hdr.map (·.take indexDepth), columns := hdr.map (·.drop indexDepth),
    index := body.map (·.take indexDepth), cells := body.map (·.drop indexDepth) }

/-! ### StoreFilter: the encode / decode table -/

/-- A cell value as far as `StoreFilter` distinguishes values: the five special values, a string, or
    any other value (`plain`: ints, finite floats, bools, ... pass through both directions untouched). -/
inductive Cell (α : Type)
  | none | nan | nat | posInf | negInf
  | text (s : Field)
  | plain (a : α)
deriving DecidableEq, Repr

/-- The `from_*` strings (`none` = Python `None`: no replacement) and the `to_*` sets of a `StoreFilter`. -/
structure StoreFilter where
  fromNan : Option Field
  fromNat : Option Field
  fromNone : Option Field
  fromPosInf : Option Field
  fromNegInf : Option Field
  toNan : List Field
  toNat : List Field
  toNone : List Field
  toPosInf : List Field
  toNegInf : List Field

/-- `StoreFilter()` : the defaults of `__init__` (`STORE_FILTER_DEFAULT`). -/
def storeFilterDefault : StoreFilter :=
  { fromNan := some [], fromNat := some [], fromNone := some "None".toList,
    fromPosInf := some "inf".toList, fromNegInf := some "-inf".toList,
    toNan := [[], "nan".toList, "NaN".toList, "NAN".toList, "NULL".toList, "#N/A".toList],
    toNat := [], toNone := ["None".toList], toPosInf := ["inf".toList], toNegInf := ["-inf".toList] }

/-- `from_type_filter_element` (no `value_format_*` set): `None` first, then the float tests in the order
    isnan, isposinf, isneginf (a test with replacement `None` is skipped), then NaT — which is replaced by
    `from_nat` unconditionally, even when that is `None`. -/
def sfEncode {α} (f : StoreFilter) : Cell α → Cell α
  | .none => match f.fromNone with | some s => .text s | none => .none
  | .nan => match f.fromNan with | some s => .text s | none => .nan
  | .posInf => match f.fromPosInf with | some s => .text s | none => .posInf
  | .negInf => match f.fromNegInf with | some s => .text s | none => .negInf
  | .nat => match f.fromNat with | some s => .text s | none => .none
  | v => v

/-- `to_type_filter_element`: a string is looked up in the sets in the order of `_TYPE_TO_TO_SET`
    (nan, nat, none, posinf, neginf), first hit wins; anything that is not a string is returned as is.
    (`to_type_filter_array` applies the same table, in the same order, to str / object arrays.) -/
def sfDecode {α} (f : StoreFilter) : Cell α → Cell α
  | .text s =>
    if s ∈ f.toNan then .nan
    else if s ∈ f.toNat then .nat
    else if s ∈ f.toNone then .none
    else if s ∈ f.toPosInf then .posInf
    else if s ∈ f.toNegInf then .negInf
    else .text s
  | v => v

end SF.Csv
