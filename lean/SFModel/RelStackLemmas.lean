/-
  Lemmas for the full `pivot_unstack ∘ pivot_stack` round trip (C20).

  Model definitions are in `Rel.lean` (untouched).  Here: closed forms of `pivotStack` /
  `pivotUnstack` on frames whose contracted axis has unique (group, target) splits and holds every
  (group, target) combination, and their composition.
-/
import SFModel.RelLemmas
set_option linter.unusedSectionVars false
set_option linter.unusedSimpArgs false

namespace SF.Rel

/-! ### generic list facts -/

section Generic

theorem mapM_ok_map {ε β δ : Type} (F : β → Except ε δ) (g : β → δ) :
    ∀ (l : List β), (∀ x ∈ l, F x = .ok (g x)) → l.mapM F = .ok (l.map g)
  | [], _ => rfl
  | a :: as, h => by
    have ha : F a = .ok (g a) := h a (by simp)
    have ih := mapM_ok_map F g as (fun x hx => h x (by simp [hx]))
    simp only [List.mapM_cons, bind, Except.bind, ha, ih, pure, Except.pure, List.map_cons]

/-- reading a `map` at the position of a key -/
theorem getElem?_map_idxOf {κ β δ : Type} [BEq β] [LawfulBEq β] (key : κ → β) (v : κ → δ) :
    ∀ (ks : List κ), (ks.map key).Nodup → ∀ k ∈ ks, (ks.map v)[(ks.map key).idxOf (key k)]? = some (v k)
  | [], _, k, hk => by cases hk
  | a :: as, hn, k, hk => by
    simp only [List.map_cons, List.nodup_cons] at hn
    by_cases e : key a = key k
    · have hka : k = a := by
        rcases List.mem_cons.mp hk with h | h
        · exact h
        · exact (hn.1 (e ▸ List.mem_map_of_mem h)).elim
      subst hka
      simp [List.idxOf_cons]
    · have hk' : k ∈ as := by
        rcases List.mem_cons.mp hk with h | h
        · exact (e (h ▸ rfl)).elim
        · exact h
      have ih := getElem?_map_idxOf key v as hn.2 k hk'
      have hb : (key a == key k) = false := by simp [e]
      simp only [List.map_cons, List.idxOf_cons, hb, cond_false, List.getElem?_cons_succ]
      exact ih

/-- the transposition performed by `pivot_unstack` on its column items -/
theorem transpose_map {κ β δ : Type} (l : List β) (ks : List κ) (h : κ → β → δ) :
    ((List.range l.length).map fun i => (ks.map fun k => l.map (h k)).filterMap fun col => col[i]?) =
      l.map fun x => ks.map fun k => h k x := by
  apply List.ext_getElem
  · simp
  · intro i h1 h2
    simp only [List.length_map, List.length_range] at h1
    simp only [List.getElem_map, List.getElem_range]
    rw [List.filterMap_map]
    have : (fun col : List δ => col[i]?) ∘ (fun k => l.map (h k)) = fun k => some (h k l[i]) := by
      funext k
      simp [h1]
    rw [this]
    induction ks with
    | nil => rfl
    | cons a as ih => simp [List.filterMap_cons, ih]

theorem zipIdx_map_getElem? {β δ ρ : Type} (l1 : List β) (l2 : List δ) (hl : l1.length = l2.length)
    (F : Option δ → ρ) : (l1.zipIdx.map fun p => F l2[p.2]?) = l2.map fun x => F (some x) := by
  apply List.ext_getElem?
  intro i
  simp only [List.getElem?_map, List.getElem?_zipIdx, Option.map_map]
  by_cases h : i < l2.length
  · have h1 : i < l1.length := hl ▸ h
    simp [List.getElem?_eq_getElem h, List.getElem?_eq_getElem h1]
  · have h1 : ¬ i < l1.length := hl ▸ h
    simp [List.getElem?_eq_none (Nat.le_of_not_lt h), List.getElem?_eq_none (Nat.le_of_not_lt h1)]

theorem zipIdx_flatMap_fst {β δ : Type} (l : List β) (A : β × Nat → List δ) (B : β → List δ)
    (h : ∀ p ∈ l.zipIdx, A p = B p.1) : l.zipIdx.flatMap A = l.flatMap B := by
  have : l.zipIdx.flatMap A = l.zipIdx.flatMap (fun p => B p.1) := by
    simp only [List.flatMap]
    rw [List.map_congr_left h]
  rw [this, ← List.flatMap_map Prod.fst B, List.zipIdx_map_fst]

theorem filterMap_eq_map_getD {β δ : Type} (F : β → Option δ) (d : δ) :
    ∀ (l : List β), (∀ x ∈ l, (F x).isSome) → l.filterMap F = l.map fun x => (F x).getD d
  | [], _ => rfl
  | a :: as, h => by
    obtain ⟨v, hv⟩ := Option.isSome_iff_exists.mp (h a (by simp))
    rw [List.filterMap_cons, List.map_cons, hv, filterMap_eq_map_getD F d as (fun x hx => h x (by simp [hx]))]
    rfl

theorem map_idxOf_self {β : Type} [BEq β] [LawfulBEq β] (l : List β) (hn : l.Nodup) :
    l.map (fun x => l.idxOf x) = List.range l.length := by
  apply List.ext_getElem
  · simp
  · intro i h1 h2
    rw [List.getElem_map, List.getElem_range, hn.idxOf_getElem]

theorem pick_getElem? {β : Type} (l : List β) : ∀ (js : List Nat) (p : Nat), (∀ j ∈ js, j < l.length) →
    (pick l js)[p]? = (js[p]?).bind (l[·]?)
  | [], p, _ => by simp [pick]
  | j :: js, p, h => by
    have hj : j < l.length := h j (by simp)
    have ih := fun q => pick_getElem? l js q (fun x hx => h x (by simp [hx]))
    unfold pick at ih ⊢
    rw [List.filterMap_cons, List.getElem?_eq_getElem hj]
    cases p with
    | zero => simp [List.getElem?_eq_getElem hj]
    | succ q => simp only [List.getElem?_cons_succ]; exact ih q

end Generic

/-! ### `eraseDups` and the product of groups and targets -/

section Dedup
variable {β δ : Type} [BEq β] [LawfulBEq β] [BEq δ] [LawfulBEq δ]

theorem nodup_eraseDups : ∀ (l : List β), l.eraseDups.Nodup
  | [] => by simp
  | a :: as => by
    rw [List.eraseDups_cons, List.nodup_cons]
    have : (as.filter fun b => !b == a).length < as.length + 1 :=
      Nat.lt_succ_of_le (List.length_filter_le _ _)
    refine ⟨?_, nodup_eraseDups _⟩
    simp [List.mem_eraseDups, List.mem_filter]
termination_by l => l.length

theorem eraseDups_append_of_subset : ∀ (l l' : List β), l.Nodup → (∀ x ∈ l', x ∈ l) → (l ++ l').eraseDups = l
  | [], l', _, hs => by
    cases l' with
    | nil => rfl
    | cons x xs => exact absurd (hs x (by simp)) (by simp)
  | a :: l, l', hn, hs => by
    rw [List.nodup_cons] at hn
    rw [List.cons_append, List.eraseDups_cons, List.filter_append]
    have h1 : l.filter (fun b => !b == a) = l := by
      rw [List.filter_eq_self]
      intro b hb
      have : b ≠ a := fun e => hn.1 (e ▸ hb)
      simp [this]
    rw [h1, eraseDups_append_of_subset l _ hn.2]
    intro x hx
    rw [List.mem_filter] at hx
    have hne : x ≠ a := by simpa using hx.2
    rcases List.mem_cons.mp (hs x hx.1) with h | h
    · exact (hne h).elim
    · exact h

theorem eraseDups_of_nodup (l : List β) (hn : l.Nodup) : l.eraseDups = l := by
  have := eraseDups_append_of_subset l [] hn (by intro x hx; cases hx)
  simpa using this

/-- all (group, target) combinations, group-major -/
def treeProduct (gs : List β) (ts : List δ) : List (β × δ) := gs.flatMap fun g => ts.map fun t => (g, t)

theorem mem_treeProduct {gs : List β} {ts : List δ} {p : β × δ} :
    p ∈ treeProduct gs ts ↔ p.1 ∈ gs ∧ p.2 ∈ ts := by
  obtain ⟨a, b⟩ := p
  simp only [treeProduct, List.mem_flatMap, List.mem_map, Prod.mk.injEq]
  constructor
  · rintro ⟨g, hg, t, ht, rfl, rfl⟩
    exact ⟨hg, ht⟩
  · rintro ⟨hg, ht⟩
    exact ⟨a, hg, b, ht, rfl, rfl⟩

theorem treeProduct_nodup {gs : List β} {ts : List δ} (hg : gs.Nodup) (ht : ts.Nodup) :
    (treeProduct gs ts).Nodup := by
  unfold treeProduct
  rw [List.Nodup, List.pairwise_flatMap]
  refine ⟨fun g _ => ?_, ?_⟩
  · rw [List.pairwise_map]
    exact ht.imp (fun h e => h (by simpa using e))
  · exact hg.imp (fun h x hx y hy e => by
      simp only [List.mem_map] at hx hy
      obtain ⟨_, _, rfl⟩ := hx
      obtain ⟨_, _, rfl⟩ := hy
      exact h (congrArg Prod.fst e))

theorem treeProduct_fst_eraseDups : ∀ (gs : List β) (ts : List δ), gs.Nodup → ts ≠ [] →
    ((treeProduct gs ts).map (·.1)).eraseDups = gs
  | [], _, _, _ => rfl
  | g :: gs, ts, hn, hts => by
    rw [List.nodup_cons] at hn
    obtain ⟨t, ts', rfl⟩ := List.exists_cons_of_ne_nil hts
    have ih := treeProduct_fst_eraseDups gs (t :: ts') hn.2 hts
    simp only [treeProduct, List.flatMap_cons, List.map_cons, List.map_append, List.cons_append,
      List.map_map] at ih ⊢
    rw [List.eraseDups_cons, List.filter_append]
    have h1 : (List.map ((fun x : β × δ => x.1) ∘ fun t => (g, t)) ts').filter (fun b => !b == g) = [] := by
      rw [List.filter_eq_nil_iff]
      intro a ha
      simp only [List.mem_map, Function.comp] at ha
      obtain ⟨_, _, rfl⟩ := ha
      simp
    have h2 : ∀ l : List β, (∀ x ∈ l, x ∈ gs) → l.filter (fun b => !b == g) = l := by
      intro l hl
      rw [List.filter_eq_self]
      intro b hb
      have : b ≠ g := fun e => hn.1 (e ▸ hl b hb)
      simp [this]
    rw [h1, List.nil_append, h2]
    · rw [ih]
    · intro x hx
      simp only [List.mem_map, List.mem_flatMap] at hx
      obtain ⟨p, ⟨g', hg', hp⟩, rfl⟩ := hx
      simp only [List.mem_cons, List.mem_map] at hp
      rcases hp with rfl | ⟨_, _, rfl⟩ <;> exact hg'

theorem treeProduct_snd_eraseDups (gs : List β) (ts : List δ) (hg : gs ≠ []) (ht : ts.Nodup) :
    ((treeProduct gs ts).map (·.2)).eraseDups = ts := by
  obtain ⟨g, gs', rfl⟩ := List.exists_cons_of_ne_nil hg
  simp only [treeProduct, List.flatMap_cons, List.map_append, List.map_map]
  have h1 : List.map ((fun x : β × δ => x.2) ∘ fun t => (g, t)) ts = ts := by
    have : ((fun x : β × δ => x.2) ∘ fun t => (g, t)) = id := rfl
    rw [this, List.map_id]
  rw [h1]
  apply eraseDups_append_of_subset _ _ ht
  intro x hx
  simp only [List.mem_map, List.mem_flatMap] at hx
  obtain ⟨p, ⟨g', _, hp⟩, rfl⟩ := hx
  obtain ⟨t, ht', rfl⟩ := hp
  exact ht'

end Dedup

/-! ### `pivot_index_map` on axes with unique (group, target) splits -/

section Stack
variable {α : Type} [DecidableEq α]

/-- the groups in the order observed (the keys of `group_to_target_map`) -/
def groupsUnique (mask : List Bool) (labels : List (List α)) : List (List α) :=
  (labels.map (maskSel mask false)).eraseDups

theorem pimLoop_keys (mask : List Bool) : ∀ (ls : List (List α)) (s : Nat) (m : List (List α × List (List α × Nat))),
    (pimLoop mask s ls m).map (·.1) =
      m.map (·.1) ++ ((ls.map (maskSel mask false)).filter fun g => !(m.map (·.1)).contains g).eraseDups
  | [], _, m => by simp [pimLoop]
  | x :: xs, s, m => by
    simp only [pimLoop]
    rw [pimLoop_keys mask xs, g2tInsert_keys]
    split
    · rename_i hin
      have hc : (!(m.map (·.1)).contains (maskSel mask false x)) = false := by simp [hin]
      simp only [List.map_cons, List.filter_cons, hc, Bool.false_eq_true, if_false]
    · rename_i hnin
      have hc : (!(m.map (·.1)).contains (maskSel mask false x)) = true := by simp [hnin]
      simp only [List.map_cons, List.filter_cons, hc, if_true, List.eraseDups_cons, List.filter_filter,
        List.append_assoc, List.singleton_append]
      congr 4
      funext g
      by_cases hg : g = maskSel mask false x
      · subst hg; simp
      · have hb : (g == maskSel mask false x) = false := by simp [hg]
        have hm : g ∈ List.map (fun x : List α × List (List α × Nat) => x.1) m ++ [maskSel mask false x] ↔
            g ∈ List.map (fun x : List α × List (List α × Nat) => x.1) m := by
          rw [List.mem_append, List.mem_singleton]
          exact ⟨fun h => h.elim id (fun e => (hg e).elim), Or.inl⟩
        simp only [List.contains_eq_mem, hb, Bool.not_false, Bool.true_and, decide_eq_decide.mpr hm]

theorem g2tOf_keys (mask : List Bool) (labels : List (List α)) :
    (g2tOf mask labels).map (·.1) = groupsUnique mask labels := by
  unfold g2tOf groupsUnique
  rw [pimLoop_keys]
  have : (fun g : List α => !(List.map (fun x : List α × List (List α × Nat) => x.1) []).contains g) = fun _ => true := by
    funext g; simp
  simp only [List.map_nil, List.nil_append]
  rw [List.filter_eq_self.mpr]
  intro a _; simp

theorem g2tOf_length (mask : List Bool) (labels : List (List α)) :
    (g2tOf mask labels).length = (groupsUnique mask labels).length := by
  rw [← g2tOf_keys, List.length_map]

theorem lookup_eq_lookup2 (mask : List Bool) (labels : List (List α)) (gt : List α × List (List α × Nat))
    (h : gt ∈ g2tOf mask labels) (t : List α) : gt.2.lookup t = lookup2 (g2tOf mask labels) gt.1 t := by
  have hlk := lookup_of_mem_nodup (g2tOf_keys_nodup mask labels) h
  simp [lookup2, hlk]

/-- with unique splits the registered position of a (group, target) is THE position of its label -/
theorem lookup2_of_nodup (mask : List Bool) (labels : List (List α))
    (hS : (labels.map (split mask)).Nodup) (g t : List α) (h : (g, t) ∈ labels.map (split mask)) :
    lookup2 (g2tOf mask labels) g t = some ((labels.map (split mask)).idxOf (g, t)) := by
  obtain ⟨l, hl, hsp⟩ := List.mem_map.mp h
  obtain ⟨c, hc⟩ := g2tOf_complete mask labels l hl
  rw [hsp] at hc
  simp only at hc
  obtain ⟨l', hl', hsp'⟩ := g2tOf_sound mask labels g t c hc
  obtain ⟨hclt, hcl⟩ := List.getElem?_eq_some_iff.mp hl'
  have hget : (labels.map (split mask))[c]'(by simpa using hclt) = (g, t) := by
    rw [List.getElem_map, hcl, hsp']
  rw [hc]
  congr 1
  rw [← hget, hS.idxOf_getElem]

/-- a record in closed form: every group has the target, so no fill value and no failed lookup -/
theorem pimRecord_closed (mask : List Bool) (labels : List (List α)) (t : List α) (get : Nat → Option α)
    (fill : α) (hS : (labels.map (split mask)).Nodup)
    (hc : ∀ g ∈ groupsUnique mask labels, (g, t) ∈ labels.map (split mask) ∧
      (get ((labels.map (split mask)).idxOf (g, t))).isSome) :
    pimRecord (g2tOf mask labels) t get fill =
      .ok ((groupsUnique mask labels).map fun g =>
        (get ((labels.map (split mask)).idxOf (g, t))).getD fill) := by
  unfold pimRecord
  rw [mapM_ok_map _ (fun gt => (get ((labels.map (split mask)).idxOf (gt.1, t))).getD fill)]
  · rw [← g2tOf_keys, List.map_map]
    rfl
  · intro gt hgt
    have hg : gt.1 ∈ groupsUnique mask labels := by
      rw [← g2tOf_keys]; exact List.mem_map_of_mem hgt
    obtain ⟨hm, hsome⟩ := hc gt.1 hg
    rw [lookup_eq_lookup2 mask labels gt hgt t, lookup2_of_nodup mask labels hS gt.1 t hm]
    obtain ⟨v, hv⟩ := Option.isSome_iff_exists.mp hsome
    simp only [hv, Option.getD_some]

theorem mem_expandKeys {outer targets : List (List α)} {k : List α × Nat × List α}
    (h : k ∈ expandKeys outer targets) :
    ∃ r, outer[k.2.1]? = some r ∧ k.2.2 ∈ targets ∧ k.1 = r ++ k.2.2 := by
  unfold expandKeys at h
  obtain ⟨p, hp, hk⟩ := List.mem_flatMap.mp h
  obtain ⟨t, ht, rfl⟩ := List.mem_map.mp hk
  exact ⟨p.1, List.mem_zipIdx_iff_getElem?.mp hp, ht, rfl⟩

theorem cellAt_isSome (rows : List (List α)) (i j n : Nat) (hi : i < rows.length)
    (hrect : ∀ row ∈ rows, row.length = n) (hj : j < n) : (cellAt rows i j).isSome := by
  unfold cellAt
  have hr : rows[i] ∈ rows := List.getElem_mem hi
  have hlen := hrect _ hr
  rw [List.getElem?_eq_getElem hi]
  simp only [Option.bind_some]
  rw [List.getElem?_eq_getElem (by omega)]
  rfl

theorem idxOf_split_lt (mask : List Bool) (labels : List (List α)) (gt : List α × List α)
    (h : gt ∈ labels.map (split mask)) : (labels.map (split mask)).idxOf gt < labels.length := by
  have := List.idxOf_lt_length_of_mem h
  simpa using this

/-- `pivot_stack` in closed form on a frame whose column labels have unique splits and hold every
    (group, target) combination -/
theorem pivotStack_closed (f : HFr α) (mask : List Bool) (fill : α) (auto : Nat → α)
    (hS : (f.columns.map (split mask)).Nodup) (hgd : (mask.filter (· == false)).length ≠ 0)
    (hfull : ∀ g ∈ groupsUnique mask f.columns, ∀ t ∈ targetsUnique mask f.columns,
      (g, t) ∈ f.columns.map (split mask))
    (hrows : f.rows.length = f.index.length) (hrect : ∀ row ∈ f.rows, row.length = f.columns.length) :
    pivotStack f mask fill auto = .ok
      { index := (expandKeys f.index (targetsUnique mask f.columns)).map (·.1)
        columns := groupsUnique mask f.columns
        rows := (expandKeys f.index (targetsUnique mask f.columns)).map fun k =>
          (groupsUnique mask f.columns).map fun g =>
            (cellAt f.rows k.2.1 ((f.columns.map (split mask)).idxOf (g, k.2.2))).getD fill } := by
  unfold pivotStack
  dsimp only
  rw [mapM_ok_map _ (fun k => (groupsUnique mask f.columns).map fun g =>
    (cellAt f.rows k.2.1 ((f.columns.map (split mask)).idxOf (g, k.2.2))).getD fill)]
  · simp only [contractLabels, hgd, if_false, g2tOf_keys]
  · intro k hk
    obtain ⟨r, hr, ht, _⟩ := mem_expandKeys hk
    apply pimRecord_closed mask f.columns k.2.2 _ fill hS
    intro g hg
    have hm := hfull g hg k.2.2 ht
    refine ⟨hm, cellAt_isSome f.rows _ _ f.columns.length ?_ hrect (idxOf_split_lt mask f.columns _ hm)⟩
    rw [hrows]
    exact (List.getElem?_eq_some_iff.mp hr).1

/-- `pivot_unstack` in closed form on a frame whose row labels have unique splits and hold every
    (group, target) combination -/
theorem pivotUnstack_closed (s : HFr α) (mask : List Bool) (fill : α) (auto : Nat → α)
    (hS : (s.index.map (split mask)).Nodup) (hgd : (mask.filter (· == false)).length ≠ 0)
    (hfull : ∀ g ∈ groupsUnique mask s.index, ∀ t ∈ targetsUnique mask s.index,
      (g, t) ∈ s.index.map (split mask))
    (hrows : s.rows.length = s.index.length) (hrect : ∀ row ∈ s.rows, row.length = s.columns.length) :
    pivotUnstack s mask fill auto = .ok
      { index := groupsUnique mask s.index
        columns := (expandKeys s.columns (targetsUnique mask s.index)).map (·.1)
        rows := (groupsUnique mask s.index).map fun g =>
          (expandKeys s.columns (targetsUnique mask s.index)).map fun k =>
            (cellAt s.rows ((s.index.map (split mask)).idxOf (g, k.2.2)) k.2.1).getD fill } := by
  unfold pivotUnstack
  dsimp only
  rw [mapM_ok_map _ (fun k => (groupsUnique mask s.index).map fun g =>
    (cellAt s.rows ((s.index.map (split mask)).idxOf (g, k.2.2)) k.2.1).getD fill)]
  · simp only [contractLabels, hgd, if_false, g2tOf_keys, g2tOf_length]
    rw [transpose_map (groupsUnique mask s.index) (expandKeys s.columns (targetsUnique mask s.index))
      (fun k g => (cellAt s.rows ((s.index.map (split mask)).idxOf (g, k.2.2)) k.2.1).getD fill)]
  · intro k hk
    obtain ⟨c, hc, ht, _⟩ := mem_expandKeys hk
    apply pimRecord_closed mask s.index k.2.2 _ fill hS
    intro g hg
    have hm := hfull g hg k.2.2 ht
    refine ⟨hm, cellAt_isSome s.rows _ _ s.columns.length ?_ hrect (List.getElem?_eq_some_iff.mp hc).1⟩
    rw [hrows]
    exact idxOf_split_lt mask s.index _ hm

theorem expandKeys_mem {outer targets : List (List α)} {r t : List α} {i : Nat}
    (hr : outer[i]? = some r) (ht : t ∈ targets) : (r ++ t, i, t) ∈ expandKeys outer targets := by
  unfold expandKeys
  apply List.mem_flatMap.mpr
  refine ⟨(r, i), List.mem_zipIdx_iff_getElem?.mpr hr, ?_⟩
  exact List.mem_map.mpr ⟨t, ht, rfl⟩

/-- a function of the keys that only looks at (outer label, target) -/
theorem expandKeys_map {δ : Type} (outer targets : List (List α)) (Ψ : List α × Nat × List α → δ)
    (Ψ' : List α × List α → δ)
    (h : ∀ p ∈ outer.zipIdx, ∀ t ∈ targets, Ψ (p.1 ++ t, p.2, t) = Ψ' (p.1, t)) :
    (expandKeys outer targets).map Ψ = (treeProduct outer targets).map Ψ' := by
  unfold expandKeys treeProduct
  rw [List.map_flatMap, List.map_flatMap]
  apply zipIdx_flatMap_fst
  intro p hp
  rw [List.map_map, List.map_map]
  apply List.map_congr_left
  intro t ht
  exact h p hp t ht

theorem expandKeys_length (outer targets : List (List α)) :
    (expandKeys outer targets).length = (treeProduct outer targets).length := by
  have := congrArg List.length (expandKeys_map outer targets (fun _ => ()) (fun _ => ()) (fun _ _ _ _ => rfl))
  simpa using this

theorem targetsUnique_ne_nil (mask : List Bool) (labels : List (List α)) (h : labels ≠ []) :
    targetsUnique mask labels ≠ [] := by
  obtain ⟨l, ls, rfl⟩ := List.exists_cons_of_ne_nil h
  simp [targetsUnique, List.eraseDups_cons]

theorem targetsUnique_nodup (mask : List Bool) (labels : List (List α)) : (targetsUnique mask labels).Nodup :=
  nodup_eraseDups _

theorem groupsUnique_nodup (mask : List Bool) (labels : List (List α)) : (groupsUnique mask labels).Nodup :=
  nodup_eraseDups _

/-- on product-shaped labels the groups and the targets are the factors -/
theorem groupsUnique_of_product (mask : List Bool) (labels gs ts : List (List α))
    (h : labels.map (split mask) = treeProduct gs ts) (hg : gs.Nodup) (ht : ts ≠ []) :
    groupsUnique mask labels = gs := by
  have : labels.map (maskSel mask false) = (labels.map (split mask)).map (·.1) := by
    rw [List.map_map]; rfl
  rw [groupsUnique, this, h, treeProduct_fst_eraseDups gs ts hg ht]

theorem targetsUnique_of_product (mask : List Bool) (labels gs ts : List (List α))
    (h : labels.map (split mask) = treeProduct gs ts) (hg : gs ≠ []) (ht : ts.Nodup) :
    targetsUnique mask labels = ts := by
  have : labels.map (maskSel mask true) = (labels.map (split mask)).map (·.2) := by
    rw [List.map_map]; rfl
  rw [targetsUnique, this, h, treeProduct_snd_eraseDups gs ts hg ht]

/-- the stacked frame of `pivotStack_closed` -/
def stackClosed (f : HFr α) (mask : List Bool) (fill : α) : HFr α :=
  { index := (expandKeys f.index (targetsUnique mask f.columns)).map (·.1)
    columns := groupsUnique mask f.columns
    rows := (expandKeys f.index (targetsUnique mask f.columns)).map fun k =>
      (groupsUnique mask f.columns).map fun g =>
        (cellAt f.rows k.2.1 ((f.columns.map (split mask)).idxOf (g, k.2.2))).getD fill }

/-- `m2` undoes the concatenation `row label ++ target` of the stacked index -/
def UnstackMask (f : HFr α) (m1 m2 : List Bool) : Prop :=
  ∀ r ∈ f.index, ∀ t ∈ targetsUnique m1 f.columns, split m2 (r ++ t) = (r, t)

theorem expandKeys_split (f : HFr α) (m1 m2 : List Bool) (H : UnstackMask f m1 m2) :
    (expandKeys f.index (targetsUnique m1 f.columns)).map (fun k => split m2 k.1) =
      treeProduct f.index (targetsUnique m1 f.columns) := by
  have := expandKeys_map f.index (targetsUnique m1 f.columns) (fun k => split m2 k.1) id (by
    intro p hp t ht
    have hm : p.1 ∈ f.index := List.mem_of_getElem? (List.mem_zipIdx_iff_getElem?.mp hp)
    exact H p.1 hm t ht)
  rw [this, List.map_id]

theorem stackClosed_index_split (f : HFr α) (m1 m2 : List Bool) (fill : α) (H : UnstackMask f m1 m2) :
    (stackClosed f m1 fill).index.map (split m2) = treeProduct f.index (targetsUnique m1 f.columns) := by
  show ((expandKeys f.index (targetsUnique m1 f.columns)).map (·.1)).map (split m2) = _
  rw [List.map_map]
  exact expandKeys_split f m1 m2 H

/-- the cell of the stacked frame in the row labelled `r ++ t`, under group `g`, is the cell of
    `f` in row `r` and THE column that splits into `(g, t)` -/
theorem stackClosed_cell (f : HFr α) (m1 m2 : List Bool) (fill : α) (H : UnstackMask f m1 m2)
    (hI : f.index.Nodup) {i j : Nat} {r t g : List α} (hr : f.index[i]? = some r)
    (ht : t ∈ targetsUnique m1 f.columns) (hg : (groupsUnique m1 f.columns)[j]? = some g) :
    cellAt (stackClosed f m1 fill).rows
        ((treeProduct f.index (targetsUnique m1 f.columns)).idxOf (r, t)) j =
      some ((cellAt f.rows i ((f.columns.map (split m1)).idxOf (g, t))).getD fill) := by
  have hk := expandKeys_mem hr ht
  have hprod := expandKeys_split f m1 m2 H
  have hn : ((expandKeys f.index (targetsUnique m1 f.columns)).map (fun k => split m2 k.1)).Nodup := by
    rw [hprod]; exact treeProduct_nodup hI (targetsUnique_nodup _ _)
  have hrm : r ∈ f.index := List.mem_of_getElem? hr
  have hget := getElem?_map_idxOf (fun k : List α × Nat × List α => split m2 k.1)
    (fun k => (groupsUnique m1 f.columns).map fun g =>
      (cellAt f.rows k.2.1 ((f.columns.map (split m1)).idxOf (g, k.2.2))).getD fill)
    (expandKeys f.index (targetsUnique m1 f.columns)) hn _ hk
  rw [hprod] at hget
  simp only [H r hrm t ht] at hget
  conv => lhs; unfold cellAt
  show Option.bind (List.map _ (expandKeys f.index (targetsUnique m1 f.columns)))[_]? _ = _
  rw [hget]
  simp only [Option.bind_some, List.getElem?_map, hg, Option.map_some]

/-- positions of the columns of `f` in the order of the round trip: groups in the order first
    seen, within a group the targets in the order first seen -/
def regroupOrder (mask : List Bool) (columns : List (List α)) : List Nat :=
  (treeProduct (groupsUnique mask columns) (targetsUnique mask columns)).map
    fun gt => (columns.map (split mask)).idxOf gt

/-- the round trip in closed form -/
theorem stack_unstack_closed (f : HFr α) (m1 m2 : List Bool) (fill : α) (auto : Nat → α)
    (hI : f.index.Nodup) (hIne : f.index ≠ []) (hCne : f.columns ≠ [])
    (hS : (f.columns.map (split m1)).Nodup)
    (hgd1 : (m1.filter (· == false)).length ≠ 0) (hgd2 : (m2.filter (· == false)).length ≠ 0)
    (hfull : ∀ g ∈ groupsUnique m1 f.columns, ∀ t ∈ targetsUnique m1 f.columns,
      (g, t) ∈ f.columns.map (split m1))
    (hrows : f.rows.length = f.index.length) (hrect : ∀ row ∈ f.rows, row.length = f.columns.length)
    (H : UnstackMask f m1 m2) :
    (pivotStack f m1 fill auto >>= fun s => pivotUnstack s m2 fill auto) = .ok
      { index := f.index
        columns := (treeProduct (groupsUnique m1 f.columns) (targetsUnique m1 f.columns)).map
          fun gt => gt.1 ++ gt.2
        rows := f.rows.map fun row => sel row (regroupOrder m1 f.columns) } := by
  rw [pivotStack_closed f m1 fill auto hS hgd1 hfull hrows hrect]
  show pivotUnstack (stackClosed f m1 fill) m2 fill auto = _
  have hsplit := stackClosed_index_split f m1 m2 fill H
  have hTn := targetsUnique_nodup m1 f.columns
  have hG2 : groupsUnique m2 (stackClosed f m1 fill).index = f.index :=
    groupsUnique_of_product _ _ _ _ hsplit hI (targetsUnique_ne_nil _ _ hCne)
  have hT2 : targetsUnique m2 (stackClosed f m1 fill).index = targetsUnique m1 f.columns :=
    targetsUnique_of_product _ _ _ _ hsplit hIne hTn
  rw [pivotUnstack_closed (stackClosed f m1 fill) m2 fill auto
    (by rw [hsplit]; exact treeProduct_nodup hI hTn) hgd2
    (by
      intro g hg t ht
      rw [hG2] at hg; rw [hT2] at ht; rw [hsplit]
      exact mem_treeProduct.mpr ⟨hg, ht⟩)
    (by simp [stackClosed])
    (by
      intro row hrow
      simp only [stackClosed, List.mem_map] at hrow
      obtain ⟨k, _, rfl⟩ := hrow
      simp [stackClosed])]
  rw [hG2, hT2, hsplit]
  refine congrArg Except.ok ?_
  congr 1
  · exact expandKeys_map (groupsUnique m1 f.columns) (targetsUnique m1 f.columns) (·.1)
      (fun gt => gt.1 ++ gt.2) (fun _ _ _ _ => rfl)
  · apply List.ext_getElem?
    intro i
    rw [List.getElem?_map, List.getElem?_map]
    by_cases hi : i < f.index.length
    · have hi' : i < f.rows.length := hrows ▸ hi
      rw [List.getElem?_eq_getElem hi, List.getElem?_eq_getElem hi']
      simp only [Option.map_some]
      congr 1
      show List.map _ (expandKeys (groupsUnique m1 f.columns) (targetsUnique m1 f.columns)) = _
      rw [expandKeys_map (groupsUnique m1 f.columns) (targetsUnique m1 f.columns) _
        (fun gt => (cellAt f.rows i ((f.columns.map (split m1)).idxOf gt)).getD fill) (by
          intro p hp t ht
          show (cellAt (stackClosed f m1 fill).rows _ p.2).getD fill = _
          rw [stackClosed_cell f m1 m2 fill H hI (List.getElem?_eq_getElem hi) ht
            (List.mem_zipIdx_iff_getElem?.mp hp)]
          rfl)]
      unfold sel pick regroupOrder
      rw [List.filterMap_map, filterMap_eq_map_getD _ fill]
      · apply List.map_congr_left
        intro gt _
        unfold cellAt
        rw [List.getElem?_eq_getElem hi']
        rfl
      · intro gt hgt
        have hm := hfull gt.1 (mem_treeProduct.mp hgt).1 gt.2 (mem_treeProduct.mp hgt).2
        have hlt := idxOf_split_lt m1 f.columns gt hm
        have hlen := hrect _ (List.getElem_mem hi')
        simp only [Function.comp]
        rw [List.getElem?_eq_getElem (by omega)]
        rfl
    · have hi' : ¬ i < f.rows.length := hrows ▸ hi
      rw [List.getElem?_eq_none (Nat.le_of_not_lt hi), List.getElem?_eq_none (Nat.le_of_not_lt hi')]
      rfl

/-- a column label with its group depths moved in front of its target depths -/
def regroup (mask : List Bool) (l : List α) : List α := (split mask l).1 ++ (split mask l).2

theorem split_mem_product (mask : List Bool) (labels : List (List α)) (gt : List α × List α)
    (h : gt ∈ labels.map (split mask)) :
    gt ∈ treeProduct (groupsUnique mask labels) (targetsUnique mask labels) := by
  obtain ⟨l, hl, rfl⟩ := List.mem_map.mp h
  rw [mem_treeProduct]
  constructor
  · unfold groupsUnique
    rw [List.mem_eraseDups]
    exact List.mem_map.mpr ⟨l, hl, rfl⟩
  · unfold targetsUnique
    rw [List.mem_eraseDups]
    exact List.mem_map.mpr ⟨l, hl, rfl⟩

/-- on a complete tree the order of the round trip is a permutation of the column positions -/
theorem regroupOrder_perm (mask : List Bool) (columns : List (List α))
    (hS : (columns.map (split mask)).Nodup)
    (hfull : ∀ g ∈ groupsUnique mask columns, ∀ t ∈ targetsUnique mask columns,
      (g, t) ∈ columns.map (split mask)) :
    (regroupOrder mask columns).Perm (List.range columns.length) := by
  have hp : (treeProduct (groupsUnique mask columns) (targetsUnique mask columns)).Perm
      (columns.map (split mask)) := by
    rw [List.perm_ext_iff_of_nodup
      (treeProduct_nodup (groupsUnique_nodup _ _) (targetsUnique_nodup _ _)) hS]
    intro gt
    exact ⟨fun h => hfull gt.1 (mem_treeProduct.mp h).1 gt.2 (mem_treeProduct.mp h).2,
      split_mem_product mask columns gt⟩
  have := hp.map (fun gt => (columns.map (split mask)).idxOf gt)
  rw [map_idxOf_self _ hS, List.length_map] at this
  exact this

/-- the column labels of the round trip are the regrouped labels of `f`, read in `regroupOrder` -/
theorem regroupOrder_labels (mask : List Bool) (columns : List (List α))
    (hS : (columns.map (split mask)).Nodup)
    (hfull : ∀ g ∈ groupsUnique mask columns, ∀ t ∈ targetsUnique mask columns,
      (g, t) ∈ columns.map (split mask)) :
    (treeProduct (groupsUnique mask columns) (targetsUnique mask columns)).map (fun gt => gt.1 ++ gt.2) =
      sel (columns.map (regroup mask)) (regroupOrder mask columns) := by
  unfold sel pick regroupOrder
  rw [List.filterMap_map]
  have hmm : columns.map (regroup mask) = (columns.map (split mask)).map (fun gt => gt.1 ++ gt.2) := by
    rw [List.map_map]; rfl
  have hid : (columns.map (split mask)).map id = columns.map (split mask) := List.map_id _
  have key : ∀ gt ∈ treeProduct (groupsUnique mask columns) (targetsUnique mask columns),
      (columns.map (regroup mask))[(columns.map (split mask)).idxOf gt]? = some (gt.1 ++ gt.2) := by
    intro gt hgt
    have hm := hfull gt.1 (mem_treeProduct.mp hgt).1 gt.2 (mem_treeProduct.mp hgt).2
    have := getElem?_map_idxOf (fun gt : List α × List α => gt) (fun gt => gt.1 ++ gt.2)
      (columns.map (split mask)) (by rw [List.map_id']; exact hS) gt hm
    rw [List.map_id'] at this
    rw [hmm]; exact this
  symm
  rw [filterMap_eq_map_getD _ [] _ (fun gt hgt => by simp only [Function.comp]; rw [key gt hgt]; rfl)]
  apply List.map_congr_left
  intro gt hgt
  simp only [Function.comp]
  rw [key gt hgt]; rfl

/-- ordered uniform tree: the columns are group-major and every group lists the targets in the
    same order; then the round trip order is the identity -/
theorem regroupOrder_of_product (mask : List Bool) (columns : List (List α))
    (hS : (columns.map (split mask)).Nodup)
    (hprod : columns.map (split mask) =
      treeProduct (groupsUnique mask columns) (targetsUnique mask columns)) :
    regroupOrder mask columns = List.range columns.length := by
  unfold regroupOrder
  rw [← hprod, map_idxOf_self _ hS, List.length_map]

theorem sel_range {β : Type} (l : List β) (n : Nat) (h : l.length = n) : sel l (List.range n) = l := by
  subst h; exact pick_range l

/-! ### masks -/

theorem maskSel_nil_left (mask : List Bool) (want : Bool) : maskSel mask want ([] : List α) = [] := rfl

theorem maskSel_nil_mask (want : Bool) (l : List α) : maskSel [] want l = [] := by
  unfold maskSel; rw [List.zip_nil_right]; rfl

theorem maskSel_cons (b : Bool) (mask : List Bool) (want : Bool) (x : α) (l : List α) :
    maskSel (b :: mask) want (x :: l) = if b = want then x :: maskSel mask want l else maskSel mask want l := by
  unfold maskSel
  rw [List.zip_cons_cons, List.filterMap_cons]
  by_cases h : b = want <;> simp [h]

/-- labels of the mask's depth are determined by their (group, target) split -/
theorem split_injective : ∀ (mask : List Bool) (l l' : List α), l.length = mask.length → l'.length = mask.length →
    split mask l = split mask l' → l = l'
  | [], [], [], _, _, _ => rfl
  | b :: mask, x :: l, y :: l', h1, h2, h => by
    simp only [List.length_cons, Nat.add_right_cancel_iff] at h1 h2
    simp only [split, maskSel_cons, Prod.mk.injEq] at h
    have ih := split_injective mask l l' h1 h2
    cases b
    · simp only [if_true, Bool.false_eq_true, if_false, List.cons.injEq] at h
      rw [h.1.1, ih (by simp only [split, h.1.2, h.2])]
    · simp only [if_true, Bool.true_eq_false, if_false, List.cons.injEq] at h
      rw [h.2.1, ih (by simp only [split, h.1, h.2.2])]

theorem split_nodup_of_depth (mask : List Bool) (labels : List (List α)) (hn : labels.Nodup)
    (hd : ∀ l ∈ labels, l.length = mask.length) : (labels.map (split mask)).Nodup := by
  rw [List.Nodup, List.pairwise_map]
  have hn' : labels.Pairwise (· ≠ ·) := hn
  rw [List.pairwise_iff_forall_sublist] at hn' ⊢
  intro a b hab e
  have ha : a ∈ labels := hab.subset (by simp)
  have hb : b ∈ labels := hab.subset (by simp)
  exact hn' hab (split_injective mask a b (hd a ha) (hd b hb) e)

theorem maskSel_replicate_self (b : Bool) : ∀ (n : Nat) (l : List α), l.length ≤ n →
    maskSel (List.replicate n b) b l = l
  | _, [], _ => rfl
  | 0, x :: l, h => by simp at h
  | n + 1, x :: l, h => by
    rw [List.replicate_succ, maskSel_cons, if_pos rfl, maskSel_replicate_self b n l (by simpa using h)]

theorem maskSel_replicate_other (b want : Bool) (hne : b ≠ want) : ∀ (n : Nat) (l : List α),
    maskSel (List.replicate n b) want l = []
  | _, [] => rfl
  | 0, x :: l => maskSel_nil_mask _ _
  | n + 1, x :: l => by
    rw [List.replicate_succ, maskSel_cons, if_neg hne, maskSel_replicate_other b want hne n l]

theorem maskSel_replicate_append (b want : Bool) (m : List Bool) : ∀ (r t : List α),
    maskSel (List.replicate r.length b ++ m) want (r ++ t) =
      (if b = want then r else []) ++ maskSel m want t
  | [], t => by simp
  | x :: r, t => by
    rw [List.length_cons, List.replicate_succ, List.cons_append, List.cons_append, maskSel_cons,
      maskSel_replicate_append b want m r t]
    by_cases h : b = want <;> simp [h]

theorem maskSel_length_le (mask : List Bool) (want : Bool) : ∀ (l : List α),
    (maskSel mask want l).length ≤ (mask.filter (· == want)).length := by
  induction mask with
  | nil => intro l; rw [maskSel_nil_mask]; simp
  | cons b mask ih =>
    intro l
    cases l with
    | nil => simp [maskSel_nil_left]
    | cons x l =>
      rw [maskSel_cons, List.filter_cons]
      by_cases h : b = want
      · subst h
        have hb : (b == b) = true := by simp
        simp only [if_true, hb, List.length_cons]
        have := ih l
        omega
      · have hb : (b == want) = false := by simp [h]
        simp only [h, if_false, hb, Bool.false_eq_true]
        exact ih l

/-- the canonical unstack mask: keep the `n` depths of the row labels, move the target depths -/
def unstackMaskOf (n : Nat) (m1 : List Bool) : List Bool :=
  List.replicate n false ++ List.replicate (m1.filter (· == true)).length true

theorem unstackMaskOf_spec (f : HFr α) (m1 : List Bool) (n : Nat) (hd : ∀ r ∈ f.index, r.length = n) :
    UnstackMask f m1 (unstackMaskOf n m1) := by
  intro r hr t ht
  have hn := hd r hr
  subst hn
  have htl : t.length ≤ (m1.filter (· == true)).length := by
    unfold targetsUnique at ht
    rw [List.mem_eraseDups] at ht
    obtain ⟨l, _, rfl⟩ := List.mem_map.mp ht
    exact maskSel_length_le m1 true l
  unfold split unstackMaskOf
  rw [maskSel_replicate_append, maskSel_replicate_append,
    maskSel_replicate_other true false (by decide), maskSel_replicate_self true _ t htl]
  simp

theorem unstackMaskOf_groupDepth (n : Nat) (m1 : List Bool) :
    ((unstackMaskOf n m1).filter (· == false)).length = n := by
  unfold unstackMaskOf
  rw [List.filter_append, List.filter_replicate, List.filter_replicate]
  simp

/-- with the group depths in front (the usual `pivot_stack` of the innermost depths) regrouping
    is the identity -/
theorem regroup_id (a b : Nat) (l : List α) (h : l.length = a + b) :
    regroup (List.replicate a false ++ List.replicate b true) l = l := by
  have hl : l = l.take a ++ l.drop a := (List.take_append_drop a l).symm
  have hta : (l.take a).length = a := by rw [List.length_take]; omega
  have hdb : (l.drop a).length ≤ b := by rw [List.length_drop]; omega
  unfold regroup split
  rw [hl]
  have e := maskSel_replicate_append (α := α) false false (List.replicate b true) (l.take a) (l.drop a)
  have e' := maskSel_replicate_append (α := α) false true (List.replicate b true) (l.take a) (l.drop a)
  rw [hta] at e e'
  rw [e, e', maskSel_replicate_other true false (by decide), maskSel_replicate_self true b _ hdb]
  simp

/-! ### the well-formedness predicate of the round trip -/

/-- `pivot_unstack m2 (pivot_stack m1 f)` is a round trip on `f`.  Decidable.
    * the frame has a row and a column (on an empty axis the stacked frame loses the other axis);
    * unique row labels; unique column labels, all of the mask's depth;
    * both masks leave a depth on the contracted axis (otherwise it is relabelled automatically);
    * uniform column tree: every group holds every target (in any order);
    * rectangular rows, one per row label;
    * `m2` splits a stacked row label `r ++ t` back into `(r, t)`. -/
def StackWF (f : HFr α) (m1 m2 : List Bool) : Prop :=
  f.index ≠ [] ∧ f.columns ≠ [] ∧
  f.index.Nodup ∧ f.columns.Nodup ∧ (∀ l ∈ f.columns, l.length = m1.length) ∧
  (m1.filter (· == false)).length ≠ 0 ∧ (m2.filter (· == false)).length ≠ 0 ∧
  (∀ g ∈ groupsUnique m1 f.columns, ∀ t ∈ targetsUnique m1 f.columns,
    (g, t) ∈ f.columns.map (split m1)) ∧
  f.rows.length = f.index.length ∧ (∀ row ∈ f.rows, row.length = f.columns.length) ∧
  (∀ r ∈ f.index, ∀ t ∈ targetsUnique m1 f.columns, split m2 (r ++ t) = (r, t))

instance (f : HFr α) (m1 m2 : List Bool) : Decidable (StackWF f m1 m2) := by
  unfold StackWF; infer_instance

/-- ordered uniform tree: the columns are group-major and every group lists the same targets in
    the same order.  Decidable. -/
def OrderedTree (mask : List Bool) (columns : List (List α)) : Prop :=
  columns.map (split mask) = treeProduct (groupsUnique mask columns) (targetsUnique mask columns)

instance (mask : List Bool) (columns : List (List α)) : Decidable (OrderedTree mask columns) := by
  unfold OrderedTree; infer_instance

theorem stack_unstack_of_wf (f : HFr α) (m1 m2 : List Bool) (fill : α) (auto : Nat → α)
    (wf : StackWF f m1 m2) :
    (pivotStack f m1 fill auto >>= fun s => pivotUnstack s m2 fill auto) = .ok
      { index := f.index
        columns := sel (f.columns.map (regroup m1)) (regroupOrder m1 f.columns)
        rows := f.rows.map fun row => sel row (regroupOrder m1 f.columns) } ∧
    (regroupOrder m1 f.columns).Perm (List.range f.columns.length) := by
  obtain ⟨hIne, hCne, hI, hC, hdep, hgd1, hgd2, hfull, hrows, hrect, H⟩ := wf
  have hS := split_nodup_of_depth m1 f.columns hC hdep
  refine ⟨?_, regroupOrder_perm m1 f.columns hS hfull⟩
  rw [stack_unstack_closed f m1 m2 fill auto hI hIne hCne hS hgd1 hgd2 hfull hrows hrect H,
    regroupOrder_labels m1 f.columns hS hfull]

end Stack

end SF.Rel
