/-
  The refinement argument of C19 in pieces: construction facts of `Quilt.init`, the bus keys of an
  ascending selection, one turn of the member loop, and the concatenation of the parts.
-/
import SFModel.QuiltLemmas

namespace SF.Quilt
open SF

variable {L α : Type} [DecidableEq L]

/-! ### construction -/

theorem fromBusGo_ok {bus : Bus L α} {tree : List (L × L)} {o : Option (List L)} {am : List (L × L)} {opp : List L}
    (h : fromBusGo bus tree o = .ok (am, opp)) :
    am = tree ++ axisMapOf bus ∧ (∀ p ∈ bus, p.2.opp = opp) ∧ (∀ o', o = some o' → opp = o') ∧ (o = none → bus ≠ []) := by
  induction bus generalizing tree o with
  | nil =>
    cases o with
    | none => simp [fromBusGo] at h
    | some o' =>
      simp only [fromBusGo, Except.ok.injEq, Prod.mk.injEq] at h
      obtain ⟨rfl, rfl⟩ := h
      simp [axisMapOf]
  | cons p rest ih =>
    obtain ⟨b, f⟩ := p
    cases o with
    | none =>
      simp only [fromBusGo] at h
      obtain ⟨h1, h2, h3, _⟩ := ih h
      refine ⟨?_, ?_, by simp, by simp⟩
      · rw [h1, axisMapOf_cons]; simp
      · intro q hq
        rcases List.mem_cons.mp hq with rfl | hq
        · exact (h3 _ rfl).symm
        · exact h2 q hq
    | some o' =>
      simp only [fromBusGo] at h
      split at h
      · rename_i heq
        obtain ⟨h1, h2, h3, _⟩ := ih h
        have : opp = o' := h3 _ rfl
        refine ⟨?_, ?_, ?_, by simp⟩
        · rw [h1, axisMapOf_cons]; simp
        · intro q hq
          rcases List.mem_cons.mp hq with rfl | hq
          · simp only; rw [this, heq]
          · exact h2 q hq
        · intro o'' ho; cases ho; exact this
      · cases h

theorem init_ok {bus : Bus L α} {retain : Bool} {q : Quilt L α} (h : Quilt.init bus retain = .ok q) :
    q.bus = bus ∧ q.retain = retain ∧ q.axisMap = axisMapOf bus ∧ (∀ p ∈ bus, p.2.opp = q.opp) ∧ bus ≠ [] := by
  unfold Quilt.init at h
  split at h
  · cases h
  · rename_i am o hgo
    split at h
    · cases h
    · simp only [Except.ok.injEq] at h
      subst h
      obtain ⟨h1, h2, _, h4⟩ := fromBusGo_ok hgo
      exact ⟨rfl, rfl, by simpa using h1, h2, h4 rfl⟩

omit [DecidableEq L] in
theorem axisMapOf_relabel (retain : Bool) (bus : Bus L α) :
    (axisMapOf bus).map (fun p => relabel retain p.1 p.2) = bus.flatMap (fun p => p.2.labels.map (relabel retain p.1)) := by
  induction bus with
  | nil => simp [axisMapOf]
  | cons p rest ih =>
    rw [axisMapOf_cons, List.map_append, ih]
    simp [List.map_map, Function.comp_def]

omit [DecidableEq L] in
theorem axisMapOf_length (bus : Bus L α) :
    (axisMapOf bus).length = (bus.flatMap (fun p => p.2.labels)).length := by
  induction bus with
  | nil => simp [axisMapOf]
  | cons p rest ih => rw [axisMapOf_cons]; simp [ih]

omit [DecidableEq L] in
theorem flatMap_length_axisMap {γ : Type} (bus : Bus L α) (g : L × MFrame L L α → List γ)
    (hg : ∀ p ∈ bus, (g p).length = p.2.labels.length) : (bus.flatMap g).length = (axisMapOf bus).length := by
  induction bus with
  | nil => simp [axisMapOf]
  | cons p rest ih =>
    rw [axisMapOf_cons]
    simp only [List.flatMap_cons, List.length_append, List.length_map]
    rw [ih (fun q hq => hg q (by simp [hq])), hg p (by simp)]

/-! ### pick -/

omit [DecidableEq L] in
theorem pick_length {β : Type} (l : List β) (ps : List Nat) (h : ∀ p ∈ ps, p < l.length) :
    (pick l ps).length = ps.length := by
  rw [pick_eq_map l ps h]; simp

omit [DecidableEq L] in
theorem pick_range {β : Type} (l : List β) : pick l (List.range l.length) = l := by
  apply List.ext_getElem?
  intro i
  unfold pick
  by_cases hi : i < l.length
  · have : (List.filterMap (fun x => l[x]?) (List.range l.length)) = l := by
      apply List.ext_getElem
      · have := pick_length l (List.range l.length) (by intro p hp; simpa using hp)
        simpa [pick] using this
      · intro j h1 h2
        have hp := pick_eq_map l (List.range l.length) (by intro p hp; simpa using hp)
        unfold pick at hp
        simp [hp]
    rw [this]
  · have hlen : (List.filterMap (fun x => l[x]?) (List.range l.length)).length = l.length := by
      have := pick_length l (List.range l.length) (by intro p hp; simpa using hp)
      simpa [pick] using this
    rw [List.getElem?_eq_none (by omega), List.getElem?_eq_none (by omega)]

/-! ### the bus keys of an ascending selection -/

/-- per member: its label and the number of selected lines -/
def counts (bus : Bus L α) (sel : List Bool) : List (L × Nat) :=
  (bus.zip (segs bus sel)).map (fun x => (x.1.1, x.2.count true))

omit [DecidableEq L] in
theorem counts_map_fst (bus : Bus L α) (sel : List Bool) : (counts bus sel).map (·.1) = bus.map (·.1) := by
  unfold counts
  rw [List.map_map]
  have : ((fun x : L × Nat => x.1) ∘ fun x : (L × MFrame L L α) × List Bool => (x.1.1, x.2.count true))
      = (fun p : L × MFrame L L α => p.1) ∘ Prod.fst := by funext x; rfl
  rw [this, ← List.map_map, List.map_fst_zip]
  rw [segs_length]; exact Nat.le_refl _

omit [DecidableEq L] in
theorem pick_axisMap_fst (bus : Bus L α) (ps : List Nat) (hasc : ps.Pairwise (· < ·))
    (hr : ∀ p ∈ ps, p < (axisMapOf bus).length) :
    (pick (axisMapOf bus) ps).map (·.1) = blocks (counts bus (maskOf (axisMapOf bus).length ps)) := by
  rw [pick_eq_maskSelect _ _ hasc hr, ← maskSelect_map, axisMapOf_map_fst]
  rw [maskSelect_flatMap_segs bus _ (fun p => List.replicate p.2.labels.length p.1) (by intro p _; simp)
    (by simp [maskOf_length])]
  unfold blocks counts
  rw [List.flatMap_map]
  apply flatMap_congr_mem
  intro x hx
  have hl := segs_lengths bus _ (by simp [maskOf_length]) x hx
  exact maskSelect_replicate _ _ _ hl

theorem busKeys_ascending (bus : Bus L α) (sk : Key) (ps : List Nat)
    (hnd : (bus.map (·.1)).Nodup) (ham : (axisMapOf bus).Nodup)
    (hps : sk.positions (axisMapOf bus).length = .ok ps) (hasc : ps.Pairwise (· < ·)) :
    busKeys (axisMapOf bus) sk ps = .ok (active (counts bus (maskOf (axisMapOf bus).length ps))) := by
  have hr : ∀ p ∈ ps, p < (axisMapOf bus).length := SF.C04.key_positions_in_range hps
  have hK := pick_axisMap_fst bus ps hasc hr
  have hcn : ((counts bus (maskOf (axisMapOf bus).length ps)).map (·.1)).Nodup := by
    rw [counts_map_fst]; exact hnd
  have hD := dupFilter_blocks _ hcn
  have multi : (if !treeForm ((pick (axisMapOf bus) ps).map (·.1)) [] none then Except.error Err.indexInit
      else if !decide (pick (axisMapOf bus) ps).Nodup then Except.error Err.nonUnique
      else Except.ok (dupFilter ((pick (axisMapOf bus) ps).map (·.1))))
      = .ok (active (counts bus (maskOf (axisMapOf bus).length ps))) := by
    have ht : treeForm ((pick (axisMapOf bus) ps).map (·.1)) [] none = true := by
      rw [hK]; exact treeForm_blocks _ [] none hcn (by simp)
    have hn : (pick (axisMapOf bus) ps).Nodup := by
      rw [pick_eq_maskSelect _ _ hasc hr]
      exact (maskSelect_sublist _ _).nodup ham
    rw [if_neg (by simp [ht]), if_neg (by simp [hn]), hK, hD]
  cases sk with
  | int i =>
    obtain ⟨p, rfl, hp, _⟩ := SF.C04.int_position hps
    simp only [busKeys]
    have hget : (axisMapOf bus)[p]? = some ((axisMapOf bus)[p]) := List.getElem?_eq_getElem hp
    rw [hget]
    simp only
    have h1 : (pick (axisMapOf bus) [p]).map (·.1) = [((axisMapOf bus)[p]).1] := by
      simp [pick, hget]
    rw [← hD, ← hK, h1]
    simp [dupFilter, dupFilterGo]
  | all => simpa [busKeys] using multi
  | slice s => simpa [busKeys] using multi
  | list is => simpa [busKeys] using multi
  | mask bs => simpa [busKeys] using multi

/-! ### one turn of the member loop -/

/-- the part a member contributes (before the reduction of an integer key) -/
def compOf (retain : Bool) (ok : Key) (os : List Nat) (x : (L × MFrame L L α) × List Bool) : Sel L α :=
  { labels := (maskSelect x.1.2.labels x.2).map (relabel retain x.1.1)
    opp := pick x.1.2.opp os
    lines := (maskSelect x.1.2.lines x.2).map (fun ln => pick ln os)
    selReduced := false
    oppReduced := !ok.isMulti }

theorem partFor_eq (q : Quilt L α) (sel : List Bool) (sk ok : Key) (os : List Nat)
    (hnd : (q.bus.map (·.1)).Nodup) (ham : q.axisMap = axisMapOf q.bus) (hl : sel.length = q.axisMap.length)
    (hopp : ∀ p ∈ q.bus, p.2.opp = q.opp) (hos : oppPositions ok q.opp.length = .ok os)
    (x : (L × MFrame L L α) × List Bool) (hx : x ∈ q.bus.zip (segs q.bus sel)) :
    q.partFor sel sk ok x.1.1 =
      (if !sk.isMulti then (compOf q.retain ok os x).reduce0 else .ok (compOf q.retain ok os x)) := by
  have hmem : x.1 ∈ q.bus := (List.of_mem_zip hx).1
  have hseg : selComponent q.axisMap sel x.1.1 = x.2 := by
    rw [ham]
    exact map_eq_zip q.bus (segs q.bus sel) (fun p => selComponent (axisMapOf q.bus) sel p.1)
      (selComponent_eq_segs q.bus sel hnd (by rw [← ham]; exact hl)) x hx
  have hlen : x.2.length = x.1.2.labels.length := segs_lengths q.bus sel (by rw [← ham]; exact hl) x hx
  unfold Quilt.partFor Quilt.lookup
  rw [find_of_nodup q.bus x.1 hmem hnd]
  simp only
  unfold memberPart
  rw [hseg, if_neg (by simpa using hlen), hopp x.1 hmem, hos]
  simp only [compOf, hopp x.1 hmem]

theorem partFor_error (q : Quilt L α) (sel : List Bool) (sk ok : Key) (e : Err)
    (hnd : (q.bus.map (·.1)).Nodup) (ham : q.axisMap = axisMapOf q.bus) (hl : sel.length = q.axisMap.length)
    (hopp : ∀ p ∈ q.bus, p.2.opp = q.opp) (hos : oppPositions ok q.opp.length = .error e)
    (x : (L × MFrame L L α) × List Bool) (hx : x ∈ q.bus.zip (segs q.bus sel)) :
    q.partFor sel sk ok x.1.1 = .error e := by
  have hmem : x.1 ∈ q.bus := (List.of_mem_zip hx).1
  have hseg : selComponent q.axisMap sel x.1.1 = x.2 := by
    rw [ham]
    exact map_eq_zip q.bus (segs q.bus sel) (fun p => selComponent (axisMapOf q.bus) sel p.1)
      (selComponent_eq_segs q.bus sel hnd (by rw [← ham]; exact hl)) x hx
  have hlen : x.2.length = x.1.2.labels.length := segs_lengths q.bus sel (by rw [← ham]; exact hl) x hx
  unfold Quilt.partFor Quilt.lookup
  rw [find_of_nodup q.bus x.1 hmem hnd]
  simp only
  unfold memberPart
  rw [hseg, if_neg (by simpa using hlen), hopp x.1 hmem, hos]

/-! ### concatenating the parts -/

omit [DecidableEq L] in
theorem combine_cons (p : Sel L α) (rest : List (Sel L α)) :
    combine (p :: rest) = .ok { p with labels := (p :: rest).flatMap (·.labels), lines := (p :: rest).flatMap (·.lines) } := by
  cases rest with
  | nil => simp [combine]
  | cons r rs => simp [combine, concatParts]

omit [DecidableEq L] in
theorem maskSelect_count_zero {β : Type} (l : List β) (s : List Bool) (h : s.count true = 0) : maskSelect l s = [] := by
  apply maskSelect_all_false
  intro b hb
  cases b with
  | false => rfl
  | true => exact absurd (List.count_pos_iff.mpr hb) (by omega)

omit [DecidableEq L] in
/-- members without a selected line contribute nothing -/
theorem flatMap_filter_active {γ : Type} (Z : List ((L × MFrame L L α) × List Bool))
    (g : (L × MFrame L L α) × List Bool → List γ) (hg : ∀ x, x.2.count true = 0 → g x = []) :
    (Z.filter (fun x => x.2.count true ≠ 0)).flatMap g = Z.flatMap g := by
  induction Z with
  | nil => simp
  | cons x xs ih =>
    rw [List.filter_cons]
    by_cases hx : x.2.count true = 0
    · have hd : decide (x.2.count true ≠ 0) = false := by simp [hx]
      rw [hd]
      simp only [Bool.false_eq_true, if_false, List.flatMap_cons, hg x hx, ih, List.nil_append]
    · have hd : decide (x.2.count true ≠ 0) = true := by simp [hx]
      rw [hd]
      simp only [if_true, List.flatMap_cons, ih]

end SF.Quilt
