/-
  Bridge lemmas: the definitions regenerated from the Python source (`SF.Gen.*`) equal the
  hand-written reference definitions the property theorems are about.  Re-checked by the kernel on
  every run against what the source says *now*.
-/
import SFModel.Slice
import SFModel.Gen.Slice

namespace SF.Bridge
open SF

theorem inclusive_bridge (key : PySlice) (offset : Int) :
    Gen.slice_to_inclusive_slice key offset = some (sliceToInclusive key offset) := by
  obtain ⟨a, b, c⟩ := key
  cases a <;> cases b <;> cases c <;> simp [Gen.slice_to_inclusive_slice, sliceToInclusive]

theorem ascending_bridge (key : PySlice) (size : Int) (h : key.step ≠ some 0) :
    Gen.slice_to_ascending_slice key size = some (sliceToAscending key size) := by
  obtain ⟨a, b, c⟩ := key
  cases c with
  | none => simp [Gen.slice_to_ascending_slice, sliceToAscending]
  | some st =>
    have hst : st ≠ 0 := by simpa using h
    have hna : ((st.natAbs : Nat) : Int) ≠ 0 := by omega
    cases a <;> cases b <;>
      simp [Gen.slice_to_ascending_slice, sliceToAscending] <;>
      split <;> simp_all <;> split <;> simp_all

/-- `slice(…, …, 0)` makes the Python function raise ZeroDivisionError (when the step-0 branch is
    reached, i.e. always for step 0): the generated function returns `none`. -/
theorem ascending_bridge_zero (a b : Option Int) (size : Int) :
    Gen.slice_to_ascending_slice ⟨a, b, some 0⟩ size = none := by
  cases a <;> cases b <;> simp [Gen.slice_to_ascending_slice]

theorem cols_bridge (l : List Int) : Gen._cols_to_slice l = colsToSlice l := by
  match l with
  | [] => simp [Gen._cols_to_slice, colsToSlice]
  | [a] => simp [Gen._cols_to_slice, colsToSlice]
  | a :: b :: rest =>
    have hl : (a :: b :: rest).getLast? = some ((b :: rest).getLast (by simp)) := by
      simp [List.getLast?_eq_some_getLast, List.getLast_cons]
    have hlen : ¬ (((a :: b :: rest).length : Nat) : Int) = 1 := by
      simp only [List.length_cons]; omega
    simp only [Gen._cols_to_slice, colsToSlice, List.head?_cons, hl, if_neg hlen]
    try (split <;> simp_all)

end SF.Bridge
