/-
  Bridge lemmas: the definitions regenerated from the Python source (`SF.Gen.*`) equal the
  hand-written reference definitions the property theorems are about.  Re-checked by the kernel on
  every run against what the source says *now*.
-/
import SFModel.Slice
import SFModel.Gen.Slice

namespace SF.Bridge
open SF

theorem inclusive_bridge (key : PySlice) (offset : Int) :
    Gen.slice_to_inclusive_slice key offset = some (sliceToInclusive key offset) := by
  obtain ⟨a, b, c⟩ := key
  cases a <;> cases b <;> cases c <;>
    simp [Gen.slice_to_inclusive_slice, sliceToInclusive, inclusiveStop] <;>
    (split <;> try split) <;> simp_all

theorem ascending_bridge (key : PySlice) (size : Int) :
    Gen.slice_to_ascending_slice key size = sliceToAscending key size := by
  obtain ⟨a, b, c⟩ := key
  cases c with
  | none => simp [Gen.slice_to_ascending_slice, sliceToAscending]
  | some st =>
    by_cases hpos : st > 0
    · simp [Gen.slice_to_ascending_slice, sliceToAscending, hpos]
    · by_cases h1 : st = -1
      · subst h1
        cases a <;> cases b <;>
          simp [Gen.slice_to_ascending_slice, sliceToAscending, normStart, normStop] <;>
          (repeat' split) <;> (try simp_all) <;> (try subst_vars) <;> (try simp_all) <;> (try (repeat' split)) <;> (try subst_vars) <;> (try simp_all) <;> (try omega)
      · by_cases h0 : st = 0
        · subst h0
          cases a <;> cases b <;>
            simp [Gen.slice_to_ascending_slice, sliceToAscending, normStart, normStop] <;>
            (repeat' split) <;> (try simp_all) <;> (try subst_vars) <;> (try simp_all) <;> (try (repeat' split)) <;> (try subst_vars) <;> (try simp_all) <;> (try omega)
        · have hna : ((st.natAbs : Nat) : Int) ≠ 0 := by omega
          cases a <;> cases b <;>
            simp [Gen.slice_to_ascending_slice, sliceToAscending, normStart, normStop, hpos, h1, h0, hna] <;>
            (repeat' split) <;> (try simp_all) <;> (try subst_vars) <;> (try simp_all) <;> (try (repeat' split)) <;> (try subst_vars) <;> (try simp_all) <;> (try omega)

theorem cols_bridge (l : List Int) : Gen._cols_to_slice l = colsToSlice l := by
  match l with
  | [] => simp [Gen._cols_to_slice, colsToSlice]
  | [a] => simp [Gen._cols_to_slice, colsToSlice]
  | a :: b :: rest =>
    have hl : (a :: b :: rest).getLast? = some ((b :: rest).getLast (by simp)) := by
      simp [List.getLast?_eq_some_getLast, List.getLast_cons]
    have hlen : ¬ (((a :: b :: rest).length : Nat) : Int) = 1 := by
      simp only [List.length_cons]; omega
    simp only [Gen._cols_to_slice, colsToSlice, List.head?_cons, hl, if_neg hlen]
    try (split <;> simp_all)

end SF.Bridge
