/-
  Bridge lemmas: the definitions regenerated from the Python source (`SF.Gen.*`) equal the
  hand-written reference definitions the property theorems are about.  Re-checked by the kernel on
  every run against what the source says *now*.
-/
import SFModel.Slice
import SFModel.Blocks
import SFModel.Gen.Slice

namespace SF.Bridge
open SF SF.TB

theorem inclusive_bridge (key : PySlice) (offset : Int) :
    Gen.slice_to_inclusive_slice key offset = some (sliceToInclusive key offset) := by
  obtain ⟨a, b, c⟩ := key
  cases a <;> cases b <;> cases c <;>
    simp [Gen.slice_to_inclusive_slice, sliceToInclusive, inclusiveStop] <;>
    (split <;> try split) <;> simp_all

theorem ascending_bridge (key : PySlice) (size : Int) :
    Gen.slice_to_ascending_slice key size = sliceToAscending key size := by
  obtain ⟨a, b, c⟩ := key
  cases c with
  | none => simp [Gen.slice_to_ascending_slice, sliceToAscending]
  | some st =>
    by_cases hpos : st > 0
    · simp [Gen.slice_to_ascending_slice, sliceToAscending, hpos]
    · by_cases h1 : st = -1
      · subst h1
        cases a <;> cases b <;>
          simp [Gen.slice_to_ascending_slice, sliceToAscending, normStart, normStop] <;>
          (repeat' split) <;> (try simp_all) <;> (try subst_vars) <;> (try simp_all) <;> (try (repeat' split)) <;> (try subst_vars) <;> (try simp_all) <;> (try omega)
      · by_cases h0 : st = 0
        · subst h0
          cases a <;> cases b <;>
            simp [Gen.slice_to_ascending_slice, sliceToAscending, normStart, normStop] <;>
            (repeat' split) <;> (try simp_all) <;> (try subst_vars) <;> (try simp_all) <;> (try (repeat' split)) <;> (try subst_vars) <;> (try simp_all) <;> (try omega)
        · have hna : ((st.natAbs : Nat) : Int) ≠ 0 := by omega
          cases a <;> cases b <;>
            simp [Gen.slice_to_ascending_slice, sliceToAscending, normStart, normStop, hpos, h1, h0, hna] <;>
            (repeat' split) <;> (try simp_all) <;> (try subst_vars) <;> (try simp_all) <;> (try (repeat' split)) <;> (try subst_vars) <;> (try simp_all) <;> (try omega)

theorem cols_bridge (l : List Int) : Gen._cols_to_slice l = colsToSlice l := by
  match l with
  | [] => simp [Gen._cols_to_slice, colsToSlice]
  | [a] => simp [Gen._cols_to_slice, colsToSlice]
  | a :: b :: rest =>
    have hl : (a :: b :: rest).getLast? = some ((b :: rest).getLast (by simp)) := by
      simp [List.getLast?_eq_some_getLast, List.getLast_cons]
    have hlen : ¬ (((a :: b :: rest).length : Nat) : Int) = 1 := by
      simp only [List.length_cons]; omega
    simp only [Gen._cols_to_slice, colsToSlice, List.head?_cons, hl, if_neg hlen]
    try (split <;> simp_all)

/-! ### `TypeBlocks._indices_to_contiguous_pairs` (a generator: loop with state `(last, bundle)`)

  The translated loop carries the list of values yielded so far (`out`) and `bundle` as
  `Option (List Int)` (`none` = not yet bound); the reference `contiguousPairsInt` (Slice.lean) is the
  same loop without either.  `contiguous_bridge` states the result for the block model's reference
  `TB.contiguousPairs` (Blocks.lean; naturals, slices wrapped as `BSel.sl`). -/

theorem contiguous_loop_some (l : List (Int × Int)) :
    ∀ (lb lc : Int) (bundle : List Int) (out : List (Int × PySlice)),
      Gen.indices_to_contiguous_pairs_loop l (some (lb, lc)) (some bundle) out
        = (contiguousPairsInt l (some (lb, lc)) bundle).map (out ++ ·) := by
  induction l with
  | nil =>
    intro lb lc bundle out
    simp only [Gen.indices_to_contiguous_pairs_loop, contiguousPairsInt, cols_bridge]
    by_cases h : bundle.isEmpty
    · simp [h]
    · simp only [h]
      cases colsToSlice bundle <;> simp
  | cons p rest ih =>
    obtain ⟨b, c⟩ := p
    intro lb lc bundle out
    simp only [Gen.indices_to_contiguous_pairs_loop, contiguousPairsInt, cols_bridge, ih]
    by_cases h1 : lb = b
    · by_cases h2 : (c - lc).natAbs = 1
      · have h2' : ((c - lc).natAbs : Int) = 1 := by omega
        simp [h1, h2]
      · have h2' : ¬ ((c - lc).natAbs : Int) = 1 := by omega
        simp only [h1, h2, h2', and_false, if_false, if_true]
        cases colsToSlice bundle <;> cases contiguousPairsInt rest (some (b, c)) [c] <;> simp
    · simp only [h1, false_and, if_false]
      cases colsToSlice bundle <;> cases contiguousPairsInt rest (some (b, c)) [c] <;> simp

theorem contiguous_loop_none (l : List (Int × Int)) (bundle? : Option (List Int)) (bundle : List Int)
    (out : List (Int × PySlice)) :
    Gen.indices_to_contiguous_pairs_loop l none bundle? out
      = (contiguousPairsInt l none bundle).map (out ++ ·) := by
  match l with
  | [] => simp [Gen.indices_to_contiguous_pairs_loop, contiguousPairsInt]
  | (b, c) :: rest =>
    simp only [Gen.indices_to_contiguous_pairs_loop, contiguousPairsInt, contiguous_loop_some]

/-- the translated `_indices_to_contiguous_pairs` is the reference loop from the initial state -/
theorem contiguous_ref_bridge (l : List (Int × Int)) :
    Gen.indices_to_contiguous_pairs l = contiguousPairsInt l none [] := by
  rw [Gen.indices_to_contiguous_pairs, contiguous_loop_none l none []]
  cases contiguousPairsInt l none [] <;> simp

/-- Python ints of a `(block, column)` pair of the block model -/
def pairToInt (p : Nat × Nat) : Int × Int := ((p.1 : Int), (p.2 : Int))
/-- a yielded `(block, slice)` pair as the block model holds it -/
def pairToBlock (q : Int × PySlice) : Nat × BSel := (q.1.toNat, .sl q.2)

theorem contiguousPairsInt_cast (l : List (Nat × Nat)) :
    ∀ (last : Option (Nat × Nat)) (bundle : List Nat),
      (contiguousPairsInt (l.map pairToInt) (last.map pairToInt) (bundle.map Int.ofNat)).map (·.map pairToBlock)
        = contiguousPairs l last bundle := by
  induction l with
  | nil =>
    intro last bundle
    match last with
    | none => simp [contiguousPairsInt, contiguousPairs]
    | some (lb, lc) =>
      simp only [List.map_nil, Option.map_some, pairToInt, contiguousPairsInt, contiguousPairs, List.isEmpty_map]
      by_cases h : bundle.isEmpty
      · simp [h]
      · simp only [h]
        cases colsToSlice (bundle.map Int.ofNat) <;> simp [pairToBlock]
  | cons p rest ih =>
    obtain ⟨b, c⟩ := p
    intro last bundle
    match last with
    | none =>
      have := ih (some (b, c)) [c]
      simpa [contiguousPairsInt, contiguousPairs, pairToInt] using this
    | some (lb, lc) =>
      have ih1 := ih (some (b, c)) (bundle ++ [c])
      have ih2 := ih (some (b, c)) [c]
      simp only [List.map_cons, Option.map_some, pairToInt, contiguousPairsInt, contiguousPairs] at ih1 ih2 ⊢
      by_cases h : lb = b ∧ (c = lc + 1 ∨ lc = c + 1)
      · have h' : (lb : Int) = (b : Int) ∧ ((c : Int) - (lc : Int)).natAbs = 1 := by omega
        rw [if_pos h, if_pos h', ← ih1]
        simp
      · have h' : ¬ ((lb : Int) = (b : Int) ∧ ((c : Int) - (lc : Int)).natAbs = 1) := by omega
        rw [if_neg h, if_neg h', ← ih2]
        simp only [List.map_nil, Int.ofNat_eq_natCast]
        generalize contiguousPairsInt (rest.map pairToInt) (some ((b : Int), (c : Int))) [(c : Int)] = q
        cases colsToSlice (bundle.map Int.ofNat) <;> cases q <;> simp [pairToBlock]

/-- the translated `_indices_to_contiguous_pairs`, on the `(block, column)` pairs of the block model,
    is the reference `contiguousPairs` the theorems about `TB` (C03, C08) use -/
theorem contiguous_bridge (l : List (Nat × Nat)) :
    (Gen.indices_to_contiguous_pairs (l.map pairToInt)).map (·.map pairToBlock) = contiguousPairs l none [] := by
  rw [contiguous_ref_bridge]
  exact contiguousPairsInt_cast l none []

end SF.Bridge
