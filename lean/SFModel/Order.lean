/-
  SFModel.Order — stable argsort / lexsort and the sort methods built on them.

  Mirrors:
    * NumPy `np.argsort(v, kind='mergesort')` (stable indirect sort; `util.DEFAULT_SORT_KIND`)
      and `np.lexsort(keys)` (successive stable indirect sorts, FIRST key first, so the LAST key
      is the primary one) — the NumPy kernels are a parameter of the model, compared on every run;
    * static_frame/core/container_util.py `sort_index_for_order` (key-function validation,
      depth > 1 → lexsort over `values_at_depth(depth-1 .. 0)`, `order[::-1]` for descending);
    * `Frame.sort_index / sort_columns / sort_values`, `Series.sort_index / sort_values`,
      `Index.sort`, `IndexHierarchy.sort` (frame.py, series.py, index.py, index_hierarchy.py):
      all of them compute `order` and then take labels and data at `order`.

  Core Lean only (the driver imports this file).
-/
import SFModel.Basic

namespace SF.Order

variable {α : Type}

/-! ### the NumPy parameter: stable indirect sort -/

/-- Comparison of `keys[i]?` values: a position outside the key array sorts first.  Never reached
    for validated input (the code checks lengths before sorting); keeps the model total without a
    default *value*. -/
def optLe (le : α → α → Bool) : Option α → Option α → Bool
  | none, _ => true
  | some _, none => false
  | some a, some b => le a b

/-- Stable indirect sort: reorder the positions `order` by `key` (what one pass of NumPy's
    mergesort-kind `argsort` does to an index vector). -/
def sortOn {β : Type} (le : β → β → Bool) (key : Nat → β) (order : List Nat) : List Nat :=
  order.mergeSort (fun i j => le (key i) (key j))

/-- `np.argsort(keys, kind='mergesort')`. -/
def argsortStable (le : α → α → Bool) (keys : List α) : List Nat :=
  sortOn (optLe le) (fun i => keys[i]?) (List.range keys.length)

/-- `np.lexsort(keys)` on arrays of length `n`: one stable pass per key, first key first;
    the last key therefore is the primary sort key. -/
def lexsort (le : α → α → Bool) (keys : List (List α)) (n : Nat) : List Nat :=
  keys.foldl (fun order k => sortOn (optLe le) (fun i => k[i]?) order) (List.range n)

/-! ### what is sorted -/

/-- The "container for sort" after the key function (if any) has run:
    one key vector, or the columns of a 2-D array / the depths of an IndexHierarchy
    (`cols[d]` = values at depth `d`).
    A 2-D array of exactly ONE column has `cfs_depth = shape[1] = 1`: `sort_index_for_order` takes
    the depth-1 branch and (since the repair `if v.ndim == 2: v = v[:, 0]`) argsorts that column,
    as `Frame.sort_values` always did; it is `.multi [c]` here and `orderOf` gives it the order of
    `.single c` (`SF.C12.one_column_key`). -/
inductive SortKeys (α : Type)
  | single (v : List α)
  | multi (cols : List (List α))
deriving Repr

/-- the key columns, primary first -/
def SortKeys.cols : SortKeys α → List (List α)
  | .single v => [v]
  | .multi cols => cols

/-- The positions in sorted order for a container of `n` entries.
    * key container of the wrong length → RuntimeError (`Err.shape`);
    * no key array at all (`np.lexsort([])`) → TypeError (`Err.value`);
    * depth > 1 → `np.lexsort([values_at_depth(d-1), …, values_at_depth(0)])`;
    * otherwise `np.argsort(v, kind)`. -/
def orderOf (le : α → α → Bool) (n : Nat) : SortKeys α → Except Err (List Nat)
  | .single v => if v.length ≠ n then .error .shape else .ok (argsortStable le v)
  | .multi [] => .error .value
  | .multi cols =>
    if cols.any (fun c => c.length ≠ n) then .error .shape
    else .ok (lexsort le cols.reverse n)

/-- `container_util.sort_index_for_order`: `order`, reversed as a whole when not ascending. -/
def sortIndexForOrder (le : α → α → Bool) (n : Nat) (cfs : SortKeys α) (ascending : Bool) :
    Except Err (List Nat) :=
  match orderOf le n cfs with
  | .error e => .error e
  | .ok order => .ok (if ascending then order else order.reverse)

/-! ### containers -/

/-- Labels are tuples of depth values (depth 1: a one-element list). -/
abbrev Label (α : Type) := List α

/-- A Frame reduced to what sorting touches: name, both label axes, per-column dtype, rows. -/
structure Frame (α : Type) where
  name : α
  index : List (Label α)
  columns : List (Label α)
  dtypes : List α
  rows : List (List α)
deriving Repr

/-- `values_at_depth(d)` of a label list. -/
def valuesAtDepth (labels : List (Label α)) (d : Nat) : List α := labels.filterMap (fun l => l[d]?)

/-- depth of an axis = length of its first label (an empty axis has depth 1). -/
def depthOf (labels : List (Label α)) : Nat :=
  match labels with
  | [] => 1
  | l :: _ => l.length

/-- The container for sort when no key function is given: the index itself. -/
def labelKeys (labels : List (Label α)) : SortKeys α :=
  if depthOf labels > 1 then .multi ((List.range (depthOf labels)).map (valuesAtDepth labels))
  else .single (valuesAtDepth labels 0)

/-- `self._index[order]`, `self._blocks.iloc[order]`. -/
def Frame.takeRows (f : Frame α) (order : List Nat) : Frame α :=
  { f with index := pick f.index order, rows := pick f.rows order }

/-- `self._columns[order]`, `self._blocks[order]`. -/
def Frame.takeCols (f : Frame α) (order : List Nat) : Frame α :=
  { f with columns := pick f.columns order, dtypes := pick f.dtypes order,
           rows := f.rows.map (fun r => pick r order) }

/-- `Frame.sort_index(ascending, key)`; `key` is the container the key function returned. -/
def Frame.sortIndex (le : α → α → Bool) (f : Frame α) (ascending : Bool)
    (key : Option (SortKeys α)) : Except Err (Frame α) :=
  match sortIndexForOrder le f.index.length (key.getD (labelKeys f.index)) ascending with
  | .error e => .error e
  | .ok order => .ok (f.takeRows order)

/-- `Frame.sort_columns(ascending, key)`. -/
def Frame.sortColumns (le : α → α → Bool) (f : Frame α) (ascending : Bool)
    (key : Option (SortKeys α)) : Except Err (Frame α) :=
  match sortIndexForOrder le f.columns.length (key.getD (labelKeys f.columns)) ascending with
  | .error e => .error e
  | .ok order => .ok (f.takeCols order)

/-- column `j` of the rows -/
def Frame.column (f : Frame α) (j : Nat) : List α := f.rows.filterMap (fun r => r[j]?)

/-- The sort keys `Frame.sort_values(label, axis)` derives from the selected columns (axis 1) or
    rows (axis 0): one selected line → `argsort`, several → `lexsort` over them in reverse. -/
def linesToKeys (lines : List (List α)) : SortKeys α :=
  match lines with
  | [v] => .single v
  | ls => .multi ls

/-- `Frame.sort_values(label, axis=1)`: order the rows by the columns at positions `sel`
    (`key` = what the key function returned, validated against the number of rows). -/
def Frame.sortValuesRows (le : α → α → Bool) (f : Frame α) (sel : List Nat) (ascending : Bool)
    (key : Option (SortKeys α)) : Except Err (Frame α) :=
  match sortIndexForOrder le f.index.length (key.getD (linesToKeys (sel.map f.column))) ascending with
  | .error e => .error e
  | .ok order => .ok (f.takeRows order)

/-- `Frame.sort_values(label, axis=0)`: order the columns by the rows at positions `sel`. -/
def Frame.sortValuesCols (le : α → α → Bool) (f : Frame α) (sel : List Nat) (ascending : Bool)
    (key : Option (SortKeys α)) : Except Err (Frame α) :=
  match sortIndexForOrder le f.columns.length (key.getD (linesToKeys (pick f.rows sel))) ascending with
  | .error e => .error e
  | .ok order => .ok (f.takeCols order)

/-- A Series: name, labels, values. -/
structure Series (α : Type) where
  name : α
  index : List (Label α)
  values : List α
deriving Repr

def Series.take (s : Series α) (order : List Nat) : Series α :=
  { s with index := pick s.index order, values := pick s.values order }

/-- `Series.sort_index`. -/
def Series.sortIndex (le : α → α → Bool) (s : Series α) (ascending : Bool)
    (key : Option (SortKeys α)) : Except Err (Series α) :=
  match sortIndexForOrder le s.index.length (key.getD (labelKeys s.index)) ascending with
  | .error e => .error e
  | .ok order => .ok (s.take order)

/-- `Series.sort_values`: always `np.argsort` of one vector (the values or the key function's
    result); the code does not validate the length of the key function's result here. -/
def Series.sortValues (le : α → α → Bool) (s : Series α) (ascending : Bool)
    (key : Option (List α)) : Series α :=
  let order := argsortStable le (key.getD s.values)
  s.take (if ascending then order else order.reverse)

/-- `Index.sort` / `IndexHierarchy.sort`: the labels at `order`. -/
def indexSort (le : α → α → Bool) (labels : List (Label α)) (ascending : Bool)
    (key : Option (SortKeys α)) : Except Err (List (Label α)) :=
  match sortIndexForOrder le labels.length (key.getD (labelKeys labels)) ascending with
  | .error e => .error e
  | .ok order => .ok (pick labels order)

end SF.Order
