/- Helper lemmas about the incrementally maintained caches of a growing TypeBlocks (Blocks.lean, last section). -/
import SFModel.BlocksLemmas

namespace SF
open TB
variable {α : Type}

namespace TB

theorem indexFrom_append (bi : Nat) (bs : List (Block α)) (b : Block α) :
    indexFrom bi (bs ++ [b]) = indexFrom bi bs ++ (List.range b.width).map (fun c => (bi + bs.length, c)) := by
  induction bs generalizing bi with
  | nil => simp [indexFrom]
  | cons x xs ih =>
    simp only [List.cons_append, indexFrom, ih, List.length_cons, List.append_assoc]
    have : bi + 1 + xs.length = bi + (xs.length + 1) := by omega
    rw [this]

theorem fromBlocks_blocks (bs : List (Block α)) (ref : Option Nat) (tb : TB α)
    (h : TB.fromBlocks bs ref = .ok tb) : tb.blocks = bs.filter (fun b => 0 < b.width) := by
  unfold fromBlocks at h
  split at h
  · cases h
  · rename_i r acc hgo
    simp only [Except.ok.injEq] at h
    subst h
    simpa using (fromBlocks_go_spec _ _ _ _ _ hgo).1
  · rename_i acc hgo
    have h1 := (fromBlocks_go_spec _ _ _ _ _ hgo).1
    split at h
    · simp only [Except.ok.injEq] at h
      subst h
      simpa using h1
    · cases h

end TB

namespace Caches

/-- the `from_blocks` loop, in closed form -/
theorem ofBlocksGo_eq (bs : List (Block α)) (k : Nat) (c : Caches) :
    ofBlocksGo bs k c =
      { shape := (c.shape.1, c.shape.2 + ((bs.filter (fun b => 0 < b.width)).map Block.width).sum)
        index := c.index ++ indexFrom k (bs.filter (fun b => 0 < b.width))
        dtypes := c.dtypes ++ (bs.filter (fun b => 0 < b.width)).flatMap (fun b => List.replicate b.width b.dt)
        rowDtype := c.rowDtype } := by
  induction bs generalizing k c with
  | nil => simp [ofBlocksGo, indexFrom]
  | cons b rest ih =>
    by_cases hw : b.width = 0
    · have : ¬ (0 < b.width) := by omega
      simp [ofBlocksGo, hw, ih]
    · have hp : 0 < b.width := by omega
      simp only [ofBlocksGo, hw, if_false, ih, List.filter_cons, hp, decide_true, if_true, push,
        List.map_cons, List.sum_cons, indexFrom, List.flatMap_cons, List.append_assoc, Nat.add_assoc]

/-- the row dtype `append` keeps, in closed form (started from a value) -/
theorem foldl_appendRowDtype_some (ds : List DT) (r : DT) :
    ds.foldl appendRowDtype (some r) = some (if ∀ d ∈ ds, d = r then r else objectDT) := by
  induction ds generalizing r with
  | nil => simp
  | cons d ds ih =>
    simp only [List.foldl_cons, appendRowDtype]
    by_cases hd : d = r
    · subst hd
      simp [ih]
    · simp only [ne_eq, hd, not_false_eq_true, if_true, ih]
      have : ¬ (∀ x ∈ d :: ds, x = r) := fun h => hd (h d (by simp))
      simp only [this, if_false]
      split <;> rfl

/-- the row dtype `append` keeps, in closed form (started from `None`) -/
theorem foldl_appendRowDtype_none (d : DT) (ds : List DT) :
    (d :: ds).foldl appendRowDtype none = some (if ∀ x ∈ ds, x = d then d else objectDT) := by
  simp [List.foldl_cons, appendRowDtype, foldl_appendRowDtype_some]

/-- `resolve_dtype_iter` under a resolution that never coerces (same → itself, different → object)
    is the rule of `append` -/
theorem resolveIter_preserving (resolve : DT → DT → DT) (hs : ∀ a, resolve a a = a)
    (hd : ∀ a b, a ≠ b → resolve a b = objectDT) (r : DT) (ds : List DT) :
    resolveIter resolve r ds = if ∀ d ∈ ds, d = r then r else objectDT := by
  induction ds generalizing r with
  | nil => simp [resolveIter]
  | cons d ds ih =>
    simp only [resolveIter]
    by_cases hdr : d = r
    · subst hdr
      rw [hs]
      by_cases ho : d = objectDT
      · subst ho; simp
      · simp [ho, ih]
    · have hne : r ≠ d := fun h => hdr h.symm
      rw [hd r d hne]
      have : ¬ (∀ x ∈ d :: ds, x = r) := fun h => hdr (h d (by simp))
      rw [if_neg this]
      simp

end Caches

namespace Grown

/-- `g'` is `g` with stored blocks `added` on the right and the row dtype `append` keeps -/
def Ext (g g' : Grown α) : Prop :=
  g'.tb.rows = g.tb.rows ∧
  ∃ added : List (Block α), g'.tb.blocks = g.tb.blocks ++ added ∧
    (∀ b ∈ added, 0 < b.width ∧ b.RowsOk g.tb.rows) ∧
    g'.caches.rowDtype = (added.map Block.dt).foldl Caches.appendRowDtype g.caches.rowDtype

theorem Ext.refl (g : Grown α) : Ext g g := ⟨rfl, [], by simp, by simp, by simp⟩

theorem Ext.trans {a b c : Grown α} (h1 : Ext a b) (h2 : Ext b c) : Ext a c := by
  obtain ⟨r1, ad1, hb1, hw1, hd1⟩ := h1
  obtain ⟨r2, ad2, hb2, hw2, hd2⟩ := h2
  refine ⟨r2.trans r1, ad1 ++ ad2, by rw [hb2, hb1, List.append_assoc], ?_, ?_⟩
  · intro x hx
    rcases List.mem_append.mp hx with hx | hx
    · exact hw1 x hx
    · have := hw2 x hx; rw [r1] at this; exact this
  · rw [hd2, hd1, List.map_append, List.foldl_append]

/-- the stored form of a pushed block keeps the caches coherent -/
theorem push_coherent (g : Grown α) (b : Block α) (rd : Option DT) (hc : g.Coherent) :
    (⟨{ g.tb with blocks := g.tb.blocks ++ [b] },
      { g.caches.push g.tb.blocks.length b with rowDtype := rd }⟩ : Grown α).Coherent := by
  obtain ⟨h1, h2, h3⟩ := hc
  refine ⟨?_, ?_, ?_⟩
  · simp [Caches.push, h1, ncols]
  · simp [Caches.push, h2, index, indexFrom_append]
  · simp [Caches.push, h3, dtypes]

theorem append_inv (g g' : Grown α) (b : Block α) (hc : g.Coherent) (h : g.append b = .ok g') :
    g'.Coherent ∧ g.tb.append b = .ok g'.tb ∧
    g'.tb.blocks = g.tb.blocks ++ (if b.width = 0 then [] else [b]) ∧
    (0 < b.width → b.RowsOk g.tb.rows) ∧
    g'.caches.rowDtype = if b.width = 0 then g.caches.rowDtype else Caches.appendRowDtype g.caches.rowDtype b.dt := by
  have hrows : g.caches.shape.1 = g.tb.rows := by rw [hc.1]
  unfold append at h
  split at h
  · cases h
  · rename_i c hca
    simp only [Except.ok.injEq] at h
    subst h
    unfold Caches.append at hca
    match b, hca with
    | .d1 t col, hca =>
      simp only [hrows] at hca
      split at hca
      · cases hca
      · rename_i hlen
        simp only [Except.ok.injEq] at hca
        subst hca
        have hlen' : col.length = g.tb.rows := by simpa using hlen
        refine ⟨?_, ?_, ?_, ?_, ?_⟩
        · simpa [Block.width] using push_coherent g (.d1 t col) _ hc
        · simp [TB.append, hlen', Block.width]
        · simp [Block.width]
        · intro _ y hy
          simp only [Block.colsOf, List.mem_singleton] at hy
          subst hy; exact hlen'
        · simp [Block.width, Block.dt]
    | .d2 t [], hca =>
      simp only [Except.ok.injEq] at hca
      subst hca
      refine ⟨?_, ?_, ?_, ?_, ?_⟩
      · simpa [Block.width, Coherent] using hc
      · simp [TB.append, Block.width]
      · simp [Block.width]
      · intro hw; simp [Block.width] at hw
      · simp [Block.width]
    | .d2 t (col :: cs), hca =>
      simp only [hrows] at hca
      split at hca
      · cases hca
      · rename_i hcond
        simp only [Except.ok.injEq] at hca
        subst hca
        have hcond' : col.length = g.tb.rows ∧ ∀ x ∈ cs, x.length = col.length := by
          simpa [not_or] using hcond
        refine ⟨?_, ?_, ?_, ?_, ?_⟩
        · simpa [Block.width] using push_coherent g (.d2 t (col :: cs)) _ hc
        · simp only [TB.append]
          rw [if_neg hcond]
          simp [Block.width]
        · simp [Block.width]
        · intro _ y hy
          simp only [Block.colsOf, List.mem_cons] at hy
          rcases hy with rfl | hy
          · exact hcond'.1
          · rw [hcond'.2 y hy]; exact hcond'.1
        · simp [Block.width, Block.dt]

theorem append_ext (g g' : Grown α) (b : Block α) (hc : g.Coherent) (h : g.append b = .ok g') :
    g'.Coherent ∧ Ext g g' := by
  obtain ⟨h1, h2, h3, h4, h5⟩ := append_inv g g' b hc h
  have hr : g'.tb.rows = g.tb.rows := by
    unfold append at h
    split at h
    · cases h
    · simp only [Except.ok.injEq] at h; subst h; rfl
  refine ⟨h1, hr, (if b.width = 0 then [] else [b]), h3, ?_, ?_⟩
  · intro x hx
    by_cases hw : b.width = 0
    · simp [hw] at hx
    · simp only [hw, if_false, List.mem_singleton] at hx
      subst hx
      exact ⟨by omega, h4 (by omega)⟩
  · rw [h5]
    by_cases hw : b.width = 0 <;> simp [hw]

theorem extendIter_ext (g : Grown α) (bs : List (Block α)) (hc : g.Coherent) :
    (g.extendIter bs).1.Coherent ∧ Ext g (g.extendIter bs).1 := by
  induction bs generalizing g with
  | nil => exact ⟨hc, Ext.refl g⟩
  | cons b rest ih =>
    simp only [extendIter]
    split
    · exact ⟨hc, Ext.refl g⟩
    · rename_i g' hg'
      obtain ⟨hc', he⟩ := append_ext g g' b hc hg'
      obtain ⟨hc'', he'⟩ := ih g' hc'
      exact ⟨hc'', he.trans he'⟩

theorem step_ext (g : Grown α) (op : CacheOp α) (hc : g.Coherent) :
    (g.step op).1.Coherent ∧ Ext g (g.step op).1 := by
  cases op with
  | append b =>
    simp only [step]
    split
    · exact ⟨hc, Ext.refl g⟩
    · rename_i g' hg'
      exact append_ext g g' b hc hg'
  | extendIter bs => exact extendIter_ext g bs hc
  | extend o =>
    simp only [step, extend]
    split
    · exact ⟨hc, Ext.refl g⟩
    · exact extendIter_ext g o.blocks hc

theorem run_ext (g : Grown α) (ops : List (CacheOp α)) (hc : g.Coherent) :
    (g.run ops).Coherent ∧ Ext g (g.run ops) := by
  induction ops generalizing g with
  | nil => exact ⟨hc, Ext.refl g⟩
  | cons op rest ih =>
    obtain ⟨hc', he⟩ := step_ext g op hc
    obtain ⟨hc'', he'⟩ := ih (g.step op).1 hc'
    exact ⟨hc'', he.trans he'⟩

theorem Ext.wf {g g' : Grown α} (h : Ext g g') (hw : g.tb.WF) : g'.tb.WF := by
  obtain ⟨hr, added, hb, ha, _⟩ := h
  refine ⟨?_, ?_⟩
  · intro b hbm
    rw [hb] at hbm
    rcases List.mem_append.mp hbm with hbm | hbm
    · exact hw.1 b hbm
    · exact (ha b hbm).1
  · intro b hbm
    rw [hb] at hbm
    rw [hr]
    rcases List.mem_append.mp hbm with hbm | hbm
    · exact hw.2 b hbm
    · exact (ha b hbm).2

theorem ofBlocks_inv (resolve : DT → DT → DT) (bs : List (Block α)) (ref : Option Nat) (g : Grown α)
    (h : Grown.ofBlocks resolve bs ref = .ok g) :
    g.Coherent ∧ g.tb.WF ∧ TB.fromBlocks bs ref = .ok g.tb ∧
    g.caches.rowDtype = Caches.initRowDtype resolve g.tb.blocks := by
  unfold Grown.ofBlocks at h
  split at h
  · cases h
  · rename_i tb htb
    simp only [Except.ok.injEq] at h
    subst h
    have hb := TB.fromBlocks_blocks bs ref tb htb
    refine ⟨⟨?_, ?_, ?_⟩, (TB.fromBlocks_spec bs ref tb htb).1, htb, ?_⟩
    · simp [Caches.ofBlocks, Caches.ofBlocksGo_eq, ncols, hb]
    · simp [Caches.ofBlocks, Caches.ofBlocksGo_eq, index, hb]
    · simp [Caches.ofBlocks, Caches.ofBlocksGo_eq, dtypes, hb]
    · simp [Caches.ofBlocks, hb]

end Grown
end SF
