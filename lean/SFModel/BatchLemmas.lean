/-
  Lemmas about the lazy Batch model: what the nested generators yield when run to their end.
-/
import SFModel.Quilt

namespace SF.Quilt
open SF

variable {L α : Type}

/-- one Frame through one operation, keeping its label -/
def stepOf (op : Item L α → Except Err (Item L α)) (p : L × Item L α) : Except Err (L × Item L α) :=
  match op p.2 with
  | .error e => .error e
  | .ok r => .ok (p.1, r)

/-- successful prefix and first exception of a list of results -/
def spanOk {β : Type} : List (Except Err β) → List β × Option Err
  | [] => ([], none)
  | .error e :: _ => ([], some e)
  | .ok x :: rest => (x :: (spanOk rest).1, (spanOk rest).2)

theorem mapM_eq_spanOk {γ β : Type} (f : γ → Except Err β) (l : List γ) :
    l.mapM f = itemsOf (spanOk (l.map f)) := by
  induction l with
  | nil => simp [spanOk, itemsOf, List.mapM_nil, pure, Except.pure]
  | cons x xs ih =>
    simp only [List.mapM_cons, List.map_cons, bind, Except.bind]
    cases hx : f x with
    | error e => simp [spanOk, itemsOf]
    | ok y =>
      simp only [spanOk]
      rw [ih]
      unfold itemsOf
      cases (spanOk (xs.map f)).2 <;> simp [pure, Except.pure]

theorem strictGo_acc (op : Item L α → Except Err (Item L α)) (xs acc : List (L × Item L α)) (up : Option Err) :
    strictGo op xs acc up = (acc ++ (strictGo op xs [] up).1, (strictGo op xs [] up).2) := by
  induction xs generalizing acc with
  | nil => simp [strictGo]
  | cons p rest ih =>
    obtain ⟨l, f⟩ := p
    simp only [strictGo]
    cases op f with
    | error e => simp
    | ok r =>
      simp only
      rw [ih (acc ++ [(l, r)]), ih ([] ++ [(l, r)])]
      simp

/-- the strict stage, run on a stream: successful prefix, then the first exception (of the operation,
    else the one that ended the upstream generator) -/
theorem strictGo_spanOk (op : Item L α → Except Err (Item L α)) (xs : List (L × Item L α)) (up : Option Err) :
    strictGo op xs [] up =
      ((spanOk (xs.map (stepOf op))).1,
        match (spanOk (xs.map (stepOf op))).2 with | some e => some e | none => up) := by
  induction xs with
  | nil => simp [strictGo, spanOk]
  | cons p rest ih =>
    obtain ⟨l, f⟩ := p
    simp only [strictGo, List.map_cons, stepOf]
    cases op f with
    | error e => simp [spanOk]
    | ok r =>
      simp only [spanOk]
      rw [strictGo_acc, ih]
      simp

theorem exceptGo_acc (op : Item L α → Except Err (Item L α)) (xs acc : List (L × Item L α)) (up : Option Err) :
    exceptGo op xs acc up = (acc ++ (exceptGo op xs [] up).1, (exceptGo op xs [] up).2) := by
  induction xs generalizing acc with
  | nil => simp [exceptGo]
  | cons p rest ih =>
    obtain ⟨l, f⟩ := p
    simp only [exceptGo]
    cases op f with
    | error e => exact ih acc
    | ok r =>
      simp only
      rw [ih (acc ++ [(l, r)]), ih ([] ++ [(l, r)])]
      simp

theorem exceptGo_filterMap (op : Item L α → Except Err (Item L α)) (xs : List (L × Item L α)) (up : Option Err) :
    exceptGo op xs [] up =
      (xs.filterMap (fun p => match op p.2 with | .ok r => some (p.1, r) | .error _ => none), up) := by
  induction xs with
  | nil => simp [exceptGo]
  | cons p rest ih =>
    obtain ⟨l, f⟩ := p
    simp only [exceptGo, List.filterMap_cons]
    cases op f with
    | error e => simpa using ih
    | ok r =>
      simp only
      rw [exceptGo_acc, ih]
      simp

theorem poolArgGen_eq (xs : List (L × Item L α)) (ls : List L) (as : List (Item L α)) :
    poolArgGen xs ls as = (ls ++ xs.map (·.1), as ++ xs.map (·.2)) := by
  induction xs generalizing ls as with
  | nil => simp [poolArgGen]
  | cons p rest ih =>
    obtain ⟨l, f⟩ := p
    simp [poolArgGen, ih]

theorem poolResults_acc (op : Item L α → Except Err (Item L α)) (as acc : List (Item L α)) :
    poolResults (L := L) op as acc = (acc ++ (poolResults (L := L) op as []).1, (poolResults (L := L) op as []).2) := by
  induction as generalizing acc with
  | nil => simp [poolResults]
  | cons f rest ih =>
    simp only [poolResults]
    cases op f with
    | error e => simp
    | ok r =>
      simp only
      rw [ih (acc ++ [r]), ih ([] ++ [r])]
      simp

/-- the pool stage yields exactly what the strict stage yields on a stream that did not fail:
    labels are paired with the results of their own Frames -/
theorem poolStage_eq_strict (op : Item L α → Except Err (Item L α)) (xs : List (L × Item L α)) :
    poolStage op (xs, none) = strictGo op xs [] none := by
  unfold poolStage
  simp only [poolArgGen_eq, List.nil_append]
  induction xs with
  | nil => simp [poolResults, strictGo]
  | cons p rest ih =>
    obtain ⟨l, f⟩ := p
    simp only [List.map_cons, poolResults, strictGo]
    cases op f with
    | error e => simp
    | ok r =>
      simp only
      rw [poolResults_acc, strictGo_acc]
      simp only [List.nil_append, List.singleton_append, List.zip_cons_cons]
      rw [← ih]

theorem derive_stream (b : Batch L α) (st : Stage L α) : (b.derive st).stream = runStage st b.stream := by
  unfold Batch.stream Batch.derive
  simp only [List.foldl_append, List.foldl_cons, List.foldl_nil]

theorem items_ok_stream {b : Batch L α} {xs : List (L × Item L α)} (hb : b.items = .ok xs) : b.stream = (xs, none) := by
  unfold Batch.items itemsOf at hb
  cases h : b.stream with
  | mk ys e =>
    rw [h] at hb
    cases e with
    | none => simp only [Except.ok.injEq] at hb; rw [hb]
    | some e => cases hb

/-! ### chains -/

/-- one Frame through a chain of operations -/
def pipe (ops : List (Item L α → Except Err (Item L α))) (f : Item L α) : Except Err (Item L α) :=
  ops.foldlM (fun x op => op x) f

def pipeStep (ops : List (Item L α → Except Err (Item L α))) (p : L × Item L α) : Except Err (L × Item L α) :=
  match pipe ops p.2 with
  | .error e => .error e
  | .ok r => .ok (p.1, r)

theorem pipe_snoc (ops : List (Item L α → Except Err (Item L α))) (op : Item L α → Except Err (Item L α)) (f : Item L α) :
    pipe (ops ++ [op]) f = (match pipe ops f with | .error e => .error e | .ok r => op r) := by
  unfold pipe
  rw [List.foldlM_append]
  simp only [bind, Except.bind, List.foldlM_cons, List.foldlM_nil, pure, Except.pure]
  cases List.foldlM (fun x op => op x) f ops with
  | error e => rfl
  | ok r =>
    simp only
    cases op r <;> rfl

/-- invariant of a chain of strict stages: the stream is the successful prefix of the per-Frame pipelines -/
theorem strict_stage_pipe (ops : List (Item L α → Except Err (Item L α))) (op : Item L α → Except Err (Item L α))
    (src : List (L × Item L α)) :
    runStage (.strict op) (spanOk (src.map (pipeStep ops))) = spanOk (src.map (pipeStep (ops ++ [op]))) := by
  simp only [runStage]
  induction src with
  | nil => simp [spanOk, strictGo]
  | cons p rest ih =>
    obtain ⟨l, f⟩ := p
    simp only [List.map_cons, pipeStep, pipe_snoc]
    cases hp : pipe ops f with
    | error e => simp [spanOk, strictGo]
    | ok r =>
      simp only [spanOk, strictGo]
      cases op r with
      | error e => simp [spanOk]
      | ok r' =>
        simp only [spanOk]
        rw [strictGo_acc, ih]
        simp

theorem chain_stream (ops0 ops : List (Item L α → Except Err (Item L α))) (src : List (L × Item L α)) :
    ops.foldl (fun s op => runStage (.strict op) s) (spanOk (src.map (pipeStep ops0)))
      = spanOk (src.map (pipeStep (ops0 ++ ops))) := by
  induction ops generalizing ops0 with
  | nil => simp
  | cons op rest ih =>
    simp only [List.foldl_cons]
    rw [strict_stage_pipe, ih (ops0 ++ [op])]
    simp

theorem spanOk_pipe_nil (src : List (L × Item L α)) : spanOk (src.map (pipeStep [])) = (src, none) := by
  induction src with
  | nil => simp [spanOk]
  | cons p rest ih =>
    simp only [List.map_cons, pipeStep, pipe, List.foldlM_nil, pure, Except.pure, spanOk, ih]

theorem chain_stages (b : Batch L α) (ops : List (Item L α → Except Err (Item L α))) :
    (b.chain ops).stages = b.stages ++ ops.map .strict ∧ (b.chain ops).src = b.src := by
  induction ops generalizing b with
  | nil => simp [Batch.chain]
  | cons op rest ih =>
    have := ih (b.apply op)
    simp only [Batch.chain, List.foldl_cons] at this ⊢
    simp only [Batch.apply, Batch.derive] at this ⊢
    constructor
    · rw [this.1]; simp
    · rw [this.2]

/-! ### to_frame -/

theorem toFrameGo_eq (items : List (L × Item L α)) (ls : List L) (cs : List (Item L α)) (d : Bool) :
    toFrameGo items ls cs d =
      (ls ++ items.map (·.1), cs ++ items.map (·.2), d && items.all (fun p => p.2.isSeries)) := by
  induction items generalizing ls cs d with
  | nil => simp [toFrameGo]
  | cons p rest ih =>
    obtain ⟨l, c⟩ := p
    simp [toFrameGo, ih, Bool.and_assoc]

variable [DecidableEq L]

theorem toFrameOf_frames (bus : Bus L α) (hne : bus ≠ []) (hopp : ∀ p ∈ bus, p.2.opp = (concatSpec true bus).opp) :
    toFrameOf (bus.map (fun p => (p.1, Item.frame p.2))) = .ok (concatSpec true bus) := by
  unfold toFrameOf
  rw [toFrameGo_eq]
  cases bus with
  | nil => exact absurd rfl hne
  | cons p rest =>
    simp only [List.nil_append, List.map_map, List.map_cons, Function.comp_def]
    have hall : (List.all (Item.frame p.2 :: rest.map (fun x => Item.frame x.2))
        fun c => decide (c.oppOf = (Item.frame p.2 : Item L α).oppOf)) = true := by
      rw [List.all_eq_true]
      intro c hc
      rcases List.mem_cons.mp hc with rfl | hc
      · simp
      · obtain ⟨x, hx, rfl⟩ := List.mem_map.mp hc
        have h1 := hopp x (by simp [hx])
        have h2 := hopp p (by simp)
        simp [Item.oppOf, h1, h2]
    have hany : (List.any (Item.frame p.2 :: rest.map (fun x => Item.frame x.2)) Item.isSeries) = false := by
      apply List.any_eq_false.mpr
      intro c hc
      rcases List.mem_cons.mp hc with rfl | hc
      · simp [Item.isSeries]
      · obtain ⟨x, _, rfl⟩ := List.mem_map.mp hc
        simp [Item.isSeries]
    simp only [hall, hany, Bool.not_true, Bool.false_eq_true, if_false, List.all_cons, Item.isSeries, Bool.false_and,
      Bool.and_false]
    have hz : ∀ (l : Bus L α), (l.map (fun x => x.1)).zip (l.map (fun x => Item.frame x.2))
        = l.map (fun x => (x.1, Item.frame (L := L) (α := α) x.2)) := by
      intro l
      induction l with
      | nil => simp
      | cons y ys ih => simp [ih]
    have hz' := hz (p :: rest)
    simp only [List.map_cons] at hz'
    rw [hz']
    have hrel : ∀ b : L, relabel true b = QLabel.pair b := by intro b; funext l; simp [relabel]
    simp [concatSpec, hrel, Item.oppOf, List.flatMap_map]

theorem toFrameOf_series (ss : List (L × List L × List α)) (ix : List L) (hix : ∀ p ∈ ss, p.2.1 = ix) (hne : ss ≠ []) :
    toFrameOf (ss.map (fun p => (p.1, Item.series p.2.1 p.2.2)))
      = .ok { labels := ss.map (fun p => QLabel.flat p.1), opp := ix, lines := ss.map (·.2.2) } := by
  unfold toFrameOf
  rw [toFrameGo_eq]
  cases ss with
  | nil => exact absurd rfl hne
  | cons p rest =>
    simp only [List.nil_append, List.map_map, List.map_cons, Function.comp_def]
    have hall : (List.all (Item.series p.2.1 p.2.2 :: rest.map (fun x => Item.series x.2.1 x.2.2))
        fun c => decide (c.oppOf = (Item.series p.2.1 p.2.2 : Item L α).oppOf)) = true := by
      rw [List.all_eq_true]
      intro c hc
      rcases List.mem_cons.mp hc with rfl | hc
      · simp
      · obtain ⟨x, hx, rfl⟩ := List.mem_map.mp hc
        have h1 := hix x (by simp [hx])
        have h2 := hix p (by simp)
        simp [Item.oppOf, h1, h2]
    have hd : (List.all (p :: rest) fun q => (Item.series q.2.1 q.2.2 : Item L α).isSeries) = true := by
      rw [List.all_eq_true]; intro q _; rfl
    simp only [hall, Bool.not_true, Bool.false_eq_true, if_false, Bool.true_and]
    simp only [List.all_cons, List.all_map, Function.comp_def, Item.isSeries, Bool.true_and] at hd ⊢
    simp [Item.oppOf, hix p (by simp)]

end SF.Quilt
