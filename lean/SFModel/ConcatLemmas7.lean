/- Helper lemmas for SFModel.Concat, part 7: Series.from_overlay and Frame.from_overlay. -/
import SFModel.ConcatLemmas6

namespace SF
namespace Concat
open SF.SetOps

section
variable {α β : Type} [DecidableEq α]

theorem mkIndex_ok (i : Idx α) (h : i.labels.Nodup) : mkIndex i.labels i.kind = .ok i := by
  simp [mkIndex, h]

theorem overlayTarget_spec {o : PyOrd α} (ho : o.Lawful) (union : Bool) (first : Idx α) (rest : List (Idx α))
    (arg : Option (Idx α)) (hnd : ∀ i ∈ first :: rest, i.labels.Nodup) (harg : ∀ i, arg = some i → i.labels.Nodup) :
    overlayTargetE o union (first :: rest) arg = .ok (overlayTarget o union (first :: rest) arg) ∧
      (overlayTarget o union (first :: rest) arg).labels.Nodup := by
  cases arg with
  | none =>
    exact ⟨rfl, (indexManySet_spec ho union first rest hnd).1⟩
  | some i =>
    exact ⟨mkIndex_ok i (harg i rfl), harg i rfl⟩

/-- `Series.from_overlay`: per label the first non-missing value in input order (the fill `na` standing
    in for a label the first container lacks), whatever the early exit does. -/
theorem seriesFromOverlay_spec {o : PyOrd α} (ho : o.Lawful) (isna : β → Bool) (na : β)
    (first : Series α β) (rest : List (Series α β)) (index : Option (Idx α)) (union : Bool)
    (hwf : ∀ s ∈ first :: rest, s.WF) (hidx : ∀ i, index = some i → i.labels.Nodup) :
    ∃ r, seriesFromOverlay o isna na (first :: rest) index union = .ok r ∧ r.WF ∧
      r.index = overlayTarget o union ((first :: rest).map fun (s : Series α β) => s.index) index ∧
      ∀ l ∈ r.index.labels,
        r.get? l = some (overlayCell isna ((first.get? l).getD na) (rest.map (·.get? l))) := by
  -- the target index
  have hnd : ∀ i ∈ first.index :: rest.map (fun (s : Series α β) => s.index), i.labels.Nodup := by
    intro i hi
    rcases List.mem_cons.mp hi with rfl | hi
    · exact (hwf first (by simp)).1
    · obtain ⟨s, hs, rfl⟩ := List.mem_map.mp hi
      exact (hwf s (by simp [hs])).1
  obtain ⟨hidxE, hidxnd⟩ := overlayTarget_spec ho union first.index (rest.map fun (s : Series α β) => s.index)
    index hnd hidx
  have hmapc : (first :: rest).map (fun (s : Series α β) => s.index) =
      first.index :: rest.map (fun (s : Series α β) => s.index) := rfl
  rw [hmapc]
  generalize overlayTarget o union (first.index :: rest.map fun (s : Series α β) => s.index) index = idx
    at hidxE hidxnd
  have hf := hwf first (by simp)
  -- the first container on the target index
  have hpost : ∃ post : Series α β,
      (if first.index.equals idx false then (.ok ⟨idx, first.values⟩ : Except Err (Series α β))
        else first.reindex o idx na true) = .ok post ∧ post.index = idx ∧ post.WF ∧
      ∀ l ∈ idx.labels, post.get? l = some ((first.get? l).getD na) := by
    split
    · rename_i heq
      have hl := (Idx.equals_iff.mp heq).1
      refine ⟨_, rfl, rfl, ⟨hidxnd, by rw [hf.2, hl]⟩, ?_⟩
      intro l hl'
      obtain ⟨v, hv⟩ := Series.get?_isSome hf (hl ▸ hl')
      rw [hv]
      simp only [Series.get?, ← hl] at hv ⊢
      exact hv
    · obtain ⟨r, hr, hri, hrw, hrg⟩ := Series.reindex_spec ho first hf idx hidxnd na true
      refine ⟨r, hr, hri, hrw, ?_⟩
      intro l hl'
      rw [hrg l, if_pos hl']
  obtain ⟨post, hpostE, hpi, hpw, hpg⟩ := hpost
  obtain ⟨hli, hlw, hlg⟩ := seriesOverlayLoop_spec ho isna post rest hpw
  refine ⟨seriesOverlayLoop o isna post rest, ?_, hlw, by rw [hli, hpi], ?_⟩
  · unfold seriesFromOverlay
    simp only [List.map_cons, hidxE, hpostE]
  · intro l hl
    rw [hli, hpi] at hl
    exact hlg l (hpi ▸ hl) _ (hpg l hl)

/-! ### Frame.from_overlay -/

theorem overlayColumn_spec {o : PyOrd α} (ho : o.Lawful) (na : β) (index : Idx α) (hi : index.labels.Nodup)
    (c : Frame α β) (hc : c.WF) (col : α) :
    ∃ vs, overlayColumn o na index c col = .ok vs ∧ vs.length = index.labels.length ∧
      ∀ x ∈ index.labels, lookup index.labels vs x = some ((c.get? x col).getD na) := by
  unfold overlayColumn
  cases hlk : lookup c.columns.labels c.cols col with
  | none =>
    refine ⟨_, rfl, by simp, ?_⟩
    intro x hx
    simp only [Frame.get?, hlk, Option.getD_none]
    exact lookup_replicate hx na
  | some vs =>
    have hvl : vs.length = c.index.labels.length := hc.2.2.2 vs (Frame.col_mem hlk)
    obtain ⟨r, hr, hri, hrw, hrg⟩ := Series.reindex_spec ho (⟨c.index, vs⟩ : Series α β) ⟨hc.1, hvl⟩ index hi na true
    simp only [hr, Except.map]
    refine ⟨r.values, rfl, by rw [hrw.2, hri], ?_⟩
    intro x hx
    have := hrg x
    rw [if_pos hx] at this
    simp only [Series.get?, hri] at this
    rw [this]
    simp only [Frame.get?, hlk, Series.get?]

theorem mapMExcept_exists {γ δ : Type} {f : γ → Except Err δ} {l : List γ} (h : ∀ x ∈ l, ∃ y, f x = .ok y) :
    ∃ ys, mapMExcept f l = .ok ys ∧ ys.length = l.length ∧
      ∀ (i : Nat) (hi : i < l.length) (hi' : i < ys.length), f l[i] = .ok ys[i] := by
  induction l with
  | nil => exact ⟨[], rfl, rfl, fun i hi => by simp at hi⟩
  | cons x xs ih =>
    obtain ⟨y, hy⟩ := h x (by simp)
    obtain ⟨ys, hys, hlen, hget⟩ := ih (fun z hz => h z (by simp [hz]))
    refine ⟨y :: ys, by simp [mapMExcept, hy, hys], by simp [hlen], ?_⟩
    intro i hi hi'
    cases i with
    | zero => simpa using hy
    | succ i => simpa using hget i (by simpa using hi) (by simpa using hi')

theorem lookup_fillnaBy (isna : β → Bool) (ls : List α) (ps vs : List β) (x : α) (p v : β)
    (hp : lookup ls ps x = some p) (hv : lookup ls vs x = some v) :
    lookup ls (fillnaBy isna ps vs) x = some (if isna p then v else p) := by
  unfold fillnaBy
  exact lookup_zipWith' (g := fun p v => if isna p then v else p) hp hv

/-- one round of the Frame overlay -/
theorem frameOverlay_step {o : PyOrd α} (ho : o.Lawful) (isna : β → Bool) (na : β) (post c : Frame α β)
    (hp : post.WF) (hc : c.WF) :
    ∃ vals, mapMExcept (overlayColumn o na post.index c) post.columns.labels = .ok vals ∧
      (⟨post.index, post.columns, List.zipWith (fillnaBy isna) post.cols vals⟩ : Frame α β).WF ∧
      ∀ x ∈ post.index.labels, ∀ col ∈ post.columns.labels, ∀ p, post.get? x col = some p →
        (⟨post.index, post.columns, List.zipWith (fillnaBy isna) post.cols vals⟩ : Frame α β).get? x col =
          some (if isna p then (c.get? x col).getD na else p) := by
  obtain ⟨vals, hvals, hvlen, hvget⟩ := mapMExcept_exists (f := overlayColumn o na post.index c)
    (l := post.columns.labels) (fun col _ => by
      obtain ⟨vs, h1, _, _⟩ := overlayColumn_spec ho na post.index hp.1 c hc col
      exact ⟨vs, h1⟩)
  -- every aligned column has the right length and the right cells
  have hcolspec : ∀ (j : Nat) (hj : j < post.columns.labels.length) (hj' : j < vals.length),
      vals[j].length = post.index.labels.length ∧
      ∀ x ∈ post.index.labels, lookup post.index.labels vals[j] x =
        some ((c.get? x post.columns.labels[j]).getD na) := by
    intro j hj hj'
    obtain ⟨vs, h1, h2, h3⟩ := overlayColumn_spec ho na post.index hp.1 c hc post.columns.labels[j]
    have := hvget j hj hj'
    rw [h1] at this
    cases this
    exact ⟨h2, h3⟩
  refine ⟨vals, hvals, ⟨hp.1, hp.2.1, ?_, ?_⟩, ?_⟩
  · simp [List.length_zipWith, hvlen, hp.2.2.1]
  · intro col hcol
    obtain ⟨j, hj, rfl⟩ := List.mem_iff_getElem.mp hcol
    simp only [List.length_zipWith] at hj
    have hj1 : j < post.cols.length := by omega
    have hj2 : j < vals.length := by omega
    simp only [List.getElem_zipWith, fillnaBy, List.length_zipWith]
    rw [hp.2.2.2 _ (List.getElem_mem hj1), (hcolspec j (by rw [← hp.2.2.1]; exact hj1) hj2).1]
    simp
  · intro x hx col hcol p hpc
    -- the column of `col` in post and in vals
    have hj : post.columns.labels.idxOf col < post.columns.labels.length := List.idxOf_lt_length_iff.mpr hcol
    have hj1 : post.columns.labels.idxOf col < post.cols.length := by rw [hp.2.2.1]; exact hj
    have hj2 : post.columns.labels.idxOf col < vals.length := by rw [hvlen]; exact hj
    have hpcol : lookup post.columns.labels post.cols col = some post.cols[post.columns.labels.idxOf col] := by
      rw [lookup_of_mem hcol, List.getElem?_eq_getElem hj1]
    have hvcol : lookup post.columns.labels vals col = some vals[post.columns.labels.idxOf col] := by
      rw [lookup_of_mem hcol, List.getElem?_eq_getElem hj2]
    have hcs := hcolspec _ hj hj2
    rw [List.getElem_idxOf hj] at hcs
    simp only [Frame.get?, hpcol] at hpc
    simp only [Frame.get?, lookup_zipWith' (g := fillnaBy isna) hpcol hvcol]
    exact lookup_fillnaBy isna _ _ _ x p _ hpc (hcs.2 x hx)

/-- the loop of `Frame.from_overlay`, early exit included -/
theorem frameOverlayLoop_spec {o : PyOrd α} (ho : o.Lawful) (isna : β → Bool) (na : β) (post : Frame α β)
    (rest : List (Frame α β)) (hp : post.WF) (hcols : post.columns.labels ≠ []) (hrest : ∀ c ∈ rest, c.WF) :
    ∃ r, frameOverlayLoop o isna na post rest = .ok r ∧ r.index = post.index ∧ r.columns = post.columns ∧
      r.WF ∧ ∀ x ∈ post.index.labels, ∀ col ∈ post.columns.labels, ∀ p, post.get? x col = some p →
        r.get? x col = some (overlayCellF isna na p (rest.map (·.get? x col))) := by
  induction rest generalizing post with
  | nil => exact ⟨post, rfl, rfl, rfl, hp, fun x _ col _ p hpc => by simpa [overlayCellF] using hpc⟩
  | cons c cs ih =>
    obtain ⟨vals, hvals, hw', hg'⟩ := frameOverlay_step ho isna na post c hp (hrest c (by simp))
    unfold frameOverlayLoop
    simp only [hvals]
    have hnonempty : (List.zipWith (fillnaBy isna) post.cols vals).isEmpty = false := by
      have hl : (List.zipWith (fillnaBy isna) post.cols vals).length = post.columns.labels.length := hw'.2.2.1
      cases hz : List.zipWith (fillnaBy isna) post.cols vals with
      | nil =>
        rw [hz] at hl
        exact absurd (List.length_eq_zero_iff.mp hl.symm) hcols
      | cons _ _ => rfl
    rw [hnonempty]
    simp only [Bool.false_eq_true, if_false]
    split
    · -- early exit
      rename_i hdone
      refine ⟨_, rfl, rfl, rfl, hw', ?_⟩
      intro x hx col hcol p hpc
      rw [hg' x hx col hcol p hpc]
      simp only [List.map_cons, overlayCellF]
      congr 1
      symm
      apply overlayCellF_of_not_na
      -- the new cell is a member of a column of the new frame
      have hcell := hg' x hx col hcol p hpc
      simp only [Frame.get?] at hcell
      cases hlk : lookup post.columns.labels (List.zipWith (fillnaBy isna) post.cols vals) col with
      | none => rw [hlk] at hcell; cases hcell
      | some colv =>
        rw [hlk] at hcell
        simp only [] at hcell
        have hm1 : colv ∈ List.zipWith (fillnaBy isna) post.cols vals := by
          rw [lookup_of_mem hcol] at hlk
          exact List.mem_of_getElem? hlk
        have hm2 : (if isna p = true then (c.get? x col).getD na else p) ∈ colv := by
          rw [lookup_of_mem hx] at hcell
          exact List.mem_of_getElem? hcell
        have h0 : (List.zipWith (fillnaBy isna) post.cols vals).any (fun col => col.any isna) = false := by
          simpa using hdone
        have h1 := List.any_eq_false.mp h0 colv hm1
        cases h : isna (if isna p = true then (c.get? x col).getD na else p) with
        | false => rfl
        | true => exact absurd (List.any_eq_true.mpr ⟨_, hm2, h⟩) h1
    · obtain ⟨r, hr, hri, hrc, hrw, hrg⟩ := ih
        (⟨post.index, post.columns, List.zipWith (fillnaBy isna) post.cols vals⟩ : Frame α β) hw' hcols
        (fun c' hc' => hrest c' (by simp [hc']))
      refine ⟨r, hr, hri, hrc, hrw, ?_⟩
      intro x hx col hcol p hpc
      rw [hrg x hx col hcol _ (hg' x hx col hcol p hpc)]
      rfl

/-- `Frame.from_overlay`: per cell the first non-missing value in input order. -/
theorem frameFromOverlay_spec {o : PyOrd α} (ho : o.Lawful) (isna : β → Bool) (na : β)
    (first : Frame α β) (rest : List (Frame α β)) (index columns : Option (Idx α)) (union : Bool)
    (hwf : ∀ f ∈ first :: rest, f.WF) (hidx : ∀ i, index = some i → i.labels.Nodup)
    (hcol : ∀ i, columns = some i → i.labels.Nodup)
    (hne : (overlayTarget o union ((first :: rest).map fun (f : Frame α β) => f.columns) columns).labels ≠ []) :
    ∃ r, frameFromOverlay o isna na (first :: rest) index columns union = .ok r ∧ r.WF ∧
      r.index = overlayTarget o union ((first :: rest).map fun (f : Frame α β) => f.index) index ∧
      r.columns = overlayTarget o union ((first :: rest).map fun (f : Frame α β) => f.columns) columns ∧
      ∀ x ∈ r.index.labels, ∀ c ∈ r.columns.labels,
        r.get? x c = some (overlayCellF isna na ((first.get? x c).getD na) (rest.map (·.get? x c))) := by
  have hndi : ∀ i ∈ first.index :: rest.map (fun (f : Frame α β) => f.index), i.labels.Nodup := by
    intro i hi
    rcases List.mem_cons.mp hi with rfl | hi
    · exact (hwf first (by simp)).1
    · obtain ⟨s, hs, rfl⟩ := List.mem_map.mp hi
      exact (hwf s (by simp [hs])).1
  have hndc : ∀ i ∈ first.columns :: rest.map (fun (f : Frame α β) => f.columns), i.labels.Nodup := by
    intro i hi
    rcases List.mem_cons.mp hi with rfl | hi
    · exact (hwf first (by simp)).2.1
    · obtain ⟨s, hs, rfl⟩ := List.mem_map.mp hi
      exact (hwf s (by simp [hs])).2.1
  obtain ⟨hiE, hidxnd⟩ := overlayTarget_spec ho union first.index (rest.map fun (f : Frame α β) => f.index)
    index hndi hidx
  obtain ⟨hcE, hcolnd⟩ := overlayTarget_spec ho union first.columns (rest.map fun (f : Frame α β) => f.columns)
    columns hndc hcol
  have hm1 : (first :: rest).map (fun (f : Frame α β) => f.index) =
      first.index :: rest.map (fun (f : Frame α β) => f.index) := rfl
  have hm2 : (first :: rest).map (fun (f : Frame α β) => f.columns) =
      first.columns :: rest.map (fun (f : Frame α β) => f.columns) := rfl
  simp only [List.map_cons] at hne ⊢
  generalize overlayTarget o union (first.index :: rest.map fun (f : Frame α β) => f.index) index = idx
    at hiE hidxnd
  generalize overlayTarget o union (first.columns :: rest.map fun (f : Frame α β) => f.columns) columns = cols
    at hcE hcolnd hne
  obtain ⟨post, hpost, hpw, hpi, hpc, hpg⟩ := Frame.reindex_spec ho first (hwf first (by simp))
    (some idx) (some cols) (fun _ h => by cases h; exact hidxnd) (fun _ h => by cases h; exact hcolnd) na
  simp only [Option.getD_some] at hpi hpc
  obtain ⟨r, hr, hri, hrc, hrw, hrg⟩ := frameOverlayLoop_spec ho isna na post rest hpw (hpc ▸ hne)
    (fun c hc => hwf c (by simp [hc]))
  refine ⟨r, ?_, hrw, by rw [hri, hpi], by rw [hrc, hpc], ?_⟩
  · unfold frameFromOverlay
    simp only [List.map_cons, hiE, hcE, hpost, hr]
  · intro x hx c hc
    rw [hri] at hx
    rw [hrc] at hc
    exact hrg x hx c hc _ (hpg x hx c hc)

end

end Concat
end SF
